// Package vh is the harness runtime shared by every adapter binary.
//
// A binary registers adapters and calls Main.  Sub-commands:
//
//	<bin> worker <adapter>            read one case (JSON) per stdin line, write one verdict per line
//	<bin> run <adapter> --cases f --out f [--workers n] [--timeout-ms t] [--seed s]
//	                                  parent: runs every case in worker child processes so that a
//	                                  fatal error (goroutine panic, stack overflow) or a hang is an
//	                                  observation for that case only
//	<bin> <tool> ...                  adapter specific tools registered with Tool
package vh

import (
	"bufio"
	"bytes"
	"encoding/json"
	"flag"
	"fmt"
	"io"
	"os"
	"os/exec"
	"runtime/debug"
	"sort"
	"strings"
	"sync"
	"time"
)

// Verdict is what an adapter says about one case.
type Verdict struct {
	ID    int            `json:"id"`
	OK    bool           `json:"ok"`
	Msg   string         `json:"msg,omitempty"`   // human readable mismatch
	Key   string         `json:"key,omitempty"`   // canonical identity of the failure (known-finding lookup)
	Obs   interface{}    `json:"obs,omitempty"`   // what the real code did
	Stats map[string]int `json:"stats,omitempty"` // counters merged into the evidence
	Ms    int64          `json:"ms,omitempty"`
}

// Adapter executes one case on the real code and judges it against the expectation in the case.
type Adapter interface {
	Run(data json.RawMessage) Verdict
}

type AdapterFunc func(data json.RawMessage) Verdict

func (f AdapterFunc) Run(d json.RawMessage) Verdict { return f(d) }

var adapters = map[string]func() Adapter{}
var tools = map[string]func(args []string) int{}

// Seed is the value of --seed / VERIF_SEED for adapters that need randomness.
var Seed int64 = 1

func Register(name string, mk func() Adapter) { adapters[name] = mk }
func RegisterFunc(name string, f func(data json.RawMessage) Verdict) {
	adapters[name] = func() Adapter { return AdapterFunc(f) }
}
func Tool(name string, f func(args []string) int) { tools[name] = f }

func Fail(key, format string, args ...interface{}) Verdict {
	return Verdict{OK: false, Key: key, Msg: fmt.Sprintf(format, args...)}
}
func Pass() Verdict { return Verdict{OK: true} }

type caseLine struct {
	ID   int             `json:"id"`
	Data json.RawMessage `json:"-"`
}

func Main() {
	if len(os.Args) < 2 {
		fmt.Fprintln(os.Stderr, "usage: worker|run <adapter> ...")
		os.Exit(2)
	}
	switch os.Args[1] {
	case "worker":
		os.Exit(workerMain(os.Args[2:]))
	case "run":
		os.Exit(runMain(os.Args[2:]))
	default:
		if t, ok := tools[os.Args[1]]; ok {
			os.Exit(t(os.Args[2:]))
		}
		fmt.Fprintln(os.Stderr, "unknown command", os.Args[1])
		os.Exit(2)
	}
}

func safeRun(a Adapter, data json.RawMessage) (v Verdict) {
	defer func() {
		if r := recover(); r != nil {
			st := string(debug.Stack())
			v = Verdict{OK: false, Key: "panic:" + PanicSite(st), Msg: fmt.Sprintf("panic: %v\n%s", r, trimStack(st))}
		}
	}()
	return a.Run(data)
}

// PanicSite extracts the first b6 frame of a stack trace ("pkg.Func") for use in failure keys.
func PanicSite(stack string) string {
	for _, line := range strings.Split(stack, "\n") {
		line = strings.TrimSpace(line)
		if strings.HasPrefix(line, "diagonal.works/b6") {
			if i := strings.LastIndex(line, "("); i > 0 {
				line = line[:i]
			}
			return strings.TrimPrefix(line, "diagonal.works/")
		}
	}
	return "unknown"
}

func trimStack(st string) string {
	lines := strings.Split(st, "\n")
	if len(lines) > 40 {
		lines = lines[:40]
	}
	return strings.Join(lines, "\n")
}

func workerMain(args []string) int {
	fs := flag.NewFlagSet("worker", flag.ExitOnError)
	seed := fs.Int64("seed", 1, "seed")
	if len(args) < 1 {
		return 2
	}
	name := args[0]
	fs.Parse(args[1:])
	Seed = *seed
	mk, ok := adapters[name]
	if !ok {
		fmt.Fprintln(os.Stderr, "unknown adapter", name)
		return 2
	}
	a := mk()
	in := bufio.NewReaderSize(os.Stdin, 1<<20)
	out := bufio.NewWriter(os.Stdout)
	for {
		line, err := in.ReadBytes('\n')
		if len(bytes.TrimSpace(line)) > 0 {
			var idOnly struct {
				ID int `json:"id"`
			}
			json.Unmarshal(line, &idOnly)
			t0 := time.Now()
			v := safeRun(a, json.RawMessage(line))
			v.ID = idOnly.ID
			v.Ms = time.Since(t0).Milliseconds()
			b, merr := json.Marshal(v)
			if merr != nil {
				b, _ = json.Marshal(Verdict{ID: idOnly.ID, OK: false, Key: "harness-marshal", Msg: merr.Error()})
			}
			out.Write(b)
			out.WriteByte('\n')
			out.Flush()
		}
		if err != nil {
			break
		}
	}
	return 0
}

type workerProc struct {
	cmd    *exec.Cmd
	stdin  io.WriteCloser
	stdout *bufio.Reader
	stderr *tailBuffer
}

type tailBuffer struct {
	mu   sync.Mutex
	head []byte
	buf  []byte
}

func (t *tailBuffer) Write(p []byte) (int, error) {
	t.mu.Lock()
	defer t.mu.Unlock()
	if len(t.head) < 6144 {
		n := 6144 - len(t.head)
		if n > len(p) {
			n = len(p)
		}
		t.head = append(t.head, p[:n]...)
		p2 := p[n:]
		t.buf = append(t.buf, p2...)
	} else {
		t.buf = append(t.buf, p...)
	}
	if len(t.buf) > 8192 {
		t.buf = t.buf[len(t.buf)-8192:]
	}
	return len(p), nil
}
func (t *tailBuffer) String() string {
	t.mu.Lock()
	defer t.mu.Unlock()
	if len(t.buf) == 0 {
		return string(t.head)
	}
	return string(t.head) + "\n...\n" + string(t.buf)
}

// HeadTail keeps the first and last part of a fatal error report: the head names the error and the
// first goroutine, which is what identifies the failing call site.
func headTail(s string) string {
	if len(s) <= 6000 {
		return s
	}
	return s[:3000] + "\n...\n" + s[len(s)-2500:]
}

func startWorker(name string, seed int64) (*workerProc, error) {
	cmd := exec.Command(os.Args[0], "worker", name, "--seed", fmt.Sprint(seed))
	stdin, err := cmd.StdinPipe()
	if err != nil {
		return nil, err
	}
	so, err := cmd.StdoutPipe()
	if err != nil {
		return nil, err
	}
	tb := &tailBuffer{}
	cmd.Stderr = tb
	if err := cmd.Start(); err != nil {
		return nil, err
	}
	return &workerProc{cmd: cmd, stdin: stdin, stdout: bufio.NewReaderSize(so, 1<<20), stderr: tb}, nil
}

func (w *workerProc) kill() {
	if w == nil || w.cmd == nil || w.cmd.Process == nil {
		return
	}
	w.cmd.Process.Kill()
	w.cmd.Wait()
}

func runMain(args []string) int {
	if len(args) < 1 {
		return 2
	}
	name := args[0]
	fs := flag.NewFlagSet("run", flag.ExitOnError)
	casesPath := fs.String("cases", "", "ndjson file of cases")
	outPath := fs.String("out", "", "ndjson verdicts")
	nworkers := fs.Int("workers", 8, "parallel worker processes")
	timeoutMs := fs.Int("timeout-ms", 20000, "per case deadline")
	seed := fs.Int64("seed", 1, "seed")
	fs.Parse(args[1:])
	if _, ok := adapters[name]; !ok {
		fmt.Fprintln(os.Stderr, "unknown adapter", name)
		return 2
	}
	f, err := os.Open(*casesPath)
	if err != nil {
		fmt.Fprintln(os.Stderr, err)
		return 2
	}
	defer f.Close()
	of, err := os.Create(*outPath)
	if err != nil {
		fmt.Fprintln(os.Stderr, err)
		return 2
	}
	defer of.Close()
	ow := bufio.NewWriter(of)
	var omu sync.Mutex

	type job struct {
		id   int
		line []byte
	}
	jobs := make(chan job, 64)
	var wg sync.WaitGroup
	var nfail, ncrash, ntimeout, total int64
	var cmu sync.Mutex
	for i := 0; i < *nworkers; i++ {
		wg.Add(1)
		go func() {
			defer wg.Done()
			var w *workerProc
			defer func() { w.kill() }()
			for j := range jobs {
				if w == nil {
					var err error
					w, err = startWorker(name, *seed)
					if err != nil {
						fmt.Fprintln(os.Stderr, "cannot start worker:", err)
						os.Exit(2)
					}
				}
				type reply struct {
					line []byte
					err  error
				}
				ch := make(chan reply, 1)
				_, werr := w.stdin.Write(j.line)
				if werr == nil {
					go func(w *workerProc) {
						l, err := w.stdout.ReadBytes('\n')
						ch <- reply{l, err}
					}(w)
				} else {
					ch <- reply{nil, werr}
				}
				var v Verdict
				select {
				case r := <-ch:
					if r.err != nil || json.Unmarshal(r.line, &v) != nil {
						// the worker died: a fatal error in the code under test
						w.cmd.Wait()
						st := w.stderr.String()
						v = Verdict{ID: j.id, OK: false, Key: "crash:" + crashSite(st), Msg: "worker process died: " + headTail(st)}
						w = nil
						cmu.Lock()
						ncrash++
						cmu.Unlock()
					}
				case <-time.After(time.Duration(*timeoutMs) * time.Millisecond):
					w.kill()
					w = nil
					v = Verdict{ID: j.id, OK: false, Key: "timeout", Msg: fmt.Sprintf("no answer within %d ms (hang or divergence)", *timeoutMs)}
					cmu.Lock()
					ntimeout++
					cmu.Unlock()
				}
				v.ID = j.id
				b, _ := json.Marshal(v)
				omu.Lock()
				ow.Write(b)
				ow.WriteByte('\n')
				// flush as we go: if the whole run is killed for taking too long, the verdicts reached so far still count
				ow.Flush()
				omu.Unlock()
				cmu.Lock()
				total++
				if !v.OK {
					nfail++
				}
				cmu.Unlock()
			}
		}()
	}
	rd := bufio.NewReaderSize(f, 1<<20)
	n := 0
	for {
		line, err := rd.ReadBytes('\n')
		if len(bytes.TrimSpace(line)) > 0 {
			if line[len(line)-1] != '\n' {
				line = append(line, '\n')
			}
			var idOnly struct {
				ID *int `json:"id"`
			}
			json.Unmarshal(line, &idOnly)
			id := n
			if idOnly.ID != nil {
				id = *idOnly.ID
			}
			jobs <- job{id, line}
			n++
		}
		if err != nil {
			break
		}
	}
	close(jobs)
	wg.Wait()
	ow.Flush()
	fmt.Printf("{\"cases\":%d,\"failed\":%d,\"crashed\":%d,\"timeouts\":%d}\n", total, nfail, ncrash, ntimeout)
	return 0
}

// crashSite names the fatal error and the first b6 frame of a dead worker's stderr.
func crashSite(st string) string {
	kind := "unknown"
	if strings.Contains(st, "WARNING: DATA RACE") {
		// the race detector (only in binaries built with -race, GORACE=halt_on_error=1) stopped the worker
		return "data-race@" + PanicSite(st)
	}
	for _, line := range strings.Split(st, "\n") {
		if strings.HasPrefix(line, "fatal error:") || strings.HasPrefix(line, "panic:") {
			kind = strings.TrimSpace(line)
			if len(kind) > 60 {
				kind = kind[:60]
			}
			break
		}
	}
	return kind + "@" + PanicSite(st)
}

// ---- helpers used by adapters ----

// Canon renders any JSON-able value canonically (maps sorted) for comparison and hashing.
func Canon(v interface{}) string {
	b, err := json.Marshal(v)
	if err != nil {
		return "!" + err.Error()
	}
	var x interface{}
	json.Unmarshal(b, &x)
	b, _ = json.Marshal(x)
	return string(b)
}

// SortedKeys returns the keys of a string map, sorted.
func SortedKeys[V any](m map[string]V) []string {
	ks := make([]string, 0, len(m))
	for k := range m {
		ks = append(ks, k)
	}
	sort.Strings(ks)
	return ks
}

// Catch runs f and returns the panic value (as a string with the first b6 frame) if it panicked.
func Catch(f func()) (panicked string) {
	defer func() {
		if r := recover(); r != nil {
			panicked = fmt.Sprintf("panic: %v @%s", r, PanicSite(string(debug.Stack())))
		}
	}()
	f()
	return ""
}
