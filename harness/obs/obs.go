// Package obs is the observation projection shared by every world property (DESIGN.md 4.4) and the
// concretisation of the specifications' abstract worlds (spec/World.tla) into real b6 features.
//
// Abstract IDs are short names: "P3" (point), "W1" (path), "A1" (area), "R1" (relation), "C1" (collection).
// Points sit on the vertices of a regular polygon (Vertex), so loop validity and orientation are decided
// by the vertex index sequence alone.
package obs

import (
	"encoding/json"
	"fmt"
	"math"
	"sort"
	"strconv"
	"strings"
	"sync"
	"time"

	"diagonal.works/b6"
	"diagonal.works/b6/ingest"
	"github.com/golang/geo/s2"
)

// Namespace used for every model feature unless a name carries its own (see ID).
const Namespace b6.Namespace = "diagonal.works/verif"

// HarnessTagKey is a tag the harness itself puts on features (a list-valued tag whose elements the caller overwrites
// later, C38); it is outside the model's key universe and not part of the observation.
const HarnessTagKey = "zl"

// Namespace2 sorts before Namespace.
const Namespace2 b6.Namespace = "a.verif/ns2"

// AFeature is a feature of the abstract world (spec/World.tla).
type AFeature struct {
	Kind    string            `json:"kind"`
	V       int               `json:"v"`
	Pts     []string          `json:"pts"`
	Polys   [][]string        `json:"polys"`
	Members []string          `json:"members"`
	Tags    map[string]string `json:"tags"`
}

// AWorld maps names to features; absent features have Kind "absent".
type AWorld map[string]AFeature

func typeOf(letter byte) b6.FeatureType {
	switch letter {
	case 'P':
		return b6.FeatureTypePoint
	case 'W':
		return b6.FeatureTypePath
	case 'A':
		return b6.FeatureTypeArea
	case 'R':
		return b6.FeatureTypeRelation
	case 'C':
		return b6.FeatureTypeCollection
	}
	return b6.FeatureTypeInvalid
}

func letterOf(t b6.FeatureType) string {
	switch t {
	case b6.FeatureTypePoint:
		return "P"
	case b6.FeatureTypePath:
		return "W"
	case b6.FeatureTypeArea:
		return "A"
	case b6.FeatureTypeRelation:
		return "R"
	case b6.FeatureTypeCollection:
		return "C"
	}
	return "?"
}

// OSMScheme switches the name <-> ID mapping to OpenStreetMap namespaces (spec/OSMMap.tla): the number in a name
// is the OSM id; P -> point/node, W -> path/way, A<n> (n < 100) -> area in the way namespace, A<100+r> -> area in
// the relation namespace, R -> relation.  Set once per worker process before any case runs.
var OSMScheme = false

// ID maps a name to the concrete feature ID. Default scheme: value = number + 1 (never zero).
func ID(name string) b6.FeatureID {
	if len(name) < 2 {
		return b6.FeatureIDInvalid
	}
	n, err := strconv.Atoi(name[1:])
	if err != nil {
		return b6.FeatureIDInvalid
	}
	if OSMScheme {
		switch name[0] {
		case 'P':
			return b6.FeatureID{Type: b6.FeatureTypePoint, Namespace: b6.NamespaceOSMNode, Value: uint64(n)}
		case 'W':
			return b6.FeatureID{Type: b6.FeatureTypePath, Namespace: b6.NamespaceOSMWay, Value: uint64(n)}
		case 'A':
			if n >= 100 {
				return b6.FeatureID{Type: b6.FeatureTypeArea, Namespace: b6.NamespaceOSMRelation, Value: uint64(n - 100)}
			}
			return b6.FeatureID{Type: b6.FeatureTypeArea, Namespace: b6.NamespaceOSMWay, Value: uint64(n)}
		case 'R':
			return b6.FeatureID{Type: b6.FeatureTypeRelation, Namespace: b6.NamespaceOSMRelation, Value: uint64(n)}
		}
		return b6.FeatureIDInvalid
	}
	if n >= 80 && name[0] == 'P' {
		// points numbered from 80 are OSM nodes: the compact format codes references to points of THAT namespace
		// (the "primary" one of every path block) as deltas, all other namespaces verbatim
		return b6.FeatureID{Type: b6.FeatureTypePoint, Namespace: b6.NamespaceOSMNode, Value: uint64(1000 + n)}
	}
	if n >= 50 {
		// names numbered from 50 live in a second namespace that sorts BEFORE the first while their values are
		// larger: ID order (type, namespace, value) and value order disagree
		return b6.FeatureID{Type: typeOf(name[0]), Namespace: Namespace2, Value: uint64(1000 + n)}
	}
	return b6.FeatureID{Type: typeOf(name[0]), Namespace: Namespace, Value: uint64(n + 1)}
}

// Name is the inverse of ID; IDs outside the model render as their string form.
func Name(id b6.FeatureID) string {
	if OSMScheme {
		switch {
		case id.Type == b6.FeatureTypePoint && id.Namespace == b6.NamespaceOSMNode:
			return "P" + strconv.Itoa(int(id.Value))
		case id.Type == b6.FeatureTypePath && id.Namespace == b6.NamespaceOSMWay:
			return "W" + strconv.Itoa(int(id.Value))
		case id.Type == b6.FeatureTypeArea && id.Namespace == b6.NamespaceOSMWay && id.Value < 100:
			return "A" + strconv.Itoa(int(id.Value))
		case id.Type == b6.FeatureTypeArea && id.Namespace == b6.NamespaceOSMRelation:
			return "A" + strconv.Itoa(int(id.Value)+100)
		case id.Type == b6.FeatureTypeRelation && id.Namespace == b6.NamespaceOSMRelation:
			return "R" + strconv.Itoa(int(id.Value))
		}
		return id.String()
	}
	if id.Namespace == Namespace && id.Value >= 1 && letterOf(id.Type) != "?" {
		return letterOf(id.Type) + strconv.Itoa(int(id.Value-1))
	}
	if id.Namespace == b6.NamespaceOSMNode && id.Type == b6.FeatureTypePoint && id.Value >= 1080 {
		return "P" + strconv.Itoa(int(id.Value-1000))
	}
	if id.Namespace == Namespace2 && id.Value >= 1050 && letterOf(id.Type) != "?" {
		return letterOf(id.Type) + strconv.Itoa(int(id.Value-1000))
	}
	return id.String()
}

// NV is the number of polygon vertices available to models.
const NV = 12

var vertices [NV]s2.LatLng

var frameName string
var frameSet bool

// FrameName is the frame set last.
func FrameName() string { return frameName }

func init() { SetFrame("") }

// SetFrame places the polygon: "" / "london" (the default), "antimeridian" (the vertices straddle longitude 180,
// longitudes wrap) or "origin" (around 0,0, with vertex 4 EXACTLY latitude 0, longitude 0 - the zero LatLng).
func SetFrame(name string) {
	if frameSet && name == frameName {
		return // nothing is written: goroutines a previous case left behind may still be reading the vertices
	}
	frameSet = true
	frameName = name
	const r = 0.0009
	lat0, lng0 := 51.5300000, -0.1200000
	switch name {
	case "antimeridian":
		lat0, lng0 = -17.8000000, 180.0000000
	case "origin":
		// vertex 4 is exactly latitude 0, longitude 0 (the zero value of s2.LatLng)
		th := 2 * math.Pi * 4 / NV
		lat0, lng0 = -r*math.Sin(th), -r*1.6*math.Cos(th)
	}
	for i := 0; i < NV; i++ {
		th := 2 * math.Pi * float64(i) / NV
		lat := math.Round((lat0+r*math.Sin(th))*1e7) / 1e7
		lng := math.Round((lng0+r*1.6*math.Cos(th))*1e7) / 1e7
		if lng > 180 {
			lng = math.Round((lng-360)*1e7) / 1e7
		}
		vertices[i] = s2.LatLngFromDegrees(lat, lng)
	}
	if name == "origin" {
		vertices[4] = s2.LatLngFromDegrees(0, 0)
	}
}

// Vertex returns the location of polygon vertex i (E7-exact, counter-clockwise with increasing i).
func Vertex(i int) s2.LatLng { return vertices[((i%NV)+NV)%NV] }

// VertexOf is the inverse of Vertex at E7 precision; -2 if the location is not a vertex.
func VertexOf(ll s2.LatLng) int {
	for i := 0; i < NV; i++ {
		if e7(ll.Lat.Degrees()) == e7(vertices[i].Lat.Degrees()) && e7(ll.Lng.Degrees()) == e7(vertices[i].Lng.Degrees()) {
			return i
		}
	}
	return -2
}

func e7(d float64) int64 { return int64(math.Round(d * 1e7)) }

// TagList converts an abstract tag map into b6 tags in key order ("-" = absent).
func TagList(tags map[string]string) b6.Tags {
	keys := make([]string, 0, len(tags))
	for k, v := range tags {
		if v != "-" {
			keys = append(keys, k)
		}
	}
	sort.Strings(keys)
	out := make(b6.Tags, 0, len(keys)+1)
	for _, k := range keys {
		out = append(out, b6.Tag{Key: k, Value: b6.NewStringExpression(tags[k])})
	}
	return out
}

// ToIngest builds the ingest feature for an abstract feature. Path points named "L<n>" are inline lat/lngs at
// vertex n rather than references.
func ToIngest(name string, f AFeature) ingest.Feature {
	id := ID(name)
	switch f.Kind {
	case "point":
		g := &ingest.GenericFeature{ID: id, Tags: TagList(f.Tags)}
		g.ModifyOrAddTag(b6.Tag{Key: b6.PointTag, Value: b6.NewPointExpressionFromLatLng(Vertex(f.V))})
		return g
	case "path":
		g := &ingest.GenericFeature{ID: id, Tags: TagList(f.Tags)}
		pts := make([]b6.AnyExpression, 0, len(f.Pts))
		for _, p := range f.Pts {
			if strings.HasPrefix(p, "L") {
				n, _ := strconv.Atoi(p[1:])
				pts = append(pts, b6.PointExpression(Vertex(n)))
			} else {
				pts = append(pts, b6.FeatureIDExpression(ID(p)))
			}
		}
		g.ModifyOrAddTag(b6.Tag{Key: b6.PathTag, Value: b6.NewExpressions(pts)})
		return g
	case "area":
		a := ingest.NewAreaFeature(len(f.Polys))
		a.AreaID = id.ToAreaID()
		a.Tags = TagList(f.Tags)
		for i, poly := range f.Polys {
			ids := make([]b6.FeatureID, 0, len(poly))
			for _, p := range poly {
				ids = append(ids, ID(p))
			}
			a.SetPathIDs(i, ids)
		}
		return a
	case "rel":
		r := ingest.NewRelationFeature(len(f.Members))
		r.RelationID = id.ToRelationID()
		r.Tags = TagList(f.Tags)
		for i, m := range f.Members {
			r.Members[i] = b6.RelationMember{ID: ID(m), Role: "m" + strconv.Itoa(i%2)}
		}
		return r
	case "coll":
		c := &ingest.CollectionFeature{CollectionID: id.ToCollectionID(), Tags: TagList(f.Tags)}
		for i, m := range f.Members {
			c.Keys = append(c.Keys, ID(m))
			c.Values = append(c.Values, i)
		}
		return c
	}
	panic("obs.ToIngest: unknown kind " + f.Kind)
}

// SortedNames returns the present names of a world in b6.FeatureID order.
func SortedNames(names []string) []string {
	out := append([]string{}, names...)
	sort.Slice(out, func(i, j int) bool {
		a, b := ID(out[i]), ID(out[j])
		if a == b {
			return false
		}
		return a.Less(b)
	})
	return out
}

// Present lists the names of features that exist in w, in ID order.
func (w AWorld) Present() []string {
	var out []string
	for n, f := range w {
		if f.Kind != "absent" {
			out = append(out, n)
		}
	}
	return SortedNames(out)
}

// Query is the JSON form of a spec query (spec/World.tla Den).
type Query struct {
	K   string  `json:"k"`
	Key string  `json:"key"`
	Val string  `json:"val"`
	T   string  `json:"t"`
	Q   *Query  `json:"q"`
	Qs  []Query `json:"qs"`
}

func (q Query) ToB6() b6.Query {
	switch q.K {
	case "all":
		return b6.All{}
	case "tagged":
		return b6.Tagged{Key: q.Key, Value: b6.NewStringExpression(q.Val)}
	case "keyed":
		return b6.Keyed{Key: q.Key}
	case "typed":
		return b6.Typed{Type: typeOf(q.T[0]), Query: q.Q.ToB6()}
	case "and":
		out := make(b6.Intersection, 0, len(q.Qs))
		for _, s := range q.Qs {
			out = append(out, s.ToB6())
		}
		return out
	case "or":
		out := make(b6.Union, 0, len(q.Qs))
		for _, s := range q.Qs {
			out = append(out, s.ToB6())
		}
		return out
	}
	panic("obs: unknown query kind " + q.K)
}

// Observation is what a world says about a set of probe IDs; the same structure is computed from the
// abstract world by the specification (MutableWorld!Obs + eff).
type Observation struct {
	Features map[string]AFeature `json:"features"` // lookup by ID: existence, tags, geometry, members
	Search   map[string][]string `json:"search"`   // FindFeatures per battery query, in returned order
	Each     []string            `json:"each"`     // EachFeature IDs, sorted, duplicates kept
	Refs     map[string][]string `json:"refs"`     // FindReferences, sorted, duplicates kept
	Areas    map[string][]string `json:"areas"`    // FindAreasByPoint
	Rels     map[string][]string `json:"rels"`     // FindRelationsByFeature
	Colls    map[string][]string `json:"colls"`    // FindCollectionsByFeature
	Traverse map[string][]string `json:"traverse,omitempty"`
	Geometry map[string][]int    `json:"geometry,omitempty"` // resolved vertex indices of paths (Polyline) and areas (Polygon loops, -1 after each loop)
	Problems []string            `json:"problems,omitempty"` // panics and internal inconsistencies seen while observing
}

// Options selects which sections Observe fills.
type Options struct {
	Keys      []string // tag key universe: keys absent from a feature are reported as "-"
	Queries   map[string]Query
	Refs      bool
	Traverse  bool
	Each      bool
	EachCores int
	Geometry  bool
}

func guard(problems *[]string, what string, f func()) {
	defer func() {
		if r := recover(); r != nil {
			*problems = append(*problems, fmt.Sprintf("panic in %s: %v", what, r))
		}
	}()
	f()
}

// ObserveFeature projects one real feature onto the abstract record.
func ObserveFeature(w b6.World, name string, keys []string, problems *[]string) AFeature {
	out := AFeature{Kind: "absent", V: -1, Pts: []string{}, Polys: [][]string{}, Members: []string{}, Tags: map[string]string{}}
	for _, k := range keys {
		out.Tags[k] = "-"
	}
	id := ID(name)
	var f b6.Feature
	guard(problems, "FindFeatureByID "+name, func() { f = w.FindFeatureByID(id) })
	has := false
	guard(problems, "HasFeatureWithID "+name, func() { has = w.HasFeatureWithID(id) })
	if f == nil {
		if has {
			*problems = append(*problems, "HasFeatureWithID true but FindFeatureByID nil for "+name)
		}
		return out
	}
	if !has {
		*problems = append(*problems, "FindFeatureByID non-nil but HasFeatureWithID false for "+name)
	}
	if f.FeatureID() != id {
		*problems = append(*problems, fmt.Sprintf("FindFeatureByID(%s) returned feature with ID %s", name, f.FeatureID()))
	}
	guard(problems, "tags of "+name, func() {
		for _, t := range f.AllTags() {
			if t.Key == b6.PointTag || t.Key == b6.PathTag || t.Key == HarnessTagKey {
				continue
			}
			if _, dup := out.Tags[t.Key]; dup && out.Tags[t.Key] != "-" {
				*problems = append(*problems, "duplicate tag key "+t.Key+" on "+name)
			}
			out.Tags[t.Key] = t.Value.String()
			if g := f.Get(t.Key); !g.IsValid() || g.Value.String() != t.Value.String() {
				*problems = append(*problems, fmt.Sprintf("Get(%q) on %s disagrees with AllTags", t.Key, name))
			}
		}
		for _, k := range keys {
			if out.Tags[k] == "-" {
				if g := f.Get(k); g.IsValid() {
					*problems = append(*problems, fmt.Sprintf("Get(%q) on %s valid but key not in AllTags", k, name))
				}
			}
		}
	})
	switch id.Type {
	case b6.FeatureTypePoint:
		out.Kind = "point"
		guard(problems, "location of "+name, func() {
			if p, ok := f.(b6.PhysicalFeature); ok {
				out.V = VertexOf(s2.LatLngFromPoint(p.Point()))
			}
			ll, err := w.FindLocationByID(id)
			if err != nil {
				*problems = append(*problems, "FindLocationByID failed for existing point "+name)
			} else if VertexOf(ll) != out.V {
				*problems = append(*problems, "FindLocationByID disagrees with the point feature for "+name)
			}
		})
	case b6.FeatureTypePath:
		out.Kind = "path"
		guard(problems, "geometry of "+name, func() {
			p := f.(b6.PhysicalFeature)
			for i := 0; i < p.GeometryLen(); i++ {
				if ref := p.Reference(i).Source(); ref.IsValid() {
					out.Pts = append(out.Pts, Name(ref))
				} else {
					out.Pts = append(out.Pts, "L"+strconv.Itoa(VertexOf(s2.LatLngFromPoint(p.PointAt(i)))))
				}
			}
		})
	case b6.FeatureTypeArea:
		out.Kind = "area"
		guard(problems, "geometry of "+name, func() {
			a := f.(b6.AreaFeature)
			for i := 0; i < a.Len(); i++ {
				poly := []string{}
				if paths := a.Feature(i); paths != nil {
					for _, p := range paths {
						poly = append(poly, Name(p.FeatureID()))
					}
				} else {
					poly = append(poly, "polygon")
				}
				out.Polys = append(out.Polys, poly)
			}
		})
	case b6.FeatureTypeRelation:
		out.Kind = "rel"
		guard(problems, "members of "+name, func() {
			r := f.(b6.RelationFeature)
			for i := 0; i < r.Len(); i++ {
				out.Members = append(out.Members, Name(r.Member(i).ID))
			}
		})
	case b6.FeatureTypeCollection:
		out.Kind = "coll"
		guard(problems, "items of "+name, func() {
			c := f.(b6.CollectionFeature)
			it := c.BeginUntyped()
			for {
				ok, err := it.Next()
				if !ok || err != nil {
					break
				}
				if id, ok := it.Key().(b6.Identifiable); ok {
					out.Members = append(out.Members, Name(id.FeatureID()))
				} else {
					out.Members = append(out.Members, fmt.Sprint(it.Key()))
				}
			}
		})
	}
	return out
}

func featureNames(fs b6.Features) []string {
	return featureNamesChecked(fs, nil, nil, "")
}

// featureNamesChecked also compares every returned feature OBJECT with what the same world's FindFeatureByID
// returns for its ID (tags, and the geometry the object resolves): a search result is the feature, not only its ID.
func featureNamesChecked(fs b6.Features, w b6.World, problems *[]string, what string) []string {
	out := []string{}
	for fs.Next() {
		id := fs.FeatureID()
		if f := fs.Feature(); f == nil {
			out = append(out, Name(id)+"!nil")
		} else if f.FeatureID() != id {
			out = append(out, Name(id)+"!="+Name(f.FeatureID()))
		} else {
			out = append(out, Name(id))
			if w != nil {
				sameAsLookup(w, f, problems, what)
			}
		}
	}
	return out
}

// describe renders what a feature object says about itself: its tags and the geometry it resolves.
func describe(f b6.Feature) (tags string, geom string) {
	var ts []string
	for _, t := range f.AllTags() {
		if t.Key == b6.PointTag || t.Key == b6.PathTag {
			continue
		}
		ts = append(ts, t.Key+"="+fmt.Sprint(t.Value))
	}
	sort.Strings(ts)
	tags = strings.Join(ts, " ")
	var g []string
	switch f.FeatureID().Type {
	case b6.FeatureTypePoint:
		if p, ok := f.(b6.PhysicalFeature); ok {
			g = append(g, strconv.Itoa(VertexOf(s2.LatLngFromPoint(p.Point()))))
		}
	case b6.FeatureTypePath:
		if p, ok := f.(b6.PhysicalFeature); ok {
			for i := 0; i < p.GeometryLen(); i++ {
				g = append(g, strconv.Itoa(VertexOf(s2.LatLngFromPoint(p.PointAt(i)))))
			}
		}
	case b6.FeatureTypeArea:
		if a, ok := f.(b6.AreaFeature); ok {
			for i := 0; i < a.Len(); i++ {
				poly := a.Polygon(i)
				if poly == nil {
					g = append(g, "nil")
					continue
				}
				for j := 0; j < poly.NumLoops(); j++ {
					for _, pt := range poly.Loop(j).Vertices() {
						g = append(g, strconv.Itoa(VertexOf(s2.LatLngFromPoint(pt))))
					}
					g = append(g, "|")
				}
			}
		}
	}
	return tags, strings.Join(g, ",")
}

func sameAsLookup(w b6.World, f b6.Feature, problems *[]string, what string) {
	guard(problems, "comparing a "+what+" with the lookup of "+Name(f.FeatureID()), func() {
		l := w.FindFeatureByID(f.FeatureID())
		kind := strings.ToLower(f.FeatureID().Type.String())
		if l == nil {
			*problems = append(*problems, fmt.Sprintf("%s not-found-by-lookup %s: %s is returned but FindFeatureByID gives nil", what, kind, Name(f.FeatureID())))
			return
		}
		t1, g1 := describe(f)
		t2, g2 := describe(l)
		if t1 != t2 {
			*problems = append(*problems, fmt.Sprintf("%s differs-from-lookup %s.tags: %s has tags [%s], FindFeatureByID in the same world [%s]", what, kind, Name(f.FeatureID()), t1, t2))
		}
		if g1 != g2 {
			*problems = append(*problems, fmt.Sprintf("%s differs-from-lookup %s.geometry: %s resolves to vertices [%s], FindFeatureByID in the same world to [%s]", what, kind, Name(f.FeatureID()), g1, g2))
		}
	})
}

// Observe projects the world onto the observation for the given probe names.
func Observe(w b6.World, names []string, o Options) Observation {
	obs := Observation{Features: map[string]AFeature{}, Search: map[string][]string{}, Each: []string{},
		Refs: map[string][]string{}, Areas: map[string][]string{}, Rels: map[string][]string{}, Colls: map[string][]string{}}
	for _, n := range names {
		obs.Features[n] = ObserveFeature(w, n, o.Keys, &obs.Problems)
	}
	for qn, q := range o.Queries {
		qn, q := qn, q
		obs.Search[qn] = []string{}
		guard(&obs.Problems, "FindFeatures "+qn, func() {
			obs.Search[qn] = featureNamesChecked(w.FindFeatures(q.ToB6()), w, &obs.Problems, "search-result")
		})
	}
	if o.Each {
		cores := o.EachCores
		if cores < 1 {
			cores = 1
		}
		guard(&obs.Problems, "EachFeature", func() {
			ch := make(chan string, 1024)
			done := make(chan []string)
			go func() {
				var all []string
				for n := range ch {
					all = append(all, n)
				}
				done <- all
			}()
			var pmu sync.Mutex
			err := w.EachFeature(func(f b6.Feature, goroutine int) error {
				ch <- Name(f.FeatureID())
				var ps []string
				sameAsLookup(w, f, &ps, "enumerated-feature")
				if len(ps) > 0 {
					pmu.Lock()
					obs.Problems = append(obs.Problems, ps...)
					pmu.Unlock()
				}
				return nil
			}, &b6.EachFeatureOptions{Goroutines: cores})
			close(ch)
			all := <-done
			if err != nil {
				obs.Problems = append(obs.Problems, "EachFeature returned error: "+err.Error())
			}
			obs.Each = sortedWithDuplicates(all)
		})
	}
	if o.Refs {
		for _, n := range names {
			n := n
			id := ID(n)
			obs.Refs[n], obs.Areas[n], obs.Rels[n], obs.Colls[n] = []string{}, []string{}, []string{}, []string{}
			guard(&obs.Problems, "FindReferences "+n, func() {
				obs.Refs[n] = sortedWithDuplicates(featureNames(w.FindReferences(id)))
			})
			guard(&obs.Problems, "FindAreasByPoint "+n, func() {
				as := w.FindAreasByPoint(id)
				var l []string
				for as.Next() {
					l = append(l, Name(as.FeatureID()))
				}
				obs.Areas[n] = sortedWithDuplicates(l)
			})
			guard(&obs.Problems, "FindRelationsByFeature "+n, func() {
				rs := w.FindRelationsByFeature(id)
				var l []string
				for rs.Next() {
					if rs.Feature() == nil {
						l = append(l, Name(rs.FeatureID())+"!nil")
					} else {
						l = append(l, Name(rs.FeatureID()))
					}
				}
				obs.Rels[n] = sortedWithDuplicates(l)
			})
			guard(&obs.Problems, "FindCollectionsByFeature "+n, func() {
				cs := w.FindCollectionsByFeature(id)
				var l []string
				for cs.Next() {
					l = append(l, Name(cs.FeatureID()))
				}
				obs.Colls[n] = sortedWithDuplicates(l)
			})
		}
	}
	if o.Geometry {
		obs.Geometry = map[string][]int{}
		for _, n := range names {
			n := n
			id := ID(n)
			guard(&obs.Problems, "geometry "+n, func() {
				f := w.FindFeatureByID(id)
				if f == nil {
					return
				}
				switch id.Type {
				case b6.FeatureTypePath:
					if p, ok := f.(b6.PhysicalFeature); ok {
						vs := []int{}
						for _, pt := range *p.Polyline() {
							vs = append(vs, VertexOf(s2.LatLngFromPoint(pt)))
						}
						obs.Geometry[n] = vs
					}
				case b6.FeatureTypeArea:
					if a, ok := f.(b6.AreaFeature); ok {
						vs := []int{}
						for i := 0; i < a.Len(); i++ {
							poly := a.Polygon(i)
							if poly == nil {
								vs = append(vs, -3)
								continue
							}
							for j := 0; j < poly.NumLoops(); j++ {
								for _, pt := range poly.Loop(j).Vertices() {
									vs = append(vs, VertexOf(s2.LatLngFromPoint(pt)))
								}
								vs = append(vs, -1)
							}
						}
						obs.Geometry[n] = vs
					}
				}
			})
		}
	}
	if o.Geometry {
		// the resolved geometry of a path must be the locations of the points it references
		for _, n := range names {
			f := obs.Features[n]
			if f.Kind != "path" {
				continue
			}
			g, ok := obs.Geometry[n]
			if !ok || len(g) != len(f.Pts) {
				continue
			}
			for i, p := range f.Pts {
				if pf, ok := obs.Features[p]; ok && pf.Kind == "point" && pf.V != g[i] {
					obs.Problems = append(obs.Problems, "path geometry disagrees with the location of its point: "+n+" at "+p)
					break
				}
			}
		}
	}
	if o.Traverse {
		obs.Traverse = map[string][]string{}
		for _, n := range names {
			n := n
			if ID(n).Type != b6.FeatureTypePoint {
				continue
			}
			obs.Traverse[n] = []string{}
			guard(&obs.Problems, "Traverse "+n, func() {
				ss := w.Traverse(ID(n))
				var l []string
				for ss.Next() {
					s := ss.Segment()
					l = append(l, fmt.Sprintf("%s:%s>%s", Name(s.Feature.FeatureID()), Name(s.FirstFeatureID()), Name(s.LastFeatureID())))
				}
				sort.Strings(l)
				obs.Traverse[n] = l
			})
		}
	}
	return obs
}

func sortedWithDuplicates(names []string) []string {
	out := append([]string{}, names...)
	sort.SliceStable(out, func(i, j int) bool {
		a, b := ID(strings.SplitN(out[i], "!", 2)[0]), ID(strings.SplitN(out[j], "!", 2)[0])
		if a == b {
			return out[i] < out[j]
		}
		return a.Less(b)
	})
	return out
}

// Canon renders a value as canonical JSON.
func Canon(v interface{}) string {
	b, _ := json.Marshal(v)
	var x interface{}
	json.Unmarshal(b, &x)
	b, _ = json.Marshal(x)
	return string(b)
}

// WithDeadline runs f and reports whether it returned within d (the goroutine is abandoned otherwise).
func WithDeadline(d time.Duration, f func()) bool {
	done := make(chan struct{})
	go func() {
		defer close(done)
		f()
	}()
	select {
	case <-done:
		return true
	case <-time.After(d):
		return false
	}
}

// Without removes the elements of drop from list (for comparisons modulo unspecified elements).
func Without(list []string, drop []string) []string {
	d := map[string]bool{}
	for _, x := range drop {
		d[x] = true
	}
	out := []string{}
	for _, x := range list {
		if !d[x] {
			out = append(out, x)
		}
	}
	return out
}

// SameList compares two name lists.
func SameList(a, b []string) bool {
	if len(a) != len(b) {
		return false
	}
	for i := range a {
		if a[i] != b[i] {
			return false
		}
	}
	return true
}
