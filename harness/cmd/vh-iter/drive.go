package main

// Binding B: seeded random indices and call sequences on the real iterators, recorded as ndjson for
// TraceSortedIter.tla.  Every node of the compiled iterator tree (posting-list iterators, unions, intersections,
// key ranges, token prefixes, and the top-level iterator) records the calls made to it and the results it gave
// as a stream of its own: {"op":"reset", "idx":..., "q": <the node's own sub-query>} followed by next/advance
// events.  A stream stops at the first call that returned false (use after exhaustion is unspecified).  Streams
// are written children first, so the first stream TLC rejects is the innermost node that misbehaved.

import (
	"bufio"
	"encoding/json"
	"flag"
	"fmt"
	"math/rand"
	"os"
	"sort"
	"strings"

	"diagonal.works/b6"
	"diagonal.works/b6/search"
	"verif/harness/vh"
)

type stream struct {
	node   string
	q      interface{}
	events []callRes
	closed bool
}

type recorder struct {
	tab     *table
	streams []*stream
}

type recIter struct {
	r     *recorder
	inner search.Iterator
	s     *stream
}

func (r *recIter) log(op string, k int, ok bool) {
	if r.s.closed {
		return
	}
	e := callRes{Op: op, K: k, Ok: ok}
	if k < 0 {
		r.s.closed = true // a key outside the table: cannot be expressed in ranks
		return
	}
	if ok {
		e.V = r.r.tab.rankOf(r.inner.Value()) // -1: a value that is not in the table at all
	}
	r.s.events = append(r.s.events, e)
	if !ok {
		r.s.closed = true
	}
}

func (r *recIter) Next() bool {
	ok := r.inner.Next()
	r.log("next", 0, ok)
	return ok
}
func (r *recIter) Advance(key search.Key) bool {
	ok := r.inner.Advance(key)
	r.log("advance", r.r.tab.rankOf(key), ok)
	return ok
}
func (r *recIter) Value() search.Value { return r.inner.Value() }
func (r *recIter) EstimateLength() int { return r.inner.EstimateLength() }

func (r *recorder) wrap(node string, q interface{}, it search.Iterator) search.Iterator {
	s := &stream{node: node, q: q}
	r.streams = append(r.streams, s)
	return &recIter{r: r, inner: it, s: s}
}

type recIndex struct {
	search.Index
	r    *recorder
	kind string
}

func (x *recIndex) Begin(token string) search.Iterator {
	return x.r.wrap(x.kind, map[string]interface{}{"k": "all", "t": token}, x.Index.Begin(token))
}

type recQuery struct {
	inner search.Query
	r     *recorder
	name  string
	q     interface{}
}

func (x *recQuery) String() string { return x.inner.String() }
func (x *recQuery) Compile(index search.Index) search.Iterator {
	return x.r.wrap(x.name, x.q, x.inner.Compile(index))
}

func nodeName(n *qnode, kind string) string {
	switch n.K {
	case "union", "inter":
		return fmt.Sprintf("%s/%d", n.K, len(n.Qs))
	case "all":
		return kind
	}
	return n.K
}

func (n *qnode) buildRecorded(r *recorder, tab *table, kind string) search.Query {
	var q search.Query
	switch n.K {
	case "all":
		return search.All{Token: n.T}
	case "empty":
		return search.Empty{}
	case "prefix":
		q = search.TokenPrefix{Prefix: *n.P}
	case "union":
		u := make(search.Union, 0, len(n.Qs))
		for _, c := range n.Qs {
			u = append(u, c.buildRecorded(r, tab, kind))
		}
		q = u
	case "inter":
		u := make(search.Intersection, 0, len(n.Qs))
		for _, c := range n.Qs {
			u = append(u, c.buildRecorded(r, tab, kind))
		}
		q = u
	case "range":
		q = search.KeyRange{Begin: tab.ids[n.B], End: tab.ids[n.E], Query: n.Q.buildRecorded(r, tab, kind)}
	}
	return &recQuery{inner: q, r: r, name: nodeName(n, kind), q: n.plain()}
}

// randomTable makes n strictly increasing feature IDs over several (type, namespace) groups with mixed varint
// widths, including 0 and 2^64-1 now and then.
func randomTable(rng *rand.Rand, n int) *table {
	types := []b6.FeatureType{b6.FeatureTypePoint, b6.FeatureTypePath, b6.FeatureTypeArea, b6.FeatureTypeRelation, b6.FeatureTypeCollection}
	nss := []b6.Namespace{"a.verif/x", "diagonal.works/ns/verif", "m.verif/y/z", b6.NamespaceOSMNode, b6.NamespaceOSMWay, "zz.verif"}
	type group struct {
		t  b6.FeatureType
		ns b6.Namespace
	}
	var all []group
	for _, t := range types {
		for _, ns := range nss {
			all = append(all, group{t, ns})
		}
	}
	ng := 1 + rng.Intn(6)
	if ng > n {
		ng = n
	}
	pick := rng.Perm(len(all))[:ng]
	sort.Ints(pick)
	// split n into ng positive sizes
	sizes := make([]int, ng)
	for i := range sizes {
		sizes[i] = 1
	}
	for i := ng; i < n; i++ {
		if rng.Intn(3) == 0 {
			sizes[rng.Intn(ng)]++
		} else {
			sizes[0]++ // one dominant group so that lists span many blocks of one namespace
		}
	}
	rng.Shuffle(ng, func(i, j int) { sizes[i], sizes[j] = sizes[j], sizes[i] })
	t := &table{rank: map[b6.FeatureID]int{}}
	for gi, g := range pick {
		m := sizes[gi]
		vals := make([]uint64, 0, m)
		widths := []uint{3, 7, 8, 14, 20, 28, 35, 49, 56, 57}
		w := widths[rng.Intn(len(widths))]
		var v uint64
		switch rng.Intn(4) {
		case 0:
			v = 0
		case 1:
			v = uint64(rng.Intn(200))
		case 2:
			v = 1 << 63
		default:
			v = rng.Uint64() >> uint(1+rng.Intn(40))
		}
		for len(vals) < m {
			vals = append(vals, v)
			ww := w
			if rng.Intn(8) == 0 {
				ww = widths[rng.Intn(len(widths))]
			}
			d := (rng.Uint64() >> (64 - ww)) + 1
			if rng.Intn(6) == 0 {
				d = 1
			}
			if v+d < v { // overflow: squeeze the rest below 2^64-1
				break
			}
			v += d
		}
		for len(vals) < m { // ran out of room: fill downwards from the top
			top := ^uint64(0) - uint64(m-len(vals)) + 1
			if len(vals) > 0 && top <= vals[len(vals)-1] {
				top = vals[len(vals)-1] + 1
			}
			vals = append(vals, top)
		}
		if rng.Intn(3) == 0 && vals[len(vals)-1] != ^uint64(0) && (len(vals) < 2 || vals[len(vals)-2] < ^uint64(0)) {
			vals[len(vals)-1] = ^uint64(0)
		}
		for _, x := range vals {
			id := b6.FeatureID{Type: all[g].t, Namespace: all[g].ns, Value: x}
			t.rank[id] = len(t.ids)
			t.ids = append(t.ids, id)
		}
	}
	return t
}

func randomQuery(rng *rand.Rand, tokens []string, n int, depth int) *qnode {
	leaf := func() *qnode {
		switch rng.Intn(8) {
		case 0:
			p := []string{"", "a", "ab", "b", "c", "aa"}[rng.Intn(6)]
			return &qnode{K: "prefix", P: &p}
		case 1:
			if rng.Intn(3) == 0 {
				return &qnode{K: "empty"}
			}
			return &qnode{K: "all", T: "zz"}
		}
		return &qnode{K: "all", T: tokens[rng.Intn(len(tokens))]}
	}
	if depth == 0 {
		return leaf()
	}
	switch rng.Intn(7) {
	case 0:
		return leaf()
	case 1, 2:
		k := rng.Intn(4)
		if rng.Intn(3) > 0 && k == 0 {
			k = 2
		}
		q := &qnode{K: "union", Qs: []*qnode{}}
		for i := 0; i < k; i++ {
			q.Qs = append(q.Qs, randomQuery(rng, tokens, n, depth-1))
		}
		return q
	case 3, 4:
		k := 1 + rng.Intn(3)
		q := &qnode{K: "inter"}
		for i := 0; i < k; i++ {
			q.Qs = append(q.Qs, randomQuery(rng, tokens, n, depth-1))
		}
		return q
	default:
		b, e := rng.Intn(n), rng.Intn(n)
		if rng.Intn(5) > 0 && b > e {
			b, e = e, b
		}
		return &qnode{K: "range", B: b, E: e, Q: randomQuery(rng, tokens, n, depth-1)}
	}
}

func driveMain(args []string) int {
	fs := flag.NewFlagSet("drive", flag.ExitOnError)
	seed := fs.Int64("seed", 1, "seed")
	runs := fs.Int("runs", 100, "number of top-level runs")
	maxKeys := fs.Int("maxkeys", 300, "largest universe (ranks)")
	maxCalls := fs.Int("calls", 30, "top-level calls per run (at most)")
	mode := fs.String("mode", "query", "query | list")
	kinds := fs.String("kinds", "array,tree,compact", "index kinds")
	out := fs.String("out", "", "ndjson trace for TLC")
	tables := fs.String("tables", "", "ndjson with the concretisation table of every run (for replay; not read by TLC)")
	fs.Parse(args)
	var ks []string
	for _, k := range splitComma(*kinds) {
		ks = append(ks, k)
	}
	of, err := os.Create(*out)
	if err != nil {
		fmt.Fprintln(os.Stderr, err)
		return 2
	}
	defer of.Close()
	w := bufio.NewWriterSize(of, 1<<20)
	defer w.Flush()
	var tw *bufio.Writer
	if *tables != "" {
		tf, err := os.Create(*tables)
		if err != nil {
			fmt.Fprintln(os.Stderr, err)
			return 2
		}
		defer tf.Close()
		tw = bufio.NewWriterSize(tf, 1<<20)
		defer tw.Flush()
	}
	rng := rand.New(rand.NewSource(*seed))
	nstreams, nevents, line := 0, 0, 0
	panics := []map[string]interface{}{}
	lay := layoutStats{}
	for run := 0; run < *runs; run++ {
		n := 2 + rng.Intn(*maxKeys-1)
		if rng.Intn(4) == 0 {
			n = 2 + rng.Intn(12)
		}
		tab := randomTable(rng, n)
		n = len(tab.ids)
		var tokens []string
		if *mode == "list" {
			tokens = []string{"t"}
		} else {
			tokens = []string{"a", "ab", "b", "ba"}[:2+rng.Intn(3)]
		}
		idx := map[string][]int{}
		var groups []string // in table order (deterministic)
		for r := 0; r < n; r++ {
			if g := tab.group(r); len(groups) == 0 || groups[len(groups)-1] != g {
				groups = append(groups, g)
			}
		}
		var absent []int // ranks whose (type, namespace) group some list lacks entirely
		for _, tok := range tokens {
			density := rng.Float64()
			if rng.Intn(3) == 0 {
				density = 0.9 + rng.Float64()/10
			}
			// every other list lacks some (type, namespace) groups entirely: Advance targets in absent namespaces
			dropped := map[string]bool{}
			if rng.Intn(2) == 0 {
				for _, g := range groups {
					if rng.Intn(3) == 0 {
						dropped[g] = true
					}
				}
			}
			idx[tok] = []int{}
			for r := 0; r < n; r++ {
				if dropped[tab.group(r)] {
					absent = append(absent, r)
				}
				if !dropped[tab.group(r)] && rng.Float64() < density {
					idx[tok] = append(idx[tok], r)
				}
			}
		}
		var q *qnode
		if *mode == "list" {
			q = &qnode{K: "all", T: "t"}
		} else {
			q = randomQuery(rng, tokens, n, 1+rng.Intn(3))
		}
		kind := ks[rng.Intn(len(ks))]
		v := variant{Order: []string{"asc", "desc", "shuffle"}[rng.Intn(3)], Churn: rng.Intn(2) == 0 && n <= 400,
			KeepEmpty: rng.Intn(2) == 0, Cores: 1 + rng.Intn(3), ExtraNS: rng.Intn(2) == 0, Seed: rng.Int63n(1 << 30)}
		rec := &recorder{tab: tab}
		panicked := vh.Catch(func() {
			real, bad := buildIndex(kind, v, idx, tab, &lay)
			if bad != "" {
				panic("build failed: " + bad)
			}
			var top search.Iterator
			if *mode == "list" {
				top = rec.wrap(kind, q.plain(), real.Begin("t"))
			} else {
				query := q.buildRecorded(rec, tab, kind)
				top = query.Compile(&recIndex{Index: real, r: rec, kind: kind})
				if q.K == "all" || q.K == "empty" { // leaves are not wrapped by buildRecorded
					top = rec.wrap(nodeName(q, kind), q.plain(), top)
				}
			}
			cur := -1
			ncalls := 1 + rng.Intn(*maxCalls)
			full := rng.Intn(4) == 0 // decode the whole list: Next until it says false
			if full {
				ncalls = n + 2
			}
			for i := 0; i < ncalls; i++ {
				var ok bool
				if full || rng.Intn(2) == 0 {
					ok = top.Next()
				} else {
					var k int
					switch rng.Intn(6) {
					case 0:
						k = rng.Intn(n)
					case 5:
						// the last (largest-valued) rank of an absent group beyond the cursor, if there is one
						k = rng.Intn(n)
						if len(absent) > 0 {
							a := absent[rng.Intn(len(absent))]
							for a+1 < n && tab.group(a+1) == tab.group(a) {
								a++
							}
							if a > cur {
								k = a
							}
						}
					case 1:
						k = cur + 1 + rng.Intn(3)
					case 2:
						k = cur + 1 + rng.Intn(1+n/4)
					case 3:
						k = cur - rng.Intn(3)
					default:
						k = cur + 1 + rng.Intn(40)
					}
					if k < 0 {
						k = 0
					}
					if k >= n {
						k = n - 1
					}
					ok = top.Advance(tab.ids[k])
				}
				if !ok {
					break
				}
				if r := tab.rankOf(top.Value()); r >= 0 {
					cur = r
				}
			}
		})
		if panicked != "" {
			// a panic in the code under test: reported by the check as a failure of this run
			site := panicked
			if i := strings.LastIndex(panicked, "@"); i >= 0 {
				site = panicked[i+1:]
			}
			panics = append(panics, map[string]interface{}{"run": run, "kind": kind, "site": site, "msg": panicked, "query": q.plain()})
			rec.streams = nil
		}
		idxJSON, _ := json.Marshal(idx)
		first := line + 1
		for _, s := range rec.streams {
			if len(s.events) == 0 {
				continue
			}
			qj, _ := json.Marshal(s.q)
			fmt.Fprintf(w, "{\"op\":\"reset\",\"run\":%d,\"node\":%q,\"k\":0,\"ok\":true,\"v\":0,\"idx\":%s,\"q\":%s}\n", run, s.node, idxJSON, qj)
			line++
			nstreams++
			for _, e := range s.events {
				fmt.Fprintf(w, "{\"op\":%q,\"k\":%d,\"ok\":%v,\"v\":%d}\n", e.Op, e.K, e.Ok, e.V)
				line++
				nevents++
			}
		}
		if tw != nil {
			var tj [][3]interface{}
			for _, id := range tab.ids {
				tj = append(tj, [3]interface{}{int(id.Type), string(id.Namespace), fmt.Sprint(id.Value)})
			}
			b, _ := json.Marshal(map[string]interface{}{"run": run, "first_line": first, "last_line": line, "kind": kind, "variant": v,
				"table": tj, "idx": idx, "q": q.plain()})
			tw.Write(b)
			tw.WriteByte('\n')
		}
	}
	pj, _ := json.Marshal(panics)
	fmt.Printf("{\"runs\":%d,\"streams\":%d,\"events\":%d,\"lines\":%d,\"lists\":%d,\"lists_multiblock\":%d,\"lists_exactfit\":%d,\"lists_padded\":%d,\"lists_multins\":%d,\"panics\":%s}\n",
		*runs, nstreams, nevents, line, lay.lists, lay.multiBlock, lay.exactFit, lay.padded, lay.multiNS, pj)
	return 0
}

func splitComma(s string) []string {
	var out []string
	cur := ""
	for _, c := range s {
		if c == ',' {
			if cur != "" {
				out = append(out, cur)
			}
			cur = ""
		} else {
			cur += string(c)
		}
	}
	if cur != "" {
		out = append(out, cur)
	}
	return out
}
