package main

// Tool "e2e": shows the compact posting-list defect (Advance into a namespace the list does not contain, then
// Next, repeats the value) through the public API: a point and a path carry the same searchable tag, the world
// is built with compact.BuildInMemory, and a Typed{path} query (a search.KeyRange whose Begin is
// /path/""/0, a namespace no list contains) is evaluated with FindFeatures.  Diagnostics only; not a check.

import (
	"context"
	"fmt"

	"diagonal.works/b6"
	"diagonal.works/b6/ingest"
	"diagonal.works/b6/ingest/compact"
	"diagonal.works/b6/osm"
)

func e2eMain(args []string) int {
	nodes := []osm.Node{
		{ID: 1, Location: osm.LatLng{Lat: 51.5350, Lng: -0.1250}},
		{ID: 2, Location: osm.LatLng{Lat: 51.5351, Lng: -0.1251}},
		{ID: 3, Location: osm.LatLng{Lat: 51.5352, Lng: -0.1252}, Tags: osm.Tags{{Key: "highway", Value: "footway"}}},
		{ID: 4, Location: osm.LatLng{Lat: 51.5353, Lng: -0.1253}},
	}
	ways := []osm.Way{
		{ID: 10, Nodes: []osm.NodeID{1, 2}, Tags: osm.Tags{{Key: "highway", Value: "footway"}}},
		{ID: 11, Nodes: []osm.NodeID{2, 4}, Tags: osm.Tags{{Key: "highway", Value: "footway"}}},
	}
	src := ingest.MemoryOSMSource{Nodes: nodes, Ways: ways}
	source, err := ingest.NewFeatureSourceFromPBF(&src, &ingest.BuildOptions{Cores: 1}, context.Background())
	if err != nil {
		fmt.Println("source:", err)
		return 2
	}
	index, err := compact.BuildInMemory(source, &compact.Options{Goroutines: 1, PointsScratchOutputType: compact.OutputTypeMemory})
	if err != nil {
		fmt.Println("build:", err)
		return 2
	}
	w, err := compact.NewWorldFromData(index)
	if err != nil {
		fmt.Println("world:", err)
		return 2
	}
	tagged := b6.Tagged{Key: "#highway", Value: b6.NewStringExpression("footway")}
	show := func(name string, q b6.Query) []b6.FeatureID {
		var ids []b6.FeatureID
		fs := w.FindFeatures(q)
		for fs.Next() {
			ids = append(ids, fs.FeatureID())
		}
		fmt.Printf("%-32s %v\n", name, ids)
		return ids
	}
	show("[#highway=footway]", tagged)
	paths := show("[#highway=footway] typed path", b6.Typed{Type: b6.FeatureTypePath, Query: tagged})
	seen := map[b6.FeatureID]bool{}
	dup := false
	for _, id := range paths {
		if seen[id] {
			dup = true
		}
		seen[id] = true
	}
	if dup {
		fmt.Println("RESULT: a feature is returned twice")
		return 1
	}
	fmt.Println("RESULT: every feature once")
	return 0
}
