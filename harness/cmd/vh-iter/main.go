// vh-iter: executes SortedIter.tla behaviours on the real search iterators (C06, C08).
//
// Adapter "walk" (binding A).  A case carries
//   - an index kind (array | tree | compact) and build variant,
//   - a concretisation table rank -> b6.FeatureID (the spec works on ranks; the table decides types, namespaces,
//     64-bit values and therefore the posting-list byte layout),
//   - the index content idx (token -> ranks),
//   - queries with their denotation d computed by TLC (sub-queries carry their own d when TLC computed it),
//   - the cursor graphs exported by TLC for every denotation: (d, cursor, call) -> specified result.
//
// For every query the adapter compiles the REAL query (search.Union/Intersection/KeyRange/TokenPrefix/All.Compile)
// on the REAL index and executes every call sequence of the graph of d up to the given depth (a fresh iterator per
// sequence; nothing is called after a call returned false), comparing every result with the graph.
// Every node of the compiled iterator tree is observed by a transparent monitor that knows the node's own
// denotation: the chronologically first node that contradicts its own specification is the one reported, so a
// misbehaving posting-list iterator under a union is reported as the posting-list iterator's failure, with the
// calls the union made to it.
//
// Tool "drive" (binding B): seeded random large indices and random call sequences on the real iterators, logged
// as ndjson events for TraceSortedIter.tla.
package main

import (
	"encoding/json"
	"fmt"
	"math/rand"
	"os"
	"sort"
	"strconv"
	"strings"

	"diagonal.works/b6"
	"diagonal.works/b6/ingest/compact"
	"diagonal.works/b6/search"
	"verif/harness/vh"
)

// ---------------------------------------------------------------------------------------------- values

type idValues struct{}

func (idValues) Compare(a search.Value, b search.Value) search.Comparison {
	ida, idb := a.(b6.FeatureID), b.(b6.FeatureID)
	if ida.Less(idb) {
		return search.ComparisonLess
	} else if ida == idb {
		return search.ComparisonEqual
	}
	return search.ComparisonGreater
}
func (v idValues) CompareKey(a search.Value, k search.Key) search.Comparison { return v.Compare(a, k) }
func (idValues) Key(v search.Value) search.Key                               { return v }

// ---------------------------------------------------------------------------------------------- table

// A table entry is [type, namespace, value as decimal string]; the index in the table is the rank.
type table struct {
	ids  []b6.FeatureID // index = rank
	rank map[b6.FeatureID]int
}

func parseTable(raw [][3]json.RawMessage) (*table, error) {
	t := &table{rank: map[b6.FeatureID]int{}}
	for r, e := range raw {
		var typ int
		var ns, val string
		if err := json.Unmarshal(e[0], &typ); err != nil {
			return nil, err
		}
		if err := json.Unmarshal(e[1], &ns); err != nil {
			return nil, err
		}
		if err := json.Unmarshal(e[2], &val); err != nil {
			return nil, err
		}
		v, err := strconv.ParseUint(val, 10, 64)
		if err != nil {
			return nil, err
		}
		id := b6.FeatureID{Type: b6.FeatureType(typ), Namespace: b6.Namespace(ns), Value: v}
		if r > 0 && !t.ids[r-1].Less(id) {
			return nil, fmt.Errorf("table not strictly increasing at rank %d: %v !< %v", r, t.ids[r-1], id)
		}
		t.ids = append(t.ids, id)
		t.rank[id] = r
	}
	return t, nil
}

func (t *table) rankOf(v search.Value) int {
	if id, ok := v.(b6.FeatureID); ok {
		if r, ok := t.rank[id]; ok {
			return r
		}
	}
	return -1
}

func (t *table) group(r int) string {
	return fmt.Sprintf("%d/%s", t.ids[r].Type, t.ids[r].Namespace)
}

// ---------------------------------------------------------------------------------------------- graphs

type result struct {
	known bool
	ok    bool
	v     int
}

// dgraph is the cursor graph of one denotation: trans[cursor][op]; cursor 0 = fresh, 1+r = at(r);
// op 0 = next, 1+k = advance(k).
type dgraph struct {
	d     []int
	trans [][]result
}

type graphs struct {
	n  int // ranks are 0..n-1
	by map[string]*dgraph
}

func dkey(d []int) string {
	var sb strings.Builder
	for i, x := range d {
		if i > 0 {
			sb.WriteByte(',')
		}
		sb.WriteString(strconv.Itoa(x))
	}
	return sb.String()
}

// edges: [from, op, k, ok, v] with from = -1 for fresh, op 0 = next / 1 = advance, ok 0/1.
func parseGraphs(raw map[string][][5]int, n int) *graphs {
	g := &graphs{n: n, by: map[string]*dgraph{}}
	for key, edges := range raw {
		dg := &dgraph{trans: make([][]result, n+1), d: []int{}}
		if key != "" {
			for _, s := range strings.Split(key, ",") {
				x, _ := strconv.Atoi(s)
				dg.d = append(dg.d, x)
			}
		}
		for i := range dg.trans {
			dg.trans[i] = make([]result, n+1)
		}
		for _, e := range edges {
			cur := e[0] + 1
			op := 0
			if e[1] == 1 {
				op = e[2] + 1
			}
			if cur < 0 || cur > n || op < 0 || op > n {
				continue
			}
			dg.trans[cur][op] = result{known: true, ok: e[3] == 1, v: e[4]}
		}
		g.by[key] = dg
	}
	return g
}

// ---------------------------------------------------------------------------------------------- calls

type call struct {
	adv bool
	k   int
}

func (c call) String() string {
	if c.adv {
		return fmt.Sprintf("advance(%d)", c.k)
	}
	return "next"
}

type callRes struct {
	Op string `json:"op"`
	K  int    `json:"k"`
	Ok bool   `json:"ok"`
	V  int    `json:"v"`
}

// ---------------------------------------------------------------------------------------------- monitor

// violation: the first node that contradicted its own specification during one call sequence.
type violation struct {
	Sig      string      `json:"sig"`
	Node     string      `json:"node"`            // array | tree | compact | union/2 | inter/3 | range | prefix
	NodeQ    interface{} `json:"node_query"`      // the sub-query of the node
	NodeD    []int       `json:"node_denotation"` // what it denotes (ranks)
	NodeCall []callRes   `json:"node_calls"`      // calls made to the node with the results it gave (last = wrong)
	Want     callRes     `json:"want"`            // what the specification says for the last call
	GotID    string      `json:"got_id,omitempty"`
	Symptom  string      `json:"symptom"`
	Top      interface{} `json:"query"`     // the top-level query
	TopCalls []string    `json:"top_calls"` // top-level calls made so far
	Idx      interface{} `json:"idx,omitempty"`
	Kind     string      `json:"kind,omitempty"`
	Profile  string      `json:"profile,omitempty"`
	Variant  interface{} `json:"variant,omitempty"`
}

type session struct {
	tab       *table
	graphs    *graphs
	first     *violation
	usedAfter int // calls made to a node after it had returned false (unspecified use by a parent)
	unjudged  int // calls that the exported graphs do not cover (target outside Targets)
	calls     int
}

type monitor struct {
	s     *session
	inner search.Iterator
	name  string
	q     interface{}
	g     *dgraph
	cur   int // 0 fresh, 1+r at, -1 done, -2 unknown (stop judging)
	hist  []callRes
}

func (m *monitor) judge(c call, ok bool) {
	m.s.calls++
	if m.cur == -1 {
		m.s.usedAfter++
		m.cur = -2
		return
	}
	if m.cur == -2 || m.g == nil {
		return
	}
	op := 0
	if c.adv {
		op = c.k + 1
	}
	if op < 0 || op >= len(m.g.trans[m.cur]) || !m.g.trans[m.cur][op].known {
		m.s.unjudged++
		m.cur = -2
		return
	}
	want := m.g.trans[m.cur][op]
	got := callRes{Op: "next", Ok: ok}
	if c.adv {
		got.Op, got.K = "advance", c.k
	}
	gotID := ""
	if ok {
		v := m.inner.Value()
		got.V = m.s.tab.rankOf(v)
		if got.V < 0 {
			gotID = fmt.Sprintf("%v", v)
		}
	}
	m.hist = append(m.hist, got)
	if got.Ok != want.ok || (got.Ok && got.V != want.v) {
		if m.s.first == nil {
			w := callRes{Op: got.Op, K: got.K, Ok: want.ok, V: want.v}
			hist := append([]callRes{}, m.hist...)
			m.s.first = &violation{Node: m.name, NodeQ: m.q, NodeD: m.g.d, NodeCall: hist, Want: w, GotID: gotID}
			m.s.first.Symptom = symptom(m.cur, got, want, m.g.d)
			m.s.first.Sig = m.name + ": " + m.classes(hist) + " -> " + m.s.first.Symptom
		}
		m.cur = -2
		return
	}
	if ok {
		m.cur = 1 + got.V
	} else {
		m.cur = -1
	}
}

func (m *monitor) Next() bool {
	ok := m.inner.Next()
	m.judge(call{}, ok)
	return ok
}

func (m *monitor) Advance(key search.Key) bool {
	ok := m.inner.Advance(key)
	k := m.s.tab.rankOf(key)
	if k < 0 {
		m.s.unjudged++
		m.cur = -2
		return ok
	}
	m.judge(call{adv: true, k: k}, ok)
	return ok
}

func (m *monitor) Value() search.Value { return m.inner.Value() }
func (m *monitor) EstimateLength() int { return m.inner.EstimateLength() }

func inSet(d []int, x int) bool {
	for _, y := range d {
		if y == x {
			return true
		}
	}
	return false
}

func symptom(cur int, got callRes, want result, d []int) string {
	at := cur > 0
	c := cur - 1
	switch {
	case !got.Ok && want.ok:
		return "early-end"
	case got.Ok && got.V < 0:
		return "value-not-in-table"
	case got.Ok && at && got.V == c && !(want.ok && want.v == c):
		return "repeat"
	case got.Ok && at && got.V < c:
		return "backward"
	case got.Ok && !inSet(d, got.V):
		return "value-not-in-set"
	case got.Ok && !want.ok:
		return "value-after-end"
	case got.Ok && got.V > want.v:
		return "skip"
	case got.Ok && got.V < want.v:
		return "below-target"
	}
	return "mismatch"
}

// classes describes the last two calls made to the node (the call that went wrong and the one before it) relative
// to the node's denotation and cursor at the time: next | advance(back|hit|gap|past-end)[/absent-ns|/later-ns].
func (m *monitor) classes(all []callRes) string {
	// calls that (correctly) left the cursor where it was do not change the abstract state: they are dropped,
	// so that the two calls named are the ones that moved the iterator
	var hist []callRes
	at := -1
	for i, h := range all {
		if i < len(all)-1 && h.Ok && h.V == at {
			continue
		}
		hist = append(hist, h)
		if h.Ok {
			at = h.V
		}
	}
	cur := 0 // fresh
	cls := []string{"fresh"}
	for i, h := range hist {
		c := "next"
		if h.Op == "advance" {
			switch {
			case cur > 0 && h.K <= cur-1:
				c = "advance(back)"
			case !anyGE(m.g.d, h.K):
				c = "advance(past-end)"
			case inSet(m.g.d, h.K):
				c = "advance(hit)"
			default:
				c = "advance(gap)"
				if h.K < len(m.s.tab.ids) {
					land := firstGE(m.g.d, h.K)
					if m.s.tab.group(land) != m.s.tab.group(h.K) {
						present := false
						for _, x := range m.g.d {
							if m.s.tab.group(x) == m.s.tab.group(h.K) {
								present = true
							}
						}
						if present {
							c = "advance(gap/later-ns)"
						} else {
							c = "advance(gap/absent-ns)"
						}
					}
				}
			}
		}
		cls = append(cls, c)
		if i < len(hist)-1 {
			if h.Ok {
				cur = 1 + h.V
			}
		}
	}
	if len(cls) > 2 {
		cls = cls[len(cls)-2:]
	}
	return strings.Join(cls, ", ")
}

func anyGE(d []int, k int) bool {
	for _, x := range d {
		if x >= k {
			return true
		}
	}
	return false
}

func firstGE(d []int, k int) int {
	best := -1
	for _, x := range d {
		if x >= k && (best < 0 || x < best) {
			best = x
		}
	}
	return best
}

// monIndex wraps a real index: every posting-list iterator it hands out is monitored against its own list.
type monIndex struct {
	search.Index
	s     *session
	kind  string
	idx   map[string][]int
	cache map[string]*leafInfo
}

func (m *monIndex) Begin(token string) search.Iterator {
	it := m.Index.Begin(token)
	if m.cache == nil {
		m.cache = map[string]*leafInfo{}
	}
	li := m.cache[token]
	if li == nil {
		d := append([]int{}, m.idx[token]...)
		sort.Ints(d)
		li = &leafInfo{q: map[string]interface{}{"k": "all", "t": token}, g: m.s.graphs.by[dkey(d)]}
		m.cache[token] = li
	}
	return &monitor{s: m.s, inner: it, name: m.kind, q: li.q, g: li.g}
}

type leafInfo struct {
	q interface{}
	g *dgraph
}

// monQuery wraps a real query node: the iterator its Compile returns is monitored against the node's denotation.
type monQuery struct {
	inner search.Query
	s     *session
	name  string
	q     interface{}
	d     []int
}

func (m *monQuery) String() string { return m.inner.String() }
func (m *monQuery) Compile(index search.Index) search.Iterator {
	it := m.inner.Compile(index)
	return &monitor{s: m.s, inner: it, name: m.name, q: m.q, g: m.s.graphs.by[dkey(m.d)]}
}

// ---------------------------------------------------------------------------------------------- queries

type qnode struct {
	K  string   `json:"k"`
	T  string   `json:"t,omitempty"`
	P  *string  `json:"p,omitempty"`
	Qs []*qnode `json:"qs,omitempty"`
	Q  *qnode   `json:"q,omitempty"`
	B  int      `json:"b"`
	E  int      `json:"e"`
	I  *int     `json:"i,omitempty"` // index of this (sub-)query in the model's query list: its denotation is dens[i]
	//                                  (absent: TLC did not compute it, the node is not monitored)
}

func (n *qnode) plain() interface{} {
	switch n.K {
	case "all":
		return map[string]interface{}{"k": "all", "t": n.T}
	case "empty":
		return map[string]interface{}{"k": "empty"}
	case "prefix":
		return map[string]interface{}{"k": "prefix", "p": *n.P}
	case "union", "inter":
		qs := []interface{}{}
		for _, c := range n.Qs {
			qs = append(qs, c.plain())
		}
		return map[string]interface{}{"k": n.K, "qs": qs}
	case "range":
		return map[string]interface{}{"k": "range", "b": n.B, "e": n.E, "q": n.Q.plain()}
	}
	return nil
}

// build makes the real search.Query; monitored=false builds the bare query (no wrappers at all).
func (n *qnode) build(s *session, tab *table, dens []uint64, monitored bool, top bool) (search.Query, error) {
	var q search.Query
	name := n.K
	switch n.K {
	case "all":
		return search.All{Token: n.T}, nil // leaves are monitored by monIndex
	case "empty":
		return search.Empty{}, nil
	case "prefix":
		if n.P == nil {
			return nil, fmt.Errorf("prefix without p")
		}
		q = search.TokenPrefix{Prefix: *n.P}
	case "union":
		u := make(search.Union, 0, len(n.Qs))
		for _, c := range n.Qs {
			cq, err := c.build(s, tab, dens, monitored, false)
			if err != nil {
				return nil, err
			}
			u = append(u, cq)
		}
		q = u
		name = fmt.Sprintf("union/%d", len(n.Qs))
	case "inter":
		if len(n.Qs) == 0 {
			return nil, fmt.Errorf("empty intersection is not specified")
		}
		u := make(search.Intersection, 0, len(n.Qs))
		for _, c := range n.Qs {
			cq, err := c.build(s, tab, dens, monitored, false)
			if err != nil {
				return nil, err
			}
			u = append(u, cq)
		}
		q = u
		name = fmt.Sprintf("inter/%d", len(n.Qs))
	case "range":
		if n.B < 0 || n.B >= len(tab.ids) || n.E < 0 || n.E >= len(tab.ids) {
			return nil, fmt.Errorf("range bound outside the table")
		}
		cq, err := n.Q.build(s, tab, dens, monitored, false)
		if err != nil {
			return nil, err
		}
		q = search.KeyRange{Begin: tab.ids[n.B], End: tab.ids[n.E], Query: cq}
	default:
		return nil, fmt.Errorf("unknown query kind %q", n.K)
	}
	if monitored && !top && n.I != nil && *n.I >= 0 && *n.I < len(dens) {
		return &monQuery{inner: q, s: s, name: name, q: n.plain(), d: bits(dens[*n.I])}, nil
	}
	return q, nil
}

// ---------------------------------------------------------------------------------------------- indices

type variant struct {
	Order     string `json:"order"`      // asc | desc | shuffle : insertion order (array, tree)
	Churn     bool   `json:"churn"`      // tree: insert every other rank of the table too and remove it again
	KeepEmpty bool   `json:"keep_empty"` // compact: tokens with an empty list are present with an empty posting list
	Cores     int    `json:"cores"`      // array: Finish(cores)
	ExtraNS   bool   `json:"extra_ns"`   // compact: namespace table has extra namespaces nobody uses
	Seed      int64  `json:"seed"`
}

type layoutStats struct {
	lists, multiBlock, exactFit, padded, multiNS, maxVarint, blocks int
}

// postingIndex is a search.Index whose posting lists are compact posting lists: Begin returns the real
// compact.Iterator over bytes produced by the real PostingList.Fill / Marshal.
type postingIndex struct {
	lists  map[string][]byte
	tokens *search.Tokens
	nt     *compact.NamespaceTable
}

func (p *postingIndex) Begin(token string) search.Iterator {
	if b, ok := p.lists[token]; ok {
		return compact.NewIterator(b, p.nt)
	}
	return search.NewEmptyIterator()
}
func (p *postingIndex) Tokens() search.TokenIterator { return p.tokens.Tokens() }
func (p *postingIndex) Values() search.Values        { return idValues{} }
func (p *postingIndex) NumTokens() int               { return p.tokens.Len() }

func namespaceTable(tab *table, extra bool) *compact.NamespaceTable {
	seen := map[b6.Namespace]bool{}
	var nss []b6.Namespace
	for _, id := range tab.ids {
		if !seen[id.Namespace] {
			seen[id.Namespace] = true
			nss = append(nss, id.Namespace)
		}
	}
	if extra {
		for _, ns := range []b6.Namespace{"0.verif/unused", "m.verif/unused", "zz.verif/unused", b6.NamespaceOSMNode, b6.NamespaceOSMWay} {
			if !seen[ns] {
				seen[ns] = true
				nss = append(nss, ns)
			}
		}
	}
	nt := &compact.NamespaceTable{}
	nt.FillFromNamespaces(nss)
	return nt
}

// encodePostingList runs the real encoder and returns the marshalled list (header + blocks).  pl is reused
// from one list to the next, as compact's index builder does.
func encodePostingList(pl *compact.PostingList, token string, ranks []int, tab *table, nt *compact.NamespaceTable, st *layoutStats) ([]byte, string) {
	var ids compact.FeatureIDs
	for _, r := range ranks {
		ids.Append(nt.EncodeID(tab.ids[r]))
	}
	pl.Fill(token, ids.Begin())
	if pl.Header.Features != len(ranks) {
		return nil, fmt.Sprintf("PostingList.Fill: Header.Features = %d for %d ids", pl.Header.Features, len(ranks))
	}
	buffer := make([]byte, compact.PostingListHeaderMaxLength+len(pl.IDs))
	n := pl.Marshal(buffer)
	if st != nil {
		st.lists++
		l := len(pl.IDs)
		st.blocks += (l + compact.PostingListBlockSize - 1) / compact.PostingListBlockSize
		if l > compact.PostingListBlockSize {
			st.multiBlock++
		}
		if l > 0 && l%compact.PostingListBlockSize == 0 {
			st.exactFit++
		}
		for b := compact.PostingListBlockSize; b <= l; b += compact.PostingListBlockSize {
			if pl.IDs[b-1] == compact.Padding {
				st.padded++
				break
			}
		}
		if len(pl.Header.Namespaces) > 1 {
			st.multiNS++
		}
	}
	return buffer[0:n], ""
}

func sortedCopy(xs []int) []int {
	out := append([]int{}, xs...)
	sort.Ints(out)
	return out
}

func sortedTokens(idx map[string][]int) []string {
	ts := make([]string, 0, len(idx))
	for t := range idx {
		ts = append(ts, t)
	}
	sort.Strings(ts)
	return ts
}

func buildIndex(kind string, v variant, idx map[string][]int, tab *table, st *layoutStats) (search.Index, string) {
	rng := rand.New(rand.NewSource(v.Seed*7919 + 17))
	// (rank, tokens) pairs in insertion order
	byRank := map[int][]string{}
	for _, t := range sortedTokens(idx) {
		for _, r := range idx[t] {
			byRank[r] = append(byRank[r], t)
		}
	}
	ranks := make([]int, 0, len(byRank))
	for r := range byRank {
		ranks = append(ranks, r)
	}
	sort.Ints(ranks)
	switch v.Order {
	case "desc":
		sort.Sort(sort.Reverse(sort.IntSlice(ranks)))
	case "shuffle":
		rng.Shuffle(len(ranks), func(i, j int) { ranks[i], ranks[j] = ranks[j], ranks[i] })
	}
	switch kind {
	case "array":
		a := search.NewArrayIndex(idValues{})
		for _, r := range ranks {
			a.Add(tab.ids[r], byRank[r])
		}
		if v.Order == "shuffle" && len(ranks) > 0 { // duplicates are removed by Finish
			r := ranks[rng.Intn(len(ranks))]
			a.Add(tab.ids[r], byRank[r])
		}
		cores := v.Cores
		if cores < 1 {
			cores = 1
		}
		a.Finish(cores)
		return a, ""
	case "tree":
		t := search.NewTreeIndex(idValues{})
		if v.Churn {
			// every rank goes in under every token first; the ones that do not belong are removed afterwards,
			// so the trees have seen rotations and deletions (also the deletion of nodes with two children)
			tokens := sortedTokens(idx)
			all := make([]int, len(tab.ids))
			for i := range all {
				all[i] = i
			}
			rng.Shuffle(len(all), func(i, j int) { all[i], all[j] = all[j], all[i] })
			for _, r := range all {
				t.Add(tab.ids[r], tokens)
			}
			rng.Shuffle(len(all), func(i, j int) { all[i], all[j] = all[j], all[i] })
			for _, r := range all {
				var drop []string
				for _, tok := range tokens {
					if !inSet(idx[tok], r) {
						drop = append(drop, tok)
					}
				}
				t.Remove(tab.ids[r], drop)
			}
			return t, ""
		}
		for _, r := range ranks {
			t.Add(tab.ids[r], byRank[r])
		}
		return t, ""
	case "compact":
		nt := namespaceTable(tab, v.ExtraNS)
		p := &postingIndex{lists: map[string][]byte{}, nt: nt}
		var tokens []string
		var pl compact.PostingList
		for _, tok := range sortedTokens(idx) {
			if len(idx[tok]) == 0 && !v.KeepEmpty {
				continue
			}
			b, bad := encodePostingList(&pl, tok, sortedCopy(idx[tok]), tab, nt, st)
			if bad != "" {
				return nil, bad
			}
			p.lists[tok] = b
			tokens = append(tokens, tok)
		}
		indices := map[string]int{}
		for i, tok := range tokens {
			indices[tok] = i
		}
		p.tokens = search.NewFilledTokens(tokens, indices)
		return p, ""
	}
	return nil, "unknown index kind " + kind
}

// ---------------------------------------------------------------------------------------------- walking

// model is what TLC exported for one configuration: the query trees (every node annotated with the index of
// its own entry in the list, if it has one) and the cursor graph of every denotation.  It is the same for every
// case of a run, so cases refer to it by file name (replays embed it).
type model struct {
	Queries []*qnode            `json:"queries"`
	Graph   map[string][][5]int `json:"graph"`
	parsed  map[int]*graphs
}

var modelCache = map[string]*model{}

func loadModel(path string) (*model, error) {
	if m, ok := modelCache[path]; ok {
		return m, nil
	}
	b, err := os.ReadFile(path)
	if err != nil {
		return nil, err
	}
	m := &model{}
	if err := json.Unmarshal(b, m); err != nil {
		return nil, err
	}
	modelCache[path] = m
	return m, nil
}

func (m *model) graphsFor(n int) *graphs {
	if m.parsed == nil {
		m.parsed = map[int]*graphs{}
	}
	if g, ok := m.parsed[n]; ok {
		return g
	}
	g := parseGraphs(m.Graph, n)
	m.parsed[n] = g
	return g
}

// bits: denotations travel as bit masks (bit r = rank r).
func bits(mask uint64) []int {
	d := []int{}
	for r := 0; r < 64; r++ {
		if mask&(1<<uint(r)) != 0 {
			d = append(d, r)
		}
	}
	return d
}

type explicitCall struct {
	Op string `json:"op"`
	K  int    `json:"k"`
}

type walkCase struct {
	ID        int                  `json:"id"`
	Kind      string               `json:"kind"`
	Profile   string               `json:"profile"`
	Variant   variant              `json:"variant"`
	Table     [][3]json.RawMessage `json:"table"`
	Idx       map[string][]int     `json:"idx"`
	ModelFile string               `json:"model_file"`
	Model     *model               `json:"model"`
	Dens      []uint64             `json:"dens"`    // denotation of every query of the model over Idx, computed by TLC
	Only      []int                `json:"only"`    // run only these queries (indices); empty = all
	Depth     int                  `json:"depth"`   // every call sequence up to this length
	Long      bool                 `json:"long"`    // also: Next to the end; Advance(k) then Next to the end, for every k
	Bare      bool                 `json:"bare"`    // no monitors inside: the iterator tree is exactly what Compile builds
	Calls     [][]explicitCall     `json:"calls"`   // replay: run exactly these call sequences instead of enumerating
	Corrupt   int                  `json:"corrupt"` // self-test only: 1 = falsify the expectation of the first next edge
	// AfterFail: when a sequence ends with an Advance that (correctly) returned false, keep calling Next on the
	// top-level iterator. What an iterator does after a failed Advance is not specified (the compact iterator
	// stays where it was, others move to the end), so only the envelope common to both is demanded: whatever is
	// still yielded belongs to the set, lies beyond the last value yielded, increases strictly, and it ends.
	AfterFail bool `json:"after_fail"`
}

// enumerate all maximal call sequences of the graph of d up to depth (ends: depth reached or a call returns false).
func enumerate(dg *dgraph, depth int, long bool) [][]call {
	var out [][]call
	var rec func(cur int, path []call)
	rec = func(cur int, path []call) {
		if len(path) == depth {
			out = append(out, append([]call{}, path...))
			return
		}
		any := false
		for op, r := range dg.trans[cur] {
			if !r.known {
				continue
			}
			any = true
			c := call{}
			if op > 0 {
				c = call{adv: true, k: op - 1}
			}
			p := append(path, c)
			if !r.ok {
				out = append(out, append([]call{}, p...))
				continue
			}
			rec(1+r.v, p)
		}
		if !any && len(path) > 0 {
			out = append(out, append([]call{}, path...))
		}
	}
	rec(0, nil)
	if long {
		// Next to the end, and Advance(k) followed by Next to the end, for every target k
		starts := [][]call{{}}
		for op, r := range dg.trans[0] {
			if op > 0 && r.known {
				starts = append(starts, []call{{adv: true, k: op - 1}})
			}
		}
		for _, st := range starts {
			path := append([]call{}, st...)
			cur := 0
			dead := false
			for _, c := range st {
				r := dg.trans[cur][c.k+1]
				if !r.ok {
					dead = true
					break
				}
				cur = 1 + r.v
			}
			for !dead {
				r := dg.trans[cur][0]
				if !r.known {
					break
				}
				path = append(path, call{})
				if !r.ok {
					break
				}
				cur = 1 + r.v
			}
			if len(path) > depth {
				out = append(out, path)
			}
		}
	}
	return out
}

func runWalk(data json.RawMessage) vh.Verdict {
	var c walkCase
	if err := json.Unmarshal(data, &c); err != nil {
		return vh.Fail("harness-json", "bad case: %v", err)
	}
	v := runWalkCase(&c)
	if c.Bare && !v.OK {
		// without inner monitors the top-level iterator gets the blame; run again with monitors to find the
		// node that misbehaved first.  If the monitored run is clean, the unmonitored failure stands as it is.
		c.Bare = false
		if v2 := runWalkCase(&c); !v2.OK {
			if v2.Stats != nil {
				v2.Stats["bare_failures_attributed"] = 1
			}
			return v2
		}
		v.Key = "unmonitored " + v.Key
		if vs, ok := v.Obs.([]*violation); ok {
			for _, x := range vs {
				x.Sig = "unmonitored " + x.Sig
			}
		}
	}
	return v
}

func runWalkCase(cp *walkCase) vh.Verdict {
	c := *cp
	tab, err := parseTable(c.Table)
	if err != nil {
		return vh.Fail("harness-table", "bad table: %v", err)
	}
	mdl := c.Model
	if mdl == nil {
		if mdl, err = loadModel(c.ModelFile); err != nil {
			return vh.Fail("harness-model", "cannot load model: %v", err)
		}
	}
	if len(c.Dens) != len(mdl.Queries) {
		return vh.Fail("harness-model", "%d denotations for %d queries", len(c.Dens), len(mdl.Queries))
	}
	gs := mdl.graphsFor(len(tab.ids))
	if c.Corrupt == 1 {
		gs = parseGraphs(mdl.Graph, len(tab.ids))
		for _, dg := range gs.by {
			r := &dg.trans[0][0]
			if r.known && r.ok {
				r.v = (r.v + 1) % len(tab.ids)
			} else if r.known {
				r.ok = true
			}
		}
	}
	stats := map[string]int{}
	var st layoutStats
	sess := &session{tab: tab, graphs: gs}
	real, bad := buildIndex(c.Kind, c.Variant, c.Idx, tab, &st)
	if bad != "" {
		return vh.Verdict{OK: false, Key: c.Kind + ": " + bad, Msg: bad}
	}
	var index search.Index = real
	if !c.Bare {
		index = &monIndex{Index: real, s: sess, kind: c.Kind, idx: c.Idx}
	}
	found := map[string]*violation{}
	nfail, nseq, ncalls := 0, 0, 0
	which := c.Only
	if len(which) == 0 {
		for qi := range mdl.Queries {
			which = append(which, qi)
		}
	}
	type qcase struct{ Q *qnode }
	for _, qi := range which {
		qc := &qcase{Q: mdl.Queries[qi]}
		d := bits(c.Dens[qi])
		dg := gs.by[dkey(d)]
		if dg == nil {
			return vh.Fail("harness-graph", "no graph for denotation %v", d)
		}
		query, err := qc.Q.build(sess, tab, c.Dens, !c.Bare, true)
		if err != nil {
			return vh.Fail("harness-query", "bad query: %v", err)
		}
		topName := qc.Q.K
		if qc.Q.K == "union" || qc.Q.K == "inter" {
			topName = fmt.Sprintf("%s/%d", qc.Q.K, len(qc.Q.Qs))
		} else if qc.Q.K == "all" {
			topName = c.Kind
		}
		topPlain := qc.Q.plain()
		var paths [][]call
		if c.Calls != nil {
			for _, ec := range c.Calls {
				var p []call
				for _, e := range ec {
					p = append(p, call{adv: e.Op == "advance", k: e.K})
				}
				paths = append(paths, p)
			}
		} else {
			paths = enumerate(dg, c.Depth, c.Long)
		}
		stats["queries"]++
		for _, path := range paths {
			nseq++
			sess.first = nil
			top := &monitor{s: sess, name: topName, q: topPlain, g: dg, hist: make([]callRes, 0, 8)}
			made := 0
			p := vh.Catch(func() {
				top.inner = query.Compile(index)
				for _, cl := range path {
					if top.cur < 0 {
						break
					}
					made++
					ncalls++
					if cl.adv {
						top.Advance(tab.ids[cl.k])
					} else {
						top.Next()
					}
					if sess.first != nil {
						break
					}
					if top.cur > 0 { // Value() is stable and side-effect free
						if r := tab.rankOf(top.inner.Value()); r != top.cur-1 {
							sess.first = &violation{Node: topName, NodeQ: qc.Q.plain(), NodeD: d, NodeCall: top.hist,
								Symptom: "value-changes-between-calls", Sig: topName + ": second Value() differs"}
							break
						}
					}
				}
			})
			if p == "" && c.AfterFail && sess.first == nil && top.cur == -1 && made > 0 && path[made-1].adv {
				p = vh.Catch(func() { afterFailedAdvance(sess, top, topName, topPlain, d, tab) })
			}
			if p != "" && sess.first == nil {
				site := p
				if i := strings.LastIndex(p, "@"); i >= 0 {
					site = p[i+1:]
				}
				sess.first = &violation{Node: topName, NodeQ: qc.Q.plain(), NodeD: d, NodeCall: top.hist,
					Symptom: "panic", Sig: topName + ": panic @" + site, GotID: p}
			}
			if v := sess.first; v != nil {
				nfail++
				var topCalls []string
				for _, cl := range path[:made] {
					topCalls = append(topCalls, cl.String())
				}
				v.Top, v.TopCalls = qc.Q.plain(), topCalls
				if old, ok := found[v.Sig]; !ok || smaller(v, old) {
					found[v.Sig] = v
				}
			}
		}
	}
	stats["sequences"] = nseq
	stats["calls"] = ncalls
	stats["node_calls"] = sess.calls
	stats["used_after_false"] = sess.usedAfter
	stats["unjudged_calls"] = sess.unjudged
	if c.Kind == "compact" {
		stats["lists"] = st.lists
		stats["lists_multiblock"] = st.multiBlock
		stats["lists_exactfit"] = st.exactFit
		stats["lists_padded"] = st.padded
		stats["lists_multins"] = st.multiNS
		stats["blocks"] = st.blocks
	}
	if len(found) == 0 {
		return vh.Verdict{OK: true, Stats: stats}
	}
	stats["failed_sequences"] = nfail
	var sigs []string
	for s := range found {
		sigs = append(sigs, s)
	}
	sort.Strings(sigs)
	var vs []*violation
	for _, s := range sigs {
		v := found[s]
		v.Idx, v.Kind, v.Profile, v.Variant = c.Idx, c.Kind, c.Profile, c.Variant
		vs = append(vs, v)
	}
	return vh.Verdict{OK: false, Key: sigs[0], Msg: describe(vs[0], tab), Obs: vs, Stats: stats}
}

// afterFailedAdvance: see walkCase.AfterFail.
func afterFailedAdvance(sess *session, top *monitor, topName string, topPlain interface{}, d []int, tab *table) {
	prev := -1
	for _, h := range top.hist {
		if h.Ok {
			prev = h.V
		}
	}
	hist := append([]callRes{}, top.hist...)
	report := func(what string, gotID string) {
		sess.first = &violation{Node: topName, NodeQ: topPlain, NodeD: d, NodeCall: hist,
			Want: callRes{Op: "next"}, GotID: gotID, Symptom: "after-failed-advance/" + what,
			Sig: topName + ": " + top.classes(top.hist) + ", then next -> after-failed-advance/" + what}
	}
	for n := 0; ; n++ {
		if n > len(d)+2 {
			report("does-not-end", "")
			return
		}
		if !top.inner.Next() {
			return
		}
		v := top.inner.Value()
		r := tab.rankOf(v)
		hist = append(hist, callRes{Op: "next", Ok: true, V: r})
		switch {
		case r < 0:
			report("value-not-in-table", fmt.Sprintf("%v", v))
		case !inSet(d, r):
			report("value-not-in-set", "")
		case r <= prev:
			report("backward", "")
		}
		if sess.first != nil {
			return
		}
		prev = r
	}
}

func smaller(a, b *violation) bool {
	if len(a.NodeCall) != len(b.NodeCall) {
		return len(a.NodeCall) < len(b.NodeCall)
	}
	if len(a.TopCalls) != len(b.TopCalls) {
		return len(a.TopCalls) < len(b.TopCalls)
	}
	return vh.Canon(a) < vh.Canon(b)
}

func describe(v *violation, tab *table) string {
	var ids []string
	for _, r := range v.NodeD {
		ids = append(ids, fmt.Sprintf("%d=%v", r, tab.ids[r]))
	}
	var calls []string
	for _, h := range v.NodeCall {
		s := h.Op
		if h.Op == "advance" {
			s = fmt.Sprintf("advance(%d=%v)", h.K, tab.ids[h.K])
		}
		if h.Ok {
			s += fmt.Sprintf("->%d", h.V)
		} else {
			s += "->false"
		}
		calls = append(calls, s)
	}
	want := "false"
	if v.Want.Ok {
		want = strconv.Itoa(v.Want.V)
	}
	return fmt.Sprintf("%s over {%s}: calls %s; the specification says the last call gives %s (%s) %s [query %s, top-level calls %v]",
		v.Node, strings.Join(ids, " "), strings.Join(calls, " "), want, v.Symptom, v.GotID, vh.Canon(v.Top), v.TopCalls)
}

func main() {
	vh.RegisterFunc("walk", runWalk)
	vh.Tool("drive", driveMain)
	vh.Tool("layout", layoutMain)
	vh.Tool("e2e", e2eMain)
	vh.Main()
}

// layoutMain prints the byte layout of one posting list: `layout '<case json with table and idx>'` (diagnostics).
func layoutMain(args []string) int {
	if len(args) < 1 {
		return 2
	}
	var c walkCase
	if err := json.Unmarshal([]byte(args[0]), &c); err != nil {
		fmt.Fprintln(os.Stderr, err)
		return 2
	}
	tab, err := parseTable(c.Table)
	if err != nil {
		fmt.Fprintln(os.Stderr, err)
		return 2
	}
	nt := namespaceTable(tab, c.Variant.ExtraNS)
	for _, tok := range sortedTokens(c.Idx) {
		var ids compact.FeatureIDs
		for _, r := range sortedCopy(c.Idx[tok]) {
			ids.Append(nt.EncodeID(tab.ids[r]))
		}
		var pl compact.PostingList
		pl.Fill(tok, ids.Begin())
		out := map[string]interface{}{"token": tok, "bytes": len(pl.IDs), "namespaces": pl.Header.Namespaces, "features": pl.Header.Features}
		var blocks []string
		for b := 0; b < len(pl.IDs); b += 64 {
			e := b + 64
			if e > len(pl.IDs) {
				e = len(pl.IDs)
			}
			blocks = append(blocks, fmt.Sprintf("%x", pl.IDs[b:e]))
		}
		out["blocks"] = blocks
		fmt.Println(vh.Canon(out))
	}
	return 0
}
