// vh-tags: executes TagSeq.tla transitions on the real b6.Tags (C39).
package main

import (
	"encoding/json"
	"fmt"

	"diagonal.works/b6"
	"verif/harness/vh"
)

type pair [2]string

type event struct {
	Op       string   `json:"op"`
	K        string   `json:"k"`
	V        string   `json:"v"`
	Ks       []string `json:"ks"`
	Other    []pair   `json:"other"`
	Modified bool     `json:"modified"`
	Old      string   `json:"old"`
}

type step struct {
	Ev event  `json:"ev"`
	To []pair `json:"to"`
}

type tagsCase struct {
	ID    int    `json:"id"`
	From  []pair `json:"from"`
	Spare int    `json:"spare"` // extra capacity of the backing array
	Steps []step `json:"steps"`
}

func build(ps []pair, spare int) b6.Tags {
	t := make(b6.Tags, 0, len(ps)+spare)
	for _, p := range ps {
		t = append(t, b6.Tag{Key: p[0], Value: val(p[1])})
	}
	return t
}

// val: the model value "nil" stands for the zero b6.Expression (a placeholder tag such as Tag{Key: k}); a tag with
// such a value is still an entry of the list under its key.
func val(s string) b6.Expression {
	if s == "nil" {
		return b6.Expression{}
	}
	return b6.NewStringExpression(s)
}

func show(v b6.Expression) string {
	if v.AnyExpression == nil {
		return "nil"
	}
	return v.String()
}

func observe(t b6.Tags) []pair {
	out := make([]pair, 0, len(t))
	for _, tag := range t {
		out = append(out, pair{tag.Key, show(tag.Value)})
	}
	return out
}

func same(a, b []pair) bool {
	if len(a) != len(b) {
		return false
	}
	for i := range a {
		if a[i] != b[i] {
			return false
		}
	}
	return true
}

func runCase(data json.RawMessage) vh.Verdict {
	var c tagsCase
	if err := json.Unmarshal(data, &c); err != nil {
		return vh.Fail("harness-json", "bad case: %v", err)
	}
	t := build(c.From, c.Spare)
	cur := c.From
	for i, s := range c.Steps {
		key := fmt.Sprintf("%s %s on %s", s.Ev.Op, vh.Canon(args(s.Ev)), vh.Canon(cur))
		var resMismatch string
		var clone b6.Tags
		p := vh.Catch(func() {
			switch s.Ev.Op {
			case "set":
				modified, old := t.ModifyOrAddTag(b6.Tag{Key: s.Ev.K, Value: val(s.Ev.V)})
				if modified != s.Ev.Modified {
					resMismatch = fmt.Sprintf("ModifyOrAddTag returned modified=%v, spec %v", modified, s.Ev.Modified)
				} else if modified && show(old) != s.Ev.Old {
					resMismatch = fmt.Sprintf("ModifyOrAddTag returned old=%q, spec %q", show(old), s.Ev.Old)
				}
			case "add":
				t.AddTag(b6.Tag{Key: s.Ev.K, Value: val(s.Ev.V)})
			case "remove":
				t.RemoveTag(s.Ev.K)
			case "removemany":
				t.RemoveTags(s.Ev.Ks)
			case "removeall":
				t.RemoveAllTags()
			case "merge":
				t.MergeFrom(build(s.Ev.Other, 0))
			case "get":
				got := t.Get(s.Ev.K)
				if s.Ev.V == "-" {
					if got.IsValid() {
						resMismatch = fmt.Sprintf("Get(%q) = %v, spec: absent", s.Ev.K, got)
					}
				} else if s.Ev.V == "nil" {
					// present with the zero value: Get returns the entry (Tag.IsValid() is false for it, by its definition)
					if got.Key != s.Ev.K || got.Value.AnyExpression != nil {
						resMismatch = fmt.Sprintf("Get(%q) = %v, spec: the entry with the zero value", s.Ev.K, got)
					}
				} else if !got.IsValid() || got.Key != s.Ev.K || got.Value.String() != s.Ev.V {
					resMismatch = fmt.Sprintf("Get(%q) = %v, spec %q", s.Ev.K, got, s.Ev.V)
				}
			case "clone":
				clone = t.Clone()
			default:
				resMismatch = "unknown op " + s.Ev.Op
			}
		})
		if p != "" {
			return vh.Verdict{OK: false, Key: key, Msg: fmt.Sprintf("step %d: %s: %s", i, key, p), Obs: p}
		}
		if resMismatch != "" {
			return vh.Verdict{OK: false, Key: key, Msg: fmt.Sprintf("step %d: %s", i, resMismatch)}
		}
		got := observe(t)
		if !same(got, s.To) {
			return vh.Verdict{OK: false, Key: key, Msg: fmt.Sprintf("step %d: %s: list is %v, spec %v", i, key, got, s.To), Obs: got}
		}
		if s.Ev.Op == "clone" {
			if !same(observe(clone), s.To) {
				return vh.Verdict{OK: false, Key: key, Msg: fmt.Sprintf("step %d: clone is %v, spec %v", i, observe(clone), s.To)}
			}
			// a clone is independent: changing it must not change the original
			if len(clone) > 0 {
				clone[0].Value = b6.NewStringExpression("changed")
				clone.RemoveTag(clone[len(clone)-1].Key)
				if !same(observe(t), s.To) {
					return vh.Verdict{OK: false, Key: "clone-shared " + vh.Canon(cur), Msg: fmt.Sprintf("step %d: changing a clone changed the original: %v", i, observe(t))}
				}
			}
		}
		cur = s.To
	}
	return vh.Verdict{OK: true, Stats: map[string]int{"steps_executed": len(c.Steps)}}
}

func args(e event) interface{} {
	switch e.Op {
	case "set", "add":
		return []string{e.K, e.V}
	case "remove", "get":
		return e.K
	case "removemany":
		return e.Ks
	case "merge":
		return e.Other
	}
	return nil
}

func main() {
	vh.RegisterFunc("tags", runCase)
	vh.Main()
}
