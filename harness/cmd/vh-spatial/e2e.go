package main

import (
	"context"
	"encoding/json"
	"fmt"
	"math"
	"math/rand"
	"sort"
	"strings"

	"diagonal.works/b6"
	"diagonal.works/b6/geometry"
	"diagonal.works/b6/ingest"
	"diagonal.works/b6/ingest/compact"
	"diagonal.works/b6/osm"
	"diagonal.works/b6/search"
	"github.com/golang/geo/s1"
	"github.com/golang/geo/s2"
	"verif/harness/vh"
)

// C04 end to end: one seeded world x a battery of spatial queries on a real world implementation.
// For every (world, query): indexed = what FindFeatures(All) returns (the world's own notion of "indexed"),
// matches[i] = query.Matches(indexed[i]) (the oracle named by the property), result = FindFeatures(query).
// The events are judged by TLC (spec/SpatialTrace.tla); the adapter judges them too so that a failure gets a
// canonical key, and the check cross-checks the two judgements.

type e2eCase struct {
	ID     int    `json:"id"`
	Seed   int64  `json:"seed"`
	Class  string `json:"class"` // tiny | boundary | crossface | large | huge | tolerance
	World  string `json:"world"` // basic | compact | overlay (MutableOverlayWorld) | mutable | layered (OverlayWorld)
	NQ     int    `json:"nq"`
	Mutate string `json:"mutate"` // self-test only: "drop-result" removes one ID from one logged result
}

type findEvent struct {
	Ev      string `json:"ev"`
	Indexed []int  `json:"indexed"`
	Matches []bool `json:"matches"`
	Result  []int  `json:"result"`
	// not read by the spec
	Query string `json:"query"`
	Kind  string `json:"kind"`
	GoBad bool   `json:"go_bad"`
	Key   string `json:"key,omitempty"`
	What  string `json:"what,omitempty"`
}

var verifNS = b6.Namespace("diagonal.works/verif")

// MutableOverlayWorld.FindFeatures hands the query to the base world, where IntersectsFeature resolves its ID in the
// BASE world: for a feature that exists only in the overlay the base half of the search is empty.
const overlayKey = "overlay-world-resolves-intersects-feature-in-base-world"

// pointIntersectsFeature / polylineIntersectsFeature accept a point within 1 mm of a path; the index knows nothing of
// that tolerance, so a point and a path less than 1 mm apart on two sides of a cell boundary match but are not found.
const toleranceKey = "match-within-1mm-tolerance-across-cell-boundary"

// ingest.OverlayWorld.FindFeatures hands the query to each layer separately: IntersectsFeature is resolved per layer, so
// features of one layer that intersect a feature of the other layer are not returned.
const layeredKey = "static-overlay-world-resolves-intersects-feature-per-layer"

// the coverer ingest/tokens.go uses for features (transcribed; only used to name a covering in "tok" events and in
// diagnoses, and every use checks that search.TokensForCovering of it reproduces the feature's real tokens)
func indexCoverer() s2.RegionCoverer {
	return s2.RegionCoverer{MaxLevel: search.MaxIndexedCellLevel, MaxCells: 5}
}

type worldSpec struct {
	nodes   []osm.Node
	ways    []osm.Way
	rels    []osm.Relation
	extras  []ingest.Feature
	anchors []s2.LatLng // where the features are: queries are aimed here
	scale   float64     // metres: typical feature size
	nextID  int64
	// queries that every battery for this world starts with (class "tolerance")
	probePoints []s2.LatLng
	probeLines  [][]s2.LatLng
}

func (ws *worldSpec) id() int64 { ws.nextID++; return ws.nextID }

func (ws *worldSpec) node(ll s2.LatLng, tagged bool) osm.NodeID {
	n := osm.Node{ID: osm.NodeID(ws.id()), Location: osm.FromS2LatLng(ll)}
	if tagged {
		n.Tags = osm.Tags{{Key: "amenity", Value: "cafe"}, {Key: "name", Value: fmt.Sprintf("n%d", n.ID)}}
	}
	ws.nodes = append(ws.nodes, n)
	ws.anchors = append(ws.anchors, ll)
	return n.ID
}

func validLL(ll s2.LatLng) bool {
	return ll.Lat.Degrees() > -89 && ll.Lat.Degrees() < 89 && ll.Lng.Degrees() > -179.9 && ll.Lng.Degrees() < 179.9
}

func validLoop(lls []s2.LatLng) bool {
	if len(lls) < 3 {
		return false
	}
	pts := make([]s2.Point, len(lls))
	for i, ll := range lls {
		if !validLL(ll) {
			return false
		}
		pts[i] = s2.PointFromLatLng(ll)
	}
	l := s2.LoopFromPoints(pts)
	if l.Validate() != nil || l.Area() > 2*math.Pi {
		return false
	}
	// s2.Loop.Validate in this version does not look for crossings: do it here
	es := loopEdges(l)
	for i := range es {
		for j := i + 2; j < len(es); j++ {
			if i == 0 && j == len(es)-1 {
				continue
			}
			if s2.CrossingSign(es[i].a, es[i].b, es[j].a, es[j].b) == s2.Cross {
				return false
			}
		}
	}
	return true
}

// way adds an open way through the given positions (fresh untagged nodes, sometimes a tagged one).
func (ws *worldSpec) way(rng *rand.Rand, lls []s2.LatLng) {
	for _, ll := range lls {
		if !validLL(ll) {
			return
		}
	}
	w := osm.Way{ID: osm.WayID(ws.id()), Tags: osm.Tags{{Key: "highway", Value: "footway"}}}
	for _, ll := range lls {
		w.Nodes = append(w.Nodes, ws.node(ll, rng.Intn(5) == 0))
	}
	ws.ways = append(ws.ways, w)
}

// closedWay adds a closed way (a path and, through the OSM rules, an area); returns its ID or 0.
func (ws *worldSpec) closedWay(lls []s2.LatLng, building bool) osm.WayID {
	if !validLoop(lls) {
		return 0
	}
	w := osm.Way{ID: osm.WayID(ws.id())}
	if building {
		w.Tags = osm.Tags{{Key: "building", Value: "yes"}}
	}
	for _, ll := range lls {
		w.Nodes = append(w.Nodes, ws.node(ll, false))
	}
	w.Nodes = append(w.Nodes, w.Nodes[0])
	ws.ways = append(ws.ways, w)
	return w.ID
}

func (ws *worldSpec) multipolygon(members []osm.Member) {
	ws.rels = append(ws.rels, osm.Relation{ID: osm.RelationID(ws.id()), Members: members,
		Tags: osm.Tags{{Key: "type", Value: "multipolygon"}, {Key: "landuse", Value: "grass"}}})
}

func lls(f frame, l []xy) []s2.LatLng {
	out := make([]s2.LatLng, len(l))
	for i, p := range l {
		out[i] = f.ll(p.X, p.Y)
	}
	return out
}

func logUniform(rng *rand.Rand, lo, hi float64) float64 {
	return math.Exp(math.Log(lo) + rng.Float64()*(math.Log(hi)-math.Log(lo)))
}

// genWorld draws the features of one world.
func genWorld(rng *rand.Rand, class string, withExtras bool) *worldSpec {
	ws := &worldSpec{nextID: 100}
	var f frame
	switch class {
	case "tiny":
		o := [][2]float64{{51.5353, -0.1249}, {0.0003, 0.0002}, {-33.9, 151.2}, {64.1, -21.9}}[rng.Intn(4)]
		f = frame{o[0], o[1]}
		ws.scale = logUniform(rng, 2, 80)
	case "boundary":
		o := [][2]float64{{51.5353, -0.1249}, {40.7, -74.0}, {-1.29, 36.8}, {35.68, 139.7}}[rng.Intn(4)]
		level := []int{6, 10, 13, 15, 16, 17, 20}[rng.Intn(7)]
		cell := s2.CellFromCellID(s2.CellIDFromLatLng(s2.LatLngFromDegrees(o[0], o[1])).Parent(level))
		v := s2.LatLngFromPoint(cell.Vertex(rng.Intn(4)))
		f = frame{v.Lat.Degrees(), v.Lng.Degrees()}
		size := math.Sqrt(cell.ExactArea()) * earthRadiusM
		ws.scale = size * logUniform(rng, 0.05, 1.5)
		// features exactly on the cell structure: nodes at the vertices, centre and edge midpoints, a way along an
		// edge, a closed way joining the centres of the four cells around the vertex
		for k := 0; k < 4; k++ {
			ws.node(s2.LatLngFromPoint(cell.Vertex(k)), true)
		}
		ws.node(s2.LatLngFromPoint(cell.Center()), true)
		mid := s2.Point{Vector: cell.Vertex(0).Add(cell.Vertex(1).Vector).Normalize()}
		ws.node(s2.LatLngFromPoint(mid), true)
		ws.way(rng, []s2.LatLng{s2.LatLngFromPoint(cell.Vertex(0)), s2.LatLngFromPoint(cell.Vertex(1))})
		ws.way(rng, []s2.LatLng{s2.LatLngFromPoint(cell.Vertex(1)), s2.LatLngFromPoint(cell.Center()), s2.LatLngFromPoint(cell.Vertex(3))})
		var centres []s2.LatLng
		for _, n := range cell.ID().VertexNeighbors(level) {
			centres = append(centres, s2.LatLngFromPoint(s2.CellFromCellID(n).Center()))
		}
		sortCCW(centres)
		ws.closedWay(centres, true)
		kids := cell.ID().Children()
		ws.closedWay([]s2.LatLng{s2.LatLngFromPoint(s2.CellFromCellID(kids[0]).Center()), s2.LatLngFromPoint(s2.CellFromCellID(kids[1]).Center()),
			s2.LatLngFromPoint(s2.CellFromCellID(kids[2]).Center()), s2.LatLngFromPoint(s2.CellFromCellID(kids[3]).Center())}, true)
	case "tolerance":
		// Matches accepts a point within 1 mm of a path (pointIntersectsFeature, polylineIntersectsFeature).  Put a
		// path 0.3 mm inside a level-16 cell along one of its edges and a point 0.3 mm outside that edge.
		o := [][2]float64{{51.5353, -0.1249}, {40.7, -74.0}, {-1.29, 36.8}, {35.68, 139.7}}[rng.Intn(4)]
		cell := s2.CellFromCellID(s2.CellIDFromLatLng(s2.LatLngFromDegrees(o[0]+rng.Float64()*0.01, o[1]+rng.Float64()*0.01)).Parent(16))
		k := rng.Intn(4)
		v0, v1, c := s2.LatLngFromPoint(cell.Vertex(k)), s2.LatLngFromPoint(cell.Vertex((k+1)%4)), s2.LatLngFromPoint(cell.Center())
		mid := s2.LatLngFromPoint(s2.Point{Vector: cell.Vertex(k).Add(cell.Vertex((k + 1) % 4).Vector).Normalize()})
		f = frame{mid.Lat.Degrees(), mid.Lng.Degrees()}
		ax, ay := f.xy(v1)
		bx, by := f.xy(v0)
		along := xy{(ax - bx) / math.Hypot(ax-bx, ay-by), (ay - by) / math.Hypot(ax-bx, ay-by)}
		cx, cy := f.xy(c)
		// unit normal of the edge pointing into the cell
		in := xy{-along.Y, along.X}
		if in.X*cx+in.Y*cy < 0 {
			in = xy{along.Y, -along.X}
		}
		l := math.Hypot(ax-bx, ay-by)
		d := 0.0003
		inside := []s2.LatLng{f.ll(-0.3*l*along.X+d*in.X, -0.3*l*along.Y+d*in.Y), f.ll(0.3*l*along.X+d*in.X, 0.3*l*along.Y+d*in.Y)}
		outside := f.ll(-d*in.X, -d*in.Y)
		ws.way(rng, inside)
		ws.node(outside, true)
		ws.probePoints = append(ws.probePoints, outside)
		ws.probeLines = append(ws.probeLines, inside)
		// and the other way round: a point just inside, a path just outside
		ws.node(f.ll(0.1*l*along.X+d*in.X, 0.1*l*along.Y+d*in.Y), true)
		ws.way(rng, []s2.LatLng{f.ll(-0.2*l*along.X-d*in.X, -0.2*l*along.Y-d*in.Y), f.ll(0.25*l*along.X-d*in.X, 0.25*l*along.Y-d*in.Y)})
		ws.scale = l * logUniform(rng, 0.1, 1)
	case "crossface":
		o := [][2]float64{{0, 45}, {0, -45}, {0.01, 135}, {45, 0}, {35.2643896827, 45}, {-35.2643896827, -45}, {45, 90}}[rng.Intn(7)]
		f = frame{o[0], o[1]}
		ws.scale = logUniform(rng, 10, 200000)
	case "large":
		o := [][2]float64{{48, 10}, {10, 20}, {-20, -60}, {30, 100}}[rng.Intn(4)]
		f = frame{o[0], o[1]}
		ws.scale = logUniform(rng, 20000, 600000)
	case "huge":
		f = frame{[]float64{10, -15, 25}[rng.Intn(3)], []float64{0, 80, -100}[rng.Intn(3)]}
		ws.scale = logUniform(rng, 300000, 1500000)
		// a path round the equator, a meridian path, an area that contains a whole cube face, a 40 x 40 degree area
		lat := rng.Float64()*2 - 1
		ws.way(rng, []s2.LatLng{s2.LatLngFromDegrees(lat, -170), s2.LatLngFromDegrees(lat, -90), s2.LatLngFromDegrees(lat, 0),
			s2.LatLngFromDegrees(lat, 90), s2.LatLngFromDegrees(lat, 170)})
		lng := rng.Float64()*40 - 20
		ws.way(rng, []s2.LatLng{s2.LatLngFromDegrees(-70, lng), s2.LatLngFromDegrees(0, lng+3), s2.LatLngFromDegrees(75, lng)})
		var capLoop []s2.LatLng
		for k := 0; k < 8; k++ {
			capLoop = append(capLoop, s2.LatLngFromDegrees(20+rng.Float64()*5, -180+45*float64(k)+22))
		}
		ws.closedWay(capLoop, true)
		c := [][2]float64{{0, 0}, {0, 90}, {5, -90}}[rng.Intn(3)]
		ws.closedWay([]s2.LatLng{s2.LatLngFromDegrees(c[0]-20, c[1]-20), s2.LatLngFromDegrees(c[0]-20, c[1]+20),
			s2.LatLngFromDegrees(c[0]+20, c[1]+20), s2.LatLngFromDegrees(c[0]+20, c[1]-20)}, true)
	}
	s := ws.scale
	place := func() (float64, float64) { return (rng.Float64()*2 - 1) * 3 * s, (rng.Float64()*2 - 1) * 3 * s }
	// points: tagged (indexed) and bare (not indexed)
	for i := 0; i < 3+rng.Intn(4); i++ {
		x, y := place()
		ws.node(f.ll(x, y), true)
	}
	for i := 0; i < 1+rng.Intn(2); i++ {
		x, y := place()
		ws.node(f.ll(x, y), false)
	}
	// open ways
	for i := 0; i < 2+rng.Intn(3); i++ {
		x, y := place()
		n := 2 + rng.Intn(5)
		l := make([]xy, n)
		for k := range l {
			l[k] = xy{x, y}
			x += (rng.Float64()*2 - 1) * s
			y += (rng.Float64()*2 - 1) * s
		}
		ws.way(rng, lls(f, l))
	}
	// closed ways: star shaped, mostly concave; some with many vertices (IntersectsCap switches to its cell test)
	var rings []osm.WayID
	var ringAt []xy
	for i := 0; i < 2+rng.Intn(3); i++ {
		x, y := place()
		n := 3 + rng.Intn(6)
		if rng.Intn(4) == 0 {
			n = 17 + rng.Intn(8)
		}
		if id := ws.closedWay(lls(f, star(rng, x, y, 0.3*s, s, n)), true); id != 0 {
			rings = append(rings, id)
			ringAt = append(ringAt, xy{x, y})
		}
	}
	// multipolygons: a shell with a hole; two shells
	if rng.Intn(2) == 0 {
		x, y := place()
		outer := ws.closedWay(lls(f, star(rng, x, y, 0.8*s, 1.2*s, 5+rng.Intn(4))), false)
		inner := ws.closedWay(lls(f, star(rng, x, y, 0.1*s, 0.3*s, 3+rng.Intn(3))), false)
		if outer != 0 && inner != 0 {
			ws.multipolygon([]osm.Member{{Type: osm.ElementTypeWay, ID: osm.AnyID(outer), Role: "outer"}, {Type: osm.ElementTypeWay, ID: osm.AnyID(inner), Role: "inner"}})
		}
	}
	if rng.Intn(2) == 0 {
		x, y := place()
		a := ws.closedWay(lls(f, star(rng, x, y, 0.3*s, 0.6*s, 4+rng.Intn(3))), false)
		b := ws.closedWay(lls(f, star(rng, x+2.5*s, y+0.5*s, 0.3*s, 0.6*s, 4+rng.Intn(3))), false)
		if a != 0 && b != 0 {
			ws.multipolygon([]osm.Member{{Type: osm.ElementTypeWay, ID: osm.AnyID(a), Role: "outer"}, {Type: osm.ElementTypeWay, ID: osm.AnyID(b), Role: "outer"}})
		}
	}
	if withExtras {
		// features that do not come from OSM: areas given as polygons (with a hole, with two parts), a point,
		// a path given by coordinates
		for i := 0; i < 2; i++ {
			x, y := place()
			var polys []*s2.Polygon
			shell := star(rng, x, y, 0.6*s, s, 4+rng.Intn(5))
			if !validLoop(lls(f, shell)) {
				continue
			}
			if i == 0 {
				hole := star(rng, x, y, 0.1*s, 0.25*s, 3+rng.Intn(3))
				if !validLoop(lls(f, hole)) {
					continue
				}
				polys = append(polys, f.polygon(shell, hole))
			} else {
				second := star(rng, x+3*s, y, 0.4*s, 0.8*s, 3+rng.Intn(4))
				if !validLoop(lls(f, second)) {
					continue
				}
				polys = append(polys, f.polygon(shell), f.polygon(second))
			}
			area := ingest.NewAreaFeature(len(polys))
			area.AreaID = b6.MakeAreaID(verifNS, uint64(ws.id()))
			area.Tags = b6.Tags{{Key: "#landuse", Value: b6.NewStringExpression("verif")}}
			for k, p := range polys {
				area.SetPolygon(k, p)
			}
			ws.extras = append(ws.extras, area)
			ws.anchors = append(ws.anchors, f.ll(x, y))
		}
		x, y := place()
		ws.extras = append(ws.extras, &ingest.GenericFeature{
			ID: b6.FeatureID{Type: b6.FeatureTypePoint, Namespace: verifNS, Value: uint64(ws.id())},
			Tags: b6.Tags{{Key: b6.PointTag, Value: b6.NewPointExpressionFromLatLng(f.ll(x, y))},
				{Key: "#amenity", Value: b6.NewStringExpression("verif")}}})
		ws.anchors = append(ws.anchors, f.ll(x, y))
		x, y = place()
		var es []b6.AnyExpression
		for k := 0; k < 3; k++ {
			es = append(es, b6.PointExpression(f.ll(x+float64(k)*s, y+float64(k%2)*s)))
		}
		ws.extras = append(ws.extras, &ingest.GenericFeature{
			ID: b6.FeatureID{Type: b6.FeatureTypePath, Namespace: verifNS, Value: uint64(ws.id())},
			Tags: b6.Tags{{Key: "#highway", Value: b6.NewStringExpression("verif")},
				{Key: b6.PathTag, Value: b6.NewExpressions(es)}}})
		ws.anchors = append(ws.anchors, f.ll(x, y), f.ll(x+s, y+s))
	}
	return ws
}

// sortCCW orders a handful of nearby positions counter-clockwise around their mean.
func sortCCW(l []s2.LatLng) {
	var clat, clng float64
	for _, p := range l {
		clat += p.Lat.Degrees()
		clng += p.Lng.Degrees()
	}
	clat /= float64(len(l))
	clng /= float64(len(l))
	sort.Slice(l, func(i, j int) bool {
		return math.Atan2(l[i].Lat.Degrees()-clat, l[i].Lng.Degrees()-clng) < math.Atan2(l[j].Lat.Degrees()-clat, l[j].Lng.Degrees()-clng)
	})
}

// buildWorld returns the world and, for the two-layer kinds, the base world underneath it and (for the static
// overlay) the upper layer.
func buildWorld(ws *worldSpec, kind string) (b6.World, b6.World, b6.World, error) {
	if kind == "layered" {
		o := &ingest.BuildOptions{Cores: 2}
		base, err := ingest.BuildWorldFromOSM(ws.nodes, ws.ways, ws.rels, o)
		if err != nil {
			return nil, nil, nil, err
		}
		b := ingest.NewBasicWorldBuilder(o)
		for _, f := range ws.extras {
			b.AddFeature(f)
		}
		upper, err := b.Finish(o)
		if err != nil {
			return nil, nil, nil, err
		}
		return ingest.NewOverlayWorld(upper, base), base, upper, nil
	}
	w, base, err := buildWorld2(ws, kind)
	return w, base, nil, err
}

func buildWorld2(ws *worldSpec, kind string) (w b6.World, base b6.World, err error) {
	o := &ingest.BuildOptions{Cores: 2}
	switch kind {
	case "basic":
		w, err = ingest.BuildWorldFromOSM(ws.nodes, ws.ways, ws.rels, o)
		return w, nil, err
	case "compact":
		src := ingest.MemoryOSMSource{Nodes: ws.nodes, Ways: ws.ways, Relations: ws.rels}
		source, err := ingest.NewFeatureSourceFromPBF(&src, o, context.Background())
		if err != nil {
			return nil, nil, err
		}
		index, err := compact.BuildInMemory(source, &compact.Options{Goroutines: 2, PointsScratchOutputType: compact.OutputTypeMemory})
		if err != nil {
			return nil, nil, err
		}
		cw := compact.NewWorld()
		return cw, nil, cw.Merge(index)
	case "overlay":
		base, err = ingest.BuildWorldFromOSM(ws.nodes, ws.ways, ws.rels, o)
		if err != nil {
			return nil, nil, err
		}
		ow := ingest.NewMutableOverlayWorld(base)
		for _, f := range ws.extras {
			if err := ow.AddFeature(f); err != nil {
				return nil, nil, fmt.Errorf("overlay AddFeature(%s): %v", f.FeatureID(), err)
			}
		}
		return ow, base, nil
	case "mutable":
		src := ingest.MemoryOSMSource{Nodes: ws.nodes, Ways: ws.ways, Relations: ws.rels}
		source, err := ingest.NewFeatureSourceFromPBF(&src, &ingest.BuildOptions{Cores: 1}, context.Background())
		if err != nil {
			return nil, nil, err
		}
		mw, err := ingest.NewMutableWorldFromSource(&ingest.BuildOptions{Cores: 1}, source)
		if err != nil {
			return nil, nil, err
		}
		m := mw.(*ingest.BasicMutableWorld)
		for _, f := range ws.extras {
			if err := m.AddFeature(f); err != nil {
				return nil, nil, fmt.Errorf("mutable AddFeature(%s): %v", f.FeatureID(), err)
			}
		}
		return m, nil, nil
	}
	return nil, nil, fmt.Errorf("unknown world kind %q", kind)
}

// ---- queries -----------------------------------------------------------------------------------------------

type namedQuery struct {
	kind string
	q    b6.Query
	// the purely spatial part (for the token diagnosis); equals q unless q is an intersection with a tag query
	spatial b6.Query
}

func jitter(rng *rand.Rand, ll s2.LatLng, metres float64) s2.LatLng {
	f := frame{ll.Lat.Degrees(), ll.Lng.Degrees()}
	out := f.ll((rng.Float64()*2-1)*metres, (rng.Float64()*2-1)*metres)
	if !validLL(out) {
		return ll
	}
	return out
}

func genQueries(rng *rand.Rand, ws *worldSpec, w b6.World, indexed []b6.FeatureID, n int) []namedQuery {
	var out []namedQuery
	anchor := func() s2.LatLng { return ws.anchors[rng.Intn(len(ws.anchors))] }
	near := func() s2.LatLng {
		a := anchor()
		switch rng.Intn(3) {
		case 0:
			return a
		case 1:
			return jitter(rng, a, ws.scale*0.05)
		}
		return jitter(rng, a, ws.scale*2)
	}
	add := func(kind string, q b6.Query) {
		nq := namedQuery{kind: kind, q: q, spatial: q}
		if rng.Intn(5) == 0 {
			// the same region under an intersection with a tag query: the spatial iterator is driven by Advance
			key := []string{"#amenity", "#highway", "#building"}[rng.Intn(3)]
			nq = namedQuery{kind: "tag&" + kind, q: b6.Intersection{b6.Keyed{Key: key}, q}, spatial: q}
		}
		out = append(out, nq)
		// the same region again in a form whose spatial iterator is driven by Advance rather than Next: under a
		// key range of one feature type (the first call is Advance(first ID of the type)), or as the second
		// member of an intersection with everything (leapfrog: Advance to every candidate of the first member)
		switch rng.Intn(8) {
		case 0:
			out = append(out, namedQuery{kind: "typed-point&" + kind, q: b6.Typed{Type: b6.FeatureTypePoint, Query: q}, spatial: q})
		case 1:
			out = append(out, namedQuery{kind: "typed-path&" + kind, q: b6.Typed{Type: b6.FeatureTypePath, Query: q}, spatial: q})
		case 2:
			out = append(out, namedQuery{kind: "typed-area&" + kind, q: b6.Typed{Type: b6.FeatureTypeArea, Query: q}, spatial: q})
		case 3:
			out = append(out, namedQuery{kind: "all&" + kind, q: b6.Intersection{b6.All{}, q}, spatial: q})
		}
	}
	for _, p := range ws.probePoints {
		out = append(out, namedQuery{kind: "point", q: b6.IntersectsPoint{Point: s2.PointFromLatLng(p)}, spatial: b6.IntersectsPoint{Point: s2.PointFromLatLng(p)}})
	}
	for _, l := range ws.probeLines {
		pl := make(s2.Polyline, len(l))
		for i, ll := range l {
			pl[i] = s2.PointFromLatLng(ll)
		}
		out = append(out, namedQuery{kind: "polyline", q: b6.IntersectsPolyline{Polyline: &pl}, spatial: b6.IntersectsPolyline{Polyline: &pl}})
	}
	for len(out) < n {
		switch rng.Intn(6) {
		case 0: // cap
			r := logUniform(rng, 0.05, 3) * ws.scale
			switch rng.Intn(12) {
			case 0:
				r = 0.01
			case 1:
				r = earthRadiusM * (0.5 + rng.Float64()*2.5) // up to the whole sphere
			}
			add("cap", b6.NewIntersectsCap(s2.CapFromCenterAngle(s2.PointFromLatLng(near()), metersToAngle(r))))
		case 1: // cells
			k := 1 + rng.Intn(3)
			var cells []s2.Cell
			for i := 0; i < k; i++ {
				level := rng.Intn(31)
				if rng.Intn(3) == 0 {
					level = rng.Intn(4) // faces and their first descendants
				}
				id := s2.CellIDFromLatLng(near()).Parent(level)
				if rng.Intn(4) == 0 {
					id = id.EdgeNeighbors()[rng.Intn(4)]
				}
				cells = append(cells, s2.CellFromCellID(id))
			}
			add("cells", b6.IntersectsCells{Cells: cells})
		case 2: // point
			add("point", b6.IntersectsPoint{Point: s2.PointFromLatLng(near())})
		case 3: // polyline
			k := 2 + rng.Intn(3)
			pl := make(s2.Polyline, k)
			for i := range pl {
				pl[i] = s2.PointFromLatLng(near())
			}
			ok := true
			for i := 0; i+1 < k; i++ {
				if pl[i] == pl[i+1] || pl[i].Angle(pl[i+1].Vector) > 3 {
					ok = false
				}
			}
			if ok {
				add("polyline", b6.IntersectsPolyline{Polyline: &pl})
			}
		case 4: // multipolygon: 1..3 parts, sometimes with a hole
			var mp geometry.MultiPolygon
			for i := 0; i < 1+rng.Intn(3); i++ {
				c := near()
				f := frame{c.Lat.Degrees(), c.Lng.Degrees()}
				r := logUniform(rng, 0.05, 2) * ws.scale
				shell := star(rng, 0, 0, 0.5*r, r, 3+rng.Intn(6))
				if !validLoop(lls(f, shell)) {
					continue
				}
				if rng.Intn(3) == 0 {
					hole := star(rng, 0, 0, 0.1*r, 0.2*r, 3+rng.Intn(3))
					if validLoop(lls(f, hole)) {
						mp = append(mp, f.polygon(shell, hole))
						continue
					}
				}
				mp = append(mp, f.polygon(shell))
			}
			if len(mp) > 0 {
				add("multipolygon", b6.IntersectsMultiPolygon{MultiPolygon: mp})
			}
		case 5: // intersecting feature
			if len(indexed) > 0 {
				id := indexed[rng.Intn(len(indexed))]
				if rng.Intn(10) == 0 {
					id.Value += 100000 // no such feature
				}
				add("feature", b6.IntersectsFeature{ID: id})
			}
		}
	}
	return out
}

func spatialOnly(ts []string) []string {
	var out []string
	for _, t := range ts {
		if isSpatialToken(t) {
			out = append(out, t)
		}
	}
	return out
}

// queryTokens: the spatial tokens the compiled query looks up (recorded from the real Compile), and the covering
// they stand for (the a2 tokens name exactly the covering cells), checked by re-running RewriteSpatialQuery.
func queryTokens(q b6.Query, w b6.World) (tokens []string, cov s2.CellUnion, consistent bool) {
	r := &recorder{}
	if p := vh.Catch(func() { q.Compile(r, w) }); p != "" {
		return nil, nil, false
	}
	tokens = spatialOnly(r.tokens)
	for _, t := range tokens {
		if m, ok := tokenOf(t); ok && m.K == "a2" {
			cov = append(cov, m.C.id())
		}
	}
	return tokens, cov, sameSet(tokenSet(toModelTokens(tokens)), tokenSet(toModelTokens(realQueryTokens(cov))))
}

// featureTokens: the spatial tokens the real indexer gives the feature, and the covering they come from.
func featureTokens(f b6.Feature) (tokens []string, cov s2.CellUnion, consistent bool) {
	tokens = spatialOnly(ingest.TokensForFeature(f))
	p, ok := f.(b6.PhysicalFeature)
	if !ok {
		return tokens, nil, false
	}
	cov = b6.Covering(p, indexCoverer())
	return tokens, cov, sameSet(tokenSet(toModelTokens(tokens)), tokenSet(toModelTokens(realFeatureTokens(cov))))
}

type ordered []b6.FeatureID

func (o ordered) Len() int           { return len(o) }
func (o ordered) Less(i, j int) bool { return o[i].Less(o[j]) }
func (o ordered) Swap(i, j int)      { o[i], o[j] = o[j], o[i] }

func collect(w b6.World, q b6.Query) []b6.FeatureID {
	var out []b6.FeatureID
	fs := w.FindFeatures(q)
	for fs.Next() {
		out = append(out, fs.FeatureID())
	}
	return out
}

func runE2E(data json.RawMessage) vh.Verdict {
	var c e2eCase
	if err := json.Unmarshal(data, &c); err != nil {
		return vh.Fail("harness-json", "bad case: %v", err)
	}
	rng := rand.New(rand.NewSource(c.Seed*7919 + int64(c.ID)*104729 + 17))
	ws := genWorld(rng, c.Class, c.World == "overlay" || c.World == "mutable" || c.World == "layered")
	var w, base, upper b6.World
	var err error
	if p := vh.Catch(func() { w, base, upper, err = buildWorld(ws, c.World) }); p != "" {
		return vh.Verdict{OK: false, Key: "harness-world-build-panic " + c.World, Msg: p}
	}
	if err != nil {
		return vh.Verdict{OK: false, Key: "harness-world-build " + c.World, Msg: err.Error()}
	}
	indexed := collect(w, b6.All{})
	sort.Sort(ordered(indexed))
	rank := map[b6.FeatureID]int{}
	for i, id := range indexed {
		rank[id] = i + 1
	}
	features := make([]b6.Feature, len(indexed))
	for i, id := range indexed {
		features[i] = w.FindFeatureByID(id)
		if features[i] == nil {
			return vh.Verdict{OK: false, Key: "indexed-feature-not-found " + c.World, Msg: fmt.Sprintf("%s is returned by FindFeatures(All) but FindFeatureByID returns nil", id)}
		}
	}
	stats := map[string]int{"worlds": 1, "indexed_features": len(indexed), "world_" + c.World: 1, "class_" + c.Class: 1}
	var events []interface{}
	var first *findEvent
	fail := func(e *findEvent, key, what string) {
		if !e.GoBad {
			e.GoBad, e.Key, e.What = true, key, what
		}
	}
	queries := genQueries(rng, ws, w, indexed, c.NQ)
	for qi, nq := range queries {
		e := &findEvent{Ev: "find", Indexed: make([]int, len(indexed)), Matches: make([]bool, len(indexed)), Result: []int{},
			Query: nq.q.String(), Kind: nq.kind}
		for i := range indexed {
			e.Indexed[i] = i + 1
		}
		var result []b6.FeatureID
		if p := vh.Catch(func() { result = collect(w, nq.q) }); p != "" {
			fail(e, "panic-in-FindFeatures query="+nq.kind, p)
			events = append(events, e)
			if first == nil {
				first = e
			}
			continue
		}
		inResult := map[b6.FeatureID]bool{}
		invented := 0
		for _, id := range result {
			inResult[id] = true
			if r, ok := rank[id]; ok {
				e.Result = append(e.Result, r)
			} else {
				invented++
				e.Result = append(e.Result, 100000+invented)
				fail(e, fmt.Sprintf("invented-unindexed query=%s feature=%s", nq.kind, id.Type), fmt.Sprintf("%s returned %s, which FindFeatures(All) does not return", nq.q, id))
			}
		}
		matched := 0
		for i, f := range features {
			f := f
			i := i
			if p := vh.Catch(func() { e.Matches[i] = nq.q.Matches(f, w) }); p != "" {
				fail(e, fmt.Sprintf("panic-in-Matches query=%s feature=%s", nq.kind, indexed[i].Type), p)
			}
			if e.Matches[i] {
				matched++
			}
		}
		stats["queries"]++
		stats["query_"+nq.kind]++
		if matched > 0 {
			stats["queries_with_matches"]++
		}
		if matched > 0 && matched < len(indexed) {
			stats["queries_selective"]++
		}
		// the adapter's own judgement, for the failure key
		qtok, qcov, qok := queryTokens(nq.spatial, w)
		for i, id := range indexed {
			switch {
			case e.Matches[i] && !inResult[id]:
				ftok, fcov, _ := featureTokens(features[i])
				key := fmt.Sprintf("filter-miss query=%s feature=%s", nq.kind, id.Type)
				if qf, ok := nq.spatial.(b6.IntersectsFeature); ok && base != nil && base.FindFeatureByID(qf.ID) == nil && base.FindFeatureByID(id) != nil {
					// the query names a feature that exists only in the upper layer and the missed feature lives in the base
					key = overlayKey
					if upper != nil {
						key = layeredKey
					}
				} else if ok && upper != nil && upper.FindFeatureByID(qf.ID) == nil && upper.FindFeatureByID(id) != nil {
					// the query names a feature of the base and the missed feature lives in the upper layer
					key = layeredKey
				} else if !intersects(ftok, qtok) {
					key = fmt.Sprintf("prefilter-miss query=%s feature=%s", nq.kind, id.Type)
					if explainedByFaceCell(fcov, qcov, ftok) {
						key = faceKey
					} else if _, _, rel := relatedUnion(fcov, qcov); !rel && qok && withinTolerance(nq.spatial, features[i], w) {
						// the two coverings do not meet at all: the regions are disjoint and only the 1 mm tolerance of
						// Matches makes this a match
						key = toleranceKey
					}
				}
				fail(e, key, fmt.Sprintf("world %s/%s seed %d case %d: %s: Matches(%s) is true but FindFeatures does not return it; feature covering %v tokens %v; query covering %v tokens %v",
					c.World, c.Class, c.Seed, c.ID, nq.q, id, cellsOf(fcov), ftok, cellsOf(qcov), qtok))
			case !e.Matches[i] && inResult[id]:
				fail(e, fmt.Sprintf("invented query=%s feature=%s", nq.kind, id.Type),
					fmt.Sprintf("world %s/%s seed %d case %d: %s: FindFeatures returns %s but Matches is false", c.World, c.Class, c.Seed, c.ID, nq.q, id))
			}
		}
		if !e.GoBad && !sort.IntsAreSorted(e.Result) {
			fail(e, "order query="+nq.kind, fmt.Sprintf("%s: results are not in ID order: %v", nq.q, result))
		}
		if !e.GoBad {
			seen := map[int]bool{}
			for _, r := range e.Result {
				if seen[r] {
					fail(e, "duplicate query="+nq.kind, fmt.Sprintf("%s: a feature is returned twice: %v", nq.q, result))
				}
				seen[r] = true
			}
		}
		if c.Mutate == "drop-result" && qi == 0 {
			// self-test of the binding: make the logged result wrong without telling the adapter's judge
			if len(e.Result) > 0 {
				e.Result = e.Result[1:]
			} else {
				e.Result = []int{1}
			}
		}
		events = append(events, e)
		if e.GoBad && first == nil {
			first = e
		}
		// "tok" events: the lemma on the real coverings and token sets of this query and some features
		if qok && !strings.HasPrefix(nq.kind, "tag&") && len(qcov) > 0 {
			picked := 0
			for i := range indexed {
				if picked >= 4 {
					break
				}
				if !e.Matches[i] && rng.Intn(6) != 0 {
					continue
				}
				ftok, fcov, fok := featureTokens(features[i])
				if !fok {
					stats["tok_skipped_feature_covering_not_reproduced"]++
					continue
				}
				te := newTokEvent(fcov, qcov, ftok, qtok, "e2e query="+nq.kind)
				events = append(events, &te)
				stats["tok_events"]++
				picked++
			}
		} else if !qok {
			stats["tok_skipped_query_covering_not_reproduced"]++
		}
	}
	v := vh.Verdict{OK: first == nil, Obs: map[string]interface{}{"events": events}, Stats: stats}
	if first != nil {
		v.Key, v.Msg = first.Key, first.What
	}
	return v
}

// withinTolerance: the query is a point or polyline (or a feature with such a geometry), the feature a path or point,
// and the point is within the 1 mm that pointIntersectsFeature / polylineIntersectsFeature accept (this includes a
// point that lies on a path running exactly along a cell edge: rounding may put it into the cell on the other side,
// which the path's covering does not contain).
func withinTolerance(q b6.Query, f b6.Feature, w b6.World) bool {
	var qp []s2.Point
	switch q := q.(type) {
	case b6.IntersectsPoint:
		qp = []s2.Point{q.Point}
	case b6.IntersectsPolyline:
		qp = []s2.Point(*q.Polyline)
	case b6.IntersectsFeature:
		g, ok := w.FindFeatureByID(q.ID).(b6.PhysicalFeature)
		if !ok {
			return false
		}
		switch g.GeometryType() {
		case b6.GeometryTypePoint:
			qp = []s2.Point{g.Point()}
		case b6.GeometryTypePath:
			qp = []s2.Point(*g.Polyline())
		default:
			return false
		}
	default:
		return false
	}
	g, ok := f.(b6.PhysicalFeature)
	if !ok {
		return false
	}
	var fp []s2.Point
	switch g.GeometryType() {
	case b6.GeometryTypePoint:
		fp = []s2.Point{g.Point()}
	case b6.GeometryTypePath:
		fp = []s2.Point(*g.Polyline())
	default:
		return false
	}
	if len(qp) > 1 && len(fp) > 1 {
		return false // path against path has no tolerance
	}
	if len(qp) == 1 && len(fp) == 1 {
		return false
	}
	p, line := qp[0], fp
	if len(qp) > 1 {
		p, line = fp[0], qp
	}
	pl := s2.Polyline(line)
	return minDist(p, polylineEdges(&pl)) < metersToAngle(0.001)
}

// explainedByFaceCell: the feature's covering has a level-0 cell related to the query covering, every other
// feature cell is unrelated to it, and the feature's tokens are what the as-built transcription predicts.
func explainedByFaceCell(fcov, qcov s2.CellUnion, ftok []string) bool {
	face := false
	for _, a := range fcov {
		for _, b := range qcov {
			if related(a, b) {
				if a.Level() != 0 {
					return false
				}
				face = true
			}
		}
	}
	return face && sameSet(tokenSet(toModelTokens(ftok)), tokenSet(asBuiltFeatureTokens(fcov)))
}

var _ = s1.Angle(0)
