package main

import (
	"math"
	"math/rand"

	"github.com/golang/geo/s1"
	"github.com/golang/geo/s2"
)

// Geometry helpers shared by the C04 and C05 drivers.  Everything here uses s2 primitives directly (the trusted
// base) and nothing from b6/spatial.go.

const earthRadiusM = 6371010.0

// margin: a case is only used when no decision it rests on is closer than this to flipping (C05: "excluding
// points within 1e-9 rad of an edge").
const margin = s1.Angle(1e-9)

func metersToAngle(m float64) s1.Angle { return s1.Angle(m / earthRadiusM) }

// frame is a local tangent frame: x metres east, y metres north of an origin.
type frame struct {
	lat0, lng0 float64 // degrees
}

func (f frame) ll(x, y float64) s2.LatLng {
	dlat := y / earthRadiusM * 180 / math.Pi
	dlng := x / (earthRadiusM * math.Cos(f.lat0*math.Pi/180)) * 180 / math.Pi
	return s2.LatLngFromDegrees(f.lat0+dlat, f.lng0+dlng)
}

func (f frame) pt(x, y float64) s2.Point { return s2.PointFromLatLng(f.ll(x, y)) }

// xy is the inverse of ll.
func (f frame) xy(ll s2.LatLng) (float64, float64) {
	y := (ll.Lat.Degrees() - f.lat0) * math.Pi / 180 * earthRadiusM
	x := (ll.Lng.Degrees() - f.lng0) * math.Pi / 180 * earthRadiusM * math.Cos(f.lat0*math.Pi/180)
	return x, y
}

type xy struct{ X, Y float64 }

// star returns a counter-clockwise star-shaped loop of n vertices around (cx, cy): radius between rmin and rmax.
func star(rng *rand.Rand, cx, cy, rmin, rmax float64, n int) []xy {
	out := make([]xy, n)
	phase := rng.Float64() * 2 * math.Pi
	for i := 0; i < n; i++ {
		a := phase + 2*math.Pi*(float64(i)+0.6*(rng.Float64()-0.5))/float64(n)
		r := rmin + (rmax-rmin)*rng.Float64()
		out[i] = xy{cx + r*math.Cos(a), cy + r*math.Sin(a)}
	}
	return out
}

// rect returns a counter-clockwise rectangle.
func rect(x0, y0, x1, y1 float64) []xy {
	return []xy{{x0, y0}, {x1, y0}, {x1, y1}, {x0, y1}}
}

// comb returns a counter-clockwise simple polygon made of a base bar [x0,x1] x [y0,y1] with one tooth of width w
// rising to height top at each of the given x positions (sorted ascending, inside the bar).  It contains the
// points (x, top - w) for the teeth and nothing above y1 elsewhere: a concave shape.
func comb(x0, y0, x1, y1 float64, teeth []float64, w, top float64) []xy {
	out := []xy{{x0, y0}, {x1, y0}, {x1, y1}}
	for i := len(teeth) - 1; i >= 0; i-- {
		t := teeth[i]
		out = append(out, xy{t + w/2, y1}, xy{t + w/2, top}, xy{t - w/2, top}, xy{t - w/2, y1})
	}
	return append(out, xy{x0, y1})
}

func (f frame) points(l []xy) []s2.Point {
	out := make([]s2.Point, len(l))
	for i, p := range l {
		out[i] = f.pt(p.X, p.Y)
	}
	return out
}

func (f frame) loop(l []xy) *s2.Loop { return s2.LoopFromPoints(f.points(l)) }

// polygon builds an s2.Polygon from a shell and holes, all given counter-clockwise.
func (f frame) polygon(shell []xy, holes ...[]xy) *s2.Polygon {
	loops := []*s2.Loop{f.loop(shell)}
	for _, h := range holes {
		loops = append(loops, f.loop(h))
	}
	return s2.PolygonFromLoops(loops)
}

// isConvexLoop: every vertex turns left (the loop is counter-clockwise around its interior).
func isConvexLoop(l *s2.Loop) bool {
	n := l.NumVertices()
	for i := 0; i < n; i++ {
		if !s2.Sign(l.Vertex(i), l.Vertex((i+1)%n), l.Vertex((i+2)%n)) {
			return false
		}
	}
	return true
}

// ---- primitive facts with a safety margin ---------------------------------------------------------------

type edge struct{ a, b s2.Point }

func loopEdges(l *s2.Loop) []edge {
	out := make([]edge, 0, l.NumVertices())
	for i := 0; i < l.NumVertices(); i++ {
		out = append(out, edge{l.Vertex(i), l.Vertex((i + 1) % l.NumVertices())})
	}
	return out
}

func polygonEdges(p *s2.Polygon) []edge {
	var out []edge
	for i := 0; i < p.NumLoops(); i++ {
		out = append(out, loopEdges(p.Loop(i))...)
	}
	return out
}

func polygonVertices(p *s2.Polygon) []s2.Point {
	var out []s2.Point
	for i := 0; i < p.NumLoops(); i++ {
		out = append(out, p.Loop(i).Vertices()...)
	}
	return out
}

func polylineEdges(p *s2.Polyline) []edge {
	var out []edge
	for i := 0; i+1 < len(*p); i++ {
		out = append(out, edge{(*p)[i], (*p)[i+1]})
	}
	return out
}

func cellEdges(c s2.Cell) []edge {
	out := make([]edge, 4)
	for k := 0; k < 4; k++ {
		out[k] = edge{c.Vertex(k), c.Vertex((k + 1) % 4)}
	}
	return out
}

func cellVertices(c s2.Cell) []s2.Point {
	return []s2.Point{c.Vertex(0), c.Vertex(1), c.Vertex(2), c.Vertex(3)}
}

// minDist: distance from x to the nearest of the edges.
func minDist(x s2.Point, es []edge) s1.Angle {
	d := s1.Angle(math.Pi)
	for _, e := range es {
		if dd := s2.DistanceFromSegment(x, e.a, e.b); dd < d {
			d = dd
		}
	}
	return d
}

// clearOf: every point is farther than the margin from every edge.
func clearOf(ps []s2.Point, es []edge) bool {
	for _, p := range ps {
		if minDist(p, es) <= margin*4 {
			return false
		}
	}
	return true
}

// generalPosition: no vertex of one set of edges is within the margin of an edge of the other; then every
// crossing between the two is transversal and no containment decision is borderline.
func generalPosition(a, b []edge) bool {
	va := make([]s2.Point, 0, len(a)*2)
	for _, e := range a {
		va = append(va, e.a, e.b)
	}
	vb := make([]s2.Point, 0, len(b)*2)
	for _, e := range b {
		vb = append(vb, e.a, e.b)
	}
	return clearOf(va, b) && clearOf(vb, a)
}

// anyCrossing: some edge of a properly crosses some edge of b.
func anyCrossing(a, b []edge) bool {
	for _, e := range a {
		for _, g := range b {
			if s2.CrossingSign(e.a, e.b, g.a, g.b) == s2.Cross {
				return true
			}
		}
	}
	return false
}

// cellContains: point in cell, decided away from the boundary (ok = false when too close to call).
func cellContains(c s2.Cell, p s2.Point) (in bool, ok bool) {
	if minDist(p, cellEdges(c)) <= margin*4 {
		return false, false
	}
	return c.ContainsPoint(p), true
}

// cellLoopPolygon: the cell as a polygon (for containment of points in a cell's interior).
func cellPolygon(c s2.Cell) *s2.Polygon {
	return s2.PolygonFromLoops([]*s2.Loop{s2.LoopFromCell(c)})
}
