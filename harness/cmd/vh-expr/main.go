// vh-expr: expression trees enumerated by spec/ExprTree.tla (and ExprWire.tla) executed on the real code.
//
//	adapter "wire"  (C19): b6.Expression.ToProto / b6.ExpressionFromProto
//	adapter "shell" (C20): api.UnparseExpression / api.ParseExpression
//	tool    "show"       : print what the real code does with one tree (JSON on stdin)
package main

import (
	"encoding/json"
	"fmt"
	"io"
	"os"

	"diagonal.works/b6"
	"diagonal.works/b6/api"
	"verif/harness/vh"
)

// spanTree is the parsed tree with its positions, the record validated by spec/ExprSpan.tla
func spanTree(e b6.Expression) map[string]interface{} {
	kids := []interface{}{}
	for _, k := range exprChildren(e) {
		kids = append(kids, spanTree(k))
	}
	return map[string]interface{}{"kind": kindOf(e), "b": e.Begin, "e": e.End, "kids": kids}
}

// runSpans logs, for one tree, the real parse of the printed text and of the same tokens with extra whitespace.
func runSpans(data json.RawMessage) vh.Verdict {
	var c shellCase
	if err := json.Unmarshal(data, &c); err != nil {
		return vh.Fail("harness-json", "bad case: %v", err)
	}
	e, err := build(c.T, false)
	if err != nil {
		return vh.Fail("harness-build", "cannot build: %v", err)
	}
	o := roundTrip(e)
	if o.class != "ok" {
		return vh.Verdict{OK: true, Obs: map[string]interface{}{"trees": []interface{}{}}}
	}
	toks, err := tokenize(o.text)
	if err != nil {
		return vh.Fail("harness-tokenize", "%v", err)
	}
	v := 1
	if len(c.WS) > 0 {
		v = c.WS[0]
	}
	textw, tw := variant(o.text, toks, v)
	pw, err := api.ParseExpression(textw)
	if err != nil {
		return vh.Verdict{OK: true, Obs: map[string]interface{}{"trees": []interface{}{}}}
	}
	pairs := func(ts []token) [][2]int {
		out := make([][2]int, len(ts))
		for i, t := range ts {
			out[i] = [2]int{t.b, t.e}
		}
		return out
	}
	rec := map[string]interface{}{"len": len(o.text), "toks": pairs(toks), "tree": spanTree(o.back),
		"wlen": len(textw), "wtoks": pairs(tw), "wtree": spanTree(pw)}
	return vh.Verdict{OK: true, Obs: map[string]interface{}{"trees": []interface{}{rec}}}
}

func show(args []string) int {
	data, _ := io.ReadAll(os.Stdin)
	var n Node
	if err := json.Unmarshal(data, &n); err != nil {
		fmt.Fprintln(os.Stderr, err)
		return 2
	}
	o := outcomeOf(&n)
	out := map[string]interface{}{"outcome": o.class, "text": o.text, "error": o.err}
	if o.back.AnyExpression != nil {
		out["back"] = normExpr(o.back)
		out["spans"] = spanTree(o.back)
	}
	check, msg := wireCheck(&n, map[string]int{})
	out["wire"] = check
	out["wire_msg"] = msg
	b, _ := json.Marshal(out)
	fmt.Println(string(b))
	return 0
}

func main() {
	vh.RegisterFunc("wire", runWire)
	vh.RegisterFunc("wire-observe", runWireObserve)
	vh.RegisterFunc("shell", runShell)
	vh.RegisterFunc("spans", runSpans)
	vh.Tool("show", show)
	vh.Main()
}
