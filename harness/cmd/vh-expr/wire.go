// C19: Expression.ToProto -> ExpressionFromProto: Equal, same positions, second pass is the identity.
package main

import (
	"encoding/json"
	"fmt"
	"math"
	"strconv"

	"diagonal.works/b6"
	pb "diagonal.works/b6/proto"
	"github.com/golang/geo/s2"
	"google.golang.org/protobuf/encoding/prototext"
	"google.golang.org/protobuf/proto"
	"verif/harness/vh"
)

// ---------------------------------------------------------------- what the Python client would put on the wire

func (l *IDLit) proto() *pb.FeatureIDProto {
	if l.T == "codepoint" || l.T == "ons" {
		id, _ := l.id()
		t := pb.FeatureType_FeatureTypePoint
		if l.T == "ons" {
			t = pb.FeatureType_FeatureTypeArea
		}
		return &pb.FeatureIDProto{Type: t, Namespace: string(id.Namespace), Value: id.Value}
	}
	v, _ := strconv.ParseUint(l.V, 10, 64)
	t := map[string]pb.FeatureType{"point": pb.FeatureType_FeatureTypePoint, "path": pb.FeatureType_FeatureTypePath,
		"area": pb.FeatureType_FeatureTypeArea, "relation": pb.FeatureType_FeatureTypeRelation,
		"collection": pb.FeatureType_FeatureTypeCollection, "expression": pb.FeatureType_FeatureTypeExpression}[l.T]
	return &pb.FeatureIDProto{Type: t, Namespace: l.NS, Value: v}
}

func pointProto(p [2]int64) *pb.PointProto {
	return &pb.PointProto{LatE7: int32(p[0]), LngE7: int32(p[1])}
}

func polylineProto(pts [][2]int64) *pb.PolylineProto {
	p := &pb.PolylineProto{Points: make([]*pb.PointProto, len(pts))}
	for i, pt := range pts {
		p.Points[i] = pointProto(pt)
	}
	return p
}

func multiPolygonProto(polys [][][][2]int64) *pb.MultiPolygonProto {
	mp := &pb.MultiPolygonProto{Polygons: make([]*pb.PolygonProto, len(polys))}
	for i, loops := range polys {
		pp := &pb.PolygonProto{Loops: make([]*pb.LoopProto, len(loops))}
		for j, l := range loops {
			lp := &pb.LoopProto{Points: make([]*pb.PointProto, len(l))}
			for k, pt := range l {
				lp.Points[k] = pointProto(pt)
			}
			pp.Loops[j] = lp
		}
		mp.Polygons[i] = pp
	}
	return mp
}

func clientQuery(q *QNode) *pb.QueryProto {
	switch q.K {
	case "all":
		return &pb.QueryProto{Query: &pb.QueryProto_All{All: &pb.AllQueryProto{}}}
	case "keyed":
		return &pb.QueryProto{Query: &pb.QueryProto_Keyed{Keyed: q.Key}}
	case "tagged":
		return &pb.QueryProto{Query: &pb.QueryProto_Tagged{Tagged: &pb.TagProto{Key: q.Key, Value: strValue(q.Lit, q.V)}}}
	case "typed":
		t := (&IDLit{T: q.T, V: "0"}).proto().Type
		return &pb.QueryProto{Query: &pb.QueryProto_Typed{Typed: &pb.TypedQueryProto{Type: t, Query: clientQuery(q.Q)}}}
	case "and", "or":
		qs := &pb.QueriesProto{Queries: make([]*pb.QueryProto, len(q.Qs))}
		for i, c := range q.Qs {
			qs.Queries[i] = clientQuery(c)
		}
		if q.K == "and" {
			return &pb.QueryProto{Query: &pb.QueryProto_Intersection{Intersection: qs}}
		}
		return &pb.QueryProto{Query: &pb.QueryProto_Union{Union: qs}}
	case "ifeature":
		return &pb.QueryProto{Query: &pb.QueryProto_IntersectsFeature{IntersectsFeature: q.ID.proto()}}
	case "ipoint":
		return &pb.QueryProto{Query: &pb.QueryProto_IntersectsPoint{IntersectsPoint: pointProto(q.Pts[0])}}
	case "ipolyline":
		return &pb.QueryProto{Query: &pb.QueryProto_IntersectsPolyline{IntersectsPolyline: polylineProto(q.Pts)}}
	case "impoly":
		return &pb.QueryProto{Query: &pb.QueryProto_IntersectsMultiPolygon{IntersectsMultiPolygon: multiPolygonProto(q.Polys)}}
	case "icap":
		r, _ := strconv.ParseFloat(q.C, 64)
		return &pb.QueryProto{Query: &pb.QueryProto_IntersectsCap{IntersectsCap: &pb.CapProto{Center: pointProto(q.Pts[0]), RadiusMeters: r}}}
	}
	return nil
}

func clientLiteral(n *Node) *pb.LiteralNodeProto {
	switch n.K {
	case "atom":
		return &pb.LiteralNodeProto{Value: &pb.LiteralNodeProto_IntValue{IntValue: 7}}
	case "int":
		v, _ := strconv.ParseInt(n.C, 10, 64)
		return &pb.LiteralNodeProto{Value: &pb.LiteralNodeProto_IntValue{IntValue: v}}
	case "float":
		v, _ := floatClass(n.C)
		return &pb.LiteralNodeProto{Value: &pb.LiteralNodeProto_FloatValue{FloatValue: v}}
	case "bool":
		return &pb.LiteralNodeProto{Value: &pb.LiteralNodeProto_BoolValue{BoolValue: n.C == "true"}}
	case "str":
		return &pb.LiteralNodeProto{Value: &pb.LiteralNodeProto_StringValue{StringValue: strValue(n.Lit, n.S)}}
	case "id":
		return &pb.LiteralNodeProto{Value: &pb.LiteralNodeProto_FeatureIDValue{FeatureIDValue: n.ID.proto()}}
	case "tag":
		return &pb.LiteralNodeProto{Value: &pb.LiteralNodeProto_TagValue{TagValue: &pb.TagProto{Key: n.Key, Value: strValue(n.Lit, n.V)}}}
	case "point":
		return &pb.LiteralNodeProto{Value: &pb.LiteralNodeProto_PointValue{PointValue: pointProto([2]int64{n.Lat, n.Lng})}}
	case "query":
		return &pb.LiteralNodeProto{Value: &pb.LiteralNodeProto_QueryValue{QueryValue: clientQuery(n.Q)}}
	case "path":
		return &pb.LiteralNodeProto{Value: &pb.LiteralNodeProto_PathValue{PathValue: polylineProto(n.Pts)}}
	case "area":
		return &pb.LiteralNodeProto{Value: &pb.LiteralNodeProto_AreaValue{AreaValue: multiPolygonProto(n.Polys)}}
	case "route":
		r := &pb.RouteProto{Origin: n.ID.proto(), Steps: make([]*pb.StepProto, len(n.Steps))}
		for i, s := range n.Steps {
			c, _ := strconv.ParseFloat(s.Cost, 64)
			d, v := s.Dest, s.Via
			r.Steps[i] = &pb.StepProto{Destination: d.proto(), Via: v.proto(), Cost: c}
		}
		return &pb.LiteralNodeProto{Value: &pb.LiteralNodeProto_RouteValue{RouteValue: r}}
	case "coll":
		c := &pb.CollectionProto{Keys: make([]*pb.LiteralNodeProto, len(n.Items)), Values: make([]*pb.LiteralNodeProto, len(n.Items))}
		for i, kv := range n.Items {
			c.Keys[i], c.Values[i] = clientLiteral(kv[0]), clientLiteral(kv[1])
		}
		return &pb.LiteralNodeProto{Value: &pb.LiteralNodeProto_CollectionValue{CollectionValue: c}}
	}
	return nil
}

// clientProto is the message a client builds for the tree, written without using b6's ToProto.
func clientProto(n *Node) *pb.NodeProto {
	p := &pb.NodeProto{Name: n.N, Begin: int32(n.B), End: int32(n.E)}
	switch n.K {
	case "sym":
		p.Node = &pb.NodeProto_Symbol{Symbol: n.C}
	case "call":
		c := &pb.CallNodeProto{Function: clientProto(n.F), Args: make([]*pb.NodeProto, len(n.Args)), Pipelined: n.Pipe}
		for i, a := range n.Args {
			c.Args[i] = clientProto(a)
		}
		p.Node = &pb.NodeProto_Call{Call: c}
	case "lambda":
		p.Node = &pb.NodeProto_Lambda_{Lambda_: &pb.LambdaNodeProto{Args: append([]string{}, n.Params...), Node: clientProto(n.Body)}}
	default:
		p.Node = &pb.NodeProto_Literal{Literal: clientLiteral(n)}
	}
	return p
}

// geometry that s2 may legitimately re-order or that ToProto derives is blanked before comparing wire forms
func blankDerived(p *pb.NodeProto) {
	if p == nil {
		return
	}
	switch x := p.Node.(type) {
	case *pb.NodeProto_Call:
		blankDerived(x.Call.Function)
		for _, a := range x.Call.Args {
			blankDerived(a)
		}
	case *pb.NodeProto_Lambda_:
		blankDerived(x.Lambda_.Node)
	case *pb.NodeProto_Literal:
		blankLiteral(x.Literal)
	}
}

func blankQuery(q *pb.QueryProto) {
	if q == nil {
		return
	}
	switch x := q.Query.(type) {
	case *pb.QueryProto_IntersectsPolyline:
		x.IntersectsPolyline.LengthMeters = 0
	case *pb.QueryProto_IntersectsCap:
		x.IntersectsCap.RadiusMeters = 0 // metres -> angle -> metres: judged by Equal and the second pass instead
	case *pb.QueryProto_Typed:
		blankQuery(x.Typed.Query)
	case *pb.QueryProto_Intersection:
		for _, c := range x.Intersection.Queries {
			blankQuery(c)
		}
	case *pb.QueryProto_Union:
		for _, c := range x.Union.Queries {
			blankQuery(c)
		}
	}
}

func blankLiteral(l *pb.LiteralNodeProto) {
	if l == nil {
		return
	}
	switch x := l.Value.(type) {
	case *pb.LiteralNodeProto_PathValue:
		x.PathValue.LengthMeters = 0
	case *pb.LiteralNodeProto_QueryValue:
		blankQuery(x.QueryValue)
	case *pb.LiteralNodeProto_CollectionValue:
		for _, k := range x.CollectionValue.Keys {
			blankLiteral(k)
		}
		for _, v := range x.CollectionValue.Values {
			blankLiteral(v)
		}
	}
}

// ---------------------------------------------------------------- an independent deep comparison of expressions

func e7(ll s2.LatLng) []interface{} { return []interface{}{ll.Lat.E7(), ll.Lng.E7()} }

func deepLiteral(v interface{}) interface{} {
	switch x := v.(type) {
	case nil:
		return []interface{}{"nil"}
	case int:
		return []interface{}{"int", strconv.Itoa(x)}
	case float64:
		return []interface{}{"float", fmt.Sprintf("%016x", math.Float64bits(x))}
	case bool:
		return []interface{}{"bool", x}
	case string:
		return []interface{}{"str", x}
	case b6.FeatureID:
		return []interface{}{"id", int(x.Type), string(x.Namespace), strconv.FormatUint(x.Value, 10)}
	case b6.Tag:
		return []interface{}{"tag", x.Key, deep(x.Value, false)}
	case b6.UntypedCollection:
		return deepCollection(x)
	case b6.Geometry:
		if x.GeometryType() == b6.GeometryTypePoint {
			return []interface{}{"point", e7(s2.LatLngFromPoint(x.Point()))}
		}
	}
	return []interface{}{"other", fmt.Sprintf("%T", v)}
}

func deepCollection(c b6.UntypedCollection) interface{} {
	out := []interface{}{"coll"}
	i := c.BeginUntyped()
	for {
		ok, err := i.Next()
		if err != nil {
			return append(out, "error: "+err.Error())
		}
		if !ok {
			break
		}
		out = append(out, []interface{}{deepLiteral(i.Key()), deepLiteral(i.Value())})
	}
	return out
}

func deepQuery(q b6.Query) interface{} {
	switch x := q.(type) {
	case b6.All:
		return []interface{}{"all"}
	case b6.Keyed:
		return []interface{}{"keyed", x.Key}
	case b6.Tagged:
		return []interface{}{"tagged", x.Key, deep(x.Value, false)}
	case b6.Typed:
		return []interface{}{"typed", int(x.Type), deepQuery(x.Query)}
	case b6.Intersection:
		out := []interface{}{"and"}
		for _, c := range x {
			out = append(out, deepQuery(c))
		}
		return out
	case b6.Union:
		out := []interface{}{"or"}
		for _, c := range x {
			out = append(out, deepQuery(c))
		}
		return out
	case b6.IntersectsFeature:
		return []interface{}{"ifeature", deepLiteral(x.ID)}
	case b6.IntersectsPoint:
		return []interface{}{"ipoint", e7(s2.LatLngFromPoint(x.Point))}
	case b6.IntersectsPolyline:
		out := []interface{}{"ipolyline"}
		for _, p := range *x.Polyline {
			out = append(out, e7(s2.LatLngFromPoint(p)))
		}
		return out
	case b6.IntersectsMultiPolygon:
		return []interface{}{"impoly", deepPolygons(x.MultiPolygon)}
	}
	if q == nil {
		return []interface{}{"q-nil"}
	}
	return []interface{}{"q-other", fmt.Sprintf("%T", q), q.String()}
}

func deepPolygons(ps []*s2.Polygon) interface{} {
	out := []interface{}{}
	for _, p := range ps {
		loops := []interface{}{}
		for _, l := range p.Loops() {
			pts := []interface{}{l.IsHole()}
			for _, v := range l.Vertices() {
				pts = append(pts, e7(s2.LatLngFromPoint(v)))
			}
			loops = append(loops, pts)
		}
		out = append(out, loops)
	}
	return out
}

// deep is a canonical form of everything an expression carries; pos selects whether Begin/End/Name are included.
func deep(e b6.Expression, pos bool) interface{} {
	var v interface{}
	switch x := e.AnyExpression.(type) {
	case nil:
		v = []interface{}{"invalid"}
	case b6.SymbolExpression:
		v = []interface{}{"sym", string(x)}
	case b6.IntExpression:
		v = deepLiteral(int(x))
	case b6.FloatExpression:
		v = deepLiteral(float64(x))
	case b6.BoolExpression:
		v = deepLiteral(bool(x))
	case b6.StringExpression:
		v = deepLiteral(string(x))
	case b6.FeatureIDExpression:
		v = deepLiteral(b6.FeatureID(x))
	case b6.TagExpression:
		v = []interface{}{"tag", x.Key, deep(x.Value, false)}
	case b6.PointExpression:
		v = []interface{}{"point", e7(s2.LatLng(x)), fmt.Sprintf("%016x/%016x", math.Float64bits(float64(x.Lat)), math.Float64bits(float64(x.Lng)))}
	case b6.QueryExpression:
		v = []interface{}{"query", deepQuery(x.Query)}
	case b6.PathExpression:
		out := []interface{}{"path"}
		for _, p := range *x.Path.Polyline() {
			out = append(out, e7(s2.LatLngFromPoint(p)))
		}
		v = out
	case b6.AreaExpression:
		v = []interface{}{"area", deepPolygons(x.Area.MultiPolygon())}
	case b6.RouteExpression:
		out := []interface{}{"route", deepLiteral(x.Origin)}
		for _, s := range x.Steps {
			out = append(out, []interface{}{deepLiteral(s.Destination), deepLiteral(s.Via), fmt.Sprintf("%016x", math.Float64bits(s.Cost))})
		}
		v = out
	case b6.CollectionExpression:
		v = deepCollection(x.UntypedCollection)
	case b6.CallExpression:
		args := []interface{}{}
		for _, a := range x.Args {
			args = append(args, deep(a, pos))
		}
		v = []interface{}{"call", deep(x.Function, pos), args, x.Pipelined}
	case b6.LambdaExpression:
		ps := []interface{}{}
		for _, p := range x.Args {
			ps = append(ps, p)
		}
		v = []interface{}{"lambda", ps, deep(x.Expression, pos)}
	default:
		v = []interface{}{"other", fmt.Sprintf("%T", e.AnyExpression)}
	}
	if pos {
		return []interface{}{v, e.Begin, e.End, e.Name}
	}
	return v
}

// which of begin/end/name differ anywhere between two expressions of the same shape
func positionDiff(a, b b6.Expression, out map[string]bool) {
	if a.Begin != b.Begin {
		out["begin"] = true
	}
	if a.End != b.End {
		out["end"] = true
	}
	if a.Name != b.Name {
		out["name"] = true
	}
	ka, kb := exprChildren(a), exprChildren(b)
	for i := range ka {
		if i < len(kb) {
			positionDiff(ka[i], kb[i], out)
		}
	}
}

// ---------------------------------------------------------------- the check

// wireCheck runs the whole property on one tree; returns ("", "") when it holds.
func wireCheck(n *Node, stats map[string]int) (check string, msg string) {
	e0, err := build(n, true)
	if err != nil {
		return "harness-build", err.Error()
	}
	var p1, p2 *pb.NodeProto
	var e1, e2, ec b6.Expression
	if p := vh.Catch(func() { p1, err = e0.ToProto() }); p != "" {
		return "toproto-panic", p
	}
	if err != nil {
		return "toproto-error", err.Error()
	}
	// the wire form is what a client would have written
	want := clientProto(n)
	got := proto.Clone(p1).(*pb.NodeProto)
	if n.K != "area" && !hasArea(n) {
		blankDerived(got)
		blankDerived(want)
		if !proto.Equal(got, want) {
			return "wire-form", fmt.Sprintf("ToProto gives %s, a client writes %s", prototext.MarshalOptions{}.Format(got), prototext.MarshalOptions{}.Format(want))
		}
		stats["wire_forms_compared"]++
	}
	if p := vh.Catch(func() { e1, err = b6.ExpressionFromProto(p1) }); p != "" {
		return "fromproto-panic", p
	}
	if err != nil {
		return "fromproto-error", err.Error()
	}
	if canon(deep(e0, false)) != canon(deep(e1, false)) {
		return "structure", fmt.Sprintf("back from the wire: %s, sent %s", canon(deep(e1, false)), canon(deep(e0, false)))
	}
	if canon(deep(e0, true)) != canon(deep(e1, true)) {
		d := map[string]bool{}
		positionDiff(e0, e1, d)
		which := ""
		for _, k := range []string{"begin", "end", "name"} {
			if d[k] {
				which += "+" + k
			}
		}
		return "positions" + which, fmt.Sprintf("back from the wire: %s, sent %s", canon(deep(e1, true)), canon(deep(e0, true)))
	}
	var eq, qe bool
	if p := vh.Catch(func() { eq, qe = e0.Equal(e1), e1.Equal(e0) }); p != "" {
		return "equal-panic", p
	}
	if !eq || !qe {
		return "not-equal", fmt.Sprintf("e.Equal(back)=%v back.Equal(e)=%v for %s", eq, qe, canon(deep(e0, false)))
	}
	// a second conversion changes nothing
	if p := vh.Catch(func() { p2, err = e1.ToProto() }); p != "" {
		return "second-pass-panic", p
	}
	if err != nil {
		return "second-pass-error", err.Error()
	}
	if !proto.Equal(p1, p2) {
		return "second-pass-proto", fmt.Sprintf("first %s second %s", prototext.MarshalOptions{}.Format(p1), prototext.MarshalOptions{}.Format(p2))
	}
	if p := vh.Catch(func() { e2, err = b6.ExpressionFromProto(p2) }); p != "" || err != nil {
		return "second-pass-error", fmt.Sprintf("%s %v", p, err)
	}
	if canon(deep(e1, true)) != canon(deep(e2, true)) || !e1.Equal(e2) {
		return "second-pass-expr", fmt.Sprintf("second %s first %s", canon(deep(e2, true)), canon(deep(e1, true)))
	}
	// the message a client writes decodes to the tree
	want = clientProto(n)
	if p := vh.Catch(func() { ec, err = b6.ExpressionFromProto(want) }); p != "" || err != nil {
		return "client-proto-error", fmt.Sprintf("%s %v", p, err)
	}
	if canon(deep(ec, true)) != canon(deep(e0, true)) {
		return "client-proto", fmt.Sprintf("client message decodes to %s, tree is %s", canon(deep(ec, true)), canon(deep(e0, true)))
	}
	return "", ""
}

func hasArea(n *Node) bool {
	if n == nil {
		return false
	}
	if n.K == "area" || (n.K == "query" && queryHas(n.Q, "impoly")) {
		return true
	}
	for _, c := range n.children() {
		if hasArea(c) {
			return true
		}
	}
	return false
}

func queryHas(q *QNode, kind string) bool {
	if q == nil {
		return false
	}
	if q.K == kind {
		return true
	}
	if queryHas(q.Q, kind) {
		return true
	}
	for _, c := range q.Qs {
		if queryHas(c, kind) {
			return true
		}
	}
	return false
}

func wireFailsWith(n *Node) string {
	c, _ := wireCheck(n, map[string]int{})
	return c
}

func hasHole(polys [][][][2]int64) string {
	for _, p := range polys {
		if len(p) > 1 {
			return ":with-hole"
		}
	}
	return ""
}

// wireCulpritQuery / wireCulprit: a smallest sub-tree that fails the SAME check on its own
func wireCulpritQuery(q *QNode, check string) string {
	for _, c := range append([]*QNode{q.Q}, q.Qs...) {
		if c != nil && wireFailsWith(&Node{K: "query", Q: c}) == check {
			return wireCulpritQuery(c, check)
		}
	}
	switch q.K {
	case "and", "or", "typed":
		return "query:" + q.K + ":" + shortHash(q)
	case "icap":
		return "query:icap:radius=" + q.C
	case "impoly":
		return "query:impoly" + hasHole(q.Polys)
	}
	return "query:" + q.K
}

func wireCulprit(n *Node, check string) string {
	for _, c := range n.children() {
		if wireFailsWith(c) == check {
			return wireCulprit(c, check)
		}
	}
	switch n.K {
	case "query":
		return wireCulpritQuery(n.Q, check)
	case "coll":
		for _, kv := range n.Items {
			for _, it := range kv {
				if wireFailsWith(it) == check {
					return "coll-item:" + wireCulprit(it, check)
				}
			}
		}
		return "coll:" + shortHash(n.Items)
	case "int", "float", "bool":
		return n.K + ":" + n.C
	case "area":
		return "area" + hasHole(n.Polys)
	case "sym", "str", "id", "tag", "point", "path", "route":
		return n.K
	}
	return n.K + ":" + shortHash(stripPos(n))
}

func stripPos(n *Node) *Node {
	if n == nil {
		return nil
	}
	c := *n
	c.B, c.E, c.N = 0, 0, ""
	c.F = stripPos(n.F)
	c.Body = stripPos(n.Body)
	c.Args = nil
	for _, a := range n.Args {
		c.Args = append(c.Args, stripPos(a))
	}
	return &c
}

type wireCase struct {
	ID     int      `json:"id"`
	T      *Node    `json:"t"`
	Ignore []string `json:"ignore"`
	Expect *Node    `json:"expect"` // binding self-test only: the tree that must come back from the wire (instead of t)
}

// runWireObserve executes trees OUTSIDE the property's domain and only reports what happens (never a verdict).
func runWireObserve(data json.RawMessage) vh.Verdict {
	var c wireCase
	if err := json.Unmarshal(data, &c); err != nil {
		return vh.Fail("harness-json", "bad case: %v", err)
	}
	check := ""
	if p := vh.Catch(func() { check, _ = wireCheckNoClient(c.T) }); p != "" {
		check = "panic"
	}
	if check == "" {
		check = "round-trips"
	}
	return vh.Verdict{OK: true, Obs: map[string]interface{}{"check": check}}
}

// wireCheckNoClient: the round trip only (no comparison with a hand-written client message)
func wireCheckNoClient(n *Node) (string, string) {
	e0, err := build(n, true)
	if err != nil {
		return "harness-build", err.Error()
	}
	var p1 *pb.NodeProto
	var e1 b6.Expression
	if p := vh.Catch(func() { p1, err = e0.ToProto() }); p != "" {
		return "toproto-panic", p
	}
	if err != nil {
		return "toproto-error", err.Error()
	}
	if p := vh.Catch(func() { e1, err = b6.ExpressionFromProto(p1) }); p != "" {
		return "fromproto-panic", p
	}
	if err != nil {
		return "fromproto-error", err.Error()
	}
	if canon(deep(e0, true)) != canon(deep(e1, true)) {
		return "differs", ""
	}
	if !e0.Equal(e1) || !e1.Equal(e0) {
		return "not-equal", ""
	}
	var p2 *pb.NodeProto
	if p := vh.Catch(func() { p2, err = e1.ToProto() }); p != "" || err != nil {
		return "second-pass-error", p
	}
	if !proto.Equal(p1, p2) {
		return "second-pass-proto", ""
	}
	return "", ""
}

func runWire(data json.RawMessage) vh.Verdict {
	var c wireCase
	if err := json.Unmarshal(data, &c); err != nil {
		return vh.Fail("harness-json", "bad case: %v", err)
	}
	stats := map[string]int{}
	if c.Expect != nil {
		e0, err0 := build(c.T, true)
		want, err1 := build(c.Expect, true)
		if err0 != nil || err1 != nil {
			return vh.Fail("harness-build", "cannot build: %v %v", err0, err1)
		}
		p1, err := e0.ToProto()
		if err != nil {
			return vh.Fail("toproto-error", "%v", err)
		}
		e1, err := b6.ExpressionFromProto(p1)
		if err != nil {
			return vh.Fail("fromproto-error", "%v", err)
		}
		if canon(deep(e1, true)) != canon(deep(want, true)) {
			return vh.Verdict{OK: false, Key: "selftest-expectation", Msg: fmt.Sprintf("back from the wire %s, case expects %s", canon(deep(e1, true)), canon(deep(want, true)))}
		}
	}
	check, msg := wireCheck(c.T, stats)
	if check == "" {
		stats["roundtrips_ok"]++
		return vh.Verdict{OK: true, Stats: stats}
	}
	key := check + ":" + wireCulprit(c.T, check)
	for _, k := range c.Ignore {
		if k == key {
			stats["ignored_known_failures"]++
			return vh.Verdict{OK: true, Stats: stats}
		}
	}
	return vh.Verdict{OK: false, Key: key, Msg: msg, Stats: stats}
}
