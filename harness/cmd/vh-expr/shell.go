// C20: UnparseExpression -> (whitespace variants) -> ParseExpression, equivalence modulo the documented
// normalisations, and the span invariant on every parsed node.
package main

import (
	"encoding/json"
	"fmt"
	"math"
	"math/rand"
	"strings"
	"unicode"
	"unicode/utf8"

	"diagonal.works/b6"
	"diagonal.works/b6/api"
	"verif/harness/vh"
)

// ---------------------------------------------------------------- equivalence (Norm of ExprTree.tla)

func normQuery(q b6.Query) interface{} {
	switch q := q.(type) {
	case b6.Keyed:
		return []interface{}{"keyed", q.Key}
	case *b6.Keyed:
		return normQuery(*q)
	case b6.Tagged:
		return []interface{}{"tagged", q.Key, normExpr(q.Value)}
	case *b6.Tagged:
		return normQuery(*q)
	case b6.Intersection:
		out := []interface{}{"and"}
		for _, c := range q {
			n := normQuery(c)
			if l, ok := n.([]interface{}); ok && len(l) > 0 && l[0] == "and" {
				out = append(out, l[1:]...)
			} else {
				out = append(out, n)
			}
		}
		return out
	case b6.Union:
		out := []interface{}{"or"}
		for _, c := range q {
			n := normQuery(c)
			if l, ok := n.([]interface{}); ok && len(l) > 0 && l[0] == "or" {
				out = append(out, l[1:]...)
			} else {
				out = append(out, n)
			}
		}
		return out
	}
	if q == nil {
		return []interface{}{"q-nil"}
	}
	return []interface{}{"q-other", fmt.Sprintf("%T", q), q.String()}
}

func normExpr(e b6.Expression) interface{} {
	switch x := e.AnyExpression.(type) {
	case nil:
		return []interface{}{"invalid"}
	case b6.SymbolExpression:
		return []interface{}{"sym", string(x)}
	case b6.IntExpression:
		return []interface{}{"int", fmt.Sprintf("%d", int(x))}
	case b6.FloatExpression:
		return []interface{}{"float", fmt.Sprintf("%016x", math.Float64bits(float64(x)))}
	case b6.StringExpression:
		return []interface{}{"str", string(x)}
	case b6.FeatureIDExpression:
		return []interface{}{"id", b6.FeatureID(x).String()}
	case b6.TagExpression:
		return []interface{}{"tag", x.Key, normExpr(x.Value)}
	case b6.PointExpression:
		return []interface{}{"point", fmt.Sprintf("%016x", math.Float64bits(float64(x.Lat))), fmt.Sprintf("%016x", math.Float64bits(float64(x.Lng)))}
	case b6.QueryExpression:
		return []interface{}{"query", normQuery(x.Query)}
	case b6.LambdaExpression:
		ps := make([]interface{}, len(x.Args))
		for i, p := range x.Args {
			ps[i] = p
		}
		return []interface{}{"lambda", ps, normExpr(x.Expression)}
	case b6.CallExpression:
		args := make([]interface{}, 0, len(x.Args))
		for _, a := range x.Args {
			args = append(args, normExpr(a))
		}
		f := x.Function
		if x.Pipelined {
			h := f // a zero-argument call is its function
			for {
				hc, ok := h.AnyExpression.(b6.CallExpression)
				if !ok || hc.Pipelined || len(hc.Args) > 0 {
					break
				}
				h = hc.Function
			}
			if fc, ok := h.AnyExpression.(b6.CallExpression); ok && !fc.Pipelined && len(fc.Args) > 0 {
				// a | F rest  ==  F a rest
				for _, a := range fc.Args {
					args = append(args, normExpr(a))
				}
				f = fc.Function
			}
		}
		nf := normExpr(f)
		if len(args) == 0 {
			return nf // zero-argument call == its function
		}
		return []interface{}{"call", nf, args}
	}
	return []interface{}{"other", fmt.Sprintf("%T", e.AnyExpression), e.AnyExpression.String()}
}

func canon(v interface{}) string {
	b, _ := json.Marshal(v)
	return string(b)
}

// ---------------------------------------------------------------- an independent tokeniser of shell texts

type token struct {
	b, e int
}

func isIDRune(r rune) bool {
	return unicode.IsLetter(r) || unicode.IsDigit(r) || r == '.' || r == '-' || r == '/' || r == '_'
}

// tokenize splits a shell text into tokens (byte offsets).  String literals are delimited the way the printer
// writes them (Go %q: a backslash escapes the next character).
func tokenize(text string) ([]token, error) {
	var toks []token
	i := 0
	for i < len(text) {
		r, w := utf8.DecodeRuneInString(text[i:])
		if unicode.IsSpace(r) {
			i += w
			continue
		}
		b := i
		switch {
		case r == '"':
			i += w
			closed := false
			for i < len(text) {
				r2, w2 := utf8.DecodeRuneInString(text[i:])
				i += w2
				if r2 == '\\' && i < len(text) {
					_, w3 := utf8.DecodeRuneInString(text[i:])
					i += w3
				} else if r2 == '"' {
					closed = true
					break
				}
			}
			if !closed {
				return nil, fmt.Errorf("unterminated string in %q", text)
			}
		case r == '-' && i+1 < len(text) && text[i+1] == '>':
			i += 2
		case strings.ContainsRune(",()|{}[]=&:>", r):
			i += w
		case r == '/':
			for i < len(text) {
				r2, w2 := utf8.DecodeRuneInString(text[i:])
				if !isIDRune(r2) {
					break
				}
				i += w2
			}
		case r == '#' || r == '@' || (r < 0x80 && isLetter(byte(r))):
			i += w
			for i < len(text) {
				r2, w2 := utf8.DecodeRuneInString(text[i:])
				if !isSymbolRune(r2) {
					break
				}
				i += w2
			}
		case (r >= '0' && r <= '9') || r == '-' || r == '.':
			i += w
			for i < len(text) {
				c := text[i]
				if !((c >= '0' && c <= '9') || c == '.') {
					break
				}
				i++
			}
		default:
			return nil, fmt.Errorf("cannot tokenise %q at %d", text, i)
		}
		toks = append(toks, token{b, i})
	}
	return toks, nil
}

var wsSets = [][]string{
	{" "},
	{"\t", "\n", " ", "\r\n"},
	{" ", " ", " ", "\u0085"},
}

// variant rebuilds the text with extra whitespace between tokens (never removing any); returns the new text and
// the token offsets in it.
func variant(text string, toks []token, v int) (string, []token) {
	var sb strings.Builder
	out := make([]token, len(toks))
	var rng *rand.Rand
	if v > 3 {
		rng = rand.New(rand.NewSource(int64(v)*7919 + int64(len(text))))
	}
	extra := func(gap int) string {
		switch v {
		case 1:
			return " "
		case 2:
			return wsSets[1][gap%len(wsSets[1])]
		case 3:
			return wsSets[2][gap%len(wsSets[2])]
		}
		n := rng.Intn(3)
		s := ""
		for k := 0; k < n; k++ {
			set := wsSets[rng.Intn(len(wsSets))]
			s += set[rng.Intn(len(set))]
		}
		return s
	}
	sb.WriteString(extra(0))
	for i, t := range toks {
		out[i].b = sb.Len()
		sb.WriteString(text[t.b:t.e])
		out[i].e = sb.Len()
		if i+1 < len(toks) {
			sb.WriteString(text[t.e:toks[i+1].b])
		}
		sb.WriteString(extra(i + 1))
	}
	return sb.String(), out
}

// ---------------------------------------------------------------- spans

func kindOf(e b6.Expression) string {
	switch x := e.AnyExpression.(type) {
	case nil:
		return "invalid"
	case b6.SymbolExpression:
		return "symbol"
	case b6.IntExpression:
		return "int"
	case b6.FloatExpression:
		return "float"
	case b6.StringExpression:
		return "string"
	case b6.FeatureIDExpression:
		return "feature-id"
	case b6.TagExpression:
		return "tag"
	case b6.PointExpression:
		return "point"
	case b6.QueryExpression:
		return "query"
	case b6.LambdaExpression:
		return "lambda"
	case b6.CallExpression:
		if x.Pipelined {
			return "pipeline"
		}
		return "call"
	}
	return fmt.Sprintf("%T", e.AnyExpression)
}

func exprChildren(e b6.Expression) []b6.Expression {
	switch x := e.AnyExpression.(type) {
	case b6.CallExpression:
		return append([]b6.Expression{x.Function}, x.Args...)
	case b6.LambdaExpression:
		return []b6.Expression{x.Expression}
	}
	return nil
}

// opener gives back the opening delimiters the parser leaves out of a span: a lambda's `{`, a query's `[` (and one
// more `[` for every bracketed operand the query text starts inside of); a node that starts with such a node (a
// lambda without parameters starts with its body, a pipeline with its left-hand side, a call with its function)
// starts inside that node's delimiters, too.
func (c *spanChecker) opener(e b6.Expression) string {
	switch x := e.AnyExpression.(type) {
	case b6.LambdaExpression:
		if len(x.Args) == 0 {
			return "{-> " + c.opener(x.Expression)
		}
		return "{"
	case b6.QueryExpression:
		n := 0
		if e.Begin >= 0 && e.Begin < e.End && e.End <= len(c.text) {
			n = len(unmatchedClosers(c.text[e.Begin:e.End]))
		}
		return strings.Repeat("[", 1+n)
	case b6.CallExpression:
		if x.Pipelined && len(x.Args) > 0 {
			return c.opener(x.Args[0])
		}
		return c.opener(x.Function)
	}
	return ""
}

// unmatchedClosers lists the closing delimiters of s (outside string literals) that have no opener in s
func unmatchedClosers(s string) []byte {
	var out []byte
	depth := 0
	i := 0
	for i < len(s) {
		switch s[i] {
		case '"':
			i++
			for i < len(s) && s[i] != '"' {
				if s[i] == '\\' {
					i++
				}
				i++
			}
		case '(', '{', '[':
			depth++
		case ')', '}', ']':
			if depth > 0 {
				depth--
			} else {
				out = append(out, s[i])
			}
		}
		i++
	}
	return out
}

// closers for the delimiters left open in s (outside string literals), innermost first
func balance(s string) string {
	var stack []byte
	i := 0
	for i < len(s) {
		c := s[i]
		switch c {
		case '"':
			i++
			for i < len(s) && s[i] != '"' {
				if s[i] == '\\' {
					i++
				}
				i++
			}
		case '(':
			stack = append(stack, ')')
		case '{':
			stack = append(stack, '}')
		case '[':
			stack = append(stack, ']')
		case ')', '}', ']':
			if len(stack) > 0 && stack[len(stack)-1] == c {
				stack = stack[:len(stack)-1]
			}
		}
		i++
	}
	out := make([]byte, 0, len(stack))
	for j := len(stack) - 1; j >= 0; j-- {
		out = append(out, stack[j])
	}
	return string(out)
}

type failure struct {
	key, msg string
}

type spanChecker struct {
	text   string
	begins map[int]int // byte offset -> token index
	ends   map[int]int
	ignore map[string]bool
	stats  map[string]int
}

func (c *spanChecker) report(key, msg string) *failure {
	if c.ignore[key] {
		c.stats["ignored_known_failures"]++
		return nil
	}
	return &failure{key, msg}
}

// check verifies the span rules on e and everything below it (children first) and returns the first failure.
func (c *spanChecker) check(e b6.Expression) *failure {
	f, _ := c.checkNode(e)
	return f
}

// checkNode also says whether the node's span is TAINTED: it is (or is computed from) a node without a position whose
// failure was stepped over as a known finding.  The parser derives a parent's begin/end from its first/last child, so
// the consequences of one unpositioned node are not reported again at every ancestor.
func (c *spanChecker) checkNode(e b6.Expression) (*failure, bool) {
	kids := exprChildren(e)
	tainted := false
	for _, k := range kids {
		f, t := c.checkNode(k)
		if f != nil {
			return f, false
		}
		tainted = tainted || t
	}
	if f := c.checkOne(e, kids, tainted); f != nil {
		return f, false
	}
	return nil, tainted || e.End <= e.Begin
}

func (c *spanChecker) checkOne(e b6.Expression, kids []b6.Expression, tainted bool) *failure {
	kind := kindOf(e)
	c.stats["nodes_span_checked"]++
	if tainted {
		c.stats["nodes_skipped_above_unpositioned_node"]++
		return nil
	}
	if e.End <= e.Begin {
		return c.report("span:unpositioned:"+kind, fmt.Sprintf("%s node has begin=%d end=%d in %q", kind, e.Begin, e.End, c.text))
	}
	if e.Begin < 0 || e.End > len(c.text) {
		return c.report("span:outside-text:"+kind, fmt.Sprintf("%s node [%d,%d) outside text of length %d", kind, e.Begin, e.End, len(c.text)))
	}
	_, okb := c.begins[e.Begin]
	_, oke := c.ends[e.End]
	if !okb || !oke {
		return c.report("span:not-token-aligned:"+kind, fmt.Sprintf("%s node [%d,%d) = %q does not start and end on token boundaries of %q", kind, e.Begin, e.End, c.text[e.Begin:e.End], c.text))
	}
	for _, k := range kids {
		if k.End <= k.Begin {
			continue // reported (or ignored as known) at the child
		}
		if k.Begin < e.Begin || k.End > e.End {
			return c.report("span:outside-parent:"+kind+":"+kindOf(k), fmt.Sprintf("%s child [%d,%d) not inside %s parent [%d,%d) in %q", kindOf(k), k.Begin, k.End, kind, e.Begin, e.End, c.text))
		}
	}
	// the span covers the text the node came from: that text (re-delimited) parses to an equivalent node
	sub := c.opener(e) + c.text[e.Begin:e.End]
	for _, cl := range unmatchedClosers(sub) { // a span that starts inside a parenthesised group
		sub = string(map[byte]byte{')': '(', '}': '{', ']': '['}[cl]) + sub
	}
	sub += balance(sub)
	again, err := api.ParseExpression(sub)
	if err != nil {
		return c.report("span:reparse-error:"+kind, fmt.Sprintf("text of %s node [%d,%d) %q does not parse: %v", kind, e.Begin, e.End, sub, err))
	}
	if canon(normExpr(again)) != canon(normExpr(e)) {
		return c.report("span:reparse-differs:"+kind, fmt.Sprintf("text of %s node [%d,%d) %q parses to %s, node is %s", kind, e.Begin, e.End, sub, canon(normExpr(again)), canon(normExpr(e))))
	}
	return nil
}

func index(toks []token) (map[int]int, map[int]int) {
	b, e := map[int]int{}, map[int]int{}
	for i, t := range toks {
		b[t.b] = i
		e[t.e] = i
	}
	return b, e
}

// sameSpans: the spans of the variant parse are the canonical spans moved to the variant's token offsets
func (c *spanChecker) sameSpans(p0, pw b6.Expression, tw []token, textw string) *failure {
	f, _ := c.sameSpansNode(p0, pw, tw, textw)
	return f
}

func (c *spanChecker) sameSpansNode(p0, pw b6.Expression, tw []token, textw string) (*failure, bool) {
	k0, kw := exprChildren(p0), exprChildren(pw)
	if kindOf(p0) != kindOf(pw) || len(k0) != len(kw) {
		return c.report("whitespace:structure:"+kindOf(p0), fmt.Sprintf("extra whitespace changed the parse: %q vs %q", c.text, textw)), false
	}
	tainted := p0.End <= p0.Begin
	for i := range k0 {
		f, t := c.sameSpansNode(k0[i], kw[i], tw, textw)
		if f != nil {
			return f, false
		}
		tainted = tainted || t
	}
	if tainted {
		return nil, true // (above) a node without a position: see checkNode
	}
	i, okb := c.begins[p0.Begin]
	j, oke := c.ends[p0.End]
	if !okb || !oke {
		return nil, false
	}
	if pw.Begin != tw[i].b || pw.End != tw[j].e {
		return c.report("span:whitespace-shift:"+kindOf(p0), fmt.Sprintf("%s node: [%d,%d) in %q but [%d,%d) in %q (expected [%d,%d))", kindOf(p0), p0.Begin, p0.End, c.text, pw.Begin, pw.End, textw, tw[i].b, tw[j].e)), false
	}
	return nil, false
}

// ---------------------------------------------------------------- round trip and classification

type outcome struct {
	class string // ok | differs | error | unprintable | panic
	text  string
	back  b6.Expression
	err   string
}

func roundTrip(e b6.Expression) outcome {
	var o outcome
	p := vh.Catch(func() {
		text, ok := api.UnparseExpression(e)
		o.text = text
		if !ok {
			o.class = "unprintable"
			return
		}
		back, err := api.ParseExpression(text)
		if err != nil {
			o.class, o.err = "error", err.Error()
			return
		}
		o.back = back
		if canon(normExpr(back)) == canon(normExpr(e)) {
			o.class = "ok"
		} else {
			o.class = "differs"
		}
	})
	if p != "" {
		o.class, o.err = "panic", p
	}
	return o
}

func outcomeOf(n *Node) outcome {
	e, err := build(n, false)
	if err != nil {
		return outcome{class: "harness", err: err.Error()}
	}
	return roundTrip(e)
}

func queryOutcome(q *QNode) outcome {
	return outcomeOf(&Node{K: "query", Q: q})
}

func tagValueKey(v string) string {
	if v == "" {
		return "tag-value:empty"
	}
	quoted := false
	for _, r := range v[1:] {
		if !isSymbolRune(r) {
			quoted = true
			break
		}
	}
	if !quoted && !isLetter(v[0]) {
		return "tag-value:unquoted-leading-" + charClass(v[0])
	}
	if f := escapeFeatures(v); quoted && f != "" {
		return "tag-value:string-escape:" + f
	}
	return "tag-value:" + shortHash(v)
}

var modeName = map[string]string{"error": "parse-error", "differs": "differs", "panic": "panic", "unprintable": "unprintable", "harness": "harness"}

// culpritQuery / culprit find a smallest failing sub-tree and name the failure after it and after what that
// sub-tree does ON ITS OWN (so the key does not depend on the context the generator happened to put it in).
// flattenQ merges nested &/| of the same operator (the equivalence the comparison allows)
func flattenQ(q *QNode) *QNode {
	if q == nil || (q.K != "and" && q.K != "or") {
		return q
	}
	out := &QNode{K: q.K}
	for _, c := range q.Qs {
		fc := flattenQ(c)
		if fc.K == q.K {
			out.Qs = append(out.Qs, fc.Qs...)
		} else {
			out.Qs = append(out.Qs, fc)
		}
	}
	return out
}

func culpritQuery(q *QNode) string {
	q = flattenQ(q)
	for _, c := range append([]*QNode{q.Q}, q.Qs...) {
		if c != nil && queryOutcome(c).class != "ok" {
			return culpritQuery(c)
		}
	}
	mode := ""
	if cl := queryOutcome(q).class; cl != "ok" {
		mode = "/" + modeName[cl]
	}
	switch q.K {
	case "tagged":
		return "query-" + tagValueKey(strValue(q.Lit, q.V)) + mode
	case "and", "or":
		for i, c := range q.Qs {
			if (c.K == "and" || c.K == "or") && c.K != q.K && i < len(q.Qs)-1 {
				return "query-precedence:" + c.K + "-under-" + q.K + mode
			}
		}
	}
	return "query:" + q.K + ":" + shortHash(q) + mode
}

func culprit(n *Node) string {
	for _, c := range n.children() {
		if outcomeOf(c).class != "ok" {
			return culprit(c)
		}
	}
	mode := ""
	if cl := outcomeOf(n).class; cl != "ok" {
		mode = "/" + modeName[cl]
	}
	switch n.K {
	case "str":
		if f := escapeFeatures(strValue(n.Lit, n.S)); f != "" {
			return "string-escape:" + f + mode
		}
	case "tag":
		return tagValueKey(strValue(n.Lit, n.V)) + mode
	case "query":
		return culpritQuery(n.Q)
	case "call":
		if n.F.K != "sym" {
			extra := len(n.Args)
			if n.Pipe {
				extra--
			}
			if extra > 0 {
				return "call-head:" + n.F.K + "-with-args" + mode
			}
			if n.Pipe && n.F.K == "call" && n.F.Pipe {
				return "pipeline-head:pipelined-call" + mode
			}
			// a call without arguments prints as its function: a pipeline wrapped in such calls
			h := n.F
			for h.K == "call" && !h.Pipe && len(h.Args) == 0 {
				h = h.F
			}
			if n.Pipe && h != n.F && h.K == "call" && h.Pipe {
				return "pipeline-head:wrapped-pipelined-call" + mode
			}
		}
	}
	return n.K + ":" + shortHash(n) + mode
}

type shellCase struct {
	ID     int      `json:"id"`
	T      *Node    `json:"t"`
	Back   *Node    `json:"back"`   // the tree ExprTree.tla says comes back (raw shapes only)
	Pred   string   `json:"pred"`   // ExprTree.tla's prediction: ok | differs | error
	WS     []int    `json:"ws"`     // whitespace variants to try
	Ignore []string `json:"ignore"` // known failure keys to step over (so that they do not mask other checks)
	Expect *Node    `json:"expect"` // binding self-test only: the tree the text must parse back to (instead of t)
}

func runShell(data json.RawMessage) vh.Verdict {
	var c shellCase
	if err := json.Unmarshal(data, &c); err != nil {
		return vh.Fail("harness-json", "bad case: %v", err)
	}
	e, err := build(c.T, false)
	if err != nil {
		return vh.Fail("harness-build", "cannot build: %v", err)
	}
	stats := map[string]int{}
	ignore := map[string]bool{}
	for _, k := range c.Ignore {
		ignore[k] = true
	}
	o := roundTrip(e)
	if c.Expect != nil && o.class == "ok" {
		want, err := build(c.Expect, false)
		if err != nil {
			return vh.Fail("harness-build", "cannot build: %v", err)
		}
		if canon(normExpr(o.back)) != canon(normExpr(want)) {
			return vh.Verdict{OK: false, Key: "selftest-expectation", Msg: fmt.Sprintf("parsed %s, case expects %s", canon(normExpr(o.back)), canon(normExpr(want)))}
		}
	}
	obs := map[string]interface{}{"outcome": o.class, "text": o.text}
	if c.Pred != "" {
		if c.Pred == o.class {
			stats["model_prediction_agrees"]++
		} else {
			stats["model_prediction_disagrees"]++
		}
	}
	if o.class == "unprintable" {
		stats["unprintable"]++
		return vh.Verdict{OK: true, Obs: obs, Stats: stats}
	}
	if o.class != "ok" {
		key := culprit(c.T)
		if c.Back != nil && o.class == "differs" {
			if be, err := build(c.Back, false); err == nil {
				if canon(normExpr(be)) == canon(normExpr(o.back)) {
					stats["model_back_agrees"]++
				} else {
					stats["model_back_disagrees"]++
				}
			}
		}
		msg := fmt.Sprintf("printed %q; ", o.text)
		if o.class == "differs" {
			msg += fmt.Sprintf("parses back to %s, expected %s", canon(normExpr(o.back)), canon(normExpr(e)))
		} else {
			msg += o.class + ": " + o.err
		}
		if ignore[key] {
			stats["ignored_known_failures"]++
			return vh.Verdict{OK: true, Obs: obs, Stats: stats}
		}
		return vh.Verdict{OK: false, Key: key, Msg: msg, Obs: obs, Stats: stats}
	}
	stats["roundtrips_ok"]++
	// spans on the canonical text
	toks, err := tokenize(o.text)
	if err != nil {
		return vh.Verdict{OK: false, Key: "harness-tokenize", Msg: err.Error(), Obs: obs}
	}
	sc := &spanChecker{text: o.text, ignore: ignore, stats: stats}
	sc.begins, sc.ends = index(toks)
	if f := sc.check(o.back); f != nil {
		return vh.Verdict{OK: false, Key: f.key, Msg: f.msg, Obs: obs, Stats: stats}
	}
	for _, v := range c.WS {
		textw, tw := variant(o.text, toks, v)
		var pw b6.Expression
		var perr error
		if p := vh.Catch(func() { pw, perr = api.ParseExpression(textw) }); p != "" {
			return vh.Verdict{OK: false, Key: "whitespace:panic:" + culprit(c.T), Msg: fmt.Sprintf("parsing %q panics: %s", textw, p), Obs: obs, Stats: stats}
		}
		stats["whitespace_variants"]++
		if perr != nil {
			return vh.Verdict{OK: false, Key: "whitespace:parse-error:" + culprit(c.T), Msg: fmt.Sprintf("%q parses but the same tokens with extra whitespace %q do not: %v", o.text, textw, perr), Obs: obs, Stats: stats}
		}
		if canon(normExpr(pw)) != canon(normExpr(e)) {
			return vh.Verdict{OK: false, Key: "whitespace:differs:" + culprit(c.T), Msg: fmt.Sprintf("%q with extra whitespace %q parses to %s", o.text, textw, canon(normExpr(pw))), Obs: obs, Stats: stats}
		}
		scw := &spanChecker{text: textw, ignore: ignore, stats: stats}
		scw.begins, scw.ends = index(tw)
		if f := scw.check(pw); f != nil {
			return vh.Verdict{OK: false, Key: f.key, Msg: f.msg, Obs: obs, Stats: stats}
		}
		if f := sc.sameSpans(o.back, pw, tw, textw); f != nil {
			return vh.Verdict{OK: false, Key: f.key, Msg: f.msg, Obs: obs, Stats: stats}
		}
	}
	return vh.Verdict{OK: true, Obs: obs, Stats: stats}
}
