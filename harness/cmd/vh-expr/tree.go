// Tree schema shared by the C19 (wire) and C20 (shell) adapters, and its concretisation into b6 values.
package main

import (
	"crypto/sha1"
	"encoding/hex"
	"encoding/json"
	"fmt"
	"math"
	"strconv"
	"strings"
	"unicode"

	"diagonal.works/b6"
	pb "diagonal.works/b6/proto"
	"github.com/golang/geo/s2"
)

type IDLit struct {
	T  string `json:"t"`
	NS string `json:"ns"`
	V  string `json:"v"` // decimal uint64
}

type QNode struct {
	K     string         `json:"k"`
	Key   string         `json:"key,omitempty"`
	V     []string       `json:"v,omitempty"`   // abstract tag value
	Lit   *string        `json:"lit,omitempty"` // concrete tag value (overrides v)
	T     string         `json:"t,omitempty"`   // typed: feature type
	Q     *QNode         `json:"q,omitempty"`
	Qs    []*QNode       `json:"qs,omitempty"`
	ID    *IDLit         `json:"id,omitempty"`
	Pts   [][2]int64     `json:"pts,omitempty"`   // E7 lat,lng
	Polys [][][][2]int64 `json:"polys,omitempty"` // polygons -> loops -> points
	C     string         `json:"c,omitempty"`     // cap radius in metres (decimal)
}

type Node struct {
	K      string         `json:"k"`
	C      string         `json:"c,omitempty"`
	S      []string       `json:"s,omitempty"`
	Lit    *string        `json:"lit,omitempty"`
	Key    string         `json:"key,omitempty"`
	V      []string       `json:"v,omitempty"`
	Q      *QNode         `json:"q,omitempty"`
	F      *Node          `json:"f,omitempty"`
	Args   []*Node        `json:"args,omitempty"`
	Pipe   bool           `json:"pipe,omitempty"`
	Params []string       `json:"params,omitempty"`
	Body   *Node          `json:"body,omitempty"`
	Items  [][2]*Node     `json:"items,omitempty"`
	ID     *IDLit         `json:"id,omitempty"`
	Lat    int64          `json:"lat,omitempty"` // E7
	Lng    int64          `json:"lng,omitempty"`
	Pts    [][2]int64     `json:"pts,omitempty"`
	Polys  [][][][2]int64 `json:"polys,omitempty"`
	Steps  []RouteStep    `json:"steps,omitempty"`
	B      int            `json:"b,omitempty"`
	E      int            `json:"e,omitempty"`
	N      string         `json:"n,omitempty"`
}

type RouteStep struct {
	Dest IDLit  `json:"dest"`
	Via  IDLit  `json:"via"`
	Cost string `json:"cost"`
}

func shortHash(v interface{}) string {
	b, _ := json.Marshal(v)
	h := sha1.Sum(b)
	return hex.EncodeToString(h[:])[:10]
}

// abstract characters of ExprTree.tla
func concreteChars(cs []string) string {
	var sb strings.Builder
	letters := "abcxyz"
	nl := 0
	for _, c := range cs {
		switch c {
		case "a":
			sb.WriteByte(letters[nl%len(letters)])
			nl++
		case "n":
			sb.WriteByte('n')
		case "d":
			sb.WriteByte('7')
		case "s":
			sb.WriteByte(' ')
		case "u":
			sb.WriteString("é")
		case "Q":
			sb.WriteByte('"')
		case "B":
			sb.WriteByte('\\')
		case "N":
			sb.WriteByte('\n')
		default:
			sb.WriteString(c)
		}
	}
	return sb.String()
}

func strValue(lit *string, cs []string) string {
	if lit != nil {
		return *lit
	}
	return concreteChars(cs)
}

// features of a concrete string that the printer's %q changes
func escapeFeatures(s string) string {
	var f []string
	if strings.Contains(s, `"`) {
		f = append(f, "quote")
	}
	if strings.Contains(s, `\`) {
		f = append(f, "backslash")
	}
	ctl, np := false, false
	for _, r := range s {
		if r < 0x20 || r == 0x7f {
			ctl = true
		} else if r != '"' && r != '\\' && !strconv.IsPrint(r) {
			np = true
		}
	}
	if !strings.HasPrefix(strconv.Quote(s), `"`) { // never
		np = true
	}
	if ctl {
		f = append(f, "control")
	}
	if np {
		f = append(f, "nonprintable")
	}
	return strings.Join(f, "+")
}

func featureType(t string) (b6.FeatureType, error) {
	switch t {
	case "point":
		return b6.FeatureTypePoint, nil
	case "path":
		return b6.FeatureTypePath, nil
	case "area":
		return b6.FeatureTypeArea, nil
	case "relation":
		return b6.FeatureTypeRelation, nil
	case "collection":
		return b6.FeatureTypeCollection, nil
	case "expression":
		return b6.FeatureTypeExpression, nil
	}
	return b6.FeatureTypeInvalid, fmt.Errorf("bad feature type %q", t)
}

func (l *IDLit) id() (b6.FeatureID, error) {
	if l == nil {
		return b6.FeatureIDInvalid, fmt.Errorf("missing id")
	}
	switch l.T {
	case "codepoint": // value is a postcode; the ID is whatever b6 encodes it to
		id := b6.PointIDFromGBPostcode(l.V)
		if !id.IsValid() {
			return id, fmt.Errorf("bad postcode %q", l.V)
		}
		return id, nil
	case "ons": // value is year/code
		parts := strings.Split(l.V, "/")
		year, err := strconv.Atoi(parts[0])
		if err != nil || len(parts) != 2 {
			return b6.FeatureIDInvalid, fmt.Errorf("bad ons id %q", l.V)
		}
		id := b6.FeatureIDFromUKONSCode(parts[1], year, b6.FeatureTypeArea)
		if !id.IsValid() {
			return id, fmt.Errorf("bad ons code %q", l.V)
		}
		return id, nil
	}
	t, err := featureType(l.T)
	if err != nil {
		return b6.FeatureIDInvalid, err
	}
	v, err := strconv.ParseUint(l.V, 10, 64)
	if err != nil {
		return b6.FeatureIDInvalid, err
	}
	return b6.FeatureID{Type: t, Namespace: b6.Namespace(l.NS), Value: v}, nil
}

func floatClass(c string) (float64, error) {
	switch c {
	case "max":
		return math.MaxFloat64, nil
	case "-max":
		return -math.MaxFloat64, nil
	case "denormal":
		return math.SmallestNonzeroFloat64, nil
	case "inf":
		return math.Inf(1), nil
	case "-inf":
		return math.Inf(-1), nil
	case "-0":
		return math.Copysign(0, -1), nil
	}
	return strconv.ParseFloat(c, 64)
}

func e7LatLng(lat, lng int64) s2.LatLng {
	return b6.PointProtoToS2LatLng(&pb.PointProto{LatE7: int32(lat), LngE7: int32(lng)})
}

func e7Points(pts [][2]int64) []s2.Point {
	out := make([]s2.Point, len(pts))
	for i, p := range pts {
		out[i] = s2.PointFromLatLng(e7LatLng(p[0], p[1]))
	}
	return out
}

func polygons(polys [][][][2]int64) []*s2.Polygon {
	out := make([]*s2.Polygon, len(polys))
	for i, loops := range polys {
		ls := make([]*s2.Loop, len(loops))
		for j, l := range loops {
			ls[j] = s2.LoopFromPoints(e7Points(l))
		}
		out[i] = s2.PolygonFromLoops(ls)
	}
	return out
}

func buildQuery(q *QNode) (b6.Query, error) {
	if q == nil {
		return nil, fmt.Errorf("missing query")
	}
	switch q.K {
	case "all":
		return b6.All{}, nil
	case "empty":
		return b6.Empty{}, nil
	case "isvalid":
		return b6.IsValid{}, nil
	case "icells":
		return b6.IntersectsCells{Cells: []s2.Cell{s2.CellFromPoint(e7Points([][2]int64{{515000000, -1000000}})[0])}}, nil
	case "might":
		return b6.MightIntersect{Region: s2.CellFromPoint(e7Points([][2]int64{{515000000, -1000000}})[0])}, nil
	case "keyed":
		return b6.Keyed{Key: q.Key}, nil
	case "tagged":
		return b6.Tagged{Key: q.Key, Value: b6.NewStringExpression(strValue(q.Lit, q.V))}, nil
	case "typed":
		t, err := featureType(q.T)
		if err != nil {
			return nil, err
		}
		c, err := buildQuery(q.Q)
		if err != nil {
			return nil, err
		}
		return b6.Typed{Type: t, Query: c}, nil
	case "and", "or":
		qs := make([]b6.Query, len(q.Qs))
		for i, c := range q.Qs {
			var err error
			if qs[i], err = buildQuery(c); err != nil {
				return nil, err
			}
		}
		if q.K == "and" {
			return b6.Intersection(qs), nil
		}
		return b6.Union(qs), nil
	case "ifeature":
		id, err := q.ID.id()
		return b6.IntersectsFeature{ID: id}, err
	case "ipoint":
		return b6.IntersectsPoint{Point: e7Points(q.Pts[:1])[0]}, nil
	case "ipolyline":
		pl := s2.Polyline(e7Points(q.Pts))
		return b6.IntersectsPolyline{Polyline: &pl}, nil
	case "impoly":
		return b6.IntersectsMultiPolygon{MultiPolygon: polygons(q.Polys)}, nil
	case "icap":
		r, err := strconv.ParseFloat(q.C, 64)
		if err != nil {
			return nil, err
		}
		return b6.NewIntersectsCap(s2.CapFromCenterAngle(e7Points(q.Pts[:1])[0], b6.MetersToAngle(r))), nil
	}
	return nil, fmt.Errorf("unknown query kind %q", q.K)
}

// literal value as it is held inside a collection (what AnyLiteral.Literal() returns)
func literalValue(n *Node) (interface{}, error) {
	switch n.K {
	case "int", "atom":
		e, err := build(n, false)
		if err != nil {
			return nil, err
		}
		return int(e.AnyExpression.(b6.IntExpression)), nil
	case "float":
		return floatClass(n.C)
	case "bool":
		return n.C == "true", nil
	case "str":
		return strValue(n.Lit, n.S), nil
	case "id":
		return n.ID.id()
	case "tag":
		return b6.Tag{Key: n.Key, Value: b6.NewStringExpression(strValue(n.Lit, n.V))}, nil
	case "point":
		return b6.GeometryFromLatLng(e7LatLng(n.Lat, n.Lng)), nil
	case "coll":
		return buildCollection(n)
	}
	return nil, fmt.Errorf("kind %q cannot be a collection item", n.K)
}

func buildCollection(n *Node) (b6.UntypedCollection, error) {
	c := b6.ArrayCollection[any, any]{Keys: make([]any, len(n.Items)), Values: make([]any, len(n.Items))}
	for i, kv := range n.Items {
		var err error
		if c.Keys[i], err = literalValue(kv[0]); err != nil {
			return nil, err
		}
		if c.Values[i], err = literalValue(kv[1]); err != nil {
			return nil, err
		}
	}
	return c.Collection(), nil
}

// build the b6 expression a tree describes.  withPos: carry the b/e/n annotations (C19).
func build(n *Node, withPos bool) (b6.Expression, error) {
	if n == nil {
		return b6.Expression{}, fmt.Errorf("missing node")
	}
	var a b6.AnyExpression
	switch n.K {
	case "sym":
		a = b6.SymbolExpression(n.C)
	case "atom":
		a = b6.IntExpression(7)
	case "int":
		v, err := strconv.ParseInt(n.C, 10, 64)
		if err != nil {
			return b6.Expression{}, err
		}
		a = b6.IntExpression(int(v))
	case "float":
		v, err := floatClass(n.C)
		if err != nil {
			return b6.Expression{}, err
		}
		a = b6.FloatExpression(v)
	case "bool":
		a = b6.BoolExpression(n.C == "true")
	case "nil": // outside the property's domain (observation only)
		a = b6.NilExpression{}
	case "tagint": // outside the property's domain (observation only)
		a = b6.TagExpression{Key: "#a", Value: b6.NewIntExpression(3)}
	case "str":
		a = b6.StringExpression(strValue(n.Lit, n.S))
	case "id":
		id, err := n.ID.id()
		if err != nil {
			return b6.Expression{}, err
		}
		a = b6.FeatureIDExpression(id)
	case "tag":
		a = b6.TagExpression{Key: n.Key, Value: b6.NewStringExpression(strValue(n.Lit, n.V))}
	case "point":
		if n.C == "p" && n.Lat == 0 && n.Lng == 0 { // the shape placeholder of ExprTree.tla
			a = b6.PointExpression(s2.LatLngFromDegrees(51.5, -0.125))
		} else if n.C == "deg" { // C20: built the way the shell builds it, from decimal degrees with <= 6 decimals
			a = b6.PointExpression(s2.LatLngFromDegrees(float64(n.Lat)/1e6, float64(n.Lng)/1e6))
		} else {
			a = b6.PointExpression(e7LatLng(n.Lat, n.Lng))
		}
	case "query":
		q, err := buildQuery(n.Q)
		if err != nil {
			return b6.Expression{}, err
		}
		a = b6.QueryExpression{Query: q}
	case "path":
		a = b6.PathExpression{Path: b6.GeometryFromPoints(e7Points(n.Pts))}
	case "area":
		a = b6.AreaExpression{Area: b6.AreaFromS2Polygons(polygons(n.Polys))}
	case "route":
		o, err := n.ID.id()
		if err != nil {
			return b6.Expression{}, err
		}
		r := b6.Route{Origin: o, Steps: make([]b6.Step, len(n.Steps))}
		for i, s := range n.Steps {
			d, err := s.Dest.id()
			if err != nil {
				return b6.Expression{}, err
			}
			v, err := s.Via.id()
			if err != nil {
				return b6.Expression{}, err
			}
			c, err := strconv.ParseFloat(s.Cost, 64)
			if err != nil {
				return b6.Expression{}, err
			}
			r.Steps[i] = b6.Step{Destination: d, Via: v, Cost: c}
		}
		a = b6.RouteExpression(r)
	case "coll":
		c, err := buildCollection(n)
		if err != nil {
			return b6.Expression{}, err
		}
		a = b6.CollectionExpression{UntypedCollection: c}
	case "call":
		f, err := build(n.F, withPos)
		if err != nil {
			return b6.Expression{}, err
		}
		args := make([]b6.Expression, len(n.Args))
		for i, x := range n.Args {
			if args[i], err = build(x, withPos); err != nil {
				return b6.Expression{}, err
			}
		}
		if n.Pipe && len(args) == 0 {
			return b6.Expression{}, fmt.Errorf("pipelined call without arguments is outside the domain")
		}
		a = b6.CallExpression{Function: f, Args: args, Pipelined: n.Pipe}
	case "lambda":
		body, err := build(n.Body, withPos)
		if err != nil {
			return b6.Expression{}, err
		}
		ps := make([]string, len(n.Params))
		copy(ps, n.Params)
		a = b6.LambdaExpression{Args: ps, Expression: body}
	default:
		return b6.Expression{}, fmt.Errorf("unknown node kind %q", n.K)
	}
	e := b6.Expression{AnyExpression: a}
	if withPos {
		e.Begin, e.End, e.Name = n.B, n.E, n.N
	}
	return e, nil
}

func (n *Node) children() []*Node {
	switch n.K {
	case "call":
		return append([]*Node{n.F}, n.Args...)
	case "lambda":
		return []*Node{n.Body}
	}
	return nil
}

func isLetter(c byte) bool { return (c >= 'a' && c <= 'z') || (c >= 'A' && c <= 'Z') }

func isSymbolRune(r rune) bool {
	return (r >= 'a' && r <= 'z') || (r >= 'A' && r <= 'Z') || (r >= '0' && r <= '9') || r == '-' || r == ':' || r == '_'
}

func charClass(c byte) string {
	switch {
	case c >= '0' && c <= '9':
		return "digit"
	case c == '-':
		return "minus"
	case c == '_':
		return "underscore"
	case c == ':':
		return "colon"
	case c == ' ':
		return "space"
	case c >= 0x80:
		return "nonascii"
	case unicode.IsPunct(rune(c)) || unicode.IsSymbol(rune(c)):
		return "punct"
	}
	return "other"
}
