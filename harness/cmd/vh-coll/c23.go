package main

// C23: one request per case.  The request is handled the way grpc/service.go handles it (handler.go);
// the answer must be one of the outcomes spec/Requests.tla allows (value, error).  A panic is caught per
// stage; a hang or a fatal error (panic in a goroutine of the library, stack overflow, out of memory)
// is seen by the parent process as timeout / crash.

import (
	"encoding/json"
	"fmt"

	"verif/harness/vh"
)

type reqCase struct {
	ID      int      `json:"id"`
	Expr    Node     `json:"expr"`
	Sym     string   `json:"sym"`
	Sig     string   `json:"sig"` // canonical shape signature (callee, arity, classes per slot, wrap)
	Allowed []string `json:"allowed"`
	Cores   int      `json:"cores"`
}

type reqObs struct {
	Kind  string `json:"kind"`
	Stage string `json:"stage"`
	Site  string `json:"site,omitempty"`
	Panic string `json:"panic,omitempty"`
	Err   string `json:"err,omitempty"`
	Expr  string `json:"expr,omitempty"`
	Type  string `json:"type,omitempty"`
}

func runReq(data json.RawMessage) vh.Verdict {
	var c reqCase
	if err := json.Unmarshal(data, &c); err != nil {
		return vh.Fail("harness-json", "bad case: %v", err)
	}
	e, err := c.Expr.expression()
	if err != nil {
		return vh.Fail("harness-expression", "bad expression: %v", err)
	}
	cores := c.Cores
	if cores == 0 {
		cores = 2
	}
	out := handleAll(e, handleOptions{Cores: cores, DeadlineM: 4000, Service: true})
	obs := reqObs{Kind: out.Kind, Stage: out.Stage, Site: out.Site, Panic: out.Panic, Type: out.Type}
	stats := map[string]int{"outcome_" + out.Kind: 1}
	if out.Kind == "unsendable" {
		// not a request a client can send: nothing to judge
		return vh.Verdict{OK: true, Stats: stats, Obs: obs}
	}
	for _, a := range c.Allowed {
		if a == out.Kind {
			if out.Kind == "error" && len(out.Err) > 0 {
				obs.Err = out.Err
				if len(obs.Err) > 160 {
					obs.Err = obs.Err[:160]
				}
			}
			return vh.Verdict{OK: true, Stats: stats, Obs: obs}
		}
	}
	obs.Expr = e.String()
	return vh.Verdict{OK: false,
		Key: fmt.Sprintf("%s:%s:%s:%s:%s", out.Kind, out.Stage, out.Site, c.Sym, c.Sig),
		Msg: fmt.Sprintf("request `%s` (%s, %s): %s in stage %s: %s\n%s", e.String(), c.Sym, c.Sig, out.Kind, out.Stage, out.Panic, out.Stack),
		Obs: obs, Stats: stats}
}
