package main

// handle() performs, step by step, what grpc/service.go:service.Evaluate does with a client's request:
// decode the expression from its wire form, Simplify, api.Evaluate with a context built like the
// service's, apply the result if it is a change, turn the result into a literal, encode it, marshal it.
// Every step runs under recover, so that a panic is attributed to the step and to its first b6 frame.

import (
	"context"
	"fmt"
	"reflect"
	"runtime/debug"
	"strings"
	"sync"
	"time"

	"diagonal.works/b6"
	"diagonal.works/b6/api"
	"diagonal.works/b6/api/functions"
	b6grpc "diagonal.works/b6/grpc"
	"diagonal.works/b6/ingest"
	pb "diagonal.works/b6/proto"
	"google.golang.org/protobuf/proto"
	"verif/harness/vh"
)

type outcome struct {
	Kind   string `json:"kind"`            // value | error | panic | unsendable
	Stage  string `json:"stage"`           // encode decode simplify evaluate apply literal proto marshal
	Err    string `json:"err,omitempty"`   // error text (kind error/unsendable)
	Panic  string `json:"panic,omitempty"` // panic value
	Site   string `json:"site,omitempty"`  // first b6 frame of the panic
	Stack  string `json:"stack,omitempty"`
	Type   string `json:"type,omitempty"` // Go type of the value
	Result interface{}
}

// stage runs f; ok=false means the request ended in this stage (out filled in).
func stage(name string, out *outcome, f func() error) (ok bool) {
	defer func() {
		if r := recover(); r != nil {
			st := string(debug.Stack())
			out.Kind, out.Stage = "panic", name
			out.Panic = fmt.Sprint(r)
			out.Site = panicSite(st)
			out.Stack = shortStack(st)
			ok = false
		}
	}()
	if err := f(); err != nil {
		out.Kind, out.Stage, out.Err = "error", name, err.Error()
		return false
	}
	return true
}

// panicSite is the first frame inside b6 below the panic (skipping this harness).
func panicSite(stack string) string {
	lines := strings.Split(stack, "\n")
	seenPanic := false
	for _, line := range lines {
		line = strings.TrimSpace(line)
		if strings.HasPrefix(line, "panic(") {
			seenPanic = true
			continue
		}
		if !seenPanic {
			continue
		}
		if strings.HasPrefix(line, "diagonal.works/b6") {
			if i := strings.LastIndex(line, "("); i > 0 {
				line = line[:i]
			}
			line = strings.TrimPrefix(line, "diagonal.works/b6/")
			line = strings.TrimPrefix(line, "diagonal.works/")
			// generic instantiations print as Func[...]: keep them stable
			if i := strings.Index(line, "[...]"); i > 0 {
				line = strings.ReplaceAll(line, "[...]", "")
			}
			return line
		}
	}
	return vh.PanicSite(stack)
}

func shortStack(st string) string {
	lines := strings.Split(st, "\n")
	out := []string{}
	for _, l := range lines {
		if strings.Contains(l, "diagonal.works/b6") || strings.HasPrefix(l, "panic(") || strings.HasPrefix(l, "reflect.") {
			out = append(out, strings.TrimSpace(l))
		}
		if len(out) >= 24 {
			break
		}
	}
	return strings.Join(out, "\n")
}

type handleOptions struct {
	Cores     int
	DeadlineM int  // context deadline in ms (0 = none)
	SkipWire  bool // do not round-trip the request through its proto encoding
	Describe  bool // keep a description of the result
	Service   bool // afterwards, send the same request to the real grpc service (fresh scratch world)
}

// viaService sends the request to the handler the server really runs (grpc.NewB6Service(...).Evaluate) on a
// fresh scratch world. The staged transcription in handle() attributes panics to a step; this call covers what
// only the handler itself does (the lock hand-over around a change, the version check, the final marshal).
// A fatal error (e.g. unlocking an unlocked mutex) cannot be recovered: the worker dies and the parent reports it.
func viaService(node *pb.NodeProto, o handleOptions, out *outcome) {
	worlds, err := newScratchWorlds()
	if err != nil {
		panic("harness: " + err.Error())
	}
	var lock sync.RWMutex
	svc := b6grpc.NewB6Service(worlds, api.Options{Cores: o.Cores, FileIOAllowed: false}, &lock)
	ctx := context.Background()
	if o.DeadlineM > 0 {
		var cancel context.CancelFunc
		ctx, cancel = context.WithTimeout(ctx, time.Duration(o.DeadlineM)*time.Millisecond)
		defer cancel()
	}
	var so outcome
	if stage("service", &so, func() error {
		_, err := svc.Evaluate(ctx, &pb.EvaluateRequestProto{Request: node, Version: b6.ApiVersion})
		return err
	}) {
		// the handler must leave the lock free: a writer and a reader can both get it
		if !stage("service-lock", &so, func() error {
			if !lock.TryLock() {
				return fmt.Errorf("the service lock is still held after Evaluate returned")
			}
			lock.Unlock()
			return nil
		}) {
			so.Kind = "panic"
			so.Panic = so.Err
			so.Site = "grpc.(*service).Evaluate"
		}
	} else if so.Kind == "error" {
		if !lock.TryLock() {
			so.Kind, so.Stage, so.Panic, so.Site = "panic", "service-lock", "the service lock is still held after Evaluate returned an error", "grpc.(*service).Evaluate"
		} else {
			lock.Unlock()
		}
	}
	if so.Kind == "panic" {
		*out = so
	}
}

func handle(e b6.Expression, o handleOptions) (out outcome) {
	worlds, err := newScratchWorlds()
	if err != nil {
		panic("harness: " + err.Error())
	}
	// --- client side: the request must be encodable, otherwise it cannot be sent at all
	var node *pb.NodeProto
	if !o.SkipWire {
		if !stage("encode", &out, func() error {
			var err error
			node, err = e.ToProto()
			if err == nil {
				_, err = proto.Marshal(&pb.EvaluateRequestProto{Request: node})
			}
			return err
		}) {
			out.Kind = "unsendable"
			return out
		}
	}
	// --- server side (service.Evaluate)
	w := worlds.FindOrCreateWorld(b6.FeatureIDInvalid)
	ctx := context.Background()
	if o.DeadlineM > 0 {
		var cancel context.CancelFunc
		ctx, cancel = context.WithTimeout(ctx, time.Duration(o.DeadlineM)*time.Millisecond)
		defer cancel()
	}
	c := api.Context{
		World:           w,
		Worlds:          worlds,
		FunctionSymbols: functions.Functions(),
		Adaptors:        functions.Adaptors(),
		Context:         ctx,
	}
	c.FillFromOptions(&api.Options{Cores: o.Cores, FileIOAllowed: false})
	expression := e
	if !o.SkipWire {
		if !stage("decode", &out, func() error {
			var err error
			expression, err = b6.ExpressionFromProto(node)
			return err
		}) {
			return out
		}
	}
	var simplified b6.Expression
	if !stage("simplify", &out, func() error {
		simplified = api.Simplify(expression, c.FunctionSymbols)
		return nil
	}) {
		return out
	}
	var v interface{}
	if !stage("evaluate", &out, func() error {
		var err error
		v, err = api.Evaluate(simplified, &c)
		return err
	}) {
		return out
	}
	out.Type = fmt.Sprintf("%T", v)
	if change, ok := v.(ingest.Change); ok {
		if !stage("apply", &out, func() error {
			var err error
			v, err = change.Apply(w)
			return err
		}) {
			return out
		}
	}
	var lit b6.Literal
	if !stage("literal", &out, func() error {
		var err error
		lit, err = b6.FromLiteral(v)
		return err
	}) {
		return out
	}
	var pe *pb.NodeProto
	if !stage("proto", &out, func() error {
		var err error
		pe, err = lit.ToProto()
		return err
	}) {
		return out
	}
	if !stage("marshal", &out, func() error {
		_, err := proto.Marshal(&pb.EvaluateResponseProto{Result: pe})
		return err
	}) {
		return out
	}
	out.Kind, out.Stage = "value", "done"
	if o.Describe {
		out.Result = describe(v)
	}
	return out
}

// handleAll = handle, then (for a request that can be sent and did not already panic) the real service handler.
func handleAll(e b6.Expression, o handleOptions) outcome {
	out := handle(e, o)
	if o.Service && !o.SkipWire && out.Kind != "panic" && out.Kind != "unsendable" {
		if node, err := e.ToProto(); err == nil {
			viaService(node, o, &out)
		}
	}
	return out
}

func describe(v interface{}) interface{} {
	if v == nil {
		return "nil"
	}
	if c, ok := v.(b6.UntypedCollection); ok && !isNilValue(v) {
		var items []item
		var err error
		p := vh.Catch(func() { items, err = drain(c, 50) })
		d := map[string]interface{}{"items": items}
		if err != nil {
			d["err"] = err.Error()
		}
		if p != "" {
			d["panic"] = p
		}
		return d
	}
	return showValue(v)
}

func isNilValue(v interface{}) bool {
	rv := reflect.ValueOf(v)
	switch rv.Kind() {
	case reflect.Ptr, reflect.Interface, reflect.Map, reflect.Slice, reflect.Func:
		return rv.IsNil()
	}
	return false
}
