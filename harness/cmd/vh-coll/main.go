// vh-coll: adapters for C24 (collection functions against spec/Collections.tla) and C23 (no request
// crashes the server; request shapes from spec/Requests.tla).
//
//	adapters:  coll (C24 pipelines)   find (C24 collection feature lookups)   req (C23 requests)
//	tools:     sigs (signatures of every registered function)   eval (evaluate one request from stdin)
package main

import (
	"encoding/json"
	"fmt"
	"io"
	"os"
	"reflect"
	"runtime"
	"sort"
	"time"

	"diagonal.works/b6/api/functions"
	"verif/harness/vh"
)

type sig struct {
	Name     string   `json:"name"`
	In       []string `json:"in"` // parameter types without the leading *api.Context
	Variadic bool     `json:"variadic"`
	Out      []string `json:"out"`
}

func sigsTool(args []string) int {
	fs := functions.Functions()
	names := make([]string, 0, len(fs))
	for n := range fs {
		names = append(names, n)
	}
	sort.Strings(names)
	for _, n := range names {
		t := reflect.TypeOf(fs[n])
		s := sig{Name: n, Variadic: t.IsVariadic(), In: []string{}, Out: []string{}}
		for i := 1; i < t.NumIn(); i++ {
			s.In = append(s.In, t.In(i).String())
		}
		for i := 0; i < t.NumOut(); i++ {
			s.Out = append(s.Out, t.Out(i).String())
		}
		b, _ := json.Marshal(s)
		fmt.Println(string(b))
	}
	return 0
}

func evalTool(args []string) int {
	data, err := io.ReadAll(os.Stdin)
	if err != nil {
		fmt.Fprintln(os.Stderr, err)
		return 2
	}
	var n Node
	if err := json.Unmarshal(data, &n); err != nil {
		fmt.Fprintln(os.Stderr, "bad expression:", err)
		return 2
	}
	e, err := n.expression()
	if err != nil {
		fmt.Fprintln(os.Stderr, "bad expression:", err)
		return 2
	}
	fmt.Fprintln(os.Stderr, "expression:", e.String())
	out := handle(e, handleOptions{Cores: 2, DeadlineM: 5000, Describe: true})
	b, _ := json.MarshalIndent(out, "", " ")
	fmt.Println(string(b))
	return 0
}

// memoryWatchdog ends a worker whose heap grows beyond limit, so that a request that allocates without
// bound is observed as a crash of that request ("fatal error: ...") instead of taking the machine down.
func memoryWatchdog(limit uint64) {
	go func() {
		var m runtime.MemStats
		for {
			time.Sleep(100 * time.Millisecond)
			runtime.ReadMemStats(&m)
			if m.HeapAlloc > limit {
				fmt.Fprintf(os.Stderr, "fatal error: verif memory limit exceeded (heap %d MB)\n", m.HeapAlloc>>20)
				os.Exit(3)
			}
		}
	}()
}

func main() {
	if len(os.Args) > 1 && os.Args[1] == "worker" {
		memoryWatchdog(3 << 30)
	}
	vh.RegisterFunc("coll", runC24)
	vh.RegisterFunc("find", runFind)
	vh.RegisterFunc("req", runReq)
	vh.Tool("sigs", sigsTool)
	vh.Tool("eval", evalTool)
	vh.Main()
}
