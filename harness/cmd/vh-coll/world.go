package main

// The scratch world every C23/C24 request is evaluated against: a handful of tagged points, two
// connected paths, one closed path under an area, a relation, three collections and an expression
// feature.  It is served the way the b6 server serves its worlds: a MutableOverlayWorld over a base
// world, obtained from ingest.MutableWorlds.

import (
	"fmt"

	"diagonal.works/b6"
	"diagonal.works/b6/ingest"
	"github.com/golang/geo/s2"
)

const scratchNS = b6.Namespace("verif/w")

func pid(v uint64) b6.FeatureID {
	return b6.FeatureID{Type: b6.FeatureTypePoint, Namespace: scratchNS, Value: v}
}

func scratchPoint(v uint64, lat, lng float64, tags ...b6.Tag) ingest.Feature {
	f := &ingest.GenericFeature{ID: pid(v)}
	f.Tags = append(f.Tags, b6.Tag{Key: b6.PointTag, Value: b6.NewPointExpressionFromLatLng(s2.LatLngFromDegrees(lat, lng))})
	f.Tags = append(f.Tags, tags...)
	return f
}

func scratchPath(v uint64, points []uint64, tags ...b6.Tag) ingest.Feature {
	f := &ingest.GenericFeature{}
	f.SetFeatureID(b6.FeatureID{Type: b6.FeatureTypePath, Namespace: scratchNS, Value: v})
	for i, p := range points {
		f.ModifyOrAddTagAt(b6.Tag{Key: b6.PathTag, Value: b6.NewFeatureIDExpression(pid(p))}, i)
	}
	f.Tags = append(f.Tags, tags...)
	return f
}

func st(k, v string) b6.Tag { return b6.Tag{Key: k, Value: b6.NewStringExpression(v)} }

func buildScratchBase() (*ingest.BasicMutableWorld, error) {
	w := ingest.NewBasicMutableWorld()
	fs := []ingest.Feature{
		scratchPoint(1, 51.5350, -0.1250, st("#amenity", "cafe"), st("name", "one"), st("level", "2")),
		scratchPoint(2, 51.5350, -0.1240, st("#amenity", "pub"), st("name", "two")),
		scratchPoint(3, 51.5360, -0.1240, st("#entrance", "yes")),
		scratchPoint(4, 51.5360, -0.1250),
		scratchPoint(5, 51.5370, -0.1250, st("#amenity", "cafe")),
		scratchPoint(6, 51.5370, -0.1230),
		scratchPath(1, []uint64{1, 2, 3}, st("#highway", "footway"), st("name", "a street")),
		scratchPath(2, []uint64{3, 4, 5}, st("#highway", "path")),
		scratchPath(3, []uint64{1, 2, 3, 4, 1}),
	}
	area := ingest.NewAreaFeature(1)
	area.AreaID = b6.AreaID{Namespace: scratchNS, Value: 1}
	area.SetPathIDs(0, []b6.FeatureID{{Type: b6.FeatureTypePath, Namespace: scratchNS, Value: 3}})
	area.Tags = b6.Tags{st("#building", "yes"), st("building:levels", "3")}
	fs = append(fs, area)
	rel := ingest.NewRelationFeature(2)
	rel.RelationID = b6.RelationID{Namespace: scratchNS, Value: 1}
	rel.Members[0] = b6.RelationMember{ID: b6.FeatureID{Type: b6.FeatureTypePath, Namespace: scratchNS, Value: 1}, Role: "outer"}
	rel.Members[1] = b6.RelationMember{ID: pid(5)}
	rel.Tags = b6.Tags{st("#route", "bus")}
	fs = append(fs, rel)
	fs = append(fs,
		&ingest.CollectionFeature{
			CollectionID: b6.CollectionID{Namespace: scratchNS, Value: 1},
			Keys:         []interface{}{"a", "b", "b"},
			Values:       []interface{}{1, 2, 3},
			Tags:         b6.Tags{st("#kind", "ints")},
		},
		&ingest.CollectionFeature{
			CollectionID: b6.CollectionID{Namespace: scratchNS, Value: 2},
			Keys:         []interface{}{pid(1), pid(2)},
			Values:       []interface{}{pid(3), pid(5)},
		},
		&ingest.CollectionFeature{
			CollectionID: b6.CollectionID{Namespace: scratchNS, Value: 3},
			Keys:         []interface{}{},
			Values:       []interface{}{},
		},
		&ingest.GenericFeature{
			ID: b6.FeatureID{Type: b6.FeatureTypeExpression, Namespace: scratchNS, Value: 1},
			Tags: b6.Tags{{Key: b6.ExpressionTag, Value: b6.NewCallExpression(b6.NewSymbolExpression("add-ints"),
				[]b6.Expression{b6.NewIntExpression(1), b6.NewIntExpression(2)})}},
		},
	)
	for _, f := range fs {
		if err := w.AddFeature(f); err != nil {
			return nil, fmt.Errorf("scratch world: %s: %v", f.FeatureID(), err)
		}
	}
	return w, nil
}

// newScratchWorlds returns a fresh set of worlds over a fresh base (requests may change worlds).
func newScratchWorlds() (*ingest.MutableWorlds, error) {
	base, err := buildScratchBase()
	if err != nil {
		return nil, err
	}
	return &ingest.MutableWorlds{Base: base}, nil
}
