package main

// JSON expression trees and typed values shared by the C24 and C23 adapters.
//
// Typed value ("tv"):   {"t":"int","v":1} {"t":"float","v":1.5} {"t":"str","v":"a"} {"t":"bool","v":true}
//                       {"t":"id","v":["point","ns",7]} {"t":"pair","v":[tv,tv]} {"t":"nil"}
// Expression tree:      {"lit": tv} {"sym":"take"} {"call":[f, a1, ...]} {"lambda":[["x"], body]}
//                       {"coll":[[tv,tv],...]} (literal collection) {"tag":["k","v"]} {"point":[lat,lng]}
//                       {"query":["tagged","k","v"]} {"nil":true} {"empty":true}
// Typed values inside literal collections may also be {"t":"tag","v":["k","v"]} and {"t":"point","v":[lat,lng]}.

import (
	"encoding/json"
	"fmt"
	"math"
	"sort"
	"strings"

	"diagonal.works/b6"
	"diagonal.works/b6/api"
	"github.com/golang/geo/s2"
)

type TV struct {
	T string          `json:"t"`
	V json.RawMessage `json:"v,omitempty"`
}

func featureType(s string) b6.FeatureType {
	switch s {
	case "point":
		return b6.FeatureTypePoint
	case "path":
		return b6.FeatureTypePath
	case "area":
		return b6.FeatureTypeArea
	case "relation":
		return b6.FeatureTypeRelation
	case "collection":
		return b6.FeatureTypeCollection
	case "expression":
		return b6.FeatureTypeExpression
	}
	return b6.FeatureTypeInvalid
}

func idFromJSON(raw json.RawMessage) (b6.FeatureID, error) {
	var parts []interface{}
	if err := json.Unmarshal(raw, &parts); err != nil || len(parts) != 3 {
		return b6.FeatureID{}, fmt.Errorf("bad id %s", string(raw))
	}
	t, _ := parts[0].(string)
	ns, _ := parts[1].(string)
	v, _ := parts[2].(float64)
	return b6.FeatureID{Type: featureType(t), Namespace: b6.Namespace(ns), Value: uint64(v)}, nil
}

// goValue turns a typed value into the Go value the VM would hold for the corresponding literal.
func (t TV) goValue() (interface{}, error) {
	switch t.T {
	case "int":
		var i int
		err := json.Unmarshal(t.V, &i)
		return i, err
	case "float":
		var f float64
		err := json.Unmarshal(t.V, &f)
		return f, err
	case "str":
		var s string
		err := json.Unmarshal(t.V, &s)
		return s, err
	case "bool":
		var b bool
		err := json.Unmarshal(t.V, &b)
		return b, err
	case "id":
		return idFromJSON(t.V)
	case "pair":
		var ps []TV
		if err := json.Unmarshal(t.V, &ps); err != nil || len(ps) != 2 {
			return nil, fmt.Errorf("bad pair")
		}
		a, err := ps[0].goValue()
		if err != nil {
			return nil, err
		}
		b, err := ps[1].goValue()
		if err != nil {
			return nil, err
		}
		return api.AnyAnyPair{a, b}, nil
	case "nil":
		return nil, nil
	case "tag":
		var kv []string
		if err := json.Unmarshal(t.V, &kv); err != nil || len(kv) != 2 {
			return nil, fmt.Errorf("bad tag")
		}
		return b6.Tag{Key: kv[0], Value: b6.NewStringExpression(kv[1])}, nil
	case "point":
		var ll []float64
		if err := json.Unmarshal(t.V, &ll); err != nil || len(ll) != 2 {
			return nil, fmt.Errorf("bad point")
		}
		return b6.GeometryFromLatLng(s2.LatLngFromDegrees(ll[0], ll[1])), nil
	}
	return nil, fmt.Errorf("unknown typed value kind %q", t.T)
}

func (t TV) expression() (b6.Expression, error) {
	switch t.T {
	case "pair":
		var ps []TV
		if err := json.Unmarshal(t.V, &ps); err != nil || len(ps) != 2 {
			return b6.Expression{}, fmt.Errorf("bad pair")
		}
		a, err := ps[0].expression()
		if err != nil {
			return b6.Expression{}, err
		}
		b, err := ps[1].expression()
		if err != nil {
			return b6.Expression{}, err
		}
		return b6.NewCallExpression(b6.NewSymbolExpression("pair"), []b6.Expression{a, b}), nil
	case "nil":
		return b6.Expression{AnyExpression: b6.NilExpression{}}, nil
	}
	v, err := t.goValue()
	if err != nil {
		return b6.Expression{}, err
	}
	l, err := b6.FromLiteral(v)
	if err != nil {
		return b6.Expression{}, err
	}
	return b6.Expression{AnyExpression: l.AnyLiteral}, nil
}

type Node struct {
	Lit    *TV               `json:"lit,omitempty"`
	Sym    *string           `json:"sym,omitempty"`
	Call   []Node            `json:"call,omitempty"`
	Lambda []json.RawMessage `json:"lambda,omitempty"`
	Coll   *[][2]TV          `json:"coll,omitempty"`
	Tag    []string          `json:"tag,omitempty"`
	Point  []float64         `json:"point,omitempty"`
	Query  []string          `json:"query,omitempty"` // literal query: ["tagged",k,v] ["keyed",k] ["all"]
	Nil    bool              `json:"nil,omitempty"`
	Empty  bool              `json:"empty,omitempty"` // an Expression with a nil AnyExpression
}

func (n Node) expression() (b6.Expression, error) {
	switch {
	case n.Lit != nil:
		return n.Lit.expression()
	case n.Sym != nil:
		return b6.NewSymbolExpression(*n.Sym), nil
	case n.Call != nil:
		if len(n.Call) < 1 {
			return b6.Expression{}, fmt.Errorf("empty call")
		}
		f, err := n.Call[0].expression()
		if err != nil {
			return b6.Expression{}, err
		}
		args := make([]b6.Expression, 0, len(n.Call)-1)
		for _, a := range n.Call[1:] {
			e, err := a.expression()
			if err != nil {
				return b6.Expression{}, err
			}
			args = append(args, e)
		}
		return b6.NewCallExpression(f, args), nil
	case n.Lambda != nil:
		if len(n.Lambda) != 2 {
			return b6.Expression{}, fmt.Errorf("bad lambda")
		}
		var names []string
		if err := json.Unmarshal(n.Lambda[0], &names); err != nil {
			return b6.Expression{}, err
		}
		var body Node
		if err := json.Unmarshal(n.Lambda[1], &body); err != nil {
			return b6.Expression{}, err
		}
		e, err := body.expression()
		if err != nil {
			return b6.Expression{}, err
		}
		return b6.NewLambdaExpression(names, e), nil
	case n.Coll != nil:
		c := b6.ArrayCollection[any, any]{Keys: []any{}, Values: []any{}}
		for _, kv := range *n.Coll {
			k, err := kv[0].goValue()
			if err != nil {
				return b6.Expression{}, err
			}
			v, err := kv[1].goValue()
			if err != nil {
				return b6.Expression{}, err
			}
			c.Keys = append(c.Keys, k)
			c.Values = append(c.Values, v)
		}
		return b6.NewCollectionExpression(c.Collection()), nil
	case n.Tag != nil:
		if len(n.Tag) != 2 {
			return b6.Expression{}, fmt.Errorf("bad tag")
		}
		return b6.Expression{AnyExpression: b6.TagExpression(b6.Tag{Key: n.Tag[0], Value: b6.NewStringExpression(n.Tag[1])})}, nil
	case n.Point != nil:
		if len(n.Point) != 2 {
			return b6.Expression{}, fmt.Errorf("bad point")
		}
		return b6.NewPointExpressionFromLatLng(s2.LatLngFromDegrees(n.Point[0], n.Point[1])), nil
	case n.Query != nil:
		switch {
		case len(n.Query) == 3 && n.Query[0] == "tagged":
			return b6.NewQueryExpression(b6.Tagged{Key: n.Query[1], Value: b6.NewStringExpression(n.Query[2])}), nil
		case len(n.Query) == 2 && n.Query[0] == "keyed":
			return b6.NewQueryExpression(b6.Keyed{Key: n.Query[1]}), nil
		case len(n.Query) == 1 && n.Query[0] == "all":
			return b6.NewQueryExpression(b6.All{}), nil
		}
		return b6.Expression{}, fmt.Errorf("bad query")
	case n.Nil:
		return b6.Expression{AnyExpression: b6.NilExpression{}}, nil
	case n.Empty:
		return b6.Expression{}, nil
	}
	return b6.Expression{}, fmt.Errorf("empty expression node")
}

// ---- observation: Go values back to typed values (canonical strings) ----

// showValue renders a value the VM produced in a canonical textual form: "int:1", "float:1.5",
// "str:a", "bool:true", "id:/point/ns/7", "pair(<a>,<b>)", "nil", otherwise "other:<Go type>".
func showValue(v interface{}) string {
	switch v := v.(type) {
	case nil:
		return "nil"
	case int:
		return fmt.Sprintf("int:%d", v)
	case float64:
		if math.IsNaN(v) {
			return "float:NaN"
		}
		return "float:" + trimFloat(v)
	case string:
		return "str:" + v
	case bool:
		return fmt.Sprintf("bool:%v", v)
	case b6.FeatureID:
		return fmt.Sprintf("id:%s/%s/%d", v.Type.String(), v.Namespace, v.Value)
	case b6.IntNumber:
		return fmt.Sprintf("intnumber:%d", int(v))
	case b6.FloatNumber:
		return "floatnumber:" + trimFloat(float64(v))
	case api.Pair:
		return "pair(" + showValue(v.First()) + "," + showValue(v.Second()) + ")"
	}
	return fmt.Sprintf("other:%T", v)
}

func trimFloat(f float64) string {
	b, _ := json.Marshal(f)
	return string(b)
}

// showTV renders the expected typed value in the same canonical form as showValue.
func showTV(t TV) string {
	if t.T == "pair" {
		var ps []TV
		if err := json.Unmarshal(t.V, &ps); err != nil || len(ps) != 2 {
			return "badpair"
		}
		return "pair(" + showTV(ps[0]) + "," + showTV(ps[1]) + ")"
	}
	v, err := t.goValue()
	if err != nil {
		return "bad:" + err.Error()
	}
	return showValue(v)
}

type item struct {
	K string `json:"k"`
	V string `json:"v"`
}

func (i item) String() string { return i.K + "=>" + i.V }

func showItems(is []item) string {
	ss := make([]string, len(is))
	for i := range is {
		ss[i] = is[i].String()
	}
	return "[" + strings.Join(ss, " ") + "]"
}

func sortedItems(is []item) []string {
	ss := make([]string, len(is))
	for i := range is {
		ss[i] = is[i].String()
	}
	sort.Strings(ss)
	return ss
}

// drain iterates a collection from a fresh iterator, up to limit items.
func drain(c b6.UntypedCollection, limit int) ([]item, error) {
	out := []item{}
	i := c.BeginUntyped()
	for {
		ok, err := i.Next()
		if err != nil {
			return out, err
		}
		if !ok {
			return out, nil
		}
		out = append(out, item{K: showValue(i.Key()), V: showValue(i.Value())})
		if len(out) > limit {
			return out, fmt.Errorf("more than %d items", limit)
		}
	}
}
