package main

// C24: executes the cases exported from spec/Collections.tla on the real collection functions.
//
// A case is a pipeline of 1..n stages.  Every stage carries the complete expression of the pipeline up
// to and including that stage and what Collections.tla says its result is.  Stages are judged in
// order and the first stage that disagrees is the culprit (its label goes into the failure key), so
// a defect of `take` is reported as a defect of `take` also when it was met inside `map (take ..) ..`.

import (
	"encoding/json"
	"fmt"
	"sort"
	"strings"

	"diagonal.works/b6"
	"diagonal.works/b6/api"
	"diagonal.works/b6/api/functions"
	"diagonal.works/b6/ingest"
	"verif/harness/vh"
)

type c24Top struct {
	N      int     `json:"n"`
	Input  [][2]TV `json:"input"`
	Values []TV    `json:"values"`
}

type c24Stage struct {
	Label string  `json:"label"` // canonical name of the call, e.g. "take(-1)"
	Expr  Node    `json:"expr"`
	Mode  string  `json:"mode"` // seq | bag | top
	Items [][2]TV `json:"items"`
	Top   *c24Top `json:"top,omitempty"`
	InLen int     `json:"inlen"` // number of items of the collection the call is applied to
}

type c24Feat struct {
	N     uint64  `json:"n"`
	Items [][2]TV `json:"items"`
}

type c24Case struct {
	ID     int        `json:"id"`
	Stages []c24Stage `json:"stages"`
	Feats  []c24Feat  `json:"feats"`
	Desc   string     `json:"desc"`
}

const c24NS = b6.Namespace("verif/c")

func c24World(feats []c24Feat) (b6.World, error) {
	w := ingest.NewBasicMutableWorld()
	for _, f := range feats {
		cf := &ingest.CollectionFeature{CollectionID: b6.CollectionID{Namespace: c24NS, Value: f.N}, Keys: []interface{}{}, Values: []interface{}{}}
		for _, kv := range f.Items {
			k, err := kv[0].goValue()
			if err != nil {
				return nil, err
			}
			v, err := kv[1].goValue()
			if err != nil {
				return nil, err
			}
			cf.Keys = append(cf.Keys, k)
			cf.Values = append(cf.Values, v)
		}
		if err := w.AddFeature(cf); err != nil {
			return nil, err
		}
	}
	return w, nil
}

func expectedItems(kvs [][2]TV) []item {
	out := make([]item, len(kvs))
	for i, kv := range kvs {
		out[i] = item{K: showTV(kv[0]), V: showTV(kv[1])}
	}
	return out
}

func sameSeq(a, b []item) bool {
	if len(a) != len(b) {
		return false
	}
	for i := range a {
		if a[i] != b[i] {
			return false
		}
	}
	return true
}

func sameBag(a, b []item) bool {
	if len(a) != len(b) {
		return false
	}
	x, y := sortedItems(a), sortedItems(b)
	for i := range x {
		if x[i] != y[i] {
			return false
		}
	}
	return true
}

func subBag(a, b []item) bool {
	n := map[item]int{}
	for _, x := range b {
		n[x]++
	}
	for _, x := range a {
		n[x]--
		if n[x] < 0 {
			return false
		}
	}
	return true
}

func relation(got, want []item) string {
	switch {
	case len(got) < len(want):
		return "fewer"
	case len(got) > len(want):
		return "more"
	case sameBag(got, want):
		return "order"
	}
	return "different"
}

type c24Obs struct {
	Count    int    `json:"count"`
	CountOK  bool   `json:"count_ok"`
	Items    []item `json:"items"`
	Count2   int    `json:"count_after"`
	Count2OK bool   `json:"count_after_ok"`
	Items2   []item `json:"items_again"`
	Type     string `json:"type"`
}

// judgeStage evaluates one stage on the real code and compares with the specification's result.
// It returns "" if the stage conforms, otherwise (kind, detail, message).
func judgeStage(s c24Stage, w b6.World, stats map[string]int) (kind, detail, msg string, obs interface{}) {
	e, err := s.Expr.expression()
	if err != nil {
		return "harness", "bad-expression", err.Error(), nil
	}
	var result interface{}
	var evalErr error
	if p := vh.Catch(func() { result, evalErr = api.Evaluate(e, functions.NewContext(w)) }); p != "" {
		return "panic", fmt.Sprintf("evaluate %s input-len=%d", siteOf(p), s.InLen), p, nil
	}
	if evalErr != nil {
		return "error", "evaluate", evalErr.Error(), nil
	}
	c, ok := result.(b6.UntypedCollection)
	if !ok || isNilValue(result) {
		return "type", fmt.Sprintf("%T", result), fmt.Sprintf("result is %T, not a collection", result), nil
	}
	var o c24Obs
	o.Type = fmt.Sprintf("%T", result)
	var iterErr error
	if p := vh.Catch(func() {
		o.Count, o.CountOK = c.Count()
		o.Items, iterErr = drain(c, 64)
		if iterErr == nil {
			o.Count2, o.Count2OK = c.Count()
			o.Items2, iterErr = drain(c, 64)
		}
	}); p != "" {
		return "panic", fmt.Sprintf("iterate %s input-len=%d", siteOf(p), s.InLen), p, o
	}
	if iterErr != nil {
		return "error", "iterate", iterErr.Error(), o
	}
	stats["collections_iterated"]++
	want := expectedItems(s.Items)
	switch s.Mode {
	case "seq":
		if !sameSeq(o.Items, want) {
			return "items", relation(o.Items, want), fmt.Sprintf("items %s, specification %s", showItems(o.Items), showItems(want)), o
		}
		if !sameSeq(o.Items2, o.Items) {
			return "reiterate", relation(o.Items2, o.Items), fmt.Sprintf("second iteration %s, first %s", showItems(o.Items2), showItems(o.Items)), o
		}
	case "bag":
		if !sameBag(o.Items, want) {
			rel := relation(o.Items, want)
			if rel == "order" {
				rel = "different"
			}
			return "items", rel, fmt.Sprintf("items %s, specification (any order) %s", showItems(o.Items), showItems(want)), o
		}
		if !sameBag(o.Items2, o.Items) {
			return "reiterate", "different", fmt.Sprintf("second iteration %s, first %s", showItems(o.Items2), showItems(o.Items)), o
		}
	case "top":
		in := expectedItems(s.Top.Input)
		vals := make([]string, len(s.Top.Values))
		for i, v := range s.Top.Values {
			vals[i] = showTV(v)
		}
		got := make([]string, len(o.Items))
		for i, it := range o.Items {
			got[i] = it.V
		}
		sort.Strings(vals)
		sort.Strings(got)
		if len(got) != len(vals) {
			rel := "fewer"
			if len(got) > len(vals) {
				rel = "more"
			}
			return "items", rel, fmt.Sprintf("top returned %s; specification: %d items with values %v", showItems(o.Items), len(vals), vals), o
		}
		if strings.Join(got, " ") != strings.Join(vals, " ") {
			return "items", "values", fmt.Sprintf("top returned %s; specification: values %v", showItems(o.Items), vals), o
		}
		if !subBag(o.Items, in) {
			return "items", "not-from-input", fmt.Sprintf("top returned %s, which are not items of the input %s", showItems(o.Items), showItems(in)), o
		}
		if !sameBag(o.Items2, o.Items) {
			return "reiterate", "different", fmt.Sprintf("second iteration %s, first %s", showItems(o.Items2), showItems(o.Items)), o
		}
	default:
		return "harness", "bad-mode", s.Mode, o
	}
	if o.CountOK {
		stats["counts_reported"]++
		if o.Count != len(o.Items) {
			return "count", fmt.Sprintf("count=%d items=%d", o.Count, len(o.Items)),
				fmt.Sprintf("Count() reports %d but iterating yields %d items %s", o.Count, len(o.Items), showItems(o.Items)), o
		}
	}
	if o.Count2OK && o.Count2 != len(o.Items) {
		return "count", fmt.Sprintf("after-iteration count=%d items=%d", o.Count2, len(o.Items)),
			fmt.Sprintf("Count() after an iteration reports %d but iterating yields %d items", o.Count2, len(o.Items)), o
	}
	return "", "", "", o
}

// siteOf extracts the "@site" suffix vh.Catch appends.
func siteOf(p string) string {
	if i := strings.LastIndex(p, " @"); i >= 0 {
		return strings.TrimPrefix(p[i+2:], "b6/")
	}
	return "unknown"
}

func runC24(data json.RawMessage) vh.Verdict {
	var c c24Case
	if err := json.Unmarshal(data, &c); err != nil {
		return vh.Fail("harness-json", "bad case: %v", err)
	}
	w, err := c24World(c.Feats)
	if err != nil {
		return vh.Fail("harness-world", "cannot build the world: %v", err)
	}
	stats := map[string]int{}
	for i, s := range c.Stages {
		kind, detail, msg, obs := judgeStage(s, w, stats)
		stats["stages_executed"]++
		if kind != "" {
			e, _ := s.Expr.expression()
			return vh.Verdict{OK: false,
				Key: fmt.Sprintf("%s:%s:%s", kind, s.Label, detail),
				Msg: fmt.Sprintf("stage %d/%d %s of %s: %s\n  expression: %s", i+1, len(c.Stages), s.Label, c.Desc, msg, e.String()),
				Obs: obs, Stats: stats}
		}
	}
	return vh.Verdict{OK: true, Stats: stats}
}

// ---------------------------------------------------------------- collection features: FindValue / FindValues

type findProbe struct {
	Key   TV   `json:"key"`
	Found bool `json:"found"`
	First TV   `json:"first"`
	All   []TV `json:"all"`
}

type findCase struct {
	ID     int         `json:"id"`
	Items  [][2]TV     `json:"items"`
	Build  string      `json:"build"` // plain: as given, unsorted flag | sorted-as-given: sorted flag set, order as given (input is sorted by key) | sort: Sort() called
	Probes []findProbe `json:"probes"`
	Desc   string      `json:"desc"`
}

func runFind(data json.RawMessage) vh.Verdict {
	var c findCase
	if err := json.Unmarshal(data, &c); err != nil {
		return vh.Fail("harness-json", "bad case: %v", err)
	}
	f := &ingest.CollectionFeature{CollectionID: b6.CollectionID{Namespace: c24NS, Value: 1}, Keys: []interface{}{}, Values: []interface{}{}}
	for _, kv := range c.Items {
		k, err := kv[0].goValue()
		if err != nil {
			return vh.Fail("harness-json", "%v", err)
		}
		v, err := kv[1].goValue()
		if err != nil {
			return vh.Fail("harness-json", "%v", err)
		}
		f.Keys = append(f.Keys, k)
		f.Values = append(f.Values, v)
	}
	exact := true // is the arrangement of the feature the one the specification scanned?
	var look interface {
		FindValue(key any) (any, bool)
		FindValues(key any, values []any) []any
	}
	switch c.Build {
	case "plain":
	case "sorted-as-given":
		w := ingest.NewBasicMutableWorld()
		if err := w.AddFeature(f); err != nil {
			return vh.Fail("harness-world", "%v", err)
		}
		wrapped := b6.FindCollectionByID(f.CollectionID, w)
		f = ingest.NewCollectionFeatureFromWorld(sortedView{wrapped})
		if !f.IsSortedByKey() || len(f.Keys) != len(c.Items) {
			return vh.Fail("harness-world", "could not build a feature with the sorted flag")
		}
	case "sort":
		f.Sort()
		exact = false // sort.Sort is not stable: items with equal keys may have been permuted
	case "replace-sorted-basic", "replace-sorted-overlay":
		// the feature replaces, in a mutable world, an earlier feature of the same ID that had been Sort()ed;
		// lookups go through the world's feature
		var w ingest.MutableWorld = ingest.NewBasicMutableWorld()
		if c.Build == "replace-sorted-overlay" {
			w = ingest.NewMutableOverlayWorld(ingest.NewBasicMutableWorld())
		}
		g := f.Clone().(*ingest.CollectionFeature)
		g.Sort()
		if err := w.AddFeature(g); err != nil {
			return vh.Fail("harness-world", "%v", err)
		}
		if err := w.AddFeature(f); err != nil {
			return vh.Fail("harness-world", "%v", err)
		}
		wrapped := b6.FindCollectionByID(f.CollectionID, w)
		if wrapped == nil {
			return vh.Fail("harness-world", "collection feature not found after AddFeature")
		}
		look = wrapped
		f = ingest.NewCollectionFeatureFromWorld(wrapped) // only to read the arrangement below
		exact = false
	default:
		return vh.Fail("harness-json", "bad build %q", c.Build)
	}
	if look == nil {
		look = f
	}
	// the arrangement the real feature ended up with (observable through Keys/Values)
	arranged := make([]item, len(f.Keys))
	for i := range f.Keys {
		arranged[i] = item{K: showValue(f.Keys[i]), V: showValue(f.Values[i])}
	}
	if !sameBag(arranged, expectedItems(c.Items)) {
		return vh.Verdict{OK: false, Key: "find:" + c.Build + ":items-changed",
			Msg: fmt.Sprintf("%s: building the feature changed its items: %s", c.Desc, showItems(arranged))}
	}
	stats := map[string]int{}
	for _, p := range c.Probes {
		key, err := p.Key.goValue()
		if err != nil {
			return vh.Fail("harness-json", "%v", err)
		}
		var v interface{}
		var ok bool
		var vs []interface{}
		if pn := vh.Catch(func() {
			v, ok = look.FindValue(key)
			vs = look.FindValues(key, nil)
		}); pn != "" {
			return vh.Verdict{OK: false, Key: "find:" + c.Build + ":panic " + siteOf(pn), Msg: fmt.Sprintf("%s key %s: %s", c.Desc, showTV(p.Key), pn)}
		}
		stats["lookups"] += 2
		all := make([]string, len(p.All))
		for i := range p.All {
			all[i] = showTV(p.All[i])
		}
		got := make([]string, len(vs))
		for i := range vs {
			got[i] = showValue(vs[i])
		}
		where := fmt.Sprintf("%s, key %s, feature arranged as %s", c.Desc, showTV(p.Key), showItems(arranged))
		if ok != p.Found {
			return vh.Verdict{OK: false, Key: fmt.Sprintf("find:%s:FindValue found=%v want %v", c.Build, ok, p.Found),
				Msg: fmt.Sprintf("%s: FindValue found=%v, a linear scan says %v", where, ok, p.Found)}
		}
		if exact {
			if ok && showValue(v) != showTV(p.First) {
				return vh.Verdict{OK: false, Key: "find:" + c.Build + ":FindValue value",
					Msg: fmt.Sprintf("%s: FindValue = %s, a linear scan gives %s", where, showValue(v), showTV(p.First))}
			}
			if strings.Join(got, " ") != strings.Join(all, " ") {
				return vh.Verdict{OK: false, Key: "find:" + c.Build + ":FindValues",
					Msg: fmt.Sprintf("%s: FindValues = %v, a linear scan gives %v", where, got, all)}
			}
		} else {
			// compare with a linear scan of the arrangement the feature really has
			first, scan := "", []string{}
			for _, it := range arranged {
				if it.K == showTV(p.Key) {
					if len(scan) == 0 {
						first = it.V
					}
					scan = append(scan, it.V)
				}
			}
			if ok && showValue(v) != first {
				return vh.Verdict{OK: false, Key: "find:" + c.Build + ":FindValue value",
					Msg: fmt.Sprintf("%s: FindValue = %s, a linear scan gives %s", where, showValue(v), first)}
			}
			if strings.Join(got, " ") != strings.Join(scan, " ") {
				return vh.Verdict{OK: false, Key: "find:" + c.Build + ":FindValues",
					Msg: fmt.Sprintf("%s: FindValues = %v, a linear scan gives %v", where, got, scan)}
			}
			// and, whatever the arrangement, with the specification's multiset
			sort.Strings(got)
			sort.Strings(all)
			if strings.Join(got, " ") != strings.Join(all, " ") {
				return vh.Verdict{OK: false, Key: "find:" + c.Build + ":FindValues multiset",
					Msg: fmt.Sprintf("%s: FindValues = %v, specification (any order) %v", where, got, all)}
			}
		}
	}
	return vh.Verdict{OK: true, Stats: stats}
}

// sortedView is a b6.CollectionFeature identical to the wrapped one except that it says it is sorted.
type sortedView struct {
	b6.CollectionFeature
}

func (s sortedView) IsSortedByKey() bool { return true }
