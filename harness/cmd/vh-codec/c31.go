// C31: feature IDs through every textual and wire encoding, shell aliases, and the order.
// Cases are the ID classes / structured IDs / alias tokens / order sample exported by spec/IDs.tla.
package main

import (
	"encoding/json"
	"fmt"
	"math/rand"
	"sort"
	"strings"

	"diagonal.works/b6"
	"diagonal.works/b6/api"
	"diagonal.works/b6/ingest/compact"
	pb "diagonal.works/b6/proto"
	"google.golang.org/protobuf/proto"
	"gopkg.in/yaml.v2"
	"verif/harness/vh"
)

type idCase struct {
	ID       int             `json:"id"`
	Kind     string          `json:"kind"` // id | postcode | ons | alias | order
	Shape    json.RawMessage `json:"shape"`
	Variants int             `json:"variants"`
	Corrupt  bool            `json:"corrupt,omitempty"`
}

type idS struct {
	T     int      `json:"t"`
	Type  string   `json:"type"`
	Ns    string   `json:"ns"`
	NsIdx int      `json:"nsidx"`
	Class string   `json:"class"`
	V     int      `json:"v"`
	Shell bool     `json:"shell"`
	Abbr  bool     `json:"abbr"`
	Alias []string `json:"alias"`
}

type postcodeS struct {
	Len   int    `json:"len"`
	Chars string `json:"chars"`
}

type onsS struct {
	Letter string `json:"letter"`
	Number string `json:"number"`
	Year   int    `json:"year"`
}

type aliasS struct {
	Prefix []string `json:"prefix"`
	Type   string   `json:"type"`
	Ns     string   `json:"ns"`
	Class  string   `json:"class"`
}

type orderS struct {
	IDs []struct {
		T     int    `json:"t"`
		Ns    string `json:"ns"`
		NsIdx int    `json:"nsidx"`
		V     int    `json:"v"`
	} `json:"ids"`
	Less   [][]bool `json:"less"`
	NsList []struct {
		Name  string `json:"name"`
		Class string `json:"class"`
	} `json:"nslist"`
}

// concreteNs: the spec's namespace names are ASCII; class "unicode" substitutes a non-ASCII letter for z.
func concreteNs(name, class string) b6.Namespace {
	if class == "unicode" {
		return b6.Namespace(strings.ReplaceAll(name, "z", "ä"))
	}
	return b6.Namespace(name)
}

type idChecker struct {
	col     *collector
	corrupt bool
}

// expect compares a decoded ID with the original.
func (c *idChecker) expect(enc string, sig string, id, got b6.FeatureID, text string) {
	c.col.runs++
	want := id
	if c.corrupt {
		want.Value++
	}
	if got != want {
		c.col.fail("id|"+enc+"|"+sig, "%s: %v -> %q -> %v", enc, id, text, got)
	}
}

func (c *idChecker) guard(enc, sig string, id b6.FeatureID, f func()) {
	if pm := vh.Catch(f); pm != "" {
		c.col.fail("id|"+enc+"|panics@"+panicSite(pm)+"|"+sig, "%s panicked for %v: %s", enc, id, pm)
	}
}

// encodings runs one concrete ID through every encoding in its domain.
// abbr: the abbreviated (alias) shell form is in the domain; shell: the namespace is lexable by the shell.
func (c *idChecker) encodings(id b6.FeatureID, sig string, abbr bool, shell bool) {
	if !id.IsValid() {
		c.col.fail("id|harness|generated an invalid ID|"+sig, "harness generated an invalid ID %v", id)
		return
	}
	// text
	c.guard("String/FeatureIDFromString", sig, id, func() {
		s := id.String()
		c.expect("String/FeatureIDFromString", sig, id, b6.FeatureIDFromString(s), s)
		c.expect("String/FeatureIDFromString(leading slash)", sig, id, b6.FeatureIDFromString("/"+s), "/"+s)
	})
	// JSON: alone, in a struct, in a slice
	c.guard("JSON", sig, id, func() {
		bs, err := json.Marshal(id)
		var got b6.FeatureID
		if err == nil {
			err = json.Unmarshal(bs, &got)
		}
		if err != nil {
			c.col.fail("id|JSON|error|"+sig, "JSON round trip of %v failed: %v", id, err)
			return
		}
		c.expect("JSON", sig, id, got, string(bs))
		type holder struct {
			ID  b6.FeatureID   `json:"id"`
			IDs []b6.FeatureID `json:"ids"`
		}
		bs, err = json.Marshal(holder{ID: id, IDs: []b6.FeatureID{id, id}})
		var h holder
		if err == nil {
			err = json.Unmarshal(bs, &h)
		}
		if err != nil || len(h.IDs) != 2 {
			c.col.fail("id|JSON(struct)|error|"+sig, "JSON round trip of a struct holding %v failed: %v", id, err)
			return
		}
		c.expect("JSON(struct)", sig, id, h.ID, string(bs))
		c.expect("JSON(slice)", sig, id, h.IDs[1], string(bs))
	})
	// YAML: alone, in a struct, as an expression, as a typed ID
	c.guard("YAML", sig, id, func() {
		bs, err := yaml.Marshal(id)
		var got b6.FeatureID
		if err == nil {
			err = yaml.Unmarshal(bs, &got)
		}
		if err != nil {
			c.col.fail("id|YAML|error|"+sig, "YAML round trip of %v failed: %v", id, err)
			return
		}
		c.expect("YAML", sig, id, got, string(bs))
		type holder struct {
			ID  b6.FeatureID   `yaml:"id"`
			IDs []b6.FeatureID `yaml:"ids"`
		}
		bs, err = yaml.Marshal(holder{ID: id, IDs: []b6.FeatureID{id}})
		var h holder
		if err == nil {
			err = yaml.Unmarshal(bs, &h)
		}
		if err != nil || len(h.IDs) != 1 {
			c.col.fail("id|YAML(struct)|error|"+sig, "YAML round trip of a struct holding %v failed: %v (%s)", id, err, bs)
			return
		}
		c.expect("YAML(struct)", sig, id, h.ID, string(bs))
		c.expect("YAML(slice)", sig, id, h.IDs[0], string(bs))
		bs, err = yaml.Marshal(b6.FeatureIDExpression(id))
		var ge b6.FeatureIDExpression
		if err == nil {
			err = yaml.Unmarshal(bs, &ge)
		}
		if err != nil {
			c.col.fail("id|YAML(FeatureIDExpression)|error|"+sig, "YAML round trip of the expression %v failed: %v", id, err)
		} else {
			c.expect("YAML(FeatureIDExpression)", sig, id, b6.FeatureID(ge), string(bs))
		}
		switch id.Type {
		case b6.FeatureTypeArea:
			bs, err = yaml.Marshal(id.ToAreaID())
			var g b6.AreaID
			if err == nil {
				err = yaml.Unmarshal(bs, &g)
			}
			if err != nil {
				c.col.fail("id|YAML(AreaID)|error|"+sig, "YAML round trip of the AreaID %v failed: %v", id, err)
			} else {
				c.expect("YAML(AreaID)", sig, id, g.FeatureID(), string(bs))
			}
		case b6.FeatureTypeRelation:
			bs, err = yaml.Marshal(id.ToRelationID())
			var g b6.RelationID
			if err == nil {
				err = yaml.Unmarshal(bs, &g)
			}
			if err != nil {
				c.col.fail("id|YAML(RelationID)|error|"+sig, "YAML round trip of the RelationID %v failed: %v", id, err)
			} else {
				c.expect("YAML(RelationID)", sig, id, g.FeatureID(), string(bs))
			}
		case b6.FeatureTypeCollection:
			bs, err = yaml.Marshal(id.ToCollectionID())
			var g b6.CollectionID
			if err == nil {
				err = yaml.Unmarshal(bs, &g)
			}
			if err != nil {
				c.col.fail("id|YAML(CollectionID)|error|"+sig, "YAML round trip of the CollectionID %v failed: %v", id, err)
			} else {
				c.expect("YAML(CollectionID)", sig, id, g.FeatureID(), string(bs))
			}
		}
	})
	// protobuf, through the wire
	c.guard("proto", sig, id, func() {
		p := b6.NewProtoFromFeatureID(id)
		c.expect("proto(message)", sig, id, b6.NewFeatureIDFromProto(p), fmt.Sprint(p))
		bs, err := proto.Marshal(p)
		var q pb.FeatureIDProto
		if err == nil {
			err = proto.Unmarshal(bs, &q)
		}
		if err != nil {
			c.col.fail("id|proto|error|"+sig, "proto round trip of %v failed: %v", id, err)
			return
		}
		c.expect("proto(wire)", sig, id, b6.NewFeatureIDFromProto(&q), fmt.Sprintf("%x", bs))
	})
	// shell tokens
	forms := []bool{false}
	if abbr {
		forms = append(forms, true)
	}
	for _, ab := range forms {
		enc := "shell token"
		if ab {
			enc = "shell token(abbreviated)"
		}
		c.guard(enc, sig, id, func() {
			text := api.UnparseFeatureID(id, ab)
			got, err := api.ParseFeatureIDToken(text)
			if err != nil {
				c.col.fail("id|"+enc+"|error|"+sig, "%v prints as %q which does not parse: %v", id, text, err)
				return
			}
			c.expect(enc, sig, id, got, text)
			if shell {
				e, err := api.ParseExpression(text)
				if err != nil {
					c.col.fail("id|"+enc+" via ParseExpression|error|"+sig, "%v prints as %q which the shell parser rejects: %v", id, text, err)
					return
				}
				ge, ok := e.AnyExpression.(b6.FeatureIDExpression)
				if !ok {
					c.col.fail("id|"+enc+" via ParseExpression|not an ID|"+sig, "%q parses to %T", text, e.AnyExpression)
					return
				}
				c.expect(enc+" via ParseExpression", sig, id, b6.FeatureID(ge), text)
			}
		})
	}
	if abbr && shell {
		c.guard("UnparseExpression/ParseExpression", sig, id, func() {
			text, ok := api.UnparseExpression(b6.Expression{AnyExpression: b6.FeatureIDExpression(id)})
			if !ok {
				c.col.fail("id|UnparseExpression|fails|"+sig, "UnparseExpression of the literal %v failed", id)
				return
			}
			e, err := api.ParseExpression(text)
			if err != nil {
				c.col.fail("id|UnparseExpression/ParseExpression|error|"+sig, "%v unparses to %q which does not parse: %v", id, text, err)
				return
			}
			ge, _ := e.AnyExpression.(b6.FeatureIDExpression)
			c.expect("UnparseExpression/ParseExpression", sig, id, b6.FeatureID(ge), text)
		})
	}
	// typed IDs
	c.guard("typed IDs", sig, id, func() {
		switch id.Type {
		case b6.FeatureTypeArea:
			var t b6.AreaID
			if err := t.FromFeatureID(id); err != nil {
				c.col.fail("id|AreaID.FromFeatureID|error|"+sig, "%v", err)
			}
			c.expect("AreaID", sig, id, t.FeatureID(), t.String())
			c.expect("AreaID.String", sig, id, b6.FeatureIDFromString(t.String()), t.String())
		case b6.FeatureTypeRelation:
			var t b6.RelationID
			if err := t.FromFeatureID(id); err != nil {
				c.col.fail("id|RelationID.FromFeatureID|error|"+sig, "%v", err)
			}
			c.expect("RelationID", sig, id, t.FeatureID(), t.String())
			c.expect("RelationID.String", sig, id, b6.FeatureIDFromString(t.String()), t.String())
		case b6.FeatureTypeCollection:
			var t b6.CollectionID
			if err := t.FromFeatureID(id); err != nil {
				c.col.fail("id|CollectionID.FromFeatureID|error|"+sig, "%v", err)
			}
			c.expect("CollectionID", sig, id, t.FeatureID(), t.String())
		}
	})
}

const alnum = "0123456789ABCDEFGHIJKLMNOPQRSTUVWXYZ"

func postcodeOf(s postcodeS, rng *rand.Rand, canonical bool) string {
	b := make([]byte, s.Len)
	for i := range b {
		switch s.Chars {
		case "digits-low":
			b[i] = '0'
		case "digits-high":
			b[i] = '9'
		case "letters-low":
			b[i] = 'A'
		case "letters-high":
			b[i] = 'Z'
		default:
			if canonical {
				b[i] = "N1C4AB7"[i]
			} else {
				b[i] = alnum[rng.Intn(len(alnum))]
			}
		}
	}
	return string(b)
}

func onsNumber(class string, rng *rand.Rand, canonical bool) int {
	switch class {
	case "zero":
		return 0
	case "one":
		return 1
	case "max":
		return 99999999
	}
	if canonical {
		return 1000953
	}
	return 2 + rng.Intn(99999996)
}

func typeOfName(s string) b6.FeatureType { return b6.FeatureTypeFromString(s) }

func runIDCase(data json.RawMessage) vh.Verdict {
	var c idCase
	if err := json.Unmarshal(data, &c); err != nil {
		return vh.Fail("harness-json", "bad case: %v", err)
	}
	col := &collector{}
	ck := &idChecker{col: col, corrupt: c.Corrupt}
	rng := rand.New(rand.NewSource(vh.Seed*7919 + int64(c.ID)))
	bad := func(err error) vh.Verdict { return vh.Fail("harness-json", "bad %s shape: %v", c.Kind, err) }
	for variant := 0; variant <= c.Variants; variant++ {
		cc := &conc{rng: rng, canonical: variant == 0}
		switch c.Kind {
		case "id":
			var s idS
			if err := json.Unmarshal(c.Shape, &s); err != nil {
				return bad(err)
			}
			id := b6.FeatureID{Type: b6.FeatureType(s.T), Namespace: concreteNs(s.Ns, s.Class), Value: cc.val(s.V)}
			if id.Type.String() != s.Type {
				return vh.Fail("harness-type", "type %d is %q in the code, %q in the spec", s.T, id.Type.String(), s.Type)
			}
			sig := fmt.Sprintf("type=%s|ns=%s|v=class%d", s.Type, s.Class, s.V)
			ck.encodings(id, sig, s.Abbr, s.Shell)
			if s.Abbr && len(s.Alias) > 0 && strings.HasPrefix(api.UnparseFeatureID(id, true), "/"+strings.Join(s.Alias, "/")+"/") {
				col.count("alias_forms_printed") // evidence that the alias form was exercised (not a requirement)
			}
		case "postcode":
			var s postcodeS
			if err := json.Unmarshal(c.Shape, &s); err != nil {
				return bad(err)
			}
			pc := postcodeOf(s, rng, variant == 0)
			sig := fmt.Sprintf("postcode|len=%d|chars=%s", s.Len, s.Chars)
			id := b6.PointIDFromGBPostcode(pc)
			if !id.IsValid() {
				col.fail("id|PointIDFromGBPostcode|invalid|"+sig, "PointIDFromGBPostcode(%q) is invalid", pc)
				continue
			}
			col.runs++
			if back, ok := b6.PostcodeFromPointID(id); !ok || back != pc || c.Corrupt {
				col.fail("id|PostcodeFromPointID|"+sig, "postcode %q -> %v -> %q (ok=%v)", pc, id, back, ok)
			}
			ck.encodings(id, sig, true, true)
			if text := api.UnparseFeatureID(id, true); text != "/gb/codepoint/"+strings.ToLower(pc) {
				// the alias named by the property must be the printed form of a postcode ID
				col.fail("id|shell token(abbreviated)|postcode alias not used|"+sig, "%v prints as %q", id, text)
			}
		case "ons":
			var s onsS
			if err := json.Unmarshal(c.Shape, &s); err != nil {
				return bad(err)
			}
			code := fmt.Sprintf("%s%08d", s.Letter, onsNumber(s.Number, rng, variant == 0))
			sig := fmt.Sprintf("ons|letter=%s|number=%s|year=%d", s.Letter, s.Number, s.Year)
			for _, t := range []b6.FeatureType{b6.FeatureTypeArea, b6.FeatureTypePoint, b6.FeatureTypeRelation} {
				id := b6.FeatureIDFromUKONSCode(code, s.Year, t)
				if !id.IsValid() || id.Type != t {
					col.fail("id|FeatureIDFromUKONSCode|invalid|"+sig, "FeatureIDFromUKONSCode(%q, %d, %s) = %v", code, s.Year, t, id)
					continue
				}
				col.runs++
				if bc, by, ok := b6.UKONSCodeFromFeatureID(id); !ok || bc != code || by != s.Year || c.Corrupt {
					col.fail("id|UKONSCodeFromFeatureID|"+sig, "ONS code %q/%d -> %v -> %q/%d (ok=%v)", code, s.Year, id, bc, by, ok)
				}
				ck.encodings(id, sig+"|type="+t.String(), true, true)
				if t == b6.FeatureTypeArea {
					if text := api.UnparseFeatureID(id, true); text != fmt.Sprintf("/uk/ons/%d/%s", s.Year, code) {
						col.fail("id|shell token(abbreviated)|ons alias not used|"+sig, "%v prints as %q", id, text)
					}
				}
			}
		case "alias":
			var s aliasS
			if err := json.Unmarshal(c.Shape, &s); err != nil {
				return bad(err)
			}
			prefix := "/" + strings.Join(s.Prefix, "/") + "/"
			var texts []string
			switch s.Class {
			case "postcode":
				for _, p := range []postcodeS{{5, "mixed"}, {6, "mixed"}, {7, "mixed"}} {
					texts = append(texts, prefix+strings.ToLower(postcodeOf(p, rng, variant == 0)))
				}
			case "ons":
				texts = append(texts, prefix+fmt.Sprintf("2011/E%08d", onsNumber("mid", rng, variant == 0)), prefix+"1900/W00000000", prefix+"2155/S99999999")
			default:
				for k := 0; k < 8; k++ {
					texts = append(texts, prefix+u64(cc.val(k)))
				}
			}
			for _, text := range texts {
				sig := "alias=" + prefix
				col.runs++
				if pm := vh.Catch(func() {
					id, err := api.ParseFeatureIDToken(text)
					if err != nil || !id.IsValid() {
						col.fail("id|alias token|does not parse|"+sig, "%q does not parse to a valid ID: %v %v", text, id, err)
						return
					}
					back := api.UnparseFeatureID(id, true)
					if back != text || c.Corrupt {
						col.fail("id|alias token|prints differently|"+sig, "%q parses to %v which prints as %q", text, id, back)
					}
					e, err := api.ParseExpression(text)
					if err != nil {
						col.fail("id|alias token via ParseExpression|error|"+sig, "%q: %v", text, err)
					} else if ge, ok := e.AnyExpression.(b6.FeatureIDExpression); !ok || b6.FeatureID(ge) != id {
						col.fail("id|alias token via ParseExpression|differs|"+sig, "%q lexes to %v, ParseFeatureIDToken gives %v", text, e.AnyExpression, id)
					}
				}); pm != "" {
					col.fail("id|alias token|panics@"+panicSite(pm)+"|"+sig, "%q: %s", text, pm)
				}
			}
		case "order":
			var s orderS
			if err := json.Unmarshal(c.Shape, &s); err != nil {
				return bad(err)
			}
			runOrder(col, cc, &s, c.Corrupt)
		default:
			return vh.Fail("harness-kind", "unknown kind %q", c.Kind)
		}
	}
	return col.verdict()
}

func runOrder(col *collector, cc *conc, s *orderS, corrupt bool) {
	// the concretisation must be order preserving: the spec's namespace list has to be sorted the way Go
	// (and b6.Namespace <) sorts strings, after the substitution of non-ASCII letters
	for i := 1; i < len(s.NsList); i++ {
		if !(concreteNs(s.NsList[i-1].Name, s.NsList[i-1].Class) < concreteNs(s.NsList[i].Name, s.NsList[i].Class)) {
			col.fail("harness|IDs.tla NsList is not sorted", "namespace %q is not below %q", s.NsList[i-1].Name, s.NsList[i].Name)
			return
		}
	}
	classOf := map[string]string{}
	for _, n := range s.NsList {
		classOf[n.Name] = n.Class
	}
	vals := map[int]uint64{}
	ids := make([]b6.FeatureID, len(s.IDs))
	for i, a := range s.IDs {
		if _, ok := vals[a.V]; !ok {
			vals[a.V] = cc.val(a.V)
		}
		ids[i] = b6.FeatureID{Type: b6.FeatureType(a.T), Namespace: concreteNs(a.Ns, classOf[a.Ns]), Value: vals[a.V]}
	}
	n := len(ids)
	sig := func(i, j int) string {
		a, b := s.IDs[i], s.IDs[j]
		rel := func(x, y int) string {
			switch {
			case x < y:
				return "<"
			case x > y:
				return ">"
			}
			return "="
		}
		return fmt.Sprintf("type%stype,ns%sns,v%sv", rel(a.T, b.T), rel(a.NsIdx, b.NsIdx), rel(a.V, b.V))
	}
	// 1. the real Less against the spec's Less, all ordered pairs
	for i := 0; i < n; i++ {
		for j := 0; j < n; j++ {
			col.runs++
			want := s.Less[i][j]
			if corrupt && i == 0 && j == 1 {
				want = !want
			}
			if got := ids[i].Less(ids[j]); got != want {
				col.fail("order|FeatureID.Less differs from the spec|"+sig(i, j), "%v.Less(%v) = %v, spec %v", ids[i], ids[j], got, want)
			}
		}
	}
	// 2. strict total order axioms on the real function
	for i := 0; i < n; i++ {
		if ids[i].Less(ids[i]) {
			col.fail("order|not irreflexive", "%v.Less(itself)", ids[i])
		}
		for j := 0; j < n; j++ {
			lij, lji := ids[i].Less(ids[j]), ids[j].Less(ids[i])
			if lij && lji {
				col.fail("order|not asymmetric|"+sig(i, j), "%v and %v are each below the other", ids[i], ids[j])
			}
			if ids[i] != ids[j] && !lij && !lji {
				col.fail("order|not total|"+sig(i, j), "%v and %v are different and unordered", ids[i], ids[j])
			}
			if !lij {
				continue
			}
			for k := 0; k < n; k++ {
				if ids[j].Less(ids[k]) && !ids[i].Less(ids[k]) {
					col.fail("order|not transitive|"+sig(i, j)+";"+sig(j, k), "%v < %v < %v but not %v < %v", ids[i], ids[j], ids[k], ids[i], ids[k])
				}
			}
		}
	}
	// 3. sort.Sort(b6.FeatureIDs) yields the spec's order
	sorted := append(b6.FeatureIDs(nil), ids...)
	rand.New(rand.NewSource(vh.Seed)).Shuffle(len(sorted), func(i, j int) { sorted[i], sorted[j] = sorted[j], sorted[i] })
	sort.Sort(sorted)
	rank := make([]int, n) // number of sample IDs below i, by the spec
	for i := 0; i < n; i++ {
		for j := 0; j < n; j++ {
			if s.Less[j][i] {
				rank[i]++
			}
		}
	}
	for i := 0; i < n; i++ {
		if sorted[rank[i]] != ids[i] {
			col.fail("order|sort.Sort(FeatureIDs) differs from the spec", "position %d holds %v, spec %v", rank[i], sorted[rank[i]], ids[i])
			break
		}
	}
	// 4. the compact index's order: (CombineTypeAndNamespace(type, code), value) with the namespace table the
	//    index builds from the namespaces it holds
	nsSet := map[b6.Namespace]bool{}
	for _, id := range ids {
		nsSet[id.Namespace] = true
	}
	var nss []b6.Namespace
	for ns := range nsSet {
		nss = append(nss, ns)
	}
	sort.Slice(nss, func(i, j int) bool { return nss[i] > nss[j] }) // handed over unsorted
	if pm := vh.Catch(func() {
		var nt compact.NamespaceTable
		nt.FillFromNamespaces(nss)
		var cids compact.FeatureIDs
		var at []int
		for i, id := range ids {
			if id.Type < b6.FeatureTypeEnd {
				cids.Append(compact.EncodeFeatureID(id, &nt))
				at = append(at, i)
			}
		}
		for x := 0; x < cids.Len(); x++ {
			if nt.DecodeID(cids.At(x)) != ids[at[x]] {
				col.fail("order|compact ID does not decode to the ID", "%v -> %v -> %v", ids[at[x]], cids.At(x), nt.DecodeID(cids.At(x)))
			}
			for y := 0; y < cids.Len(); y++ {
				col.runs++
				if cids.Less(x, y) != ids[at[x]].Less(ids[at[y]]) {
					col.fail("order|compact FeatureIDs.Less differs from FeatureID.Less|"+sig(at[x], at[y]), "%v vs %v: compact %v, b6 %v", ids[at[x]], ids[at[y]], cids.Less(x, y), ids[at[x]].Less(ids[at[y]]))
				}
				rx := compact.Reference{TypeAndNamespace: compact.CombineTypeAndNamespace(cids.At(x).Type, cids.At(x).Namespace), Value: cids.At(x).Value}
				ry := compact.Reference{TypeAndNamespace: compact.CombineTypeAndNamespace(cids.At(y).Type, cids.At(y).Namespace), Value: cids.At(y).Value}
				if (compact.References{rx, ry}).Less(0, 1) != ids[at[x]].Less(ids[at[y]]) {
					col.fail("order|compact References.Less differs from FeatureID.Less|"+sig(at[x], at[y]), "%v vs %v", ids[at[x]], ids[at[y]])
				}
			}
		}
	}); pm != "" {
		col.fail("order|compact order panics@"+panicSite(pm), "%s", pm)
	}
	// 5. the typed IDs order like the feature IDs of their type
	for i := 0; i < n; i++ {
		for j := 0; j < n; j++ {
			if ids[i].Type != ids[j].Type {
				continue
			}
			want := ids[i].Less(ids[j])
			switch ids[i].Type {
			case b6.FeatureTypeArea:
				if ids[i].ToAreaID().Less(ids[j].ToAreaID()) != want {
					col.fail("order|AreaID.Less differs from FeatureID.Less|"+sig(i, j), "%v vs %v", ids[i], ids[j])
				}
			case b6.FeatureTypeRelation:
				if ids[i].ToRelationID().Less(ids[j].ToRelationID()) != want {
					col.fail("order|RelationID.Less differs from FeatureID.Less|"+sig(i, j), "%v vs %v", ids[i], ids[j])
				}
			case b6.FeatureTypeCollection:
				if ids[i].ToCollectionID().Less(ids[j].ToCollectionID()) != want {
					col.fail("order|CollectionID.Less differs from FeatureID.Less|"+sig(i, j), "%v vs %v", ids[i], ids[j])
				}
			}
		}
	}
}
