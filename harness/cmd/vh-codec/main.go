// vh-codec: executes the shapes enumerated by spec/Codec.tla on the real compact record codecs (C11)
// and the ID classes enumerated by spec/IDs.tla on the real feature ID conversions (C31).
package main

import (
	"encoding/json"
	"fmt"
	"math/rand"
	"os"
	"runtime"
	"runtime/debug"
	"sort"
	"strings"
	"time"

	"verif/harness/vh"
)

// ---------------------------------------------------------------------------------------------
// failures: one case can exhibit several distinct failures (different codec pairs); every one is
// reported with its own canonical key in Verdict.Obs so that a known finding never hides a new one.

type failure struct {
	Key string `json:"key"`
	Msg string `json:"msg"`
}

type collector struct {
	fails []failure
	seen  map[string]bool
	runs  int // round trips executed on the real code
	extra map[string]int
}

func (c *collector) count(k string) {
	if c.extra == nil {
		c.extra = map[string]int{}
	}
	c.extra[k]++
}

func (c *collector) fail(key, format string, args ...interface{}) {
	if c.seen == nil {
		c.seen = map[string]bool{}
	}
	if c.seen[key] {
		return
	}
	c.seen[key] = true
	c.fails = append(c.fails, failure{Key: key, Msg: fmt.Sprintf(format, args...)})
}

func (c *collector) verdict() vh.Verdict {
	stats := map[string]int{"roundtrips_executed": c.runs}
	for k, n := range c.extra {
		stats[k] = n
	}
	if len(c.fails) == 0 {
		return vh.Verdict{OK: true, Stats: stats}
	}
	sort.Slice(c.fails, func(i, j int) bool { return c.fails[i].Key < c.fails[j].Key })
	return vh.Verdict{OK: false, Key: c.fails[0].Key, Msg: c.fails[0].Msg, Obs: map[string]interface{}{"failures": c.fails}, Stats: stats}
}

// ---------------------------------------------------------------------------------------------
// generic trees and their comparison.  A projection is a tree of map[string]interface{},
// []interface{}, string, bool, int.  Keys starting with "_" are annotations (on the expected side)
// that describe the element for the failure key; they do not take part in the comparison.

type tree = interface{}
type obj = map[string]interface{}
type arr = []interface{}

func u64(v uint64) string { return fmt.Sprintf("%d", v) }

// diff returns "" when equal, else (path pattern with indices replaced by *, annotation of the
// innermost annotated expected object on the path, description of the difference, concrete path).
func diff(want, got tree) (pattern, annot, what, where string) {
	return diffAt(want, got, "", "", "")
}

func diffAt(want, got tree, pattern, where, annot string) (string, string, string, string) {
	switch w := want.(type) {
	case obj:
		g, ok := got.(obj)
		if !ok {
			return pattern, annot, "kind differs", where
		}
		if a, ok := w["_c"].(string); ok {
			annot = a
		}
		keys := make([]string, 0, len(w))
		for k := range w {
			if !strings.HasPrefix(k, "_") {
				keys = append(keys, k)
			}
		}
		sort.Strings(keys)
		for _, k := range keys {
			gv, ok := g[k]
			if !ok {
				return pattern + "." + k, annot, "missing", where + "." + k
			}
			if p, a, wh, wr := diffAt(w[k], gv, pattern+"."+k, where+"."+k, annot); wh != "" {
				return p, a, wh, wr
			}
		}
		for k := range g {
			if _, ok := w[k]; !ok && !strings.HasPrefix(k, "_") {
				return pattern + "." + k, annot, "unexpected", where + "." + k
			}
		}
		return "", "", "", ""
	case arr:
		g, ok := got.(arr)
		if !ok {
			return pattern, annot, "kind differs", where
		}
		if len(w) != len(g) {
			return pattern, annot, fmt.Sprintf("length differs"), fmt.Sprintf("%s (want %d, got %d)", where, len(w), len(g))
		}
		for i := range w {
			if p, a, wh, wr := diffAt(w[i], g[i], pattern+"[*]", fmt.Sprintf("%s[%d]", where, i), annot); wh != "" {
				return p, a, wh, wr
			}
		}
		return "", "", "", ""
	default:
		if fmt.Sprintf("%T:%v", want, want) != fmt.Sprintf("%T:%v", got, got) {
			return pattern, annot, "differs", fmt.Sprintf("%s (want %v, got %v)", where, want, got)
		}
		return "", "", "", ""
	}
}

func show(t tree) string {
	b, _ := json.Marshal(strip(t))
	s := string(b)
	if len(s) > 600 {
		s = s[:600] + "..."
	}
	return s
}

func strip(t tree) tree {
	switch v := t.(type) {
	case obj:
		o := obj{}
		for k, x := range v {
			if !strings.HasPrefix(k, "_") {
				o[k] = strip(x)
			}
		}
		return o
	case arr:
		a := make(arr, len(v))
		for i := range v {
			a[i] = strip(v[i])
		}
		return a
	}
	return t
}

// ---------------------------------------------------------------------------------------------
// concretisation of value classes (the harness side of "classes and ranks"): class k of the spec's
// W = 3 miniature -> a 64-bit value.  canonical = fixed representatives; otherwise seeded jitter
// inside the class (so that deltas between two values of one class have either sign).

type conc struct {
	rng       *rand.Rand
	canonical bool
}

func (c *conc) val(k int) uint64 {
	j := uint64(0)
	if !c.canonical {
		j = c.rng.Uint64()
	}
	switch k {
	case 0:
		return 0
	case 1:
		return 1
	case 2: // small
		if c.canonical {
			return 544908185
		}
		return 2 + j%((1<<31)-2)
	case 3: // bit31
		return (1 << 31) + j%(1<<31)
	case 4: // bit32 .. bit61
		if c.canonical {
			return (1 << 32) | 7
		}
		sh := 32 + j%30
		return (uint64(1) << sh) | (j>>8)%(uint64(1)<<sh)
	case 5: // bit62
		return (1 << 62) + j%(1<<62)
	case 6: // bit63
		if c.canonical {
			return (1 << 63) | 3
		}
		return (1 << 63) + j%(1<<62)
	case 7: // max
		return ^uint64(0) - j%2
	}
	panic(fmt.Sprintf("harness: unknown value class %d", k))
}

// capped: for fields the format cannot represent beyond 2^62 (string ids and roles carry two type
// bits; keys, counts and indices are Go ints): the three largest classes are folded below 2^62.
func (c *conc) capped(k int) uint64 {
	if k >= 5 {
		j := uint64(0)
		if !c.canonical {
			j = c.rng.Uint64()
		}
		return (1 << 61) + uint64(k-5)*(1<<59) + j%(1<<59)
	}
	return c.val(k)
}

// ll: lat/lng class -> E7 coordinates (valid coordinates only: |lat| <= 90, |lng| <= 180 degrees).
func (c *conc) ll(k int) (int32, int32) {
	j := int32(0)
	if !c.canonical {
		j = int32(c.rng.Intn(2001) - 1000)
	}
	switch k {
	case 0:
		return 0, 0
	case 1:
		return 515367727 + j, -1282827 + j
	case 2:
		return -338567800 + j, 1512152000 + j
	case 3:
		return 900000000, 1800000000
	case 4:
		return -900000000, -1800000000
	case 5:
		return 1 + j%2, -1 - j%2
	}
	panic(fmt.Sprintf("harness: unknown lat/lng class %d", k))
}

// ---------------------------------------------------------------------------------------------

func watchMemory() {
	// a mis-decoded length can make the code under test allocate without bound: die (-> "crash" verdict
	// for the case in flight) instead of taking the machine down.
	go func() {
		var m runtime.MemStats
		for {
			time.Sleep(100 * time.Millisecond)
			runtime.ReadMemStats(&m)
			if m.Sys > 3<<30 {
				fmt.Fprintln(os.Stderr, "fatal error: harness memory guard: more than 3 GiB in use (runaway allocation in the code under test)")
				os.Exit(3)
			}
		}
	}()
}

func main() {
	if len(os.Args) > 1 && os.Args[1] == "worker" {
		// a worker is single threaded: keep the Go runtime from starting a GC thread per core in each of the
		// parallel worker processes
		runtime.GOMAXPROCS(2)
		debug.SetGCPercent(400)
		watchMemory()
	}
	vh.RegisterFunc("codec", runCodecCase)
	vh.RegisterFunc("ids", runIDCase)
	vh.Main()
}
