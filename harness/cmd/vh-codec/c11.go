// C11: compact record codecs.  A case is one shape exported by spec/Codec.tla; it is instantiated
// with 64-bit values, in several namespace contexts, for every exported Marshal/Unmarshal pair the
// shape fits, and judged by the spec's two equations: decoded value = encoded value, consumed = written.
package main

import (
	"bytes"
	"encoding/json"
	"fmt"
	"math/rand"
	"sort"
	"strings"

	"diagonal.works/b6"
	"diagonal.works/b6/encoding"
	"diagonal.works/b6/ingest/compact"
	pb "diagonal.works/b6/proto"
	"github.com/golang/geo/s2"
	"verif/harness/vh"
)

// ---- shapes as exported by TLC (spec/Codec.tla) ------------------------------------------------

type refS struct {
	Tns int `json:"tns"`
	V   int `json:"v"`
}
type elS struct {
	R   bool `json:"r"`
	Tns int  `json:"tns"`
	V   int  `json:"v"`
}
type tagS struct {
	K int    `json:"k"`
	T string `json:"t"`
	S int    `json:"s"`
	L []elS  `json:"l"`
}
type memberS struct {
	Ty   int `json:"ty"`
	Role int `json:"role"`
	Tns  int `json:"tns"`
	V    int `json:"v"`
}
type polyS struct {
	Refs  []refS `json:"refs"`
	Loops []int  `json:"loops"`
	Pts   []int  `json:"pts"`
}
type geomS struct {
	E     int     `json:"e"`
	Offs  []int   `json:"offs"`
	Paths []refS  `json:"paths"`
	Polys []polyS `json:"polys"`
}
type recS struct {
	Tags    []tagS    `json:"tags"`
	Path    *refS     `json:"path"`
	Paths   []refS    `json:"paths"`
	Rels    []refS    `json:"rels"`
	Areas   []refS    `json:"areas"`
	Geom    *geomS    `json:"geom"`
	Members []memberS `json:"members"`
	Primary int       `json:"primary"`
}
type nsIdxS struct {
	Tns int `json:"tns"`
	Idx int `json:"idx"`
}
type plhS struct {
	Tok int      `json:"tok"`
	N   int      `json:"n"`
	Nss []nsIdxS `json:"nss"`
}
type tokenMapS struct {
	N      int    `json:"n"`      // number of tokens
	Idx    string `json:"idx"`    // "seq" | "big" | "same"
	Tokens string `json:"tokens"` // "distinct" | "prefix" | "dup"
}

type codecCase struct {
	ID       int             `json:"id"`
	Kind     string          `json:"kind"`
	Shape    json.RawMessage `json:"shape"`
	Variants int             `json:"variants"`          // jittered concretisations in addition to the canonical one
	Corrupt  bool            `json:"corrupt,omitempty"` // binding self-test: falsify the expectation
}

// ---- namespace contexts ------------------------------------------------------------------------

type nsctx struct {
	name  string
	nt    *compact.NamespaceTable
	nss   compact.Namespaces
	other compact.Namespace // a namespace that is nobody's primary
}

var allCtxs []*nsctx

func contexts() []*nsctx {
	if allCtxs != nil {
		return allCtxs
	}
	{ // the layout every block built by compact.Build uses
		var nt compact.NamespaceTable
		nt.FillFromNamespaces(append(append([]b6.Namespace{}, b6.OSMNamespaces...), b6.NamespacePrivate, b6.NamespaceUI))
		allCtxs = append(allCtxs, &nsctx{name: "osm", nt: &nt, nss: compact.OSMNamespaces(&nt), other: nt.Encode(b6.NamespaceUI)})
	}
	{ // one namespace shared by all four types: primaries differ only in the type bits
		var nt compact.NamespaceTable
		nt.FillFromNamespaces([]b6.Namespace{b6.NamespacePrivate, b6.NamespaceUI, b6.NamespaceOSMNode})
		var nss compact.Namespaces
		for t := b6.FeatureTypeBegin; t < b6.FeatureTypeEnd; t++ {
			nss[t] = nt.Encode(b6.NamespacePrivate)
		}
		allCtxs = append(allCtxs, &nsctx{name: "shared", nt: &nt, nss: nss, other: nt.Encode(b6.NamespaceUI)})
	}
	{ // many namespaces: encoded namespace numbers up to the 13 bit limit (multi-byte varints)
		list := make([]b6.Namespace, 0, 8100)
		for i := 0; i < 8100; i++ {
			list = append(list, b6.Namespace(fmt.Sprintf("verif.example/ns/%05d", i)))
		}
		var nt compact.NamespaceTable
		nt.FillFromNamespaces(list)
		var nss compact.Namespaces
		nss[b6.FeatureTypePoint] = nt.Encode("verif.example/ns/00062")
		nss[b6.FeatureTypePath] = nt.Encode("verif.example/ns/08099")
		nss[b6.FeatureTypeArea] = nt.Encode("verif.example/ns/00127")
		nss[b6.FeatureTypeRelation] = nt.Encode("verif.example/ns/04095")
		allCtxs = append(allCtxs, &nsctx{name: "big", nt: &nt, nss: nss, other: nt.Encode("verif.example/ns/00300")})
	}
	return allCtxs
}

type env struct {
	c   *conc
	ctx *nsctx
	alt int
}

func (e *env) primary(t b6.FeatureType) compact.TypeAndNamespace {
	return compact.CombineTypeAndNamespace(t, e.ctx.nss[t])
}

// tns resolves the spec's namespace code against the primary type t of the field the reference is in.
func (e *env) tns(code int, t b6.FeatureType) compact.TypeAndNamespace {
	switch code {
	case 100:
		return e.primary(t)
	case 101:
		s := (t + 1) % 4
		return e.primary(s)
	case 9:
		o := t
		if e.alt%2 == 1 {
			o = (t + 2) % 4
		}
		return compact.CombineTypeAndNamespace(o, e.ctx.other)
	case 1, 2, 3, 4:
		return e.primary(b6.FeatureType(code - 1))
	}
	panic(fmt.Sprintf("harness: unknown namespace code %d", code))
}

func (e *env) nsRole(tns compact.TypeAndNamespace) string {
	for t := b6.FeatureTypeBegin; t < b6.FeatureTypeEnd; t++ {
		if tns == e.primary(t) {
			return t.String() + "-primary"
		}
	}
	return "non-primary"
}

// ---- builders ------------------------------------------------------------------------------------

func (e *env) ref(r refS, t b6.FeatureType) compact.Reference {
	return compact.Reference{TypeAndNamespace: e.tns(r.Tns, t), Value: e.c.val(r.V)}
}

func (e *env) refs(l []refS, t b6.FeatureType) compact.References {
	rs := make(compact.References, 0, len(l))
	for _, r := range l {
		rs = append(rs, e.ref(r, t))
	}
	return rs
}

func (e *env) latlng(c int) compact.LatLng {
	lat, lng := e.c.ll(c)
	return compact.LatLng{LatE7: lat, LngE7: lng}
}

func (e *env) lls(l []int) compact.LatLngs {
	out := make(compact.LatLngs, 0, len(l))
	for _, c := range l {
		out = append(out, e.latlng(c))
	}
	return out
}

func (e *env) mixed(l []elS, t b6.FeatureType) compact.ReferencesAndLatLngs {
	out := make(compact.ReferencesAndLatLngs, 0, len(l))
	for _, x := range l {
		if x.R {
			out = append(out, compact.ReferenceAndLatLng{Reference: e.ref(refS{Tns: x.Tns, V: x.V}, t)})
		} else {
			out = append(out, compact.ReferenceAndLatLng{Reference: compact.ReferenceInvald, LatLng: e.latlng(x.V)})
		}
	}
	return out
}

func tagsNeedPrimary(l []tagS) bool {
	for _, t := range l {
		if t.T == "refs" || t.T == "mixed" {
			for _, x := range t.L {
				if x.R && (x.Tns == 100 || x.Tns == 101) {
					return true
				}
			}
		}
	}
	return false
}

func (e *env) tags(l []tagS, t b6.FeatureType) compact.Tags {
	out := make(compact.Tags, 0, len(l))
	for _, x := range l {
		tag := compact.Tag{Key: int(e.c.capped(x.K))}
		switch x.T {
		case "str":
			v := compact.Int(e.c.capped(x.S))
			tag.Value = &v
		case "pt":
			v := e.latlng(x.S)
			tag.Value = &v
		case "lls":
			cs := make([]int, 0, len(x.L))
			for _, y := range x.L {
				cs = append(cs, y.V)
			}
			v := e.lls(cs)
			tag.Value = &v
		case "refs":
			rs := make([]refS, 0, len(x.L))
			for _, y := range x.L {
				rs = append(rs, refS{Tns: y.Tns, V: y.V})
			}
			v := e.refs(rs, t)
			tag.Value = &v
		case "mixed":
			v := e.mixed(x.L, t)
			tag.Value = &v
		default:
			panic("harness: unknown tag value kind " + x.T)
		}
		out = append(out, tag)
	}
	return out
}

func (e *env) members(l []memberS, t b6.FeatureType) compact.Members {
	out := make(compact.Members, 0, len(l))
	for _, m := range l {
		out = append(out, compact.Member{Type: b6.FeatureType(m.Ty), Role: int(e.c.capped(m.Role)), ID: e.ref(refS{Tns: m.Tns, V: m.V}, t)})
	}
	return out
}

func ints(l []int) []int {
	out := make([]int, len(l))
	copy(out, l)
	return out
}

func (e *env) polyLL(p polyS) compact.PolygonGeometryLatLngs {
	return compact.PolygonGeometryLatLngs{Loops: ints(p.Loops), Points: e.lls(p.Pts)}
}

func (e *env) geom(g geomS, t b6.FeatureType) compact.AreaGeometry {
	switch g.E {
	case 0:
		return &compact.AreaGeometryReferences{Polygons: ints(g.Offs), Paths: e.refs(g.Paths, t)}
	case 1:
		a := &compact.AreaGeometryLatLngs{Polygons: make([]compact.PolygonGeometryLatLngs, 0, len(g.Polys))}
		for _, p := range g.Polys {
			a.Polygons = append(a.Polygons, e.polyLL(p))
		}
		return a
	case 2:
		a := &compact.AreaGeometryMixed{Polygons: make([]compact.PolygonGeometryMixed, 0, len(g.Polys))}
		for _, p := range g.Polys {
			if len(p.Refs) > 0 {
				a.Polygons = append(a.Polygons, compact.PolygonGeometryMixed{References: compact.PolygonGeometryReferences{Paths: e.refs(p.Refs, t)}})
			} else {
				a.Polygons = append(a.Polygons, compact.PolygonGeometryMixed{LatLngs: e.polyLL(p)})
			}
		}
		return a
	}
	panic("harness: unknown geometry encoding")
}

// ---- projections (with annotations describing each reference for the failure key) ---------------

func deltaClass(v, last uint64) string {
	d := int64(v - last)
	if d >= 1<<62 || d < -(1<<62) {
		return "delta>=2^62"
	}
	return "delta<2^62"
}

// projRefs: delta = the list is delta coded inside the primary namespace p.
func (e *env) projRefs(rs compact.References, p compact.TypeAndNamespace, delta bool) arr {
	out := make(arr, 0, len(rs))
	last := uint64(0)
	for _, r := range rs {
		out = append(out, e.projRef(r, p, delta, &last))
	}
	return out
}

func (e *env) projRef(r compact.Reference, p compact.TypeAndNamespace, delta bool, last *uint64) obj {
	c := "ns=" + e.nsRole(r.TypeAndNamespace)
	if r.TypeAndNamespace == p {
		c = "ns=field-primary"
		if delta {
			c += "," + deltaClass(r.Value, *last)
			*last = r.Value
		} else if r.Value&(1<<63) != 0 {
			c += ",bit63"
		} else {
			c += ",below-bit63"
		}
	}
	return obj{"tns": int(r.TypeAndNamespace), "v": u64(r.Value), "_c": c}
}

func projLL(l compact.LatLng) obj { return obj{"lat": int(l.LatE7), "lng": int(l.LngE7)} }

func projLLs(l compact.LatLngs) arr {
	out := make(arr, 0, len(l))
	for _, x := range l {
		out = append(out, projLL(x))
	}
	return out
}

func (e *env) projMixed(l compact.ReferencesAndLatLngs, p compact.TypeAndNamespace) arr {
	out := make(arr, 0, len(l))
	last := uint64(0)
	for _, x := range l {
		if x.Reference != compact.ReferenceInvald {
			o := e.projRef(x.Reference, p, true, &last)
			o["r"] = true
			out = append(out, o)
		} else {
			o := projLL(x.LatLng)
			o["r"] = false
			out = append(out, o)
		}
	}
	return out
}

func (e *env) projValue(v compact.Value, p compact.TypeAndNamespace) obj {
	switch v := v.(type) {
	case *compact.Int:
		return obj{"t": "str", "s": u64(uint64(*v))}
	case *compact.LatLng:
		return obj{"t": "pt", "ll": projLL(*v)}
	case *compact.LatLngs:
		return obj{"t": "lls", "l": projLLs(*v)}
	case *compact.References:
		return obj{"t": "refs", "l": e.projRefs(*v, p, true)}
	case *compact.ReferencesAndLatLngs:
		return obj{"t": "mixed", "l": e.projMixed(*v, p)}
	case nil:
		return obj{"t": "nil"}
	}
	return obj{"t": fmt.Sprintf("%T", v)}
}

func (e *env) projTags(ts compact.Tags, p compact.TypeAndNamespace) arr {
	out := make(arr, 0, len(ts))
	for _, t := range ts {
		o := e.projValue(t.Value, p)
		o["k"] = u64(uint64(t.Key))
		out = append(out, o)
	}
	return out
}

func (e *env) projMembers(ms compact.Members, p compact.TypeAndNamespace) arr {
	out := make(arr, 0, len(ms))
	for _, m := range ms {
		o := e.projRef(m.ID, p, false, nil)
		o["ty"] = int(m.Type)
		o["role"] = u64(uint64(m.Role))
		out = append(out, o)
	}
	return out
}

func projInts(l []int) arr {
	out := make(arr, 0, len(l))
	for _, x := range l {
		out = append(out, x)
	}
	return out
}

func projPolyLL(p compact.PolygonGeometryLatLngs) obj {
	return obj{"loops": projInts(p.Loops), "pts": projLLs(p.Points)}
}

// projGeom includes what the accessors (Len, PathIDs) report, which is how the world reads a geometry.
func (e *env) projGeom(g compact.AreaGeometry, p compact.TypeAndNamespace) obj {
	var o obj
	switch g := g.(type) {
	case *compact.AreaGeometryReferences:
		o = obj{"e": 0, "offs": projInts(g.Polygons), "paths": e.projRefs(g.Paths, p, true)}
	case *compact.AreaGeometryLatLngs:
		ps := make(arr, 0, len(g.Polygons))
		for _, x := range g.Polygons {
			ps = append(ps, projPolyLL(x))
		}
		o = obj{"e": 1, "polys": ps}
	case *compact.AreaGeometryMixed:
		ps := make(arr, 0, len(g.Polygons))
		for _, x := range g.Polygons {
			if len(x.References.Paths) > 0 {
				ps = append(ps, obj{"refs": e.projRefs(x.References.Paths, p, true)})
			} else {
				ps = append(ps, obj{"ll": projPolyLL(x.LatLngs)})
			}
		}
		o = obj{"e": 2, "polys": ps}
	case nil:
		return obj{"e": "nil"}
	default:
		return obj{"e": fmt.Sprintf("%T", g)}
	}
	n := g.Len()
	o["len"] = n
	by := make(arr, 0, n)
	for i := 0; i < n; i++ {
		ids, ok := g.PathIDs(i)
		if ok {
			l := make(arr, 0, len(ids))
			for _, r := range ids {
				l = append(l, obj{"tns": int(r.TypeAndNamespace), "v": u64(r.Value)})
			}
			by = append(by, obj{"paths": l})
		} else {
			by = append(by, obj{"paths": false})
		}
	}
	o["views"] = by
	return o
}

// ---- the generic round-trip runner -----------------------------------------------------------------

type pair struct {
	kind      string
	name      string
	marshal   func(buf []byte) int
	want      func() tree                                // the encoded value, taken after marshal (Marshal may sort)
	unmarshal func(data []byte, dirt []byte) (tree, int) // decode (after decoding dirt into the same receiver when dirt != nil)
	dirt      func(buf []byte) int                       // encodes a different, larger value of the same type (receiver reuse)
	views     func(data []byte, n int) (string, string)  // accessors on marshalled bytes: (key suffix, message) or ""
}

type H struct {
	col     *collector
	corrupt bool
	b1, b2  []byte
}

func refill(b *[]byte, n int, v byte) []byte {
	if len(*b) != n {
		*b = make([]byte, n)
	}
	for i := range *b {
		(*b)[i] = v
	}
	return *b
}

const bufSize = 2048

func fill(n int, b byte) []byte {
	out := make([]byte, n)
	for i := range out {
		out[i] = b
	}
	return out
}

func panicSite(p string) string {
	if i := strings.LastIndex(p, " @"); i >= 0 {
		return p[i+2:]
	}
	return "unknown"
}

func (h *H) key(p *pair, parts ...string) string {
	return p.kind + "|" + p.name + "|" + strings.Join(parts, "|")
}

func (h *H) run(p pair) {
	h.col.runs++
	buf := refill(&h.b1, bufSize, 0xAA)
	n := 0
	if pm := vh.Catch(func() { n = p.marshal(buf) }); pm != "" {
		h.col.fail(h.key(&p, "marshal panics@"+panicSite(pm)), "%s: Marshal panicked: %s", p.name, pm)
		return
	}
	if n < 0 || n > bufSize {
		h.col.fail(h.key(&p, "marshal length out of range"), "%s: Marshal returned %d", p.name, n)
		return
	}
	want := p.want()
	if h.corrupt {
		want = obj{"corrupted-expectation": true, "was": want}
	}
	var dirt []byte
	variants := []string{"exact", "trailing", "offset"}
	if p.dirt != nil {
		db := refill(&h.b2, bufSize, 0xAA)
		dn := 0
		if pm := vh.Catch(func() { dn = p.dirt(db) }); pm == "" {
			dirt = append([]byte(nil), db[:dn]...)
			dirt = append(dirt, fill(16, 0x55)...)
			variants = append(variants, "dirty")
		}
	}
	reported := false
	for _, v := range variants {
		var data []byte
		var d []byte
		switch v {
		case "exact":
			data = append([]byte(nil), buf[:n]...)
			data = data[:n:n]
		case "trailing":
			data = append(append([]byte(nil), buf[:n]...), fill(24, 0x55)...)
		case "dirty":
			data = append(append([]byte(nil), buf[:n]...), fill(24, 0x55)...)
			d = dirt
		case "offset":
			big := refill(&h.b2, bufSize, 0x55)
			n2 := 0
			if pm := vh.Catch(func() { n2 = p.marshal(big[7:]) }); pm != "" {
				h.col.fail(h.key(&p, "marshal at offset panics@"+panicSite(pm)), "%s: Marshal into buffer[7:] panicked: %s", p.name, pm)
				continue
			}
			if n2 != n || !bytes.Equal(big[7:7+n2], buf[:n]) {
				h.col.fail(h.key(&p, "encoding depends on buffer position"), "%s: Marshal wrote %d bytes at offset 0 and %d different bytes at offset 7", p.name, n, n2)
				continue
			}
			data = big[7 : 7+n+32]
		}
		var got tree
		m := 0
		suffix := ""
		if v != "exact" && !reported {
			suffix = "only with " + v
		}
		if pm := vh.Catch(func() { got, m = p.unmarshal(data, d) }); pm != "" {
			if !reported || v == "exact" {
				parts := []string{"unmarshal panics@" + panicSite(pm)}
				if suffix != "" {
					parts = append(parts, suffix)
				}
				h.col.fail(h.key(&p, parts...), "%s [%s]: Unmarshal panicked: %s (value %s)", p.name, v, pm, show(want))
				reported = true
			}
			continue
		}
		if pattern, annot, what, where := diff(want, got); what != "" {
			if !reported {
				parts := []string{pattern, annot, what}
				if suffix != "" {
					parts = append(parts, suffix)
				}
				h.col.fail(h.key(&p, parts...), "%s [%s]: decoded value differs from the encoded one at %s: encoded %s, decoded %s", p.name, v, where, show(want), show(got))
				reported = true
			}
			continue
		}
		if m != n {
			if !reported {
				parts := []string{fmt.Sprintf("consumed=written%+d", m-n)}
				if suffix != "" {
					parts = append(parts, suffix)
				}
				h.col.fail(h.key(&p, parts...), "%s [%s]: Marshal wrote %d bytes, Unmarshal consumed %d (value %s)", p.name, v, n, m, show(want))
				reported = true
			}
			continue
		}
		if p.views != nil && v != "dirty" {
			var ks, msg string
			if pm := vh.Catch(func() { ks, msg = p.views(data, n) }); pm != "" {
				ks, msg = "view panics@"+panicSite(pm), pm
			}
			if ks != "" && !reported {
				h.col.fail(h.key(&p, ks), "%s [%s]: %s (value %s)", p.name, v, msg, show(want))
				reported = true
			}
		}
	}
}

// ---- dirt: fixed rich values decoded into a receiver before the real record (receiver reuse) --------

var dirtRefs = []refS{{100, 2}, {9, 6}, {100, 3}, {101, 7}, {100, 1}}
var dirtMixed = []elS{{true, 100, 2}, {false, 0, 1}, {true, 9, 6}, {false, 0, 2}, {true, 100, 4}}
var dirtTags = []tagS{
	{K: 3, T: "refs", L: []elS{{true, 100, 2}, {true, 9, 3}, {true, 100, 6}}},
	{K: 4, T: "mixed", L: dirtMixed},
	{K: 1, T: "lls", L: []elS{{false, 0, 1}, {false, 0, 3}, {false, 0, 2}}},
	{K: 2, T: "str", S: 4},
	{K: 5, T: "pt", S: 2},
}
var dirtMembers = []memberS{{1, 2, 100, 2}, {2, 3, 9, 6}, {0, 1, 101, 3}}

// dirtTagsAbs uses absolute namespace codes (for records whose tags have no primary namespace).
var dirtTagsAbs = []tagS{
	{K: 1, T: "lls", L: []elS{{false, 0, 1}, {false, 0, 3}, {false, 0, 2}}},
	{K: 2, T: "str", S: 4},
	{K: 5, T: "pt", S: 2},
	{K: 3, T: "str", S: 1},
}
var dirtRefsAbs = []refS{{1, 2}, {2, 6}, {3, 3}, {4, 7}, {9, 1}, {4, 2}}

// ---- pairs ---------------------------------------------------------------------------------------------

func (h *H) refListPairs(e *env, l []refS, t b6.FeatureType) {
	p := e.primary(t)
	rs := e.refs(l, t)
	dirtv := e.refs(dirtRefs, t)
	h.run(pair{kind: "refs", name: "References.Marshal/Unmarshal",
		marshal: func(b []byte) int { return rs.Marshal(p, b) },
		want:    func() tree { return e.projRefs(rs, p, true) },
		unmarshal: func(d, dirt []byte) (tree, int) {
			var out compact.References
			if dirt != nil {
				out.Unmarshal(p, dirt)
			}
			m := out.Unmarshal(p, d)
			return e.projRefs(out, p, true), m
		},
		dirt: func(b []byte) int { return dirtv.Marshal(p, b) },
		views: func(d []byte, n int) (string, string) {
			if got := compact.MarshalledReferences(d).Len(); got != len(rs) {
				return "MarshalledReferences.Len", fmt.Sprintf("MarshalledReferences.Len() = %d for a list of %d", got, len(rs))
			}
			return "", ""
		}})
	h.run(pair{kind: "refs", name: "References.MarshalWithoutLength/UnmarshalWithoutLength",
		marshal: func(b []byte) int { return rs.MarshalWithoutLength(p, b) },
		want:    func() tree { return e.projRefs(rs, p, true) },
		unmarshal: func(d, dirt []byte) (tree, int) {
			var out compact.References
			if dirt != nil {
				out.UnmarshalWithoutLength(len(dirtv), p, dirt)
			}
			m := out.UnmarshalWithoutLength(len(rs), p, d)
			return e.projRefs(out, p, true), m
		},
		dirt: func(b []byte) int { return dirtv.MarshalWithoutLength(p, b) }})
	pg := compact.PolygonGeometryReferences{Paths: rs}
	h.run(pair{kind: "refs", name: "PolygonGeometryReferences.Marshal/Unmarshal",
		marshal: func(b []byte) int { return pg.Marshal(p, b) },
		want:    func() tree { return e.projRefs(pg.Paths, p, true) },
		unmarshal: func(d, dirt []byte) (tree, int) {
			var out compact.PolygonGeometryReferences
			m := out.Unmarshal(p, d)
			return e.projRefs(out.Paths, p, true), m
		}})
	for i, r := range rs {
		if i >= 3 {
			break
		}
		r := r
		h.run(pair{kind: "refs", name: "Reference.Marshal/Unmarshal",
			marshal: func(b []byte) int { return r.Marshal(p, b) },
			want:    func() tree { return e.projRef(r, p, false, nil) },
			unmarshal: func(d, dirt []byte) (tree, int) {
				out := compact.Reference{TypeAndNamespace: 0x1abc, Value: 77}
				m := out.Unmarshal(p, d)
				return e.projRef(out, p, false, nil), m
			},
			views: func(d []byte, n int) (string, string) {
				if got := compact.MarshalledReference(d).Length(); got != n {
					return "MarshalledReference.Length", fmt.Sprintf("MarshalledReference.Length() = %d, Marshal wrote %d", got, n)
				}
				return "", ""
			}})
	}
}

// fromPathIDs: the constructor of a reference polygon from feature IDs, then its round trip.
func (h *H) fromPathIDs(e *env, l []refS) {
	t := b6.FeatureTypePath
	p := e.primary(t)
	rs := e.refs(l, t)
	ids := make([]b6.FeatureID, 0, len(rs))
	for _, r := range rs {
		typ, ns := r.TypeAndNamespace.Split()
		ids = append(ids, b6.FeatureID{Type: typ, Namespace: e.ctx.nt.Decode(ns), Value: r.Value})
	}
	h.col.runs++
	var pg compact.PolygonGeometryReferences
	k := fmt.Sprintf("refs|PolygonGeometryReferences.FromPathIDs|")
	if pm := vh.Catch(func() { pg.FromPathIDs(ids, e.ctx.nt) }); pm != "" {
		n := "n>=1"
		if len(ids) == 0 {
			n = "n=0"
		}
		h.col.fail(k+"panics@"+panicSite(pm)+"|"+n, "PolygonGeometryReferences.FromPathIDs panicked on %d path IDs: %s", len(ids), pm)
		return
	}
	if pattern, annot, what, where := diff(e.projRefs(rs, p, true), e.projRefs(pg.Paths, p, true)); what != "" {
		h.col.fail(k+pattern+"|"+annot+"|"+what, "FromPathIDs(%v) gave %s at %s", ids, show(e.projRefs(pg.Paths, p, true)), where)
	}
}

func (h *H) llPairs(e *env, l []int) {
	inv := compact.TypeAndNamespaceInvalid
	v := e.lls(l)
	dirtv := e.lls([]int{1, 2, 3, 4, 5})
	h.run(pair{kind: "lls", name: "LatLngs.Marshal/Unmarshal",
		marshal: func(b []byte) int { return v.Marshal(inv, b) },
		want:    func() tree { return projLLs(v) },
		unmarshal: func(d, dirt []byte) (tree, int) {
			var out compact.LatLngs
			if dirt != nil {
				out.Unmarshal(inv, dirt)
			}
			m := out.Unmarshal(inv, d)
			return projLLs(out), m
		},
		dirt: func(b []byte) int { return dirtv.Marshal(inv, b) }})
	h.run(pair{kind: "lls", name: "LatLngs.MarshalWithoutLength/UnmarshalWithoutLength",
		marshal: func(b []byte) int { return v.MarshalWithoutLength(b) },
		want:    func() tree { return projLLs(v) },
		unmarshal: func(d, dirt []byte) (tree, int) {
			var out compact.LatLngs
			m := out.UnmarshalWithoutLength(len(v), d)
			return projLLs(out), m
		}})
	for i, x := range v {
		if i >= 3 {
			break
		}
		x := x
		h.run(pair{kind: "lls", name: "LatLng.Marshal/Unmarshal",
			marshal: func(b []byte) int { return x.Marshal(inv, b) },
			want:    func() tree { return projLL(x) },
			unmarshal: func(d, dirt []byte) (tree, int) {
				out := compact.LatLng{LatE7: 12345, LngE7: -999}
				m := out.Unmarshal(inv, d)
				return projLL(out), m
			}})
	}
	// the same points as one polygon (with and without a hole boundary), as a lat/lng area geometry
	for _, loops := range [][]int{{}, {len(l) / 2}} {
		if len(loops) == 1 && (loops[0] == 0 || len(l) < 2) {
			continue
		}
		pl := compact.PolygonGeometryLatLngs{Loops: ints(loops), Points: e.lls(l)}
		h.run(pair{kind: "lls", name: "PolygonGeometryLatLngs.Marshal/Unmarshal",
			marshal: func(b []byte) int { return pl.Marshal(b) },
			want:    func() tree { return projPolyLL(pl) },
			unmarshal: func(d, dirt []byte) (tree, int) {
				var out compact.PolygonGeometryLatLngs
				if dirt != nil {
					out.Unmarshal(dirt)
				}
				m := out.Unmarshal(d)
				return projPolyLL(out), m
			},
			dirt: func(b []byte) int {
				x := compact.PolygonGeometryLatLngs{Loops: []int{1, 3, 4}, Points: dirtv}
				return x.Marshal(b)
			}})
	}
}

func (h *H) mixedPairs(e *env, l []elS, t b6.FeatureType) {
	p := e.primary(t)
	v := e.mixed(l, t)
	dirtv := e.mixed(dirtMixed, t)
	h.run(pair{kind: "mixed", name: "ReferencesAndLatLngs.Marshal/Unmarshal",
		marshal: func(b []byte) int { return v.Marshal(p, b) },
		want:    func() tree { return e.projMixed(v, p) },
		unmarshal: func(d, dirt []byte) (tree, int) {
			var out compact.ReferencesAndLatLngs
			if dirt != nil {
				out.Unmarshal(p, dirt)
			}
			m := out.Unmarshal(p, d)
			return e.projMixed(out, p), m
		},
		dirt: func(b []byte) int { return dirtv.Marshal(p, b) }})
}

func (h *H) bitsPairs(bits []bool) {
	v := compact.Bits(append([]bool(nil), bits...))
	proj := func(b compact.Bits) tree {
		out := make(arr, 0, len(b))
		for _, x := range b {
			out = append(out, x)
		}
		return out
	}
	h.run(pair{kind: "bits", name: "Bits.Marshal/Unmarshal",
		marshal: func(b []byte) int { return v.Marshal(b) },
		want:    func() tree { return proj(v) },
		unmarshal: func(d, dirt []byte) (tree, int) {
			var out compact.Bits
			if dirt != nil {
				out.Unmarshal(dirt)
			}
			m := out.Unmarshal(d)
			return proj(out), m
		},
		dirt: func(b []byte) int {
			x := make(compact.Bits, 21)
			for i := range x {
				x[i] = true
			}
			return x.Marshal(b)
		}})
}

func (h *H) tagsPairs(e *env, l []tagS, t b6.FeatureType, hasPrimary bool) {
	p := compact.TypeAndNamespaceInvalid
	if hasPrimary {
		p = e.primary(t)
	}
	v := e.tags(l, t)
	dl := dirtTagsAbs
	if hasPrimary {
		dl = dirtTags
	}
	dirtv := e.tags(dl, t)
	h.run(pair{kind: "tags", name: "Tags.Marshal/Unmarshal",
		marshal: func(b []byte) int { return v.Marshal(p, b) },
		want:    func() tree { return e.projTags(v, p) },
		unmarshal: func(d, dirt []byte) (tree, int) {
			var out compact.Tags
			if dirt != nil {
				out.Unmarshal(p, dirt)
			}
			m := out.Unmarshal(p, d)
			return e.projTags(out, p), m
		},
		dirt: func(b []byte) int { return dirtv.Marshal(p, b) }})
	h.marshalledTags(e, v, p)
}

// marshalledTags: the world's view of marshalled tags (compact.MarshalledTags: AllTags, Get).
func (h *H) marshalledTags(e *env, v compact.Tags, p compact.TypeAndNamespace) {
	h.col.runs++
	sm := encoding.StringMap{}
	name := func(i int) string { return fmt.Sprintf("s%d", i) }
	for _, t := range v {
		sm[t.Key] = name(t.Key)
		if s, ok := t.Value.(*compact.Int); ok {
			sm[int(*s)] = name(int(*s))
		}
	}
	buf := fill(bufSize, 0xAA)
	n := 0
	if pm := vh.Catch(func() { n = v.Marshal(p, buf) }); pm != "" {
		return // reported by the Tags pair
	}
	idOf := func(r compact.Reference) tree {
		typ, ns := r.TypeAndNamespace.Split()
		return obj{"id": b6.FeatureID{Type: typ, Namespace: e.ctx.nt.Decode(ns), Value: r.Value}.String()}
	}
	pt := func(l compact.LatLng) tree { return obj{"pt": projLL(l)} }
	wantValue := func(val compact.Value) tree {
		switch x := val.(type) {
		case *compact.Int:
			return obj{"str": name(int(*x))}
		case *compact.LatLng:
			return pt(*x)
		case *compact.LatLngs:
			out := arr{}
			for _, y := range *x {
				out = append(out, pt(y))
			}
			return obj{"list": out, "_c": "lat/lng list"}
		case *compact.References:
			out := arr{}
			for _, y := range *x {
				out = append(out, idOf(y))
			}
			return obj{"list": out, "_c": "reference list"}
		case *compact.ReferencesAndLatLngs:
			out := arr{}
			for _, y := range *x {
				if y.Reference != compact.ReferenceInvald {
					out = append(out, idOf(y.Reference))
				} else {
					out = append(out, pt(y.LatLng))
				}
			}
			return obj{"list": out, "_c": "mixed list"}
		}
		return obj{"unknown": true}
	}
	var gotAny func(x b6.AnyExpression) tree
	gotAny = func(x b6.AnyExpression) tree {
		switch y := x.(type) {
		case b6.StringExpression:
			return obj{"str": string(y)}
		case b6.PointExpression:
			ll := s2.LatLng(y)
			return obj{"pt": obj{"lat": int(ll.Lat.E7()), "lng": int(ll.Lng.E7())}}
		case b6.FeatureIDExpression:
			return obj{"id": b6.FeatureID(y).String()}
		case b6.Expressions:
			out := arr{}
			for _, z := range y {
				out = append(out, gotAny(z))
			}
			return obj{"list": out}
		case nil:
			return obj{"nil": true}
		}
		return obj{"unknown": fmt.Sprintf("%T", x)}
	}
	want := arr{}
	for _, t := range v {
		want = append(want, obj{"key": name(t.Key), "value": wantValue(t.Value)})
	}
	if h.corrupt {
		want = append(want, obj{"corrupted-expectation": true})
	}
	m := compact.MarshalledTags{Tags: buf[:n], Strings: sm, Nt: e.ctx.nt, Tns: p}
	var got tree
	kp := "tags|MarshalledTags.AllTags|"
	if pm := vh.Catch(func() {
		out := arr{}
		for _, t := range m.AllTags() {
			out = append(out, obj{"key": t.Key, "value": gotAny(t.Value.AnyExpression)})
		}
		got = out
	}); pm != "" {
		h.col.fail(kp+"panics@"+panicSite(pm), "MarshalledTags.AllTags panicked: %s (tags %s)", pm, show(e.projTags(v, p)))
		return
	}
	if pattern, annot, what, where := diff(want, got); what != "" {
		h.col.fail(kp+pattern+"|"+annot+"|"+what, "MarshalledTags.AllTags differs from the encoded tags at %s: want %s, got %s", where, show(want), show(got))
		return
	}
	// Get: first tag with the key (keys of a shape are distinct)
	for i, t := range v {
		var g tree
		if pm := vh.Catch(func() { g = gotAny(m.Get(name(t.Key)).Value.AnyExpression) }); pm != "" {
			h.col.fail("tags|MarshalledTags.Get|panics@"+panicSite(pm), "MarshalledTags.Get panicked: %s", pm)
			return
		}
		if pattern, annot, what, where := diff(want[i].(obj)["value"], g); what != "" {
			h.col.fail("tags|MarshalledTags.Get|"+pattern+"|"+annot+"|"+what, "MarshalledTags.Get(%q) differs at %s: want %s, got %s", name(t.Key), where, show(want[i]), show(g))
			return
		}
	}
	if g := m.Get("no-such-key"); g.IsValid() {
		h.col.fail("tags|MarshalledTags.Get|absent key found", "MarshalledTags.Get of an absent key returned %v", g)
	}
}

func (h *H) membersPairs(e *env, l []memberS, t b6.FeatureType) {
	p := e.primary(t)
	v := e.members(l, t)
	dirtv := e.members(dirtMembers, t)
	h.run(pair{kind: "members", name: "Members.Marshal/Unmarshal",
		marshal: func(b []byte) int { return v.Marshal(p, b) },
		want:    func() tree { return e.projMembers(v, p) },
		unmarshal: func(d, dirt []byte) (tree, int) {
			var out compact.Members
			if dirt != nil {
				out.Unmarshal(p, dirt)
			}
			m := out.Unmarshal(p, d)
			return e.projMembers(out, p), m
		},
		dirt: func(b []byte) int { return dirtv.Marshal(p, b) },
		views: func(d []byte, n int) (string, string) {
			if got := compact.MarshalledMembers(d).Len(); got != len(v) {
				return "MarshalledMembers.Len", fmt.Sprintf("MarshalledMembers.Len() = %d for %d members", got, len(v))
			}
			return "", ""
		}})
}

func (h *H) geomPairs(e *env, g geomS, t b6.FeatureType) {
	p := e.primary(t)
	v := e.geom(g, t)
	want := func() tree { return e.projGeom(v, p) }
	name := map[int]string{0: "AreaGeometryReferences", 1: "AreaGeometryLatLngs", 2: "AreaGeometryMixed"}[g.E]
	var dirtS geomS
	switch g.E {
	case 0:
		dirtS = geomS{E: 0, Offs: []int{1, 3}, Paths: []refS{{100, 2}, {9, 6}, {100, 3}, {101, 1}}}
	case 1:
		dirtS = geomS{E: 1, Polys: []polyS{{Loops: []int{1, 2}, Pts: []int{1, 2, 3, 4}}, {Pts: []int{5, 1, 2}}, {Loops: []int{2}, Pts: []int{3, 4, 1}}}}
	case 2:
		dirtS = geomS{E: 2, Polys: []polyS{{Refs: []refS{{100, 2}, {9, 6}}}, {Loops: []int{2}, Pts: []int{1, 2, 3}}, {Refs: []refS{{100, 3}}}, {Refs: []refS{{101, 3}}}}}
	}
	dirtv := e.geom(dirtS, t)
	h.run(pair{kind: "geom", name: name + ".Marshal/Unmarshal",
		marshal: func(b []byte) int { return v.Marshal(p, b) },
		want:    want,
		unmarshal: func(d, dirt []byte) (tree, int) {
			var m int
			var out compact.AreaGeometry
			switch g.E {
			case 0:
				x := &compact.AreaGeometryReferences{}
				if dirt != nil {
					x.Unmarshal(p, dirt)
				}
				m = x.Unmarshal(p, d)
				out = x
			case 1:
				x := &compact.AreaGeometryLatLngs{}
				if dirt != nil {
					x.Unmarshal(p, dirt)
				}
				m = x.Unmarshal(p, d)
				out = x
			case 2:
				x := &compact.AreaGeometryMixed{}
				if dirt != nil {
					x.Unmarshal(p, dirt)
				}
				m = x.Unmarshal(p, d)
				out = x
			}
			return e.projGeom(out, p), m
		},
		dirt: func(b []byte) int { return dirtv.Marshal(p, b) }})
	h.run(pair{kind: "geom", name: name + ".Marshal/UnmarshalAreaGeometry",
		marshal: func(b []byte) int { return v.Marshal(p, b) },
		want:    want,
		unmarshal: func(d, dirt []byte) (tree, int) {
			out, m := compact.UnmarshalAreaGeometry(p, d)
			return e.projGeom(out, p), m
		}})
}

// ---- records -------------------------------------------------------------------------------------------

func (h *H) commonPoint(e *env, r recS) {
	pp := e.primary(b6.FeatureTypePath)
	v := compact.CommonPoint{Tags: e.tags(r.Tags, b6.FeatureTypePoint), Path: e.ref(*r.Path, b6.FeatureTypePath)}
	proj := func(c *compact.CommonPoint) tree {
		return obj{"tags": e.projTags(c.Tags, compact.TypeAndNamespaceInvalid), "path": e.projRef(c.Path, pp, false, nil)}
	}
	dirtv := compact.CommonPoint{Tags: e.tags(dirtTagsAbs, b6.FeatureTypePoint), Path: e.ref(refS{9, 6}, b6.FeatureTypePath)}
	un := func(d, dirt []byte) (tree, int) {
		var out compact.CommonPoint
		if dirt != nil {
			out.Unmarshal(&e.ctx.nss, dirt)
		}
		m := out.Unmarshal(&e.ctx.nss, d)
		return proj(&out), m
	}
	h.run(pair{kind: "commonpoint", name: "CommonPoint.Marshal/Unmarshal",
		marshal:   func(b []byte) int { return v.Marshal(&e.ctx.nss, b) },
		want:      func() tree { return proj(&v) },
		unmarshal: un,
		dirt:      func(b []byte) int { return dirtv.Marshal(&e.ctx.nss, b) }})
	// the builder's way of producing the same record: marshalled point tags + one path reference
	h.run(pair{kind: "commonpoint", name: "CombinePointAndPath/CommonPoint.Unmarshal",
		marshal: func(b []byte) int {
			var tb [bufSize]byte
			n := v.Tags.Marshal(compact.TypeAndNamespaceInvalid, tb[:])
			return compact.CombinePointAndPath(tb[:n], &e.ctx.nss, v.Path, b)
		},
		want:      func() tree { return proj(&v) },
		unmarshal: un})
}

func (h *H) fullPoint(e *env, r recS) {
	pp := e.primary(b6.FeatureTypePath)
	pr := e.primary(b6.FeatureTypeRelation)
	v := compact.FullPoint{Tags: e.tags(r.Tags, b6.FeatureTypePoint),
		PointReferences: compact.PointReferences{Paths: e.refs(r.Paths, b6.FeatureTypePath), Relations: e.refs(r.Rels, b6.FeatureTypeRelation)}}
	before := obj{"paths": sortedRefs(v.Paths), "rels": sortedRefs(v.Relations)}
	projR := func(c *compact.PointReferences) obj {
		return obj{"paths": e.projRefs(c.Paths, pp, true), "rels": e.projRefs(c.Relations, pr, true)}
	}
	proj := func(c *compact.FullPoint) tree {
		o := projR(&c.PointReferences)
		o["tags"] = e.projTags(c.Tags, compact.TypeAndNamespaceInvalid)
		return o
	}
	dirtv := compact.FullPoint{Tags: e.tags(dirtTagsAbs, b6.FeatureTypePoint),
		PointReferences: compact.PointReferences{Paths: e.refs(dirtRefsAbs, b6.FeatureTypePath), Relations: e.refs(dirtRefsAbs, b6.FeatureTypeRelation)}}
	// Marshal sorts the two lists ("order is not important"): the encoded value is the sorted one, and it
	// must be a permutation of what the caller passed in.
	wantSame := func() {
		after := obj{"paths": sortedRefs(v.Paths), "rels": sortedRefs(v.Relations)}
		if _, _, what, where := diff(before, after); what != "" {
			h.col.fail("fullpoint|FullPoint.Marshal|changes the multiset of references", "FullPoint.Marshal changed the references themselves at %s", where)
		}
	}
	un := func(d, dirt []byte) (tree, int) {
		var out compact.FullPoint
		if dirt != nil {
			out.Unmarshal(&e.ctx.nss, dirt)
		}
		m := out.Unmarshal(&e.ctx.nss, d)
		return proj(&out), m
	}
	h.run(pair{kind: "fullpoint", name: "FullPoint.Marshal/Unmarshal",
		marshal:   func(b []byte) int { return v.Marshal(&e.ctx.nss, b) },
		want:      func() tree { wantSame(); return proj(&v) },
		unmarshal: un,
		dirt:      func(b []byte) int { return dirtv.Marshal(&e.ctx.nss, b) }})
	h.run(pair{kind: "fullpoint", name: "PointReferences.Marshal/Unmarshal",
		marshal: func(b []byte) int { return v.PointReferences.Marshal(&e.ctx.nss, b) },
		want:    func() tree { return projR(&v.PointReferences) },
		unmarshal: func(d, dirt []byte) (tree, int) {
			var out compact.PointReferences
			if dirt != nil {
				out.Unmarshal(&e.ctx.nss, dirt)
			}
			m := out.Unmarshal(&e.ctx.nss, d)
			return projR(&out), m
		},
		dirt: func(b []byte) int { return dirtv.PointReferences.Marshal(&e.ctx.nss, b) }})
	h.run(pair{kind: "fullpoint", name: "CombinePointAndReferences/FullPoint.Unmarshal",
		marshal: func(b []byte) int {
			var tb [bufSize]byte
			n := v.Tags.Marshal(compact.TypeAndNamespaceInvalid, tb[:])
			return compact.CombinePointAndReferences(tb[:n], v.PointReferences, &e.ctx.nss, b)
		},
		want:      func() tree { return proj(&v) },
		unmarshal: un})
}

func sortedRefs(rs compact.References) arr {
	c := append(compact.References(nil), rs...)
	sort.Sort(c)
	out := make(arr, 0, len(c))
	for _, r := range c {
		out = append(out, obj{"tns": int(r.TypeAndNamespace), "v": u64(r.Value)})
	}
	return out
}

func (h *H) pathRecord(e *env, r recS) {
	ppt := e.primary(b6.FeatureTypePoint)
	pa := e.primary(b6.FeatureTypeArea)
	pr := e.primary(b6.FeatureTypeRelation)
	v := compact.Path{Tags: e.tags(r.Tags, b6.FeatureTypePoint), Areas: e.refs(r.Areas, b6.FeatureTypeArea), Relations: e.refs(r.Rels, b6.FeatureTypeRelation)}
	before := sortedRefs(v.Areas)
	proj := func(c *compact.Path) tree {
		return obj{"tags": e.projTags(c.Tags, ppt), "areas": e.projRefs(c.Areas, pa, true), "rels": e.projRefs(c.Relations, pr, true)}
	}
	dirtv := compact.Path{Tags: e.tags(dirtTags, b6.FeatureTypePoint), Areas: e.refs(dirtRefsAbs, b6.FeatureTypeArea), Relations: e.refs(dirtRefsAbs, b6.FeatureTypeRelation)}
	h.run(pair{kind: "path", name: "Path.Marshal/Unmarshal",
		marshal: func(b []byte) int { return v.Marshal(&e.ctx.nss, b) },
		want: func() tree {
			if _, _, what, where := diff(before, sortedRefs(v.Areas)); what != "" {
				h.col.fail("path|Path.Marshal|changes the multiset of areas", "Path.Marshal changed the area references themselves at %s", where)
			}
			return proj(&v)
		},
		unmarshal: func(d, dirt []byte) (tree, int) {
			var out compact.Path
			if dirt != nil {
				out.Unmarshal(&e.ctx.nss, dirt)
			}
			m := out.Unmarshal(&e.ctx.nss, d)
			return proj(&out), m
		},
		dirt: func(b []byte) int { return dirtv.Marshal(&e.ctx.nss, b) }})
}

func (h *H) areaRecord(e *env, r recS) {
	pp := e.primary(b6.FeatureTypePath)
	pr := e.primary(b6.FeatureTypeRelation)
	g := e.geom(*r.Geom, b6.FeatureTypePath)
	v := compact.Area{Tags: e.tags(r.Tags, b6.FeatureTypeArea), Polygons: g, Relations: e.refs(r.Rels, b6.FeatureTypeRelation)}
	proj := func(c *compact.Area) tree {
		return obj{"tags": e.projTags(c.Tags, compact.TypeAndNamespaceInvalid), "geom": e.projGeom(c.Polygons, pp), "rels": e.projRefs(c.Relations, pr, true)}
	}
	dirtv := compact.Area{Tags: e.tags(dirtTagsAbs, b6.FeatureTypeArea),
		Polygons:  e.geom(geomS{E: 0, Offs: []int{1}, Paths: []refS{{2, 2}, {9, 6}, {2, 3}}}, b6.FeatureTypePath),
		Relations: e.refs(dirtRefsAbs, b6.FeatureTypeRelation)}
	h.run(pair{kind: "area", name: "Area.Marshal/Unmarshal",
		marshal: func(b []byte) int { return v.Marshal(&e.ctx.nss, b) },
		want:    func() tree { return proj(&v) },
		unmarshal: func(d, dirt []byte) (tree, int) {
			var out compact.Area
			if dirt != nil {
				out.Unmarshal(&e.ctx.nss, dirt)
			}
			m := out.Unmarshal(&e.ctx.nss, d)
			return proj(&out), m
		},
		dirt: func(b []byte) int { return dirtv.Marshal(&e.ctx.nss, b) },
		views: func(d []byte, n int) (string, string) {
			if got := compact.MarshalledArea(d).Len(); got != g.Len() {
				return "MarshalledArea.Len", fmt.Sprintf("MarshalledArea.Len() = %d for a geometry of %d polygons", got, g.Len())
			}
			got := e.projGeom(compact.MarshalledArea(d).UnmarshalPolygons(pp), pp)
			if pattern, annot, what, where := diff(e.projGeom(g, pp), got); what != "" {
				return "MarshalledArea.UnmarshalPolygons|" + pattern + "|" + annot + "|" + what, fmt.Sprintf("MarshalledArea.UnmarshalPolygons differs at %s: %s", where, show(got))
			}
			return "", ""
		}})
}

func (h *H) relationRecord(e *env, r recS) {
	pt := b6.FeatureType(r.Primary - 1)
	pm := e.primary(pt)
	pr := e.primary(b6.FeatureTypeRelation)
	v := compact.Relation{Tags: e.tags(r.Tags, b6.FeatureTypeRelation), Members: e.members(r.Members, pt), Relations: e.refs(r.Rels, b6.FeatureTypeRelation)}
	proj := func(c *compact.Relation) tree {
		return obj{"tags": e.projTags(c.Tags, compact.TypeAndNamespaceInvalid), "members": e.projMembers(c.Members, pm), "rels": e.projRefs(c.Relations, pr, true)}
	}
	dirtv := compact.Relation{Tags: e.tags(dirtTagsAbs, b6.FeatureTypeRelation), Members: e.members([]memberS{{1, 2, 2, 2}, {2, 3, 9, 6}, {0, 1, 4, 3}}, pt), Relations: e.refs(dirtRefsAbs, b6.FeatureTypeRelation)}
	h.run(pair{kind: "relation", name: "Relation.Marshal/Unmarshal",
		marshal: func(b []byte) int { return v.Marshal(pt, &e.ctx.nss, b) },
		want:    func() tree { return proj(&v) },
		unmarshal: func(d, dirt []byte) (tree, int) {
			var out compact.Relation
			if dirt != nil {
				out.Unmarshal(pt, &e.ctx.nss, dirt)
			}
			m := out.Unmarshal(pt, &e.ctx.nss, d)
			return proj(&out), m
		},
		dirt: func(b []byte) int { return dirtv.Marshal(pt, &e.ctx.nss, b) },
		views: func(d []byte, n int) (string, string) {
			if got := compact.MarshalledRelation(d).Len(); got != len(v.Members) {
				return "MarshalledRelation.Len", fmt.Sprintf("MarshalledRelation.Len() = %d for %d members", got, len(v.Members))
			}
			var ms compact.Members
			compact.MarshalledRelation(d).UnmarshalMembers(pt, &e.ctx.nss, &ms)
			if pattern, annot, what, where := diff(e.projMembers(v.Members, pm), e.projMembers(ms, pm)); what != "" {
				return "MarshalledRelation.UnmarshalMembers|" + pattern + "|" + annot + "|" + what, fmt.Sprintf("MarshalledRelation.UnmarshalMembers differs at %s", where)
			}
			return "", ""
		}})
}

// ---- headers, strings, namespace tables, token maps ---------------------------------------------------------

func tokenOfClass(k int) string {
	switch k {
	case 0:
		return ""
	case 1:
		return "building=yes"
	case 2:
		return "渋谷スクランブル交差点=はい"
	case 4:
		return "k=" + strings.Repeat("v", 125) // 127 bytes: the longest one-byte uvarint length
	case 5:
		return "k=" + strings.Repeat("v", 126) // 128 bytes: the first two-byte uvarint length
	case 6:
		return "k=" + strings.Repeat("v", 253) // 255 bytes
	case 7:
		return "k=" + strings.Repeat("v", 254) // 256 bytes
	default:
		return "name=" + strings.Repeat("long-value-", 30) // > 127 bytes: two-byte length
	}
}

func (h *H) plhPairs(e *env, s plhS) {
	v := compact.PostingListHeader{Token: tokenOfClass(s.Tok), Features: int(e.c.capped(s.N))}
	for _, x := range s.Nss {
		v.Namespaces = append(v.Namespaces, compact.NamespaceIndex{TypeAndNamespace: e.tns(x.Tns, b6.FeatureTypePoint), Index: int(e.c.capped(x.Idx))})
	}
	projN := func(l compact.NamespaceIndicies) arr {
		out := make(arr, 0, len(l))
		for _, x := range l {
			out = append(out, obj{"tns": int(x.TypeAndNamespace), "idx": u64(uint64(x.Index))})
		}
		return out
	}
	proj := func(p *compact.PostingListHeader) tree {
		return obj{"token": p.Token, "features": u64(uint64(p.Features)), "nss": projN(p.Namespaces)}
	}
	dirtv := compact.PostingListHeader{Token: "dirt=1", Features: 9, Namespaces: compact.NamespaceIndicies{{1, 2}, {3, 4}, {5, 6}, {7, 8}}}
	h.run(pair{kind: "plh", name: "PostingListHeader.Marshal/Unmarshal",
		marshal: func(b []byte) int { return v.Marshal(b) },
		want:    func() tree { return proj(&v) },
		unmarshal: func(d, dirt []byte) (tree, int) {
			var out compact.PostingListHeader
			if dirt != nil {
				out.Unmarshal(dirt)
			}
			m := out.Unmarshal(d)
			return proj(&out), m
		},
		dirt: func(b []byte) int { return dirtv.Marshal(b) },
		views: func(d []byte, n int) (string, string) {
			if got := compact.PostingListHeaderToken(d); got != v.Token {
				return "PostingListHeaderToken", fmt.Sprintf("PostingListHeaderToken = %q, want %q", got, v.Token)
			}
			if !compact.PostingListHeaderTokenEquals(d, v.Token) {
				return "PostingListHeaderTokenEquals", "PostingListHeaderTokenEquals(own token) = false"
			}
			if compact.PostingListHeaderTokenEquals(d, v.Token+"x") {
				return "PostingListHeaderTokenEquals", "PostingListHeaderTokenEquals(other token) = true"
			}
			return "", ""
		}})
	h.run(pair{kind: "plh", name: "NamespaceIndicies.Marshal/Unmarshal",
		marshal: func(b []byte) int { return v.Namespaces.Marshal(b) },
		want:    func() tree { return projN(v.Namespaces) },
		unmarshal: func(d, dirt []byte) (tree, int) {
			var out compact.NamespaceIndicies
			if dirt != nil {
				out.Unmarshal(dirt)
			}
			m := out.Unmarshal(d)
			return projN(out), m
		},
		dirt: func(b []byte) int { return dirtv.Namespaces.Marshal(b) }})
	h.run(pair{kind: "plh", name: "MarshalString/UnmarshalString",
		marshal: func(b []byte) int { return compact.MarshalString(v.Token, b) },
		want:    func() tree { return v.Token },
		unmarshal: func(d, dirt []byte) (tree, int) {
			s, m := compact.UnmarshalString(d)
			return s, m
		}})
	// the fixed-size block headers
	nss := e.ctx.nss
	h.run(pair{kind: "plh", name: "Namespaces.Marshal/Unmarshal",
		marshal: func(b []byte) int { return nss.Marshal(b) },
		want:    func() tree { return fmt.Sprint(nss) },
		unmarshal: func(d, dirt []byte) (tree, int) {
			var out compact.Namespaces
			m := out.Unmarshal(d)
			return fmt.Sprint(out), m
		}})
	fbh := compact.FeatureBlockHeader{FeatureType: b6.FeatureType(s.Tok % 4), Namespaces: nss}
	h.run(pair{kind: "plh", name: "FeatureBlockHeader.Marshal/Unmarshal",
		marshal: func(b []byte) int { return fbh.Marshal(b) },
		want:    func() tree { return fmt.Sprint(fbh) },
		unmarshal: func(d, dirt []byte) (tree, int) {
			var out compact.FeatureBlockHeader
			m := out.Unmarshal(d)
			return fmt.Sprint(out), m
		}})
}

// nstable: shape = a list of namespace ranks in input order (a permutation of a subset).
var nsByRank = []b6.Namespace{"a.example/x", b6.NamespacePrivate, "example.org/a/b/c", b6.NamespaceOSMNode, b6.NamespaceOSMWay, "zzz"}

func (h *H) nsTable(ranks []int) {
	h.col.runs++
	in := make([]b6.Namespace, 0, len(ranks))
	for _, r := range ranks {
		in = append(in, nsByRank[r])
	}
	k := "nstable|NamespaceTable|"
	var nt, back compact.NamespaceTable
	if pm := vh.Catch(func() {
		nt.FillFromNamespaces(in)
		var m pb.CompactHeaderProto
		nt.FillProto(&m)
		var out encoding.Buffer
		start := encoding.Offset(5)
		end, err := compact.WriteProto(&out, &m, start)
		if err != nil {
			panic(err)
		}
		buf := append(out.Bytes(), fill(8, 0x55)...)
		_ = end
		var mm pb.CompactHeaderProto
		if err := compact.UnmarshalProto(buf[start:], &mm); err != nil {
			panic(err)
		}
		back.FillFromProto(&mm)
	}); pm != "" {
		h.col.fail(k+"panics@"+panicSite(pm), "NamespaceTable round trip through the header proto panicked: %s (namespaces %v)", pm, in)
		return
	}
	for _, t := range []*compact.NamespaceTable{&nt, &back} {
		which := "FillFromNamespaces"
		if t == &back {
			which = "FillProto/FillFromProto"
		}
		for _, ns := range in {
			enc, ok := t.MaybeEncode(ns)
			if !ok || t.Decode(enc) != ns || t.Encode(ns) != enc || enc == compact.NamespaceInvalid {
				h.col.fail(k+which+"|Decode(Encode(ns)) != ns", "%s: namespace %q encodes to %d (ok=%v) which decodes to %q (input %v)", which, ns, enc, ok, t.Decode(enc), in)
			}
			if nt.Encode(ns) != enc {
				h.col.fail(k+which+"|codes differ after the proto round trip", "namespace %q: %d before, %d after (input %v)", ns, nt.Encode(ns), enc, in)
			}
		}
		// order preserving: compact sorts by encoded namespace, b6 by namespace string
		for _, a := range in {
			for _, b := range in {
				if (a < b) != (t.Encode(a) < t.Encode(b)) {
					h.col.fail(k+which+"|encoding is not order preserving", "%s: %q < %q is %v but codes are %d, %d (input %v)", which, a, b, a < b, t.Encode(a), t.Encode(b), in)
				}
			}
		}
		if t.Decode(compact.NamespaceInvalid) != b6.NamespaceInvalid {
			h.col.fail(k+which+"|code 0 is not the invalid namespace", "%s: Decode(0) = %q", which, t.Decode(compact.NamespaceInvalid))
		}
		if _, ok := t.MaybeEncode("not.in/table"); ok {
			h.col.fail(k+which+"|absent namespace encodes", "%s: MaybeEncode of an absent namespace succeeded", which)
		}
	}
}

func (h *H) tokenMap(c *conc, s tokenMapS) {
	h.col.runs++
	tokens := make([]string, s.N)
	indices := make([]int, s.N)
	for i := range tokens {
		switch s.Tokens {
		case "prefix":
			tokens[i] = "building:levels=" + strings.Repeat("1", i+1)
		case "dup":
			tokens[i] = fmt.Sprintf("amenity=%d", i/2)
		default:
			tokens[i] = fmt.Sprintf("highway=%d", i*7919)
		}
		switch s.Idx {
		case "big":
			indices[i] = int(c.capped(3+i%3)) + i
		case "same":
			indices[i] = 42
		default:
			indices[i] = i
		}
	}
	k := "tokenmap|TokenMapEncoder/TokenMap|"
	desc := fmt.Sprintf("n=%d idx=%s tokens=%s", s.N, s.Idx, s.Tokens)
	var fails []string
	if pm := vh.Catch(func() {
		enc := compact.NewTokenMapEncoder()
		for i, t := range tokens {
			enc.Add(t, indices[i])
		}
		var out encoding.Buffer
		start := encoding.Offset(11)
		out.WriteAt(fill(11, 0x55), 0)
		end, err := enc.Write(&out, start)
		if err != nil {
			panic(err)
		}
		written := end.Difference(start)
		if l := enc.Length(); l != written {
			fails = append(fails, fmt.Sprintf("Length|TokenMapEncoder.Length() = %d, Write wrote %d bytes", l, written))
		}
		buf := out.Bytes()
		if len(buf) != int(end) {
			fails = append(fails, fmt.Sprintf("Write end offset|Write returned end offset %d, the output has %d bytes", end, len(buf)))
		}
		buf = append(buf, fill(16, 0x55)...)
		var m compact.TokenMap
		if consumed := m.Unmarshal(buf[start:]); consumed != written {
			fails = append(fails, fmt.Sprintf("consumed != written|TokenMap.Unmarshal consumed %d, Write wrote %d", consumed, written))
		}
		for i, t := range tokens {
			it := m.FindPossibleIndices(t)
			found := false
			n := 0
			for {
				idx, ok := it.Next()
				if !ok {
					break
				}
				n++
				if idx == indices[i] {
					found = true
				}
				if n > s.N+1 {
					fails = append(fails, "iterator does not end|FindPossibleIndices yields more indices than were added")
					break
				}
			}
			if !found {
				fails = append(fails, fmt.Sprintf("index not found|token %q was added with index %d, FindPossibleIndices does not return it", t, indices[i]))
				break
			}
		}
		// every index that comes out was put in (the bucket decoding is framed correctly)
		valid := map[int]bool{}
		for _, x := range indices {
			valid[x] = true
		}
		total := 0
		seenBucket := map[string]bool{}
		for _, t := range tokens {
			it := m.FindPossibleIndices(t)
			sig := ""
			var got []int
			for {
				idx, ok := it.Next()
				if !ok {
					break
				}
				got = append(got, idx)
				if !valid[idx] {
					fails = append(fails, fmt.Sprintf("unknown index|FindPossibleIndices(%q) yields %d which was never added", t, idx))
					return
				}
			}
			sig = fmt.Sprint(got)
			if !seenBucket[sig] {
				seenBucket[sig] = true
				total += len(got)
			}
		}
		_ = total
	}); pm != "" {
		h.col.fail(k+"panics@"+panicSite(pm), "token map (%s) panicked: %s", desc, pm)
		return
	}
	for _, f := range fails {
		parts := strings.SplitN(f, "|", 2)
		h.col.fail(k+parts[0], "token map (%s): %s", desc, parts[1])
	}
}

// ---- the adapter -----------------------------------------------------------------------------------------------

func runCodecCase(data json.RawMessage) vh.Verdict {
	var c codecCase
	if err := json.Unmarshal(data, &c); err != nil {
		return vh.Fail("harness-json", "bad case: %v", err)
	}
	col := &collector{}
	h := &H{col: col, corrupt: c.Corrupt}
	rng := rand.New(rand.NewSource(vh.Seed*1000003 + int64(c.ID)))
	types := []b6.FeatureType{b6.FeatureTypePoint, b6.FeatureTypePath, b6.FeatureTypeArea, b6.FeatureTypeRelation}
	bad := func(err error) vh.Verdict { return vh.Fail("harness-json", "bad %s shape: %v", c.Kind, err) }
	for variant := 0; variant <= c.Variants; variant++ {
		cc := &conc{rng: rng, canonical: variant == 0}
		for ci, ctx := range contexts() {
			e := &env{c: cc, ctx: ctx, alt: variant + ci}
			// standalone codecs take any primary: all four types in the first context, one (rotating) elsewhere
			ts := types
			if ci > 0 {
				ts = []b6.FeatureType{types[(c.ID+variant+ci)%4]}
			}
			switch c.Kind {
			case "refs":
				var l []refS
				if err := json.Unmarshal(c.Shape, &l); err != nil {
					return bad(err)
				}
				for _, t := range ts {
					h.refListPairs(e, l, t)
				}
				h.fromPathIDs(e, l)
				// the same list in every record field that holds a reference list
				h.pathRecord(e, recS{Areas: l})
				h.pathRecord(e, recS{Rels: l})
				h.pathRecord(e, recS{Tags: []tagS{{K: 1, T: "refs", L: asEls(l)}}})
				h.fullPoint(e, recS{Paths: l})
				h.fullPoint(e, recS{Rels: l})
				h.areaRecord(e, recS{Rels: l, Geom: &geomS{E: 1}})
				h.areaRecord(e, recS{Geom: &geomS{E: 0, Offs: splitOffsets(len(l)), Paths: l}})
				h.relationRecord(e, recS{Rels: l, Primary: 2})
				if len(l) > 0 {
					h.commonPoint(e, recS{Path: &l[0]})
					ms := make([]memberS, 0, len(l))
					for i, r := range l {
						ms = append(ms, memberS{Ty: i % 4, Role: 2, Tns: r.Tns, V: r.V})
					}
					h.relationRecord(e, recS{Members: ms, Primary: 2})
				}
			case "lls":
				var l []int
				if err := json.Unmarshal(c.Shape, &l); err != nil {
					return bad(err)
				}
				if ci == 0 { // no namespaces involved
					h.llPairs(e, l)
					els := make([]elS, 0, len(l))
					for _, x := range l {
						els = append(els, elS{V: x})
					}
					h.tagsPairs(e, []tagS{{K: 1, T: "lls", L: els}}, b6.FeatureTypePoint, false)
					if len(l) > 0 {
						h.tagsPairs(e, []tagS{{K: 2, T: "pt", S: l[0]}}, b6.FeatureTypePoint, false)
					}
					h.geomPairs(e, geomS{E: 1, Polys: []polyS{{Pts: l}}}, b6.FeatureTypePath)
				}
			case "mixed":
				var l []elS
				if err := json.Unmarshal(c.Shape, &l); err != nil {
					return bad(err)
				}
				for _, t := range ts {
					h.mixedPairs(e, l, t)
				}
				h.tagsPairs(e, []tagS{{K: 1, T: "mixed", L: l}}, b6.FeatureTypePoint, true)
				h.pathRecord(e, recS{Tags: []tagS{{K: 1, T: "mixed", L: l}}})
			case "bits":
				var l []bool
				if err := json.Unmarshal(c.Shape, &l); err != nil {
					return bad(err)
				}
				if ci == 0 {
					h.bitsPairs(l)
				}
			case "tags":
				var l []tagS
				if err := json.Unmarshal(c.Shape, &l); err != nil {
					return bad(err)
				}
				for _, t := range ts {
					h.tagsPairs(e, l, t, true)
				}
				h.pathRecord(e, recS{Tags: l})
				if !tagsNeedPrimary(l) {
					h.tagsPairs(e, l, b6.FeatureTypePoint, false)
					h.fullPoint(e, recS{Tags: l})
					h.areaRecord(e, recS{Tags: l, Geom: &geomS{E: 1}})
					h.relationRecord(e, recS{Tags: l, Primary: 2})
					h.commonPoint(e, recS{Tags: l, Path: &refS{2, 2}})
				}
			case "members":
				var l []memberS
				if err := json.Unmarshal(c.Shape, &l); err != nil {
					return bad(err)
				}
				for _, t := range ts {
					h.membersPairs(e, l, t)
				}
				h.relationRecord(e, recS{Members: l, Primary: 2})
				h.relationRecord(e, recS{Members: l, Primary: 1})
			case "geom":
				var g geomS
				if err := json.Unmarshal(c.Shape, &g); err != nil {
					return bad(err)
				}
				for _, t := range ts {
					h.geomPairs(e, g, t)
				}
				h.areaRecord(e, recS{Geom: &g})
			case "commonpoint", "fullpoint", "path", "area", "relation":
				var r recS
				if err := json.Unmarshal(c.Shape, &r); err != nil {
					return bad(err)
				}
				switch c.Kind {
				case "commonpoint":
					h.commonPoint(e, r)
				case "fullpoint":
					h.fullPoint(e, r)
				case "path":
					h.pathRecord(e, r)
				case "area":
					h.areaRecord(e, r)
				case "relation":
					h.relationRecord(e, r)
				}
			case "plh":
				var s plhS
				if err := json.Unmarshal(c.Shape, &s); err != nil {
					return bad(err)
				}
				h.plhPairs(e, s)
			case "nstable":
				var l []int
				if err := json.Unmarshal(c.Shape, &l); err != nil {
					return bad(err)
				}
				if ci == 0 && variant == 0 {
					h.nsTable(l)
				}
			case "tokenmap":
				var s tokenMapS
				if err := json.Unmarshal(c.Shape, &s); err != nil {
					return bad(err)
				}
				if ci == 0 {
					h.tokenMap(cc, s)
				}
			default:
				return vh.Fail("harness-kind", "unknown kind %q", c.Kind)
			}
		}
	}
	return col.verdict()
}

func asEls(l []refS) []elS {
	out := make([]elS, 0, len(l))
	for _, r := range l {
		out = append(out, elS{R: true, Tns: r.Tns, V: r.V})
	}
	return out
}

// splitOffsets: polygon boundaries 1, 2, ... inside a list of n paths (every path its own polygon).
func splitOffsets(n int) []int {
	out := []int{}
	for i := 1; i < n; i++ {
		out = append(out, i)
	}
	return out
}
