// vh-spatial: harness for the spatial family.
//
//	C04 (spatial search never misses or invents a feature its query accepts)
//	  adapter "tokens"  binding A for spec/CellIndex.tla: one case = one covering enumerated by TLC with the
//	                    token sets the specification expects; executed on search.TokensForCovering and
//	                    search.RewriteSpatialQuery (cells.go)
//	  adapter "chain"   the lemma on real s2 cells at real levels 0..30; returns "tok" events for SpatialTrace.tla
//	  adapter "e2e"     one seeded world (basic / mutable / overlay / compact) x a battery of spatial queries;
//	                    returns "find" and "tok" events for SpatialTrace.tla and judges them directly (e2e.go)
//	C05 (spatial predicates agree with exact geometry)
//	  adapter "pred"    one predicate case: realise a row of a truth table enumerated by TLC
//	                    (spec/SpatialPredicates.tla) or draw a random case; primitive geometric facts are computed
//	                    with s2 directly, the code's Query.Matches is recorded; returns events for
//	                    SpatialPredicatesTrace.tla (pred.go)
package main

import (
	"verif/harness/vh"
)

func main() {
	vh.RegisterFunc("tokens", runTokens)
	vh.RegisterFunc("chain", runChain)
	vh.RegisterFunc("e2e", runE2E)
	vh.RegisterFunc("pred", runPred)
	vh.Main()
}
