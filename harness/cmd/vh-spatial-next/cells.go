package main

import (
	"encoding/json"
	"fmt"
	"math/rand"
	"sort"
	"strings"

	"diagonal.works/b6"
	"diagonal.works/b6/search"
	"github.com/golang/geo/s2"
	"verif/harness/vh"
)

// mcell is a cell of spec/CellTokens.tla: a face and a path of child positions.
type mcell struct {
	F int   `json:"f"`
	P []int `json:"p"`
}

// mtoken is a token of the specification: k = "s2" | "a2" (or "raw:<text>" for a token the harness cannot read).
type mtoken struct {
	K string `json:"k"`
	C mcell  `json:"c"`
}

func (c mcell) id() s2.CellID {
	id := s2.CellIDFromFace(c.F)
	for _, d := range c.P {
		id = id.Children()[d]
	}
	return id
}

func cellOf(id s2.CellID) mcell {
	c := mcell{F: id.Face(), P: []int{}}
	for l := 1; l <= id.Level(); l++ {
		c.P = append(c.P, id.ChildPosition(l))
	}
	return c
}

func (c mcell) String() string {
	s := fmt.Sprint(c.F)
	for _, d := range c.P {
		s += fmt.Sprint(d)
	}
	return s
}

func (t mtoken) String() string { return t.K + ":" + t.C.String() }

func tokenOf(s string) (mtoken, bool) {
	for _, k := range []string{"s2", "a2"} {
		if strings.HasPrefix(s, k+":") {
			id := s2.CellIDFromToken(s[3:])
			if id.IsValid() && id.ToToken() == s[3:] {
				return mtoken{K: k, C: cellOf(id)}, true
			}
		}
	}
	return mtoken{K: "raw:" + s, C: mcell{F: 99, P: []int{}}}, false
}

func unionOf(cs []mcell) s2.CellUnion {
	u := make(s2.CellUnion, len(cs))
	for i, c := range cs {
		u[i] = c.id()
	}
	return u
}

// isSpatialToken says whether a feature token belongs to the spatial index (as opposed to "*" and tag tokens).
func isSpatialToken(s string) bool {
	return strings.HasPrefix(s, "s2:") || strings.HasPrefix(s, "a2:")
}

// recorder is a b6.FeatureIndex / search.Index that records which tokens a compiled query looks up.
type recorder struct {
	tokens []string
}

type noValues struct{}

func (noValues) Compare(a search.Value, b search.Value) search.Comparison {
	return search.ComparisonEqual
}
func (noValues) CompareKey(v search.Value, k search.Key) search.Comparison {
	return search.ComparisonEqual
}
func (noValues) Key(v search.Value) search.Key { return nil }

type noTokens struct{}

func (noTokens) Next() bool                { return false }
func (noTokens) Advance(token string) bool { return false }
func (noTokens) Token() string             { return "" }

func (r *recorder) Begin(token string) search.Iterator {
	r.tokens = append(r.tokens, token)
	return search.NewEmptyIterator()
}
func (r *recorder) Tokens() search.TokenIterator      { return noTokens{} }
func (r *recorder) Values() search.Values             { return noValues{} }
func (r *recorder) NumTokens() int                    { return 0 }
func (r *recorder) Feature(v search.Value) b6.Feature { return nil }
func (r *recorder) ID(v search.Value) b6.FeatureID    { return b6.FeatureIDInvalid }

// realFeatureTokens runs the real TokensForCovering.
func realFeatureTokens(cov s2.CellUnion) []string {
	return search.TokensForCovering(cov, []string{})
}

// realQueryTokens runs the real RewriteSpatialQuery and compiles the result against a recording index: the
// tokens are the ones the rewritten query would look up.
func realQueryTokens(cov s2.CellUnion) []string {
	r := &recorder{}
	search.RewriteSpatialQuery(search.NewSpatialFromCellUnion(cov)).Compile(r)
	return r.tokens
}

func toModelTokens(ts []string) []mtoken {
	seen := map[string]bool{}
	out := []mtoken{}
	for _, s := range ts {
		if seen[s] {
			continue
		}
		seen[s] = true
		t, _ := tokenOf(s)
		out = append(out, t)
	}
	sort.Slice(out, func(i, j int) bool { return out[i].String() < out[j].String() })
	return out
}

func tokenSet(ts []mtoken) map[string]bool {
	m := map[string]bool{}
	for _, t := range ts {
		m[t.String()] = true
	}
	return m
}

func sameSet(a, b map[string]bool) bool {
	if len(a) != len(b) {
		return false
	}
	for k := range a {
		if !b[k] {
			return false
		}
	}
	return true
}

func intersects(a, b []string) bool {
	m := map[string]bool{}
	for _, s := range a {
		m[s] = true
	}
	for _, s := range b {
		if m[s] {
			return true
		}
	}
	return false
}

func diff(a, b map[string]bool) []string {
	out := []string{}
	for k := range a {
		if !b[k] {
			out = append(out, k)
		}
	}
	sort.Strings(out)
	return out
}

// related: the two real cells are equal or one contains the other.
func related(a, b s2.CellID) bool { return a.Contains(b) || b.Contains(a) }

func relatedUnion(f, q s2.CellUnion) (s2.CellID, s2.CellID, bool) {
	for _, a := range f {
		for _, b := range q {
			if related(a, b) {
				return a, b, true
			}
		}
	}
	return 0, 0, false
}

func relation(f, q s2.CellID) string {
	switch {
	case f == q:
		return "equal"
	case f.Contains(q):
		return "feature-contains-query"
	default:
		return "query-contains-feature"
	}
}

// ---- adapter "tokens" -------------------------------------------------------------------------------------

type tokensCase struct {
	ID     int      `json:"id"`
	Cov    []mcell  `json:"cov"`
	FTok   []mtoken `json:"ftok"`  // FeatureTokens(cov) of the design
	QTok   []mtoken `json:"qtok"`  // QueryTokens(cov)
	BFTok  []mtoken `json:"bftok"` // FeatureTokensAsBuilt(cov)
	Faces  []int    `json:"faces"` // the model domain, for the soundness check on the real token sets
	Depth  int      `json:"depth"`
	Mutate string   `json:"mutate"` // self-test only: corrupt the expectation
}

var domainCache = map[string][]s2.CellID{}

func domainCells(faces []int, depth int) []s2.CellID {
	key := fmt.Sprint(faces, depth)
	if d, ok := domainCache[key]; ok {
		return d
	}
	var out []s2.CellID
	var rec func(id s2.CellID)
	rec = func(id s2.CellID) {
		out = append(out, id)
		if id.Level() < depth {
			for _, c := range id.Children() {
				rec(c)
			}
		}
	}
	for _, f := range faces {
		rec(s2.CellIDFromFace(f))
	}
	domainCache[key] = out
	return out
}

const faceKey = "face-cell-covering-gets-no-token"

// runTokens executes one covering enumerated by TLC on the real token functions.
//
// Verdict: the code must realise the lemma.  If the real token sets equal the design's, TLC's proof of Sound
// carries over.  If they differ, Sound is evaluated on the REAL token sets of this covering against every cell
// of the model domain (in both roles); an unsound pair is a failure.  A difference that leaves every pair sound
// is reported in the stats only (the property does not fix the token scheme).
func runTokens(data json.RawMessage) vh.Verdict {
	var c tokensCase
	if err := json.Unmarshal(data, &c); err != nil {
		return vh.Fail("harness-json", "bad case: %v", err)
	}
	cov := unionOf(c.Cov)
	rf := realFeatureTokens(cov)
	rq := realQueryTokens(cov)
	mf, mq := toModelTokens(rf), toModelTokens(rq)
	if c.Mutate == "drop-expected-ancestor" && len(c.FTok) > 0 {
		c.FTok = append(c.FTok, mtoken{K: "a2", C: mcell{F: 5, P: []int{3, 3, 3}}})
	}
	stats := map[string]int{"coverings": 1}
	obs := map[string]interface{}{"ftok": mf, "qtok": mq}
	fOK := sameSet(tokenSet(mf), tokenSet(c.FTok))
	qOK := sameSet(tokenSet(mq), tokenSet(c.QTok))
	if fOK && qOK {
		stats["conform_to_design"] = 1
		return vh.Verdict{OK: true, Stats: stats}
	}
	asBuilt := sameSet(tokenSet(mf), tokenSet(c.BFTok)) && qOK
	// the real token sets differ from the design: evaluate the lemma on them
	levels := func(u s2.CellUnion) []int {
		ls := []int{}
		for _, id := range u {
			ls = append(ls, id.Level())
		}
		sort.Ints(ls)
		return ls
	}
	describe := fmt.Sprintf("covering %v: real feature tokens %v (design %v), real query tokens %v (design %v)",
		c.Cov, mf, c.FTok, mq, c.QTok)
	for _, d := range domainCells(c.Faces, c.Depth) {
		single := s2.CellUnion{d}
		if a, b, ok := relatedUnion(cov, single); ok && !intersects(rf, realQueryTokens(single)) {
			key := fmt.Sprintf("unsound-tokens role=feature covering-levels=%v cell-level=%d other-level=%d rel=%s", levels(cov), a.Level(), b.Level(), relation(a, b))
			if asBuilt && a.Level() == 0 {
				key = faceKey
			}
			return vh.Verdict{OK: false, Key: key, Obs: obs, Stats: stats,
				Msg: fmt.Sprintf("feature covering cell %s and query cell %s are related (%s) but TokensForCovering(%v) and RewriteSpatialQuery(%v) share no token; %s",
					cellOf(a), cellOf(b), relation(a, b), c.Cov, []mcell{cellOf(d)}, describe)}
		}
		if a, b, ok := relatedUnion(single, cov); ok && !intersects(realFeatureTokens(single), rq) {
			key := fmt.Sprintf("unsound-tokens role=query covering-levels=%v cell-level=%d other-level=%d rel=%s", levels(cov), b.Level(), a.Level(), relation(a, b))
			if asBuilt && a.Level() == 0 {
				key = faceKey
			}
			return vh.Verdict{OK: false, Key: key, Obs: obs, Stats: stats,
				Msg: fmt.Sprintf("feature cell %s and query covering cell %s are related (%s) but TokensForCovering(%v) and RewriteSpatialQuery(%v) share no token; %s",
					cellOf(a), cellOf(b), relation(a, b), []mcell{cellOf(d)}, c.Cov, describe)}
		}
	}
	stats["differ_from_design_but_sound"] = 1
	return vh.Verdict{OK: true, Stats: stats, Obs: obs, Msg: "tokens differ from the design but every related pair still shares a token: " + describe}
}

// ---- adapter "chain" --------------------------------------------------------------------------------------

// tokEvent is a "tok" event of SpatialTrace.tla.
type tokEvent struct {
	Ev   string   `json:"ev"`
	F    []mcell  `json:"f"`
	Q    []mcell  `json:"q"`
	FTok []mtoken `json:"ftok"`
	QTok []mtoken `json:"qtok"`
	// not read by the spec: the harness' own judgement and the failure key, for cross-checking TLC's verdict
	GoBad bool   `json:"go_bad"`
	Key   string `json:"key,omitempty"`
	What  string `json:"what,omitempty"`
}

func cellsOf(u s2.CellUnion) []mcell {
	out := make([]mcell, len(u))
	for i, id := range u {
		out[i] = cellOf(id)
	}
	return out
}

// newTokEvent builds the event for a (feature covering, query covering) pair from real token lists and judges it.
func newTokEvent(f, q s2.CellUnion, ftok, qtok []string, context string) tokEvent {
	e := tokEvent{Ev: "tok", F: cellsOf(f), Q: cellsOf(q), FTok: toModelTokens(ftok), QTok: toModelTokens(qtok)}
	if a, b, ok := relatedUnion(f, q); ok && !intersects(ftok, qtok) {
		e.GoBad = true
		// find a related pair that explains the miss; prefer one that is not a face cell
		e.Key = fmt.Sprintf("unsound-tokens %s feature-level=%d query-level=%d rel=%s", context, a.Level(), b.Level(), relation(a, b))
		onlyFace := true
		for _, x := range f {
			for _, y := range q {
				if related(x, y) && x.Level() != 0 {
					onlyFace = false
					e.Key = fmt.Sprintf("unsound-tokens %s feature-level=%d query-level=%d rel=%s", context, x.Level(), y.Level(), relation(x, y))
				}
			}
		}
		if onlyFace && sameSet(tokenSet(e.FTok), tokenSet(asBuiltFeatureTokens(f))) {
			e.Key = faceKey
		}
		e.What = fmt.Sprintf("feature covering %v and query covering %v are related but the real token sets %v / %v do not intersect", e.F, e.Q, e.FTok, e.QTok)
	}
	return e
}

// asBuiltFeatureTokens: what the as-built transcription (CellTokens.tla, SkipLevel0 = TRUE) predicts; used only
// to recognise the known level-0 finding when naming a failure.
func asBuiltFeatureTokens(cov s2.CellUnion) []mtoken {
	seen := map[string]bool{}
	out := []mtoken{}
	add := func(t mtoken) {
		if !seen[t.String()] {
			seen[t.String()] = true
			out = append(out, t)
		}
	}
	for _, id := range cov {
		if id.Level() > 0 {
			add(mtoken{K: "s2", C: cellOf(id)})
		}
		for l := id.Level() - 1; l >= 0; l-- {
			add(mtoken{K: "a2", C: cellOf(id.Parent(l))})
		}
	}
	return out
}

type chainCase struct {
	ID   int   `json:"id"`
	Seed int64 `json:"seed"`
	N    int   `json:"n"` // leaf cells to draw
}

// runChain draws random leaf cells and, for every pair of levels (lf, lq) in 0..30, pairs the ancestor at lf
// (feature role) with the ancestor at lq (query role), plus an unrelated sibling pair; real token functions.
func runChain(data json.RawMessage) vh.Verdict {
	var c chainCase
	if err := json.Unmarshal(data, &c); err != nil {
		return vh.Fail("harness-json", "bad case: %v", err)
	}
	rng := rand.New(rand.NewSource(c.Seed*1000003 + int64(c.ID)))
	events := []tokEvent{}
	var first *tokEvent
	for i := 0; i < c.N; i++ {
		leaf := s2.CellIDFromFacePosLevel(rng.Intn(6), rng.Uint64()&((1<<60)-1), 30)
		for lf := 0; lf <= 30; lf++ {
			for lq := 0; lq <= 30; lq++ {
				if (lf+lq+i)%3 != 0 && lf != 0 && lq != 0 && lf != 30 && lq != 30 && lf != lq {
					continue // a third of the interior pairs per leaf; all boundary pairs
				}
				f := s2.CellUnion{leaf.Parent(lf)}
				q := s2.CellUnion{leaf.Parent(lq)}
				if rng.Intn(4) == 0 && lf > 0 {
					// a second, unrelated feature cell: a sibling of the feature cell
					f = append(f, leaf.Parent(lf).Parent(lf - 1).Children()[(leaf.Parent(lf).ChildPosition(lf)+1)%4])
				}
				e := newTokEvent(f, q, realFeatureTokens(f), realQueryTokens(q), "chain")
				events = append(events, e)
				if e.GoBad && first == nil {
					first = &events[len(events)-1]
				}
			}
		}
	}
	v := vh.Verdict{OK: first == nil, Obs: map[string]interface{}{"events": events}, Stats: map[string]int{"chain_pairs": len(events)}}
	if first != nil {
		v.Key, v.Msg = first.Key, first.What
	}
	return v
}
