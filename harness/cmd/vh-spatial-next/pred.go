package main

import (
	"encoding/json"
	"fmt"
	"math"
	"math/rand"
	"strings"

	"diagonal.works/b6"
	"diagonal.works/b6/geometry"
	"diagonal.works/b6/ingest"
	"github.com/golang/geo/s1"
	"github.com/golang/geo/s2"
	"verif/harness/vh"
)

// C05: one predicate case.  A scene (query region + feature geometry) is built with a target row of a truth
// table of spec/SpatialPredicatesTables.tla in mind; the feature is put into a real world and read back; the
// primitive facts are computed from the geometry the feature reports, with s2 only and only when no decision is
// within the margin of flipping; the code's Query.Matches is recorded.  The event {kind, m, n, matches} is
// judged by TLC (SpatialPredicatesTrace.tla).  The adapter also evaluates the structure itself, to minimise a
// failing scene and to give the failure a canonical key; the check cross-checks the two judgements.

type predCase struct {
	ID     int      `json:"id"`
	Seed   int64    `json:"seed"`
	Kind   string   `json:"kind"`
	M      [][]bool `json:"m"` // target row (nil: draw one)
	N      [][]bool `json:"n"`
	Expect *bool    `json:"expect"` // TLC's answer for the target row
	Tries  int      `json:"tries"`
	Extra  int      `json:"extra"`  // further random scenes of the same kind
	Mutate string   `json:"mutate"` // self-test only: "flip-matches"
}

type predEvent struct {
	Kind    string   `json:"kind"`
	M       [][]bool `json:"m"`
	N       [][]bool `json:"n"`
	Matches bool     `json:"matches"`
	// not read by the spec
	Shape     string `json:"shape,omitempty"`
	HitTarget bool   `json:"hit_target"`
	Exact     *bool  `json:"exact,omitempty"` // path-vs-polygon kinds: the answer without the vertex approximation
	GoBad     bool   `json:"go_bad"`
	Key       string `json:"key,omitempty"`
	What      string `json:"what,omitempty"`
}

type scene struct {
	kind string
	// query
	qPoint s2.Point
	qLine  []s2.Point
	qPolys []*s2.Polygon
	qCap   s2.Cap
	qCells []s2.Cell
	// feature
	fPoint s2.Point
	fLine  []s2.Point
	fPolys []*s2.Polygon
}

func queryKind(kind string) string   { return kind[:strings.Index(kind, "-")] }
func featureKind(kind string) string { return kind[strings.Index(kind, "-")+1:] }

// ---- the structure, mirrored from SpatialPredicates.tla (used for minimisation and keys only; TLC is the judge)

func anyTrue(m [][]bool) bool {
	for _, r := range m {
		for _, x := range r {
			if x {
				return true
			}
		}
	}
	return false
}

func structure(kind string, m, n [][]bool) bool {
	if kind != "cap-area" {
		return anyTrue(m)
	}
	for i := range m {
		cnt := 0
		for _, x := range n[i] {
			if x {
				cnt++
			}
		}
		if anyTrue(m[i:i+1]) || cnt%2 == 1 {
			return true
		}
	}
	return false
}

// ---- facts ---------------------------------------------------------------------------------------------------

func pointInPolygon(p s2.Point, poly *s2.Polygon) (bool, bool) {
	if minDist(p, polygonEdges(poly)) <= margin*4 {
		return false, false
	}
	return poly.ContainsPoint(p), true
}

// polysMeet: the two polygons have a point in common (decided from vertices and edge crossings only).
func polysMeet(a, b *s2.Polygon) (bool, bool) {
	ea, eb := polygonEdges(a), polygonEdges(b)
	if !generalPosition(ea, eb) {
		return false, false
	}
	for _, v := range polygonVertices(a) {
		if b.ContainsPoint(v) {
			return true, true
		}
	}
	for _, v := range polygonVertices(b) {
		if a.ContainsPoint(v) {
			return true, true
		}
	}
	return anyCrossing(ea, eb), true
}

func cellTouchesEdges(c s2.Cell, es []edge) (bool, bool) {
	ce := cellEdges(c)
	if !generalPosition(ce, es) {
		return false, false
	}
	for _, e := range es {
		if c.ContainsPoint(e.a) || c.ContainsPoint(e.b) {
			return true, true
		}
	}
	return anyCrossing(ce, es), true
}

func cellTouchesPolygon(c s2.Cell, p *s2.Polygon) (bool, bool) {
	t, ok := cellTouchesEdges(c, polygonEdges(p))
	if !ok || t {
		return t, ok
	}
	for _, v := range cellVertices(c) {
		if p.ContainsPoint(v) {
			return true, true
		}
	}
	return false, true
}

func withinCap(c s2.Cap, d s1.Angle) (bool, bool) {
	r := c.Radius()
	if math.Abs(float64(d-r)) <= float64(margin*4) {
		return false, false
	}
	return d < r, true
}

func row(n int) []bool { return make([]bool, n) }

// facts computes the primitive facts of a scene; ok = false when some decision is too close to call.
func facts(sc *scene) (m, n [][]bool, exact *bool, ok bool) {
	setExact := func(b bool) { exact = &b }
	switch sc.kind {
	case "point-point":
		same := sc.qPoint == sc.fPoint
		if !same && sc.qPoint.Distance(sc.fPoint) <= margin*4 {
			return nil, nil, nil, false
		}
		return [][]bool{{same}}, nil, nil, true
	case "point-path", "polyline-point":
		p, line := sc.qPoint, sc.fLine
		if sc.kind == "polyline-point" {
			p, line = sc.fPoint, sc.qLine
		}
		pl := s2.Polyline(line)
		d := minDist(p, polylineEdges(&pl))
		switch {
		case d <= 1e-13:
			return [][]bool{{true}}, nil, nil, true
		case d > margin*4:
			return [][]bool{{false}}, nil, nil, true
		}
		return nil, nil, nil, false
	case "point-area", "multipolygon-point":
		p, polys := sc.qPoint, sc.fPolys
		if sc.kind == "multipolygon-point" {
			p, polys = sc.fPoint, sc.qPolys
		}
		r := row(len(polys))
		for i, poly := range polys {
			in, ok := pointInPolygon(p, poly)
			if !ok {
				return nil, nil, nil, false
			}
			r[i] = in
		}
		return [][]bool{r}, nil, nil, true
	case "polyline-area", "multipolygon-path":
		line, polys := sc.qLine, sc.fPolys
		if sc.kind == "multipolygon-path" {
			line, polys = sc.fLine, sc.qPolys
		}
		pl := s2.Polyline(line)
		crossing := false
		for _, poly := range polys {
			r := row(len(line))
			if !generalPosition(polylineEdges(&pl), polygonEdges(poly)) {
				return nil, nil, nil, false
			}
			for k, v := range line {
				r[k] = poly.ContainsPoint(v)
			}
			m = append(m, r)
			crossing = crossing || anyCrossing(polylineEdges(&pl), polygonEdges(poly))
		}
		setExact(anyTrue(m) || crossing)
		return m, nil, exact, true
	case "polyline-path":
		ql, fl := s2.Polyline(sc.qLine), s2.Polyline(sc.fLine)
		qe, fe := polylineEdges(&ql), polylineEdges(&fl)
		if !generalPosition(qe, fe) {
			return nil, nil, nil, false
		}
		for _, a := range qe {
			r := row(len(fe))
			for j, b := range fe {
				r[j] = s2.CrossingSign(a.a, a.b, b.a, b.b) == s2.Cross
			}
			m = append(m, r)
		}
		return m, nil, nil, true
	case "multipolygon-area":
		for _, a := range sc.fPolys {
			r := row(len(sc.qPolys))
			for j, b := range sc.qPolys {
				t, ok := polysMeet(a, b)
				if !ok {
					return nil, nil, nil, false
				}
				r[j] = t
			}
			m = append(m, r)
		}
		return m, nil, nil, true
	case "cap-point":
		w, ok := withinCap(sc.qCap, sc.qCap.Center().Distance(sc.fPoint))
		return [][]bool{{w}}, nil, nil, ok
	case "cap-path":
		pl := s2.Polyline(sc.fLine)
		es := polylineEdges(&pl)
		r := row(len(es))
		for j, e := range es {
			w, ok := withinCap(sc.qCap, s2.DistanceFromSegment(sc.qCap.Center(), e.a, e.b))
			if !ok {
				return nil, nil, nil, false
			}
			r[j] = w
		}
		return [][]bool{r}, nil, nil, true
	case "cap-area":
		c := sc.qCap.Center()
		for _, poly := range sc.fPolys {
			ew, ci := row(poly.NumLoops()), row(poly.NumLoops())
			for j := 0; j < poly.NumLoops(); j++ {
				l := poly.Loop(j)
				es := loopEdges(l)
				w, ok := withinCap(sc.qCap, minDist(c, es))
				if !ok || minDist(c, es) <= margin*4 {
					return nil, nil, nil, false
				}
				// every edge must be clear of the cap boundary, not only the nearest
				for _, e := range es {
					if _, ok := withinCap(sc.qCap, s2.DistanceFromSegment(c, e.a, e.b)); !ok {
						return nil, nil, nil, false
					}
				}
				ew[j] = w
				ci[j] = l.ContainsPoint(c)
			}
			m = append(m, ew)
			n = append(n, ci)
		}
		return m, n, nil, true
	case "cells-point":
		for _, c := range sc.qCells {
			in, ok := cellContains(c, sc.fPoint)
			if !ok {
				return nil, nil, nil, false
			}
			m = append(m, []bool{in})
		}
		return m, nil, nil, true
	case "cells-path":
		pl := s2.Polyline(sc.fLine)
		es := polylineEdges(&pl)
		for _, c := range sc.qCells {
			r := row(len(es))
			for j, e := range es {
				t, ok := cellTouchesEdges(c, []edge{e})
				if !ok {
					return nil, nil, nil, false
				}
				r[j] = t
			}
			m = append(m, r)
		}
		return m, nil, nil, true
	case "cells-area":
		for _, c := range sc.qCells {
			r := row(len(sc.fPolys))
			for i, p := range sc.fPolys {
				t, ok := cellTouchesPolygon(c, p)
				if !ok {
					return nil, nil, nil, false
				}
				r[i] = t
			}
			m = append(m, r)
		}
		return m, nil, nil, true
	}
	return nil, nil, nil, false
}

// ---- the real code ---------------------------------------------------------------------------------------------

func (sc *scene) query() b6.Query {
	switch queryKind(sc.kind) {
	case "point":
		return b6.IntersectsPoint{Point: sc.qPoint}
	case "polyline":
		pl := s2.Polyline(sc.qLine)
		return b6.IntersectsPolyline{Polyline: &pl}
	case "multipolygon":
		return b6.IntersectsMultiPolygon{MultiPolygon: geometry.MultiPolygon(sc.qPolys)}
	case "cap":
		return b6.NewIntersectsCap(sc.qCap)
	case "cells":
		return b6.IntersectsCells{Cells: sc.qCells}
	}
	panic("bad kind " + sc.kind)
}

// materialise puts the scene's feature into a real world and reads it back: the geometry the facts are computed
// from is the geometry the feature reports.
func (sc *scene) materialise() (b6.Feature, b6.World, error) {
	w := ingest.NewBasicMutableWorld()
	var f ingest.Feature
	switch featureKind(sc.kind) {
	case "point":
		f = &ingest.GenericFeature{ID: b6.FeatureID{Type: b6.FeatureTypePoint, Namespace: verifNS, Value: 1},
			Tags: b6.Tags{{Key: b6.PointTag, Value: b6.NewPointExpressionFromLatLng(s2.LatLngFromPoint(sc.fPoint))},
				{Key: "#amenity", Value: b6.NewStringExpression("verif")}}}
	case "path":
		var es []b6.AnyExpression
		for _, p := range sc.fLine {
			es = append(es, b6.PointExpression(s2.LatLngFromPoint(p)))
		}
		f = &ingest.GenericFeature{ID: b6.FeatureID{Type: b6.FeatureTypePath, Namespace: verifNS, Value: 2},
			Tags: b6.Tags{{Key: "#highway", Value: b6.NewStringExpression("verif")}, {Key: b6.PathTag, Value: b6.NewExpressions(es)}}}
	case "area":
		a := ingest.NewAreaFeature(len(sc.fPolys))
		a.AreaID = b6.MakeAreaID(verifNS, 3)
		a.Tags = b6.Tags{{Key: "#landuse", Value: b6.NewStringExpression("verif")}}
		for i, p := range sc.fPolys {
			a.SetPolygon(i, p)
		}
		f = a
	}
	if err := w.AddFeature(f); err != nil {
		return nil, nil, err
	}
	got := w.FindFeatureByID(f.FeatureID())
	if got == nil {
		return nil, nil, fmt.Errorf("feature not found after AddFeature")
	}
	switch featureKind(sc.kind) {
	case "point":
		sc.fPoint = got.(b6.PhysicalFeature).Point()
	case "path":
		sc.fLine = []s2.Point(*got.(b6.PhysicalFeature).Polyline())
	case "area":
		a := got.(b6.AreaFeature)
		sc.fPolys = sc.fPolys[:0]
		for i := 0; i < a.Len(); i++ {
			sc.fPolys = append(sc.fPolys, a.Polygon(i))
		}
	}
	return got, w, nil
}

// evaluate: facts, the structure's answer, the code's answer.
type outcome struct {
	m, n    [][]bool
	exact   *bool
	stable  bool
	code    bool
	panicky string
}

func evaluate(sc *scene) (outcome, error) {
	f, w, err := sc.materialise()
	if err != nil {
		return outcome{}, err
	}
	var o outcome
	o.m, o.n, o.exact, o.stable = facts(sc)
	if !o.stable {
		return o, nil
	}
	q := sc.query()
	o.panicky = vh.Catch(func() { o.code = q.Matches(f, w) })
	return o, nil
}

func (o outcome) bad(kind string) bool {
	return o.stable && (o.panicky != "" || o.code != structure(kind, o.m, o.n))
}

// ---- scene generation ------------------------------------------------------------------------------------------

type gen struct {
	rng *rand.Rand
	f   frame
	s   float64 // size unit, metres
}

func (g *gen) u(lo, hi float64) float64 { return lo + (hi-lo)*g.rng.Float64() }
func (g *gen) dir() (float64, float64) {
	a := g.rng.Float64() * 2 * math.Pi
	return math.Cos(a), math.Sin(a)
}

func shift(l []xy, dx, dy float64) []xy {
	out := make([]xy, len(l))
	for i, p := range l {
		out[i] = xy{p.X + dx, p.Y + dy}
	}
	return out
}

// rot90 rotates a shape by k quarter turns about the origin (keeps orientation).
func rot90(l []xy, k int) []xy {
	out := make([]xy, len(l))
	for i, p := range l {
		x, y := p.X, p.Y
		for j := 0; j < k%4; j++ {
			x, y = -y, x
		}
		out[i] = xy{x, y}
	}
	return out
}

// around: a loop that contains the origin with every edge at least c away.  concave shapes keep the origin
// outside their kernel (it is not on the left of every edge).
func (g *gen) around(c float64, concaveOK bool) []xy {
	switch k := g.rng.Intn(4); {
	case k == 0:
		return rect(-g.u(1.2, 4)*c, -g.u(1.2, 4)*c, g.u(1.2, 4)*c, g.u(1.2, 4)*c)
	case k == 1:
		n := 5 + g.rng.Intn(5)
		if g.rng.Intn(3) == 0 {
			n = 17 + g.rng.Intn(8)
		}
		return star(g.rng, 0, 0, 2.2*c, g.u(2.5, 5)*c, n)
	case concaveOK:
		// a tooth standing on a bar: the origin is inside the tooth
		w := g.u(2.4, 5) * c
		top := g.u(1.2, 3) * c
		y1 := -g.u(1.5, 3) * c
		y0 := y1 - g.u(1, 3)*c
		x0 := -w/2 - g.u(2, 6)*c
		x1 := w/2 + g.u(2, 6)*c
		return rot90(comb(x0, y0, x1, y1, []float64{0}, w, top), g.rng.Intn(4))
	}
	return rect(-g.u(1.2, 4)*c, -g.u(1.2, 4)*c, g.u(1.2, 4)*c, g.u(1.2, 4)*c)
}

// nearEdge: like around/away but with one straight edge at distance d from the origin (d < c); inside says on
// which side the origin is.
func (g *gen) nearEdge(d, c float64, inside bool) []xy {
	a, b, b2 := g.u(3, 8)*c, g.u(2, 5)*c, g.u(2, 5)*c
	var l []xy
	if inside {
		l = rect(-d, -b, a, b2)
	} else {
		l = rect(d, -b, d+a, b2)
	}
	return rot90(l, g.rng.Intn(4))
}

// away: a loop that does not contain the origin, every edge at least c away.
func (g *gen) away(c float64) []xy {
	dx, dy := g.dir()
	switch g.rng.Intn(3) {
	case 0:
		r := g.u(1, 4) * c
		d := r + g.u(1.5, 6)*c
		return star(g.rng, dx*d, dy*d, 0.5*r, r, 3+g.rng.Intn(6))
	case 1:
		a, b := g.u(1, 4)*c, g.u(1, 4)*c
		d := math.Hypot(a, b) + g.u(1.5, 6)*c
		return shift(rect(-a, -b, a, b), dx*d, dy*d)
	}
	// a comb whose teeth stand left and right of the origin: wraps around it without containing it
	w := g.u(1, 2) * c
	gap := g.u(1.5, 3) * c
	y1 := -g.u(1.5, 3) * c
	return rot90(comb(-gap-2*w, y1-g.u(1, 2)*c, gap+2*w, y1, []float64{-gap - w/2, gap + w/2}, w, g.u(1, 3)*c), g.rng.Intn(4))
}

func (g *gen) poly(shell []xy, holes ...[]xy) *s2.Polygon { return g.f.polygon(shell, holes...) }

func checkLoops(g *gen, loops ...[]xy) bool {
	for _, l := range loops {
		if !validLoop(lls(g.f, l)) {
			return false
		}
	}
	return true
}

func randRow(rng *rand.Rand, n int) []bool {
	r := make([]bool, n)
	for i := range r {
		r[i] = rng.Intn(2) == 0
	}
	return r
}

func randTarget(rng *rand.Rand, kind string) (m, n [][]bool) {
	k := 1 + rng.Intn(3)
	switch kind {
	case "point-point", "point-path", "polyline-point", "cap-point":
		return [][]bool{randRow(rng, 1)}, nil
	case "point-area", "multipolygon-point", "cap-path":
		return [][]bool{randRow(rng, k)}, nil
	case "cells-point":
		for i := 0; i < k; i++ {
			m = append(m, randRow(rng, 1))
		}
		return m, nil
	case "cap-area":
		for i := 0; i < 1+rng.Intn(2); i++ {
			l := 1 + rng.Intn(2)
			m = append(m, randRow(rng, l))
			n = append(n, randRow(rng, l))
		}
		return m, n
	}
	c := 1 + rng.Intn(2)
	if kind == "polyline-area" || kind == "multipolygon-path" {
		c = 2
	}
	for i := 0; i < k; i++ {
		m = append(m, randRow(rng, c))
	}
	return m, nil
}

// combFor builds polygon number i of a family of combs over vertex sites x_k = k*d on the line y = 0: the comb
// has a tooth around every site whose flag is set.
func (g *gen) combFor(i int, flags []bool, d float64, decoy bool) []xy {
	s := g.s
	var teeth []float64
	for k, on := range flags {
		if on {
			teeth = append(teeth, float64(k)*d)
		}
		if decoy && k+1 < len(flags) && g.rng.Intn(3) == 0 {
			teeth = append(teeth, (float64(k)+0.5)*d) // a tooth the line passes through without a vertex in it
		}
	}
	y1 := -(2 + 2*float64(i)) * s
	return comb(-d/2, y1-s, float64(len(flags)-1)*d+d/2, y1, teeth, s*(1+0.2*float64(i)), s*(1+0.3*float64(i)))
}

func (g *gen) sitesLine(n int, d float64) []s2.Point {
	out := make([]s2.Point, n)
	for k := range out {
		out[k] = g.f.pt(float64(k)*d, 0)
	}
	return out
}

func (g *gen) capAt(r float64) s2.Cap {
	return s2.CapFromCenterAngle(g.f.pt(0, 0), metersToAngle(r))
}

// capPolygon builds one polygon for a cap of radius r centred on the origin from the target loop facts.
func (g *gen) capPolygon(r float64, ew, ci []bool) *s2.Polygon {
	big := 12 * r
	if len(ew) == 1 {
		var shell []xy
		switch {
		case !ci[0] && !ew[0]:
			shell = g.away(1.5 * r)
		case !ci[0] && ew[0]:
			shell = g.nearEdge(g.u(0.2, 0.8)*r, r, false)
		case ci[0] && !ew[0]:
			shell = g.around(2*r, true)
		default:
			if g.rng.Intn(2) == 0 {
				shell = g.nearEdge(g.u(0.2, 0.8)*r, 2*r, true)
			} else {
				// inside a narrow tooth: concave, edges within the radius
				shell = rot90(comb(-6*r, -5*r, 6*r, -3*r, []float64{0}, g.u(0.6, 1.4)*r, g.u(2, 4)*r), g.rng.Intn(4))
			}
		}
		if !checkLoops(g, shell) {
			return nil
		}
		return g.poly(shell)
	}
	var shell, hole []xy
	switch {
	case !ci[0]: // centre outside the shell
		switch {
		case !ew[0]:
			dx, dy := g.dir()
			d := big * 2.5
			shell = shift(rect(-big, -big, big, big), dx*d, dy*d)
			hole = shift(g.around(r, true), dx*d, dy*d)
		case !ew[1]:
			x := g.u(0.2, 0.8) * r
			shell = rect(x, -big, x+2*big, big)
			hole = shift(g.around(r, true), x+big, 0)
		default:
			x := g.u(0.2, 0.5) * r
			shell = rect(x, -big, x+2*big, big)
			hole = rect(x+0.1*r, -0.3*r, x+0.3*r, 0.3*r)
		}
		k := g.rng.Intn(4)
		shell, hole = rot90(shell, k), rot90(hole, k)
	case !ci[1]: // centre in the solid part
		if ew[0] {
			x := g.u(0.2, 0.8) * r
			shell = rect(-x, -big, 2*big, big)
		} else {
			shell = rect(-big, -big, 2*big, big)
		}
		if ew[1] {
			x := g.u(0.2, 0.8) * r
			hole = rect(x, -r, x+2*r, r)
		} else {
			hole = shift(g.around(r, true), big, 0)
		}
		k := g.rng.Intn(4)
		shell, hole = rot90(shell, k), rot90(hole, k)
	default: // centre in the hole
		if ew[1] {
			hole = g.nearEdge(g.u(0.2, 0.5)*r, 2*r, true)
			if g.rng.Intn(2) == 0 {
				hole = rot90(comb(-4*r, -4*r, 4*r, -3*r, []float64{0}, g.u(0.6, 1.4)*r, g.u(2, 3)*r), g.rng.Intn(4))
			}
		} else {
			hole = g.around(2*r, true)
		}
		if ew[0] {
			// shell edge just outside the hole's near edge: only possible when the hole is near too
			shell = rect(-0.9*r, -3*big, 3*big, 3*big)
			hole = rect(-0.5*r, -2*r, 2*r, 2*r)
			k := g.rng.Intn(4)
			shell, hole = rot90(shell, k), rot90(hole, k)
		} else {
			shell = rect(-3*big, -3*big, 3*big, 3*big)
		}
	}
	if !checkLoops(g, shell, hole) {
		return nil
	}
	return g.poly(shell, hole)
}

func (g *gen) cellAt(p s2.Point, level int) s2.Cell {
	return s2.CellFromCellID(s2.CellFromPoint(p).ID().Parent(level))
}

// levelFor: the cell level whose cells are about `metres` across.
func levelFor(metres float64) int {
	l := int(math.Round(math.Log2(9.0e6 / metres)))
	if l < 2 {
		l = 2
	}
	if l > 22 {
		l = 22
	}
	return l
}

// build draws a scene of the given kind aiming at the target row.
func (g *gen) build(kind string, tm, tn [][]bool) *scene {
	sc := &scene{kind: kind}
	s := g.s
	switch kind {
	case "point-point":
		sc.fPoint = g.f.pt(g.u(-s, s), g.u(-s, s))
		if tm[0][0] {
			sc.qPoint = sc.fPoint // replaced by the feature's reported point after materialise
		} else {
			sc.qPoint = g.f.pt(g.u(2*s, 5*s), g.u(-s, s))
		}
	case "point-path", "polyline-point":
		nv := 2 + g.rng.Intn(3)
		line := make([]s2.Point, nv)
		x, y := 0.0, 0.0
		for k := range line {
			line[k] = g.f.pt(x, y)
			x += g.u(0.5, 2) * s
			y += g.u(-1, 1) * s
		}
		var p s2.Point
		if tm[0][0] {
			p = line[g.rng.Intn(nv)]
		} else {
			p = g.f.pt(g.u(0, x), y+g.u(1.5, 4)*s)
		}
		if kind == "point-path" {
			sc.fLine, sc.qPoint = line, p
		} else {
			sc.qLine, sc.fPoint = line, p
		}
	case "point-area", "multipolygon-point":
		var polys []*s2.Polygon
		for _, in := range tm[0] {
			var shell []xy
			var holes [][]xy
			c := g.u(0.3, 2) * s
			switch {
			case in && g.rng.Intn(3) == 0:
				// inside the solid part of a polygon with a hole elsewhere
				shell = rect(-8*c, -8*c, 8*c, 8*c)
				holes = append(holes, shift(g.around(c, true), 4.5*c, 0))
			case in:
				shell = g.around(c, true)
			case g.rng.Intn(3) == 0:
				// inside a hole: within the shell but not in the polygon
				shell = rect(-12*c, -12*c, 12*c, 12*c)
				holes = append(holes, g.around(c, true))
			default:
				shell = g.away(c)
			}
			if !checkLoops(g, append([][]xy{shell}, holes...)...) {
				return nil
			}
			polys = append(polys, g.poly(shell, holes...))
		}
		p := g.f.pt(0, 0)
		if kind == "point-area" {
			sc.qPoint, sc.fPolys = p, polys
		} else {
			sc.fPoint, sc.qPolys = p, polys
		}
	case "polyline-area", "multipolygon-path":
		nv := len(tm[0])
		if nv < 2 {
			return nil
		}
		d := 10 * s
		line := g.sitesLine(nv, d)
		var polys []*s2.Polygon
		for i, flags := range tm {
			l := g.combFor(i, flags, d, true)
			if !checkLoops(g, l) {
				return nil
			}
			polys = append(polys, g.poly(l))
		}
		if kind == "polyline-area" {
			sc.qLine, sc.fPolys = line, polys
		} else {
			sc.fLine, sc.qPolys = line, polys
		}
	case "polyline-path":
		nf := len(tm[0]) + 1
		nq := len(tm) + 1
		d, h := 4*s, 3*s
		for j := 0; j < nf; j++ {
			sign := 1.0
			if j%2 == 1 {
				sign = -1
			}
			sc.fLine = append(sc.fLine, g.f.pt(float64(j)*d, sign*h))
		}
		for i := 0; i < nq; i++ {
			sc.qLine = append(sc.qLine, g.f.pt(g.u(-d, float64(nf)*d), g.u(-2*h, 2*h)))
		}
	case "multipolygon-area":
		na, nb := len(tm), len(tm[0])
		d, w, h := 10*s, s, 4*s
		for a := 0; a < na; a++ {
			var l []xy
			if g.rng.Intn(3) == 0 {
				l = shift(star(g.rng, 0, h/2, 1.1*w, 1.6*w, 6+g.rng.Intn(4)), float64(a)*d, 0)
			} else {
				l = rect(float64(a)*d-w, 0, float64(a)*d+w, h)
			}
			if !checkLoops(g, l) {
				return nil
			}
			sc.fPolys = append(sc.fPolys, g.poly(l))
		}
		for b := 0; b < nb; b++ {
			var teeth []float64
			off := (float64(b) - 0.5) * 0.8 * w
			only := -1
			cnt := 0
			for a := 0; a < na; a++ {
				if tm[a][b] {
					teeth = append(teeth, float64(a)*d+off)
					only = a
					cnt++
				}
			}
			var l []xy
			if cnt == 1 && g.rng.Intn(3) == 0 {
				// nested instead of crossing: a small polygon inside feature polygon `only`
				l = shift(star(g.rng, 0, 0, 0.1*w, 0.3*w, 4+g.rng.Intn(3)), float64(only)*d, h/2)
			} else {
				y1 := -(1 + float64(b)) * 3 * s
				l = comb(-d/2, y1-s, float64(na-1)*d+d/2, y1, teeth, 0.3*w, h/2)
			}
			if !checkLoops(g, l) {
				return nil
			}
			sc.qPolys = append(sc.qPolys, g.poly(l))
		}
	case "cap-point":
		r := g.u(0.2, 3) * s
		sc.qCap = g.capAt(r)
		dx, dy := g.dir()
		rho := g.u(1.05, 5) * r
		if tm[0][0] {
			rho = g.u(0, 0.95) * r
		}
		sc.fPoint = g.f.pt(dx*rho, dy*rho)
	case "cap-path":
		r := g.u(0.2, 3) * s
		sc.qCap = g.capAt(r)
		ne := len(tm[0])
		// a vertex is near when every edge next to it is to come within the radius
		for v := 0; v <= ne; v++ {
			near := true
			if v > 0 && !tm[0][v-1] {
				near = false
			}
			if v < ne && !tm[0][v] {
				near = false
			}
			if g.rng.Intn(8) == 0 {
				near = !near
			}
			dx, dy := g.dir()
			rho := g.u(2.5, 6) * r
			if near {
				rho = g.u(0.05, 0.9) * r
			}
			sc.fLine = append(sc.fLine, g.f.pt(dx*rho, dy*rho))
		}
	case "cap-area":
		r := g.u(0.2, 3) * s
		sc.qCap = g.capAt(r)
		for i := range tm {
			p := g.capPolygon(r, tm[i], tn[i])
			if p == nil {
				return nil
			}
			sc.fPolys = append(sc.fPolys, p)
		}
	case "cells-point":
		sc.fPoint = g.f.pt(g.u(-s, s), g.u(-s, s))
		used := map[s2.CellID]bool{}
		for _, r := range tm {
			level := 4 + g.rng.Intn(19)
			id := s2.CellFromPoint(sc.fPoint).ID().Parent(level)
			if !r[0] {
				id = id.EdgeNeighbors()[g.rng.Intn(4)]
				if g.rng.Intn(3) == 0 {
					id = id.Parent(level - 1).Children()[g.rng.Intn(4)]
				}
			}
			if used[id] {
				return nil
			}
			used[id] = true
			sc.qCells = append(sc.qCells, s2.CellFromCellID(id))
		}
	case "cells-path":
		ne := len(tm[0])
		pts := []xy{{0, 0}}
		for j := 0; j < ne; j++ {
			dx, dy := g.dir()
			l := g.u(2, 5) * s
			pts = append(pts, xy{pts[j].X + dx*l, pts[j].Y + dy*l})
		}
		for _, p := range pts {
			sc.fLine = append(sc.fLine, g.f.pt(p.X, p.Y))
		}
		for _, r := range tm {
			level := levelFor(g.u(0.3, 1.5) * s)
			var at xy
			var touch []int
			for j, t := range r {
				if t {
					touch = append(touch, j)
				}
			}
			switch {
			case len(touch) == 0:
				dx, dy := g.dir()
				at = xy{pts[0].X + dx*12*s, pts[0].Y + dy*12*s}
			case len(touch) == 1:
				j := touch[0]
				t := g.u(0.35, 0.65)
				if ne == 2 { // keep away from the shared vertex
					t = 0.25
					if j == 1 {
						t = 0.75
					}
				}
				at = xy{pts[j].X + t*(pts[j+1].X-pts[j].X), pts[j].Y + t*(pts[j+1].Y-pts[j].Y)}
			default:
				at = pts[1]
				if g.rng.Intn(2) == 0 {
					level = levelFor(40 * s) // a cell that contains everything
				}
			}
			sc.qCells = append(sc.qCells, g.cellAt(g.f.pt(at.X, at.Y), level))
		}
	case "cells-area":
		np := len(tm[0])
		d := 30 * s
		type site struct {
			c    xy
			hole bool
		}
		var sites []site
		for i := 0; i < np; i++ {
			c := xy{float64(i) * d, 0}
			shell := shift(star(g.rng, 0, 0, 3*s, 5*s, 5+g.rng.Intn(5)), c.X, c.Y)
			hole := g.rng.Intn(2) == 0
			if hole {
				hl := shift(star(g.rng, 0, 0, 1.2*s, 1.6*s, 5+g.rng.Intn(3)), c.X, c.Y)
				if !checkLoops(g, shell, hl) {
					return nil
				}
				sc.fPolys = append(sc.fPolys, g.poly(shell, hl))
			} else {
				if !checkLoops(g, shell) {
					return nil
				}
				sc.fPolys = append(sc.fPolys, g.poly(shell))
			}
			sites = append(sites, site{c, hole})
		}
		for _, r := range tm {
			var touch []int
			for i, t := range r {
				if t {
					touch = append(touch, i)
				}
			}
			var at xy
			level := levelFor(g.u(0.2, 0.8) * s)
			switch {
			case len(touch) == 0 && g.rng.Intn(2) == 0 && sites[0].hole:
				at = sites[0].c // a small cell in the middle of the hole: inside the shell, not touching the polygon
			case len(touch) == 0:
				dx, dy := g.dir()
				at = xy{dx * 12 * s, dy*12*s + 14*s}
			case len(touch) == 1:
				c := sites[touch[0]].c
				switch g.rng.Intn(3) {
				case 0: // deep in the solid ring
					dx, dy := g.dir()
					at = xy{c.X + dx*2.3*s, c.Y + dy*2.3*s}
				case 1: // on the boundary
					v := s2.LatLngFromPoint(sc.fPolys[touch[0]].Loop(0).Vertex(0))
					sc.qCells = append(sc.qCells, g.cellAt(s2.PointFromLatLng(v), level))
					continue
				default: // a cell that contains the whole polygon (and not the next one)
					at = c
					level = levelFor(14 * s)
				}
			default:
				at = xy{d / 2, 0}
				level = levelFor(120 * s)
			}
			sc.qCells = append(sc.qCells, g.cellAt(g.f.pt(at.X, at.Y), level))
		}
		seen := map[s2.CellID]bool{}
		for _, c := range sc.qCells {
			if seen[c.ID()] {
				return nil
			}
			seen[c.ID()] = true
		}
	}
	return sc
}

func sameMatrix(a, b [][]bool) bool {
	if len(a) != len(b) {
		return false
	}
	for i := range a {
		if len(a[i]) != len(b[i]) {
			return false
		}
		for j := range a[i] {
			if a[i][j] != b[i][j] {
				return false
			}
		}
	}
	return true
}

// shapeClass: cap-area only (the only predicate whose hand-written code depends on convexity).
func shapeClass(sc *scene) string {
	if sc.kind != "cap-area" {
		return ""
	}
	for _, p := range sc.fPolys {
		for j := 0; j < p.NumLoops(); j++ {
			if !isConvexLoop(p.Loop(j)) {
				return "concave"
			}
		}
	}
	return "convex"
}

// minimise removes parts of a failing scene while it keeps failing.
func minimise(sc *scene) *scene {
	cur := sc
	try := func(next *scene) bool {
		o, err := evaluate(next)
		if err == nil && o.bad(next.kind) {
			cur = next
			return true
		}
		return false
	}
	clone := func() *scene {
		c := *cur
		c.qLine = append([]s2.Point(nil), cur.qLine...)
		c.fLine = append([]s2.Point(nil), cur.fLine...)
		c.qPolys = append([]*s2.Polygon(nil), cur.qPolys...)
		c.fPolys = append([]*s2.Polygon(nil), cur.fPolys...)
		c.qCells = append([]s2.Cell(nil), cur.qCells...)
		return &c
	}
	for changed := true; changed; {
		changed = false
		for i := 0; i < len(cur.qPolys) && len(cur.qPolys) > 1; i++ {
			c := clone()
			c.qPolys = append(c.qPolys[:i], c.qPolys[i+1:]...)
			if try(c) {
				changed = true
				i--
			}
		}
		for i := 0; i < len(cur.fPolys) && len(cur.fPolys) > 1; i++ {
			c := clone()
			c.fPolys = append(c.fPolys[:i], c.fPolys[i+1:]...)
			if try(c) {
				changed = true
				i--
			}
		}
		for i := 0; i < len(cur.qCells) && len(cur.qCells) > 1; i++ {
			c := clone()
			c.qCells = append(c.qCells[:i], c.qCells[i+1:]...)
			if try(c) {
				changed = true
				i--
			}
		}
		for i := 0; i < len(cur.qLine) && len(cur.qLine) > 2; i++ {
			c := clone()
			c.qLine = append(c.qLine[:i], c.qLine[i+1:]...)
			if try(c) {
				changed = true
				i--
			}
		}
		for i := 0; i < len(cur.fLine) && len(cur.fLine) > 2; i++ {
			c := clone()
			c.fLine = append(c.fLine[:i], c.fLine[i+1:]...)
			if try(c) {
				changed = true
				i--
			}
		}
		// drop holes
		for which, polys := range [][]*s2.Polygon{cur.qPolys, cur.fPolys} {
			for i, p := range polys {
				if p.NumLoops() > 1 {
					c := clone()
					np := s2.PolygonFromLoops([]*s2.Loop{s2.LoopFromPoints(p.Loop(0).Vertices())})
					if which == 0 {
						c.qPolys[i] = np
					} else {
						c.fPolys[i] = np
					}
					if try(c) {
						changed = true
					}
				}
			}
		}
	}
	return cur
}

func describeScene(sc *scene) string {
	ll := func(p s2.Point) string {
		l := s2.LatLngFromPoint(p)
		return fmt.Sprintf("%.9f,%.9f", l.Lat.Degrees(), l.Lng.Degrees())
	}
	pts := func(ps []s2.Point) string {
		out := []string{}
		for _, p := range ps {
			out = append(out, ll(p))
		}
		return "[" + strings.Join(out, " ") + "]"
	}
	polys := func(ps []*s2.Polygon) string {
		out := []string{}
		for _, p := range ps {
			ls := []string{}
			for j := 0; j < p.NumLoops(); j++ {
				ls = append(ls, pts(p.Loop(j).Vertices()))
			}
			out = append(out, "{"+strings.Join(ls, " ")+"}")
		}
		return strings.Join(out, " ")
	}
	var q, f string
	switch queryKind(sc.kind) {
	case "point":
		q = "point " + ll(sc.qPoint)
	case "polyline":
		q = "polyline " + pts(sc.qLine)
	case "multipolygon":
		q = "multipolygon " + polys(sc.qPolys)
	case "cap":
		q = fmt.Sprintf("cap centre %s radius %.4f m", ll(sc.qCap.Center()), float64(sc.qCap.Radius())*earthRadiusM)
	case "cells":
		ts := []string{}
		for _, c := range sc.qCells {
			ts = append(ts, c.ID().ToToken())
		}
		q = "cells " + strings.Join(ts, ",")
	}
	switch featureKind(sc.kind) {
	case "point":
		f = "point " + ll(sc.fPoint)
	case "path":
		f = "path " + pts(sc.fLine)
	case "area":
		f = "area " + polys(sc.fPolys)
	}
	return "query " + q + "; feature " + f
}

func mjson(m [][]bool) string {
	if m == nil {
		return "[]"
	}
	b, _ := json.Marshal(m)
	return string(b)
}

func runPred(data json.RawMessage) vh.Verdict {
	var c predCase
	if err := json.Unmarshal(data, &c); err != nil {
		return vh.Fail("harness-json", "bad case: %v", err)
	}
	rng := rand.New(rand.NewSource(c.Seed*6151 + int64(c.ID)*7919 + 3))
	if c.Tries == 0 {
		c.Tries = 40
	}
	stats := map[string]int{}
	var events []predEvent
	var first *predEvent
	emit := func(sc *scene, o outcome, hit bool) {
		e := predEvent{Kind: sc.kind, M: o.m, N: o.n, Matches: o.code, Shape: shapeClass(sc), HitTarget: hit, Exact: o.exact}
		if e.N == nil {
			e.N = [][]bool{}
		}
		if o.exact != nil && *o.exact != structure(sc.kind, o.m, o.n) {
			stats["vertex_approximation_differs_from_exact"]++
		}
		if o.bad(sc.kind) {
			min := minimise(sc)
			mo, _ := evaluate(min)
			e.GoBad = true
			if o.panicky != "" {
				e.Key = fmt.Sprintf("%s panic m=%s n=%s", sc.kind, mjson(mo.m), mjson(mo.n))
				e.What = "Matches panicked: " + o.panicky
			} else {
				e.Key = fmt.Sprintf("%s m=%s n=%s code=%v", min.kind, mjson(mo.m), mjson(mo.n), mo.code)
				if s := shapeClass(min); s != "" {
					e.Key += " loops=" + s
				}
				e.What = fmt.Sprintf("facts m=%s n=%s: the specification says %v, Matches returned %v. Minimal scene (facts m=%s n=%s, Matches %v): %s",
					mjson(o.m), mjson(o.n), structure(sc.kind, o.m, o.n), o.code, mjson(mo.m), mjson(mo.n), mo.code, describeScene(min))
			}
		}
		if c.Mutate == "flip-matches" && len(events) == 0 {
			e.Matches = !e.Matches // self-test of the binding: the adapter's own judgement is left as it was
		}
		events = append(events, e)
		if e.GoBad && first == nil {
			first = &events[len(events)-1]
		}
	}
	origins := [][2]float64{{51.5353, -0.1249}, {0.0101, 0.0102}, {-33.9, 151.2}, {40.01, -100.02}, {64.1, 20.3}}
	attempt := func(tm, tn [][]bool) (*scene, outcome, bool) {
		o := origins[rng.Intn(len(origins))]
		g := &gen{rng: rng, f: frame{o[0] + rng.Float64()*0.01, o[1] + rng.Float64()*0.01}, s: logUniform(rng, 5, 3000)}
		sc := g.build(c.Kind, tm, tn)
		if sc == nil {
			stats["scenes_not_buildable"]++
			return nil, outcome{}, false
		}
		if c.Kind == "point-point" && tm[0][0] {
			// the query point must be the feature's own reported point
			probe := *sc
			if _, _, err := probe.materialise(); err == nil {
				sc.qPoint = probe.fPoint
			}
		}
		if c.Kind == "point-path" && tm[0][0] {
			probe := *sc
			if _, _, err := probe.materialise(); err == nil && len(probe.fLine) > 0 {
				sc.qPoint = probe.fLine[rng.Intn(len(probe.fLine))]
			}
		}
		if c.Kind == "polyline-point" && tm[0][0] {
			probe := *sc
			if _, _, err := probe.materialise(); err == nil {
				sc.qLine[rng.Intn(len(sc.qLine))] = probe.fPoint
			}
		}
		out, err := evaluate(sc)
		if err != nil {
			stats["scenes_rejected_by_world"]++
			return nil, outcome{}, false
		}
		if !out.stable {
			stats["scenes_discarded_near_a_boundary"]++
			return nil, outcome{}, false
		}
		return sc, out, true
	}
	// the target row: up to Tries attempts; the first stable scene that realises it is recorded, otherwise the
	// last stable scene (whatever it realises)
	if c.M != nil {
		var lastSc *scene
		var lastOut outcome
		hit := false
		for t := 0; t < c.Tries && !hit; t++ {
			sc, out, ok := attempt(c.M, c.N)
			if !ok {
				continue
			}
			lastSc, lastOut = sc, out
			hit = sameMatrix(out.m, c.M) && (c.Kind != "cap-area" || sameMatrix(out.n, c.N))
		}
		if lastSc != nil {
			emit(lastSc, lastOut, hit)
			if hit {
				stats["rows_realised"]++
				if c.Expect != nil && first == nil && lastOut.code != *c.Expect {
					// cannot happen unless the adapter's structure and TLC's disagree
					return vh.Verdict{OK: false, Key: "harness-structure-disagrees-with-tlc " + c.Kind, Msg: fmt.Sprintf("m=%s n=%s", mjson(c.M), mjson(c.N))}
				}
			} else {
				stats["rows_not_realised"]++
			}
		} else {
			stats["rows_not_realised"]++
		}
	}
	for i := 0; i < c.Extra; i++ {
		tm, tn := randTarget(rng, c.Kind)
		if sc, out, ok := attempt(tm, tn); ok {
			emit(sc, out, false)
		}
	}
	stats["scenes"] = len(events)
	v := vh.Verdict{OK: first == nil, Obs: map[string]interface{}{"events": events}, Stats: stats}
	if first != nil {
		v.Key, v.Msg = first.Key, first.What
	}
	return v
}
