// vh-service: executes Service.tla configurations on the real b6 front ends (C40, C26).
//
// A case names a base world, the world IDs present at the start and one request per client (the request
// records of Service.tla).  The adapter builds the real expressions, runs them against
// grpc.NewB6Service (path "grpc") or api.Evaluator.EvaluateExpression under the caller's read lock as the UI
// does (path "ui"), and judges what it observed against the expectation TLC computed:
//
//	mode serial  the requests run one at a time in the given order; final worlds and every response must
//	             equal the spec's (C26: error iff apply failed, IDs; C40: the serial reference is the real one)
//	mode conc    the clients start together; final worlds must be one of the serial outcomes
//	mode gated   (needs the verifhook call sites) a TLC schedule is replayed through gates
//
// Monitors taken from invariants of the spec: ApplyExclusive (a change that went through the upgrade is
// applied while the write lock is held), OneWorldPerID (without deletions every client gets the same
// world object for an ID), deadlock freedom (every request returns).
package main

import (
	"context"
	"encoding/json"
	"fmt"
	"math/rand"
	"runtime"
	"sort"
	"strconv"
	"strings"
	"sync"
	"sync/atomic"
	"time"

	"diagonal.works/b6"
	"diagonal.works/b6/api"
	"diagonal.works/b6/api/functions"
	b6grpc "diagonal.works/b6/grpc"
	"diagonal.works/b6/ingest"
	pb "diagonal.works/b6/proto"
	"github.com/golang/geo/s2"
	"verif/harness/vh"
)

// ---------------------------------------------------------------- case format

type request struct {
	K string `json:"k"`
	W string `json:"w"`
	F string `json:"f"`
	G string `json:"g"`
	C string `json:"c"`
	T string `json:"t"`
	X string `json:"x"`
}

type featState struct {
	P bool     `json:"p"`
	T []string `json:"t"`
}

type expResp struct {
	Err bool     `json:"err"`
	IDs []string `json:"ids"`
	N   int      `json:"n"`
	Ws  []string `json:"ws"`
}

type svcCase struct {
	ID         int                  `json:"id"`
	Mode       string               `json:"mode"`
	Path       string               `json:"path"`
	Worlds     []string             `json:"worlds"`
	InitWorlds []string             `json:"init_worlds"`
	Feats      []string             `json:"feats"`
	Tags       []string             `json:"tags"`
	Base       map[string]featState `json:"base"`
	Reqs       []request            `json:"reqs"`
	Order      []int                `json:"order"`  // serial: clients (1-based) in execution order
	Final      string               `json:"final"`  // serial: canonical expected final worlds
	Resp       []expResp            `json:"resp"`   // serial: expected response per client
	Serial     []string             `json:"serial"` // conc/gated: canonical finals of the serial executions
	Model      []string             `json:"model"`  // conc/gated: canonical finals the protocol model can reach
	Sched      [][]interface{}      `json:"sched"`  // gated: [[client, action], ...]
	Want       string               `json:"want"`   // gated: the final the schedule gives in the model
	Reps       int                  `json:"reps"`
	Sig        string               `json:"sig"`   // canonical signature of the request multiset
	Cause      string               `json:"cause"` // conc/gated: signature of the non-serializable core (if the model has one)
	Perturb    bool                 `json:"perturb"`
	CheckResp  bool                 `json:"check_resp"`
	CheckWorld bool                 `json:"check_world"`
	// Cancel "mutation" (serial, grpc): the request's context is cancelled the moment its change starts to be
	// applied (first mutating call on a world), as when a client gives up while its request waits for or
	// holds the write lock. Whether the change was applied is still what the response has to say.
	Cancel string `json:"cancel"`
}

// ---------------------------------------------------------------- naming

func num(s string) uint64 { n, _ := strconv.ParseUint(s[1:], 10, 64); return n }

func featID(f string) b6.FeatureID {
	if strings.HasPrefix(f, "c") {
		return b6.FeatureID{Type: b6.FeatureTypeCollection, Namespace: "verif", Value: num(f)}
	}
	return b6.FeatureID{Type: b6.FeatureTypePoint, Namespace: "verif", Value: num(f)}
}

func featName(id b6.FeatureID) string {
	if id.Namespace == "verif" && id.Type == b6.FeatureTypePoint {
		return fmt.Sprintf("f%d", id.Value)
	}
	if id.Namespace == "verif" && id.Type == b6.FeatureTypeCollection {
		return fmt.Sprintf("c%d", id.Value)
	}
	return id.String()
}

func worldID(w string) b6.FeatureID {
	return b6.FeatureID{Type: b6.FeatureTypeCollection, Namespace: "verif/world", Value: num(w)}
}

func worldName(id b6.FeatureID) string {
	if id == ingest.DefaultWorldFeatureID {
		return "default"
	}
	if id.Namespace == "verif/world" {
		return fmt.Sprintf("w%d", id.Value)
	}
	return id.String()
}

func featLit(f string) string { return "/" + featID(f).String() }

// expression builds the b6 expression for an evaluate request.
// tagKey: model tags are searchable ("#k") except the tag "p", a plain key that the search index does not know.
func tagKey(t string) string {
	if t == "p" {
		return "p"
	}
	return "#" + t
}

func expression(r request) string {
	tagv := fmt.Sprintf("(tag \"%s\" \"y\")", tagKey(r.T))
	switch r.K {
	case "ro":
		return fmt.Sprintf("count (find [#%s])", r.C)
	case "add":
		return fmt.Sprintf("add-tag %s %s", featLit(r.F), tagv)
	case "rm":
		return fmt.Sprintf("remove-tag %s \"%s\"", featLit(r.F), tagKey(r.T))
	case "addif":
		return fmt.Sprintf("add-tags (map (find [#%s]) {f -> tag \"#%s\" \"y\"})", r.C, r.T)
	case "rmif":
		return fmt.Sprintf("remove-tags (map (find [#%s]) {f -> \"#%s\"})", r.C, r.T)
	case "add2":
		return fmt.Sprintf("add-tags (collection (pair %s %s) (pair %s %s))", featLit(r.F), tagv, featLit(r.G), tagv)
	case "merge":
		return fmt.Sprintf("merge-changes (collection (pair 0 (add-tag %s %s)) (pair 1 (add-tag %s %s)))", featLit(r.F), tagv, featLit(r.G), tagv)
	case "addpt":
		if strings.HasPrefix(r.F, "c") {
			return fmt.Sprintf("add-collection %s (collection (pair 0 %s)) (collection (pair 1 2))", featLit(r.F), tagv)
		}
		return fmt.Sprintf("add-point (ll 51.5 -0.1) %s (collection (pair 0 %s))", featLit(r.F), tagv)
	case "badpt":
		// a path with a single point fails validation
		return fmt.Sprintf("add-point (ll 51.5 -0.1) /path/verif/%d (collection (pair 0 %s))", num(r.F), tagv)
	case "awc":
		return fmt.Sprintf("add-world-with-change /%s (add-tag %s %s)", worldID(r.X).String(), featLit(r.F), tagv)
	}
	return ""
}

// ---------------------------------------------------------------- monitors

func goid() int64 {
	var buf [64]byte
	n := runtime.Stack(buf[:], false)
	s := strings.TrimPrefix(string(buf[:n]), "goroutine ")
	if i := strings.IndexByte(s, ' '); i > 0 {
		id, _ := strconv.ParseInt(s[:i], 10, 64)
		return id
	}
	return -1
}

type monitor struct {
	mu         sync.Mutex
	lock       *sync.RWMutex
	clients    map[int64]int                        // goroutine -> client (1-based)
	kinds      []string                             // request kind per client (index client-1)
	wrappers   map[ingest.MutableWorld]*tracedWorld // inner world object -> wrapper
	objects    map[string][]ingest.MutableWorld     // world name -> distinct objects handed out, in order of first sight
	problems   []string                             // monitor violations: "key\x00message"
	lists      [][]string
	onMutation func() // called (once set) at the start of every mutating call made by a client
}

func (m *monitor) client() int {
	m.mu.Lock()
	defer m.mu.Unlock()
	return m.clients[goid()]
}

func (m *monitor) problem(key, msg string) {
	m.mu.Lock()
	defer m.mu.Unlock()
	m.problems = append(m.problems, key+"\x00"+msg)
}

type tracedWorlds struct {
	inner *ingest.MutableWorlds
	mon   *monitor
}

func (t *tracedWorlds) FindOrCreateWorld(id b6.FeatureID) ingest.MutableWorld {
	w := t.inner.FindOrCreateWorld(id)
	if !id.IsValid() {
		id = ingest.DefaultWorldFeatureID
	}
	m := t.mon
	m.mu.Lock()
	defer m.mu.Unlock()
	tw, ok := m.wrappers[w]
	if !ok {
		tw = &tracedWorld{MutableWorld: w, mon: m, name: worldName(id)}
		m.wrappers[w] = tw
		m.objects[tw.name] = append(m.objects[tw.name], w)
	}
	return tw
}

func (t *tracedWorlds) ListWorlds() []b6.FeatureID {
	ids := t.inner.ListWorlds()
	names := make([]string, len(ids))
	for i, id := range ids {
		names[i] = worldName(id)
	}
	t.mon.mu.Lock()
	t.mon.lists = append(t.mon.lists, names)
	t.mon.mu.Unlock()
	return ids
}

func (t *tracedWorlds) DeleteWorld(id b6.FeatureID) { t.inner.DeleteWorld(id) }

// tracedWorld forwards everything to the real world object and checks the lock discipline on mutations.
type tracedWorld struct {
	ingest.MutableWorld
	mon  *monitor
	name string
}

// mutation is called at the start of every mutating call on a world that is (or was) in the worlds map.
// Spec invariant ApplyExclusive: a change that went through the read->write upgrade is applied while the
// write lock is held (TryRLock fails exactly when a writer is active or announced).  Changes applied by
// add-world-with-change run under the read lock (action AwcApply), so there only "some lock is held" is checked.
func (t *tracedWorld) mutation(op string) {
	m := t.mon
	c := m.client()
	if c == 0 {
		return // set-up code of the harness
	}
	kind := m.kinds[c-1]
	m.mu.Lock()
	f := m.onMutation
	m.mu.Unlock()
	if f != nil {
		f()
	}
	if m.lock.TryLock() {
		m.lock.Unlock()
		m.problem("mutation-without-any-lock:"+kind, fmt.Sprintf("client %d (%s): %s on world %s while nobody holds the service lock", c, kind, op, t.name))
		return
	}
	if kind != "awc" {
		if m.lock.TryRLock() {
			m.lock.RUnlock()
			m.problem("apply-without-write-lock:"+kind, fmt.Sprintf("client %d (%s): %s on world %s while the write lock is not held (spec: ApplyExclusive)", c, kind, op, t.name))
		}
	}
}

// read is called on searches and lookups: spec invariant LockInv (a client between RLock and RUnlock is an active
// reader): whoever evaluates on a world holds the service lock at least for reading.
func (t *tracedWorld) read(op string) {
	m := t.mon
	c := m.client()
	if c == 0 {
		return
	}
	if m.lock.TryLock() {
		m.lock.Unlock()
		m.problem("read-without-lock:"+m.kinds[c-1], fmt.Sprintf("client %d (%s): %s on world %s while nobody holds the service lock (spec: LockInv)", c, m.kinds[c-1], op, t.name))
	}
}

func (t *tracedWorld) FindFeatures(q b6.Query) b6.Features {
	t.read("FindFeatures")
	return t.MutableWorld.FindFeatures(q)
}
func (t *tracedWorld) FindFeatureByID(id b6.FeatureID) b6.Feature {
	t.read("FindFeatureByID")
	return t.MutableWorld.FindFeatureByID(id)
}

func (t *tracedWorld) AddFeature(f ingest.Feature) error {
	t.mutation("AddFeature")
	return t.MutableWorld.AddFeature(f)
}
func (t *tracedWorld) AddTag(id b6.FeatureID, tag b6.Tag) error {
	t.mutation("AddTag")
	return t.MutableWorld.AddTag(id, tag)
}
func (t *tracedWorld) RemoveTag(id b6.FeatureID, key string) error {
	t.mutation("RemoveTag")
	return t.MutableWorld.RemoveTag(id, key)
}

// ---------------------------------------------------------------- system under test

type system struct {
	c      *svcCase
	inner  *ingest.MutableWorlds
	worlds *tracedWorlds
	lock   *sync.RWMutex
	mon    *monitor
	svc    pb.B6Server
	ev     *api.Evaluator
}

func newSystem(c *svcCase) *system {
	base := ingest.NewBasicMutableWorld()
	names := make([]string, 0, len(c.Base))
	for f := range c.Base {
		names = append(names, f)
	}
	sort.Strings(names)
	for _, f := range names {
		st := c.Base[f]
		if !st.P {
			continue
		}
		id := featID(f)
		tags := []b6.Tag{{Key: b6.PointTag, Value: b6.NewPointExpressionFromLatLng(s2.LatLngFromDegrees(51.5, -0.1+float64(id.Value)*0.001))}}
		for _, t := range st.T {
			tags = append(tags, b6.Tag{Key: "#" + t, Value: b6.NewStringExpression("y")})
		}
		if err := base.AddFeature(&ingest.GenericFeature{ID: id, Tags: tags}); err != nil {
			panic("harness: cannot build the base world: " + err.Error())
		}
	}
	s := &system{c: c, lock: &sync.RWMutex{}}
	s.inner = &ingest.MutableWorlds{Base: base}
	kinds := make([]string, len(c.Reqs))
	for i, r := range c.Reqs {
		kinds[i] = r.K
	}
	s.mon = &monitor{lock: s.lock, clients: map[int64]int{}, kinds: kinds,
		wrappers: map[ingest.MutableWorld]*tracedWorld{}, objects: map[string][]ingest.MutableWorld{}}
	s.worlds = &tracedWorlds{inner: s.inner, mon: s.mon}
	for _, w := range c.InitWorlds {
		s.worlds.FindOrCreateWorld(worldID(w))
	}
	s.svc = b6grpc.NewB6Service(s.worlds, api.Options{Cores: 1}, s.lock)
	s.ev = &api.Evaluator{Worlds: s.worlds, FunctionSymbols: functions.Functions(), Adaptors: functions.Adaptors(),
		Options: api.Options{Cores: 1}, Lock: s.lock}
	return s
}

type respObs struct {
	Err bool     `json:"err"`
	Msg string   `json:"msg,omitempty"`
	IDs []string `json:"ids"`
	N   int      `json:"n"`
	Ws  []string `json:"ws"`
}

type prepared struct {
	req   request
	expr  b6.Expression
	proto *pb.NodeProto
}

func prepare(r request) (prepared, error) {
	p := prepared{req: r}
	if r.K == "del" || r.K == "list" || r.K == "idle" {
		return p, nil
	}
	src := expression(r)
	if src == "" {
		return p, fmt.Errorf("no expression for request kind %q", r.K)
	}
	e, err := api.ParseExpression(src)
	if err != nil {
		return p, fmt.Errorf("parse %q: %v", src, err)
	}
	p.expr = e
	if p.proto, err = e.ToProto(); err != nil {
		return p, fmt.Errorf("proto %q: %v", src, err)
	}
	return p, nil
}

func uniqueSorted(ids []string) []string {
	sort.Strings(ids)
	out := ids[:0]
	for i, s := range ids {
		if i == 0 || s != ids[i-1] {
			out = append(out, s)
		}
	}
	return out
}

// issue executes one request on the real front end and reports what the client is told.
func (s *system) issue(p prepared) respObs {
	o := respObs{N: -1, IDs: []string{}, Ws: []string{}}
	r := p.req
	switch r.K {
	case "idle":
		return o
	case "del":
		if _, err := s.svc.DeleteWorld(context.Background(), &pb.DeleteWorldRequestProto{Id: b6.NewProtoFromFeatureID(worldID(r.W))}); err != nil {
			o.Err, o.Msg = true, err.Error()
		}
		return o
	case "list":
		resp, err := s.svc.ListWorlds(context.Background(), &pb.ListWorldsRequestProto{})
		if err != nil {
			o.Err, o.Msg = true, err.Error()
			return o
		}
		for _, id := range resp.Ids {
			o.Ws = append(o.Ws, worldName(b6.NewFeatureIDFromProto(id)))
		}
		sort.Strings(o.Ws)
		return o
	}
	root := worldID(r.W)
	if s.c.Path == "ui" {
		// the UI handlers hold the read lock around EvaluateExpression (ui/ui.go)
		s.lock.RLock()
		v, err := s.ev.EvaluateExpression(p.expr, root)
		s.lock.RUnlock()
		if err != nil {
			o.Err, o.Msg = true, err.Error()
			return o
		}
		switch v := v.(type) {
		case *api.AppliedChange:
			keys, kerr := v.Modified.AllKeys(nil)
			if kerr != nil {
				o.Err, o.Msg = true, "modified: "+kerr.Error()
				return o
			}
			for _, k := range keys {
				o.IDs = append(o.IDs, featName(k))
			}
		case int:
			o.N = v
		case b6.UntypedCollection:
			// add-world-with-change returns the collection of modified IDs itself
			c := b6.AdaptCollection[any, any](v)
			keys, kerr := c.AllKeys(nil)
			if kerr != nil {
				o.Err, o.Msg = true, "collection: "+kerr.Error()
				return o
			}
			for _, k := range keys {
				if id, ok := k.(b6.FeatureID); ok {
					o.IDs = append(o.IDs, featName(id))
				}
			}
		default:
			o.Msg = fmt.Sprintf("result of type %T", v)
		}
		o.IDs = uniqueSorted(o.IDs)
		return o
	}
	ctx := context.Background()
	if s.c.Cancel == "mutation" {
		var cancel context.CancelFunc
		ctx, cancel = context.WithCancel(ctx)
		defer cancel()
		s.mon.mu.Lock()
		s.mon.onMutation = cancel
		s.mon.mu.Unlock()
		defer func() {
			s.mon.mu.Lock()
			s.mon.onMutation = nil
			s.mon.mu.Unlock()
		}()
	}
	resp, err := s.svc.Evaluate(ctx, &pb.EvaluateRequestProto{Request: p.proto, Version: b6.ApiVersion, Root: b6.NewProtoFromFeatureID(root)})
	if err != nil {
		o.Err, o.Msg = true, err.Error()
		return o
	}
	lit := resp.GetResult().GetLiteral()
	switch {
	case lit == nil:
		o.Msg = "response without a literal"
	case lit.GetCollectionValue() != nil:
		for _, k := range lit.GetCollectionValue().Keys {
			if id := k.GetFeatureIDValue(); id != nil {
				o.IDs = append(o.IDs, featName(b6.NewFeatureIDFromProto(id)))
			}
		}
	default:
		if _, ok := lit.Value.(*pb.LiteralNodeProto_IntValue); ok {
			o.N = int(lit.GetIntValue())
		}
	}
	o.IDs = uniqueSorted(o.IDs)
	return o
}

// observe is the projection compared with Service.tla's FinalOf: which world IDs are in the map and, for
// those, presence and "#" tag keys of every model feature.  It also cross-checks the tag search index.
func (s *system) observe() (string, map[string]interface{}, []string) {
	final := map[string]interface{}{}
	var problems []string
	for _, w := range s.c.Worlds {
		obj, ok := s.inner.Mutable[worldID(w)]
		if !ok {
			final[w] = map[string]interface{}{"e": false}
			continue
		}
		content := map[string]interface{}{}
		byTag := map[string][]string{}
		for _, f := range s.c.Feats {
			ft := obj.FindFeatureByID(featID(f))
			tags := []string{}
			if ft != nil {
				for _, t := range ft.AllTags() {
					if strings.HasPrefix(t.Key, "#") {
						tags = append(tags, t.Key[1:])
						byTag[t.Key[1:]] = append(byTag[t.Key[1:]], f)
					} else if t.Key == "p" {
						tags = append(tags, "p")
					}
				}
			}
			sort.Strings(tags)
			content[f] = map[string]interface{}{"p": ft != nil, "t": tags}
		}
		final[w] = map[string]interface{}{"e": true, "c": content}
		for _, t := range s.c.Tags {
			if t == "p" {
				continue // not indexed
			}
			var found []string
			it := obj.FindFeatures(b6.Keyed{Key: "#" + t})
			for it.Next() {
				found = append(found, featName(it.FeatureID()))
			}
			want := append([]string{}, byTag[t]...)
			sort.Strings(want)
			sort.Strings(found)
			if vh.Canon(found) != vh.Canon(want) && (len(found) > 0 || len(want) > 0) {
				problems = append(problems, fmt.Sprintf("world %s: find [#%s] = %v but the features carrying the tag are %v", w, t, found, want))
			}
		}
	}
	return vh.Canon(final), final, problems
}

func has(list []string, s string) bool {
	for _, x := range list {
		if x == s {
			return true
		}
	}
	return false
}

// sameObject checks the spec invariant OneWorldPerID on the real worlds map.
func (s *system) sameObject() string {
	deleted := map[string]bool{}
	for _, r := range s.c.Reqs {
		if r.K == "del" {
			deleted[r.W] = true
		}
		if r.K == "awc" {
			deleted[r.X] = true
		}
	}
	s.mon.mu.Lock()
	defer s.mon.mu.Unlock()
	for w, objs := range s.mon.objects {
		if !deleted[w] && len(objs) > 1 {
			return fmt.Sprintf("%d different world objects were handed out for world %s although no request deletes it", len(objs), w)
		}
	}
	for _, l := range s.mon.lists {
		seen := map[string]bool{}
		for _, w := range l {
			if seen[w] {
				return fmt.Sprintf("ListWorlds returned %s twice: %v", w, l)
			}
			seen[w] = true
		}
	}
	return ""
}

// ---------------------------------------------------------------- serial mode (C26 and the serial reference of C40)

func cancelTag(c *svcCase) string {
	if c.Cancel != "" {
		return "/cancelled-at-" + c.Cancel
	}
	return ""
}

func runSerial(c *svcCase) vh.Verdict {
	preps := make([]prepared, len(c.Reqs))
	for i, r := range c.Reqs {
		p, err := prepare(r)
		if err != nil {
			return vh.Fail("harness-expression", "%v", err)
		}
		preps[i] = p
	}
	s := newSystem(c)
	obs := map[string]interface{}{}
	before, _, _ := s.observe()
	for _, cl := range c.Order {
		r := c.Reqs[cl-1]
		if r.K == "idle" {
			continue
		}
		var got respObs
		done := make(chan struct{})
		go func() {
			defer close(done)
			s.mon.mu.Lock()
			s.mon.clients[goid()] = cl
			s.mon.mu.Unlock()
			got = s.issue(preps[cl-1])
		}()
		fin := make([]atomic.Bool, len(c.Reqs))
		if stuck, dump := waitOrDeadlock(done, s.mon, fin); len(stuck) > 0 {
			return vh.Verdict{OK: false, Key: "deadlock:" + c.Path + ":" + reqSig(r), Msg: fmt.Sprintf("request %s (%s) never returns when run alone after %v\n%s", reqSig(r), expression(r), c.Order, trim(dump, 4000))}
		}
		obs[fmt.Sprint("resp", cl)] = got
		if c.CheckResp && cl-1 < len(c.Resp) {
			want := c.Resp[cl-1]
			if want.Err && !got.Err {
				return vh.Verdict{OK: false, Key: fmt.Sprintf("apply-error-not-reported:%s%s:%s", c.Path, cancelTag(c), r.K), Obs: obs,
					Msg: fmt.Sprintf("%s: %s (%s): applying the change fails in the spec but the client is told no error (ids %v)", c.Path, reqSig(r), expression(r), got.IDs)}
			}
			if !want.Err && got.Err {
				return vh.Verdict{OK: false, Key: fmt.Sprintf("spurious-error:%s%s:%s", c.Path, cancelTag(c), reqSig(r)), Obs: obs,
					Msg: fmt.Sprintf("%s: %s (%s): applying the change succeeds in the spec but the client is told %q", c.Path, reqSig(r), expression(r), got.Msg)}
			}
			if !want.Err {
				wids := uniqueSorted(append([]string{}, want.IDs...))
				if vh.Canon(got.IDs) != vh.Canon(wids) && !(len(got.IDs) == 0 && len(wids) == 0) {
					return vh.Verdict{OK: false, Key: fmt.Sprintf("resp-ids:%s:%s", c.Path, reqSig(r)), Obs: obs,
						Msg: fmt.Sprintf("%s: %s (%s): returned IDs %v, spec %v", c.Path, reqSig(r), expression(r), got.IDs, wids)}
				}
				if want.N >= 0 && got.N != want.N {
					return vh.Verdict{OK: false, Key: fmt.Sprintf("resp-value:%s:%s", c.Path, reqSig(r)), Obs: obs,
						Msg: fmt.Sprintf("%s: %s: count %d, spec %d", c.Path, reqSig(r), got.N, want.N)}
				}
				if len(want.Ws) > 0 {
					ws := append([]string{}, want.Ws...)
					sort.Strings(ws)
					if vh.Canon(ws) != vh.Canon(got.Ws) {
						return vh.Verdict{OK: false, Key: fmt.Sprintf("resp-value:%s:%s", c.Path, reqSig(r)), Obs: obs,
							Msg: fmt.Sprintf("%s: list-worlds returned %v, spec %v", c.Path, got.Ws, ws)}
					}
				}
			}
		}
	}
	final, fobj, idx := s.observe()
	obs["final"] = fobj
	obs["before"] = before
	if probs := s.mon.problems; len(probs) > 0 {
		kv := strings.SplitN(probs[0], "\x00", 2)
		return vh.Verdict{OK: false, Key: kv[0] + ":" + c.Path, Msg: kv[1], Obs: obs}
	}
	if c.CheckWorld && final != c.Final {
		return vh.Verdict{OK: false, Key: fmt.Sprintf("serial-final:%s:%s order %v", c.Path, c.Sig, c.Order), Obs: obs,
			Msg: fmt.Sprintf("%s: requests %s run one at a time in order %v leave the worlds %s, spec %s", c.Path, c.Sig, c.Order, final, c.Final)}
	}
	if len(idx) > 0 {
		return vh.Verdict{OK: false, Key: "index-inconsistent:" + c.Sig, Msg: idx[0], Obs: obs}
	}
	if msg := s.sameObject(); msg != "" {
		return vh.Verdict{OK: false, Key: "two-worlds-for-one-id:" + c.Sig, Msg: msg, Obs: obs}
	}
	return vh.Verdict{OK: true, Stats: map[string]int{"requests_executed": len(c.Order)}}
}

func reqSig(r request) string {
	switch r.K {
	case "ro":
		return fmt.Sprintf("ro(%s;%s)", r.W, r.C)
	case "add", "rm", "addpt", "badpt":
		return fmt.Sprintf("%s(%s;%s,%s)", r.K, r.W, r.F, r.T)
	case "addif", "rmif":
		return fmt.Sprintf("%s(%s;%s->%s)", r.K, r.W, r.C, r.T)
	case "add2", "merge":
		return fmt.Sprintf("%s(%s;%s+%s,%s)", r.K, r.W, r.F, r.G, r.T)
	case "awc":
		return fmt.Sprintf("awc(%s;%s:%s,%s)", r.W, r.X, r.F, r.T)
	case "del":
		return fmt.Sprintf("del(%s)", r.W)
	}
	return r.K
}

// ---------------------------------------------------------------- concurrent and gated modes (C40)

type gateCtl struct {
	mu      sync.Mutex
	mon     *monitor
	mode    string // "perturb" or "gate"
	seed    int64
	arrive  chan arrival
	release []chan struct{} // per client
	open    atomic.Bool     // gates opened for good (divergence / end)
}

type arrival struct {
	client int
	point  string
}

func (g *gateCtl) hook(name string) {
	c := g.mon.client()
	if c == 0 {
		return
	}
	if g.mode == "perturb" {
		// seeded schedule perturbation at the yield points
		h := uint64(g.seed)*1099511628211 ^ uint64(c)*14695981039346656037 ^ uint64(len(name))*31
		for _, ch := range name {
			h = (h ^ uint64(ch)) * 1099511628211
		}
		switch h % 4 {
		case 0:
			runtime.Gosched()
		case 1:
			time.Sleep(time.Duration(h%200) * time.Microsecond)
		}
		return
	}
	if g.open.Load() {
		return
	}
	g.arrive <- arrival{c, name}
	<-g.release[c-1]
}

// gate of the real code at which the model action starts a new segment
var releaseGate = map[string]string{
	"rlock":    "start",
	"delete":   "start",
	"list":     "start",
	"find":     "service.evaluate.rlocked",
	"eval":     "service.evaluate.found",
	"lock":     "service.evaluate.upgrade",
	"rlock2":   "service.evaluate.applied",
	"awcfind":  "functions.addworld.deleted",
	"awcapply": "functions.addworld.found",
}

type concResult struct {
	final     string
	fobj      map[string]interface{}
	resps     []respObs
	stuck     []int
	diverged  string
	idx       []string
	dump      string
	monitorKV []string
}

func runConcOnce(c *svcCase, preps []prepared, rep int, gated bool) concResult {
	var res concResult
	s := newSystem(c)
	n := len(c.Reqs)
	res.resps = make([]respObs, n)
	ctl := &gateCtl{mon: s.mon, seed: vh.Seed*1000003 + int64(c.ID)*7919 + int64(rep), arrive: make(chan arrival, 4*n+4)}
	ctl.release = make([]chan struct{}, n)
	for i := range ctl.release {
		ctl.release[i] = make(chan struct{}, 8)
	}
	if gated {
		ctl.mode = "gate"
	} else {
		ctl.mode = "perturb"
	}
	if hooksAvailable && (gated || c.Perturb) {
		installHook(ctl.hook)
		defer installHook(nil)
	}
	rng := rand.New(rand.NewSource(ctl.seed))
	delays := make([]int, n)
	for i := range delays {
		if c.Perturb && rng.Intn(3) > 0 {
			delays[i] = rng.Intn(60) // microseconds of spinning before the call
		}
	}
	var ready, done sync.WaitGroup
	var start atomic.Bool
	finished := make([]atomic.Bool, n)
	finishedCh := make(chan int, n)
	for i := 0; i < n; i++ {
		if c.Reqs[i].K == "idle" {
			finished[i].Store(true)
			continue
		}
		ready.Add(1)
		done.Add(1)
		go func(i int) {
			defer done.Done()
			s.mon.mu.Lock()
			s.mon.clients[goid()] = i + 1
			s.mon.mu.Unlock()
			ready.Done()
			if gated {
				ctl.hook("start")
			} else {
				for !start.Load() {
				}
				if d := delays[i]; d > 0 {
					t0 := time.Now()
					for time.Since(t0) < time.Duration(d)*time.Microsecond {
					}
				}
			}
			res.resps[i] = s.issue(preps[i])
			finished[i].Store(true)
			finishedCh <- i + 1
		}(i)
	}
	ready.Wait()
	allDone := make(chan struct{})
	go func() { done.Wait(); close(allDone) }()
	if gated {
		res.diverged = replay(c, ctl, finished, finishedCh)
		ctl.open.Store(true)
		for i := range ctl.release {
			for k := 0; k < 8; k++ {
				select {
				case ctl.release[i] <- struct{}{}:
				default:
				}
			}
		}
		// drain late arrivals
		go func() {
			for range ctl.arrive {
			}
		}()
	} else {
		start.Store(true)
	}
	if stuck, dump := waitOrDeadlock(allDone, s.mon, finished); len(stuck) > 0 {
		res.stuck, res.dump = stuck, dump
		return res
	}
	res.final, res.fobj, res.idx = s.observe()
	res.monitorKV = s.mon.problems
	if msg := s.sameObject(); msg != "" {
		res.monitorKV = append(res.monitorKV, "two-worlds-for-one-id\x00"+msg)
	}
	return res
}

// waitOrDeadlock waits for the clients.  A wall-clock limit alone would call a slow machine a deadlock, so after
// 3 s it looks at the goroutines of the unfinished clients: a deadlock is declared only when all of them are
// parked in a blocking operation (lock, semaphore, channel) with identical stacks in two dumps 1 s apart.
func waitOrDeadlock(allDone chan struct{}, mon *monitor, finished []atomic.Bool) ([]int, string) {
	limit := time.Now().Add(90 * time.Second)
	wait := 3 * time.Second
	prev := ""
	for {
		select {
		case <-allDone:
			return nil, ""
		case <-time.After(wait):
		}
		wait = time.Second
		buf := make([]byte, 1<<18)
		dump := string(buf[:runtime.Stack(buf, true)])
		mon.mu.Lock()
		ids := map[int64]int{}
		for g, c := range mon.clients {
			if !finished[c-1].Load() {
				ids[g] = c
			}
		}
		mon.mu.Unlock()
		var stuck []int
		allBlocked := len(ids) > 0
		var mine []string
		for _, block := range strings.Split(dump, "\n\n") {
			var g int64
			var state string
			if n, _ := fmt.Sscanf(block, "goroutine %d [%s", &g, &state); n < 2 {
				continue
			}
			c, ok := ids[g]
			if !ok {
				continue
			}
			stuck = append(stuck, c)
			mine = append(mine, block)
			st := strings.TrimRight(state, "]:,")
			if st == "running" || st == "runnable" || st == "syscall" || st == "sleep" {
				allBlocked = false
			}
		}
		sort.Ints(stuck)
		cur := strings.Join(mine, "\n\n")
		if allBlocked && cur == prev {
			return stuck, cur
		}
		if allBlocked {
			prev = cur
		} else {
			prev = ""
		}
		if time.Now().After(limit) {
			return stuck, "no progress for 90 s\n" + cur
		}
	}
}

// replay drives the clients through the gates in the order of a TLC schedule.  It returns a non-empty
// description when the real code did not follow the schedule (a gate was not reached in time).
func replay(c *svcCase, ctl *gateCtl, finished []atomic.Bool, finishedCh chan int) string {
	n := len(c.Reqs)
	type ev struct {
		client int
		action string
	}
	var evs []ev
	for _, e := range c.Sched {
		if len(e) != 2 {
			continue
		}
		cl, _ := e[0].(float64)
		a, _ := e[1].(string)
		evs = append(evs, ev{int(cl), a})
	}
	parked := make([]string, n) // gate at which the client waits ("" = running)
	running := make([]bool, n)
	segEnd := make([]int, n) // index of the last schedule event of the segment the client is running
	// wait until client cl is parked or finished
	await := func(cl int, d time.Duration) bool {
		deadline := time.After(d)
		for {
			if parked[cl-1] != "" || finished[cl-1].Load() {
				running[cl-1] = false
				return true
			}
			select {
			case a := <-ctl.arrive:
				parked[a.client-1] = a.point
				running[a.client-1] = false
			case f := <-finishedCh:
				running[f-1] = false
			case <-deadline:
				return parked[cl-1] != "" || finished[cl-1].Load()
			}
		}
	}
	for cl := 1; cl <= n; cl++ {
		if c.Reqs[cl-1].K != "idle" && !await(cl, 2*time.Second) {
			return fmt.Sprintf("client %d never reached its start gate", cl)
		}
	}
	for i, e := range evs {
		gate, isRelease := releaseGate[e.action]
		if !isRelease {
			continue
		}
		// everything the schedule puts before this event must have happened
		for d := 1; d <= n; d++ {
			if d != e.client && running[d-1] && segEnd[d-1] < i {
				if !await(d, 2*time.Second) {
					return fmt.Sprintf("client %d did not finish its segment before event %d (%d %s)", d, i, e.client, e.action)
				}
			}
		}
		if !await(e.client, 2*time.Second) || finished[e.client-1].Load() {
			return fmt.Sprintf("client %d is not at a gate for event %d (%s)", e.client, i, e.action)
		}
		if parked[e.client-1] != gate {
			return fmt.Sprintf("client %d waits at %q, the schedule expects %q (event %d %s)", e.client, parked[e.client-1], gate, i, e.action)
		}
		// the segment started here ends just before the client's next release action
		end := len(evs) - 1
		for j := i + 1; j < len(evs); j++ {
			if evs[j].client == e.client {
				if _, r := releaseGate[evs[j].action]; r {
					break
				}
				end = j
			}
		}
		last := i
		for j := i + 1; j <= end && j < len(evs); j++ {
			if evs[j].client == e.client {
				last = j
			}
		}
		segEnd[e.client-1] = last
		parked[e.client-1] = ""
		running[e.client-1] = true
		ctl.release[e.client-1] <- struct{}{}
		// does another client's release come before the end of this segment?  then this client is expected
		// to block on a lock inside the segment: give it time to get there
		interleaved := false
		for j := i + 1; j < last; j++ {
			if evs[j].client != e.client {
				if _, r := releaseGate[evs[j].action]; r {
					interleaved = true
				}
			}
		}
		if interleaved {
			await(e.client, 15*time.Millisecond)
		} else if !await(e.client, 2*time.Second) {
			return fmt.Sprintf("client %d did not finish the segment started by event %d (%s) on its own", e.client, i, e.action)
		}
	}
	return ""
}

func runConc(c *svcCase, gated bool) vh.Verdict {
	if gated && !hooksAvailable {
		return vh.Verdict{OK: true, Stats: map[string]int{"gated_skipped_no_hooks": 1}}
	}
	preps := make([]prepared, len(c.Reqs))
	for i, r := range c.Reqs {
		p, err := prepare(r)
		if err != nil {
			return vh.Fail("harness-expression", "%v", err)
		}
		preps[i] = p
	}
	reps := c.Reps
	if reps < 1 {
		reps = 1
	}
	stats := map[string]int{}
	seen := map[string]int{}
	var firstBad *vh.Verdict
	for rep := 0; rep < reps; rep++ {
		res := runConcOnce(c, preps, rep, gated)
		stats["concurrent_runs"]++
		if len(res.stuck) > 0 {
			return vh.Verdict{OK: false, Key: "deadlock:" + c.Path + ":" + c.Sig, Stats: stats,
				Msg: fmt.Sprintf("%s: requests %s issued together: clients %v never return (all blocked, no progress)\n%s", c.Path, c.Sig, res.stuck, trim(res.dump, 6000))}
		}
		obs := map[string]interface{}{"final": res.fobj, "resps": res.resps, "rep": rep}
		if len(res.monitorKV) > 0 {
			kv := strings.SplitN(res.monitorKV[0], "\x00", 2)
			return vh.Verdict{OK: false, Key: kv[0] + ":" + c.Path, Msg: kv[1] + " [requests " + c.Sig + "]", Obs: obs, Stats: stats}
		}
		if len(res.idx) > 0 {
			return vh.Verdict{OK: false, Key: "index-inconsistent:" + c.Sig, Msg: res.idx[0], Obs: obs, Stats: stats}
		}
		seen[res.final]++
		if gated {
			if res.diverged != "" {
				stats["gated_diverged"]++
				obs["diverged"] = res.diverged
			} else {
				stats["gated_replayed"]++
			}
			if res.final == c.Want && res.diverged == "" {
				stats["gated_reproduced_model_outcome"]++
			}
		}
		if has(c.Serial, res.final) {
			stats["serial_outcome"]++
			continue
		}
		if firstBad != nil {
			continue
		}
		if has(c.Model, res.final) {
			// the protocol as modelled (read->write upgrade, mutation under the read lock) explains it
			cause := c.Cause
			if cause == "" {
				cause = c.Sig
			}
			firstBad = &vh.Verdict{OK: false, Key: "nonserial:" + cause, Obs: obs,
				Msg: fmt.Sprintf("%s: requests %s issued together leave the worlds %s, which no serial order produces (serial outcomes: %v); the lock protocol model reaches the same state", c.Path, c.Sig, res.final, c.Serial)}
		} else {
			firstBad = &vh.Verdict{OK: false, Key: "outcome-not-in-model:" + c.Sig, Obs: obs,
				Msg: fmt.Sprintf("%s: requests %s issued together leave the worlds %s: not a serial outcome (%v) and not reachable in the protocol model either", c.Path, c.Sig, res.final, c.Serial)}
		}
	}
	stats["distinct_finals"] = len(seen)
	if firstBad != nil {
		firstBad.Stats = stats
		return *firstBad
	}
	return vh.Verdict{OK: true, Stats: stats, Obs: map[string]interface{}{"finals": seen}}
}

func trim(s string, n int) string {
	if len(s) > n {
		return s[:n] + "\n..."
	}
	return s
}

func runCase(data json.RawMessage) vh.Verdict {
	var c svcCase
	if err := json.Unmarshal(data, &c); err != nil {
		return vh.Fail("harness-json", "bad case: %v", err)
	}
	if c.Path == "" {
		c.Path = "grpc"
	}
	switch c.Mode {
	case "serial":
		return runSerial(&c)
	case "conc":
		return runConc(&c, false)
	case "gated":
		return runConc(&c, true)
	}
	return vh.Fail("harness-mode", "unknown mode %q", c.Mode)
}

func main() {
	vh.RegisterFunc("service", runCase)
	vh.Tool("hooks", func(args []string) int {
		fmt.Printf("{\"hooks\":%v}\n", hooksAvailable)
		return 0
	})
	vh.Main()
}
