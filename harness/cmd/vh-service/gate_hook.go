//go:build verifhook

package main

import "diagonal.works/b6/verifhook"

// Built with the extra tag "verifhook" only when /repo has the verifhook package and its call sites
// (hooks/verifhook-package.diff + hooks/service-gate.diff).
const hooksAvailable = true

func installHook(f func(name string)) { verifhook.Hook = f }
