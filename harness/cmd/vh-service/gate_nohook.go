//go:build !verifhook

package main

// Without the verifhook call sites in /repo there are no gates: schedules cannot be replayed and the
// concurrent runs rely on start-time perturbation only.
const hooksAvailable = false

func installHook(f func(name string)) {}
