// vh-dp: binds spec/DouglasPeucker.tla to renderer.Simplify and the recursive reference (property C34).
//
// The spec describes both algorithms over an abstract "split oracle" (for an interval [b, e) of point indices: the
// index of the interior point farthest from the chord, or 0 if none is farther than epsilon).  For a concrete line
// that oracle is MEASURED here with the real distance function (measureSplit: the same scan and the same strict
// comparisons as the code, 8 lines - the only part of the algorithms repeated in the harness).
//
//	small    adapter (binding A): TLC enumerated every behaviour of the model for lines of n points (the oracle
//	         answers read + the kept indices).  The adapter generates seeded lines of n points, classifies each by
//	         its measured oracle (a decision tree built from the behaviours themselves), runs the real Simplify and
//	         the real reference and compares both with the indices TLC computed.  Reports which behaviours were
//	         realised by a concrete line.
//	measure  tool (binding B, first half): generates seeded lines of 2..40 points (random, integer grids with ties,
//	         collinear, closed, duplicate points, zigzags with equal distances, spikes; tolerances 0, tiny, huge,
//	         +Inf, exactly a measured distance) and writes the complete measured oracle of each for TLC.
//	line     adapter (binding B, second half): runs the real functions on one line and compares with the indices the
//	         model kept on the measured oracle (computed by TLC), plus the direct checks: iterative = reference,
//	         first/last kept, output is a subsequence of the input.
package main

import (
	"bufio"
	"encoding/json"
	"flag"
	"fmt"
	"math"
	"math/rand"
	"os"
	"sort"
	"strconv"
	"strings"

	"diagonal.works/b6/renderer"
	"github.com/golang/geo/r2"
	"verif/harness/vh"
)

// measureSplit answers the oracle question for the interval [b, e) of points with the real distance function:
// the first index with the greatest distance if that distance is > eps, else 0.
func measureSplit(points []r2.Point, eps float64, b, e int) int {
	max, maxi := 0.0, 0
	for i := b + 1; i < e-1; i++ {
		if d := renderer.VerifDistance(points[b], points[e-1], points[i]); d > max {
			max, maxi = d, i
		}
	}
	if max > eps {
		return maxi
	}
	return 0
}

// ---------------------------------------------------------------- generators

var classNames = []string{"random", "grid", "collinear", "closed", "duplicates", "zigzag", "curve", "walk", "spikes", "grid-closed", "growing", "spiral"}

func genLine(rng *rand.Rand, n int, class int) []r2.Point {
	pts := make([]r2.Point, n)
	switch classNames[class] {
	case "random":
		for i := range pts {
			pts[i] = r2.Point{X: rng.Float64() * 100, Y: rng.Float64() * 100}
		}
	case "grid", "grid-closed":
		g := 2 + rng.Intn(4)
		for i := range pts {
			pts[i] = r2.Point{X: float64(rng.Intn(g)), Y: float64(rng.Intn(g))}
		}
		if classNames[class] == "grid-closed" {
			pts[n-1] = pts[0]
		}
	case "collinear":
		dx, dy := float64(rng.Intn(5)-2), float64(rng.Intn(5)-2)
		x0, y0 := float64(rng.Intn(7)), float64(rng.Intn(7))
		for i := range pts {
			k := float64(i)
			if rng.Intn(4) == 0 {
				k = float64(rng.Intn(n)) // not monotone along the line
			}
			pts[i] = r2.Point{X: x0 + k*dx, Y: y0 + k*dy}
		}
	case "closed":
		for i := range pts {
			a := 2 * math.Pi * float64(i) / float64(n-1)
			r := 10 + rng.Float64()*3
			pts[i] = r2.Point{X: 50 + r*math.Cos(a), Y: 50 + r*math.Sin(a)}
		}
		pts[n-1] = pts[0]
	case "duplicates":
		base := make([]r2.Point, 1+rng.Intn(4))
		for i := range base {
			base[i] = r2.Point{X: float64(rng.Intn(20)), Y: float64(rng.Intn(20))}
		}
		for i := range pts {
			if i > 0 && rng.Intn(3) == 0 {
				pts[i] = pts[i-1]
			} else {
				pts[i] = base[rng.Intn(len(base))]
			}
		}
	case "zigzag":
		h := float64(1 + rng.Intn(3))
		for i := range pts {
			y := h
			if i%2 == 0 {
				y = -h
			}
			if rng.Intn(6) == 0 {
				y = 0
			}
			pts[i] = r2.Point{X: float64(i), Y: y}
		}
		pts[0].Y, pts[n-1].Y = 0, 0
	case "growing":
		// a zig-zag whose amplitude grows along the line: the point furthest from the chord is near the END of the
		// interval time after time, so the left-hand halves nest as deep as the line is long
		g := 1.1 + rng.Float64()*0.1
		for i := range pts {
			y := math.Pow(g, float64(i))
			if i%2 == 0 {
				y = -y
			}
			pts[i] = r2.Point{X: 10 * float64(i), Y: y}
		}
	case "spiral":
		// outwards from the centre
		for i := range pts {
			a := float64(i) * 2 * math.Pi / 12
			r := 1 + float64(i)*0.7
			pts[i] = r2.Point{X: r * math.Cos(a), Y: r * math.Sin(a)}
		}
	case "curve":
		f := 0.2 + rng.Float64()*2
		for i := range pts {
			x := float64(i) * 0.5
			pts[i] = r2.Point{X: x, Y: 5 * math.Sin(f*x)}
		}
	case "walk":
		x, y := 0.0, 0.0
		for i := range pts {
			pts[i] = r2.Point{X: x, Y: y}
			x += rng.NormFloat64()
			y += rng.NormFloat64()
		}
	case "spikes":
		for i := range pts {
			y := 0.0
			if rng.Intn(5) == 0 {
				y = float64(rng.Intn(7) - 3)
			}
			pts[i] = r2.Point{X: float64(i), Y: y}
		}
	}
	return pts
}

var epsNames = []string{"zero", "tiny", "huge", "inf", "exact", "scale", "scale", "scale", "unit"}

func genEps(rng *rand.Rand, pts []r2.Point, kind int) float64 {
	switch epsNames[kind] {
	case "zero":
		return 0
	case "tiny":
		return 1e-12
	case "huge":
		return []float64{1e300, math.MaxFloat64, 1e9}[rng.Intn(3)]
	case "inf":
		return math.Inf(1)
	case "exact":
		// exactly the distance of some interior point to some chord: the comparison with epsilon is strict
		n := len(pts)
		if n >= 3 {
			b := rng.Intn(n - 2)
			e := b + 3 + rng.Intn(n-b-2)
			i := b + 1 + rng.Intn(e-b-2)
			return renderer.VerifDistance(pts[b], pts[e-1], pts[i])
		}
		return 0
	case "unit":
		return float64(rng.Intn(4))
	}
	// a fraction of the extent
	minX, maxX, minY, maxY := pts[0].X, pts[0].X, pts[0].Y, pts[0].Y
	for _, p := range pts {
		minX, maxX = math.Min(minX, p.X), math.Max(maxX, p.X)
		minY, maxY = math.Min(minY, p.Y), math.Max(maxY, p.Y)
	}
	ext := math.Max(maxX-minX, maxY-minY)
	return ext * math.Pow(10, -3*rng.Float64()) * 0.5
}

// ---------------------------------------------------------------- comparing

func samePoints(a, b []r2.Point) bool {
	if len(a) != len(b) {
		return false
	}
	for i := range a {
		if a[i] != b[i] {
			return false
		}
	}
	return true
}

func pick(points []r2.Point, idx []int) ([]r2.Point, bool) {
	out := make([]r2.Point, 0, len(idx))
	for _, i := range idx {
		if i < 0 || i >= len(points) {
			return nil, false
		}
		out = append(out, points[i])
	}
	return out, true
}

func isSubsequence(sub, all []r2.Point) bool {
	j := 0
	for _, p := range all {
		if j < len(sub) && sub[j] == p {
			j++
		}
	}
	return j == len(sub)
}

func fmtPoints(ps []r2.Point) string {
	var b strings.Builder
	b.WriteByte('[')
	for i, p := range ps {
		if i > 0 {
			b.WriteByte(' ')
		}
		fmt.Fprintf(&b, "(%s,%s)", strconv.FormatFloat(p.X, 'g', -1, 64), strconv.FormatFloat(p.Y, 'g', -1, 64))
	}
	b.WriteByte(']')
	return b.String()
}

type read [3]int // b, e, answer

func readsKey(n int, reads []read) string {
	rs := append([]read{}, reads...)
	sort.Slice(rs, func(i, j int) bool {
		if rs[i][0] != rs[j][0] {
			return rs[i][0] < rs[j][0]
		}
		return rs[i][1] < rs[j][1]
	})
	var b strings.Builder
	fmt.Fprintf(&b, "n=%d oracle", n)
	for _, r := range rs {
		fmt.Fprintf(&b, " [%d,%d)->%d", r[0], r[1], r[2])
	}
	s := b.String()
	if len(s) > 160 {
		return fmt.Sprintf("n=%d oracle #%s", n, shortHash(s))
	}
	return s
}

func shortHash(s string) string {
	h := uint64(14695981039346656037)
	for i := 0; i < len(s); i++ {
		h ^= uint64(s[i])
		h *= 1099511628211
	}
	return strconv.FormatUint(h, 16)
}

// judgeLine runs the real functions on one line and compares with the model's kept indices (iterative run and
// recursive definition, both computed by TLC on the line's oracle).  Returns "" or (key suffix, message).
func judgeLine(points []r2.Point, eps float64, wantIter, wantRef []int, oracle string) (string, string) {
	var simp, iter, ref []r2.Point
	in := append([]r2.Point{}, points...)
	if p := vh.Catch(func() { simp = renderer.Simplify(in, eps) }); p != "" {
		return "simplify-panics: " + oracle, p
	}
	if !samePoints(in, points) {
		return "simplify-changes-input: " + oracle, "Simplify modified its input slice"
	}
	if p := vh.Catch(func() { iter = renderer.VerifDouglasPeuckerSimplify(in, eps) }); p != "" {
		return "iterative-panics: " + oracle, p
	}
	if p := vh.Catch(func() { ref = renderer.VerifReferenceDouglasPeuckerSimplify(in, eps) }); p != "" {
		return "reference-panics: " + oracle, p
	}
	desc := fmt.Sprintf("line %s eps %s", fmtPoints(points), strconv.FormatFloat(eps, 'g', -1, 64))
	want, ok := pick(points, wantIter)
	if !ok {
		return "harness-expectation", "model indices out of range"
	}
	if !samePoints(simp, want) {
		return "simplify-differs-from-model: " + oracle, fmt.Sprintf("Simplify returned %s, the model keeps indices %v = %s; %s", fmtPoints(simp), wantIter, fmtPoints(want), desc)
	}
	if !samePoints(iter, simp) {
		return "simplify-is-not-the-iterative-function: " + oracle, fmt.Sprintf("douglasPeuckerSimplify returned %s, Simplify %s; %s", fmtPoints(iter), fmtPoints(simp), desc)
	}
	wantR, ok := pick(points, wantRef)
	if !ok {
		return "harness-expectation", "model indices out of range"
	}
	if !samePoints(ref, wantR) {
		return "reference-differs-from-model: " + oracle, fmt.Sprintf("the reference returned %s, the recursive definition keeps indices %v = %s; %s", fmtPoints(ref), wantRef, fmtPoints(wantR), desc)
	}
	// the statement itself, directly
	if !samePoints(simp, ref) {
		return "simplify-differs-from-reference: " + oracle, fmt.Sprintf("Simplify returned %s, the reference %s; %s", fmtPoints(simp), fmtPoints(ref), desc)
	}
	if len(simp) == 0 || simp[0] != points[0] || simp[len(simp)-1] != points[len(points)-1] {
		return "endpoints-not-kept: " + oracle, fmt.Sprintf("Simplify returned %s; %s", fmtPoints(simp), desc)
	}
	if !isSubsequence(simp, points) {
		return "not-a-subsequence: " + oracle, fmt.Sprintf("Simplify returned %s; %s", fmtPoints(simp), desc)
	}
	return "", ""
}

// ---------------------------------------------------------------- binding A: all behaviours of small lines

type behaviour struct {
	Reads []read `json:"reads"`
	Out   []int  `json:"out"`
}

type smallCase struct {
	ID         int         `json:"id"`
	N          int         `json:"n"`
	Behaviours []behaviour `json:"behaviours"`
	Lines      int         `json:"lines"`
	Seed       int64       `json:"seed"`
}

type dnode struct {
	leaf     int // behaviour index, or -1
	b, e     int
	children map[int]*dnode
}

// decision builds a decision tree over the behaviours: ask about an interval every candidate has an answer for,
// branch on the answer.  It uses nothing but the behaviours TLC printed.
func decision(bs []behaviour, cand []int) (*dnode, error) {
	if len(cand) == 1 {
		return &dnode{leaf: cand[0]}, nil
	}
	// an interval read by every candidate on which they do not all agree
	type iv [2]int
	count := map[iv]int{}
	vals := map[iv]map[int]bool{}
	for _, c := range cand {
		for _, r := range bs[c].Reads {
			k := iv{r[0], r[1]}
			count[k]++
			if vals[k] == nil {
				vals[k] = map[int]bool{}
			}
			vals[k][r[2]] = true
		}
	}
	best, found := iv{}, false
	for k, c := range count {
		if c == len(cand) && len(vals[k]) > 1 {
			if !found || k[0] < best[0] || (k[0] == best[0] && k[1] > best[1]) {
				best, found = k, true
			}
		}
	}
	if !found {
		return nil, fmt.Errorf("behaviours %v cannot be told apart by a common interval", cand)
	}
	n := &dnode{leaf: -1, b: best[0], e: best[1], children: map[int]*dnode{}}
	groups := map[int][]int{}
	for _, c := range cand {
		for _, r := range bs[c].Reads {
			if r[0] == best[0] && r[1] == best[1] {
				groups[r[2]] = append(groups[r[2]], c)
			}
		}
	}
	for v, g := range groups {
		ch, err := decision(bs, g)
		if err != nil {
			return nil, err
		}
		n.children[v] = ch
	}
	return n, nil
}

func runSmall(data json.RawMessage) vh.Verdict {
	var c smallCase
	if err := json.Unmarshal(data, &c); err != nil {
		return vh.Fail("harness-json", "bad case: %v", err)
	}
	all := make([]int, len(c.Behaviours))
	for i := range all {
		all[i] = i
	}
	root, err := decision(c.Behaviours, all)
	if err != nil {
		return vh.Fail("harness-decision", "%v", err)
	}
	rng := rand.New(rand.NewSource(c.Seed*1000003 + int64(c.N)))
	hits := make([]int, len(c.Behaviours))
	realised := 0
	stats := map[string]int{"small_lines": 0}
	for l := 0; l < c.Lines; l++ {
		var pts []r2.Point
		switch l % 4 {
		case 0:
			pts = genLine(rng, c.N, 0)
		case 1:
			pts = genLine(rng, c.N, 1)
		case 2:
			pts = genLine(rng, c.N, 7)
		default:
			pts = genLine(rng, c.N, rng.Intn(len(classNames)))
		}
		eps := genEps(rng, pts, rng.Intn(len(epsNames)))
		// classify: follow the decision tree with measured answers, then confirm every answer the behaviour read
		node := root
		for node.leaf < 0 {
			ch := node.children[measureSplit(pts, eps, node.b, node.e)]
			if ch == nil {
				node = nil
				break
			}
			node = ch
		}
		if node == nil {
			return vh.Fail("harness-classify", "measured oracle of %s eps %v matches no behaviour of the model", fmtPoints(pts), eps)
		}
		bh := c.Behaviours[node.leaf]
		for _, r := range bh.Reads {
			if measureSplit(pts, eps, r[0], r[1]) != r[2] {
				return vh.Fail("harness-classify", "measured oracle of %s eps %v matches no behaviour of the model", fmtPoints(pts), eps)
			}
		}
		if hits[node.leaf] == 0 {
			realised++
		}
		hits[node.leaf]++
		stats["small_lines"]++
		if key, msg := judgeLine(pts, eps, bh.Out, bh.Out, readsKey(c.N, bh.Reads)); key != "" {
			return vh.Verdict{OK: false, Key: key, Msg: msg, Stats: stats,
				Obs: map[string]interface{}{"points": fmtPoints(pts), "eps": strconv.FormatFloat(eps, 'g', -1, 64), "behaviour": bh}}
		}
	}
	var missing []int
	for i, h := range hits {
		if h == 0 {
			missing = append(missing, i)
		}
	}
	stats["behaviours"] = len(c.Behaviours)
	stats["behaviours_realised"] = realised
	return vh.Verdict{OK: true, Stats: stats, Obs: map[string]interface{}{"n": c.N, "unrealised": missing}}
}

// ---------------------------------------------------------------- binding B

type lineRec struct {
	ID    int         `json:"id"`
	Class string      `json:"class"`
	EpsK  string      `json:"eps_kind"`
	Eps   string      `json:"eps"` // strconv 'g' -1: round-trips exactly, also +Inf
	Pts   [][2]string `json:"pts"`
	// filled in by the orchestration from TLC's CASE line for this id
	Out   []int  `json:"out,omitempty"`
	Ref   []int  `json:"ref,omitempty"`
	Reads []read `json:"reads,omitempty"`
}

func (l lineRec) points() ([]r2.Point, float64, error) {
	eps, err := strconv.ParseFloat(l.Eps, 64)
	if err != nil {
		return nil, 0, err
	}
	pts := make([]r2.Point, len(l.Pts))
	for i, p := range l.Pts {
		x, err1 := strconv.ParseFloat(p[0], 64)
		y, err2 := strconv.ParseFloat(p[1], 64)
		if err1 != nil || err2 != nil {
			return nil, 0, fmt.Errorf("bad point %v", p)
		}
		pts[i] = r2.Point{X: x, Y: y}
	}
	return pts, eps, nil
}

func measure(args []string) int {
	fs := flag.NewFlagSet("measure", flag.ExitOnError)
	seed := fs.Int64("seed", 1, "seed")
	count := fs.Int("count", 300, "number of lines")
	maxN := fs.Int("maxn", 40, "longest line")
	casesPath := fs.String("cases", "", "output: oracles for TLC (ndjson)")
	linesPath := fs.String("lines", "", "output: the lines (ndjson)")
	fs.Parse(args)
	cf, err := os.Create(*casesPath)
	if err != nil {
		fmt.Fprintln(os.Stderr, err)
		return 2
	}
	defer cf.Close()
	lf, err := os.Create(*linesPath)
	if err != nil {
		fmt.Fprintln(os.Stderr, err)
		return 2
	}
	defer lf.Close()
	cw, lw := bufio.NewWriterSize(cf, 1<<20), bufio.NewWriterSize(lf, 1<<20)
	defer cw.Flush()
	defer lw.Flush()
	rng := rand.New(rand.NewSource(*seed))
	for id := 0; id < *count; id++ {
		// mostly short lines (the interesting structure is small), some up to maxn
		var n int
		switch r := rng.Intn(10); {
		case r < 5:
			n = 2 + rng.Intn(9)
		case r < 8:
			n = 2 + rng.Intn(19)
		default:
			n = 2 + rng.Intn(*maxN-1)
		}
		class := id % len(classNames)
		if classNames[class] == "growing" || classNames[class] == "spiral" {
			n = *maxN - rng.Intn(5) // long: these classes are about the depth of nesting
		}
		epsKind := rng.Intn(len(epsNames))
		pts := genLine(rng, n, class)
		eps := genEps(rng, pts, epsKind)
		// the complete oracle: sp[b][e-1] for b in 0..n-1 (row b+1 in TLA+), e in 1..n
		sp := make([][]int, n)
		for b := 0; b < n; b++ {
			sp[b] = make([]int, n)
			for e := b + 3; e <= n; e++ {
				sp[b][e-1] = measureSplit(pts, eps, b, e)
			}
		}
		cb, _ := json.Marshal(map[string]interface{}{"id": id, "n": n, "sp": sp})
		cw.Write(cb)
		cw.WriteByte('\n')
		rec := lineRec{ID: id, Class: classNames[class], EpsK: epsNames[epsKind], Eps: strconv.FormatFloat(eps, 'g', -1, 64)}
		for _, p := range pts {
			rec.Pts = append(rec.Pts, [2]string{strconv.FormatFloat(p.X, 'g', -1, 64), strconv.FormatFloat(p.Y, 'g', -1, 64)})
		}
		lb, _ := json.Marshal(rec)
		lw.Write(lb)
		lw.WriteByte('\n')
	}
	fmt.Printf("{\"lines\":%d}\n", *count)
	return 0
}

func runLine(data json.RawMessage) vh.Verdict {
	var l lineRec
	if err := json.Unmarshal(data, &l); err != nil {
		return vh.Fail("harness-json", "bad case: %v", err)
	}
	pts, eps, err := l.points()
	if err != nil {
		return vh.Fail("harness-json", "bad case: %v", err)
	}
	// the oracle answers TLC used are the ones this line has
	for _, r := range l.Reads {
		if got := measureSplit(pts, eps, r[0], r[1]); got != r[2] {
			return vh.Fail("harness-oracle", "oracle of the case says [%d,%d)->%d, measured %d", r[0], r[1], r[2], got)
		}
	}
	if key, msg := judgeLine(pts, eps, l.Out, l.Ref, readsKey(len(pts), l.Reads)); key != "" {
		return vh.Verdict{OK: false, Key: key, Msg: msg, Obs: map[string]interface{}{"class": l.Class, "eps_kind": l.EpsK}}
	}
	return vh.Verdict{OK: true, Stats: map[string]int{"kept_points": len(l.Out), "input_points": len(pts)}}
}

func main() {
	vh.RegisterFunc("small", runSmall)
	vh.RegisterFunc("line", runLine)
	vh.Tool("measure", measure)
	vh.Main()
}
