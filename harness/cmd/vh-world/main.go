// vh-world: executes MutableWorld.tla / Overlay.tla / StaticWorld behaviours on the real worlds
// (C03 C12 C13 C14 C15 C16 C18 C37 C38).
package main

import (
	"bytes"
	"encoding/json"
	"fmt"
	"sort"
	"strings"
	"time"

	"diagonal.works/b6"
	"diagonal.works/b6/ingest"
	"diagonal.works/b6/ingest/compact"
	"github.com/golang/geo/s2"
	"verif/harness/obs"
	"verif/harness/vh"
)

// ---------------------------------------------------------------- case format

type event struct {
	Op  string       `json:"op"`
	ID  string       `json:"id"`
	F   obs.AFeature `json:"f"`
	K   string       `json:"k"`
	V   string       `json:"v"`
	OK  bool         `json:"ok"`
	G   int          `json:"g"`   // part number within a merged change
	Ops []event      `json:"ops"` // merged change
}

type expObs struct {
	Search map[string][]string `json:"search"`
	Each   []string            `json:"each"`
	AllUn  []string            `json:"allun"`
	Refs   map[string][]string `json:"refs"`
	Areas  map[string][]string `json:"areas"`
	Rels   map[string][]string `json:"rels"`
	Colls  map[string][]string `json:"colls"`
}

type expState struct {
	Eff obs.AWorld `json:"eff"`
	Obs expObs     `json:"obs"`
}

type step struct {
	Ev    event      `json:"ev"`
	Eff   obs.AWorld `json:"eff"`
	Obs   expObs     `json:"obs"`
	Snaps []expState `json:"snaps"`
}

type worldCase struct {
	ID       int                  `json:"id"`
	Impl     string               `json:"impl"` // basicmutable | overlay-basic | overlay-mutable | overlay-overlay
	Base     obs.AWorld           `json:"base"`
	Keys     []string             `json:"keys"`
	IDs      []string             `json:"ids"`
	Queries  map[string]obs.Query `json:"queries"`
	Steps    []step               `json:"steps"`
	Sections []string             `json:"sections"` // section prefixes that count for the property being checked
	Cores    int                  `json:"cores"`
	Frame    string               `json:"frame"` // where the vertex polygon lies (obs.SetFrame)
}

type mismatch struct {
	Step    int    `json:"step"`
	Section string `json:"section"`
	Key     string `json:"key"`
	Msg     string `json:"msg"`
}

// ---------------------------------------------------------------- world construction

func addAll(w ingest.MutableWorld, base obs.AWorld) error {
	for _, n := range base.Present() {
		if err := w.AddFeature(obs.ToIngest(n, base[n])); err != nil {
			return fmt.Errorf("base feature %s rejected: %v", n, err)
		}
	}
	return nil
}

func buildBasic(base obs.AWorld) (b6.World, error) {
	b := ingest.NewBasicWorldBuilder(&ingest.BuildOptions{Cores: 2})
	for _, n := range base.Present() {
		b.AddFeature(obs.ToIngest(n, base[n]))
	}
	return b.Finish(&ingest.BuildOptions{Cores: 2, FailInvalidFeatures: true, FailClockwisePaths: true})
}

func buildWorld(impl string, base obs.AWorld) (ingest.MutableWorld, error) {
	switch impl {
	case "basicmutable":
		w := ingest.NewBasicMutableWorld()
		return w, addAll(w, base)
	case "overlay-basic":
		bw, err := buildBasic(base)
		if err != nil {
			return nil, err
		}
		return ingest.NewMutableOverlayWorld(bw), nil
	case "overlay-mutable":
		bw := ingest.NewBasicMutableWorld()
		if err := addAll(bw, base); err != nil {
			return nil, err
		}
		return ingest.NewMutableOverlayWorld(bw), nil
	case "overlay-empty":
		// everything lives in the overlay's own maps
		w := ingest.NewMutableOverlayWorld(b6.EmptyWorld{})
		return w, addAll(w, base)
	case "overlay-compact":
		// the base is a compact index (built once per worker process and base, then loaded per case)
		data, err := cachedCompact(base)
		if err != nil {
			return nil, err
		}
		cw, err := compact.NewWorldFromData(data)
		if err != nil {
			return nil, err
		}
		return ingest.NewMutableOverlayWorld(cw), nil
	case "tagsoverlay":
		// MutableTagsOverlayWorld only supports AddTag and Snapshot (its search index is documented as not updated):
		// it takes part in the snapshot property only, on histories of those two operations
		bw, err := buildBasic(base)
		if err != nil {
			return nil, err
		}
		return &tagsWorld{ingest.NewMutableTagsOverlayWorld(bw)}, nil
	case "overlay-overlay":
		// half of the base in a basic world, the rest added to an overlay, a second overlay on top
		bw, err := buildBasic(base)
		if err != nil {
			return nil, err
		}
		mid := ingest.NewMutableOverlayWorld(bw)
		return ingest.NewMutableOverlayWorld(mid), nil
	}
	return nil, fmt.Errorf("unknown impl %q", impl)
}

var compactCache = map[string][]byte{}

func cachedCompact(base obs.AWorld) ([]byte, error) {
	key := obs.FrameName() + obs.Canon(base)
	if d, ok := compactCache[key]; ok {
		return d, nil
	}
	d, err := buildCompact(features(base, true, nil), 2, nil)
	if err != nil {
		return nil, err
	}
	compactCache[key] = d
	return d, nil
}

// tagsWorld adapts MutableTagsOverlayWorld to the MutableWorld interface for the operations it has.
type tagsWorld struct {
	*ingest.MutableTagsOverlayWorld
}

func (t *tagsWorld) AddFeature(f ingest.Feature) error { return fmt.Errorf("unsupported") }
func (t *tagsWorld) AddTag(id b6.FeatureID, tag b6.Tag) error {
	t.MutableTagsOverlayWorld.AddTag(id, tag)
	return nil
}
func (t *tagsWorld) RemoveTag(id b6.FeatureID, key string) error { return fmt.Errorf("unsupported") }
func (t *tagsWorld) EachModifiedFeature(each func(f b6.Feature, goroutine int) error, options *b6.EachFeatureOptions) error {
	return nil
}
func (t *tagsWorld) EachModifiedTag(each func(f ingest.ModifiedTag, goroutine int) error, options *b6.EachFeatureOptions) error {
	return nil
}

// ---------------------------------------------------------------- comparison

func implClass(impl string) string {
	if strings.HasPrefix(impl, "overlay") {
		return "overlay"
	}
	return impl
}

func diffFeature(name string, exp, got obs.AFeature) string {
	if exp.Kind != got.Kind {
		return fmt.Sprintf("%s.kind(%s->%s)", exp.Kind, exp.Kind, got.Kind)
	}
	if exp.Kind == "point" && exp.V != got.V {
		return "point.location"
	}
	if !obs.SameList(exp.Pts, got.Pts) {
		return exp.Kind + ".pts"
	}
	if obs.Canon(exp.Polys) != obs.Canon(got.Polys) {
		return exp.Kind + ".polys"
	}
	if !obs.SameList(exp.Members, got.Members) {
		return exp.Kind + ".members"
	}
	keys := vh.SortedKeys(exp.Tags)
	for _, k := range keys {
		if exp.Tags[k] != got.Tags[k] {
			cls := "plain"
			if strings.HasPrefix(k, "#") || strings.HasPrefix(k, "@") {
				cls = "searchable"
			}
			how := "wrong-value"
			if got.Tags[k] == "-" {
				how = "missing"
			} else if exp.Tags[k] == "-" {
				how = "not-removed"
			}
			return fmt.Sprintf("%s.tags[%s:%s]", exp.Kind, cls, how)
		}
	}
	for k, v := range got.Tags {
		if _, ok := exp.Tags[k]; !ok && v != "-" {
			return exp.Kind + ".tags[unexpected-key]"
		}
	}
	return ""
}

func listDiff(exp, got []string) string {
	e, g := map[string]int{}, map[string]int{}
	for _, x := range exp {
		e[x]++
	}
	for _, x := range got {
		g[x]++
	}
	var missing, extra, dup []string
	for x := range e {
		if g[x] == 0 {
			missing = append(missing, x[:1])
		}
	}
	for x, n := range g {
		if e[x] == 0 {
			if strings.Contains(x, "!") {
				extra = append(extra, "bad")
			} else {
				extra = append(extra, x[:1])
			}
		} else if n > 1 {
			dup = append(dup, x[:1])
		}
	}
	sort.Strings(missing)
	sort.Strings(extra)
	sort.Strings(dup)
	out := ""
	if len(missing) > 0 {
		out += "missing:" + strings.Join(uniq(missing), "")
	}
	if len(extra) > 0 {
		out += "extra:" + strings.Join(uniq(extra), "")
	}
	if len(dup) > 0 {
		out += "duplicate:" + strings.Join(uniq(dup), "")
	}
	if out == "" && !obs.SameList(exp, got) {
		out = "order"
	}
	return out
}

func uniq(s []string) []string {
	out := []string{}
	for i, x := range s {
		if i == 0 || x != s[i-1] {
			out = append(out, x)
		}
	}
	return out
}

type comparer struct {
	c       *worldCase
	class   string
	out     []mismatch
	persist map[string]int // section+what -> last step at which it was seen
	stop    bool           // the real world's state diverged from the specification: later steps are meaningless
}

func (cm *comparer) add(stepNo int, section, what, msg string) {
	op := "init"
	if stepNo >= 0 {
		op = opSig(cm.c.Steps[stepNo].Ev)
	}
	// A mismatch of the live world's state persists over later steps: report it once, at the step that introduced
	// it (so the key names the operation that caused it), not again after every later operation.
	if cm.persist == nil {
		cm.persist = map[string]int{}
	}
	id := section + "\x00" + what
	if last, ok := cm.persist[id]; ok && last == stepNo-1 && stepNo >= 0 && !strings.Contains(section, ":") && section != "unchanged" && section != "mutate" && section != "roundtrip" {
		cm.persist[id] = stepNo
		return
	}
	cm.persist[id] = stepNo
	key := fmt.Sprintf("%s:%s:%s:%s", cm.class, section, op, what)
	cm.out = append(cm.out, mismatch{Step: stepNo, Section: section, Key: key, Msg: msg})
}

func opSig(e event) string {
	switch e.Op {
	case "add":
		verdict := "reject"
		if e.OK {
			verdict = "accept"
		}
		return "add-" + e.F.Kind + "-" + verdict
	case "addtag", "rmtag":
		cls := "plain"
		if strings.HasPrefix(e.K, "#") {
			cls = "hash"
		} else if strings.HasPrefix(e.K, "@") {
			cls = "at"
		}
		return e.Op + "-" + cls + "-" + kindOfName(e.ID)
	}
	return e.Op
}

func kindOfName(n string) string {
	if n == "" {
		return "?"
	}
	return n[:1]
}

// compareObs compares the observation of a real world with the specification's for one state.
func (cm *comparer) compareObs(stepNo int, prefix string, exp expState, got obs.Observation) {
	for _, p := range got.Problems {
		what := p
		if i := strings.Index(p, ":"); i > 0 {
			what = p[:i]
		}
		// strip feature names so the key names the operation, not the instance
		fields := strings.Fields(what)
		if len(fields) > 3 {
			fields = fields[:3]
		}
		cm.add(stepNo, prefix+"problems", strings.Join(fields, "_"), p)
	}
	for _, n := range cm.c.IDs {
		e, ok := exp.Eff[n]
		if !ok {
			continue
		}
		if d := diffFeature(n, e, got.Features[n]); d != "" {
			cm.add(stepNo, prefix+"lookup", d, fmt.Sprintf("lookup %s: real %s, spec %s", n, obs.Canon(got.Features[n]), obs.Canon(e)))
			if prefix == "" {
				cm.stop = true
			}
		}
	}
	if d := listDiff(exp.Obs.Each, got.Each); d != "" {
		cm.add(stepNo, prefix+"each", d, fmt.Sprintf("EachFeature: real %v, spec %v", got.Each, exp.Obs.Each))
	}
	for _, qn := range vh.SortedKeys(exp.Obs.Search) {
		e, g := exp.Obs.Search[qn], got.Search[qn]
		if strings.HasPrefix(qn, "all") {
			e, g = obs.Without(e, exp.Obs.AllUn), obs.Without(g, exp.Obs.AllUn)
		}
		if d := listDiff(e, g); d != "" {
			cm.add(stepNo, prefix+"search", qkind(qn)+":"+d, fmt.Sprintf("FindFeatures %s: real %v, spec %v", qn, g, e))
		}
	}
	for _, sec := range []struct {
		name string
		exp  map[string][]string
		got  map[string][]string
	}{{"refs", exp.Obs.Refs, got.Refs}, {"areas", exp.Obs.Areas, got.Areas}, {"rels", exp.Obs.Rels, got.Rels}, {"colls", exp.Obs.Colls, got.Colls}} {
		for _, n := range cm.c.IDs {
			e, ok := sec.exp[n]
			if !ok {
				continue
			}
			if d := listDiff(e, sec.got[n]); d != "" {
				cm.add(stepNo, prefix+sec.name, "of-"+kindOfName(n)+":"+d, fmt.Sprintf("%s(%s): real %v, spec %v", sec.name, n, sec.got[n], e))
			}
		}
	}
}

func qkind(qn string) string {
	if i := strings.Index(qn, "_"); i > 0 {
		return qn[:i]
	}
	return qn
}

// validity: independent check over the real observation (C37): paths have >= 2 resolvable points, closed paths are
// counter-clockwise loops, areas refer to existing closed paths of >= 3 points.
func (cm *comparer) validity(stepNo int, got obs.Observation) {
	for _, n := range cm.c.IDs {
		f := got.Features[n]
		switch f.Kind {
		case "path":
			if len(f.Pts) < 2 {
				cm.add(stepNo, "validity", "path-too-short", fmt.Sprintf("%s has %d points", n, len(f.Pts)))
				continue
			}
			var vs []int
			bad := false
			for _, p := range f.Pts {
				if strings.HasPrefix(p, "L") {
					bad = true
					continue
				}
				pf := got.Features[p]
				if pf.Kind != "point" {
					cm.add(stepNo, "validity", "path-point-missing", fmt.Sprintf("%s references %s which is not a point in the world", n, p))
					bad = true
					break
				}
				vs = append(vs, pf.V)
			}
			if bad {
				continue
			}
			if f.Pts[0] == f.Pts[len(f.Pts)-1] {
				if cls := loopClass(vs[:len(vs)-1]); cls == "invalid" || cls == "cw" {
					cm.add(stepNo, "validity", "closed-path-"+cls, fmt.Sprintf("%s is a closed path whose loop is %s: vertices %v", n, cls, vs))
				}
			}
		case "area":
			for _, poly := range f.Polys {
				for _, p := range poly {
					if p == "polygon" {
						continue
					}
					pf := got.Features[p]
					if pf.Kind != "path" {
						cm.add(stepNo, "validity", "area-path-missing", fmt.Sprintf("%s refers to %s which is not a path in the world", n, p))
					} else if len(pf.Pts) < 3 {
						cm.add(stepNo, "validity", "area-path-short", fmt.Sprintf("%s refers to %s with %d points", n, p, len(pf.Pts)))
					} else {
						a, b := got.Features[pf.Pts[0]], got.Features[pf.Pts[len(pf.Pts)-1]]
						if a.Kind == "point" && b.Kind == "point" && a.V != b.V {
							cm.add(stepNo, "validity", "area-path-open", fmt.Sprintf("%s refers to %s which is not closed", n, p))
						}
					}
				}
			}
		}
	}
}

func loopClass(vs []int) string {
	n := len(vs)
	if n < 3 {
		return "invalid"
	}
	seen := map[int]bool{}
	dup := false
	for i := range vs {
		if vs[i] == vs[(i+1)%n] {
			return "invalid"
		}
		if seen[vs[i]] {
			dup = true
		}
		seen[vs[i]] = true
	}
	if dup {
		return "unspecified"
	}
	up := func(s []int) bool {
		for r := 0; r < n; r++ {
			ok := true
			for i := 0; i < n-1; i++ {
				if s[(r+i)%n] >= s[(r+i+1)%n] {
					ok = false
					break
				}
			}
			if ok {
				return true
			}
		}
		return false
	}
	if up(vs) {
		return "ccw"
	}
	rev := make([]int, n)
	for i := range vs {
		rev[i] = vs[n-1-i]
	}
	if up(rev) {
		return "cw"
	}
	return "unspecified"
}

// ---------------------------------------------------------------- execution

func applyOp(w ingest.MutableWorld, e event, copies *[]ingest.Feature) (err error, panicked string) {
	panicked = vh.Catch(func() {
		switch e.Op {
		case "add":
			f := obs.ToIngest(e.ID, e.F)
			withListTag(f)
			*copies = append(*copies, f)
			err = w.AddFeature(f)
		case "addtag":
			err = w.AddTag(obs.ID(e.ID), b6.Tag{Key: e.K, Value: b6.NewStringExpression(e.V)})
		case "rmtag":
			err = w.RemoveTag(obs.ID(e.ID), e.K)
		case "merged":
			// consecutive sub-changes with the same part number g form one part with several items
			var m ingest.MergedChange
			for i := 0; i < len(e.Ops); {
				j := i
				for j < len(e.Ops) && e.Ops[j].G == e.Ops[i].G && e.Ops[j].Op == e.Ops[i].Op {
					j++
				}
				switch e.Ops[i].Op {
				case "add":
					part := ingest.AddFeatures{}
					for _, sub := range e.Ops[i:j] {
						f := obs.ToIngest(sub.ID, sub.F)
						withListTag(f)
						*copies = append(*copies, f)
						part = append(part, f)
					}
					m = append(m, &part)
				case "addtag":
					part := ingest.AddTags{}
					for _, sub := range e.Ops[i:j] {
						part = append(part, ingest.AddTag{ID: obs.ID(sub.ID), Tag: b6.Tag{Key: sub.K, Value: b6.NewStringExpression(sub.V)}})
					}
					m = append(m, part)
				case "rmtag":
					part := ingest.RemoveTags{}
					for _, sub := range e.Ops[i:j] {
						part = append(part, ingest.RemoveTag{ID: obs.ID(sub.ID), Key: sub.K})
					}
					m = append(m, part)
				}
				i = j
			}
			_, err = m.Apply(w)
		}
	})
	return
}

// listTag: in cases that contain a "mutate" step, every feature handed to AddFeature also carries a LIST-valued tag
// (a key outside the model's key universe, not indexed), whose elements the caller overwrites afterwards.
var listTag = false

const listTagKey = obs.HarnessTagKey

func withListTag(f ingest.Feature) {
	if listTag {
		f.AddTag(b6.Tag{Key: listTagKey, Value: b6.NewExpressions([]b6.AnyExpression{b6.StringExpression("a"), b6.StringExpression("b"), b6.StringExpression("c")})})
	}
}

// listTags renders the list tag of every given feature as the world holds it.
func listTags(w b6.World, ids []string) string {
	var out []string
	for _, n := range ids {
		if f := w.FindFeatureByID(obs.ID(n)); f != nil {
			if t := f.Get(listTagKey); t.IsValid() {
				out = append(out, n+"="+t.Value.String())
			}
		}
	}
	return strings.Join(out, " ")
}

// mutateCopies changes every value the caller passed to AddFeature so far, and clones of them.
func mutateCopies(copies []ingest.Feature) (problems []string) {
	for _, f := range copies {
		before := describe(f)
		clone := f.Clone()
		mutate(clone)
		if after := describe(f); after != before {
			problems = append(problems, fmt.Sprintf("mutating a clone changed its original (%T): %s -> %s", f, before, after))
		}
		mutate(f)
	}
	return
}

// polygonAreaProbe: on a fresh world of the same construction, an area whose polygons are given as geometry (not as
// path IDs) is added and cloned; afterwards the caller replaces polygons of its own value and of the clone's original
// (SetPolygon, SetPathIDs).  What the world returns, and the clone, must stay as they were.
func polygonAreaProbe(impl string, base obs.AWorld) (problems []string) {
	p := vh.Catch(func() {
		w, err := buildWorld(impl, base)
		if err != nil {
			return
		}
		tri := func(a, b, c int) *s2.Polygon {
			return s2.PolygonFromLoops([]*s2.Loop{s2.LoopFromPoints([]s2.Point{s2.PointFromLatLng(obs.Vertex(a)), s2.PointFromLatLng(obs.Vertex(b)), s2.PointFromLatLng(obs.Vertex(c))})})
		}
		shape := func(a b6.AreaFeature) string {
			if a == nil {
				return "<nil>"
			}
			var b bytes.Buffer
			for i := 0; i < a.Len(); i++ {
				poly := a.Polygon(i)
				fmt.Fprintf(&b, "[")
				if poly != nil {
					for _, l := range poly.Loops() {
						for _, v := range l.Vertices() {
							fmt.Fprintf(&b, "%d ", obs.VertexOf(s2.LatLngFromPoint(v)))
						}
					}
				}
				if ps := a.Feature(i); ps != nil {
					fmt.Fprintf(&b, "paths=%d", len(ps))
				}
				fmt.Fprintf(&b, "]")
			}
			return b.String()
		}
		id := obs.ID("A97")
		a := ingest.NewAreaFeature(2)
		a.AreaID = id.ToAreaID()
		a.Tags = b6.Tags{{Key: "n", Value: b6.NewStringExpression("probe")}}
		a.SetPolygon(0, tri(0, 1, 2))
		a.SetPolygon(1, tri(3, 4, 5))
		if err := w.AddFeature(a); err != nil {
			problems = append(problems, "an area with two polygons given as geometry is rejected: "+err.Error())
			return
		}
		before := shape(b6.FindAreaByID(id.ToAreaID(), w))
		// the clone first: changing the clone must not change the original, and the other way round
		clone := a.CloneAreaFeature()
		clone.SetPolygon(0, tri(6, 7, 8))
		if poly, ok := a.Polygon(0); !ok || poly.Loop(0).NumVertices() != 3 || obs.VertexOf(s2.LatLngFromPoint(poly.Loop(0).Vertex(0))) != 0 {
			problems = append(problems, "SetPolygon on the clone of an area changed the original")
		}
		clone2 := a.CloneAreaFeature()
		// now the caller's own value
		a.SetPolygon(0, tri(6, 7, 8))
		a.SetPathIDs(1, []b6.FeatureID{obs.ID("W11")})
		if after := shape(b6.FindAreaByID(id.ToAreaID(), w)); after != before {
			problems = append(problems, fmt.Sprintf("the world's area changed when the caller replaced polygons of the value it had passed to AddFeature: before %s after %s", before, after))
		}
		if poly, ok := clone2.Polygon(0); !ok || poly == nil || obs.VertexOf(s2.LatLngFromPoint(poly.Loop(0).Vertex(0))) != 0 {
			problems = append(problems, "replacing a polygon of an area changed a clone taken earlier (polygon 0)")
		}
		if poly, ok := clone2.Polygon(1); !ok || poly == nil {
			problems = append(problems, "SetPathIDs on an area removed the polygon of a clone taken earlier (polygon 1)")
		}
	})
	if p != "" {
		problems = append(problems, "panic: "+p)
	}
	return
}

func describe(f ingest.Feature) string {
	var b bytes.Buffer
	fmt.Fprintf(&b, "%s %v", f.FeatureID(), f.AllTags())
	switch f := f.(type) {
	case *ingest.AreaFeature:
		for i := 0; i < f.Len(); i++ {
			ids, _ := f.PathIDs(i)
			fmt.Fprintf(&b, " %v", ids)
		}
	case *ingest.RelationFeature:
		fmt.Fprintf(&b, " %v", f.Members)
	case *ingest.CollectionFeature:
		fmt.Fprintf(&b, " %v %v", f.Keys, f.Values)
	}
	return b.String()
}

func mutate(f ingest.Feature) {
	tags := f.AllTags()
	if len(tags) > 0 {
		// in place: overwrite the first non-geometry tag's value through the slice the caller still holds
		for i := range tags {
			if tags[i].Key != b6.PointTag && tags[i].Key != b6.PathTag {
				tags[i].Value = b6.NewStringExpression("mutated")
				break
			}
		}
	}
	if listTag {
		// replace elements of the list-valued tag one by one (b6.Set), then grow it
		f.ModifyOrAddTagAt(b6.Tag{Key: listTagKey, Value: b6.NewStringExpression("mutated0")}, 0)
		f.ModifyOrAddTagAt(b6.Tag{Key: listTagKey, Value: b6.NewStringExpression("mutated2")}, 2)
		f.ModifyOrAddTagAt(b6.Tag{Key: listTagKey, Value: b6.NewStringExpression("mutated5")}, 5)
	}
	f.ModifyOrAddTag(b6.Tag{Key: "n", Value: b6.NewStringExpression("mutated")})
	f.AddTag(b6.Tag{Key: "#zz", Value: b6.NewStringExpression("mutated")})
	switch f := f.(type) {
	case *ingest.GenericFeature:
		if p := f.Get(b6.PathTag); p.IsValid() {
			if es, ok := p.Value.AnyExpression.(b6.Expressions); ok && len(es) > 0 {
				es[0] = b6.FeatureIDExpression(obs.ID("P11"))
			}
		}
	case *ingest.AreaFeature:
		for i := 0; i < f.Len(); i++ {
			if ids, ok := f.PathIDs(i); ok && len(ids) > 0 {
				f.SetPathID(i, 0, obs.ID("W11"))
			}
		}
	case *ingest.RelationFeature:
		for i := range f.Members {
			f.Members[i].ID = obs.ID("P11")
		}
	case *ingest.CollectionFeature:
		for i := range f.Keys {
			f.Keys[i] = obs.ID("P11")
		}
		for i := range f.Values {
			f.Values[i] = 999
		}
	}
}

func roundTrip(w ingest.MutableWorld, c *worldCase) (b6.World, error) {
	var buf bytes.Buffer
	if err := ingest.ExportChangesAsYAML(w, &buf); err != nil {
		return nil, fmt.Errorf("export: %v", err)
	}
	fresh, err := buildWorld(c.Impl, c.Base)
	if err != nil {
		return nil, err
	}
	if _, err := ingest.IngestChangesFromYAML(bytes.NewReader(buf.Bytes())).Apply(fresh); err != nil {
		return nil, fmt.Errorf("import: %v\n%s", err, buf.String())
	}
	return fresh, nil
}

func runWorld(data json.RawMessage) vh.Verdict {
	var c worldCase
	if err := json.Unmarshal(data, &c); err != nil {
		return vh.Fail("harness-json", "bad case: %v", err)
	}
	obs.SetFrame(c.Frame)
	w, err := buildWorld(c.Impl, c.Base)
	if err != nil {
		return vh.Fail("harness-base", "cannot build base world: %v", err)
	}
	opts := obs.Options{Keys: c.Keys, Queries: c.Queries, Refs: true, Each: true, EachCores: c.Cores, Geometry: true}
	cm := &comparer{c: &c, class: implClass(c.Impl)}
	listTag = false
	for _, st := range c.Steps {
		if st.Ev.Op == "mutate" {
			listTag = true
		}
	}
	var copies []ingest.Feature
	probed := false
	var snaps []b6.World
	var snapTaken []obs.Observation
	type snapshotter interface{ Snapshot() b6.World }
	deadline := func(what string, stepNo int, f func()) bool {
		if !obs.WithDeadline(10*time.Second, f) {
			cm.add(stepNo, "hang", what, what+" did not return within 10 s")
			cm.stop = true
			return false
		}
		return true
	}
	var cur obs.Observation
	deadline("observe", -1, func() { cur = obs.Observe(w, c.IDs, opts) })
	nsteps := 0
	for i, s := range c.Steps {
		if cm.stop {
			break
		}
		nsteps++
		before := cur
		switch s.Ev.Op {
		case "add", "addtag", "rmtag", "merged":
			err, p := applyOp(w, s.Ev, &copies)
			if p != "" {
				cm.add(i, "result-panic", "panic", p)
				cm.stop = true
				break
			}
			if (err == nil) != s.Ev.OK {
				section := "result-overreject"
				if err == nil {
					section = "result-overaccept"
				}
				cm.add(i, section, kindOfName(s.Ev.ID), fmt.Sprintf("%s %s: real err=%v, spec ok=%v", s.Ev.Op, s.Ev.ID, err, s.Ev.OK))
				cm.stop = true
			}
			if err != nil {
				// rejected: the world must answer everything as before (real vs real)
				var after obs.Observation
				if !deadline("observe", i, func() { after = obs.Observe(w, c.IDs, opts) }) {
					break
				}
				if obs.Canon(after) != obs.Canon(before) {
					cm.add(i, "unchanged", firstDiff(before, after), fmt.Sprintf("world changed by a rejected %s %s (err=%v): before %s after %s", s.Ev.Op, s.Ev.ID, err, obs.Canon(before), obs.Canon(after)))
				}
				cur = after
			}
		case "snapshot":
			sn, ok := w.(snapshotter)
			if !ok {
				continue
			}
			sw := sn.Snapshot()
			snaps = append(snaps, sw)
			var taken obs.Observation
			if !deadline("observe-snapshot", i, func() { taken = obs.Observe(sw, c.IDs, opts) }) {
				break
			}
			snapTaken = append(snapTaken, taken)
		case "mutate":
			if !probed {
				probed = true
				for _, p := range polygonAreaProbe(c.Impl, c.Base) {
					cm.add(i, "mutate", "polygon-area", p)
				}
			}
			listsBefore := listTags(w, c.IDs)
			for _, p := range mutateCopies(copies) {
				cm.add(i, "mutate", "clone-shares-state", p)
			}
			if la := listTags(w, c.IDs); la != listsBefore {
				cm.add(i, "mutate", "list-tag", fmt.Sprintf("world changed when the caller replaced elements of a list-valued tag of values it had passed to AddFeature: before [%s] after [%s]", listsBefore, la))
			}
			var after obs.Observation
			if !deadline("observe", i, func() { after = obs.Observe(w, c.IDs, opts) }) {
				break
			}
			if obs.Canon(after) != obs.Canon(before) {
				cm.add(i, "mutate", firstDiff(before, after), fmt.Sprintf("world changed when the caller changed values it had passed to AddFeature: before %s after %s", obs.Canon(before), obs.Canon(after)))
				cm.stop = true
			}
		case "roundtrip":
			var fresh b6.World
			var rerr error
			p := vh.Catch(func() { fresh, rerr = roundTrip(w, &c) })
			if p != "" {
				cm.add(i, "roundtrip", "panic", p)
			} else if rerr != nil {
				cm.add(i, "roundtrip", "error:"+errClass(rerr), rerr.Error())
			} else {
				var got obs.Observation
				if deadline("observe-imported", i, func() { got = obs.Observe(fresh, c.IDs, opts) }) {
					// modulo the points whose membership of the "all" token is unspecified (World!AllUnspecified)
					a, b := stripAllUn(before, s.Obs.AllUn), stripAllUn(got, s.Obs.AllUn)
					if obs.Canon(a) != obs.Canon(b) {
						cm.add(i, "roundtrip", "differs:"+firstDiff(a, b), fmt.Sprintf("imported world differs from the edited one: edited %s imported %s", obs.Canon(a), obs.Canon(b)))
					}
					cm.compareObs(i, "rt-spec:", expState{Eff: s.Eff, Obs: s.Obs}, got)
				}
			}
			continue
		}
		if cm.stop {
			break
		}
		if !deadline("observe", i, func() { cur = obs.Observe(w, c.IDs, opts) }) {
			break
		}
		cm.compareObs(i, "", expState{Eff: s.Eff, Obs: s.Obs}, cur)
		cm.validity(i, cur)
		for j, sw := range snaps {
			if j < len(snapTaken) {
				// a snapshot answers every query as it did when it was taken (real vs real) ...
				var got obs.Observation
				if deadline("observe-snapshot", i, func() { got = obs.Observe(sw, c.IDs, opts) }) {
					if obs.Canon(got) != obs.Canon(snapTaken[j]) {
						cm.add(i, "snap:changed", firstDiff(snapTaken[j], got), fmt.Sprintf("snapshot %d changed after it was taken: when taken %s now %s", j, obs.Canon(snapTaken[j]), obs.Canon(got)))
					}
					// ... which is the specification's frozen copy of the world at that moment
					if j < len(s.Snaps) {
						cm.compareObs(i, "snapspec:", s.Snaps[j], got)
					}
				}
			}
		}
	}
	// verdict: only mismatches in the sections that count for the property being checked
	var relevant []mismatch
	for _, m := range cm.out {
		for _, p := range c.Sections {
			if strings.HasPrefix(m.Section, p) {
				relevant = append(relevant, m)
				break
			}
		}
	}
	v := vh.Verdict{OK: len(relevant) == 0, Stats: map[string]int{"steps_executed": nsteps, "steps_planned": len(c.Steps)}}
	if len(relevant) == 0 && nsteps < len(c.Steps) {
		// the run ended early for a mismatch that does not count for this property: its later steps were not checked
		v.Stats["cases_cut_short_by_other_mismatch"] = 1
		if len(cm.out) > 0 {
			v.Msg = "cut short: " + cm.out[0].Key
		}
	}
	if len(relevant) > 0 {
		v.Key = relevant[0].Key
		v.Msg = fmt.Sprintf("step %d [%s]: %s", relevant[0].Step, relevant[0].Section, relevant[0].Msg)
		// distinct keys only
		seen := map[string]bool{}
		var ms []mismatch
		for _, m := range relevant {
			if !seen[m.Key] {
				seen[m.Key] = true
				ms = append(ms, m)
			}
		}
		v.Obs = map[string]interface{}{"mismatches": ms}
	}
	return v
}

// errClass reduces an error message to its final clause without IDs ("ordered clockwise", "not closed", ...).
func errClass(err error) string {
	msg := err.Error()
	if i := strings.Index(msg, "\n"); i > 0 {
		msg = msg[:i]
	}
	parts := strings.Split(msg, ": ")
	last := parts[len(parts)-1]
	fields := strings.Fields(last)
	var keep []string
	for _, f := range fields {
		if strings.ContainsAny(f, "/0123456789") {
			continue
		}
		keep = append(keep, f)
	}
	if len(keep) > 4 {
		keep = keep[:4]
	}
	return parts[0] + ":" + strings.Join(keep, "-")
}

// stripAllUn removes the names whose indexing under the "all" token is unspecified from every all* search result.
func stripAllUn(o obs.Observation, allun []string) obs.Observation {
	out := o
	out.Search = map[string][]string{}
	for q, l := range o.Search {
		if strings.HasPrefix(q, "all") {
			out.Search[q] = obs.Without(l, allun)
		} else {
			out.Search[q] = l
		}
	}
	return out
}

func firstDiff(a, b obs.Observation) string {
	for _, n := range vh.SortedKeys(a.Features) {
		if d := diffFeature(n, a.Features[n], b.Features[n]); d != "" {
			return "lookup:" + d
		}
	}
	if !obs.SameList(a.Each, b.Each) {
		return "each"
	}
	for _, q := range vh.SortedKeys(a.Search) {
		if !obs.SameList(a.Search[q], b.Search[q]) {
			return "search:" + qkind(q)
		}
	}
	for _, n := range vh.SortedKeys(a.Refs) {
		if !obs.SameList(a.Refs[n], b.Refs[n]) {
			return "refs"
		}
	}
	if obs.Canon(a.Areas) != obs.Canon(b.Areas) || obs.Canon(a.Rels) != obs.Canon(b.Rels) || obs.Canon(a.Colls) != obs.Canon(b.Colls) {
		return "typed-refs"
	}
	if obs.Canon(a.Problems) != obs.Canon(b.Problems) {
		return "problems"
	}
	return "other"
}

func main() {
	vh.RegisterFunc("mworld", runWorld)
	vh.RegisterFunc("sworld", runStatic)
	vh.Tool("trybuild", tryBuild)
	vh.RegisterFunc("osm", runOSM)
	vh.RegisterFunc("yamlrt", runYAML)
	vh.Main()
}
