package main

// yamlrt: executes ChangeFile.tla cases on the real YAML export/import (C18, value kinds): a world is edited with a
// tag of the given key class and value (kind, shape) or with a collection whose keys follow the given kinds, its
// modifications are exported and applied to a fresh world over the same base, and the imported world must hold the
// same values with the same kinds (real vs real), collection lookups included.

import (
	"bytes"
	"encoding/json"
	"fmt"
	"strings"

	"diagonal.works/b6"
	"diagonal.works/b6/ingest"
	"github.com/golang/geo/s2"
	"verif/harness/obs"
	"verif/harness/vh"
)

type yamlValue struct {
	Kind  string `json:"kind"`
	Shape string `json:"shape"`
}

type yamlCase struct {
	ID       int       `json:"id"`
	What     string    `json:"what"`
	KeyClass string    `json:"keyclass"`
	Value    yamlValue `json:"value"`
	Survives bool      `json:"survives"`
	Keys     []string  `json:"keys"`
	Impl     string    `json:"impl"`
}

func concretise(v yamlValue) b6.Expression {
	switch v.Kind {
	case "int":
		return b6.NewIntExpression(42)
	case "float":
		return b6.NewFloatExpression(1.5)
	case "latlng":
		return b6.NewPointExpressionFromLatLng(s2.LatLngFromDegrees(51.5, -0.1))
	case "id":
		return b6.NewFeatureIDExpression(obs.ID("P1"))
	}
	text := map[string]string{"word": "hello", "intlike": "42", "floatlike": "1.5", "leadzero": "007", "latlnglike": "51.5, -0.1",
		"idlike": "/point/x/1", "semicolon": "x;y", "spaces": " a  b ", "empty": "", "boollike": "true", "quote": "say \"hi\" \\ there"}[v.Shape]
	return b6.NewStringExpression(text)
}

func collKey(kind string, i int) interface{} {
	switch kind {
	case "int":
		return 3 - i
	case "bigint":
		return 1000000 + i
	case "fracfloat":
		return 2.5 - float64(i)
	case "wholefloat":
		return float64(2 + i)
	case "string":
		return []string{"m", "b", "z"}[i%3]
	case "id":
		return obs.ID([]string{"P1", "P0", "W1"}[i%3])
	}
	return i
}

func describeTag(w b6.World, id b6.FeatureID, key string) string {
	f := w.FindFeatureByID(id)
	if f == nil {
		return "feature missing"
	}
	t := f.Get(key)
	if !t.IsValid() {
		return "tag missing"
	}
	return fmt.Sprintf("%T %q", t.Value.AnyExpression, t.Value.String())
}

func describeColl(w b6.World, id b6.FeatureID, probes []interface{}) string {
	f := w.FindFeatureByID(id)
	c, ok := f.(b6.CollectionFeature)
	if !ok {
		return fmt.Sprintf("not a collection: %T", f)
	}
	var b bytes.Buffer
	it := c.BeginUntyped()
	for {
		ok, err := it.Next()
		if !ok || err != nil {
			break
		}
		fmt.Fprintf(&b, "[%T %v -> %T %v]", it.Key(), it.Key(), it.Value(), it.Value())
	}
	for _, p := range probes {
		v, found := c.FindValue(p)
		fmt.Fprintf(&b, " find(%v)=%v,%v", p, v, found)
	}
	return b.String()
}

func runYAML(data json.RawMessage) vh.Verdict {
	obs.SetFrame("")
	var c yamlCase
	if err := json.Unmarshal(data, &c); err != nil {
		return vh.Fail("harness-json", "bad case: %v", err)
	}
	tags := map[string]string{"#s": "x", "@t": "-", "n": "-"}
	base := obs.AWorld{
		"P0": {Kind: "point", V: 0, Tags: tags},
		"P1": {Kind: "point", V: 1, Tags: map[string]string{}},
		"W1": {Kind: "path", Pts: []string{"P0", "P1"}, Tags: map[string]string{"n": "y"}},
	}
	impl := c.Impl
	if impl == "" {
		impl = "overlay-basic"
	}
	w, err := buildWorld(impl, base)
	if err != nil {
		return vh.Fail("harness-base", "%v", err)
	}
	var before, after func(b6.World) string
	sig := ""
	switch c.What {
	case "tag":
		key := map[string]string{"plain": "note", "hash": "#kind", "at": "@ref"}[c.KeyClass]
		for _, target := range []string{"P0", "W1"} {
			if err := w.AddTag(obs.ID(target), b6.Tag{Key: key, Value: concretise(c.Value)}); err != nil {
				return vh.Fail("harness-addtag", "%v", err)
			}
		}
		before = func(x b6.World) string {
			return describeTag(x, obs.ID("P0"), key) + " | " + describeTag(x, obs.ID("W1"), key)
		}
		after = before
		sig = fmt.Sprintf("yaml:tag:%s:%s/%s", c.KeyClass, c.Value.Kind, c.Value.Shape)
	case "coll":
		cf := &ingest.CollectionFeature{CollectionID: obs.ID("C1").ToCollectionID(), Tags: b6.Tags{{Key: "n", Value: b6.NewStringExpression("c")}}}
		var probes []interface{}
		for i, k := range c.Keys {
			key := collKey(k, i)
			cf.Keys = append(cf.Keys, key)
			cf.Values = append(cf.Values, 100+i)
			probes = append(probes, key)
		}
		probes = append(probes, 77, "absent")
		if err := w.AddFeature(cf); err != nil {
			return vh.Fail("harness-addcoll", "%v", err)
		}
		before = func(x b6.World) string { return describeColl(x, obs.ID("C1"), probes) }
		after = before
		sig = "yaml:coll:" + strings.Join(c.Keys, ",")
		for _, k := range c.Keys {
			if k == "wholefloat" {
				// one class: a float key with a whole-number value is written without a fraction and read back as an int
				sig = "yaml:coll:has-whole-number-float-key"
			}
		}
	default:
		return vh.Fail("harness-case", "unknown case %q", c.What)
	}
	var edited, imported string
	if p := vh.Catch(func() { edited = before(w) }); p != "" {
		return vh.Verdict{OK: false, Key: sig + ":panic-reading-edited", Msg: p}
	}
	wc := &worldCase{Impl: impl, Base: base}
	var fresh b6.World
	var rerr error
	if p := vh.Catch(func() { fresh, rerr = roundTrip(w, wc) }); p != "" {
		return vh.Verdict{OK: false, Key: sig + ":panic", Msg: p}
	}
	if rerr != nil {
		return vh.Verdict{OK: false, Key: sig + ":error:" + errClass(rerr), Msg: rerr.Error()}
	}
	if p := vh.Catch(func() { imported = after(fresh) }); p != "" {
		return vh.Verdict{OK: false, Key: sig + ":panic-reading-imported", Msg: p}
	}
	if edited != imported {
		return vh.Verdict{OK: false, Key: sig + ":differs", Msg: fmt.Sprintf("edited world: %s; world from the exported changes: %s", edited, imported),
			Obs: map[string]interface{}{"spec_predicts_survival_with_bare_strings": c.Survives}}
	}
	return vh.Verdict{OK: true, Stats: map[string]int{"roundtrips": 1}}
}
