package main

// osm: executes OSMMap.tla cases (an OSM input, the features it must become, the world the builder keeps) on
// ingest.BuildWorldFromOSM and on a compact index built from the same OSM source (C29, also C02/C36).

import (
	"context"
	"encoding/json"
	"fmt"
	"os"
	"path/filepath"
	"sort"
	"strings"
	"time"

	"diagonal.works/b6"
	"diagonal.works/b6/ingest"
	"diagonal.works/b6/ingest/compact"
	"diagonal.works/b6/osm"
	"verif/harness/obs"
	"verif/harness/vh"
)

type osmNode struct {
	V    int               `json:"v"`
	Tags map[string]string `json:"tags"`
}
type osmWay struct {
	Nodes []int             `json:"nodes"`
	Tags  map[string]string `json:"tags"`
}
type osmMember struct {
	T    string `json:"t"`
	ID   int    `json:"id"`
	Role string `json:"role"`
}
type osmRel struct {
	Type    string            `json:"type"`
	Members []osmMember       `json:"members"`
	Tags    map[string]string `json:"tags"`
}
type osmInput struct {
	Nodes []osmNode `json:"nodes"`
	Ways  []osmWay  `json:"ways"`
	Rels  []osmRel  `json:"rels"`
}

type osmCase struct {
	ID       int                  `json:"id"`
	Impl     string               `json:"impl"`
	Input    osmInput             `json:"input"`
	Src      obs.AWorld           `json:"src"`
	Eff      obs.AWorld           `json:"eff"`
	Obs      expObs               `json:"obs"`
	Dropped  []string             `json:"dropped"`
	Keys     []string             `json:"keys"`
	IDs      []string             `json:"ids"`
	Queries  map[string]obs.Query `json:"queries"`
	Sections []string             `json:"sections"`
	Cores    int                  `json:"cores"`
}

func osmTags(t map[string]string) osm.Tags {
	keys := make([]string, 0, len(t))
	for k, v := range t {
		if v != "-" {
			keys = append(keys, k)
		}
	}
	sort.Strings(keys)
	var out osm.Tags
	for _, k := range keys {
		out = append(out, osm.Tag{Key: k, Value: t[k]})
	}
	return out
}

func (in osmInput) elements() ([]osm.Node, []osm.Way, []osm.Relation) {
	var nodes []osm.Node
	var ways []osm.Way
	var rels []osm.Relation
	for i, n := range in.Nodes {
		if n.V < 0 {
			continue
		}
		ll := obs.Vertex(n.V)
		nodes = append(nodes, osm.Node{ID: osm.NodeID(i + 1), Location: osm.LatLng{Lat: ll.Lat.Degrees(), Lng: ll.Lng.Degrees()}, Tags: osmTags(n.Tags)})
	}
	for i, w := range in.Ways {
		if len(w.Nodes) == 0 {
			continue
		}
		way := osm.Way{ID: osm.WayID(i + 1), Tags: osmTags(w.Tags)}
		for _, n := range w.Nodes {
			way.Nodes = append(way.Nodes, osm.NodeID(n))
		}
		ways = append(ways, way)
	}
	for i, r := range in.Rels {
		if r.Type == "-" {
			continue
		}
		rel := osm.Relation{ID: osm.RelationID(i + 1), Tags: osmTags(r.Tags)}
		for _, m := range r.Members {
			t := osm.ElementTypeNode
			if m.T == "w" {
				t = osm.ElementTypeWay
			} else if m.T == "r" {
				t = osm.ElementTypeRelation
			}
			rel.Members = append(rel.Members, osm.Member{Type: t, ID: osm.AnyID(m.ID), Role: m.Role})
		}
		rels = append(rels, rel)
	}
	return nodes, ways, rels
}

func runOSM(data json.RawMessage) vh.Verdict {
	obs.OSMScheme = true
	obs.SetFrame("")
	var c osmCase
	if err := json.Unmarshal(data, &c); err != nil {
		return vh.Fail("harness-json", "bad case: %v", err)
	}
	cores := c.Cores
	if cores < 1 {
		cores = 1
	}
	nodes, ways, rels := c.Input.elements()
	wc := &worldCase{IDs: c.IDs, Keys: c.Keys, Queries: c.Queries, Sections: c.Sections}
	cm := &comparer{c: wc, class: "osm-" + c.Impl}
	exp := expState{Eff: c.Eff, Obs: c.Obs}
	var w b6.World
	var err error
	var diffA, diffB obs.Observation
	if !obs.WithDeadline(120*time.Second, func() {
		switch c.Impl {
		case "basic":
			w, err = ingest.BuildWorldFromOSM(nodes, ways, rels, &ingest.BuildOptions{Cores: cores})
		case "basic-pbf":
			// the same elements written to a .osm.pbf file with osm.Writer and ingested from the FILE: the file reader
			// honours read options (SkipTags, SkipNodes, ...) that the in-memory source ignores
			var dir string
			dir, err = os.MkdirTemp("", "vh-osm-pbf")
			if err != nil {
				return
			}
			defer os.RemoveAll(dir)
			name := filepath.Join(dir, "case.osm.pbf")
			if err = writePBF(name, nodes, ways, rels); err != nil {
				err = fmt.Errorf("harness: writing the pbf file: %v", err)
				return
			}
			w, err = ingest.NewWorldFromPBFFile(name, &ingest.BuildOptions{Cores: cores})
		case "compact":
			source := ingest.MemoryOSMSource{Nodes: nodes, Ways: ways, Relations: rels}
			var fs ingest.FeatureSource
			fs, err = ingest.NewFeatureSourceFromPBF(&source, &ingest.BuildOptions{Cores: cores}, context.Background())
			if err == nil {
				var data []byte
				data, err = compact.BuildInMemory(fs, &compact.Options{Goroutines: cores, PointsScratchOutputType: compact.OutputTypeMemory})
				if err == nil {
					w, err = compact.NewWorldFromData(data)
				}
			}
		case "diff":
			// C02 on OSM-shaped input (way and relation ids collide): basic world vs compact world, every read query
			var bw, cw b6.World
			bw, err = ingest.BuildWorldFromOSM(nodes, ways, rels, &ingest.BuildOptions{Cores: cores})
			if err != nil {
				return
			}
			source := ingest.MemoryOSMSource{Nodes: nodes, Ways: ways, Relations: rels}
			var fs ingest.FeatureSource
			fs, err = ingest.NewFeatureSourceFromPBF(&source, &ingest.BuildOptions{Cores: cores}, context.Background())
			if err != nil {
				return
			}
			var data []byte
			data, err = compact.BuildInMemory(fs, &compact.Options{Goroutines: cores, PointsScratchOutputType: compact.OutputTypeMemory})
			if err != nil {
				return
			}
			cw, err = compact.NewWorldFromData(data)
			if err != nil {
				return
			}
			dopts := obs.Options{Keys: c.Keys, Queries: c.Queries, Refs: true, Each: true, Traverse: true, EachCores: cores}
			diffA, diffB = obs.Observe(bw, c.IDs, dopts), obs.Observe(cw, c.IDs, dopts)
			w = bw
		default:
			err = fmt.Errorf("unknown impl %q", c.Impl)
		}
	}) {
		return vh.Verdict{OK: false, Key: cm.class + ":build:hang", Msg: "build did not finish within 60 s"}
	}
	if err != nil {
		return vh.Verdict{OK: false, Key: cm.class + ":build:error", Msg: fmt.Sprintf("build failed: %v", err)}
	}
	if c.Impl == "diff" {
		cm.class = "diff"
		compareTwo(cm, "diff", c.IDs, diffA, diffB, "basic", "compact")
		return osmVerdict(cm, c.Sections)
	}
	opts := obs.Options{Keys: c.Keys, Queries: c.Queries, Refs: c.Impl == "basic" || c.Impl == "basic-pbf", Each: true, EachCores: cores}
	var got obs.Observation
	if !obs.WithDeadline(20*time.Second, func() { got = obs.Observe(w, c.IDs, opts) }) {
		return vh.Verdict{OK: false, Key: cm.class + ":observe:hang", Msg: "observation did not finish within 20 s"}
	}
	if c.Impl != "basic" && c.Impl != "basic-pbf" {
		// the compact world defines a different reference chain (C02): not compared against the specification here
		exp.Obs.Refs, exp.Obs.Areas, exp.Obs.Rels, exp.Obs.Colls = nil, nil, nil, nil
	}
	cm.compareObs(-1, "", exp, got)
	cm.validity(-1, got)
	return osmVerdict(cm, c.Sections)
}

func osmVerdict(cm *comparer, sections []string) vh.Verdict {
	var relevant []mismatch
	for _, m := range cm.out {
		for _, p := range sections {
			if strings.HasPrefix(m.Section, p) {
				relevant = append(relevant, m)
				break
			}
		}
	}
	v := vh.Verdict{OK: len(relevant) == 0, Stats: map[string]int{"worlds_built": 1}}
	if len(relevant) > 0 {
		v.Key = relevant[0].Key
		v.Msg = fmt.Sprintf("[%s] %s", relevant[0].Section, relevant[0].Msg)
		seen := map[string]bool{}
		var ms []mismatch
		for _, m := range relevant {
			if !seen[m.Key] {
				seen[m.Key] = true
				ms = append(ms, m)
			}
		}
		v.Obs = map[string]interface{}{"mismatches": ms}
	}
	return v
}

func writePBF(name string, nodes []osm.Node, ways []osm.Way, rels []osm.Relation) error {
	f, err := os.Create(name)
	if err != nil {
		return err
	}
	defer f.Close()
	w, err := osm.NewWriter(f)
	if err != nil {
		return err
	}
	for i := range nodes {
		if err := w.WriteNode(&nodes[i]); err != nil {
			return err
		}
	}
	for i := range ways {
		if err := w.WriteWay(&ways[i]); err != nil {
			return err
		}
	}
	for i := range rels {
		if err := w.WriteRelation(&rels[i]); err != nil {
			return err
		}
	}
	return w.Flush()
}
