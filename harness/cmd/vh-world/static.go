package main

// sworld: executes StaticWorld.tla cases (a source + the world a build must keep + its observation) on every
// static world implementation: basic builder, compact index (one file / several merged files / overlay file
// against a base), ingest.NewOverlayWorld layering.  Serves C01 C02 C03 C16 C17 C36 C37.

import (
	"encoding/json"
	"fmt"
	"os"
	"sort"
	"strconv"
	"strings"
	"sync"
	"time"

	"diagonal.works/b6"
	"diagonal.works/b6/ingest"
	"diagonal.works/b6/ingest/compact"
	"github.com/golang/geo/s2"
	"verif/harness/obs"
	"verif/harness/vh"
)

type staticCase struct {
	ID       int                  `json:"id"`
	Impl     string               `json:"impl"`
	Src      obs.AWorld           `json:"src"`
	Eff      obs.AWorld           `json:"eff"`
	Obs      expObs               `json:"obs"`
	Upper    obs.AWorld           `json:"upper"`
	UEff     obs.AWorld           `json:"ueff"`
	Layered  obs.AWorld           `json:"layered"`
	LObs     expObs               `json:"lobs"`
	Dropped  []string             `json:"dropped"`
	Keys     []string             `json:"keys"`
	IDs      []string             `json:"ids"`
	Queries  map[string]obs.Query `json:"queries"`
	Sections []string             `json:"sections"`
	Cores    int                  `json:"cores"`
	Split    int                  `json:"split"`    // partition selector for multi-file compact worlds
	Order    string               `json:"order"`    // "" = ID order, "rev" = reverse ID order (areas arrive before their paths)
	Replicas int                  `json:"replicas"` // bulk-compact: copies of the source in one world
	Frame    string               `json:"frame"`    // where the vertex polygon lies (obs.SetFrame)
}

func features(w obs.AWorld, skipCollections bool, only func(name string) bool) []ingest.Feature {
	var fs []ingest.Feature
	for _, n := range w.Present() {
		if skipCollections && w[n].Kind == "coll" {
			continue
		}
		if only != nil && !only(n) {
			continue
		}
		fs = append(fs, obs.ToIngest(n, w[n]))
	}
	if feedOrder == "rev" {
		for i, j := 0, len(fs)-1; i < j; i, j = i+1, j-1 {
			fs[i], fs[j] = fs[j], fs[i]
		}
	}
	return fs
}

// feedOrder is the order in which the current case's source features are handed to the builders.
var feedOrder = ""

func buildBasicFromSource(w obs.AWorld, cores int) (b6.World, error) {
	o := &ingest.BuildOptions{Cores: cores}
	b := ingest.NewBasicWorldBuilder(o)
	for _, f := range features(w, false, nil) {
		b.AddFeature(f)
	}
	return b.Finish(o)
}

func buildCompact(fs []ingest.Feature, cores int, base b6.World) ([]byte, error) {
	o := &compact.Options{Goroutines: cores, PointsScratchOutputType: compact.OutputTypeMemory}
	if base != nil {
		return compact.BuildOverlayInMemory(ingest.MemoryFeatureSource(fs), o, base)
	}
	return compact.BuildInMemory(ingest.MemoryFeatureSource(fs), o)
}

func buildCompactWorld(w obs.AWorld, cores int) (b6.World, error) {
	data, err := buildCompact(features(w, true, nil), cores, nil)
	if err != nil {
		return nil, err
	}
	return compact.NewWorldFromData(data)
}

// buildCompactSplit builds the source as several index files merged into one world.
//
//	split 1: points in one file; everything else in an overlay file built against the first (paths resolve
//	         their points in the base)
//	split 2: three files: points; paths and areas (overlay against the first); relations (overlay against both)
func buildCompactSplit(w obs.AWorld, cores int, split int) (b6.World, error) {
	isPoint := func(n string) bool { return n[0] == 'P' }
	// the world is queried between merges too: answers about features that arrive with a later file must not stick
	var ids []string
	for n := range w {
		ids = append(ids, n)
	}
	sort.Strings(ids)
	probe := func(cw b6.World) {
		obs.Observe(cw, ids, obs.Options{Keys: []string{"#s", "@t", "n"}, Refs: true, Each: true})
	}
	switch split {
	case 1, 4:
		d1, err := buildCompact(features(w, true, isPoint), cores, nil)
		if err != nil {
			return nil, err
		}
		cw, err := compact.NewWorldFromData(d1)
		if err != nil {
			return nil, err
		}
		probe(cw)
		d2, err := buildCompact(features(w, true, func(n string) bool { return !isPoint(n) }), cores, cw)
		if err != nil {
			return nil, err
		}
		if split == 4 {
			// the same two files loaded in the other order: the overlay file first, then the base it was built against
			cw2 := compact.NewWorld()
			if err := cw2.Merge(d2); err != nil {
				return nil, err
			}
			return cw2, cw2.Merge(d1)
		}
		return cw, cw.Merge(d2)
	case 3:
		// three independent files that all contain every point (the first also everything else): a point that
		// matches a query is a result of three merged iterators and must be returned once
		d1, err := buildCompact(features(w, true, nil), cores, nil)
		if err != nil {
			return nil, err
		}
		cw, err := compact.NewWorldFromData(d1)
		if err != nil {
			return nil, err
		}
		for i := 0; i < 2; i++ {
			d, err := buildCompact(features(w, true, isPoint), cores, nil)
			if err != nil {
				return nil, err
			}
			if err := cw.Merge(d); err != nil {
				return nil, err
			}
		}
		return cw, nil
	default:
		d1, err := buildCompact(features(w, true, isPoint), cores, nil)
		if err != nil {
			return nil, err
		}
		cw, err := compact.NewWorldFromData(d1)
		if err != nil {
			return nil, err
		}
		// paths and the areas over them go into one file (the builder validates an area against the paths of
		// its own build); relations into a third
		for _, ts := range []string{"WA", "R"} {
			ts := ts
			d, err := buildCompact(features(w, true, func(n string) bool { return strings.IndexByte(ts, n[0]) >= 0 }), cores, cw)
			if err != nil {
				return nil, err
			}
			probe(cw)
			if err := cw.Merge(d); err != nil {
				return nil, err
			}
		}
		return cw, nil
	}
}

func withoutCollections(w obs.AWorld) obs.AWorld {
	out := obs.AWorld{}
	for n, f := range w {
		if f.Kind == "coll" {
			f = obs.AFeature{Kind: "absent", V: -1, Pts: []string{}, Polys: [][]string{}, Members: []string{}, Tags: map[string]string{}}
			for k := range w[n].Tags {
				f.Tags[k] = "-"
			}
		}
		out[n] = f
	}
	return out
}

func dropCollections(o expObs) expObs {
	filter := func(l []string) []string {
		out := []string{}
		for _, x := range l {
			if x[0] != 'C' {
				out = append(out, x)
			}
		}
		return out
	}
	fm := func(m map[string][]string) map[string][]string {
		out := map[string][]string{}
		for k, v := range m {
			out[k] = filter(v)
		}
		return out
	}
	return expObs{Search: fm(o.Search), Each: filter(o.Each), AllUn: filter(o.AllUn), Refs: fm(o.Refs), Areas: fm(o.Areas), Rels: fm(o.Rels), Colls: map[string][]string{}}
}

func runStatic(data json.RawMessage) vh.Verdict {
	var c staticCase
	if err := json.Unmarshal(data, &c); err != nil {
		return vh.Fail("harness-json", "bad case: %v", err)
	}
	cores := c.Cores
	if cores < 1 {
		cores = 1
	}
	feedOrder = c.Order
	obs.SetFrame(c.Frame)
	wc := &worldCase{IDs: c.IDs, Keys: c.Keys, Queries: c.Queries, Sections: c.Sections}
	cm := &comparer{c: wc, class: strings.SplitN(c.Impl, "-", 2)[0]}
	exp := expState{Eff: c.Eff, Obs: c.Obs}
	var w b6.World
	var fresh func() (b6.World, error)
	var err error
	compactFamily := false
	built := obs.WithDeadline(240*time.Second, func() {
		switch c.Impl {
		case "basic":
			w, err = buildBasicFromSource(c.Src, cores)
		case "compact":
			compactFamily = true
			w, err = buildCompactWorld(c.Src, cores)
		case "compact-split":
			compactFamily = true
			w, err = buildCompactSplit(c.Src, cores, c.Split)
		case "layered-basic", "layered-compact", "layered-mixed":
			var bw, uw b6.World
			if c.Impl == "layered-basic" {
				bw, err = buildBasicFromSource(c.Src, cores)
				if err == nil {
					uw, err = buildBasicFromSource(c.Upper, cores)
				}
			} else if c.Impl == "layered-compact" {
				compactFamily = true
				bw, err = buildCompactWorld(c.Src, cores)
				if err == nil {
					uw, err = buildCompactWorld(c.Upper, cores)
				}
			} else {
				compactFamily = true
				bw, err = buildCompactWorld(c.Src, cores)
				if err == nil {
					uw, err = buildBasicFromSource(withoutCollections(c.Upper), cores)
				}
			}
			if err == nil {
				w = ingest.NewOverlayWorld(uw, bw)
			}
			exp = expState{Eff: c.Layered, Obs: c.LObs}
		case "concurrent-basic":
			w, err = buildBasicFromSource(c.Src, cores)
			fresh = func() (b6.World, error) { return buildBasicFromSource(c.Src, cores) }
		case "concurrent-compact":
			compactFamily = true
			var data []byte
			data, err = buildCompact(features(withHotFeatures(c.Src), true, nil), cores, nil)
			if err == nil {
				w, err = compact.NewWorldFromData(data)
				// a world object over the same index whose lazily filled caches are still empty
				fresh = func() (b6.World, error) { return compact.NewWorldFromData(data) }
			}
		case "diff", "pardiff-compact", "pardiff-basic":
			// differential impls build their two worlds in runDiff
			return
		default:
			err = fmt.Errorf("unknown impl %q", c.Impl)
		}
	})
	if c.Impl == "diff" {
		return runDiff(&c, cm, cores, "diff",
			func(src obs.AWorld) (b6.World, error) { return buildBasicFromSource(src, cores) },
			func(src obs.AWorld) (b6.World, error) { return buildCompactWorld(src, cores) }, "basic", "compact")
	}
	if c.Impl == "pardiff-compact" {
		// C36: the same source built with 1 and with N goroutines answers every query identically
		return runDiff(&c, cm, cores, "pardiff-compact",
			func(src obs.AWorld) (b6.World, error) { return buildCompactWorld(src, 1) },
			func(src obs.AWorld) (b6.World, error) { return buildCompactWorld(src, cores) }, "1 goroutine", fmt.Sprintf("%d goroutines", cores))
	}
	if c.Impl == "bulk-compact" {
		return runBulk(&c, cores)
	}
	if c.Impl == "pardiff-basic" {
		return runDiff(&c, cm, cores, "pardiff-basic",
			func(src obs.AWorld) (b6.World, error) { return buildBasicFromSource(src, 1) },
			func(src obs.AWorld) (b6.World, error) { return buildBasicFromSource(src, cores) }, "1 goroutine", fmt.Sprintf("%d goroutines", cores))
	}
	if !built {
		return vh.Verdict{OK: false, Key: cm.class + ":build:hang", Msg: "build did not finish within 240 s"}
	}
	if err != nil {
		return vh.Verdict{OK: false, Key: cm.class + ":build:error", Msg: fmt.Sprintf("build failed on a source whose invalid features should be dropped: %v", err)}
	}
	if compactFamily {
		exp = expState{Eff: withoutCollections(exp.Eff), Obs: dropCollections(exp.Obs)}
	}
	opts := obs.Options{Keys: c.Keys, Queries: c.Queries, Refs: true, Each: true, EachCores: cores}
	var got obs.Observation
	if !obs.WithDeadline(20*time.Second, func() { got = obs.Observe(w, c.IDs, opts) }) {
		return vh.Verdict{OK: false, Key: cm.class + ":observe:hang", Msg: "observation did not finish within 20 s"}
	}
	if strings.HasPrefix(c.Impl, "concurrent-") {
		// C35: a world with no writers answers every query the same whatever else is being asked concurrently
		// (StaticWorld has no write action: Next == UNCHANGED vars).  G goroutines observe the same world R times.
		copts := opts
		copts.Geometry = true
		copts.Traverse = true
		alone := obs.Observe(w, c.IDs, copts)
		const G, R = 8, 3
		results := make([][]obs.Observation, G)
		var wg sync.WaitGroup
		finished := obs.WithDeadline(90*time.Second, func() {
			// round 0 and 1 start on a world object nobody has read yet (cold caches: concurrent FIRST reads of a
			// feature's lazily built geometry), round 2 on the world that was observed alone (warm caches)
			for r := 0; r < R; r++ {
				cw := w
				if r < R-1 && fresh != nil {
					if fw, ferr := fresh(); ferr == nil {
						cw = fw
					}
				}
				start := make(chan struct{})
				for g := 0; g < G; g++ {
					wg.Add(1)
					go func(g int) {
						defer wg.Done()
						ids := append([]string{}, c.IDs...)
						// every goroutine probes in a different order so that caches are contended
						if r != 0 {
							for i := range ids {
								j := (i*7 + g*3) % len(ids)
								ids[i], ids[j] = ids[j], ids[i]
							}
						}
						<-start
						if r == 0 {
							// all at once at the geometry of the same features first
							obs.Observe(cw, ids, obs.Options{Geometry: true})
						}
						results[g] = append(results[g], obs.Observe(cw, ids, copts))
					}(g)
				}
				close(start)
				wg.Wait()
			}
		})
		if finished && fresh != nil && c.Impl == "concurrent-compact" {
			// the features whose lazily built parts take long to fill (a relation of 400 members, a path of 400
			// points): many goroutines ask for them at the same moment on a world nobody has read yet, many times
			var want string
			hotAreas = nil
			for _, n := range c.IDs {
				if strings.HasPrefix(n, "A") {
					hotAreas = append(hotAreas, n)
				}
			}
			if p := vh.Catch(func() { want = hotRead(w, false) }); p != "" {
				cm.add(-1, "concurrent", "hot:panic-alone", p)
			} else {
				var mu sync.Mutex
				bad := ""
				okAll := obs.WithDeadline(60*time.Second, func() {
					for round := 0; round < 6 && bad == ""; round++ {
						cw, ferr := fresh()
						if ferr != nil {
							break
						}
						start := make(chan struct{})
						var hw sync.WaitGroup
						for g := 0; g < 8; g++ {
							hw.Add(1)
							go func(flip bool) {
								defer hw.Done()
								<-start
								var got string
								p := vh.Catch(func() { got = hotRead(cw, flip) })
								mu.Lock()
								if p != "" && bad == "" {
									bad = "panic: " + p
								} else if got != want && bad == "" {
									bad = "read " + trimTo(got, 300) + " instead of " + trimTo(want, 300)
								}
								mu.Unlock()
							}(g%2 == 1)
						}
						close(start)
						hw.Wait()
					}
				})
				if !okAll {
					cm.add(-1, "concurrent", "hot:hang", "concurrent first reads of a large relation and a long path did not finish within 60 s")
				} else if bad != "" {
					cm.add(-1, "concurrent", "hot:differs", "8 goroutines reading a 400-member relation and a 400-point path of a world nobody had read yet: "+bad)
				}
			}
		}
		if !finished {
			cm.add(-1, "concurrent", "hang", "concurrent observation did not finish within 60 s")
		} else {
			want := obs.Canon(alone)
			for g := range results {
				for r := range results[g] {
					if obs.Canon(results[g][r]) != want {
						cm.add(-1, "concurrent", "differs:"+firstDiffWithGeometry(alone, results[g][r]), fmt.Sprintf("goroutine %d round %d observed %s, alone the world answers %s", g, r, obs.Canon(results[g][r]), want))
					}
				}
			}
		}
	}
	// compareObs needs a step index for op signatures: use the synthetic step -1 ("init")
	cm.compareObs(-1, "", exp, got)
	cm.validity(-1, got)
	var relevant []mismatch
	for _, m := range cm.out {
		for _, p := range c.Sections {
			if strings.HasPrefix(m.Section, p) {
				relevant = append(relevant, m)
				break
			}
		}
	}
	v := vh.Verdict{OK: len(relevant) == 0, Stats: map[string]int{"worlds_built": 1}}
	if len(relevant) > 0 {
		sort.SliceStable(relevant, func(i, j int) bool { return relevant[i].Key < relevant[j].Key })
		v.Key = relevant[0].Key
		v.Msg = fmt.Sprintf("[%s] %s", relevant[0].Section, relevant[0].Msg)
		seen := map[string]bool{}
		var ms []mismatch
		for _, m := range relevant {
			if !seen[m.Key] {
				seen[m.Key] = true
				ms = append(ms, m)
			}
		}
		v.Obs = map[string]interface{}{"mismatches": ms}
	}
	return v
}

// trybuild: vh-world trybuild <impl> <cores> < world.json -- builds one abstract world and prints its observation
func tryBuild(args []string) int {
	var w obs.AWorld
	if err := json.NewDecoder(os.Stdin).Decode(&w); err != nil {
		fmt.Println("bad input:", err)
		return 2
	}
	cores := 1
	if len(args) > 1 {
		fmt.Sscan(args[1], &cores)
	}
	var bw b6.World
	var err error
	done := obs.WithDeadline(20*time.Second, func() {
		switch args[0] {
		case "basic":
			bw, err = buildBasicFromSource(w, cores)
		case "compact":
			bw, err = buildCompactWorld(w, cores)
		}
	})
	if !done {
		fmt.Println("HANG: build did not finish within 20 s")
		return 1
	}
	if err != nil {
		fmt.Println("build error:", err)
		return 1
	}
	var ids []string
	for n := range w {
		ids = append(ids, n)
	}
	sort.Strings(ids)
	o := obs.Observe(bw, ids, obs.Options{Keys: []string{"#s", "@t", "n"}, Refs: true, Each: true})
	b, _ := json.Marshal(o)
	fmt.Println(string(b))
	return 0
}

// runDiff builds the source twice (two world kinds, or two degrees of parallelism) and compares every read query
// (real vs real).
func runDiff(c *staticCase, cm *comparer, cores int, class string, buildA, buildB func(obs.AWorld) (b6.World, error), nameA, nameB string) vh.Verdict {
	src := c.Src
	if class != "pardiff-basic" {
		src = withoutCollections(c.Src)
	}
	var bw, cw b6.World
	var err1, err2 error
	if !obs.WithDeadline(240*time.Second, func() {
		bw, err1 = buildA(src)
		cw, err2 = buildB(src)
	}) {
		return vh.Verdict{OK: false, Key: class + ":build:hang", Msg: "build did not finish within 240 s"}
	}
	if err1 != nil || err2 != nil {
		return vh.Verdict{OK: false, Key: class + ":build:error", Msg: fmt.Sprintf("build failed: %s %v; %s %v", nameA, err1, nameB, err2)}
	}
	opts := obs.Options{Keys: c.Keys, Queries: c.Queries, Refs: true, Each: true, Traverse: true, EachCores: cores}
	var a, b obs.Observation
	if !obs.WithDeadline(30*time.Second, func() { a = obs.Observe(bw, c.IDs, opts); b = obs.Observe(cw, c.IDs, opts) }) {
		return vh.Verdict{OK: false, Key: class + ":observe:hang", Msg: "observation did not finish within 30 s"}
	}
	compareTwo(cm, class, c.IDs, a, b, nameA, nameB)
	var relevant []mismatch
	for _, m := range cm.out {
		for _, p := range c.Sections {
			if strings.HasPrefix(m.Section, p) {
				relevant = append(relevant, m)
				break
			}
		}
	}
	v := vh.Verdict{OK: len(relevant) == 0, Stats: map[string]int{"worlds_built": 2}}
	if len(relevant) > 0 {
		v.Key = relevant[0].Key
		v.Msg = fmt.Sprintf("[%s] %s", relevant[0].Section, relevant[0].Msg)
		seen := map[string]bool{}
		var ms []mismatch
		for _, m := range relevant {
			if !seen[m.Key] {
				seen[m.Key] = true
				ms = append(ms, m)
			}
		}
		v.Obs = map[string]interface{}{"mismatches": ms}
	}
	return v
}

func firstDiffWithGeometry(a, b obs.Observation) string {
	if d := firstDiff(a, b); d != "other" {
		return d
	}
	if obs.Canon(a.Geometry) != obs.Canon(b.Geometry) {
		return "geometry"
	}
	if obs.Canon(a.Traverse) != obs.Canon(b.Traverse) {
		return "traverse"
	}
	return "other"
}

// compareTwo compares two real observations of what should be the same world section by section.
func compareTwo(cm *comparer, class string, ids []string, a, b obs.Observation, nameA, nameB string) {
	add := func(section, what, msg string) {
		msg = strings.Replace(strings.Replace(msg, "basic ", nameA+" ", 1), "compact ", nameB+" ", 1)
		cm.out = append(cm.out, mismatch{Step: -1, Section: section, Key: class + ":" + section + ":" + what, Msg: msg})
	}
	for _, n := range ids {
		if d := diffFeature(n, a.Features[n], b.Features[n]); d != "" {
			add("lookup", d, fmt.Sprintf("lookup %s: basic %s compact %s", n, obs.Canon(a.Features[n]), obs.Canon(b.Features[n])))
		}
	}
	if d := listDiff(a.Each, b.Each); d != "" {
		add("each", d, fmt.Sprintf("EachFeature: basic %v compact %v", a.Each, b.Each))
	}
	for _, qn := range vh.SortedKeys(a.Search) {
		if d := listDiff(a.Search[qn], b.Search[qn]); d != "" {
			add("search", qkind(qn)+":"+d, fmt.Sprintf("FindFeatures %s: basic %v compact %v", qn, a.Search[qn], b.Search[qn]))
		}
	}
	for _, sec := range []struct {
		name string
		a, b map[string][]string
	}{{"refs", a.Refs, b.Refs}, {"areas", a.Areas, b.Areas}, {"rels", a.Rels, b.Rels}, {"traverse", a.Traverse, b.Traverse}} {
		for _, n := range ids {
			if _, ok := sec.a[n]; !ok {
				continue
			}
			// what a world says about the referrers of a feature it does not contain is not specified, and
			// FindAreasByPoint is only defined for points
			if a.Features[n].Kind == "absent" || b.Features[n].Kind == "absent" || (sec.name == "areas" && n[0] != 'P') {
				continue
			}
			if obs.SameList(sec.a[n], sec.b[n]) {
				continue
			}
			if d := listDiff(sec.a[n], sec.b[n]); d != "" {
				if sec.name == "refs" || sec.name == "rels" {
					// name the referrers one world lacks as direct (n is one of their points/paths/members) or
					// transitive (marked ~): a world that loses a DIRECT referrer is a different finding
					d = referrerDiff(n, sec.a[n], sec.b[n], a, b)
				}
				if sec.name == "traverse" {
					d = "differs"
					for _, x := range append(append([]string{}, sec.a[n]...), sec.b[n]...) {
						if strings.Contains(x, "invalid") {
							// one world ends a segment at a literal (ID-less) point of a mixed path
							d = "segment-ends-at-literal-point"
						}
					}
					for _, f := range a.Features {
						if f.Kind == "path" && len(f.Pts) > 2 && f.Pts[0] == f.Pts[len(f.Pts)-1] {
							for _, p := range f.Pts {
								if p == n && d == "differs" {
									d = "inner-point-of-closed-way"
								}
							}
							if f.Pts[0] == n {
								d = "closing-point-of-closed-way"
							}
						}
					}
				}
				add(sec.name, "of-"+kindOfName(n)+":"+d, fmt.Sprintf("%s(%s): basic %v compact %v", sec.name, n, sec.a[n], sec.b[n]))
			}
		}
	}
	for _, p := range append(append([]string{}, a.Problems...), b.Problems...) {
		fields := strings.Fields(p)
		if len(fields) > 3 {
			fields = fields[:3]
		}
		add("problems", strings.Join(fields, "_"), p)
	}
}

// referrerDiff is listDiff for referrer lists, with every name classified by how it refers to n.
func referrerDiff(n string, exp, got []string, a, b obs.Observation) string {
	direct := func(x string) bool {
		f, ok := a.Features[x]
		if !ok || f.Kind == "absent" {
			f = b.Features[x]
		}
		for _, p := range f.Pts {
			if p == n {
				return true
			}
		}
		for _, poly := range f.Polys {
			for _, p := range poly {
				if p == n {
					return true
				}
			}
		}
		for _, m := range f.Members {
			if m == n {
				return true
			}
		}
		return false
	}
	label := func(x string) string {
		if strings.Contains(x, "!") {
			return "bad"
		}
		if direct(x) {
			return x[:1]
		}
		return x[:1] + "~"
	}
	e, g := map[string]int{}, map[string]int{}
	for _, x := range exp {
		e[x]++
	}
	for _, x := range got {
		g[x]++
	}
	var missing, extra, dup []string
	for x := range e {
		if g[x] == 0 {
			missing = append(missing, label(x))
		}
	}
	for x, k := range g {
		if e[x] == 0 {
			extra = append(extra, label(x))
		} else if k > 1 {
			dup = append(dup, x[:1])
		}
	}
	sort.Strings(missing)
	sort.Strings(extra)
	sort.Strings(dup)
	out := ""
	if len(missing) > 0 {
		out += "missing:" + strings.Join(uniq(missing), "")
	}
	if len(extra) > 0 {
		out += "extra:" + strings.Join(uniq(extra), "")
	}
	if len(dup) > 0 {
		out += "duplicate:" + strings.Join(uniq(dup), "")
	}
	if out == "" {
		out = "order"
	}
	return out
}

// runBulk (C36): the source is copied Replicas times into ONE world (the copies of a feature get neighbouring IDs; copies 2j and 2j+1
// share their tag values "v~j", so every token is new to the index and shared by features of two copies) and built
// as a compact world, whose index stage runs on all CPUs.  Every token's posting list and every feature must be
// what the in-memory builder gives for the same source: a token or a feature lost or duplicated by the parallel
// stages shows as a difference.  Searches are compared token by token, enumeration and lookups feature by feature.
func runBulk(c *staticCase, cores int) vh.Verdict {
	k := c.Replicas
	if k < 2 {
		k = 100
	}
	src := withoutCollections(c.Src)
	rename := func(n string, r int) string {
		if len(n) < 2 {
			return n
		}
		v, err := strconv.Atoi(n[1:])
		if err != nil {
			return n
		}
		return n[:1] + strconv.Itoa(v*k+r) // copies of one feature get neighbouring IDs
	}
	big := obs.AWorld{}
	tokens := map[[2]string]bool{}
	for r := 0; r < k; r++ {
		for n, f := range src {
			if f.Kind == "absent" {
				continue
			}
			g := obs.AFeature{Kind: f.Kind, V: f.V, Tags: map[string]string{}}
			for _, p := range f.Pts {
				g.Pts = append(g.Pts, rename(p, r))
			}
			for _, poly := range f.Polys {
				var q []string
				for _, p := range poly {
					q = append(q, rename(p, r))
				}
				g.Polys = append(g.Polys, q)
			}
			for _, m := range f.Members {
				g.Members = append(g.Members, rename(m, r))
			}
			for key, v := range f.Tags {
				if v == "-" || v == "" {
					g.Tags[key] = v
					continue
				}
				g.Tags[key] = v + "~" + strconv.Itoa(r/2)
				tokens[[2]string{key, g.Tags[key]}] = true
			}
			big[rename(n, r)] = g
		}
	}
	var bw, cw b6.World
	var err1, err2 error
	if !obs.WithDeadline(400*time.Second, func() {
		bw, err1 = buildBasicFromSource(big, 1)
		cw, err2 = buildCompactWorld(big, cores)
	}) {
		return vh.Verdict{OK: false, Key: "bulk:build:hang", Msg: "build did not finish within 400 s"}
	}
	if err1 != nil || err2 != nil {
		return vh.Verdict{OK: false, Key: "bulk:build:error", Msg: fmt.Sprintf("build failed: basic %v; compact %v", err1, err2)}
	}
	list := func(w b6.World, q b6.Query) []string {
		var out []string
		it := w.FindFeatures(q)
		for it.Next() {
			out = append(out, obs.Name(it.FeatureID()))
		}
		sort.Strings(out)
		return out
	}
	stats := map[string]int{"worlds_built": 2, "bulk_features": len(big), "bulk_tokens": len(tokens)}
	var keys [][2]string
	for t := range tokens {
		keys = append(keys, t)
	}
	sort.Slice(keys, func(i, j int) bool { return keys[i][0]+"="+keys[i][1] < keys[j][0]+"="+keys[j][1] })
	bad := func(key, msg string) vh.Verdict {
		return vh.Verdict{OK: false, Key: key, Msg: msg, Stats: stats,
			Obs: map[string]interface{}{"mismatches": []mismatch{{Step: -1, Section: "bulk", Key: key, Msg: msg}}}}
	}
	var verdict *vh.Verdict
	if !obs.WithDeadline(240*time.Second, func() {
		for _, t := range keys {
			if !strings.HasPrefix(t[0], "#") && !strings.HasPrefix(t[0], "@") {
				continue // not a searchable key
			}
			q := b6.Tagged{Key: t[0], Value: b6.NewStringExpression(t[1])}
			a, b := list(bw, q), list(cw, q)
			stats["bulk_token_queries"]++
			if !obs.SameList(a, b) {
				v := bad("bulk:search:tagged:"+listDiff(a, b), fmt.Sprintf("%d copies of the source in one world: FindFeatures(%s=%s): basic %v, compact (index stage on all CPUs) %v", k, t[0], t[1], a, b))
				verdict = &v
				return
			}
		}
		a, b := list(bw, b6.All{}), list(cw, b6.All{})
		if !obs.SameList(a, b) {
			v := bad("bulk:search:all:"+listDiff(a, b), fmt.Sprintf("%d copies: FindFeatures(all): basic %d features, compact %d", k, len(a), len(b)))
			verdict = &v
			return
		}
		for n := range big {
			fa, fb := bw.FindFeatureByID(obs.ID(n)), cw.FindFeatureByID(obs.ID(n))
			if (fa == nil) != (fb == nil) {
				v := bad("bulk:lookup:presence", fmt.Sprintf("%d copies: %s: basic present=%v compact present=%v", k, n, fa != nil, fb != nil))
				verdict = &v
				return
			}
		}
	}) {
		return vh.Verdict{OK: false, Key: "bulk:observe:hang", Msg: "queries did not finish within 240 s"}
	}
	if verdict != nil {
		return *verdict
	}
	return vh.Verdict{OK: true, Stats: stats}
}

// withHotFeatures adds a relation of 400 members (R99) and a path of 400 literal points (W99) to a source.
func withHotFeatures(src obs.AWorld) obs.AWorld {
	out := obs.AWorld{}
	for n, f := range src {
		out[n] = f
	}
	noTags := map[string]string{}
	var members, pts []string
	for i := 0; i < 400; i++ {
		members = append(members, []string{"P0", "P1", "P2", "P3", "W1"}[i%5])
		pts = append(pts, "L"+strconv.Itoa((i*5)%12))
	}
	out["R99"] = obs.AFeature{Kind: "rel", V: -1, Members: members, Tags: noTags}
	out["W99"] = obs.AFeature{Kind: "path", V: -1, Pts: pts, Tags: noTags}
	return out
}

// hotAreas: the areas of the case that hotRead reads.
var hotAreas []string

// hotArea reads the paths and the polygons of an area, in either order (both fill parts of the same cached object).
func hotArea(w b6.World, n string, flip bool) string {
	a := b6.FindAreaByID(obs.ID(n).ToAreaID(), w)
	if a == nil {
		return n + " missing"
	}
	var paths, polys strings.Builder
	readPaths := func() {
		for i := 0; i < a.Len(); i++ {
			for _, p := range a.Feature(i) {
				paths.WriteString(obs.Name(p.FeatureID()))
				paths.WriteByte(' ')
			}
			paths.WriteByte(';')
		}
	}
	readPolys := func() {
		for i := 0; i < a.Len(); i++ {
			if poly := a.Polygon(i); poly != nil {
				for _, l := range poly.Loops() {
					polys.WriteString(strconv.Itoa(l.NumVertices()))
					polys.WriteByte(' ')
				}
			} else {
				polys.WriteString("nil")
			}
			polys.WriteByte(';')
		}
	}
	if flip {
		readPolys()
		readPaths()
	} else {
		readPaths()
		readPolys()
	}
	return n + "=" + paths.String() + "/" + polys.String()
}

// hotRead reads every member of R99, every point of W99 and the paths and polygons of every area.
func hotRead(w b6.World, flip bool) string {
	var b strings.Builder
	for _, n := range hotAreas {
		b.WriteString(hotArea(w, n, flip))
		b.WriteByte('|')
	}
	if f := w.FindFeatureByID(obs.ID("R99")); f != nil {
		if r, ok := f.(b6.RelationFeature); ok {
			for i := 0; i < r.Len(); i++ {
				b.WriteString(obs.Name(r.Member(i).ID))
				b.WriteByte(' ')
			}
		}
	} else {
		b.WriteString("R99 missing ")
	}
	b.WriteByte('|')
	if f := w.FindFeatureByID(obs.ID("W99")); f != nil {
		if p, ok := f.(b6.PhysicalFeature); ok {
			for _, pt := range *p.Polyline() {
				b.WriteString(strconv.Itoa(obs.VertexOf(s2.LatLngFromPoint(pt))))
				b.WriteByte(' ')
			}
		}
	} else {
		b.WriteString("W99 missing")
	}
	return b.String()
}

func trimTo(s string, n int) string {
	if len(s) > n {
		return s[:n] + "..."
	}
	return s
}
