// gosrc.go: reads the b6 source tree with go/parser and symbolically executes straight-line
// integer functions into the IR of ir.go.
//
// Supported Go subset (anything else is reported as an error => the check is inconclusive, never a
// verdict): integer parameters / receivers / struct fields bound by the caller, := = op=, var decls,
// if/else (with init), switch on an integer with constant cases, return, panic (=> a precondition),
// + - << >> & | ^ unary - and comparisons, conversions between (named) integer types, package level
// integer constants incl. iota, binary.PutUvarint / binary.Uvarint as an identity channel.
package main

import (
	"bytes"
	"fmt"
	"go/ast"
	"go/parser"
	"go/printer"
	"go/token"
	"math/big"
	"os"
	"path/filepath"
	"sort"
	"strconv"
	"strings"
)

const modulePath = "diagonal.works/b6"

type constDecl struct {
	name  string
	typ   ast.Expr
	value ast.Expr
	iota  int
	file  *ast.File
	val   *Expr
	busy  bool
}

type Pkg struct {
	Dir    string
	Files  []*ast.File
	Consts map[string]*constDecl
	Types  map[string]ast.Expr
	TFile  map[string]*ast.File
	Funcs  map[string]*ast.FuncDecl // "Name" or "Recv.Name"
	FFile  map[string]*ast.File
}

type Loader struct {
	Root string // .../src/diagonal.works/b6
	fset *token.FileSet
	pkgs map[string]*Pkg
}

func NewLoader(root string) *Loader {
	return &Loader{Root: root, fset: token.NewFileSet(), pkgs: map[string]*Pkg{}}
}

func (l *Loader) Pkg(dir string) (*Pkg, error) {
	if p, ok := l.pkgs[dir]; ok {
		return p, nil
	}
	full := filepath.Join(l.Root, dir)
	ents, err := os.ReadDir(full)
	if err != nil {
		return nil, err
	}
	p := &Pkg{Dir: dir, Consts: map[string]*constDecl{}, Types: map[string]ast.Expr{}, TFile: map[string]*ast.File{},
		Funcs: map[string]*ast.FuncDecl{}, FFile: map[string]*ast.File{}}
	var names []string
	for _, e := range ents {
		n := e.Name()
		if e.IsDir() || !strings.HasSuffix(n, ".go") || strings.HasSuffix(n, "_test.go") || strings.HasSuffix(n, "_verif.go") {
			continue
		}
		names = append(names, n)
	}
	sort.Strings(names)
	for _, n := range names {
		f, err := parser.ParseFile(l.fset, filepath.Join(full, n), nil, parser.SkipObjectResolution)
		if err != nil {
			return nil, fmt.Errorf("parse %s: %v", n, err)
		}
		p.Files = append(p.Files, f)
		for _, d := range f.Decls {
			switch d := d.(type) {
			case *ast.FuncDecl:
				key := d.Name.Name
				if d.Recv != nil && len(d.Recv.List) == 1 {
					key = recvTypeName(d.Recv.List[0].Type) + "." + key
				}
				p.Funcs[key] = d
				p.FFile[key] = f
			case *ast.GenDecl:
				switch d.Tok {
				case token.TYPE:
					for _, s := range d.Specs {
						ts := s.(*ast.TypeSpec)
						p.Types[ts.Name.Name] = ts.Type
						p.TFile[ts.Name.Name] = f
					}
				case token.CONST:
					var lastT, lastV ast.Expr
					for i, s := range d.Specs {
						vs := s.(*ast.ValueSpec)
						if len(vs.Values) > 0 {
							lastT, lastV = vs.Type, nil
						}
						for j, nm := range vs.Names {
							cd := &constDecl{name: nm.Name, iota: i, file: f}
							if len(vs.Values) > 0 {
								if j < len(vs.Values) {
									cd.value = vs.Values[j]
								}
								cd.typ = vs.Type
								if j == 0 {
									lastV = vs.Values[0]
								}
							} else {
								cd.value, cd.typ = lastV, lastT
							}
							p.Consts[nm.Name] = cd
						}
					}
				}
			}
		}
	}
	l.pkgs[dir] = p
	return p, nil
}

func recvTypeName(e ast.Expr) string {
	switch e := e.(type) {
	case *ast.StarExpr:
		return recvTypeName(e.X)
	case *ast.Ident:
		return e.Name
	}
	return "?"
}

func (l *Loader) src(n ast.Node) string {
	var b bytes.Buffer
	printer.Fprint(&b, l.fset, n)
	return b.String()
}

// importDir resolves an import name used in file f to a directory below the module root.
func importDir(f *ast.File, name string) (string, bool) {
	for _, im := range f.Imports {
		path, _ := strconv.Unquote(im.Path.Value)
		local := filepath.Base(path)
		if im.Name != nil {
			local = im.Name.Name
		}
		if local != name {
			continue
		}
		if path == modulePath {
			return "", true
		}
		if strings.HasPrefix(path, modulePath+"/") {
			return strings.TrimPrefix(path, modulePath+"/"), true
		}
		return path, false
	}
	return "", false
}

var basicTypes = map[string]Typ{
	"int": tInt, "int8": {Bits: 8, Signed: true, Name: "int8"}, "int16": {Bits: 16, Signed: true, Name: "int16"},
	"int32": tInt32, "int64": tInt64, "rune": {Bits: 32, Signed: true, Name: "rune"},
	"uint": tUint, "uint8": {Bits: 8, Name: "uint8"}, "byte": {Bits: 8, Name: "byte"}, "uint16": {Bits: 16, Name: "uint16"},
	"uint32": {Bits: 32, Name: "uint32"}, "uint64": tUint64, "uintptr": {Bits: 64, Name: "uintptr"},
}

// intType resolves a type expression to an integer type (following named types across packages).
func (l *Loader) intType(p *Pkg, f *ast.File, e ast.Expr, depth int) (Typ, bool) {
	if depth > 10 {
		return Typ{}, false
	}
	switch e := e.(type) {
	case *ast.Ident:
		if t, ok := basicTypes[e.Name]; ok {
			if _, shadow := p.Types[e.Name]; !shadow {
				return t, true
			}
		}
		if u, ok := p.Types[e.Name]; ok {
			t, ok := l.intType(p, p.TFile[e.Name], u, depth+1)
			if ok {
				t.Name = e.Name
			}
			return t, ok
		}
	case *ast.SelectorExpr:
		if x, ok := e.X.(*ast.Ident); ok {
			if dir, ok := importDir(f, x.Name); ok {
				q, err := l.Pkg(dir)
				if err != nil {
					return Typ{}, false
				}
				if u, ok := q.Types[e.Sel.Name]; ok {
					t, ok := l.intType(q, q.TFile[e.Sel.Name], u, depth+1)
					if ok {
						t.Name = x.Name + "." + e.Sel.Name
					}
					return t, ok
				}
			}
		}
	case *ast.ParenExpr:
		return l.intType(p, f, e.X, depth+1)
	}
	return Typ{}, false
}

// ---------------------------------------------------------------------------------------------

type Lemma struct {
	Name string
	Got  *Expr
	Want *Expr
}

// CallSpec binds the inputs of one function for symbolic execution.
type CallSpec struct {
	Pkg         string                   // directory below the module root ("" = root package)
	Func        string                   // "Name" or "RecvType.Name"
	Args        []*Expr                  // by parameter position (nil = unbound)
	Recv        *Expr                    // value of an integer receiver
	RecvFields  map[string]*Expr         // receiver struct fields
	ParamFields map[int]map[string]*Expr // struct fields of parameter i
	ChIn        []*Expr                  // values returned by successive binary.Uvarint calls
	Calls       map[string]*Expr         // source text of a call expression -> value ($0, $1.. = parameter names)
	Assume      map[string]bool          // source text of a condition -> assumed value
	Capture     []string                 // local variables whose value is an output
	Specialise  map[string]*Expr         // local variable -> constant it must equal in this instance (a lemma is recorded)
	SwitchTag   bool                     // stop at the first switch statement and return its tag
}

type CallResult struct {
	Rets     []*Expr
	Fields   map[string]*Expr // receiver fields assigned
	ChOut    []*Expr
	Captured map[string]*Expr
	Pre      *Expr // conjunction of the negated panic conditions (domain the code enforces)
	Lemmas   []Lemma
	Tag      *Expr
	Source   string
}

type state struct {
	scopes   []map[string]*Expr
	fields   map[string]*Expr // selector text -> value
	assigned map[string]bool  // receiver fields written
	chOut    []*Expr
	chPos    int
	captured map[string]*Expr
	lemmas   []Lemma
	pre      *Expr
	dead     bool
	returned bool
	rets     []*Expr
	tag      *Expr
}

func (s *state) clone() *state {
	c := &state{fields: map[string]*Expr{}, assigned: map[string]bool{}, captured: map[string]*Expr{}, pre: s.pre,
		chPos: s.chPos, dead: s.dead, returned: s.returned, rets: s.rets, tag: s.tag}
	for _, sc := range s.scopes {
		m := map[string]*Expr{}
		for k, v := range sc {
			m[k] = v
		}
		c.scopes = append(c.scopes, m)
	}
	for k, v := range s.fields {
		c.fields[k] = v
	}
	for k, v := range s.assigned {
		c.assigned[k] = v
	}
	for k, v := range s.captured {
		c.captured[k] = v
	}
	c.chOut = append([]*Expr{}, s.chOut...)
	c.lemmas = append([]Lemma{}, s.lemmas...)
	return c
}

func (s *state) lookup(name string) (*Expr, bool) {
	for i := len(s.scopes) - 1; i >= 0; i-- {
		if v, ok := s.scopes[i][name]; ok {
			return v, true
		}
	}
	return nil, false
}
func (s *state) define(name string, v *Expr) { s.scopes[len(s.scopes)-1][name] = v }
func (s *state) assign(name string, v *Expr) bool {
	for i := len(s.scopes) - 1; i >= 0; i-- {
		if _, ok := s.scopes[i][name]; ok {
			s.scopes[i][name] = v
			return true
		}
	}
	return false
}

type exec struct {
	l    *Loader
	p    *Pkg
	f    *ast.File
	spec *CallSpec
	recv string
	iota int // >= 0 while evaluating a constant declaration
}

type xerr struct{ msg string }

func (e *xerr) Error() string { return e.msg }

func (x *exec) errf(n ast.Node, format string, args ...interface{}) error {
	pos := ""
	if n != nil {
		pos = x.l.fset.Position(n.Pos()).String() + ": "
		pos = strings.TrimPrefix(pos, x.l.Root+"/")
	}
	return &xerr{pos + fmt.Sprintf(format, args...)}
}

// Call symbolically executes one function.
func (l *Loader) Call(spec CallSpec) (*CallResult, error) {
	p, err := l.Pkg(spec.Pkg)
	if err != nil {
		return nil, err
	}
	fd, ok := p.Funcs[spec.Func]
	if !ok {
		return nil, fmt.Errorf("function %s not found in package %q", spec.Func, spec.Pkg)
	}
	if fd.Body == nil {
		return nil, fmt.Errorf("function %s has no body", spec.Func)
	}
	x := &exec{l: l, p: p, f: p.FFile[spec.Func], spec: &spec, iota: -1}
	st := &state{scopes: []map[string]*Expr{{}}, fields: map[string]*Expr{}, assigned: map[string]bool{}, captured: map[string]*Expr{}, pre: mkBool(true)}
	// receiver
	if fd.Recv != nil && len(fd.Recv.List) == 1 && len(fd.Recv.List[0].Names) == 1 {
		x.recv = fd.Recv.List[0].Names[0].Name
		if spec.Recv != nil {
			t, ok := l.intType(p, x.f, fd.Recv.List[0].Type, 0)
			if !ok {
				return nil, fmt.Errorf("%s: receiver is not an integer type", spec.Func)
			}
			st.define(x.recv, mkWrap(spec.Recv, t))
		}
		for k, v := range spec.RecvFields {
			st.fields[x.recv+"."+k] = v
		}
	}
	// parameters
	var pnames []string
	i := 0
	for _, fl := range fd.Type.Params.List {
		for _, nm := range fl.Names {
			pnames = append(pnames, nm.Name)
			if i < len(spec.Args) && spec.Args[i] != nil {
				t, ok := l.intType(p, x.f, fl.Type, 0)
				if !ok {
					return nil, fmt.Errorf("%s: parameter %s is not an integer type", spec.Func, nm.Name)
				}
				a := spec.Args[i]
				if a.Lo.Cmp(t.Min()) < 0 || a.Hi.Cmp(t.Max()) > 0 {
					return nil, fmt.Errorf("%s: argument %d may not fit parameter type %s", spec.Func, i, t)
				}
				st.define(nm.Name, retag(a, t))
			}
			for k, v := range spec.ParamFields[i] {
				st.fields[nm.Name+"."+k] = v
			}
			i++
		}
	}
	subst := func(s string) string {
		for j := len(pnames) - 1; j >= 0; j-- {
			s = strings.ReplaceAll(s, "$"+strconv.Itoa(j), pnames[j])
		}
		return s
	}
	if spec.Calls != nil {
		m := map[string]*Expr{}
		for k, v := range spec.Calls {
			m[subst(k)] = v
		}
		spec.Calls = m
	}
	if spec.Assume != nil {
		m := map[string]bool{}
		for k, v := range spec.Assume {
			m[subst(k)] = v
		}
		spec.Assume = m
	}
	final, err := x.block(fd.Body.List, st, func(s *state) (*state, error) { return s, nil })
	if err != nil {
		return nil, err
	}
	if final.dead {
		return nil, fmt.Errorf("%s: every path panics", spec.Func)
	}
	res := &CallResult{Rets: final.rets, Fields: map[string]*Expr{}, ChOut: final.chOut, Captured: final.captured,
		Pre: final.pre, Lemmas: final.lemmas, Tag: final.tag, Source: l.src(fd)}
	for k := range final.assigned {
		res.Fields[strings.TrimPrefix(k, x.recv+".")] = final.fields[k]
	}
	if spec.SwitchTag && res.Tag == nil {
		return nil, fmt.Errorf("%s: no switch statement found", spec.Func)
	}
	for _, c := range spec.Capture {
		if v, ok := res.Captured[c]; !ok || v == nil || v.IsOpaque() {
			return nil, fmt.Errorf("%s: local variable %q not found or not an integer expression", spec.Func, c)
		}
	}
	if int(final.chPos) < len(spec.ChIn) {
		return nil, fmt.Errorf("%s: reads %d varints, %d were written", spec.Func, final.chPos, len(spec.ChIn))
	}
	return res, nil
}

type cont func(*state) (*state, error)

// merge joins the two outcomes of a branch on condition c.
func (x *exec) merge(n ast.Node, c *Expr, a, b *state) (*state, error) {
	if a.dead && b.dead {
		return a, nil
	}
	if a.dead {
		b.pre = mkAndB(mkNot(c), b.pre)
		return b, nil
	}
	if b.dead {
		a.pre = mkAndB(c, a.pre)
		return a, nil
	}
	if a.returned != b.returned || len(a.rets) != len(b.rets) || len(a.chOut) != len(b.chOut) || a.chPos != b.chPos ||
		len(a.lemmas) != len(b.lemmas) || (a.tag == nil) != (b.tag == nil) {
		return nil, x.errf(n, "branches have different shapes (returns / varint writes / reads)")
	}
	r := a
	r.pre = mkIte(c, a.pre, b.pre)
	for i := range a.rets {
		r.rets[i] = mkIte(c, a.rets[i], b.rets[i])
	}
	for i := range a.chOut {
		r.chOut[i] = mkIte(c, a.chOut[i], b.chOut[i])
	}
	for i := range a.lemmas {
		r.lemmas[i].Got = mkIte(c, a.lemmas[i].Got, b.lemmas[i].Got)
	}
	if a.tag != nil {
		r.tag = mkIte(c, a.tag, b.tag)
	}
	for k, va := range a.fields {
		if vb, ok := b.fields[k]; ok && va != vb {
			r.fields[k] = mkIte(c, va, vb)
		}
	}
	for k := range b.assigned {
		if !a.assigned[k] {
			return nil, x.errf(n, "field %s assigned on one branch only", k)
		}
	}
	for k, va := range a.captured {
		if vb, ok := b.captured[k]; ok && va != vb {
			r.captured[k] = mkIte(c, va, vb)
		}
	}
	for i := range a.scopes {
		if i >= len(b.scopes) {
			break
		}
		for k, va := range a.scopes[i] {
			if vb, ok := b.scopes[i][k]; ok && va != vb {
				if va.Bool != vb.Bool {
					return nil, x.errf(n, "variable %s has different kinds on the two branches", k)
				}
				r.scopes[i][k] = mkIte(c, va, vb)
			}
		}
	}
	return r, nil
}

func (x *exec) block(stmts []ast.Stmt, st *state, k cont) (*state, error) {
	if st.dead || st.returned {
		return st, nil
	}
	if len(stmts) == 0 {
		return k(st)
	}
	s, rest := stmts[0], stmts[1:]
	next := func(s2 *state) (*state, error) { return x.block(rest, s2, k) }
	switch s := s.(type) {
	case *ast.BlockStmt:
		st.scopes = append(st.scopes, map[string]*Expr{})
		depth := len(st.scopes)
		return x.block(s.List, st, func(s2 *state) (*state, error) {
			s2.scopes = s2.scopes[:depth-1]
			return next(s2)
		})
	case *ast.EmptyStmt:
		return next(st)
	case *ast.DeclStmt:
		gd, ok := s.Decl.(*ast.GenDecl)
		if !ok || gd.Tok == token.TYPE {
			return nil, x.errf(s, "unsupported declaration")
		}
		if gd.Tok == token.CONST {
			// local constants: evaluate and bind
			for _, sp := range gd.Specs {
				vs := sp.(*ast.ValueSpec)
				for j, nm := range vs.Names {
					if j >= len(vs.Values) {
						return nil, x.errf(s, "unsupported local const form")
					}
					v, err := x.expr(vs.Values[j], st, tUntyped)
					if err != nil {
						return nil, err
					}
					if vs.Type != nil {
						t, ok := x.l.intType(x.p, x.f, vs.Type, 0)
						if !ok {
							return nil, x.errf(s, "non-integer local const")
						}
						v = mkWrap(v, t)
					}
					st.define(nm.Name, v)
				}
			}
			return next(st)
		}
		for _, sp := range gd.Specs {
			vs := sp.(*ast.ValueSpec)
			for j, nm := range vs.Names {
				var v *Expr
				var t Typ
				var ok bool
				if vs.Type != nil {
					t, ok = x.l.intType(x.p, x.f, vs.Type, 0)
				}
				if j < len(vs.Values) {
					var err error
					hint := tUntyped
					if ok {
						hint = t
					}
					v, err = x.expr(vs.Values[j], st, hint)
					if err != nil {
						return nil, err
					}
					if ok && !v.IsOpaque() && !v.Bool {
						v = x.convertConst(v, t)
					}
				} else if ok {
					v = mkConst(big.NewInt(0), t, false)
				} else {
					v = opaque()
				}
				st.define(nm.Name, x.defaultType(v))
			}
		}
		return next(st)
	case *ast.ExprStmt:
		if call, ok := s.X.(*ast.CallExpr); ok {
			if id, ok := call.Fun.(*ast.Ident); ok && id.Name == "panic" {
				st.dead = true
				return st, nil
			}
			if _, err := x.call(call, st, tUntyped); err != nil {
				return nil, err
			}
			return next(st)
		}
		return nil, x.errf(s, "unsupported expression statement")
	case *ast.IncDecStmt:
		one := mkConst(big.NewInt(1), tUntyped, true)
		op := token.ADD
		if s.Tok == token.DEC {
			op = token.SUB
		}
		cur, err := x.expr(s.X, st, tUntyped)
		if err != nil {
			return nil, err
		}
		v, err := x.binary(s, op, cur, one, tUntyped)
		if err != nil {
			return nil, err
		}
		if err := x.store(s.X, v, st, false); err != nil {
			return nil, err
		}
		return next(st)
	case *ast.AssignStmt:
		if err := x.assignStmt(s, st); err != nil {
			return nil, err
		}
		return next(st)
	case *ast.ReturnStmt:
		st.returned = true
		st.rets = nil
		for _, r := range s.Results {
			v, err := x.expr(r, st, tUntyped)
			if err != nil {
				v = opaque() // results that are not integer expressions are simply not available as outputs
			}
			st.rets = append(st.rets, x.defaultType(v))
		}
		return st, nil
	case *ast.IfStmt:
		st.scopes = append(st.scopes, map[string]*Expr{})
		depth := len(st.scopes)
		pop := func(s2 *state) (*state, error) {
			s2.scopes = s2.scopes[:depth-1]
			return next(s2)
		}
		if s.Init != nil {
			var err error
			// an init statement never returns; run it in place
			_, err = x.block([]ast.Stmt{s.Init}, st, func(s2 *state) (*state, error) { return s2, nil })
			if err != nil {
				return nil, err
			}
		}
		var c *Expr
		if v, ok := x.spec.Assume[x.l.src(s.Cond)]; ok {
			c = mkBool(v)
		} else {
			var err error
			c, err = x.expr(s.Cond, st, tUntyped)
			if err != nil {
				return nil, err
			}
		}
		if !c.Bool {
			return nil, x.errf(s.Cond, "condition is not boolean")
		}
		var elseStmts []ast.Stmt
		if s.Else != nil {
			elseStmts = []ast.Stmt{s.Else}
		}
		switch c.Op {
		case "true":
			return x.block([]ast.Stmt{s.Body}, st, pop)
		case "false":
			return x.block(elseStmts, st, pop)
		}
		sa, sb := st, st.clone()
		ra, err := x.block([]ast.Stmt{s.Body}, sa, pop)
		if err != nil {
			return nil, err
		}
		rb, err := x.block(elseStmts, sb, pop)
		if err != nil {
			return nil, err
		}
		return x.merge(s, c, ra, rb)
	case *ast.SwitchStmt:
		if s.Init != nil || s.Tag == nil {
			return nil, x.errf(s, "unsupported switch form")
		}
		tag, err := x.expr(s.Tag, st, tUntyped)
		if err != nil {
			return nil, err
		}
		if x.spec.SwitchTag {
			st.tag = x.defaultType(tag)
			st.returned = true
			return st, nil
		}
		tag = x.defaultType(tag)
		var clauses []*ast.CaseClause
		var def *ast.CaseClause
		for _, cs := range s.Body.List {
			cc := cs.(*ast.CaseClause)
			if cc.List == nil {
				def = cc
			} else {
				clauses = append(clauses, cc)
			}
			for _, b := range cc.Body {
				if br, ok := b.(*ast.BranchStmt); ok {
					return nil, x.errf(br, "unsupported branch statement in switch")
				}
			}
		}
		var run func(i int, st *state) (*state, error)
		run = func(i int, st *state) (*state, error) {
			if i == len(clauses) {
				if def == nil {
					return next(st)
				}
				return x.block([]ast.Stmt{&ast.BlockStmt{List: def.Body}}, st, next)
			}
			cc := clauses[i]
			c := mkBool(false)
			for _, ce := range cc.List {
				v, err := x.expr(ce, st, tag.T)
				if err != nil {
					return nil, err
				}
				v = x.convertConst(v, tag.T)
				c = mkOrB(c, mkCmp("eq", tag, v))
			}
			switch c.Op {
			case "true":
				return x.block([]ast.Stmt{&ast.BlockStmt{List: cc.Body}}, st, next)
			case "false":
				return run(i+1, st)
			}
			sa, sb := st, st.clone()
			ra, err := x.block([]ast.Stmt{&ast.BlockStmt{List: cc.Body}}, sa, next)
			if err != nil {
				return nil, err
			}
			rb, err := run(i+1, sb)
			if err != nil {
				return nil, err
			}
			return x.merge(s, c, ra, rb)
		}
		return run(0, st)
	}
	return nil, x.errf(s, "unsupported statement %T", s)
}

func (x *exec) defaultType(v *Expr) *Expr {
	if v == nil || v.Bool || v.IsOpaque() {
		return v
	}
	if v.T.Untyped {
		return x.convertConst(v, tInt)
	}
	return v
}

// convertConst gives an untyped constant the type t (it must be representable).
func (x *exec) convertConst(v *Expr, t Typ) *Expr {
	if v.Bool || v.IsOpaque() || !v.T.Untyped || t.Untyped {
		return v
	}
	if v.IsConst() && (v.K.Cmp(t.Min()) < 0 || v.K.Cmp(t.Max()) > 0) {
		// not representable: a compile error in Go; keep the wrap explicit
		return mkWrap(v, t)
	}
	return retag(v, t)
}

func (x *exec) assignStmt(s *ast.AssignStmt, st *state) error {
	// multi-value call
	if len(s.Lhs) == 2 && len(s.Rhs) == 1 {
		call, ok := s.Rhs[0].(*ast.CallExpr)
		if !ok {
			return x.errf(s, "unsupported tuple assignment")
		}
		if isPkgCall(call, "binary", "Uvarint") {
			var v *Expr
			if st.chPos < len(x.spec.ChIn) {
				v = retag(x.spec.ChIn[st.chPos], tUint64)
				if v.Lo.Sign() < 0 || v.Hi.Cmp(tUint64.Max()) > 0 {
					return x.errf(s, "varint channel value out of uint64 range")
				}
			} else {
				return x.errf(s, "binary.Uvarint call number %d has no bound input", st.chPos)
			}
			st.chPos++
			if err := x.store(s.Lhs[0], v, st, s.Tok == token.DEFINE); err != nil {
				return err
			}
			return x.store(s.Lhs[1], opaque(), st, s.Tok == token.DEFINE)
		}
		return x.errf(s, "unsupported call in tuple assignment: %s", x.l.src(call.Fun))
	}
	if len(s.Lhs) != len(s.Rhs) {
		return x.errf(s, "unsupported assignment shape")
	}
	vals := make([]*Expr, len(s.Rhs))
	for i := range s.Rhs {
		var v *Expr
		var err error
		switch s.Tok {
		case token.DEFINE, token.ASSIGN:
			hint := tUntyped
			if s.Tok == token.ASSIGN {
				if cur, err := x.expr(s.Lhs[i], st, tUntyped); err == nil && cur != nil && !cur.Bool && !cur.IsOpaque() {
					hint = cur.T
				}
			}
			v, err = x.expr(s.Rhs[i], st, hint)
			if err != nil {
				return err
			}
			if !hint.Untyped {
				v = x.convertConst(v, hint)
			}
			v = x.defaultType(v)
		default:
			var op token.Token
			switch s.Tok {
			case token.ADD_ASSIGN:
				op = token.ADD
			case token.SUB_ASSIGN:
				op = token.SUB
			case token.OR_ASSIGN:
				op = token.OR
			case token.AND_ASSIGN:
				op = token.AND
			case token.XOR_ASSIGN:
				op = token.XOR
			case token.SHL_ASSIGN:
				op = token.SHL
			case token.SHR_ASSIGN:
				op = token.SHR
			default:
				return x.errf(s, "unsupported assignment operator %s", s.Tok)
			}
			cur, err := x.expr(s.Lhs[i], st, tUntyped)
			if err != nil {
				return err
			}
			hint := tUntyped
			if !cur.Bool && !cur.IsOpaque() {
				hint = cur.T
			}
			rhs, err := x.expr(s.Rhs[i], st, hint)
			if err != nil {
				return err
			}
			v, err = x.binary(s, op, cur, rhs, hint)
			if err != nil {
				return err
			}
		}
		vals[i] = v
	}
	for i := range s.Lhs {
		if err := x.store(s.Lhs[i], vals[i], st, s.Tok == token.DEFINE); err != nil {
			return err
		}
	}
	return nil
}

func (x *exec) store(lhs ast.Expr, v *Expr, st *state, define bool) error {
	switch l := lhs.(type) {
	case *ast.Ident:
		if l.Name == "_" {
			return nil
		}
		if want, ok := x.spec.Specialise[l.Name]; ok && define && !v.IsOpaque() {
			st.lemmas = append(st.lemmas, Lemma{Name: l.Name, Got: v, Want: want})
			c := mkConst(want.K, v.T, false)
			v = c
		}
		for _, c := range x.spec.Capture {
			if c == l.Name {
				st.captured[l.Name] = v
			}
		}
		if define {
			st.define(l.Name, v)
			return nil
		}
		if !st.assign(l.Name, v) {
			return x.errf(lhs, "assignment to unknown variable %s", l.Name)
		}
		return nil
	case *ast.SelectorExpr:
		key := x.l.src(l)
		if id, ok := l.X.(*ast.Ident); ok && id.Name == x.recv {
			st.assigned[key] = true
		}
		st.fields[key] = v
		return nil
	case *ast.StarExpr:
		// *i = Int(v): writes through a pointer receiver of integer type
		if id, ok := l.X.(*ast.Ident); ok && id.Name == x.recv {
			st.assigned[x.recv+".*"] = true
			st.fields[x.recv+".*"] = v
			return nil
		}
	}
	return x.errf(lhs, "unsupported assignment target")
}

func isPkgCall(call *ast.CallExpr, pkg, fn string) bool {
	sel, ok := call.Fun.(*ast.SelectorExpr)
	if !ok {
		return false
	}
	id, ok := sel.X.(*ast.Ident)
	return ok && id.Name == pkg && sel.Sel.Name == fn
}

func (x *exec) call(call *ast.CallExpr, st *state, hint Typ) (*Expr, error) {
	if v, ok := x.spec.Calls[x.l.src(call)]; ok {
		return v, nil
	}
	if isPkgCall(call, "binary", "PutUvarint") {
		if len(call.Args) != 2 {
			return nil, x.errf(call, "PutUvarint arity")
		}
		v, err := x.expr(call.Args[1], st, tUint64)
		if err != nil {
			return nil, err
		}
		v = x.convertConst(v, tUint64)
		if v.IsOpaque() || v.Bool || !v.T.Same(tUint64) {
			return nil, x.errf(call, "PutUvarint argument is not a uint64 expression")
		}
		st.chOut = append(st.chOut, v)
		return opaque(), nil
	}
	// conversion?
	if len(call.Args) == 1 {
		if t, ok := x.l.intType(x.p, x.f, call.Fun, 0); ok {
			if id, isId := call.Fun.(*ast.Ident); isId {
				if _, isVar := st.lookup(id.Name); isVar {
					return nil, x.errf(call, "call of a variable")
				}
			}
			v, err := x.expr(call.Args[0], st, t)
			if err != nil {
				return nil, err
			}
			if v.IsOpaque() {
				return v, nil
			}
			if v.Bool {
				return nil, x.errf(call, "conversion of a boolean")
			}
			gc := v.GoConst
			r := markMask(mkWrap(v, t))
			if gc && r.IsConst() {
				r = mkConst(r.K, t, true)
			}
			return r, nil
		}
	}
	return nil, x.errf(call, "unsupported call %s", x.l.src(call.Fun))
}

func (x *exec) constant(p *Pkg, name string) (*Expr, bool, error) {
	cd, ok := p.Consts[name]
	if !ok {
		return nil, false, nil
	}
	if cd.val != nil {
		return cd.val, true, nil
	}
	if cd.busy || cd.value == nil {
		return nil, true, fmt.Errorf("constant %s cannot be evaluated", name)
	}
	cd.busy = true
	defer func() { cd.busy = false }()
	cx := &exec{l: x.l, p: p, f: cd.file, spec: &CallSpec{}, iota: cd.iota}
	st := &state{scopes: []map[string]*Expr{{}}, fields: map[string]*Expr{}, assigned: map[string]bool{}, captured: map[string]*Expr{}, pre: mkBool(true)}
	hint := tUntyped
	var t Typ
	typed := false
	if cd.typ != nil {
		t, typed = x.l.intType(p, cd.file, cd.typ, 0)
		if !typed {
			return nil, true, fmt.Errorf("constant %s is not an integer", name)
		}
		hint = t
	}
	v, err := cx.expr(cd.value, st, hint)
	if err != nil {
		return nil, true, err
	}
	if v.Bool || v.IsOpaque() || !v.IsConst() {
		return nil, true, fmt.Errorf("constant %s is not an integer constant", name)
	}
	if typed {
		v = mkConst(mkWrap(v, t).K, t, true)
	} else {
		v = mkConst(v.K, v.T, true)
	}
	cd.val = v
	return v, true, nil
}

func (x *exec) expr(e ast.Expr, st *state, hint Typ) (*Expr, error) {
	switch e := e.(type) {
	case *ast.ParenExpr:
		return x.expr(e.X, st, hint)
	case *ast.BasicLit:
		switch e.Kind {
		case token.INT:
			k, ok := new(big.Int).SetString(e.Value, 0)
			if !ok {
				return nil, x.errf(e, "bad integer literal %s", e.Value)
			}
			return mkConst(k, tUntyped, true), nil
		case token.CHAR:
			s, err := strconv.Unquote(e.Value)
			if err != nil || len([]rune(s)) != 1 {
				return nil, x.errf(e, "bad rune literal")
			}
			return mkConst(big.NewInt(int64([]rune(s)[0])), tUntyped, true), nil
		}
		return nil, x.errf(e, "unsupported literal %s", e.Value)
	case *ast.Ident:
		if e.Name == "iota" && x.iota >= 0 {
			return mkConst(big.NewInt(int64(x.iota)), tUntyped, true), nil
		}
		if e.Name == "true" || e.Name == "false" {
			return mkBool(e.Name == "true"), nil
		}
		if v, ok := st.lookup(e.Name); ok {
			return v, nil
		}
		v, ok, err := x.constant(x.p, e.Name)
		if err != nil {
			return nil, x.errf(e, "%v", err)
		}
		if ok {
			return v, nil
		}
		return nil, x.errf(e, "unknown identifier %s", e.Name)
	case *ast.SelectorExpr:
		key := x.l.src(e)
		if v, ok := st.fields[key]; ok {
			return v, nil
		}
		if id, ok := e.X.(*ast.Ident); ok {
			if _, isVar := st.lookup(id.Name); !isVar {
				if dir, ok := importDir(x.f, id.Name); ok {
					q, err := x.l.Pkg(dir)
					if err != nil {
						return nil, x.errf(e, "%v", err)
					}
					v, ok, err := x.constant(q, e.Sel.Name)
					if err != nil {
						return nil, x.errf(e, "%v", err)
					}
					if ok {
						// the constant's named type belongs to the other package
						if !v.T.Untyped && !strings.Contains(v.T.Name, ".") {
							if _, basic := basicTypes[v.T.Name]; !basic {
								c := *v
								c.T.Name = id.Name + "." + v.T.Name
								v = &c
							}
						}
						return v, nil
					}
				}
			}
		}
		return nil, x.errf(e, "unbound selector %s", key)
	case *ast.StarExpr:
		if id, ok := e.X.(*ast.Ident); ok && id.Name == x.recv {
			if v, ok := st.fields[x.recv+".*"]; ok {
				return v, nil
			}
			if v, ok := st.lookup(x.recv); ok {
				return v, nil
			}
		}
		return nil, x.errf(e, "unsupported pointer dereference")
	case *ast.UnaryExpr:
		switch e.Op {
		case token.SUB:
			v, err := x.expr(e.X, st, hint)
			if err != nil {
				return nil, err
			}
			if v.IsOpaque() {
				return v, nil
			}
			if v.Bool {
				return nil, x.errf(e, "negation of a boolean")
			}
			r := mkNegMath(v, v.T)
			if !v.T.Untyped {
				r = mkWrap(r, v.T)
			}
			r = markMask(r)
			if v.GoConst && r.IsConst() {
				r = mkConst(r.K, r.T, true)
			}
			return r, nil
		case token.ADD:
			return x.expr(e.X, st, hint)
		case token.NOT:
			v, err := x.expr(e.X, st, hint)
			if err != nil {
				return nil, err
			}
			if !v.Bool {
				return nil, x.errf(e, "! of a non-boolean")
			}
			return mkNot(v), nil
		case token.XOR:
			v, err := x.expr(e.X, st, hint)
			if err != nil {
				return nil, err
			}
			if v.IsOpaque() {
				return v, nil
			}
			if v.Bool || v.T.Untyped && !v.IsConst() {
				return nil, x.errf(e, "unsupported operand of ^")
			}
			if v.T.Untyped {
				return mkConst(new(big.Int).Not(v.K), v.T, v.GoConst), nil
			}
			return mkCompl(v, v.T), nil
		}
		return nil, x.errf(e, "unsupported unary operator %s", e.Op)
	case *ast.BinaryExpr:
		return x.binaryExpr(e, st, hint)
	case *ast.CallExpr:
		return x.call(e, st, hint)
	}
	return nil, x.errf(e, "unsupported expression %T", e)
}

func (x *exec) binaryExpr(e *ast.BinaryExpr, st *state, hint Typ) (*Expr, error) {
	switch e.Op {
	case token.LAND, token.LOR:
		a, err := x.expr(e.X, st, tUntyped)
		if err != nil {
			return nil, err
		}
		b, err := x.expr(e.Y, st, tUntyped)
		if err != nil {
			return nil, err
		}
		if !a.Bool || !b.Bool {
			return nil, x.errf(e, "logical operator on non-booleans")
		}
		if e.Op == token.LAND {
			return mkAndB(a, b), nil
		}
		return mkOrB(a, b), nil
	case token.SHL, token.SHR:
		a, err := x.expr(e.X, st, hint)
		if err != nil {
			return nil, err
		}
		b, err := x.expr(e.Y, st, tUntyped)
		if err != nil {
			return nil, err
		}
		return x.binary(e, e.Op, a, b, hint)
	}
	isCmp := e.Op == token.EQL || e.Op == token.NEQ || e.Op == token.LSS || e.Op == token.LEQ || e.Op == token.GTR || e.Op == token.GEQ
	h := hint
	if isCmp {
		h = tUntyped
	}
	// the operand types decide; an untyped side takes the type of the other one
	a, err := x.expr(e.X, st, h)
	if err != nil {
		return nil, err
	}
	hb := h
	if !a.Bool && !a.IsOpaque() && !a.T.Untyped {
		hb = a.T
	}
	b, err := x.expr(e.Y, st, hb)
	if err != nil {
		return nil, err
	}
	if !b.Bool && !b.IsOpaque() && !b.T.Untyped && !a.Bool && !a.IsOpaque() && a.T.Untyped && !a.IsConst() {
		// untyped non-constant cannot exist; defensive
		return nil, x.errf(e, "untyped non-constant operand")
	}
	if !a.Bool && !a.IsOpaque() && !b.Bool && !b.IsOpaque() && !b.T.Untyped && !a.T.Same(b.T) && untypedShape(e.X) {
		// an untyped constant expression on the left (possibly `1 << n` with a non-constant n, which
		// takes its type from the context): re-translate it with the right operand's type as the hint
		a2, err := x.expr(e.X, st, b.T)
		if err == nil {
			a = a2
		}
	}
	return x.binary(e, e.Op, a, b, h)
}

// untypedShape reports whether e is built from literals, parentheses, unary and binary operators
// only (identifiers are allowed as shift counts): such an expression has no type of its own.
func untypedShape(e ast.Expr) bool {
	switch e := e.(type) {
	case *ast.BasicLit:
		return true
	case *ast.ParenExpr:
		return untypedShape(e.X)
	case *ast.UnaryExpr:
		return untypedShape(e.X)
	case *ast.BinaryExpr:
		if e.Op == token.SHL || e.Op == token.SHR {
			return untypedShape(e.X)
		}
		return untypedShape(e.X) && untypedShape(e.Y)
	}
	return false
}

// binary applies a Go binary operator to two translated operands.
func (x *exec) binary(n ast.Node, op token.Token, a, b *Expr, hint Typ) (*Expr, error) {
	if a.IsOpaque() || b.IsOpaque() {
		switch op {
		case token.EQL, token.NEQ, token.LSS, token.LEQ, token.GTR, token.GEQ:
			return nil, x.errf(n, "comparison of a value the translator does not track")
		}
		return opaque(), nil
	}
	if a.Bool || b.Bool {
		if a.Bool && b.Bool && (op == token.EQL || op == token.NEQ) {
			eq := mkOrB(mkAndB(a, b), mkAndB(mkNot(a), mkNot(b)))
			if op == token.NEQ {
				return mkNot(eq), nil
			}
			return eq, nil
		}
		return nil, x.errf(n, "arithmetic on a boolean")
	}
	gc := a.GoConst && b.GoConst
	finish := func(r *Expr) *Expr {
		r = markMask(r)
		if r.IsConst() {
			r = mkConst(r.K, r.T, gc)
		}
		return r
	}
	if op == token.SHL || op == token.SHR {
		if !b.IsConst() {
			return nil, x.errf(n, "shift amount is not a constant in this instance")
		}
		if b.K.Sign() < 0 || b.K.Cmp(big.NewInt(4096)) > 0 {
			return nil, x.errf(n, "shift amount %s out of range", b.K)
		}
		k := int(b.K.Int64())
		t := a.T
		if t.Untyped && !(a.GoConst && b.GoConst) {
			// untyped constant shifted by a non-constant: takes the type from the context
			t = hint
			if t.Untyped {
				t = tInt
			}
			a = x.convertConst(a, t)
		}
		if op == token.SHL {
			r := mkMulPow2(a, k, t)
			if !t.Untyped {
				if k >= t.Bits {
					r = mkConst(big.NewInt(0), t, false)
				} else {
					r = mkWrap(r, t)
				}
			}
			return finish(r), nil
		}
		return finish(mkDivPow2(a, k, t)), nil
	}
	// arithmetic / comparison: unify types
	t := a.T
	if a.T.Untyped && !b.T.Untyped {
		t = b.T
		a = x.convertConst(a, t)
	} else if !a.T.Untyped && b.T.Untyped {
		b = x.convertConst(b, t)
	} else if !a.T.Untyped && !b.T.Untyped && !a.T.Same(b.T) {
		return nil, x.errf(n, "mismatched operand types %s and %s", a.T, b.T)
	}
	switch op {
	case token.EQL:
		return mkCmp("eq", a, b), nil
	case token.NEQ:
		return mkCmp("ne", a, b), nil
	case token.LSS:
		return mkCmp("lt", a, b), nil
	case token.LEQ:
		return mkCmp("le", a, b), nil
	case token.GTR:
		return mkCmp("gt", a, b), nil
	case token.GEQ:
		return mkCmp("ge", a, b), nil
	case token.ADD:
		return finish(mkWrap(mkAdd(a, b, t), t)), nil
	case token.SUB:
		return finish(mkWrap(mkSub(a, b, t), t)), nil
	case token.OR:
		r, err := mkOr(a, b, t)
		if err != nil {
			return nil, x.errf(n, "%v", err)
		}
		return finish(mkWrap(r, t)), nil
	case token.AND:
		var r *Expr
		var err error
		switch {
		case b.IsConst():
			r, err = mkAndMask(a, b.K, t)
		case a.IsConst():
			r, err = mkAndMask(b, a.K, t)
		default:
			err = fmt.Errorf("cannot model `&` of two non-constant operands")
		}
		if err != nil {
			return nil, x.errf(n, "%v", err)
		}
		return finish(r), nil
	case token.XOR:
		r, err := mkXor(a, b, t)
		if err != nil {
			return nil, x.errf(n, "%v", err)
		}
		return finish(r), nil
	case token.MUL:
		if a.IsConst() && b.IsConst() {
			return finish(mkWrap(mkConst(new(big.Int).Mul(a.K, b.K), t, gc), t)), nil
		}
		c, v := a, b
		if !c.IsConst() {
			c, v = b, a
		}
		if c.IsConst() && c.K.Sign() > 0 && c.K.BitLen()-1 == int(c.K.TrailingZeroBits()) {
			return finish(mkWrap(mkMulPow2(v, int(c.K.TrailingZeroBits()), t), t)), nil
		}
		return nil, x.errf(n, "unsupported multiplication")
	}
	return nil, x.errf(n, "unsupported operator %s", op)
}
