// pairs.go: the pack/unpack function pairs of property C10: how each is composed for translation
// (which function feeds which), its domain, and how the REAL functions are called.
package main

import (
	"encoding/binary"
	"fmt"
	"math/big"
	"sort"
	"strings"

	"diagonal.works/b6"
	"diagonal.works/b6/encoding"
	"diagonal.works/b6/ingest"
	"diagonal.works/b6/ingest/compact"
	"diagonal.works/b6/renderer"
	"github.com/golang/geo/s1"
	"github.com/golang/geo/s2"
)

type Params map[string]int

func (p Params) String() string {
	var ks []string
	for k := range p {
		ks = append(ks, k)
	}
	sort.Strings(ks)
	var parts []string
	for _, k := range ks {
		parts = append(parts, fmt.Sprintf("%s=%d", k, p[k]))
	}
	return strings.Join(parts, ",")
}

type vec = map[string]*big.Int

type pairDef struct {
	name   string
	hand   string // name of the hand-written TLA+ module (functions with loops / library calls)
	inputs func(p Params) []Input
	// goals: input name -> observable that must equal it after the round trip
	goals func(p Params) map[string]string
	build func(l *Loader, p Params, m *Module) error
	// real runs the REAL pack and unpack functions.  skip = the input is outside the domain the code
	// enforces (the packer refused it) or outside what the adapter can feed.
	real func(p Params, in vec) (obs vec, skip string)
	// handSources: functions whose source text is hashed for the hand transcriptions
	handSources [][2]string
}

func bi(x int64) *big.Int   { return big.NewInt(x) }
func bu(x uint64) *big.Int  { return new(big.Int).SetUint64(x) }
func p2m1(n int) *big.Int   { return new(big.Int).Sub(pow2(n), big.NewInt(1)) }
func u64(x *big.Int) uint64 { return new(big.Int).And(x, p2m1(64)).Uint64() }
func i64(x *big.Int) int64  { return x.Int64() }
func must(err error) {
	if err != nil {
		panic(err)
	}
}
func uintT(name string, bits int) Typ { return Typ{Bits: bits, Name: name} }

var pairs = map[string]*pairDef{}
var pairOrder []string

func register(p *pairDef) { pairs[p.name] = p; pairOrder = append(pairOrder, p.name) }

func instName(pair string, p Params) string {
	if len(p) == 0 {
		return pair
	}
	return pair + "[" + p.String() + "]"
}
func moduleName(pair string, p Params) string {
	s := "BitPack_" + pair
	var ks []string
	for k := range p {
		ks = append(ks, k)
	}
	sort.Strings(ks)
	for _, k := range ks {
		s += fmt.Sprintf("_%s%d", k, p[k])
	}
	return s
}

func call(l *Loader, m *Module, spec CallSpec) (*CallResult, error) {
	r, err := l.Call(spec)
	if err != nil {
		return nil, err
	}
	m.AddSource(r.Source)
	return r, nil
}

func ret(r *CallResult, i int, what string) (*Expr, error) {
	if i >= len(r.Rets) || r.Rets[i] == nil || r.Rets[i].IsOpaque() || r.Rets[i].Bool {
		return nil, fmt.Errorf("%s: result %d is not an integer expression the translator tracks", what, i)
	}
	return r.Rets[i], nil
}

func field(r *CallResult, name, what string) (*Expr, error) {
	v, ok := r.Fields[name]
	if !ok || v == nil || v.IsOpaque() || v.Bool {
		return nil, fmt.Errorf("%s: field %s is not assigned an integer expression", what, name)
	}
	return v, nil
}

func init() {
	// ------------------------------------------------------------------ zigzag, 64 bit
	register(&pairDef{
		name: "zigzag64",
		inputs: func(Params) []Input {
			return []Input{{"value", tInt64, tInt64.Min(), tInt64.Max()}}
		},
		goals: func(Params) map[string]string { return map[string]string{"value": "dec"} },
		build: func(l *Loader, p Params, m *Module) error {
			v := m.vars["value"]
			e, err := call(l, m, CallSpec{Pkg: "encoding", Func: "ZigzagEncode", Args: []*Expr{v}})
			if err != nil {
				return err
			}
			e0, err := ret(e, 0, "ZigzagEncode")
			if err != nil {
				return err
			}
			enc := m.Define("enc", e0, "encoding.ZigzagEncode(value)")
			d, err := call(l, m, CallSpec{Pkg: "encoding", Func: "ZigzagDecode", Args: []*Expr{enc}})
			if err != nil {
				return err
			}
			d0, err := ret(d, 0, "ZigzagDecode")
			if err != nil {
				return err
			}
			dec := m.Define("dec", d0, "encoding.ZigzagDecode(enc)")
			m.AddPre(e.Pre)
			m.AddMust("ZigzagDecode does not panic", d.Pre)
			m.Observe("enc", enc)
			m.Observe("dec", dec)
			m.Goal("value", dec, v)
			return nil
		},
		real: func(p Params, in vec) (vec, string) {
			e := encoding.ZigzagEncode(i64(in["value"]))
			return vec{"enc": bu(e), "dec": bi(encoding.ZigzagDecode(e))}, ""
		},
	})
	// ------------------------------------------------------------------ zigzag, 32 bit (vector tiles)
	register(&pairDef{
		name: "zigzag32",
		inputs: func(Params) []Input {
			return []Input{{"value", tInt, tInt32.Min(), tInt32.Max()}}
		},
		goals: func(Params) map[string]string { return map[string]string{"value": "dec"} },
		build: func(l *Loader, p Params, m *Module) error {
			v := m.vars["value"]
			e, err := call(l, m, CallSpec{Pkg: "renderer", Func: "zigzagEncode", Args: []*Expr{v}})
			if err != nil {
				return err
			}
			e0, err := ret(e, 0, "zigzagEncode")
			if err != nil {
				return err
			}
			enc := m.Define("enc", e0, "renderer.zigzagEncode(value)")
			d, err := call(l, m, CallSpec{Pkg: "renderer", Func: "zigzagDecode", Args: []*Expr{enc}})
			if err != nil {
				return err
			}
			d0, err := ret(d, 0, "zigzagDecode")
			if err != nil {
				return err
			}
			dec := m.Define("dec", d0, "renderer.zigzagDecode(enc)")
			m.AddPre(e.Pre)
			m.AddMust("zigzagDecode does not panic", d.Pre)
			m.Observe("enc", enc)
			m.Observe("dec", dec)
			m.Goal("value", dec, v)
			return nil
		},
		real: func(p Params, in vec) (vec, string) {
			e := renderer.VerifZigzagEncode32(int(i64(in["value"])))
			return vec{"enc": bu(uint64(e)), "dec": bi(int64(renderer.VerifZigzagDecode32(e)))}, ""
		},
	})
	// ------------------------------------------------------------------ type and namespace
	register(&pairDef{
		name: "typens",
		inputs: func(Params) []Input {
			return []Input{
				{"t", Typ{Bits: 64, Signed: true, Name: "b6.FeatureType"}, bi(0), bi(int64(b6.FeatureTypeExpression))},
				{"ns", uintT("Namespace", 16), bi(0), p2m1(13)},
			}
		},
		goals: func(Params) map[string]string { return map[string]string{"t": "t2", "ns": "ns2"} },
		build: func(l *Loader, p Params, m *Module) error {
			t, ns := m.vars["t"], m.vars["ns"]
			e, err := call(l, m, CallSpec{Pkg: "ingest/compact", Func: "CombineTypeAndNamespace", Args: []*Expr{t, ns}})
			if err != nil {
				return err
			}
			e0, err := ret(e, 0, "CombineTypeAndNamespace")
			if err != nil {
				return err
			}
			enc := m.Define("enc", e0, "compact.CombineTypeAndNamespace(t, ns)")
			d, err := call(l, m, CallSpec{Pkg: "ingest/compact", Func: "TypeAndNamespace.Split", Recv: enc})
			if err != nil {
				return err
			}
			d0, err := ret(d, 0, "Split")
			if err != nil {
				return err
			}
			d1, err := ret(d, 1, "Split")
			if err != nil {
				return err
			}
			t2 := m.Define("t2", d0, "enc.Split() type")
			ns2 := m.Define("ns2", d1, "enc.Split() namespace")
			m.AddPre(e.Pre)
			m.AddMust("Split does not panic", d.Pre)
			m.Observe("enc", enc)
			m.Observe("t2", t2)
			m.Observe("ns2", ns2)
			m.Goal("t", t2, t)
			m.Goal("ns", ns2, ns)
			return nil
		},
		real: func(p Params, in vec) (vec, string) {
			tn := compact.CombineTypeAndNamespace(b6.FeatureType(i64(in["t"])), compact.Namespace(u64(in["ns"])))
			t2, ns2 := tn.Split()
			return vec{"enc": bu(uint64(tn)), "t2": bi(int64(t2)), "ns2": bu(uint64(ns2))}, ""
		},
	})
	// ------------------------------------------------------------------ value type
	register(&pairDef{
		name: "valuetype",
		inputs: func(Params) []Input {
			return []Input{
				{"t", Typ{Bits: 64, Signed: true, Name: "b6.ExpressionType"}, bi(0), bi(int64(b6.ExpressionTypeExpressions))},
				{"v", tUint64, bi(0), tUint64.Max()},
			}
		},
		goals: func(Params) map[string]string { return map[string]string{"t": "t2", "v": "v2"} },
		build: func(l *Loader, p Params, m *Module) error {
			t, v := m.vars["t"], m.vars["v"]
			e, err := call(l, m, CallSpec{Pkg: "ingest/compact", Func: "EncodeValueType", Args: []*Expr{t, v}})
			if err != nil {
				return err
			}
			e0, err := ret(e, 0, "EncodeValueType")
			if err != nil {
				return err
			}
			enc := m.Define("enc", e0, "compact.EncodeValueType(t, v), written with binary.PutUvarint")
			d, err := call(l, m, CallSpec{Pkg: "ingest/compact", Func: "DecodeValue", Args: []*Expr{nil}, ChIn: []*Expr{enc}})
			if err != nil {
				return err
			}
			d0, err := ret(d, 0, "DecodeValue")
			if err != nil {
				return err
			}
			v2 := m.Define("v2", d0, "compact.DecodeValue(buffer) value")
			g, err := call(l, m, CallSpec{Pkg: "ingest/compact", Func: "inferValueType", Args: []*Expr{nil}, ChIn: []*Expr{enc}, SwitchTag: true})
			if err != nil {
				return err
			}
			if g.Tag == nil || g.Tag.IsOpaque() || g.Tag.Bool {
				return fmt.Errorf("inferValueType: switch tag is not an integer expression")
			}
			t2 := m.Define("t2", g.Tag, "the value type compact.inferValueType switches on")
			m.AddPre(e.Pre) // EncodeValueType panics when v does not fit: that is the domain the code enforces
			m.AddMust("DecodeValue does not panic", d.Pre)
			m.Observe("enc", enc)
			m.Observe("v2", v2)
			m.Observe("t2", t2)
			m.Goal("v", v2, v)
			m.Goal("t", t2, t)
			return nil
		},
		real: func(p Params, in vec) (obs vec, skip string) {
			var e uint64
			func() {
				defer func() {
					if r := recover(); r != nil {
						skip = fmt.Sprintf("EncodeValueType panicked: %v", r)
					}
				}()
				e = compact.EncodeValueType(b6.ExpressionType(i64(in["t"])), u64(in["v"]))
			}()
			if skip != "" {
				if in["v"].Cmp(pow2(62)) < 0 {
					// the packer refuses a value that fits: not a domain restriction but a defect
					return vec{"enc": bi(-1), "v2": bi(-1), "t2": bi(-1)}, ""
				}
				return nil, skip
			}
			var buf [binary.MaxVarintLen64]byte
			binary.PutUvarint(buf[:], e)
			v2, _ := compact.DecodeValue(buf[:])
			val, panicked := compact.VerifInferValueType(buf[:])
			t2 := int64(-1)
			if !panicked {
				switch val.(type) {
				case *compact.Int:
					t2 = int64(b6.ExpressionTypeString)
				case *compact.LatLng:
					t2 = int64(b6.ExpressionTypePoint)
				case *compact.LatLngs, *compact.References, *compact.ReferencesAndLatLngs:
					t2 = int64(b6.ExpressionTypeExpressions)
				}
			}
			return vec{"enc": bu(e), "v2": bu(v2), "t2": bi(t2)}, ""
		},
	})
	// ------------------------------------------------------------------ geometry encoding and length
	geomInputs := func(Params) []Input {
		return []Input{
			{"e", uintT("GeometryEncoding", 8), bi(0), bi(int64(compact.GeometryEncodingMixed))},
			// a slice length; its elements are at least 8 bytes, so it is below 2^60
			{"l", tInt, bi(0), p2m1(60)},
		}
	}
	register(&pairDef{
		name:   "geometry",
		inputs: geomInputs,
		goals:  func(Params) map[string]string { return map[string]string{"e": "e2", "l": "l2"} },
		build: func(l *Loader, p Params, m *Module) error {
			e, ln := m.vars["e"], m.vars["l"]
			c, err := call(l, m, CallSpec{Pkg: "ingest/compact", Func: "EncodeGeometry", Args: []*Expr{e, ln}})
			if err != nil {
				return err
			}
			c0, err := ret(c, 0, "EncodeGeometry")
			if err != nil {
				return err
			}
			enc := m.Define("enc", c0, "compact.EncodeGeometry(e, l)")
			dl, err := call(l, m, CallSpec{Pkg: "ingest/compact", Func: "DecodeGeometryLen", Args: []*Expr{enc}})
			if err != nil {
				return err
			}
			dl0, err := ret(dl, 0, "DecodeGeometryLen")
			if err != nil {
				return err
			}
			de, err := call(l, m, CallSpec{Pkg: "ingest/compact", Func: "DecodeGeometryEncoding", Args: []*Expr{enc}})
			if err != nil {
				return err
			}
			de0, err := ret(de, 0, "DecodeGeometryEncoding")
			if err != nil {
				return err
			}
			l2 := m.Define("l2", dl0, "compact.DecodeGeometryLen(enc)")
			e2 := m.Define("e2", de0, "compact.DecodeGeometryEncoding(enc)")
			m.AddMust("EncodeGeometry does not panic on a valid encoding", c.Pre)
			m.AddMust("DecodeGeometryLen does not panic", dl.Pre)
			m.AddMust("DecodeGeometryEncoding does not panic", de.Pre)
			m.Observe("enc", enc)
			m.Observe("l2", l2)
			m.Observe("e2", e2)
			m.Goal("l", l2, ln)
			m.Goal("e", e2, e)
			return nil
		},
		real: func(p Params, in vec) (obs vec, skip string) {
			defer func() {
				if r := recover(); r != nil {
					obs, skip = vec{"enc": bi(-1), "l2": bi(-1), "e2": bi(-1)}, ""
				}
			}()
			g := compact.EncodeGeometry(compact.GeometryEncoding(u64(in["e"])), int(i64(in["l"])))
			return vec{"enc": bu(g), "l2": bi(int64(compact.DecodeGeometryLen(g))), "e2": bi(int64(compact.DecodeGeometryEncoding(g)))}, ""
		},
	})
	// geometry length inside a typed value: EncodeValueType(Expressions, EncodeGeometry(e, l)) as every
	// geometry marshaller writes it, read back by DecodeValue + DecodeGeometryLen
	register(&pairDef{
		name:   "geomvalue",
		inputs: geomInputs,
		goals:  func(Params) map[string]string { return map[string]string{"e": "e2", "l": "l2"} },
		build: func(l *Loader, p Params, m *Module) error {
			e, ln := m.vars["e"], m.vars["l"]
			c, err := call(l, m, CallSpec{Pkg: "ingest/compact", Func: "EncodeGeometry", Args: []*Expr{e, ln}})
			if err != nil {
				return err
			}
			c0, err := ret(c, 0, "EncodeGeometry")
			if err != nil {
				return err
			}
			g := m.Define("g", c0, "compact.EncodeGeometry(e, l)")
			tExpr := mkConst(bi(int64(b6.ExpressionTypeExpressions)), Typ{Bits: 64, Signed: true, Name: "b6.ExpressionType"}, false)
			ev, err := call(l, m, CallSpec{Pkg: "ingest/compact", Func: "EncodeValueType", Args: []*Expr{tExpr, g}})
			if err != nil {
				return err
			}
			ev0, err := ret(ev, 0, "EncodeValueType")
			if err != nil {
				return err
			}
			enc := m.Define("enc", ev0, "compact.EncodeValueType(b6.ExpressionTypeExpressions, g), written with binary.PutUvarint")
			d, err := call(l, m, CallSpec{Pkg: "ingest/compact", Func: "DecodeValue", Args: []*Expr{nil}, ChIn: []*Expr{enc}})
			if err != nil {
				return err
			}
			d0, err := ret(d, 0, "DecodeValue")
			if err != nil {
				return err
			}
			g2 := m.Define("g2", d0, "compact.DecodeValue(buffer) value")
			dl, err := call(l, m, CallSpec{Pkg: "ingest/compact", Func: "DecodeGeometryLen", Args: []*Expr{g2}})
			if err != nil {
				return err
			}
			dl0, err := ret(dl, 0, "DecodeGeometryLen")
			if err != nil {
				return err
			}
			de, err := call(l, m, CallSpec{Pkg: "ingest/compact", Func: "DecodeGeometryEncoding", Args: []*Expr{g2}})
			if err != nil {
				return err
			}
			de0, err := ret(de, 0, "DecodeGeometryEncoding")
			if err != nil {
				return err
			}
			l2 := m.Define("l2", dl0, "compact.DecodeGeometryLen(g2)")
			e2 := m.Define("e2", de0, "compact.DecodeGeometryEncoding(g2)")
			m.AddMust("EncodeGeometry does not panic on a valid encoding", c.Pre)
			m.AddMust("EncodeValueType accepts every encoded geometry length (no panic)", ev.Pre)
			m.AddMust("DecodeValue does not panic", d.Pre)
			m.Observe("enc", enc)
			m.Observe("l2", l2)
			m.Observe("e2", e2)
			m.Goal("l", l2, ln)
			m.Goal("e", e2, e)
			return nil
		},
		real: func(p Params, in vec) (obs vec, skip string) {
			defer func() {
				if r := recover(); r != nil {
					obs, skip = vec{"enc": bi(-1), "l2": bi(-1), "e2": bi(-1)}, ""
				}
			}()
			g := compact.EncodeGeometry(compact.GeometryEncoding(u64(in["e"])), int(i64(in["l"])))
			ev := compact.EncodeValueType(b6.ExpressionTypeExpressions, g)
			var buf [binary.MaxVarintLen64]byte
			binary.PutUvarint(buf[:], ev)
			g2, _ := compact.DecodeValue(buf[:])
			return vec{"enc": bu(ev), "l2": bi(int64(compact.DecodeGeometryLen(g2))), "e2": bi(int64(compact.DecodeGeometryEncoding(g2)))}, ""
		},
	})
	// ------------------------------------------------------------------ hash map bucket header
	register(&pairDef{
		name: "bucketheader",
		inputs: func(p Params) []Input {
			return []Input{
				{"id", tUint64, bi(0), tUint64.Max()},
				{"tag", Typ{Bits: 64, Signed: true, Name: "Tag"}, bi(0), p2m1(p["t"])}, // WriteItem panics on tag >= 1<<TagBits
				{"length", tInt, bi(0), tInt.Max()},                                    // Reserve panics on a negative length
			}
		},
		goals: func(Params) map[string]string {
			return map[string]string{"id": "id2", "tag": "tag2", "length": "length2"}
		},
		build: func(l *Loader, p Params, m *Module) error {
			id, tag, length := m.vars["id"], m.vars["tag"], m.vars["length"]
			layout := map[string]*Expr{"BucketBits": mkConstInt(int64(p["b"]), tInt), "TagBits": mkConstInt(int64(p["t"]), tInt)}
			mr, err := call(l, m, CallSpec{Pkg: "encoding", Func: "uint64MapBucketHeader.Marshal",
				RecvFields: map[string]*Expr{"ID": id, "Tag": tag, "Length": length}, ParamFields: map[int]map[string]*Expr{1: layout}})
			if err != nil {
				return err
			}
			if len(mr.ChOut) != 2 {
				return fmt.Errorf("uint64MapBucketHeader.Marshal: expected 2 varint writes, found %d", len(mr.ChOut))
			}
			c0 := m.Define("ch0", mr.ChOut[0], "uint64MapBucketHeader.Marshal: first varint (id and tag)")
			c1 := m.Define("ch1", mr.ChOut[1], "uint64MapBucketHeader.Marshal: second varint (length)")
			br, err := call(l, m, CallSpec{Pkg: "encoding", Func: "Uint64MapLayout.BucketForID", RecvFields: layout, Args: []*Expr{id}})
			if err != nil {
				return err
			}
			b0, err := ret(br, 0, "BucketForID")
			if err != nil {
				return err
			}
			bucket := m.Define("bucket", b0, "layout.BucketForID(id): the bucket the entry is stored in and read from")
			ur, err := call(l, m, CallSpec{Pkg: "encoding", Func: "uint64MapBucketHeader.Unmarshal", Args: []*Expr{nil, bucket, nil},
				ParamFields: map[int]map[string]*Expr{2: layout}, ChIn: []*Expr{c0, c1}})
			if err != nil {
				return err
			}
			fid, err := field(ur, "ID", "Unmarshal")
			if err != nil {
				return err
			}
			ftag, err := field(ur, "Tag", "Unmarshal")
			if err != nil {
				return err
			}
			flen, err := field(ur, "Length", "Unmarshal")
			if err != nil {
				return err
			}
			id2 := m.Define("id2", fid, "uint64MapBucketHeader.Unmarshal: ID")
			tag2 := m.Define("tag2", ftag, "Tag")
			len2 := m.Define("length2", flen, "Length")
			m.AddMust("Marshal does not panic", mr.Pre)
			m.AddMust("Unmarshal does not panic", ur.Pre)
			m.Observe("ch0", c0)
			m.Observe("ch1", c1)
			m.Observe("bucket", bucket)
			m.Observe("id2", id2)
			m.Observe("tag2", tag2)
			m.Observe("length2", len2)
			m.Goal("id", id2, id)
			m.Goal("tag", tag2, tag)
			m.Goal("length", len2, length)
			return nil
		},
		real: func(p Params, in vec) (vec, string) {
			var buf [encoding.VerifMaxBucketHeaderLength]byte
			id := u64(in["id"])
			encoding.VerifBucketHeaderMarshal(id, encoding.Tag(i64(in["tag"])), int(i64(in["length"])), p["b"], p["t"], buf[:])
			c0, n := binary.Uvarint(buf[:])
			c1, _ := binary.Uvarint(buf[n:])
			layout := encoding.Uint64MapLayout{BucketBits: p["b"], TagBits: p["t"]}
			bucket := layout.BucketForID(id)
			id2, tag2, len2, _ := encoding.VerifBucketHeaderUnmarshal(buf[:], bucket, p["b"], p["t"])
			return vec{"ch0": bu(c0), "ch1": bu(c1), "bucket": bi(int64(bucket)), "id2": bu(id2), "tag2": bi(int64(tag2)), "length2": bi(int64(len2))}, ""
		},
	})
	// ------------------------------------------------------------------ tile IDs
	register(&pairDef{
		name: "tile",
		inputs: func(p Params) []Input {
			return []Input{{"x", tUint, bi(0), p2m1(p["z"])}, {"y", tUint, bi(0), p2m1(p["z"])}}
		},
		goals: func(Params) map[string]string { return map[string]string{"x": "x2", "y": "y2"} },
		build: func(l *Loader, p Params, m *Module) error {
			x, y := m.vars["x"], m.vars["y"]
			z := mkConstInt(int64(p["z"]), tUint)
			e, err := call(l, m, CallSpec{Pkg: "", Func: "TileIDFromXYZ", Args: []*Expr{x, y, z}})
			if err != nil {
				return err
			}
			e0, err := ret(e, 0, "TileIDFromXYZ")
			if err != nil {
				return err
			}
			enc := m.Define("enc", e0, fmt.Sprintf("b6.TileIDFromXYZ(x, y, %d)", p["z"]))
			// ToXYZ shifts by the zoom it has just decoded: the lemma "decoded zoom = z" is proved first and
			// then used to make the shift amounts constants.
			d, err := call(l, m, CallSpec{Pkg: "", Func: "TileID.ToXYZ", Recv: enc, Specialise: map[string]*Expr{"z": z}})
			if err != nil {
				return err
			}
			if len(d.Lemmas) != 1 {
				return fmt.Errorf("TileID.ToXYZ: no local variable z holding the decoded zoom")
			}
			d0, err := ret(d, 0, "ToXYZ")
			if err != nil {
				return err
			}
			d1, err := ret(d, 1, "ToXYZ")
			if err != nil {
				return err
			}
			d2, err := ret(d, 2, "ToXYZ")
			if err != nil {
				return err
			}
			zdec := m.Define("zdec", d.Lemmas[0].Got, "TileID.ToXYZ: the decoded zoom (before it is used as a shift amount)")
			x2 := m.Define("x2", d0, "TileID.ToXYZ x (given zdec = z)")
			y2 := m.Define("y2", d1, "TileID.ToXYZ y (given zdec = z)")
			z2 := m.Define("z2", d2, "TileID.ToXYZ z")
			m.AddMust("TileIDFromXYZ does not panic", e.Pre)
			m.AddMust("ToXYZ does not panic", d.Pre)
			m.Observe("enc", enc)
			m.Observe("x2", x2)
			m.Observe("y2", y2)
			m.Observe("z2", zdec)
			m.Goal("zoom", zdec, z)
			m.Goal("zoom result", z2, z)
			m.Goal("x", x2, x)
			m.Goal("y", y2, y)
			return nil
		},
		real: func(p Params, in vec) (vec, string) {
			id := b6.TileIDFromXYZ(uint(u64(in["x"])), uint(u64(in["y"])), uint(p["z"]))
			x2, y2, z2 := id.ToXYZ()
			obs := vec{"enc": bu(uint64(id)), "x2": bu(uint64(x2)), "y2": bu(uint64(y2)), "z2": bu(uint64(z2))}
			return obs, ""
		},
	})
	// ------------------------------------------------------------------ lat/lng point IDs
	register(&pairDef{
		name: "latlng",
		inputs: func(Params) []Input {
			return []Input{{"lat", tInt32, tInt32.Min(), tInt32.Max()}, {"lng", tInt32, tInt32.Min(), tInt32.Max()}}
		},
		goals: func(Params) map[string]string { return map[string]string{"lat": "lat2", "lng": "lng2"} },
		build: func(l *Loader, p Params, m *Module) error {
			lat, lng := m.vars["lat"], m.vars["lng"]
			e, err := call(l, m, CallSpec{Pkg: "ingest", Func: "NewLatLngID",
				Calls: map[string]*Expr{"$0.Lat.E7()": lat, "$0.Lng.E7()": lng}, Capture: []string{"id"}})
			if err != nil {
				return err
			}
			enc := m.Define("enc", e.Captured["id"], "ingest.NewLatLngID: the ID value, from the E7 latitude and longitude")
			d, err := call(l, m, CallSpec{Pkg: "ingest", Func: "LatLngFromID",
				ParamFields: map[int]map[string]*Expr{0: {"Value": enc}},
				Assume:      map[string]bool{"$0.Namespace == b6.NamespaceLatLng": true},
				Capture:     []string{"latE7", "lngE7"}})
			if err != nil {
				return err
			}
			lat2 := m.Define("lat2", d.Captured["latE7"], "ingest.LatLngFromID: latE7")
			lng2 := m.Define("lng2", d.Captured["lngE7"], "ingest.LatLngFromID: lngE7")
			m.AddMust("NewLatLngID does not panic", e.Pre)
			m.AddMust("LatLngFromID does not panic", d.Pre)
			m.Observe("enc", enc)
			m.Observe("lat2", lat2)
			m.Observe("lng2", lng2)
			m.Goal("lat", lat2, lat)
			m.Goal("lng", lng2, lng)
			m.Notes = append(m.Notes, "the E7 integers are the inputs; the float conversion s1.Angle <-> E7 is the s2 library's (exercised on the real functions by the vectors)")
			return nil
		},
		real: func(p Params, in vec) (vec, string) {
			lat, lng := int32(i64(in["lat"])), int32(i64(in["lng"]))
			ll := s2.LatLng{Lat: s1.Angle(lat) * s1.E7, Lng: s1.Angle(lng) * s1.E7}
			if ll.Lat.E7() != lat || ll.Lng.E7() != lng {
				return nil, "s1.Angle does not represent this E7 value exactly"
			}
			id := ingest.NewLatLngID(ll)
			ll2, ok := ingest.LatLngFromID(id)
			if !ok {
				return vec{"enc": bu(id.Value), "lat2": bi(1 << 40), "lng2": bi(1 << 40)}, ""
			}
			return vec{"enc": bu(id.Value), "lat2": bi(int64(ll2.Lat.E7())), "lng2": bi(int64(ll2.Lng.E7()))}, ""
		},
	})
	// ------------------------------------------------------------------ GB postcodes (hand transcription)
	register(&pairDef{
		name: "postcode",
		hand: "BitPackPostcode",
		inputs: func(p Params) []Input {
			var in []Input
			for i := 1; i <= p["n"]; i++ {
				in = append(in, Input{fmt.Sprintf("c%d", i), tInt, bi(0), bi(35)})
			}
			return in
		},
		goals: func(p Params) map[string]string {
			g := map[string]string{}
			for i := 1; i <= p["n"]; i++ {
				g[fmt.Sprintf("c%d", i)] = fmt.Sprintf("d%d", i)
			}
			return g
		},
		handSources: [][2]string{{"", "PointIDFromGBPostcode"}, {"", "PostcodeFromPointID"}},
		real: func(p Params, in vec) (vec, string) {
			n := p["n"]
			s := make([]byte, n)
			for i := 0; i < n; i++ {
				s[i] = postcodeAlphabet[i64(in[fmt.Sprintf("c%d", i+1)])]
			}
			id := b6.PointIDFromGBPostcode(string(s))
			obs := vec{"id": bu(id.Value), "valid": bi(0), "ok": bi(0), "len": bi(-1)}
			if id.IsValid() {
				obs["valid"] = bi(1)
			}
			back, ok := b6.PostcodeFromPointID(id)
			if ok {
				obs["ok"] = bi(1)
			}
			obs["len"] = bi(int64(len(back)))
			for i := 0; i < n; i++ {
				d := int64(-1)
				if i < len(back) {
					d = int64(strings.IndexByte(postcodeAlphabet, back[i]))
				}
				obs[fmt.Sprintf("d%d", i+1)] = bi(d)
			}
			return obs, ""
		},
	})
	// ------------------------------------------------------------------ UK ONS codes (hand transcription)
	register(&pairDef{
		name: "ons",
		hand: "BitPackONS",
		inputs: func(Params) []Input {
			return []Input{{"letter", tInt, bi('A'), bi('Z')}, {"number", tInt, bi(0), bi(99999999)}, {"year", tInt, bi(1900), bi(2155)}}
		},
		goals: func(Params) map[string]string {
			return map[string]string{"letter": "letter2", "number": "number2", "year": "year2"}
		},
		handSources: [][2]string{{"", "FeatureIDFromUKONSCode"}, {"", "UKONSCodeFromFeatureID"}},
		real: func(p Params, in vec) (vec, string) {
			code := fmt.Sprintf("%c%08d", rune(i64(in["letter"])), i64(in["number"]))
			id := b6.FeatureIDFromUKONSCode(code, int(i64(in["year"])), b6.FeatureTypeArea)
			obs := vec{"id": bu(id.Value), "letter2": bi(-1), "number2": bi(-1), "year2": bi(-1)}
			back, year, ok := b6.UKONSCodeFromFeatureID(id)
			if ok && len(back) == 9 {
				obs["letter2"] = bi(int64(back[0]))
				var n int64
				good := true
				for _, c := range back[1:] {
					if c < '0' || c > '9' {
						good = false
					}
					n = n*10 + int64(c-'0')
				}
				if good {
					obs["number2"] = bi(n)
				}
				obs["year2"] = bi(int64(year))
			}
			return obs, ""
		},
	})
}

const postcodeAlphabet = "0123456789ABCDEFGHIJKLMNOPQRSTUVWXYZ"

// BuildModule translates one instance from the source tree at root.
func BuildModule(l *Loader, pair string, p Params) (m *Module, err error) {
	pd, ok := pairs[pair]
	if !ok {
		return nil, fmt.Errorf("unknown pair %s", pair)
	}
	if pd.build == nil {
		return nil, fmt.Errorf("pair %s is transcribed by hand", pair)
	}
	defer func() {
		if r := recover(); r != nil {
			if xe, ok := r.(*xerr); ok {
				m, err = nil, xe
				return
			}
			m, err = nil, fmt.Errorf("translator panic: %v", r)
		}
	}()
	m = NewModule(moduleName(pair, p), instName(pair, p))
	for _, in := range pd.inputs(p) {
		m.In(in.Name, in.T, in.Lo, in.Hi)
	}
	if err := pd.build(l, p, m); err != nil {
		return nil, err
	}
	// every goal declared for the pair must be present
	for in, ob := range pd.goals(p) {
		if _, ok := m.Obs[ob]; !ok {
			return nil, fmt.Errorf("internal: observable %s for input %s missing", ob, in)
		}
	}
	return m, nil
}

// roundTrips judges the real observables: every input must come back.
func roundTrips(pd *pairDef, p Params, in vec, obs vec) (bool, string) {
	var bad []string
	for name, ob := range pd.goals(p) {
		got, ok := obs[ob]
		if !ok || got.Cmp(in[name]) != 0 {
			g := "missing"
			if ok {
				g = got.String()
			}
			bad = append(bad, fmt.Sprintf("%s: packed %s, unpacked %s", name, in[name], g))
		}
	}
	if pd.name == "tile" {
		if obs["z2"].Cmp(bi(int64(p["z"]))) != 0 {
			bad = append(bad, fmt.Sprintf("z: packed %d, unpacked %s", p["z"], obs["z2"]))
		}
	}
	if pd.name == "postcode" {
		if obs["valid"].Sign() == 0 || obs["ok"].Sign() == 0 || obs["len"].Cmp(bi(int64(p["n"]))) != 0 {
			bad = append(bad, fmt.Sprintf("valid=%s ok=%s len=%s", obs["valid"], obs["ok"], obs["len"]))
		}
	}
	sort.Strings(bad)
	return len(bad) == 0, strings.Join(bad, "; ")
}
