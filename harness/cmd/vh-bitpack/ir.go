// ir.go: integer-arithmetic intermediate representation of Go bit manipulation.
//
// Every Go integer value is represented by its *mathematical* value (signed types may be negative);
// wrap-around is explicit.  The IR has three consumers:
//   - Emit:  TLA+ text over unbounded integers (checked symbolically by Apalache),
//   - Eval:  exact evaluation with math/big (compared with the real functions on vectors, which
//     validates the translation itself),
//   - the interval / trailing-zero analysis used to model `|` as `+` and to drop redundant wraps.
package main

import (
	"fmt"
	"math/big"
	"strings"
)

type Typ struct {
	Bits    int
	Signed  bool
	Untyped bool // untyped Go constant (arbitrary precision)
	Name    string
}

func (t Typ) String() string {
	if t.Untyped {
		return "untyped"
	}
	if t.Name != "" {
		return t.Name
	}
	if t.Signed {
		return fmt.Sprintf("int%d", t.Bits)
	}
	return fmt.Sprintf("uint%d", t.Bits)
}

func pow2(n int) *big.Int { return new(big.Int).Lsh(big.NewInt(1), uint(n)) }

func (t Typ) Min() *big.Int {
	if t.Signed {
		return new(big.Int).Neg(pow2(t.Bits - 1))
	}
	return big.NewInt(0)
}
func (t Typ) Max() *big.Int {
	if t.Signed {
		return new(big.Int).Sub(pow2(t.Bits-1), big.NewInt(1))
	}
	return new(big.Int).Sub(pow2(t.Bits), big.NewInt(1))
}
func (t Typ) Same(o Typ) bool {
	return t.Untyped == o.Untyped && t.Bits == o.Bits && t.Signed == o.Signed
}

var (
	tInt     = Typ{Bits: 64, Signed: true, Name: "int"}
	tUint    = Typ{Bits: 64, Name: "uint"}
	tUint64  = Typ{Bits: 64, Name: "uint64"}
	tInt64   = Typ{Bits: 64, Signed: true, Name: "int64"}
	tInt32   = Typ{Bits: 32, Signed: true, Name: "int32"}
	tUntyped = Typ{Untyped: true}
)

const tzInf = 1 << 20

type Expr struct {
	Op      string // const var ref add sub neg mulpow2 divpow2 modpow2 wraps ite compl orx opaque | eq ne lt le gt ge and or not
	Args    []*Expr
	K       *big.Int // const value
	N       int      // power / width; orx: low bit of the overlap
	N2      int      // orx: one past the high bit of the overlap
	Name    string   // var / ref name
	T       Typ
	Bool    bool
	Lo, Hi  *big.Int // inclusive interval of the mathematical value (nil for bool/opaque)
	TZ      int      // number of low bits known to be zero
	Mask    bool     // value is 0 or "all ones" of its type (-1 if signed, 2^W-1 if unsigned)
	GoConst bool     // a constant expression in the Go source (not merely constant in this instance)
	Def     *Expr    // ref: the definition
}

func (e *Expr) IsConst() bool  { return e.Op == "const" }
func (e *Expr) IsOpaque() bool { return e.Op == "opaque" }

func opaque() *Expr { return &Expr{Op: "opaque"} }

func tzOf(k *big.Int) int {
	if k.Sign() == 0 {
		return tzInf
	}
	return int(new(big.Int).Abs(k).TrailingZeroBits())
}

func mkConst(k *big.Int, t Typ, goConst bool) *Expr {
	k = new(big.Int).Set(k)
	e := &Expr{Op: "const", K: k, T: t, Lo: k, Hi: k, TZ: tzOf(k), GoConst: goConst}
	if !t.Untyped {
		if k.Sign() == 0 || (t.Signed && k.Cmp(big.NewInt(-1)) == 0) || (!t.Signed && k.Cmp(t.Max()) == 0) {
			e.Mask = true
		}
	}
	return e
}
func mkConstInt(k int64, t Typ) *Expr { return mkConst(big.NewInt(k), t, false) }

func mkVar(name string, t Typ, lo, hi *big.Int) *Expr {
	return &Expr{Op: "var", Name: name, T: t, Lo: lo, Hi: hi}
}

func mkRef(name string, def *Expr) *Expr {
	return &Expr{Op: "ref", Name: name, Def: def, T: def.T, Bool: def.Bool, Lo: def.Lo, Hi: def.Hi, TZ: def.TZ, Mask: def.Mask}
}

func allConst(args ...*Expr) bool {
	for _, a := range args {
		if !a.IsConst() {
			return false
		}
	}
	return true
}
func allGoConst(args ...*Expr) bool {
	for _, a := range args {
		if !a.GoConst {
			return false
		}
	}
	return true
}

// fold evaluates a node whose arguments are all constants.
func fold(e *Expr) *Expr {
	if e.Bool || e.Op == "const" || e.Op == "var" || e.Op == "ref" || e.Op == "opaque" {
		return e
	}
	if !allConst(e.Args...) {
		return e
	}
	v := Eval(e, nil)
	c := mkConst(v, e.T, allGoConst(e.Args...))
	return c
}

func minB(a, b *big.Int) *big.Int {
	if a.Cmp(b) < 0 {
		return a
	}
	return b
}
func maxB(a, b *big.Int) *big.Int {
	if a.Cmp(b) > 0 {
		return a
	}
	return b
}
func minI(a, b int) int {
	if a < b {
		return a
	}
	return b
}

func floorDivPow2(a *big.Int, n int) *big.Int { return new(big.Int).Rsh(a, uint(n)) } // big.Int.Rsh is an arithmetic shift = floor

func floorModPow2(a *big.Int, n int) *big.Int {
	m := new(big.Int).Mod(a, pow2(n)) // Euclidean modulus: non-negative for positive divisor
	return m
}

func mkAdd(a, b *Expr, t Typ) *Expr {
	if b.IsConst() && b.K.Sign() == 0 {
		return retag(a, t)
	}
	if a.IsConst() && a.K.Sign() == 0 {
		return retag(b, t)
	}
	e := &Expr{Op: "add", Args: []*Expr{a, b}, T: t, Lo: new(big.Int).Add(a.Lo, b.Lo), Hi: new(big.Int).Add(a.Hi, b.Hi), TZ: minI(a.TZ, b.TZ)}
	return fold(e)
}
func mkSub(a, b *Expr, t Typ) *Expr {
	if b.IsConst() && b.K.Sign() == 0 {
		return retag(a, t)
	}
	e := &Expr{Op: "sub", Args: []*Expr{a, b}, T: t, Lo: new(big.Int).Sub(a.Lo, b.Hi), Hi: new(big.Int).Sub(a.Hi, b.Lo), TZ: minI(a.TZ, b.TZ)}
	return fold(e)
}
func mkNegMath(a *Expr, t Typ) *Expr {
	e := &Expr{Op: "neg", Args: []*Expr{a}, T: t, Lo: new(big.Int).Neg(a.Hi), Hi: new(big.Int).Neg(a.Lo), TZ: a.TZ}
	return fold(e)
}
func mkMulPow2(a *Expr, n int, t Typ) *Expr {
	if n == 0 {
		return retag(a, t)
	}
	tz := a.TZ + n
	if a.TZ >= tzInf {
		tz = tzInf
	}
	e := &Expr{Op: "mulpow2", Args: []*Expr{a}, N: n, T: t, Lo: new(big.Int).Lsh(a.Lo, uint(n)), Hi: new(big.Int).Lsh(a.Hi, uint(n)), TZ: tz}
	return fold(e)
}
func mkDivPow2(a *Expr, n int, t Typ) *Expr {
	if n == 0 {
		return retag(a, t)
	}
	tz := a.TZ - n
	if a.TZ >= tzInf {
		tz = tzInf
	} else if tz < 0 {
		tz = 0
	}
	e := &Expr{Op: "divpow2", Args: []*Expr{a}, N: n, T: t, Lo: floorDivPow2(a.Lo, n), Hi: floorDivPow2(a.Hi, n), TZ: tz}
	return fold(e)
}
func mkModPow2(a *Expr, n int, t Typ) *Expr {
	if a.TZ >= n {
		return mkConst(big.NewInt(0), t, false)
	}
	if a.Lo.Sign() >= 0 && a.Hi.Cmp(pow2(n)) < 0 {
		return retag(a, t)
	}
	// (x wrapped to W >= n bits) mod 2^n = x mod 2^n
	for (a.Op == "wraps" || a.Op == "modpow2") && a.N >= n {
		a = a.Args[0]
	}
	// the low TZ bits are zero, so the largest value is 2^n - 2^TZ
	e := &Expr{Op: "modpow2", Args: []*Expr{a}, N: n, T: t, Lo: big.NewInt(0), Hi: new(big.Int).Sub(pow2(n), pow2(a.TZ)), TZ: a.TZ}
	return fold(e)
}

// retag returns e with Go type t (no change of the mathematical value).
func retag(e *Expr, t Typ) *Expr {
	if e.T.Same(t) && e.T.Name == t.Name {
		return e
	}
	if e.IsConst() {
		return mkConst(e.K, t, e.GoConst)
	}
	c := *e
	c.T = t
	keep := e.Mask && !t.Untyped && !e.T.Untyped &&
		((e.T.Signed && t.Signed) || (e.T.Bits == t.Bits && e.T.Signed == t.Signed))
	c.Mask = keep
	return &c
}

// mkWrap converts the mathematical value of e to Go type t (two's complement wrap-around).
func mkWrap(e *Expr, t Typ) *Expr {
	if t.Untyped {
		return retag(e, t)
	}
	if e.Lo.Cmp(t.Min()) >= 0 && e.Hi.Cmp(t.Max()) <= 0 {
		r := retag(e, t)
		return r
	}
	// a sign mask converted to another integer type stays 0 / all ones when the source is signed
	if e.Mask && e.T.Signed {
		zero := mkConst(big.NewInt(0), t, false)
		var ones *Expr
		if t.Signed {
			ones = mkConst(big.NewInt(-1), t, false)
		} else {
			ones = mkConst(t.Max(), t, false)
		}
		r := mkIte(mkCmp("eq", e, mkConst(big.NewInt(0), e.T, false)), zero, ones)
		r.Mask = true
		return r
	}
	if !t.Signed {
		r := mkModPow2(e, t.Bits, t)
		return r
	}
	if e.TZ >= t.Bits {
		return mkConst(big.NewInt(0), t, false)
	}
	for (e.Op == "wraps" || e.Op == "modpow2") && e.N >= t.Bits {
		e = e.Args[0]
	}
	w := &Expr{Op: "wraps", Args: []*Expr{e}, N: t.Bits, T: t, Lo: t.Min(), Hi: t.Max(), TZ: e.TZ}
	return fold(w)
}

func mkIte(c, a, b *Expr) *Expr {
	if c.Op == "true" {
		return a
	}
	if c.Op == "false" {
		return b
	}
	if a.Bool != b.Bool {
		panic("ite of bool and int")
	}
	if a.Bool {
		// (c /\ a) \/ (~c /\ b)
		return mkOrB(mkAndB(c, a), mkAndB(mkNot(c), b))
	}
	if a.IsOpaque() || b.IsOpaque() {
		return opaque()
	}
	if a.IsConst() && b.IsConst() && a.K.Cmp(b.K) == 0 {
		return a
	}
	e := &Expr{Op: "ite", Args: []*Expr{c, a, b}, T: a.T, Lo: minB(a.Lo, b.Lo), Hi: maxB(a.Hi, b.Hi), TZ: minI(a.TZ, b.TZ), Mask: a.Mask && b.Mask}
	return e
}

// mkCompl is x XOR all-ones of its type.
func mkCompl(a *Expr, t Typ) *Expr {
	var e *Expr
	if t.Signed {
		e = &Expr{Op: "compl", Args: []*Expr{a}, K: big.NewInt(-1), T: t, Lo: new(big.Int).Sub(big.NewInt(-1), a.Hi), Hi: new(big.Int).Sub(big.NewInt(-1), a.Lo)}
	} else {
		m := t.Max()
		e = &Expr{Op: "compl", Args: []*Expr{a}, K: m, T: t, Lo: new(big.Int).Sub(m, a.Hi), Hi: new(big.Int).Sub(m, a.Lo)}
	}
	return fold(e)
}

func bitLen(hi *big.Int) int { return hi.BitLen() }

const maxOrOverlap = 24

// mkOr models a | b.  When the possibly-set bits of the operands cannot overlap (known trailing zeros
// of one operand vs. upper bound of the other) it is a + b.  When they may overlap in a few bits the
// overlap is modelled exactly bit by bit.  Otherwise the construct is outside the translator.
func mkOr(a, b *Expr, t Typ) (*Expr, error) {
	if a.IsConst() && a.K.Sign() == 0 {
		return retag(b, t), nil
	}
	if b.IsConst() && b.K.Sign() == 0 {
		return retag(a, t), nil
	}
	if allConst(a, b) {
		return mkConst(new(big.Int).Or(a.K, b.K), t, allGoConst(a, b)), nil
	}
	// low operand entirely below the known-zero bits of the other (valid also for a negative high operand)
	if b.Lo.Sign() >= 0 && bitLen(b.Hi) <= a.TZ {
		return mkAdd(a, b, t), nil
	}
	if a.Lo.Sign() >= 0 && bitLen(a.Hi) <= b.TZ {
		return mkAdd(a, b, t), nil
	}
	if a.Lo.Sign() < 0 || b.Lo.Sign() < 0 {
		return nil, fmt.Errorf("cannot model `|` on possibly negative operands with overlapping bits")
	}
	lo := a.TZ
	if b.TZ > lo {
		lo = b.TZ
	}
	hi := minI(bitLen(a.Hi), bitLen(b.Hi))
	if hi <= lo {
		return mkAdd(a, b, t), nil
	}
	if hi-lo > maxOrOverlap {
		return nil, fmt.Errorf("cannot model `|`: operands may overlap in bits [%d,%d)", lo, hi)
	}
	e := &Expr{Op: "orx", Args: []*Expr{a, b}, N: lo, N2: hi, T: t, Lo: maxB(a.Lo, b.Lo), Hi: new(big.Int).Add(a.Hi, b.Hi), TZ: minI(a.TZ, b.TZ)}
	return e, nil
}

// mkAndMask models a & mask for a constant mask of contiguous one bits.
func mkAndMask(a *Expr, mask *big.Int, t Typ) (*Expr, error) {
	if mask.Sign() == 0 {
		return mkConst(big.NewInt(0), t, false), nil
	}
	if a.IsConst() {
		return mkConst(new(big.Int).And(a.K, mask), t, false), nil
	}
	if mask.Sign() < 0 {
		if mask.Cmp(big.NewInt(-1)) == 0 {
			return retag(a, t), nil
		}
		return nil, fmt.Errorf("cannot model `&` with negative mask %s", mask)
	}
	if !t.Untyped && !t.Signed && mask.Cmp(t.Max()) == 0 {
		return retag(a, t), nil
	}
	lo := int(mask.TrailingZeroBits())
	sh := new(big.Int).Rsh(mask, uint(lo))
	k := sh.BitLen()
	if new(big.Int).Add(sh, big.NewInt(1)).Cmp(pow2(k)) != 0 {
		return nil, fmt.Errorf("cannot model `&` with non-contiguous mask 0x%s", mask.Text(16))
	}
	if lo == 0 {
		return mkModPow2(a, k, t), nil
	}
	return mkMulPow2(mkModPow2(mkDivPow2(a, lo, t), k, t), lo, t), nil
}

// mkXor models a ^ b when one operand is a sign mask (0 or all ones).
func mkXor(a, b *Expr, t Typ) (*Expr, error) {
	if allConst(a, b) {
		return mkConst(new(big.Int).Xor(a.K, b.K), t, allGoConst(a, b)), nil
	}
	if a.IsConst() && a.K.Sign() == 0 {
		return retag(b, t), nil
	}
	if b.IsConst() && b.K.Sign() == 0 {
		return retag(a, t), nil
	}
	x, m := a, b
	if !m.Mask {
		x, m = b, a
	}
	if !m.Mask {
		return nil, fmt.Errorf("cannot model `^`: neither operand is a sign mask (0 or all ones)")
	}
	zero := mkConst(big.NewInt(0), m.T, false)
	return mkIte(mkCmp("eq", m, zero), retag(x, t), mkCompl(x, t)), nil
}

func markMask(e *Expr) *Expr {
	if e.Bool || e.Lo == nil || e.T.Untyped {
		return e
	}
	if e.T.Signed && e.Lo.Cmp(big.NewInt(-1)) >= 0 && e.Hi.Sign() <= 0 {
		c := *e
		c.Mask = true
		return &c
	}
	return e
}

// ---- booleans ----

func mkBool(v bool) *Expr {
	if v {
		return &Expr{Op: "true", Bool: true}
	}
	return &Expr{Op: "false", Bool: true}
}

func mkCmp(op string, a, b *Expr) *Expr {
	if allConst(a, b) {
		c := a.K.Cmp(b.K)
		var r bool
		switch op {
		case "eq":
			r = c == 0
		case "ne":
			r = c != 0
		case "lt":
			r = c < 0
		case "le":
			r = c <= 0
		case "gt":
			r = c > 0
		case "ge":
			r = c >= 0
		}
		return mkBool(r)
	}
	// comparison of a two-valued constant choice with a constant: decide per branch
	if a.Op == "ite" && a.Args[1].IsConst() && a.Args[2].IsConst() && b.IsConst() {
		c := a.Args[0]
		return mkOrB(mkAndB(c, mkCmp(op, a.Args[1], b)), mkAndB(mkNot(c), mkCmp(op, a.Args[2], b)))
	}
	// decided by intervals
	if a.Lo != nil && b.Lo != nil {
		switch op {
		case "lt":
			if a.Hi.Cmp(b.Lo) < 0 {
				return mkBool(true)
			}
			if a.Lo.Cmp(b.Hi) >= 0 {
				return mkBool(false)
			}
		case "le":
			if a.Hi.Cmp(b.Lo) <= 0 {
				return mkBool(true)
			}
			if a.Lo.Cmp(b.Hi) > 0 {
				return mkBool(false)
			}
		case "gt":
			if a.Lo.Cmp(b.Hi) > 0 {
				return mkBool(true)
			}
			if a.Hi.Cmp(b.Lo) <= 0 {
				return mkBool(false)
			}
		case "ge":
			if a.Lo.Cmp(b.Hi) >= 0 {
				return mkBool(true)
			}
			if a.Hi.Cmp(b.Lo) < 0 {
				return mkBool(false)
			}
		}
	}
	return &Expr{Op: op, Args: []*Expr{a, b}, Bool: true}
}
func mkNot(a *Expr) *Expr {
	switch a.Op {
	case "true":
		return mkBool(false)
	case "false":
		return mkBool(true)
	case "not":
		return a.Args[0]
	}
	return &Expr{Op: "not", Args: []*Expr{a}, Bool: true}
}
func mkAndB(a, b *Expr) *Expr {
	if a.Op == "false" || b.Op == "false" {
		return mkBool(false)
	}
	if a.Op == "true" {
		return b
	}
	if b.Op == "true" {
		return a
	}
	return &Expr{Op: "and", Args: []*Expr{a, b}, Bool: true}
}
func mkOrB(a, b *Expr) *Expr {
	if a.Op == "true" || b.Op == "true" {
		return mkBool(true)
	}
	if a.Op == "false" {
		return b
	}
	if b.Op == "false" {
		return a
	}
	return &Expr{Op: "or", Args: []*Expr{a, b}, Bool: true}
}

// ---- evaluation (exact, math/big) ----

type evalEnv struct {
	vars map[string]*big.Int
	memo map[*Expr]*big.Int
}

func Eval(e *Expr, vars map[string]*big.Int) *big.Int {
	env := &evalEnv{vars: vars, memo: map[*Expr]*big.Int{}}
	return env.eval(e)
}

func b2i(b bool) *big.Int {
	if b {
		return big.NewInt(1)
	}
	return big.NewInt(0)
}

func (v *evalEnv) eval(e *Expr) *big.Int {
	if r, ok := v.memo[e]; ok {
		return r
	}
	r := v.eval1(e)
	v.memo[e] = r
	return r
}

func (v *evalEnv) eval1(e *Expr) *big.Int {
	arg := func(i int) *big.Int { return v.eval(e.Args[i]) }
	switch e.Op {
	case "const":
		return e.K
	case "var":
		x, ok := v.vars[e.Name]
		if !ok {
			panic("eval: unbound input " + e.Name)
		}
		return x
	case "ref":
		return v.eval(e.Def)
	case "add":
		return new(big.Int).Add(arg(0), arg(1))
	case "sub":
		return new(big.Int).Sub(arg(0), arg(1))
	case "neg":
		return new(big.Int).Neg(arg(0))
	case "mulpow2":
		return new(big.Int).Lsh(arg(0), uint(e.N))
	case "divpow2":
		return floorDivPow2(arg(0), e.N)
	case "modpow2":
		return floorModPow2(arg(0), e.N)
	case "wraps":
		h := pow2(e.N - 1)
		x := new(big.Int).Add(arg(0), h)
		x = floorModPow2(x, e.N)
		return x.Sub(x, h)
	case "ite":
		if arg(0).Sign() != 0 {
			return arg(1)
		}
		return arg(2)
	case "compl":
		return new(big.Int).Sub(e.K, arg(0))
	case "orx":
		return new(big.Int).Or(arg(0), arg(1))
	case "true":
		return big.NewInt(1)
	case "false":
		return big.NewInt(0)
	case "eq":
		return b2i(arg(0).Cmp(arg(1)) == 0)
	case "ne":
		return b2i(arg(0).Cmp(arg(1)) != 0)
	case "lt":
		return b2i(arg(0).Cmp(arg(1)) < 0)
	case "le":
		return b2i(arg(0).Cmp(arg(1)) <= 0)
	case "gt":
		return b2i(arg(0).Cmp(arg(1)) > 0)
	case "ge":
		return b2i(arg(0).Cmp(arg(1)) >= 0)
	case "and":
		return b2i(arg(0).Sign() != 0 && arg(1).Sign() != 0)
	case "or":
		return b2i(arg(0).Sign() != 0 || arg(1).Sign() != 0)
	case "not":
		return b2i(arg(0).Sign() == 0)
	}
	panic("eval: unknown op " + e.Op)
}

// ---- TLA+ emission ----

func lit(k *big.Int) string {
	if k.Sign() < 0 {
		return "(-" + new(big.Int).Neg(k).String() + ")"
	}
	return k.String()
}

// Emit renders e as a TLA+ expression.  refArgs is appended to every reference to a definition
// (definitions are operators over the module's inputs).
func Emit(e *Expr, refArgs string) string { return EmitP(e, refArgs, "i_") }

// EmitP: varPrefix is "i_" for the state variables and "p_" inside operator definitions (an operator
// parameter may not have the name of a variable).
func EmitP(e *Expr, refArgs string, varPrefix string) string {
	em := func(i int) string { return EmitP(e.Args[i], refArgs, varPrefix) }
	nonneg := func(x *Expr) bool { return x.Lo != nil && x.Lo.Sign() >= 0 }
	switch e.Op {
	case "const":
		return lit(e.K)
	case "var":
		return varPrefix + e.Name
	case "ref":
		return e.Name + refArgs
	case "add":
		return "(" + em(0) + " + " + em(1) + ")"
	case "sub":
		return "(" + em(0) + " - " + em(1) + ")"
	case "neg":
		return "(0 - " + em(0) + ")"
	case "mulpow2":
		return "(" + em(0) + " * " + pow2(e.N).String() + ")"
	case "divpow2":
		if nonneg(e.Args[0]) {
			return "(" + em(0) + " \\div " + pow2(e.N).String() + ")"
		}
		return "FloorDiv(" + em(0) + ", " + pow2(e.N).String() + ")"
	case "modpow2":
		if nonneg(e.Args[0]) {
			return "(" + em(0) + " % " + pow2(e.N).String() + ")"
		}
		return "FloorMod(" + em(0) + ", " + pow2(e.N).String() + ")"
	case "wraps":
		h := pow2(e.N - 1)
		sh := new(big.Int).Add(e.Args[0].Lo, h)
		if sh.Sign() >= 0 {
			return "(((" + em(0) + " + " + h.String() + ") % " + pow2(e.N).String() + ") - " + h.String() + ")"
		}
		return "(FloorMod(" + em(0) + " + " + h.String() + ", " + pow2(e.N).String() + ") - " + h.String() + ")"
	case "ite":
		return "(IF " + em(0) + " THEN " + em(1) + " ELSE " + em(2) + ")"
	case "compl":
		return "(" + lit(e.K) + " - " + em(0) + ")"
	case "orx":
		// a | b = a + b - (a & b); the operands can only share bits N..N2-1
		var sb strings.Builder
		sb.WriteString("(" + em(0) + " + " + em(1))
		for i := e.N; i < e.N2; i++ {
			p := pow2(i).String()
			sb.WriteString(" - (IF (" + em(0) + " \\div " + p + ") % 2 = 1 /\\ (" + em(1) + " \\div " + p + ") % 2 = 1 THEN " + p + " ELSE 0)")
		}
		sb.WriteString(")")
		return sb.String()
	case "true":
		return "TRUE"
	case "false":
		return "FALSE"
	case "eq":
		return "(" + em(0) + " = " + em(1) + ")"
	case "ne":
		return "(" + em(0) + " /= " + em(1) + ")"
	case "lt":
		return "(" + em(0) + " < " + em(1) + ")"
	case "le":
		return "(" + em(0) + " <= " + em(1) + ")"
	case "gt":
		return "(" + em(0) + " > " + em(1) + ")"
	case "ge":
		return "(" + em(0) + " >= " + em(1) + ")"
	case "and":
		return "(" + em(0) + " /\\ " + em(1) + ")"
	case "or":
		return "(" + em(0) + " \\/ " + em(1) + ")"
	case "not":
		return "(~" + em(0) + ")"
	}
	panic("emit: unknown op " + e.Op)
}
