// vh-bitpack: property C10 (bit-packed identifiers decode to what was packed).
//
//	vh-bitpack translate --src <b6 root> --out <dir> --instances <file.json>
//	     go/ast -> TLA+ : one module per function pair and concrete layout, for Apalache
//	vh-bitpack layouts   the (bucketBits, tagBits) layouts the index builder creates, asked of the real code
//	vh-bitpack run real     --cases ...   boundary vectors on the REAL functions (+ translation validation)
//	vh-bitpack run confirm  --cases ...   one concrete input (an Apalache counterexample) on the REAL functions
package main

import (
	"encoding/json"
	"flag"
	"fmt"
	"math/big"
	"math/rand"
	"os"
	"path/filepath"
	"sort"
	"strings"

	"diagonal.works/b6"
	"diagonal.works/b6/encoding"
	"diagonal.works/b6/ingest/compact"
	"verif/harness/vh"
)

type instance struct {
	ID     int               `json:"id"`
	Pair   string            `json:"pair"`
	Params Params            `json:"params"`
	Src    string            `json:"src"`   // b6 source root (for translation validation)
	N      int               `json:"n"`     // number of random vectors on top of the boundary vectors
	Input  map[string]string `json:"input"` // confirm: one concrete input
}

// ---------------------------------------------------------------------------------- vectors

func boundaryValues(in Input, rng *rand.Rand, nrand int) []*big.Int {
	set := map[string]*big.Int{}
	add := func(x *big.Int) {
		if x.Cmp(in.Lo) >= 0 && x.Cmp(in.Hi) <= 0 {
			set[x.String()] = x
		}
	}
	one := big.NewInt(1)
	for _, b := range []*big.Int{in.Lo, in.Hi, big.NewInt(0)} {
		add(b)
		add(new(big.Int).Add(b, one))
		add(new(big.Int).Sub(b, one))
	}
	for k := 0; k <= 64; k++ {
		p := pow2(k)
		for _, d := range []int64{-1, 0, 1} {
			x := new(big.Int).Add(p, big.NewInt(d))
			add(x)
			add(new(big.Int).Neg(x))
		}
	}
	span := new(big.Int).Sub(in.Hi, in.Lo)
	span.Add(span, one)
	for i := 0; i < nrand; i++ {
		// random magnitude class, then random bits
		r := new(big.Int).Rand(rng, span)
		if rng.Intn(2) == 0 && span.BitLen() > 1 {
			r.Rsh(r, uint(rng.Intn(span.BitLen())))
		}
		add(new(big.Int).Add(in.Lo, r))
		add(new(big.Int).Sub(in.Hi, r))
	}
	var out []*big.Int
	for _, v := range set {
		out = append(out, v)
	}
	sort.Slice(out, func(i, j int) bool { return out[i].Cmp(out[j]) < 0 })
	return out
}

// vectors: every boundary value of every input against low / high / random values of the others,
// plus the full product when it is small.
func vectors(inputs []Input, rng *rand.Rand, nrand int) []vec {
	vals := make([][]*big.Int, len(inputs))
	total := 1
	for i, in := range inputs {
		vals[i] = boundaryValues(in, rng, nrand)
		if total < 1<<20 {
			total *= len(vals[i])
		}
	}
	seen := map[string]bool{}
	var out []vec
	emit := func(pick []*big.Int) {
		var key strings.Builder
		v := vec{}
		for i, in := range inputs {
			v[in.Name] = pick[i]
			key.WriteString(pick[i].String() + ",")
		}
		if !seen[key.String()] {
			seen[key.String()] = true
			out = append(out, v)
		}
	}
	if total <= 20000 {
		pick := make([]*big.Int, len(inputs))
		var rec func(i int)
		rec = func(i int) {
			if i == len(inputs) {
				emit(append([]*big.Int{}, pick...))
				return
			}
			for _, v := range vals[i] {
				pick[i] = v
				rec(i + 1)
			}
		}
		rec(0)
		return out
	}
	for i := range inputs {
		for _, v := range vals[i] {
			for rep := 0; rep < 6; rep++ {
				pick := make([]*big.Int, len(inputs))
				for j := range inputs {
					switch {
					case j == i:
						pick[j] = v
					case rep == 0:
						pick[j] = inputs[j].Lo
					case rep == 1:
						pick[j] = inputs[j].Hi
					default:
						pick[j] = vals[j][rng.Intn(len(vals[j]))]
					}
				}
				emit(pick)
			}
		}
	}
	return out
}

// fails runs the real pair on one input.
func fails(pd *pairDef, p Params, in vec) (failed bool, why string, obs vec, skipped bool) {
	var skip string
	pmsg := vh.Catch(func() { obs, skip = pd.real(p, in) })
	if pmsg != "" {
		return true, "panic: " + firstLine(pmsg), nil, false
	}
	if skip != "" {
		return false, skip, nil, true
	}
	ok, why := roundTrips(pd, p, in, obs)
	return !ok, why, obs, false
}

func firstLine(s string) string {
	if i := strings.IndexByte(s, '\n'); i >= 0 {
		return s[:i]
	}
	return s
}

// minimise turns a failing input into the canonical reproducer used as the failure key: for one input
// after the other (the others fixed) take the candidate of smallest magnitude among 0, +-1, +-2^k,
// +-(2^k-1) that still fails on the REAL functions; if none does, clear bits of the magnitude greedily
// from the top.  Repeated until nothing changes.
func minimise(pd *pairDef, p Params, in vec) vec {
	inputs := pd.inputs(p)
	cur := vec{}
	for k, v := range in {
		cur[k] = new(big.Int).Set(v)
	}
	try := func(name string, cand *big.Int, inp Input) bool {
		if cand.Cmp(inp.Lo) < 0 || cand.Cmp(inp.Hi) > 0 {
			return false
		}
		old := cur[name]
		cur[name] = cand
		f, _, _, skipped := fails(pd, p, cur)
		if f && !skipped {
			return true
		}
		cur[name] = old
		return false
	}
	var cands []*big.Int
	cands = append(cands, big.NewInt(0))
	for k := 0; k <= 64; k++ {
		for _, d := range []int64{-1, 0} {
			x := new(big.Int).Add(pow2(k), big.NewInt(d))
			if x.Sign() > 0 {
				cands = append(cands, x, new(big.Int).Neg(x))
			}
		}
	}
	sort.SliceStable(cands, func(i, j int) bool { return cands[i].CmpAbs(cands[j]) < 0 })
	for round := 0; round < 4; round++ {
		changed := false
		for _, inp := range inputs {
			start := new(big.Int).Set(cur[inp.Name])
			found := false
			for _, c := range cands {
				if c.CmpAbs(start) >= 0 {
					break
				}
				if try(inp.Name, c, inp) {
					found = true
					break
				}
			}
			if !found {
				for bit := cur[inp.Name].BitLen() - 1; bit >= 0; bit-- {
					v := cur[inp.Name]
					mag := new(big.Int).Abs(v)
					if mag.Bit(bit) == 0 {
						continue
					}
					mag.SetBit(mag, bit, 0)
					if v.Sign() < 0 {
						mag.Neg(mag)
					}
					try(inp.Name, mag, inp)
				}
				if v := cur[inp.Name]; v.Sign() < 0 {
					try(inp.Name, new(big.Int).Neg(v), inp)
				}
			}
			if cur[inp.Name].Cmp(start) != 0 {
				changed = true
			}
		}
		if !changed {
			break
		}
	}
	return cur
}

func vecString(inputs []Input, v vec) string {
	var parts []string
	for _, in := range inputs {
		parts = append(parts, fmt.Sprintf("%s=%s", in.Name, v[in.Name]))
	}
	return strings.Join(parts, " ")
}

func vecJSON(v vec) map[string]string {
	m := map[string]string{}
	for k, x := range v {
		m[k] = x.String()
	}
	return m
}

type failure struct {
	Key     string            `json:"key"`
	What    string            `json:"what"`
	Input   map[string]string `json:"input"`
	Minimal map[string]string `json:"minimal"`
	Obs     map[string]string `json:"obs,omitempty"`
}

func describe(pd *pairDef, p Params, in vec) failure {
	min := minimise(pd, p, in)
	_, why, obs, _ := fails(pd, p, min)
	inputs := pd.inputs(p)
	f := failure{
		Key:     fmt.Sprintf("%s minimal failing input %s", instName(pd.name, p), vecString(inputs, min)),
		What:    fmt.Sprintf("%s: unpack(pack(x)) != x on the real functions for %s (%s)", instName(pd.name, p), vecString(inputs, min), why),
		Input:   vecJSON(in),
		Minimal: vecJSON(min),
	}
	if obs != nil {
		f.Obs = vecJSON(obs)
	}
	return f
}

// ---------------------------------------------------------------------------------- adapters

type realObs struct {
	Failures   []failure           `json:"failures,omitempty"`
	Mismatches []string            `json:"mismatches,omitempty"` // translation (IR) vs real function
	TransErr   string              `json:"translate_error,omitempty"`
	Vectors    int                 `json:"vectors"`
	Skipped    int                 `json:"skipped"`
	IRChecked  int                 `json:"ir_checked"`
	Samples    []map[string]string `json:"samples,omitempty"`
}

// runReal: boundary + random vectors on the real functions; the same vectors through the translated
// formulas (exact evaluation) must give the same observables, which validates the translation.
func runReal(data json.RawMessage) vh.Verdict {
	var c instance
	if err := json.Unmarshal(data, &c); err != nil {
		return vh.Fail("harness-json", "bad case: %v", err)
	}
	pd, ok := pairs[c.Pair]
	if !ok {
		return vh.Fail("harness-pair", "unknown pair %s", c.Pair)
	}
	rng := rand.New(rand.NewSource(vh.Seed*1000003 + int64(c.ID)))
	inputs := pd.inputs(c.Params)
	vs := vectors(inputs, rng, c.N)
	var mod *Module
	ro := realObs{}
	if pd.build != nil && c.Src != "" {
		m, err := BuildModule(NewLoader(c.Src), c.Pair, c.Params)
		if err != nil {
			ro.TransErr = err.Error()
		} else {
			mod = m
		}
	}
	seenKey := map[string]bool{}
	for i, v := range vs {
		failed, _, obs, skipped := fails(pd, c.Params, v)
		if skipped {
			ro.Skipped++
			continue
		}
		ro.Vectors++
		if i%97 == 3 && len(ro.Samples) < 3 && obs != nil {
			s := vecJSON(v)
			for k, x := range obs {
				s["-> "+k] = x.String()
			}
			ro.Samples = append(ro.Samples, s)
		}
		if failed && len(ro.Failures) < 12 {
			f := describe(pd, c.Params, v)
			if !seenKey[f.Key] {
				seenKey[f.Key] = true
				ro.Failures = append(ro.Failures, f)
			}
		}
		if mod != nil && obs != nil {
			irObs, pre, goals := mod.EvalObs(v)
			if pre {
				ro.IRChecked++
				for k, want := range obs {
					got, ok := irObs[k]
					if !ok {
						continue
					}
					if got.Cmp(want) != 0 && len(ro.Mismatches) < 5 {
						ro.Mismatches = append(ro.Mismatches, fmt.Sprintf("%s: %s: translated formula gives %s, real function %s", vecString(inputs, v), k, got, want))
					}
				}
				if goals == failed && len(ro.Mismatches) < 5 {
					ro.Mismatches = append(ro.Mismatches, fmt.Sprintf("%s: translated obligations hold=%v but real round trip failed=%v", vecString(inputs, v), goals, failed))
				}
			}
		}
	}
	verdict := vh.Verdict{OK: len(ro.Failures) == 0 && len(ro.Mismatches) == 0, Obs: ro,
		Stats: map[string]int{"real_vectors": ro.Vectors, "vectors_also_through_translation": ro.IRChecked}}
	if len(ro.Failures) > 0 {
		verdict.Key = ro.Failures[0].Key
		verdict.Msg = ro.Failures[0].What
	} else if len(ro.Mismatches) > 0 {
		verdict.Key = "translation-mismatch " + instName(c.Pair, c.Params)
		verdict.Msg = ro.Mismatches[0]
	}
	return verdict
}

// runConfirm: one concrete input (an Apalache counterexample) on the real functions.
func runConfirm(data json.RawMessage) vh.Verdict {
	var c instance
	if err := json.Unmarshal(data, &c); err != nil {
		return vh.Fail("harness-json", "bad case: %v", err)
	}
	pd, ok := pairs[c.Pair]
	if !ok {
		return vh.Fail("harness-pair", "unknown pair %s", c.Pair)
	}
	in := vec{}
	for _, inp := range pd.inputs(c.Params) {
		s, ok := c.Input[inp.Name]
		if !ok {
			return vh.Fail("harness-input", "input %s missing", inp.Name)
		}
		x, ok := new(big.Int).SetString(s, 10)
		if !ok || x.Cmp(inp.Lo) < 0 || x.Cmp(inp.Hi) > 0 {
			return vh.Fail("harness-input", "input %s=%s is outside the domain", inp.Name, s)
		}
		in[inp.Name] = x
	}
	failed, why, obs, skipped := fails(pd, c.Params, in)
	ro := map[string]interface{}{"reproduced": failed, "skipped": skipped, "why": why}
	if obs != nil {
		ro["obs"] = vecJSON(obs)
	}
	if !failed {
		return vh.Verdict{OK: true, Obs: ro}
	}
	f := describe(pd, c.Params, in)
	ro["failure"] = f
	return vh.Verdict{OK: false, Key: f.Key, Msg: f.What, Obs: ro}
}

// ---------------------------------------------------------------------------------- tools

type transOut struct {
	Pair     string   `json:"pair"`
	Params   Params   `json:"params"`
	Instance string   `json:"instance"`
	Module   string   `json:"module,omitempty"`
	File     string   `json:"file,omitempty"`
	Hand     bool     `json:"hand,omitempty"`
	Hash     string   `json:"hash,omitempty"`
	Error    string   `json:"error,omitempty"`
	Inputs   []string `json:"inputs,omitempty"`
	Goals    int      `json:"goals,omitempty"`
	Vectors  int      `json:"vectors"`
	Notes    []string `json:"notes,omitempty"`
}

// tlaVectors picks a few in-domain vectors and records what the real functions return.
func tlaVectors(pd *pairDef, p Params, n int) []vecObs {
	rng := rand.New(rand.NewSource(12345))
	vs := vectors(pd.inputs(p), rng, 2)
	rng.Shuffle(len(vs), func(i, j int) { vs[i], vs[j] = vs[j], vs[i] })
	var out []vecObs
	for _, v := range vs {
		if len(out) >= n {
			break
		}
		var obs vec
		var skip string
		if vh.Catch(func() { obs, skip = pd.real(p, v) }) != "" || skip != "" || obs == nil {
			continue
		}
		neg := false
		for _, x := range obs {
			if x.Sign() < 0 && pd.name != "zigzag64" && pd.name != "zigzag32" && pd.name != "latlng" {
				neg = true // sentinel for "the real function panicked / refused"
			}
		}
		if neg {
			continue
		}
		out = append(out, vecObs{In: v, Obs: obs})
	}
	return out
}

func translateTool(args []string) int {
	fs := flag.NewFlagSet("translate", flag.ExitOnError)
	src := fs.String("src", "", "b6 source root (.../src/diagonal.works/b6)")
	out := fs.String("out", "", "output directory")
	instFile := fs.String("instances", "", "JSON list of {pair, params}")
	nvec := fs.Int("vectors", 16, "real-function vectors per module")
	fs.Parse(args)
	data, err := os.ReadFile(*instFile)
	if err != nil {
		fmt.Fprintln(os.Stderr, err)
		return 2
	}
	var insts []instance
	if err := json.Unmarshal(data, &insts); err != nil {
		fmt.Fprintln(os.Stderr, err)
		return 2
	}
	if err := os.MkdirAll(*out, 0o755); err != nil {
		fmt.Fprintln(os.Stderr, err)
		return 2
	}
	l := NewLoader(*src)
	enc := json.NewEncoder(os.Stdout)
	for _, in := range insts {
		pd, ok := pairs[in.Pair]
		to := transOut{Pair: in.Pair, Params: in.Params, Instance: instName(in.Pair, in.Params)}
		if !ok {
			to.Error = "unknown pair"
			enc.Encode(to)
			continue
		}
		vs := tlaVectors(pd, in.Params, *nvec)
		to.Vectors = len(vs)
		if pd.hand != "" {
			to.Hand = true
			text, hash, err := handVectorsModule(l, pd, in.Params, vs)
			if err != nil {
				to.Error = err.Error()
				enc.Encode(to)
				continue
			}
			to.Module = handModuleName(pd, in.Params)
			to.Hash = hash
			to.File = filepath.Join(*out, to.Module+".tla")
			if err := os.WriteFile(to.File, []byte(text), 0o644); err != nil {
				to.Error = err.Error()
			}
			enc.Encode(to)
			continue
		}
		m, err := BuildModule(l, in.Pair, in.Params)
		if err != nil {
			to.Error = err.Error()
			enc.Encode(to)
			continue
		}
		to.Module = m.Name
		to.Hash = m.SourceHash()
		to.Notes = m.Notes
		to.Goals = len(m.Goals) + len(m.Must)
		for _, i := range m.Inputs {
			to.Inputs = append(to.Inputs, i.Name)
		}
		to.File = filepath.Join(*out, m.Name+".tla")
		if err := os.WriteFile(to.File, []byte(m.TLA(vs)), 0o644); err != nil {
			to.Error = err.Error()
		}
		enc.Encode(to)
	}
	return 0
}

func handModuleName(pd *pairDef, p Params) string { return moduleName(pd.name, p) + "_Vec" }

// handVectorsModule: for the two hand-transcribed pairs the generated module only carries the
// real-function vectors; the arithmetic is in spec/BitPackPostcode.tla / spec/BitPackONS.tla.
func handVectorsModule(l *Loader, pd *pairDef, p Params, vs []vecObs) (string, string, error) {
	var srcs []string
	for _, s := range pd.handSources {
		pk, err := l.Pkg(s[0])
		if err != nil {
			return "", "", err
		}
		fd, ok := pk.Funcs[s[1]]
		if !ok {
			return "", "", fmt.Errorf("function %s not found", s[1])
		}
		srcs = append(srcs, l.src(fd))
	}
	m := NewModule("x", "x")
	for _, s := range srcs {
		m.AddSource(s)
	}
	hash := m.SourceHash()
	var sb strings.Builder
	name := handModuleName(pd, p)
	fmt.Fprintf(&sb, "---- MODULE %s ----\n(* GENERATED: what the REAL functions return on concrete inputs, as a constant formula over the\n   hand transcription %s.tla.  instance %s, source hash %s *)\nEXTENDS %s\nVectors ==\n", name, pd.hand, instName(pd.name, p), hash, pd.hand)
	cnt := 0
	for _, v := range vs {
		switch pd.name {
		case "postcode":
			n := p["n"]
			var cs []string
			for i := 1; i <= 7; i++ {
				if i <= n {
					cs = append(cs, v.In[fmt.Sprintf("c%d", i)].String())
				} else {
					cs = append(cs, "0")
				}
			}
			a := strings.Join(cs, ", ")
			fmt.Fprintf(&sb, "  /\\ Pack(%d, %s) = %s\n", n, a, v.Obs["id"])
			fmt.Fprintf(&sb, "  /\\ UnpackLen(%s) = %s\n", v.Obs["id"], v.Obs["len"])
			for i := 1; i <= n; i++ {
				fmt.Fprintf(&sb, "  /\\ UnpackChar(%s, %d) = %s\n", v.Obs["id"], i, v.Obs[fmt.Sprintf("d%d", i)])
			}
			cnt++
		case "ons":
			fmt.Fprintf(&sb, "  /\\ Pack(%s, %s, %s) = %s\n", v.In["letter"], v.In["number"], v.In["year"], v.Obs["id"])
			fmt.Fprintf(&sb, "  /\\ UnpackLetter(%s) = %s /\\ UnpackNumber(%s) = %s /\\ UnpackYear(%s) = %s\n",
				v.Obs["id"], v.Obs["letter2"], v.Obs["id"], v.Obs["number2"], v.Obs["id"], v.Obs["year2"])
			cnt++
		}
	}
	if cnt == 0 {
		sb.WriteString("  TRUE\n")
	}
	sb.WriteString("====\n")
	return sb.String(), hash, nil
}

// layoutsTool asks the real builder code which map layouts it creates.
func layoutsTool(args []string) int {
	fs := flag.NewFlagSet("layouts", flag.ExitOnError)
	maxLog := fs.Int("maxlog", 40, "largest log2(count) to ask for")
	fs.Parse(args)
	bits := map[int]uint64{}
	requested := map[int]bool{}
	ask := func(c uint64) {
		b := compact.VerifBucketBitsForCount(c)
		requested[b] = true
		if old, ok := bits[b]; !ok || c < old {
			bits[b] = c
		}
	}
	for c := uint64(1); c <= 70; c++ {
		ask(c)
	}
	for k := 1; k <= *maxLog; k++ {
		ask(uint64(1)<<uint(k) - 1)
		ask(uint64(1) << uint(k))
		if k < *maxLog {
			ask(uint64(1)<<uint(k) + 1)
		}
	}
	tb := map[string]int{}
	tset := map[int]bool{}
	for t, n := range compact.VerifTagBits() {
		tb[t.String()] = n
		tset[n] = true
	}
	// feature types without an entry get the map's zero value
	for t := b6.FeatureTypeBegin; t < b6.FeatureTypeEnd; t++ {
		if _, ok := compact.VerifTagBits()[t]; !ok {
			tset[0] = true
		}
	}
	var bl, tl []int
	for b := range bits {
		bl = append(bl, b)
	}
	for t := range tset {
		tl = append(tl, t)
	}
	sort.Ints(bl)
	sort.Ints(tl)
	// the layout a map really gets is the one its builder records (NewUint64MapBuilder may adjust what it
	// is asked for); asked of the real constructor for small maps, identical for large ones
	type lt struct{ B, T int }
	eff := map[lt]bool{}
	for _, b := range bl {
		for _, t := range tl {
			e := lt{b, t}
			if b <= 12 {
				l := encoding.NewUint64MapBuilder(b, t).Layout
				e = lt{l.BucketBits, l.TagBits}
			}
			eff[e] = true
		}
	}
	var effl [][2]int
	for e := range eff {
		effl = append(effl, [2]int{e.B, e.T})
	}
	sort.Slice(effl, func(i, j int) bool {
		if effl[i][0] != effl[j][0] {
			return effl[i][0] < effl[j][0]
		}
		return effl[i][1] < effl[j][1]
	})
	ex := map[string]uint64{}
	for b, c := range bits {
		ex[fmt.Sprint(b)] = c
	}
	json.NewEncoder(os.Stdout).Encode(map[string]interface{}{"bucket_bits": bl, "tag_bits": tl, "tag_bits_by_type": tb, "smallest_count_for_bucket_bits": ex, "layouts": effl})
	return 0
}

func main() {
	vh.RegisterFunc("real", runReal)
	vh.RegisterFunc("confirm", runConfirm)
	vh.Tool("translate", translateTool)
	vh.Tool("layouts", layoutsTool)
	vh.Main()
}
