// vh-tree: binds spec/TreeSet.tla to the real search.TreeIndex (property C07).
//
//	product   adapter: PRODUCT exploration of (spec state x concrete tree shapes and iterator cursors):
//	          breadth first over the transition graph exported by TLC, every spec-enabled call applied to every
//	          reachable concrete state, de-duplicated on the concrete canonical form.  After every call: result =
//	          the spec's expected result, in-order contents = the spec's set, AVL invariants.
//	walk      adapter: executes one path of the graph from the initial state and judges every step (replays,
//	          isolation of a crash or hang seen by `product`).
//	drive     tool: seeded random long history on a larger key space, recorded as an ndjson trace that TLC
//	          validates against TreeSetTrace.tla (binding B).
//
// The tree is only driven through the calls ingest/mutable.go uses (TreeIndex.Add / Remove / Begin, Iterator.Next /
// Advance / Value); its shape is read through search/export_verif.go.
package main

import (
	"bufio"
	"encoding/json"
	"flag"
	"fmt"
	"math/rand"
	"os"
	"runtime/debug"
	"sort"
	"strconv"
	"strings"
	"sync"

	"diagonal.works/b6/search"
	"verif/harness/vh"
)

// ---------------------------------------------------------------- values

type intValues struct{}

func cmpInt(a, b int) search.Comparison {
	if a < b {
		return search.ComparisonLess
	} else if a > b {
		return search.ComparisonGreater
	}
	return search.ComparisonEqual
}
func (intValues) Compare(a search.Value, b search.Value) search.Comparison {
	return cmpInt(a.(int), b.(int))
}
func (intValues) CompareKey(v search.Value, k search.Key) search.Comparison {
	return cmpInt(v.(int), k.(int))
}
func (intValues) Key(v search.Value) search.Key { return v }

// ---------------------------------------------------------------- spec side

type event struct {
	Op string `json:"op"`
	K  int    `json:"k,omitempty"`
	Ts []int  `json:"ts,omitempty"`
	I  int    `json:"i,omitempty"`
	T  int    `json:"t,omitempty"`
	Ok bool   `json:"ok,omitempty"`
	V  int    `json:"v,omitempty"`
}

func (e event) String() string {
	switch e.Op {
	case "add", "remove":
		return fmt.Sprintf("%s(%d,%v)", e.Op, e.K, e.Ts)
	case "begin":
		return fmt.Sprintf("begin(it%d,t%d)", e.I, e.T)
	case "next":
		return fmt.Sprintf("next(it%d)", e.I)
	case "advance":
		return fmt.Sprintf("advance(it%d,%d)", e.I, e.K)
	}
	return e.Op
}

type itState struct {
	St  string `json:"st"`
	V   int    `json:"v"`
	Tok int    `json:"tok"`
}

type specState struct {
	S    [][]int   `json:"S"`
	Made []int     `json:"made"`
	It   []itState `json:"it"`
}

func token(t int) string { return "t" + strconv.Itoa(t) }

// ---------------------------------------------------------------- the real object

type world struct {
	idx *search.TreeIndex
	its []search.Iterator
}

func newWorld(nIts int) *world {
	return &world{idx: search.NewTreeIndex(intValues{}), its: make([]search.Iterator, nIts)}
}

type result struct {
	ok    bool
	v     int
	hasV  bool
	panic string
}

func (w *world) apply(e event) (r result) {
	r.panic = vh.Catch(func() {
		switch e.Op {
		case "add", "remove":
			tokens := make([]string, len(e.Ts))
			for j, t := range e.Ts {
				tokens[j] = token(t)
			}
			if e.Op == "add" {
				w.idx.Add(e.K, tokens)
			} else {
				w.idx.Remove(e.K, tokens)
			}
		case "begin":
			w.its[e.I-1] = w.idx.Begin(token(e.T))
		case "next", "advance":
			it := w.its[e.I-1]
			if e.Op == "next" {
				r.ok = it.Next()
			} else {
				r.ok = it.Advance(e.K)
			}
			if r.ok {
				if v, isInt := it.Value().(int); isInt {
					r.v, r.hasV = v, true
				}
			}
		default:
			panic("harness: unknown op " + e.Op)
		}
	})
	return r
}

// treeFacts is what one dumped tree looks like: canonical shape, in-order values and broken invariants.
type treeFacts struct {
	canon    string
	inorder  []string
	problems []string
}

func inspect(root *search.VerifNode, complete bool) treeFacts {
	var f treeFacts
	if !complete {
		f.problems = append(f.problems, "not a tree (cycle in child links)")
		f.canon = "cyclic"
		return f
	}
	var b strings.Builder
	var rec func(n *search.VerifNode) int
	rec = func(n *search.VerifNode) int {
		if n == nil {
			b.WriteByte('.')
			return 0
		}
		b.WriteByte('(')
		hl := rec(n.Left)
		key := fmt.Sprint(n.Value)
		fmt.Fprintf(&b, " %s:%d ", key, n.Balance)
		f.inorder = append(f.inorder, key)
		hr := rec(n.Right)
		b.WriteByte(')')
		if n.Balance != hr-hl {
			f.problems = append(f.problems, fmt.Sprintf("balance of %s is %d, depths are left %d right %d", key, n.Balance, hl, hr))
		}
		if hr-hl > 1 || hl-hr > 1 {
			f.problems = append(f.problems, fmt.Sprintf("node %s is unbalanced: depths left %d right %d", key, hl, hr))
		}
		if !n.ParentOK {
			f.problems = append(f.problems, fmt.Sprintf("parent link of %s is wrong", key))
		}
		if n.Deleted {
			f.problems = append(f.problems, fmt.Sprintf("node %s is in the tree but marked deleted", key))
		}
		if hl > hr {
			return hl + 1
		}
		return hr + 1
	}
	rec(root)
	f.canon = b.String()
	return f
}

type observation struct {
	canon    string   // concrete canonical form (token tree, value trees, cursors of usable iterators)
	contents [][]int  // in-order values per token 1..T
	problems []string // broken structural invariants
	tokens   []string // in-order tokens
	shape    string   // the value trees only
}

func (w *world) observe(nTokens int, its []itState) observation {
	var o observation
	var b strings.Builder
	root, complete := search.VerifDumpTokens(w.idx)
	tf := inspect(root, complete)
	for _, p := range tf.problems {
		o.problems = append(o.problems, "token tree: "+p)
	}
	for j := 1; j < len(tf.inorder); j++ {
		if !(tf.inorder[j-1] < tf.inorder[j]) {
			o.problems = append(o.problems, fmt.Sprintf("token tree: tokens out of order: %s before %s", tf.inorder[j-1], tf.inorder[j]))
		}
	}
	o.tokens = tf.inorder
	if complete && !search.VerifValidateTokens(w.idx) && len(tf.problems) == 0 {
		o.problems = append(o.problems, "token tree: treeList.Validate() is false")
	}
	b.WriteString("T" + tf.canon)
	var sb strings.Builder
	for t := 1; t <= nTokens; t++ {
		root, exists, complete := search.VerifDumpList(w.idx, token(t))
		if !exists {
			b.WriteString(" -")
			sb.WriteString(" -")
			o.contents = append(o.contents, []int{})
			continue
		}
		f := inspect(root, complete)
		vals := make([]int, 0, len(f.inorder))
		for _, s := range f.inorder {
			v, _ := strconv.Atoi(s)
			vals = append(vals, v)
		}
		for j := 1; j < len(vals); j++ {
			if !(vals[j-1] < vals[j]) {
				f.problems = append(f.problems, fmt.Sprintf("values out of order: %d before %d", vals[j-1], vals[j]))
			}
		}
		if complete && len(f.problems) == 0 && !search.VerifValidateList(w.idx, token(t)) {
			f.problems = append(f.problems, "treeList.Validate() is false")
		}
		for _, p := range f.problems {
			o.problems = append(o.problems, fmt.Sprintf("list %s: %s", token(t), p))
		}
		o.contents = append(o.contents, vals)
		b.WriteString(" " + f.canon)
		sb.WriteString(" " + f.canon)
	}
	o.shape = sb.String()
	for j, is := range its {
		switch is.St {
		case "closed", "done": // never used again (until re-begun): its internals do not matter
			fmt.Fprintf(&b, " it%d=%s", j+1, is.St)
		default:
			c, ok := search.VerifIteratorCursor(w.its[j])
			if !ok {
				fmt.Fprintf(&b, " it%d=t%d:foreign", j+1, is.Tok)
				continue
			}
			fmt.Fprintf(&b, " it%d=t%d:", j+1, is.Tok)
			if !c.Started {
				b.WriteString("fresh")
			}
			if c.Done {
				b.WriteString("done")
			}
			if c.HasNode {
				fmt.Fprintf(&b, "@%v", c.Value)
				if c.Deleted {
					b.WriteString("x[")
					if c.HasLeft {
						fmt.Fprint(&b, c.Left)
					}
					b.WriteByte(',')
					if c.HasRight {
						fmt.Fprint(&b, c.Right)
					}
					b.WriteByte(']')
				}
			} else {
				b.WriteString("@nil")
			}
		}
	}
	o.canon = b.String()
	return o
}

// situation names the circumstances of an iterator call: which call, where the cursor rests (fresh, on a live
// node, on a node that was deleted under it) and whether its list is empty.  It is the signature under which a
// call that never returns (hang, fatal stack overflow) is reported, and by which calls with a KNOWN fatal outcome
// are kept out of the in-process exploration (they are executed in isolated worker processes instead).
func (w *world) situation(e event, tok int) string {
	if e.Op != "next" && e.Op != "advance" {
		return ""
	}
	it := w.its[e.I-1]
	c, ok := search.VerifIteratorCursor(it)
	if !ok {
		return e.Op + "/cursor=foreign"
	}
	cursor := "live"
	if c.HasNode && c.Deleted {
		cursor = "deleted"
	} else if !c.Started || !c.HasNode {
		cursor = "fresh"
	}
	list := "nonempty"
	if root, exists, _ := search.VerifDumpList(w.idx, token(tok)); !exists || root == nil {
		list = "empty"
	}
	return e.Op + "/cursor=" + cursor + "/list=" + list
}

func sameInts(a, b []int) bool {
	if len(a) != len(b) {
		return false
	}
	for i := range a {
		if a[i] != b[i] {
			return false
		}
	}
	return true
}

type failure struct {
	Key  string  `json:"key"`
	Msg  string  `json:"msg"`
	Path []event `json:"path"` // calls from the initial state, the last one is the failing call
}

// judge compares what the real call did with the spec's transition (ev carries the expected result, to the
// expected state).  before is the concrete canonical form the call was applied to.
func judge(before string, e event, to specState, r result, o observation) (string, string) {
	where := fmt.Sprintf("%s on %s", e, before)
	if r.panic != "" {
		return "panic: " + where, r.panic
	}
	if e.Op == "next" || e.Op == "advance" {
		if r.ok != e.Ok {
			return "result: " + where, fmt.Sprintf("%s returned %v, spec: %v (value %d)", e, r.ok, e.Ok, e.V)
		}
		if r.ok && (!r.hasV || r.v != e.V) {
			return "result: " + where, fmt.Sprintf("%s returned true with value %d, spec: %d", e, r.v, e.V)
		}
	}
	if len(o.problems) > 0 {
		return "avl: " + where, "after " + e.String() + ": " + strings.Join(o.problems, "; ")
	}
	for t := range to.S {
		want := append([]int{}, to.S[t]...)
		sort.Ints(want)
		if !sameInts(o.contents[t], want) {
			return "contents: " + where, fmt.Sprintf("after %s list %s holds %v in order, spec: %v", e, token(t+1), o.contents[t], want)
		}
	}
	// tokens: every token with a value is listed; nothing is listed that never had a value
	made := map[string]bool{}
	for _, t := range to.Made {
		made[token(t)] = true
	}
	listed := map[string]bool{}
	for _, tk := range o.tokens {
		listed[tk] = true
		if !made[tk] {
			return "tokens: " + where, fmt.Sprintf("after %s token %s is listed but never had a value", e, tk)
		}
	}
	for t := range to.S {
		if len(to.S[t]) > 0 && !listed[token(t+1)] {
			return "tokens: " + where, fmt.Sprintf("after %s token %s has values but is not listed", e, token(t+1))
		}
	}
	return "", ""
}

// ---------------------------------------------------------------- graph

type graph struct {
	States []specState       `json:"states"`
	Init   int               `json:"init"`
	Edges  []json.RawMessage `json:"edges"` // [from, to, ev]
	out    [][]gedge
}

type gedge struct {
	to int
	ev event
	id int
}

func loadGraph(path string) (*graph, error) {
	f, err := os.Open(path)
	if err != nil {
		return nil, err
	}
	defer f.Close()
	var g graph
	if err := json.NewDecoder(bufio.NewReaderSize(f, 1<<20)).Decode(&g); err != nil {
		return nil, err
	}
	g.out = make([][]gedge, len(g.States))
	for id, raw := range g.Edges {
		var tup []json.RawMessage
		if err := json.Unmarshal(raw, &tup); err != nil || len(tup) != 3 {
			return nil, fmt.Errorf("bad edge %s", raw)
		}
		var from, to int
		var ev event
		if json.Unmarshal(tup[0], &from) != nil || json.Unmarshal(tup[1], &to) != nil || json.Unmarshal(tup[2], &ev) != nil {
			return nil, fmt.Errorf("bad edge %s", raw)
		}
		g.out[from] = append(g.out[from], gedge{to: to, ev: ev, id: id})
	}
	g.Edges = nil
	return &g, nil
}

// ---------------------------------------------------------------- product exploration

type productCase struct {
	ID        int    `json:"id"`
	Graph     string `json:"graph"`
	Journal   string `json:"journal"`
	MaxStates int    `json:"max_states"`
	Threads   int    `json:"threads"`
	// situations (see world.situation) whose calls are known not to return: not executed in-process, handed
	// back as `deferred` so that the orchestration runs them in isolated workers
	Hazards []string `json:"hazards"`
}

type deferredCall struct {
	Situation string  `json:"situation"`
	Path      []event `json:"path"` // the last one is the deferred call
}

type productObs struct {
	Failures []failure      `json:"failures"`
	Deferred []deferredCall `json:"deferred"`
	Counts   map[string]int `json:"deferred_counts"`
}

type pnode struct {
	spec   int32
	parent int32
	edge   int32 // index into out[parent.spec]
	depth  int32
}

type candidate struct {
	spec     int
	canon    string
	shape    string
	edge     int
	fail     *failure
	deferred string
	path     []event
}

const journalSlot = 4096

func runProduct(data json.RawMessage) vh.Verdict {
	var c productCase
	if err := json.Unmarshal(data, &c); err != nil {
		return vh.Fail("harness-json", "bad case: %v", err)
	}
	g, err := loadGraph(c.Graph)
	if err != nil {
		return vh.Fail("harness-graph", "cannot load graph: %v", err)
	}
	if c.Threads <= 0 {
		c.Threads = 8
	}
	var journal *os.File
	if c.Journal != "" {
		if journal, err = os.Create(c.Journal); err != nil {
			return vh.Fail("harness-journal", "%v", err)
		}
		defer journal.Close()
	}
	nIts := len(g.States[g.Init].It)
	nToks := len(g.States[g.Init].S)
	hazards := map[string]bool{}
	for _, h := range c.Hazards {
		hazards[h] = true
	}
	obs := productObs{Counts: map[string]int{}}

	nodes := []pnode{{spec: int32(g.Init), parent: -1, edge: -1}}
	pathOf := func(n int) []event {
		var rev []event
		for n > 0 {
			p := nodes[n]
			rev = append(rev, g.out[nodes[p.parent].spec][p.edge].ev)
			n = int(p.parent)
		}
		for i, j := 0, len(rev)-1; i < j; i, j = i+1, j-1 {
			rev[i], rev[j] = rev[j], rev[i]
		}
		return rev
	}
	w0 := newWorld(nIts)
	seen := map[string]struct{}{}
	seen[strconv.Itoa(g.Init)+"|"+w0.observe(nToks, g.States[g.Init].It).canon] = struct{}{}
	shapes := map[string]struct{}{}
	edgesDone := map[int]struct{}{}
	var failures []failure
	failKeys := map[string]bool{}
	executed, maxDepth, moves := 0, 0, 0
	layer := []int{0}
	truncated := false
	for len(layer) > 0 && len(failures) < 25 {
		results := make([][]candidate, len(layer))
		var wg sync.WaitGroup
		next := make(chan int, len(layer))
		for i := range layer {
			next <- i
		}
		close(next)
		for th := 0; th < c.Threads; th++ {
			wg.Add(1)
			go func(th int) {
				defer wg.Done()
				for li := range next {
					n := layer[li]
					path := pathOf(n)
					if journal != nil {
						b, _ := json.Marshal(path)
						if len(b) < journalSlot-1 {
							rec := make([]byte, journalSlot)
							copy(rec, b)
							for j := len(b); j < journalSlot-1; j++ {
								rec[j] = ' '
							}
							rec[journalSlot-1] = '\n'
							journal.WriteAt(rec, int64(th*journalSlot))
						}
					}
					spec := int(nodes[n].spec)
					cands := make([]candidate, 0, len(g.out[spec]))
					for ei, e := range g.out[spec] {
						w := newWorld(nIts)
						for _, pe := range path {
							w.apply(pe)
						}
						before := w.observe(nToks, g.States[spec].It)
						if len(hazards) > 0 && (e.ev.Op == "next" || e.ev.Op == "advance") {
							if sit := w.situation(e.ev, g.States[spec].It[e.ev.I-1].Tok); hazards[sit] {
								cands = append(cands, candidate{edge: ei, deferred: sit, path: append(append([]event{}, path...), e.ev)})
								continue
							}
						}
						r := w.apply(e.ev)
						after := w.observe(nToks, g.States[e.to].It)
						cand := candidate{spec: e.to, canon: after.canon, shape: after.shape, edge: ei}
						if key, msg := judge(before.canon, e.ev, g.States[e.to], r, after); key != "" {
							cand.fail = &failure{Key: key, Msg: msg, Path: append(append([]event{}, path...), e.ev)}
						}
						cands = append(cands, cand)
					}
					results[li] = cands
				}
			}(th)
		}
		wg.Wait()
		var nextLayer []int
		for li, n := range layer {
			spec := int(nodes[n].spec)
			for _, cand := range results[li] {
				e := g.out[spec][cand.edge]
				if cand.deferred != "" {
					if obs.Counts[cand.deferred] < 3 {
						obs.Deferred = append(obs.Deferred, deferredCall{Situation: cand.deferred, Path: cand.path})
					}
					obs.Counts[cand.deferred]++
					continue
				}
				executed++
				edgesDone[e.id] = struct{}{}
				if e.ev.Op == "next" || e.ev.Op == "advance" {
					moves++
				}
				if cand.fail != nil {
					if !failKeys[cand.fail.Key] {
						failKeys[cand.fail.Key] = true
						failures = append(failures, *cand.fail)
					}
					continue
				}
				shapes[cand.shape] = struct{}{}
				k := strconv.Itoa(cand.spec) + "|" + cand.canon
				if _, dup := seen[k]; dup {
					continue
				}
				if c.MaxStates > 0 && len(nodes) >= c.MaxStates {
					truncated = true
					continue
				}
				seen[k] = struct{}{}
				nodes = append(nodes, pnode{spec: int32(cand.spec), parent: int32(n), edge: int32(cand.edge), depth: nodes[n].depth + 1})
				if int(nodes[n].depth)+1 > maxDepth {
					maxDepth = int(nodes[n].depth) + 1
				}
				nextLayer = append(nextLayer, len(nodes)-1)
			}
		}
		layer = nextLayer
	}
	stats := map[string]int{
		"product_states":      len(nodes),
		"calls_executed":      executed,
		"iterator_calls":      moves,
		"tree_shapes":         len(shapes),
		"spec_edges_executed": len(edgesDone),
		"product_depth":       maxDepth,
		"product_truncated":   0,
	}
	if truncated {
		stats["product_truncated"] = 1
	}
	obs.Failures = failures
	if len(failures) > 0 {
		return vh.Verdict{OK: false, Key: failures[0].Key, Msg: failures[0].Msg, Obs: obs, Stats: stats}
	}
	return vh.Verdict{OK: true, Obs: obs, Stats: stats}
}

// ---------------------------------------------------------------- one path

type walkStep struct {
	Ev event     `json:"ev"`
	To specState `json:"to"`
}

type walkCase struct {
	ID    int        `json:"id"`
	Init  specState  `json:"init"`
	Steps []walkStep `json:"steps"`
}

func runWalk(data json.RawMessage) vh.Verdict {
	var c walkCase
	if err := json.Unmarshal(data, &c); err != nil {
		return vh.Fail("harness-json", "bad case: %v", err)
	}
	w := newWorld(len(c.Init.It))
	cur := c.Init
	nToks := len(c.Init.S)
	for i, s := range c.Steps {
		before := w.observe(nToks, cur.It)
		r := w.apply(s.Ev)
		after := w.observe(nToks, s.To.It)
		if key, msg := judge(before.canon, s.Ev, s.To, r, after); key != "" {
			path := make([]event, 0, i+1)
			for _, p := range c.Steps[:i+1] {
				path = append(path, p.Ev)
			}
			return vh.Verdict{OK: false, Key: key, Msg: fmt.Sprintf("step %d: %s", i, msg), Obs: failure{Key: key, Msg: msg, Path: path}}
		}
		cur = s.To
	}
	return vh.Verdict{OK: true, Stats: map[string]int{"walk_steps": len(c.Steps)}}
}

// ---------------------------------------------------------------- random histories (binding B)

type traceEvent struct {
	Op       string `json:"op"`
	K        int    `json:"k,omitempty"`
	Ts       []int  `json:"ts,omitempty"`
	Sizes    []int  `json:"sizes,omitempty"`
	Avl      *bool  `json:"avl,omitempty"`
	I        int    `json:"i,omitempty"`
	T        int    `json:"t,omitempty"`
	Ok       *bool  `json:"ok,omitempty"`
	V        int    `json:"v"`
	Contents *[]int `json:"contents,omitempty"`
}

// drive records one history: regimes differ in how full the lists are and how often iterators are parked on
// values that are deleted and re-inserted under them.
func drive(args []string) int {
	fs := flag.NewFlagSet("drive", flag.ExitOnError)
	seed := fs.Int64("seed", 1, "seed")
	ops := fs.Int("ops", 10000, "number of calls")
	keys := fs.Int("k", 64, "values 1..k")
	toks := fs.Int("t", 2, "tokens")
	nIts := fs.Int("i", 4, "iterators")
	runs := fs.Int("runs", 4, "histories (separated by reset events)")
	out := fs.String("out", "", "ndjson trace")
	journalPath := fs.String("journal", "", "file that always holds the iterator call being made (read if the process dies)")
	avoidArg := fs.String("avoid", "", "comma separated situations (known fatal) in which an iterator is not moved")
	fs.Parse(args)
	avoid := map[string]bool{}
	for _, a := range strings.Split(*avoidArg, ",") {
		if a != "" {
			avoid[a] = true
		}
	}
	avoided := 0
	stopped := ""
	var journal *os.File
	if *journalPath != "" {
		if j, err := os.Create(*journalPath); err == nil {
			journal = j
			defer journal.Close()
		}
	}
	f, err := os.Create(*out)
	if err != nil {
		fmt.Fprintln(os.Stderr, err)
		return 2
	}
	defer f.Close()
	bw := bufio.NewWriterSize(f, 1<<20)
	defer bw.Flush()
	events := 0
	emit := func(e traceEvent) {
		b, _ := json.Marshal(e)
		bw.Write(b)
		bw.WriteByte('\n')
		events++
	}
	yes, no := true, false
	boolp := func(b bool) *bool {
		if b {
			return &yes
		}
		return &no
	}
	rng := rand.New(rand.NewSource(*seed))
	perRun := *ops / *runs
	for run := 0; run < *runs; run++ {
		if run > 0 {
			emit(traceEvent{Op: "reset"})
		}
		w := newWorld(*nIts)
		open := make([]bool, *nIts) // begun and has not returned false
		itTok := make([]int, *nIts) // token of each iterator
		made := map[int]bool{}
		// regime: target fill of the lists, weight of iterator calls, locality of edits around iterator positions
		fill := []float64{0.15, 0.5, 0.85, 0.5}[run%4]
		local := []float64{0.2, 0.6, 0.3, 0.8}[run%4]
		lastV := make([]int, *nIts)
		sizes := make([]int, *toks+1)
		check := func(t int) bool {
			o := w.observe(*toks, nil)
			c := append([]int{}, o.contents[t-1]...)
			avl := true
			for _, p := range o.problems {
				fmt.Fprintln(os.Stderr, "invariant:", p)
				avl = false
				stopped = "broken invariant: " + p
			}
			emit(traceEvent{Op: "check", T: t, Avl: boolp(avl), Contents: &c})
			return avl
		}
		for n := 0; n < perRun; n++ {
			p := rng.Float64()
			switch {
			case p < 0.45: // edit
				k := 1 + rng.Intn(*keys)
				if rng.Float64() < local {
					// near a parked iterator: on it, just before, just after
					j := rng.Intn(*nIts)
					if open[j] && lastV[j] > 0 {
						k = lastV[j] + rng.Intn(5) - 2
						if k < 1 {
							k = 1
						}
						if k > *keys {
							k = *keys
						}
					}
				}
				var ts []int
				if rng.Intn(4) == 0 && *toks > 1 {
					ts = rng.Perm(*toks)[:2]
					ts[0]++
					ts[1]++
				} else {
					ts = []int{1 + rng.Intn(*toks)}
				}
				op := "remove"
				if rng.Float64() < fill {
					op = "add"
				}
				e := event{Op: op, K: k, Ts: ts}
				if r := w.apply(e); r.panic != "" {
					fmt.Fprintln(os.Stderr, r.panic)
					emit(traceEvent{Op: "panic", K: k, Ts: ts})
					stopped = r.panic
					goto done
				}
				if op == "add" {
					for _, t := range ts {
						made[t] = true
					}
				}
				o := w.observe(*toks, nil)
				te := traceEvent{Op: op, K: k, Ts: ts, Avl: boolp(len(o.problems) == 0)}
				for _, t := range ts {
					sizes[t] = len(o.contents[t-1])
					te.Sizes = append(te.Sizes, sizes[t])
				}
				emit(te)
				if len(o.problems) > 0 {
					// the tree is no longer a tree the code can be expected to work on: the history ends here
					// (TLC rejects it at this event, which says avl = false)
					for _, p := range o.problems {
						fmt.Fprintln(os.Stderr, "invariant:", p)
					}
					stopped = "broken invariant: " + o.problems[0]
					goto done
				}
			case p < 0.50: // begin
				if len(made) == 0 {
					continue
				}
				t := 1 + rng.Intn(*toks)
				if !made[t] {
					continue
				}
				j := rng.Intn(*nIts)
				if open[j] && rng.Intn(3) != 0 {
					continue // let running iterators run
				}
				w.apply(event{Op: "begin", I: j + 1, T: t})
				open[j], itTok[j], lastV[j] = true, t, 0
				emit(traceEvent{Op: "begin", I: j + 1, T: t})
			case p < 0.98: // move an iterator
				j := rng.Intn(*nIts)
				if !open[j] {
					continue
				}
				e := event{Op: "next", I: j + 1}
				if rng.Intn(4) == 0 {
					k := lastV[j] + rng.Intn(9) - 2
					if rng.Intn(5) == 0 {
						k = 1 + rng.Intn(*keys)
					}
					if k < 1 {
						k = 1
					}
					if k > *keys {
						k = *keys
					}
					e = event{Op: "advance", I: j + 1, K: k}
				}
				sit := w.situation(e, itTok[j])
				if avoid[sit] {
					avoided++
					continue
				}
				if journal != nil {
					rec := fmt.Sprintf("{\"n\":%d,\"call\":%q,\"situation\":%q}", events+1, e.String(), sit)
					journal.WriteAt([]byte(fmt.Sprintf("%-200s\n", rec)), 0)
				}
				r := w.apply(e)
				if r.panic != "" {
					fmt.Fprintln(os.Stderr, r.panic)
					emit(traceEvent{Op: "panic", I: j + 1, K: e.K})
					stopped = r.panic
					goto done
				}
				v := r.v
				if r.ok && !r.hasV {
					v = -1
				}
				emit(traceEvent{Op: e.Op, I: j + 1, K: e.K, Ok: boolp(r.ok), V: v})
				if r.ok {
					lastV[j] = r.v
				} else {
					open[j] = false // never used again until re-begun
				}
			default:
				if !check(1 + rng.Intn(*toks)) {
					goto done
				}
			}
		}
		for t := 1; t <= *toks; t++ {
			check(t)
		}
	}
done:
	bw.Flush()
	sb, _ := json.Marshal(stopped)
	fmt.Printf("{\"events\":%d,\"avoided\":%d,\"stopped\":%s}\n", events, avoided, sb)
	return 0
}

func main() {
	// the tree code needs a few frames; a runaway recursion should die quickly, not after growing a 1 GB stack
	debug.SetMaxStack(32 << 20)
	vh.RegisterFunc("product", runProduct)
	vh.RegisterFunc("walk", runWalk)
	vh.Tool("drive", drive)
	vh.Main()
}
