// vh-lang: binds spec/Lang.tla to the real expression VM (api.Evaluate) and simplifier (api.Simplify).
//
//	adapter "vm"        C21: a case is a program (JSON expression tree, the shape Lang.tla uses) and the
//	                    observation the reference interpreter expects; the program is built as a
//	                    b6.Expression tree, evaluated by api.Evaluate inside recover and judged.
//	adapter "observe"   C21 thorough / C22: no expectation; returns the program, api.Simplify's output and
//	                    the VM's observation of both, for TLC (LangTrace.tla) to judge.
//
// Observation of a result (msg fields are never compared):
//
//	{"t":"int","v":n} {"t":"str","s":..} {"t":"pair","a":obs,"b":obs} {"t":"query","q":tree}
//	{"t":"fn","n":arity,"r":obs}   r = observation of the program `call p 7 3 ..` (arity probe arguments)
//	{"t":"err"} {"t":"panic"} {"t":"other","ty":GoType}
package main

import (
	"context"
	"encoding/json"
	"fmt"
	"regexp"
	"strings"

	"diagonal.works/b6"
	"diagonal.works/b6/api"
	"diagonal.works/b6/api/functions"
	"diagonal.works/b6/ingest"
	"verif/harness/vh"
)

// ---------------------------------------------------------------- expressions

type Query struct {
	Op  string  `json:"op"`
	Key string  `json:"key,omitempty"`
	Val string  `json:"val,omitempty"`
	Ty  string  `json:"ty,omitempty"`
	Q   *Query  `json:"q,omitempty"`
	Qs  []Query `json:"qs,omitempty"`
	S   string  `json:"s,omitempty"`
}

func (q Query) MarshalJSON() ([]byte, error) {
	m := map[string]interface{}{"op": q.Op}
	switch q.Op {
	case "keyed":
		m["key"] = q.Key
	case "tagged":
		m["key"], m["val"] = q.Key, q.Val
	case "typed":
		m["ty"], m["q"] = q.Ty, q.Q
	case "and", "or":
		qs := q.Qs
		if qs == nil {
			qs = []Query{}
		}
		m["qs"] = qs
	default:
		m["s"] = q.S
	}
	return json.Marshal(m)
}

type Expr struct {
	K string   `json:"k"`
	V int      `json:"v"`
	S string   `json:"s"`
	N string   `json:"n"`
	F *Expr    `json:"f"`
	A []Expr   `json:"a"`
	P []string `json:"p"`
	B *Expr    `json:"b"`
	Q *Query   `json:"q"`
}

// exactly the fields Lang.tla's records have (TLC reads this back)
func (e Expr) MarshalJSON() ([]byte, error) {
	m := map[string]interface{}{"k": e.K}
	switch e.K {
	case "lit":
		m["v"] = e.V
	case "str":
		m["s"] = e.S
	case "sym":
		m["n"] = e.N
	case "q":
		m["q"] = e.Q
	case "call":
		a := e.A
		if a == nil {
			a = []Expr{}
		}
		m["f"], m["a"] = e.F, a
	case "lam":
		p := e.P
		if p == nil {
			p = []string{}
		}
		m["p"], m["b"] = p, e.B
	default:
		m["s"] = e.S
	}
	return json.Marshal(m)
}

func queryToB6(q *Query) b6.Query {
	switch q.Op {
	case "keyed":
		return b6.Keyed{Key: q.Key}
	case "tagged":
		return b6.Tagged{Key: q.Key, Value: b6.NewStringExpression(q.Val)}
	case "typed":
		return b6.Typed{Type: b6.FeatureTypeFromString(q.Ty), Query: queryToB6(q.Q)}
	case "and":
		i := make(b6.Intersection, len(q.Qs))
		for j := range q.Qs {
			i[j] = queryToB6(&q.Qs[j])
		}
		return i
	case "or":
		u := make(b6.Union, len(q.Qs))
		for j := range q.Qs {
			u[j] = queryToB6(&q.Qs[j])
		}
		return u
	}
	panic("harness: unknown query op " + q.Op)
}

func queryFromB6(q b6.Query) Query {
	switch q := q.(type) {
	case b6.Keyed:
		return Query{Op: "keyed", Key: q.Key}
	case b6.Tagged:
		return Query{Op: "tagged", Key: q.Key, Val: q.Value.String()}
	case b6.Typed:
		sub := queryFromB6(q.Query)
		return Query{Op: "typed", Ty: q.Type.String(), Q: &sub}
	case b6.Intersection:
		r := Query{Op: "and", Qs: []Query{}}
		for _, qq := range q {
			r.Qs = append(r.Qs, queryFromB6(qq))
		}
		return r
	case b6.Union:
		r := Query{Op: "or", Qs: []Query{}}
		for _, qq := range q {
			r.Qs = append(r.Qs, queryFromB6(qq))
		}
		return r
	}
	return Query{Op: "other", S: fmt.Sprintf("%T %v", q, q)}
}

// toB6 builds a fresh b6.Expression tree (Simplify changes argument slices in place, so nothing is shared).
func toB6(e *Expr) b6.Expression {
	switch e.K {
	case "lit":
		return b6.NewIntExpression(e.V)
	case "str":
		return b6.NewStringExpression(e.S)
	case "sym":
		return b6.NewSymbolExpression(e.N)
	case "q":
		return b6.NewQueryExpression(queryToB6(e.Q))
	case "lam":
		return b6.NewLambdaExpression(append([]string{}, e.P...), toB6(e.B))
	case "call":
		args := make([]b6.Expression, len(e.A))
		for i := range e.A {
			args[i] = toB6(&e.A[i])
		}
		return b6.NewCallExpression(toB6(e.F), args)
	}
	panic("harness: unknown expression kind " + e.K)
}

func fromB6(x b6.Expression) Expr {
	switch v := x.AnyExpression.(type) {
	case b6.IntExpression:
		return Expr{K: "lit", V: int(v)}
	case b6.StringExpression:
		return Expr{K: "str", S: string(v)}
	case b6.SymbolExpression:
		return Expr{K: "sym", N: string(v)}
	case b6.QueryExpression:
		q := queryFromB6(v.Query)
		return Expr{K: "q", Q: &q}
	case b6.LambdaExpression:
		b := fromB6(v.Expression)
		return Expr{K: "lam", P: append([]string{}, v.Args...), B: &b}
	case b6.CallExpression:
		f := fromB6(v.Function)
		r := Expr{K: "call", F: &f, A: []Expr{}}
		for _, a := range v.Args {
			r.A = append(r.A, fromB6(a))
		}
		return r
	}
	return Expr{K: "other", S: fmt.Sprintf("%T", x.AnyExpression)}
}

// show renders a program in the shell's notation (for messages and failure keys only).
func show(e *Expr) string {
	switch e.K {
	case "lit":
		return fmt.Sprint(e.V)
	case "str":
		return fmt.Sprintf("%q", e.S)
	case "sym":
		return e.N
	case "q":
		return "[" + showQ(e.Q) + "]"
	case "lam":
		return "{" + strings.Join(e.P, ",") + " -> " + show(e.B) + "}"
	case "call":
		f := show(e.F)
		if e.F.K != "sym" {
			f = "(" + f + ")"
		}
		parts := []string{f}
		for i := range e.A {
			a := show(&e.A[i])
			if e.A[i].K == "call" {
				a = "(" + a + ")"
			}
			parts = append(parts, a)
		}
		if len(e.A) == 0 {
			return parts[0] + "()"
		}
		return strings.Join(parts, " ")
	}
	return "?" + e.K
}

func showQ(q *Query) string {
	switch q.Op {
	case "keyed":
		return q.Key
	case "tagged":
		return q.Key + "=" + q.Val
	case "typed":
		return q.Ty + ":(" + showQ(q.Q) + ")"
	case "and", "or":
		sep := " & "
		if q.Op == "or" {
			sep = " | "
		}
		ps := []string{}
		for i := range q.Qs {
			ps = append(ps, "("+showQ(&q.Qs[i])+")")
		}
		return strings.Join(ps, sep)
	}
	return "?" + q.S
}

// ---------------------------------------------------------------- the library (Lang.tla: Arity, NativeCall)

func asInt(n b6.Number) (int, error) {
	if i, ok := n.(b6.IntNumber); ok {
		return int(i), nil
	}
	return 0, fmt.Errorf("expected an integer, found %T", n)
}

func library() api.FunctionSymbols {
	real := functions.Functions()
	fs := api.FunctionSymbols{
		"sub": func(c *api.Context, a b6.Number, b b6.Number) (b6.Number, error) {
			x, err := asInt(a)
			if err != nil {
				return nil, err
			}
			y, err := asInt(b)
			if err != nil {
				return nil, err
			}
			return b6.IntNumber(x - y), nil
		},
		"sub3": func(c *api.Context, a b6.Number, b b6.Number, d b6.Number) (b6.Number, error) {
			x, err := asInt(a)
			if err != nil {
				return nil, err
			}
			y, err := asInt(b)
			if err != nil {
				return nil, err
			}
			z, err := asInt(d)
			if err != nil {
				return nil, err
			}
			return b6.IntNumber(9*x + 3*y + z), nil
		},
		"neg": func(c *api.Context, a b6.Number) (b6.Number, error) {
			x, err := asInt(a)
			if err != nil {
				return nil, err
			}
			return b6.IntNumber(-x), nil
		},
		// a higher-order library function taking a Go function value: goes through ConvertWithContext,
		// ToFunctionValue and the function adaptors (api.Call1), like map / filter do
		"apply1": func(c *api.Context, f func(*api.Context, interface{}) (interface{}, error), x interface{}) (interface{}, error) {
			return f(c, x)
		},
		// the same with the function last: `applyto {x -> ..}` is a partial application of a NATIVE function
		// that holds a closure (trailing arguments are bound first)
		"applyto": func(c *api.Context, x interface{}, f func(*api.Context, interface{}) (interface{}, error)) (interface{}, error) {
			return f(c, x)
		},
	}
	// the registered implementations, under the names Lang.tla uses
	for _, name := range []string{"add", "pair", "first", "second", "call", "keyed", "tagged", "typed", "and", "or"} {
		f, ok := real[name]
		if !ok {
			panic("harness: registered function missing: " + name)
		}
		fs[name] = f
	}
	return fs
}

var lib = library()

func newContext() *api.Context {
	return &api.Context{
		World:           ingest.NewBasicMutableWorld(),
		FunctionSymbols: lib,
		Adaptors:        functions.Adaptors(),
		Context:         context.Background(),
	}
}

// ---------------------------------------------------------------- observation

type Obs struct {
	T   string `json:"t"`
	V   int    `json:"v"`
	S   string `json:"s"`
	A   *Obs   `json:"a"`
	B   *Obs   `json:"b"`
	N   int    `json:"n"`
	R   *Obs   `json:"r"`
	Q   *Query `json:"q"`
	Ty  string `json:"ty"`
	Msg string `json:"msg"`
}

func (o Obs) MarshalJSON() ([]byte, error) {
	m := map[string]interface{}{"t": o.T}
	switch o.T {
	case "int":
		m["v"] = o.V
	case "str":
		m["s"] = o.S
	case "pair":
		m["a"], m["b"] = o.A, o.B
	case "fn":
		m["n"] = o.N
		if o.R != nil {
			m["r"] = o.R
		}
	case "query":
		m["q"] = o.Q
	case "other":
		m["ty"] = o.Ty
	case "err", "panic":
		if o.Msg != "" {
			m["msg"] = o.Msg
		}
	}
	return json.Marshal(m)
}

var probes = []int{7, 3, 2}

const probeDepth = 3

func probeOf(p *Expr, n int) *Expr {
	args := []Expr{*p}
	for i := 0; i < n; i++ {
		args = append(args, Expr{K: "lit", V: probes[i]})
	}
	return &Expr{K: "call", F: &Expr{K: "sym", N: "call"}, A: args}
}

func classify(v interface{}) Obs {
	switch x := v.(type) {
	case nil:
		return Obs{T: "other", Ty: "nil"}
	case int:
		return Obs{T: "int", V: x}
	case b6.IntNumber:
		return Obs{T: "int", V: int(x)}
	case string:
		return Obs{T: "str", S: x}
	case api.Callable:
		return Obs{T: "fn", N: x.NumArgs()}
	case api.Pair:
		a, b := classify(x.First()), classify(x.Second())
		return Obs{T: "pair", A: &a, B: &b}
	case b6.Query:
		q := queryFromB6(x)
		return Obs{T: "query", Q: &q}
	}
	return Obs{T: "other", Ty: fmt.Sprintf("%T", v)}
}

// observe evaluates the program on a fresh VM; a function result is probed by a second program.
func observe(p *Expr, depth int) Obs {
	var v interface{}
	var err error
	pm := vh.Catch(func() {
		v, err = api.Evaluate(toB6(p), newContext())
	})
	if pm != "" {
		return Obs{T: "panic", Msg: pm}
	}
	if err != nil {
		return Obs{T: "err", Msg: err.Error()}
	}
	o := classify(v)
	if o.T == "fn" {
		if depth == 0 || o.N > len(probes) || o.N < 0 {
			o.R = &Obs{T: "deep"}
		} else {
			r := observe(probeOf(p, o.N), depth-1)
			o.R = &r
		}
	}
	return o
}

func same(a, b *Obs) bool {
	if a == nil || b == nil {
		return a == b
	}
	if a.T != b.T {
		return false
	}
	switch a.T {
	case "int":
		return a.V == b.V
	case "str":
		return a.S == b.S
	case "pair":
		return same(a.A, b.A) && same(a.B, b.B)
	case "fn":
		return a.N == b.N && same(a.R, b.R)
	case "query":
		return vh.Canon(a.Q) == vh.Canon(b.Q)
	case "other":
		return a.Ty == b.Ty
	}
	return true
}

func firstPanic(o *Obs) string {
	if o == nil {
		return ""
	}
	if o.T == "panic" {
		return o.Msg
	}
	for _, c := range []*Obs{o.A, o.B, o.R} {
		if m := firstPanic(c); m != "" {
			return m
		}
	}
	return ""
}

var digits = regexp.MustCompile(`\b[0-9]+\b`)
var hexes = regexp.MustCompile(`0x[0-9a-f]+`)
var notCallable = regexp.MustCompile(`interface conversion: \S+ is not api\.Callable`)

// panicKey: the panic message with numbers abstracted + the first b6 frame (names the defect, not the input)
func panicKey(msg string) string {
	return "vm-" + abstractNumbers(msg)
}

// abstractNumbers replaces numbers in the panic message (not in the "@site" suffix) by N
func abstractNumbers(msg string) string {
	site := ""
	if i := strings.LastIndex(msg, " @"); i >= 0 {
		msg, site = msg[:i], msg[i:]
	}
	msg = hexes.ReplaceAllString(msg, "0xN")
	msg = notCallable.ReplaceAllString(msg, "interface conversion: T is not api.Callable")
	return digits.ReplaceAllString(msg, "N") + site
}

func strip(o *Obs) *Obs {
	if o == nil {
		return nil
	}
	c := *o
	c.Msg = ""
	c.A, c.B, c.R = strip(o.A), strip(o.B), strip(o.R)
	return &c
}

// ---------------------------------------------------------------- adapters

type vmCase struct {
	ID   int    `json:"id"`
	P    Expr   `json:"p"`
	Want Obs    `json:"want"`
	Cls  string `json:"cls"` // "pe": Lang.tla diagnoses "closure escaped from a partial application" (key only)
}

// failureKey names the failure: a panic by its (number-free) message and first b6 frame; a wrong result by
// the program; both prefixed by the class Lang.tla diagnosed for the program, if any.
func failureKey(text string, got *Obs, cls string) string {
	pm := firstPanic(got)
	if pm == "" {
		if cls == "pe" {
			return "closure-escaped-from-partial-application: vm-mismatch"
		}
		return "vm-mismatch " + text
	}
	if cls == "pe" && strings.Contains(pm, "OpLoad of invalid value") {
		return "closure-escaped-from-partial-application: " + panicKey(pm)
	}
	return panicKey(pm)
}

func runVM(data json.RawMessage) vh.Verdict {
	var c vmCase
	if err := json.Unmarshal(data, &c); err != nil {
		return vh.Fail("harness-json", "bad case: %v", err)
	}
	got := observe(&c.P, probeDepth)
	text := show(&c.P)
	if c.Want.T == "undef" {
		// outside the defined language (Lang.tla U1-U4): executed, reported, never asserted
		st := map[string]int{"unasserted": 1}
		if firstPanic(&got) != "" {
			st["unasserted_panic"] = 1
		}
		return vh.Verdict{OK: true, Obs: map[string]interface{}{"p": text, "got": strip(&got)}, Stats: st}
	}
	if same(&got, &c.Want) {
		return vh.Verdict{OK: true, Stats: map[string]int{"asserted": 1, "asserted_" + c.Want.T: 1}}
	}
	return vh.Verdict{OK: false, Key: failureKey(text, &got, c.Cls),
		Msg: fmt.Sprintf("program %s: VM observed %s, reference interpreter %s", text, vh.Canon(got), vh.Canon(c.Want)),
		Obs: map[string]interface{}{"p": text, "got": got, "want": c.Want}}
}

type obsCase struct {
	ID       int  `json:"id"`
	P        Expr `json:"p"`
	Simplify bool `json:"simplify"`
}

func runObserve(data json.RawMessage) vh.Verdict {
	var c obsCase
	if err := json.Unmarshal(data, &c); err != nil {
		return vh.Fail("harness-json", "bad case: %v", err)
	}
	out := map[string]interface{}{"id": c.ID, "p": c.P, "ptext": show(&c.P)}
	vp := observe(&c.P, probeDepth)
	out["vp"] = vp
	if c.Simplify {
		var q Expr
		pm := vh.Catch(func() {
			q = fromB6(api.Simplify(toB6(&c.P), lib))
		})
		if pm != "" {
			return vh.Verdict{OK: false, Key: "simplify-" + abstractNumbers(pm),
				Msg: fmt.Sprintf("api.Simplify(%s): %s", show(&c.P), pm), Obs: out}
		}
		out["q"] = q
		out["qtext"] = show(&q)
		out["vq"] = observe(&q, probeDepth)
	}
	return vh.Verdict{OK: true, Obs: out}
}

func main() {
	vh.RegisterFunc("vm", runVM)
	vh.RegisterFunc("observe", runObserve)
	vh.Main()
}
