// vh-formats: adapters for the file/wire format properties
//
//	C27  pbf, pbf-order   osm.Writer / osm.ReadPBFWithOptions        (spec PBFStream.tla)
//	C32  geojson          geojson marshal/unmarshal + ingest import  (spec GeoJSONShape.tla)
//	C33  tile, tiletags   renderer.EncodeTile / renderer.Encoder     (spec TileCmd.tla)
package main

import "verif/harness/vh"

func main() {
	vh.RegisterFunc("pbf", runPBF)
	vh.RegisterFunc("pbf-order", runPBFOrder)
	vh.RegisterFunc("geojson", runGeoJSON)
	vh.RegisterFunc("tile", runTile)
	vh.RegisterFunc("tiletags", runTileTags)
	vh.Main()
}
