package main

// C33: vector tile encoding (renderer.EncodeTile, renderer.Encoder).
//
// A case gives, per layer, features as integer pixel rings inside one tile (0..4095), a kind
// (point / line / polygon with rings[0] the outer ring and rings[1..] holes strictly inside it) and
// a tag map.  The adapter turns pixel centres into S2 geometry through b6.TileMercatorProjection,
// encodes the tile with renderer.EncodeTile, and for every encoded feature
//   * computes the feature's projected integer rings with the same projection, in the order of the
//     polygon's loops (these must be the case's rings: a harness precondition),
//   * decodes the command stream with its own MVT decoder (same state machine as spec/TileCmd.tla),
//   * compares: points/lines exactly, polygon rings as vertex cycles; outer rings and holes have
//     opposite shoelace signs; the feature's (key index, value index) pairs resolve to its tags.
// The geometry integers and the projected rings are returned as a trace record which C33.py hands
// to TLC (TileCmdTrace.tla) for validation against the specification's decoder.

import (
	"encoding/json"
	"fmt"
	"math"
	"sort"

	"diagonal.works/b6"
	pb "diagonal.works/b6/proto"
	"diagonal.works/b6/renderer"
	"github.com/golang/geo/r2"
	"github.com/golang/geo/s2"
	"verif/harness/vh"
)

type tileFeature struct {
	Kind  string            `json:"kind"`
	Rings [][][2]int        `json:"rings"`
	Depth []int             `json:"depth"` // polygon: nesting depth per ring (absent: ring 0 outer, the others holes)
	Tags  map[string]string `json:"tags"`
	FID   uint64            `json:"fid"`
}

type tileLayer struct {
	Name     string        `json:"name"`
	Features []tileFeature `json:"features"`
}

type tileCase struct {
	ID      int         `json:"id"`
	Z       uint        `json:"z"`
	X       uint        `json:"x"`
	Y       uint        `json:"y"`
	Layers  []tileLayer `json:"layers"`
	Corrupt bool        `json:"corrupt"` // binding self-test: expect one vertex somewhere else
}

type traceRec struct {
	K     string     `json:"k"`
	G     []uint32   `json:"g"`
	Rings [][][2]int `json:"rings"`
	Hole  []bool     `json:"hole"`
}

type decodedRing struct {
	pts    [][2]int
	closed bool
}

func unzigzag(v uint32) int { return int(int32(v>>1) ^ -int32(v&1)) }

// decodeMVT is a strict decoder for the geometry of one feature (vector tile spec 2.1, section 4.3).
func decodeMVT(g []uint32) ([]decodedRing, error) {
	var rings []decodedRing
	cx, cy := 0, 0
	i := 0
	for i < len(g) {
		id, count := g[i]&7, int(g[i]>>3)
		i++
		switch id {
		case 1, 2:
			if count == 0 {
				return rings, fmt.Errorf("command %d with count 0 at %d", id, i-1)
			}
			for k := 0; k < count; k++ {
				if i+1 >= len(g) {
					return rings, fmt.Errorf("command %d at %d: parameters missing", id, i)
				}
				cx += unzigzag(g[i])
				cy += unzigzag(g[i+1])
				i += 2
				if id == 1 {
					rings = append(rings, decodedRing{pts: [][2]int{{cx, cy}}})
				} else {
					if len(rings) == 0 || rings[len(rings)-1].closed {
						return rings, fmt.Errorf("LineTo without MoveTo at %d", i)
					}
					r := &rings[len(rings)-1]
					r.pts = append(r.pts, [2]int{cx, cy})
				}
			}
		case 7:
			if count != 1 {
				return rings, fmt.Errorf("ClosePath with count %d", count)
			}
			if len(rings) == 0 || rings[len(rings)-1].closed {
				return rings, fmt.Errorf("ClosePath without an open ring at %d", i-1)
			}
			rings[len(rings)-1].closed = true
		default:
			return rings, fmt.Errorf("unknown command id %d at %d", id, i-1)
		}
	}
	return rings, nil
}

func area2(r [][2]int) int {
	a := 0
	for i := range r {
		j := (i + 1) % len(r)
		a += r[i][0]*r[j][1] - r[j][0]*r[i][1]
	}
	return a
}

func sign(a int) int {
	if a > 0 {
		return 1
	} else if a < 0 {
		return -1
	}
	return 0
}

func sameCycle(a, b [][2]int) bool {
	n := len(a)
	if n != len(b) {
		return false
	}
	if n == 0 {
		return true
	}
	for rot := 0; rot < n; rot++ {
		for _, dir := range []int{1, -1} {
			ok := true
			for i := 0; i < n && ok; i++ {
				ok = a[((rot+dir*i)%n+n)%n] == b[i]
			}
			if ok {
				return true
			}
		}
	}
	return false
}

func sameSeq(a, b [][2]int) bool {
	if len(a) != len(b) {
		return false
	}
	for i := range a {
		if a[i] != b[i] {
			return false
		}
	}
	return true
}

func featureSig(f *tileFeature) string {
	lens := make([]int, len(f.Rings))
	for i, r := range f.Rings {
		lens[i] = len(r)
	}
	return fmt.Sprintf("%s rings=%v", f.Kind, lens)
}

func runTile(data json.RawMessage) vh.Verdict {
	var c tileCase
	if err := json.Unmarshal(data, &c); err != nil {
		return vh.Fail("harness-json", "bad case: %v", err)
	}
	proj := b6.NewTileMercatorProjection(c.Z + renderer.TileExtent)
	ox, oy := int(c.X<<renderer.TileExtent), int(c.Y<<renderer.TileExtent)
	unproject := func(p [2]int) s2.Point {
		return proj.Unproject(r2.Point{X: float64(ox+p[0]) + 0.5, Y: float64(oy+p[1]) + 0.5})
	}
	project := func(p s2.Point) [2]int {
		q := proj.Project(p)
		return [2]int{int(q.X) - ox, int(q.Y) - oy}
	}
	content := &renderer.Tile{}
	type want struct {
		f     *tileFeature
		rings [][][2]int // projected integer rings in encoding order
		hole  []bool
	}
	var wants [][]want
	for li := range c.Layers {
		l := &c.Layers[li]
		layer := renderer.NewLayer(l.Name)
		var ws []want
		for fi := range l.Features {
			f := &l.Features[fi]
			w := want{f: f}
			var g renderer.Geometry
			switch f.Kind {
			case "point":
				p := unproject(f.Rings[0][0])
				g = renderer.NewPoint(p)
				w.rings = [][][2]int{{project(p)}}
				w.hole = []bool{false}
			case "line":
				pl := make(s2.Polyline, len(f.Rings[0]))
				ring := make([][2]int, len(pl))
				for i, p := range f.Rings[0] {
					pl[i] = unproject(p)
					ring[i] = project(pl[i])
				}
				g = renderer.NewLineString(&pl)
				w.rings = [][][2]int{ring}
				w.hole = []bool{false}
			case "polygon":
				loops := make([]*s2.Loop, len(f.Rings))
				for ri, r := range f.Rings {
					pts := make([]s2.Point, len(r))
					for i, p := range r {
						pts[i] = unproject(p)
					}
					loops[ri] = s2.LoopFromPoints(pts)
					if loops[ri].Area() > 2*math.Pi {
						loops[ri].Invert()
					}
				}
				poly := s2.PolygonFromLoops(loops)
				g = renderer.NewPolygon(poly)
				for _, loop := range poly.Loops() {
					ring := make([][2]int, loop.NumVertices())
					for i := range ring {
						ring[i] = project(loop.Vertex(i))
					}
					src := -1
					for ri, r := range f.Rings {
						if sameCycle(r, ring) {
							src = ri
						}
					}
					if src < 0 {
						return vh.Fail("harness:projection-precondition", "loop %v is not one of the case's rings %v", ring, f.Rings)
					}
					isHole := src > 0
					if len(f.Depth) == len(f.Rings) {
						isHole = f.Depth[src]%2 == 1 // a ring inside a hole (depth 2) is an exterior ring again
					}
					if isHole != loop.IsHole() {
						return vh.Fail("harness:hole-precondition", "ring %d: IsHole=%v", src, loop.IsHole())
					}
					w.rings = append(w.rings, ring)
					w.hole = append(w.hole, isHole)
				}
			default:
				return vh.Fail("harness-json", "unknown kind %q", f.Kind)
			}
			if f.Kind != "polygon" {
				for i, p := range f.Rings[0] {
					if w.rings[0][i] != p {
						return vh.Fail("harness:projection-precondition", "pixel %v projects to %v", p, w.rings[0][i])
					}
				}
			}
			tf := renderer.NewFeature(g)
			tf.ID = f.FID
			for k, v := range f.Tags {
				tf.Tags[k] = v
			}
			layer.AddFeature(tf)
			ws = append(ws, w)
		}
		content.Layers = append(content.Layers, layer)
		if len(ws) > 0 {
			wants = append(wants, ws)
		}
	}
	if c.Corrupt {
		for _, ws := range wants {
			for _, w := range ws {
				if len(w.rings) > 0 && len(w.rings[0]) > 0 {
					w.rings[0][0][0] += 1
				}
			}
		}
	}

	encoded := renderer.EncodeTile(b6.Tile{X: c.X, Y: c.Y, Z: c.Z}, content)

	if len(encoded.Layers) != len(wants)+1 {
		return vh.Fail(fmt.Sprintf("tile layers=%d: layer-count", len(wants)), "%d encoded layers (incl. background) for %d non-empty layers", len(encoded.Layers), len(wants))
	}
	stats := map[string]int{}
	var trace []traceRec
	for li, ws := range wants {
		layer := encoded.Layers[li+1]
		if len(layer.Features) != len(ws) {
			return vh.Fail(fmt.Sprintf("tile layer features=%d: feature-count", len(ws)), "%d encoded features for %d features", len(layer.Features), len(ws))
		}
		for fi, w := range ws {
			ef := layer.Features[fi]
			sig := featureSig(w.f)
			key := func(class string) string { return "tile " + sig + ": " + class }
			rec := traceRec{K: w.f.Kind, G: ef.Geometry, Rings: w.rings, Hole: w.hole}
			trace = append(trace, rec)
			dec, err := decodeMVT(ef.Geometry)
			if err != nil {
				return vh.Verdict{OK: false, Key: key("undecodable"), Msg: fmt.Sprintf("%v: %v", err, ef.Geometry), Obs: rec}
			}
			wantType := map[string]pb.TileProto_GeomType{"point": pb.TileProto_POINT, "line": pb.TileProto_LINESTRING, "polygon": pb.TileProto_POLYGON}[w.f.Kind]
			if ef.GetType() != wantType {
				return vh.Verdict{OK: false, Key: key("geometry-type"), Msg: fmt.Sprintf("type %v for a %s", ef.GetType(), w.f.Kind), Obs: rec}
			}
			if len(dec) != len(w.rings) {
				return vh.Verdict{OK: false, Key: key("ring-count"), Msg: fmt.Sprintf("decoded %d rings, feature has %d: %v", len(dec), len(w.rings), ef.Geometry), Obs: rec}
			}
			for ri := range dec {
				switch w.f.Kind {
				case "polygon":
					if !dec[ri].closed {
						return vh.Verdict{OK: false, Key: key("ring-not-closed"), Msg: fmt.Sprintf("ring %d has no ClosePath: %v", ri, ef.Geometry), Obs: rec}
					}
					if !sameCycle(dec[ri].pts, w.rings[ri]) {
						return vh.Verdict{OK: false, Key: key("ring-coordinates"), Msg: fmt.Sprintf("ring %d decodes to %v, projected ring is %v", ri, dec[ri].pts, w.rings[ri]), Obs: rec}
					}
				default:
					if dec[ri].closed {
						return vh.Verdict{OK: false, Key: key("closed"), Msg: fmt.Sprintf("ClosePath in a %s", w.f.Kind), Obs: rec}
					}
					if !sameSeq(dec[ri].pts, w.rings[ri]) {
						return vh.Verdict{OK: false, Key: key("coordinates"), Msg: fmt.Sprintf("decodes to %v, projected coordinates are %v", dec[ri].pts, w.rings[ri]), Obs: rec}
					}
				}
			}
			if w.f.Kind == "polygon" {
				outer := 0
				for ri := range dec {
					s := sign(area2(dec[ri].pts))
					if s == 0 {
						return vh.Fail("harness:degenerate-ring", "ring %v has no area", dec[ri].pts)
					}
					if !w.hole[ri] {
						if outer != 0 && s != outer {
							return vh.Verdict{OK: false, Key: key("outer-rings-disagree"), Msg: fmt.Sprintf("%v", ef.Geometry), Obs: rec}
						}
						outer = s
					}
				}
				for ri := range dec {
					if w.hole[ri] && sign(area2(dec[ri].pts)) == outer {
						return vh.Verdict{OK: false, Key: key("hole-winding-same-as-outer"), Msg: fmt.Sprintf("hole %v and the outer ring both have shoelace sign %d", dec[ri].pts, outer), Obs: rec}
					}
				}
				stats["polygon_rings_decoded"] += len(dec)
			}
			// tags
			if len(ef.Tags)%2 != 0 {
				return vh.Verdict{OK: false, Key: key("tags-odd"), Msg: fmt.Sprintf("%v", ef.Tags)}
			}
			got := map[string]string{}
			for i := 0; i+1 < len(ef.Tags); i += 2 {
				ki, vi := int(ef.Tags[i]), int(ef.Tags[i+1])
				if ki >= len(layer.Keys) || vi >= len(layer.Values) {
					return vh.Verdict{OK: false, Key: key("tag-index-out-of-range"), Msg: fmt.Sprintf("pair (%d,%d) with %d keys, %d values", ki, vi, len(layer.Keys), len(layer.Values))}
				}
				if _, dup := got[layer.Keys[ki]]; dup {
					return vh.Verdict{OK: false, Key: key("tag-key-twice"), Msg: layer.Keys[ki]}
				}
				v := layer.Values[vi]
				if v.StringValue == nil {
					return vh.Verdict{OK: false, Key: key("tag-value-not-a-string"), Msg: fmt.Sprintf("%v", v)}
				}
				got[layer.Keys[ki]] = v.GetStringValue()
			}
			if !sameProps(w.f.Tags, got) {
				return vh.Verdict{OK: false, Key: fmt.Sprintf("tile tags n=%d: tags", len(w.f.Tags)), Msg: fmt.Sprintf("tags %q decode to %q (keys %q)", w.f.Tags, got, layer.Keys)}
			}
			if w.f.FID != 0 && ef.GetId() != w.f.FID {
				return vh.Verdict{OK: false, Key: key("feature-id"), Msg: fmt.Sprintf("id %d became %d", w.f.FID, ef.GetId())}
			}
			stats["features_decoded"]++
		}
	}
	return vh.Verdict{OK: true, Stats: stats, Obs: map[string]interface{}{"trace": trace}}
}

// ---------------------------------------------------------------- Encoder.Tag with typed values

type tagOp struct {
	K string `json:"k"`
	T string `json:"t"` // s, i (int), l (int64)
	S string `json:"s"`
	N int64  `json:"n"`
}

type tileTagsCase struct {
	ID       int       `json:"id"`
	Features [][]tagOp `json:"features"`
}

func runTileTags(data json.RawMessage) vh.Verdict {
	var c tileTagsCase
	if err := json.Unmarshal(data, &c); err != nil {
		return vh.Fail("harness-json", "bad case: %v", err)
	}
	e := renderer.NewEncoder(0, 0, "t", 1<<renderer.TileExtent)
	for _, ops := range c.Features {
		e.StartFeature()
		e.MoveTo(1)
		e.XY(1, 1)
		for _, op := range ops {
			switch op.T {
			case "s":
				e.Tag(op.K, op.S)
			case "i":
				e.Tag(op.K, int(op.N))
			case "l":
				e.Tag(op.K, op.N)
			}
		}
	}
	layer := e.Layer()
	if len(layer.Features) != len(c.Features) {
		return vh.Fail("tiletags feature-count", "%d features for %d", len(layer.Features), len(c.Features))
	}
	sigs := []string{}
	for _, ops := range c.Features {
		s := ""
		for _, op := range ops {
			s += op.T
		}
		sigs = append(sigs, s)
	}
	sort.Strings(sigs)
	for fi, ops := range c.Features {
		ef := layer.Features[fi]
		if len(ef.Tags) != 2*len(ops) {
			return vh.Verdict{OK: false, Key: fmt.Sprintf("tiletags %v: pair-count", sigs), Msg: fmt.Sprintf("feature %d: %d integers for %d tags", fi, len(ef.Tags), len(ops))}
		}
		for i, op := range ops {
			ki, vi := int(ef.Tags[2*i]), int(ef.Tags[2*i+1])
			if ki >= len(layer.Keys) || vi >= len(layer.Values) {
				return vh.Verdict{OK: false, Key: fmt.Sprintf("tiletags %v: index-out-of-range", sigs), Msg: fmt.Sprintf("(%d,%d)", ki, vi)}
			}
			v := layer.Values[vi]
			ok := layer.Keys[ki] == op.K
			switch op.T {
			case "s":
				ok = ok && v.StringValue != nil && v.GetStringValue() == op.S && v.IntValue == nil
			default:
				ok = ok && v.IntValue != nil && v.GetIntValue() == op.N && v.StringValue == nil
			}
			if !ok {
				return vh.Verdict{OK: false, Key: fmt.Sprintf("tiletags %v: tag", sigs), Msg: fmt.Sprintf("feature %d tag %d: %+v decodes to key %q value %v", fi, i, op, layer.Keys[ki], v)}
			}
		}
	}
	return vh.Verdict{OK: true, Stats: map[string]int{"tag_features_decoded": len(c.Features)}}
}
