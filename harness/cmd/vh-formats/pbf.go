package main

// C27: osm.Writer -> bytes -> osm.ReadPBFWithOptions.
//
// A case is a STRUCTURE computed by TLC from spec/PBFStream.tla (a sequence of WriteNode/WriteWay/
// WriteRelation/Flush calls with group size G=2) scaled by tools/props/C27.py to the real group size
// (a model run of q*G+r elements becomes q*8000+r' elements), together with the block partition the
// spec predicts.  The adapter generates the element CONTENT from (profile, seed), executes the calls
// on the real writer, reads the bytes back with 1..4 cores and judges:
//   cores = 1 (and osm.ReadPBF): the delivered sequence = the written sequence;
//   cores > 1: every written element is delivered exactly once, and the elements delivered to one
//              goroutine arrive in written order (what a reader that hands whole blocks to goroutines
//              promises; the cross-goroutine order is examined by the separate adapter pbf-order).
// The read callback never fails (that is property C28).

import (
	"bytes"
	"compress/zlib"
	"encoding/binary"
	"encoding/json"
	"fmt"
	"io"
	"math"
	"math/rand"
	"strings"
	"sync"
	"time"

	"diagonal.works/b6/osm"
	pb "diagonal.works/b6/osm/proto"
	"google.golang.org/protobuf/proto"
	"verif/harness/vh"
)

type pbfRun struct {
	K string `json:"k"` // n, w, r, f
	N int    `json:"n"`
}

type pbfCase struct {
	ID      int      `json:"id"`
	Model   string   `json:"model"`   // the TLC op sequence, e.g. "nnwfr"
	Partial string   `json:"partial"` // how a partial model group was scaled: "1", "2", "E-1"
	Ops     []pbfRun `json:"ops"`     // real scale calls
	Blocks  []pbfRun `json:"blocks"`  // block partition predicted by the spec (real scale)
	Profile string   `json:"profile"`
	Seed    int64    `json:"seed"`
	Cores   []int    `json:"cores"`
	Corrupt int      `json:"corrupt"` // binding self-test: expect element <n-1> to be something else
}

type elem struct {
	kind byte
	node *osm.Node
	way  *osm.Way
	rel  *osm.Relation
}

func (e *elem) id() int64 {
	switch e.kind {
	case 'n':
		return int64(e.node.ID)
	case 'w':
		return int64(e.way.ID)
	}
	return int64(e.rel.ID)
}

type elemKey struct {
	kind byte
	id   int64
}

// ---------------------------------------------------------------- content generation

var coordClasses = [][2]float64{
	{0, 0}, {90, 180}, {-90, -180}, {51.123456789, -0.123456789}, {-33.987654321, 151.2},
	{89.9999999, 179.9999999}, {-89.9999999, -179.9999999}, {1e-7, -1e-7}, {0.00000005, -0.00000005},
	{math.Copysign(0, -1), math.Copysign(0, -1)}, {51.5, -0.1}, {0.000000001, 179.999999999}, {-0.999999999, 0.999999999},
}

var stringClasses = []string{"", "a", "name", "highway", "höhe", "日本語", "yes", "no", " ", "a=b", "\"q\"", "outer", "inner",
	strings.Repeat("x", 300)}

type gen struct {
	profile string
	rng     *rand.Rand
	used    map[elemKey]bool
	count   map[byte]int
}

func (g *gen) str(i int) string {
	switch g.profile {
	case "strings":
		switch g.rng.Intn(4) {
		case 0:
			return ""
		case 1:
			return fmt.Sprintf("s%d", i) // many distinct strings per block
		case 2:
			return stringClasses[g.rng.Intn(len(stringClasses))]
		}
		return fmt.Sprintf("k%d", g.rng.Intn(5))
	case "plain":
		return []string{"highway", "name", "yes", "primary"}[g.rng.Intn(4)]
	}
	if g.rng.Intn(3) == 0 {
		return fmt.Sprintf("v%d", g.rng.Intn(40))
	}
	return stringClasses[g.rng.Intn(len(stringClasses))]
}

func (g *gen) tags(i int) osm.Tags {
	n := g.rng.Intn(4)
	if g.profile == "plain" && i%3 != 0 {
		n = 0
	}
	if n == 0 {
		return nil
	}
	t := make(osm.Tags, n)
	for j := range t {
		t[j] = osm.Tag{Key: g.str(i), Value: g.str(i)}
	}
	return t
}

func (g *gen) rawID(i int) int64 {
	switch g.profile {
	case "plain", "strings", "coords":
		return int64(1 + i)
	case "negdec":
		return -1 - int64(i)*int64(1+g.rng.Intn(9)) - int64(g.rng.Intn(3))
	case "large":
		switch i {
		case 0:
			return math.MaxInt64
		case 1:
			return math.MinInt64
		case 2:
			return math.MaxInt64 - 1
		}
		v := (int64(1) << uint(40+i%22)) + int64(i)
		if g.rng.Intn(2) == 0 {
			v = -v
		}
		return v
	case "dupids":
		return int64(i / 2)
	}
	// mixed
	switch g.rng.Intn(5) {
	case 0:
		return -int64(g.rng.Intn(1 << 20))
	case 1:
		return int64(1)<<uint(32+g.rng.Intn(30)) + int64(g.rng.Intn(1000))
	case 2:
		return -(int64(1)<<uint(32+g.rng.Intn(30)) + int64(g.rng.Intn(1000)))
	}
	return int64(g.rng.Intn(1 << 30))
}

func (g *gen) id(kind byte) int64 {
	i := g.count[kind]
	g.count[kind]++
	v := g.rawID(i)
	if g.profile == "dupids" {
		return v
	}
	for g.used[elemKey{kind, v}] {
		v++
	}
	g.used[elemKey{kind, v}] = true
	return v
}

func (g *gen) refID() int64 {
	switch g.rng.Intn(6) {
	case 0:
		return -int64(g.rng.Intn(100))
	case 1:
		return int64(1)<<uint(33+g.rng.Intn(29)) + int64(g.rng.Intn(10))
	case 2:
		return math.MinInt64 + int64(g.rng.Intn(3))
	case 3:
		return math.MaxInt64 - int64(g.rng.Intn(3))
	}
	return int64(g.rng.Intn(1000))
}

func round9(v float64) float64 { return math.Round(v*1e9) / 1e9 }

func (g *gen) coord(i int) osm.LatLng {
	switch g.profile {
	case "coords":
		c := coordClasses[i%len(coordClasses)]
		if i >= len(coordClasses) && g.rng.Intn(2) == 0 {
			return osm.LatLng{Lat: round9(g.rng.Float64()*180 - 90), Lng: round9(g.rng.Float64()*360 - 180)}
		}
		return osm.LatLng{Lat: c[0], Lng: c[1]}
	case "plain":
		return osm.LatLng{Lat: 51.5 + float64(g.rng.Intn(100000))/1e7, Lng: -0.1 - float64(g.rng.Intn(100000))/1e7}
	}
	if g.rng.Intn(8) == 0 {
		c := coordClasses[g.rng.Intn(len(coordClasses))]
		return osm.LatLng{Lat: c[0], Lng: c[1]}
	}
	return osm.LatLng{Lat: round9(g.rng.Float64()*180 - 90), Lng: round9(g.rng.Float64()*360 - 180)}
}

func (g *gen) element(kind byte) elem {
	i := g.count[kind]
	e := elem{kind: kind}
	switch kind {
	case 'n':
		e.node = &osm.Node{ID: osm.NodeID(g.id(kind)), Location: g.coord(i), Tags: g.tags(i)}
	case 'w':
		n := g.rng.Intn(6)
		if g.rng.Intn(400) == 0 {
			n = 2000
		}
		var nodes []osm.NodeID
		for j := 0; j < n; j++ {
			if j > 0 && g.rng.Intn(4) == 0 {
				nodes = append(nodes, nodes[g.rng.Intn(j)]) // repeated reference (closed ways)
			} else {
				nodes = append(nodes, osm.NodeID(g.refID()))
			}
		}
		e.way = &osm.Way{ID: osm.WayID(g.id(kind)), Nodes: nodes, Tags: g.tags(i)}
	case 'r':
		n := g.rng.Intn(5)
		var members []osm.Member
		for j := 0; j < n; j++ {
			members = append(members, osm.Member{Type: osm.ElementType(g.rng.Intn(3)), ID: osm.AnyID(g.refID()), Role: g.str(i)})
		}
		e.rel = &osm.Relation{ID: osm.RelationID(g.id(kind)), Members: members, Tags: g.tags(i)}
	}
	return e
}

// ---------------------------------------------------------------- write / read

func writePBF(ops []pbfRun, profile string, seed int64) ([]elem, []byte, error) {
	g := &gen{profile: profile, rng: rand.New(rand.NewSource(seed)), used: map[elemKey]bool{}, count: map[byte]int{}}
	var buf bytes.Buffer
	w, err := osm.NewWriter(&buf)
	if err != nil {
		return nil, nil, err
	}
	total := 0
	for _, op := range ops {
		total += op.N
	}
	written := make([]elem, 0, total)
	buf.Grow(total * 12)
	for _, op := range ops {
		if op.K == "f" {
			if err := w.Flush(); err != nil {
				return nil, nil, fmt.Errorf("Flush: %v", err)
			}
			continue
		}
		for j := 0; j < op.N; j++ {
			e := g.element(op.K[0])
			written = append(written, e)
			switch e.kind {
			case 'n':
				err = w.WriteNode(e.node)
			case 'w':
				err = w.WriteWay(e.way)
			case 'r':
				err = w.WriteRelation(e.rel)
			}
			if err != nil {
				return nil, nil, fmt.Errorf("Write %c #%d: %v", e.kind, len(written)-1, err)
			}
		}
	}
	if err := w.Flush(); err != nil {
		return nil, nil, fmt.Errorf("final Flush: %v", err)
	}
	return written, buf.Bytes(), nil
}

func cloneElement(e osm.Element) (elem, bool) {
	switch x := e.(type) {
	case *osm.Node:
		c := x.Clone()
		return elem{kind: 'n', node: &c}, true
	case *osm.Way:
		c := x.Clone()
		return elem{kind: 'w', way: &c}, true
	case *osm.Relation:
		c := x.Clone()
		return elem{kind: 'r', rel: &c}, true
	}
	return elem{}, false
}

func viewElement(e osm.Element) (elem, bool) {
	switch x := e.(type) {
	case *osm.Node:
		return elem{kind: 'n', node: x}, true
	case *osm.Way:
		return elem{kind: 'w', way: x}, true
	case *osm.Relation:
		return elem{kind: 'r', rel: x}, true
	}
	return elem{}, false
}

type readResult struct {
	class, detail string // first mismatch ("" = none)
	delivered     int
	inOrder       bool // the callback invocations began in written order
}

// readAndJudge reads with the given number of cores (cores = 0: osm.ReadPBF) and judges every
// delivery inside the callback (deliveries are ordered by the moment the callback invocation begins).
func readAndJudge(data []byte, cores int, written []elem, index map[elemKey]int, unique bool) (readResult, error) {
	var mu sync.Mutex
	res := readResult{inOrder: true}
	var seen []bool
	last := map[int]int{}
	if cores > 1 {
		seen = make([]bool, len(written))
	}
	fail := func(class, format string, args ...interface{}) {
		if res.class == "" {
			res.class, res.detail = class, fmt.Sprintf(format, args...)
		}
	}
	emit := func(oe osm.Element, g int) error {
		mu.Lock()
		defer mu.Unlock()
		j := res.delivered
		res.delivered++
		if res.class != "" {
			return nil
		}
		e, ok := viewElement(oe)
		if !ok {
			fail("callback-type", "callback got %T", oe)
			return nil
		}
		if cores <= 1 {
			if j >= len(written) {
				fail("count", "more than the %d written elements delivered", len(written))
			} else if class, detail := diff(&written[j], &e); class != "" {
				fail(class, "element %d of %d: %s", j, len(written), detail)
			}
			return nil
		}
		if !unique {
			return nil // duplicate (kind, ID) pairs: deliveries cannot be attributed; read with one core only
		}
		i, ok := index[elemKey{e.kind, e.id()}]
		if !ok {
			fail("unknown-element", "delivered %c %d which was never written", e.kind, e.id())
			return nil
		}
		if seen[i] {
			fail("duplicate", "element %d delivered twice", i)
			return nil
		}
		seen[i] = true
		if class, detail := diff(&written[i], &e); class != "" {
			fail(class, "element %d of %d: %s", i, len(written), detail)
			return nil
		}
		if p, ok := last[g]; ok && p >= i {
			fail("goroutine-order", "goroutine %d got element %d after element %d", g, i, p)
		}
		last[g] = i
		if g < 0 || g >= cores {
			fail("goroutine-index", "goroutine index %d with %d cores", g, cores)
		}
		if i != j {
			res.inOrder = false
		}
		return nil
	}
	var err error
	if cores == 0 {
		err = osm.ReadPBF(bytes.NewReader(data), func(e osm.Element) error { return emit(e, 0) })
	} else {
		err = osm.ReadPBFWithOptions(bytes.NewReader(data), emit, osm.ReadOptions{Cores: cores})
	}
	if err == nil && res.class == "" && res.delivered != len(written) {
		fail("count", "wrote %d elements, read %d", len(written), res.delivered)
	}
	return res, err
}

// ---------------------------------------------------------------- comparison

const granularityDeg = 1e-7   // default granularity 100 nanodegrees (the writer never sets another one)
const floatSlack = 1e-12      // float64 rounding of degrees*1e9 and back
// a written coordinate comes back as the NEAREST multiple of the granularity: half a step at most (a whole step was
// accepted until the writer's truncation was found through C29's file-based ingest and repaired, /repo 96867ca)
func coordOK(w, r float64) bool { return math.Abs(w-r) <= granularityDeg/2+floatSlack }

func sameTags(a, b osm.Tags) bool {
	if len(a) != len(b) {
		return false
	}
	for i := range a {
		if a[i] != b[i] {
			return false
		}
	}
	return true
}

// diff returns "" if the element read equals the element written, else a short class and a detail.
func diff(w, r *elem) (string, string) {
	if w.kind != r.kind {
		return "kind", fmt.Sprintf("wrote %c read %c", w.kind, r.kind)
	}
	switch w.kind {
	case 'n':
		if w.node.ID != r.node.ID {
			return "node-id", fmt.Sprintf("wrote node %d read %d", w.node.ID, r.node.ID)
		}
		if !coordOK(w.node.Location.Lat, r.node.Location.Lat) || !coordOK(w.node.Location.Lng, r.node.Location.Lng) {
			return "node-coord", fmt.Sprintf("node %d wrote %.10f,%.10f read %.10f,%.10f", w.node.ID, w.node.Location.Lat, w.node.Location.Lng, r.node.Location.Lat, r.node.Location.Lng)
		}
		if !sameTags(w.node.Tags, r.node.Tags) {
			return "node-tags", fmt.Sprintf("node %d wrote %q read %q", w.node.ID, w.node.Tags, r.node.Tags)
		}
	case 'w':
		if w.way.ID != r.way.ID {
			return "way-id", fmt.Sprintf("wrote way %d read %d", w.way.ID, r.way.ID)
		}
		if len(w.way.Nodes) != len(r.way.Nodes) {
			return "way-refs", fmt.Sprintf("way %d wrote %d refs read %d", w.way.ID, len(w.way.Nodes), len(r.way.Nodes))
		}
		for i := range w.way.Nodes {
			if w.way.Nodes[i] != r.way.Nodes[i] {
				return "way-refs", fmt.Sprintf("way %d ref %d wrote %d read %d", w.way.ID, i, w.way.Nodes[i], r.way.Nodes[i])
			}
		}
		if !sameTags(w.way.Tags, r.way.Tags) {
			return "way-tags", fmt.Sprintf("way %d wrote %q read %q", w.way.ID, w.way.Tags, r.way.Tags)
		}
	case 'r':
		if w.rel.ID != r.rel.ID {
			return "rel-id", fmt.Sprintf("wrote relation %d read %d", w.rel.ID, r.rel.ID)
		}
		if len(w.rel.Members) != len(r.rel.Members) {
			return "rel-members", fmt.Sprintf("relation %d wrote %d members read %d", w.rel.ID, len(w.rel.Members), len(r.rel.Members))
		}
		for i := range w.rel.Members {
			if w.rel.Members[i] != r.rel.Members[i] {
				return "rel-members", fmt.Sprintf("relation %d member %d wrote %+v read %+v", w.rel.ID, i, w.rel.Members[i], r.rel.Members[i])
			}
		}
		if !sameTags(w.rel.Tags, r.rel.Tags) {
			return "rel-tags", fmt.Sprintf("relation %d wrote %q read %q", w.rel.ID, w.rel.Tags, r.rel.Tags)
		}
	}
	return "", ""
}

// fileBlocks parses the blob framing and returns the (kind, element count) of every OSMData block.
func fileBlocks(data []byte) ([]pbfRun, error) {
	r := bytes.NewReader(data)
	var out []pbfRun
	for {
		var lb [4]byte
		if _, err := io.ReadFull(r, lb[:]); err != nil {
			if err == io.EOF {
				return out, nil
			}
			return out, err
		}
		hb := make([]byte, binary.BigEndian.Uint32(lb[:]))
		if _, err := io.ReadFull(r, hb); err != nil {
			return out, err
		}
		var h pb.BlobHeader
		if err := proto.Unmarshal(hb, &h); err != nil {
			return out, err
		}
		bb := make([]byte, h.GetDatasize())
		if _, err := io.ReadFull(r, bb); err != nil {
			return out, err
		}
		if h.GetType() != "OSMData" {
			continue
		}
		var b pb.Blob
		if err := proto.Unmarshal(bb, &b); err != nil {
			return out, err
		}
		raw := b.Raw
		if raw == nil {
			zr, err := zlib.NewReader(bytes.NewReader(b.ZlibData))
			if err != nil {
				return out, err
			}
			if raw, err = io.ReadAll(zr); err != nil {
				return out, err
			}
		}
		var block pb.PrimitiveBlock
		if err := proto.Unmarshal(raw, &block); err != nil {
			return out, err
		}
		for _, g := range block.GetPrimitivegroup() {
			if g.Dense != nil && len(g.Dense.Id) > 0 {
				out = append(out, pbfRun{"n", len(g.Dense.Id)})
			}
			if len(g.Nodes) > 0 {
				out = append(out, pbfRun{"n", len(g.Nodes)})
			}
			if len(g.Ways) > 0 {
				out = append(out, pbfRun{"w", len(g.Ways)})
			}
			if len(g.Relations) > 0 {
				out = append(out, pbfRun{"r", len(g.Relations)})
			}
		}
	}
}

func pbfKey(c *pbfCase, cores string, class string) string {
	return fmt.Sprintf("pbf model=%s partial=%s profile=%s cores=%s: %s", c.Model, c.Partial, c.Profile, cores, class)
}

func runPBF(data json.RawMessage) vh.Verdict {
	var c pbfCase
	if err := json.Unmarshal(data, &c); err != nil {
		return vh.Fail("harness-json", "bad case: %v", err)
	}
	written, file, err := writePBF(c.Ops, c.Profile, c.Seed)
	if err != nil {
		return vh.Verdict{OK: false, Key: pbfKey(&c, "-", "write-error"), Msg: err.Error()}
	}
	if c.Corrupt > 0 && c.Corrupt <= len(written) {
		// binding self-test: the oracle is told that something else was written
		e := &written[c.Corrupt-1]
		switch e.kind {
		case 'n':
			e.node.ID += 1
		case 'w':
			e.way.ID += 1
		case 'r':
			e.rel.ID += 1
		}
	}
	stats := map[string]int{"elements_written": len(written), "reads": 0}
	// conformance of the spec's writer model (not part of the property): block partition of the file
	if blocks, err := fileBlocks(file); err != nil {
		stats["file_parse_errors"] = 1
	} else {
		same := len(blocks) == len(c.Blocks)
		for i := 0; same && i < len(blocks); i++ {
			same = blocks[i] == c.Blocks[i]
		}
		if same {
			stats["block_partitions_as_spec"] = 1
		} else {
			stats["block_partitions_differ_from_spec"] = 1
		}
		stats["blocks"] = len(blocks)
	}
	index := map[elemKey]int{}
	unique := true
	for i := range written {
		k := elemKey{written[i].kind, written[i].id()}
		if _, dup := index[k]; dup {
			unique = false
		}
		index[k] = i
	}
	for _, cores := range append([]int{0}, c.Cores...) {
		cs := fmt.Sprint(cores)
		if cores == 0 {
			cs = "ReadPBF"
		}
		res, err := readAndJudge(file, cores, written, index, unique)
		stats["reads"]++
		if err != nil {
			return vh.Verdict{OK: false, Key: pbfKey(&c, cs, "read-error"), Msg: err.Error(), Stats: stats}
		}
		if res.class != "" {
			return vh.Verdict{OK: false, Key: pbfKey(&c, cs, res.class), Msg: res.detail, Stats: stats}
		}
		if cores > 1 && unique {
			stats["multicore_reads"]++
			if !res.inOrder {
				stats["multicore_reads_with_cross_block_reordering"]++ // observation only (timing dependent)
			}
		}
	}
	return vh.Verdict{OK: true, Stats: stats}
}

// ---------------------------------------------------------------- cross-block order witness

type orderCase struct {
	ID     int      `json:"id"`
	Model  string   `json:"model"`
	Ops    []pbfRun `json:"ops"`
	Cores  int      `json:"cores"`
	Seed   int64    `json:"seed"`
	HoldMs int      `json:"hold_ms"`
}

const OrderKey = "cores>1: elements of a later block are delivered before the remaining elements of an earlier block (emit is called concurrently, one goroutine per block)"

// runPBFOrder replays the TLC counterexample to GlobalOrder of PBFStream.tla: the callback of the very
// first element is held until another goroutine has delivered something (or hold_ms passed).  A reader
// that serialises deliveries in file order never delivers anything meanwhile; the real reader does.
func runPBFOrder(data json.RawMessage) vh.Verdict {
	var c orderCase
	if err := json.Unmarshal(data, &c); err != nil {
		return vh.Fail("harness-json", "bad case: %v", err)
	}
	written, file, err := writePBF(c.Ops, "plain", c.Seed)
	if err != nil {
		return vh.Fail("pbf-order write-error", "%v", err)
	}
	index := map[elemKey]int{}
	for i := range written {
		index[elemKey{written[i].kind, written[i].id()}] = i
	}
	var mu sync.Mutex
	var arrival [][2]int // (goroutine, element index) in the order the callback invocations begin
	released := make(chan struct{})
	var once sync.Once
	holder := -1
	emit := func(e osm.Element, g int) error {
		ce, _ := cloneElement(e)
		i, ok := index[elemKey{ce.kind, ce.id()}]
		if !ok {
			i = -1
		}
		mu.Lock()
		arrival = append(arrival, [2]int{g, i})
		if i == 0 {
			holder = g
			mu.Unlock()
			select {
			case <-released:
			case <-time.After(time.Duration(c.HoldMs) * time.Millisecond):
			}
			return nil
		}
		other := holder != -1 && g != holder
		mu.Unlock()
		if other {
			once.Do(func() { close(released) })
		}
		return nil
	}
	if err := osm.ReadPBFWithOptions(bytes.NewReader(file), emit, osm.ReadOptions{Cores: c.Cores}); err != nil {
		return vh.Fail("pbf-order read-error", "%v", err)
	}
	if len(arrival) != len(written) {
		return vh.Fail("pbf-order count", "wrote %d read %d", len(written), len(arrival))
	}
	first := -1
	for j, a := range arrival {
		if a[1] != j {
			first = j
			break
		}
	}
	head := arrival
	if len(head) > 12 {
		head = head[:12]
	}
	obs := map[string]interface{}{"model": c.Model, "cores": c.Cores, "arrival_head": head, "first_out_of_order_position": first}
	if first >= 0 {
		return vh.Verdict{OK: false, Key: OrderKey, Obs: obs,
			Msg: fmt.Sprintf("model ops %s, %d cores: while the callback for element 0 was running, element %d (goroutine %d) was delivered before element %d; arrival (goroutine, index) starts %v",
				c.Model, c.Cores, arrival[first][1], arrival[first][0], first, head)}
	}
	return vh.Verdict{OK: true, Obs: obs}
}
