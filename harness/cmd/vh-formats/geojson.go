package main

// C32: GeoJSON geometry marshal/unmarshal and feature-collection import.
//
// A case is a feature collection STRUCTURE enumerated by TLC from spec/GeoJSONShape.tla (geometry kind,
// part/ring counts, ring lengths as lists of abstract vertex numbers 1..n with the GeoJSON closing
// duplicate, a property-map class) together with the features the abstract import rule of the spec
// produces (one per handled GeoJSON feature, ID = index, polygon rings WITHOUT the closing duplicate).
// The adapter gives every abstract vertex a coordinate (place, orientation, seed), and checks on the
// real code
//   (a) json.Marshal -> json.Unmarshal / geojson.Unmarshal of every geometry, feature and the
//       collection reproduces kind, structure and every coordinate exactly; the marshalled text read by
//       a generic JSON parser has [lng, lat] leaves; hand-written GeoJSON text unmarshals to the same;
//   (b) AddFeatures.FillFromGeoJSON + Apply on a mutable world yields exactly the expected features
//       (geometry within 1e-9 degrees, polygon loops as vertex cycles, properties as tags).

import (
	"encoding/json"
	"fmt"
	"math"
	"strconv"
	"strings"

	"diagonal.works/b6"
	"diagonal.works/b6/geojson"
	"diagonal.works/b6/ingest"
	"github.com/golang/geo/s2"
	"verif/harness/vh"
)

type gjFeature struct {
	Kind  string          `json:"kind"`
	G     json.RawMessage `json:"g"`
	Props string          `json:"props"`
}

type gjExpect struct {
	T  string          `json:"t"` // point, path, area, skip
	ID uint64          `json:"id"`
	G  json.RawMessage `json:"g"`
}

type gjCase struct {
	ID      int         `json:"id"`
	FC      []gjFeature `json:"fc"`
	Expect  []gjExpect  `json:"expect"`
	Place   string      `json:"place"`
	Orient  string      `json:"orient"` // rfc, rev, ccw
	Seed    int64       `json:"seed"`
	World   string      `json:"world"` // basic, overlay
	Single  bool        `json:"single"` // import fc[0] as a *geojson.Feature instead of a collection
	Corrupt bool        `json:"corrupt"` // binding self-test: expect a moved vertex
}

var places = map[string][2]float64{ // lat, lng
	"london":       {51.53, -0.12},
	"sydney":       {-33.87, 151.21},
	"origin":       {0.0002, -0.0003},
	"arctic":       {84.5, 20.25},
	"antimeridian": {-17.8, 179.9995}, // rings of the first feature straddle the antimeridian (longitudes wrap to -180..)
}

// wrapLng brings a longitude beyond +180 back into the range, as GeoJSON writes coordinates across the antimeridian.
func wrapLng(lng float64) float64 {
	if lng > 180 {
		return lng - 360
	}
	return lng
}

var floatClasses = [][2]float64{ // lat, lng pairs for the marshal half only
	{0, 0}, {90, 180}, {-90, -180}, {1e-7, -1e-7}, {0.1 + 0.2, 1.0 / 3.0}, {5e-324, -5e-324},
	{1.7976931348623157e308, -1.7976931348623157e308}, {1e21, 1e-21}, {123456789.123456789, -0.000001},
	{math.Copysign(0, -1), 0}, {51.123456789, -0.123456789}, {1e20, 1e22}, {2.2250738585072014e-308, 4.9406564584124654e-324},
}

var propClasses = map[string]map[string]string{
	"none":  nil,
	"empty": {},
	"one":   {"name": "x"},
	"two":   {"highway": "primary", "name": "Ünï ☃ \"q\" <&> \\ /"},
	"idx":   {"#amenity": "cafe", "@source": "survey", "note": "", "a b": "c=d"},
}

func hash3(a, b, c, d, e int64) int64 {
	h := uint64(1469598103934665603)
	for _, v := range []int64{a, b, c, d, e} {
		h ^= uint64(v)
		h *= 1099511628211
		h ^= h >> 29
	}
	return int64(h % 1000)
}

type placer struct {
	c *gjCase
}

// ring vertex v (1..n) of ring ri of polygon pi of feature fi
func (p placer) ringVertex(fi, pi, ri, v, n int) geojson.Coordinate {
	if p.c.Place == "floats" {
		f := floatClasses[(fi*7+pi*5+ri*3+v+int(p.c.Seed))%len(floatClasses)]
		return geojson.Coordinate{Lat: f[0], Lng: f[1]}
	}
	base := places[p.c.Place]
	const R = 0.001
	clat := base[0] + float64(fi)*0.01 + 0
	clng := base[1] + float64(fi)*0.01 + float64(pi)*0.003
	r := R
	ccw := true
	switch p.c.Orient {
	case "rfc":
		ccw = ri == 0
	case "rev":
		ccw = ri != 0
	}
	if ri > 0 {
		a := float64(ri-1) * 2 * math.Pi / 3
		clat += 0.2 * R * math.Sin(a)
		clng += 0.2 * R * math.Cos(a)
		r = 0.08 * R
	}
	theta := 2*math.Pi*float64(v-1)/float64(n) + 0.3 + float64(p.c.Seed%7)*0.1
	if !ccw {
		theta = -theta
	}
	j := float64(hash3(int64(fi), int64(pi), int64(ri), int64(v), p.c.Seed)) * 1e-9
	return geojson.Coordinate{Lat: clat + r*math.Sin(theta) + j, Lng: wrapLng(clng + r*math.Cos(theta) - j)}
}

// vertex v of line/multipoint part pi of feature fi
func (p placer) lineVertex(fi, pi, v int) geojson.Coordinate {
	if p.c.Place == "floats" {
		f := floatClasses[(fi*7+pi*5+v+int(p.c.Seed))%len(floatClasses)]
		return geojson.Coordinate{Lat: f[0], Lng: f[1]}
	}
	base := places[p.c.Place]
	j := float64(hash3(int64(fi), int64(pi), 99, int64(v), p.c.Seed)) * 1e-9
	return geojson.Coordinate{
		Lat: base[0] + float64(fi)*0.01 + float64(pi)*0.002 + float64(v%2)*0.0004 + j,
		Lng: wrapLng(base[1] + float64(fi)*0.01 + float64(v)*0.0005 - j),
	}
}

func maxOf(vs []int) int {
	m := 0
	for _, v := range vs {
		if v > m {
			m = v
		}
	}
	return m
}

func (p placer) ring(fi, pi, ri int, vs []int) []geojson.Coordinate {
	n := maxOf(vs)
	out := make([]geojson.Coordinate, len(vs))
	for i, v := range vs {
		out[i] = p.ringVertex(fi, pi, ri, v, n)
	}
	return out
}

func (p placer) line(fi, pi int, vs []int) []geojson.Coordinate {
	out := make([]geojson.Coordinate, len(vs))
	for i, v := range vs {
		out[i] = p.lineVertex(fi, pi, v)
	}
	return out
}

func (p placer) geometry(fi int, f *gjFeature) (geojson.Coordinates, string, error) {
	switch f.Kind {
	case "Point":
		var v int
		if err := json.Unmarshal(f.G, &v); err != nil {
			return nil, "", err
		}
		return geojson.Point(p.lineVertex(fi, 0, v)), "1", nil
	case "MultiPoint", "LineString":
		var vs []int
		if err := json.Unmarshal(f.G, &vs); err != nil {
			return nil, "", err
		}
		if f.Kind == "MultiPoint" {
			return geojson.MultiPoint(p.line(fi, 0, vs)), vh.Canon(vs), nil
		}
		return geojson.LineString(p.line(fi, 0, vs)), vh.Canon(vs), nil
	case "MultiLineString", "Polygon":
		var vss [][]int
		if err := json.Unmarshal(f.G, &vss); err != nil {
			return nil, "", err
		}
		out := make([][]geojson.Coordinate, len(vss))
		for i, vs := range vss {
			if f.Kind == "Polygon" {
				out[i] = p.ring(fi, 0, i, vs)
			} else {
				out[i] = p.line(fi, i, vs)
			}
		}
		if f.Kind == "Polygon" {
			return geojson.Polygon(out), vh.Canon(vss), nil
		}
		return geojson.MultiLineString(out), vh.Canon(vss), nil
	case "MultiPolygon":
		var vsss [][][]int
		if err := json.Unmarshal(f.G, &vsss); err != nil {
			return nil, "", err
		}
		out := make([][][]geojson.Coordinate, len(vsss))
		for i, vss := range vsss {
			out[i] = make([][]geojson.Coordinate, len(vss))
			for j, vs := range vss {
				out[i][j] = p.ring(fi, i, j, vs)
			}
		}
		return geojson.MultiPolygon(out), vh.Canon(vsss), nil
	}
	return nil, "", fmt.Errorf("unknown kind %q", f.Kind)
}

// shape: nested lengths and the flattened coordinates of any geojson.Coordinates value
func flatten(c geojson.Coordinates) (string, []geojson.Coordinate, string) {
	switch g := c.(type) {
	case geojson.Point:
		return "pt", []geojson.Coordinate{geojson.Coordinate(g)}, "Point"
	case geojson.MultiPoint:
		return fmt.Sprint(len(g)), []geojson.Coordinate(g), "MultiPoint"
	case geojson.LineString:
		return fmt.Sprint(len(g)), []geojson.Coordinate(g), "LineString"
	case geojson.MultiLineString:
		s, cs := flatten2([][]geojson.Coordinate(g))
		return s, cs, "MultiLineString"
	case geojson.Polygon:
		s, cs := flatten2([][]geojson.Coordinate(g))
		return s, cs, "Polygon"
	case geojson.MultiPolygon:
		var parts []string
		var cs []geojson.Coordinate
		for _, poly := range g {
			s, c2 := flatten2(poly)
			parts = append(parts, s)
			cs = append(cs, c2...)
		}
		return "{" + strings.Join(parts, ";") + "}", cs, "MultiPolygon"
	case nil:
		return "nil", nil, "nil"
	}
	return fmt.Sprintf("%T", c), nil, fmt.Sprintf("%T", c)
}

func flatten2(g [][]geojson.Coordinate) (string, []geojson.Coordinate) {
	var parts []string
	var cs []geojson.Coordinate
	for _, l := range g {
		parts = append(parts, fmt.Sprint(len(l)))
		cs = append(cs, l...)
	}
	return "[" + strings.Join(parts, ",") + "]", cs
}

func sameFloat(a, b float64) bool {
	return a == b && math.Signbit(a) == math.Signbit(b)
}

// sameCoordinates compares kind, structure and every coordinate exactly.
func sameCoordinates(want, got geojson.Coordinates) string {
	ws, wc, wk := flatten(want)
	gs, gc, gk := flatten(got)
	if wk != gk {
		return fmt.Sprintf("kind %s became %s", wk, gk)
	}
	if ws != gs {
		return fmt.Sprintf("structure %s became %s", ws, gs)
	}
	for i := range wc {
		if !sameFloat(wc[i].Lat, gc[i].Lat) || !sameFloat(wc[i].Lng, gc[i].Lng) {
			return fmt.Sprintf("coordinate %d: lat,lng %v,%v became %v,%v", i, wc[i].Lat, wc[i].Lng, gc[i].Lat, gc[i].Lng)
		}
	}
	return ""
}

// leaves of a generic JSON coordinates value, depth first
func leaves(v interface{}, out *[][]float64) bool {
	a, ok := v.([]interface{})
	if !ok {
		return false
	}
	if len(a) > 0 {
		if _, isNum := a[0].(float64); isNum {
			var l []float64
			for _, x := range a {
				f, ok := x.(float64)
				if !ok {
					return false
				}
				l = append(l, f)
			}
			*out = append(*out, l)
			return true
		}
	}
	for _, x := range a {
		if !leaves(x, out) {
			return false
		}
	}
	return true
}

func fmtFloat(f float64) string { return strconv.FormatFloat(f, 'g', -1, 64) }

// handText writes GeoJSON text for a geometry without using the package under test.
func handText(kind string, c geojson.Coordinates) string {
	co := func(c geojson.Coordinate) string { return "[" + fmtFloat(c.Lng) + ", " + fmtFloat(c.Lat) + "]" }
	list := func(cs []geojson.Coordinate) string {
		parts := make([]string, len(cs))
		for i, c := range cs {
			parts[i] = co(c)
		}
		return "[" + strings.Join(parts, ",") + "]"
	}
	list2 := func(css [][]geojson.Coordinate) string {
		parts := make([]string, len(css))
		for i, cs := range css {
			parts[i] = list(cs)
		}
		return "[" + strings.Join(parts, ", ") + "]"
	}
	var body string
	switch g := c.(type) {
	case geojson.Point:
		body = co(geojson.Coordinate(g))
	case geojson.MultiPoint:
		body = list(g)
	case geojson.LineString:
		body = list(g)
	case geojson.MultiLineString:
		body = list2(g)
	case geojson.Polygon:
		body = list2(g)
	case geojson.MultiPolygon:
		parts := make([]string, len(g))
		for i, p := range g {
			parts[i] = list2(p)
		}
		body = "[" + strings.Join(parts, ",") + "]"
	}
	return `{"coordinates": ` + body + `, "type": "` + kind + `"}`
}

func gjKey(c *gjCase, phase, kind, shape, class string) string {
	return fmt.Sprintf("%s %s shape=%s place=%s orient=%s: %s", phase, kind, shape, c.Place, c.Orient, class)
}

func sameProps(want map[string]string, got map[string]string) bool {
	if len(want) != len(got) {
		return false
	}
	for k, v := range want {
		if g, ok := got[k]; !ok || g != v {
			return false
		}
	}
	return true
}

func degClose(a, b float64) bool { return math.Abs(a-b) <= 1e-9 }

func llClose(p s2.Point, c geojson.Coordinate) bool {
	ll := s2.LatLngFromPoint(p)
	return degClose(ll.Lat.Degrees(), c.Lat) && degClose(ll.Lng.Degrees(), c.Lng)
}

// cycleMatch: do the loop vertices equal the ring vertices as a cycle (any rotation, either direction)?
func cycleMatch(loop []s2.Point, ring []geojson.Coordinate) bool {
	n := len(ring)
	if len(loop) != n {
		return false
	}
	if n == 0 {
		return true
	}
	for rot := 0; rot < n; rot++ {
		for _, dir := range []int{1, -1} {
			ok := true
			for i := 0; i < n && ok; i++ {
				ok = llClose(loop[((rot+dir*i)%n+n)%n], ring[i])
			}
			if ok {
				return true
			}
		}
	}
	return false
}

func fmtLoop(loop []s2.Point) string {
	var parts []string
	for _, p := range loop {
		ll := s2.LatLngFromPoint(p)
		parts = append(parts, fmt.Sprintf("%.7f,%.7f", ll.Lat.Degrees(), ll.Lng.Degrees()))
	}
	return "[" + strings.Join(parts, " ") + "]"
}

func runGeoJSON(data json.RawMessage) vh.Verdict {
	var c gjCase
	if err := json.Unmarshal(data, &c); err != nil {
		return vh.Fail("harness-json", "bad case: %v", err)
	}
	if _, ok := places[c.Place]; !ok && c.Place != "floats" {
		return vh.Fail("harness-json", "unknown place %q", c.Place)
	}
	p := placer{&c}
	stats := map[string]int{}
	fc := geojson.NewFeatureCollection()
	shapes := make([]string, len(c.FC))
	for fi := range c.FC {
		coords, shape, err := p.geometry(fi, &c.FC[fi])
		if err != nil {
			return vh.Fail("harness-json", "bad geometry: %v", err)
		}
		shapes[fi] = shape
		props, ok := propClasses[c.FC[fi].Props]
		if !ok {
			return vh.Fail("harness-json", "unknown props class %q", c.FC[fi].Props)
		}
		f := &geojson.Feature{Type: "Feature", Geometry: geojson.GeometryFromCoordinates(coords), Properties: props}
		fc.AddFeature(f)
	}

	var deferred []vh.Verdict // failures after which the remaining comparisons are still meaningful
	// ---------------- (a) marshal / unmarshal
	for fi, f := range fc.Features {
		kind, shape := c.FC[fi].Kind, shapes[fi]
		g := f.Geometry
		text, err := json.Marshal(g)
		if err != nil {
			return vh.Verdict{OK: false, Key: gjKey(&c, "marshal", kind, shape, "error"), Msg: err.Error()}
		}
		// generic reading of the text: type and [lng, lat] leaves
		var generic struct {
			Type        string      `json:"type"`
			Coordinates interface{} `json:"coordinates"`
		}
		if err := json.Unmarshal(text, &generic); err != nil {
			return vh.Verdict{OK: false, Key: gjKey(&c, "marshal", kind, shape, "not-json"), Msg: fmt.Sprintf("%v: %s", err, text)}
		}
		if generic.Type != kind {
			return vh.Verdict{OK: false, Key: gjKey(&c, "marshal", kind, shape, "type"), Msg: fmt.Sprintf("type %q in %s", generic.Type, text)}
		}
		_, want, _ := flatten(g.Coordinates)
		var ls [][]float64
		if generic.Coordinates != nil && !leaves(generic.Coordinates, &ls) {
			return vh.Verdict{OK: false, Key: gjKey(&c, "marshal", kind, shape, "coordinates-not-arrays"), Msg: string(text)}
		}
		if kind == "Point" && len(ls) == 0 {
			// a Point's coordinates are the leaf itself
			leaves([]interface{}{generic.Coordinates}, &ls)
		}
		if len(ls) != len(want) {
			return vh.Verdict{OK: false, Key: gjKey(&c, "marshal", kind, shape, "leaf-count"), Msg: fmt.Sprintf("%d positions in the text, %d coordinates: %s", len(ls), len(want), text)}
		}
		for i := range ls {
			if len(ls[i]) != 2 || !sameFloat(ls[i][0], want[i].Lng) || !sameFloat(ls[i][1], want[i].Lat) {
				return vh.Verdict{OK: false, Key: gjKey(&c, "marshal", kind, shape, "position-not-lng-lat"), Msg: fmt.Sprintf("position %d is %v, coordinate lng=%v lat=%v: %s", i, ls[i], want[i].Lng, want[i].Lat, text)}
			}
		}
		// json.Unmarshal into a Geometry
		var back geojson.Geometry
		if err := json.Unmarshal(text, &back); err != nil {
			return vh.Verdict{OK: false, Key: gjKey(&c, "roundtrip json.Unmarshal", kind, shape, "error"), Msg: fmt.Sprintf("%v: %s", err, text)}
		}
		if back.Type != kind {
			return vh.Verdict{OK: false, Key: gjKey(&c, "roundtrip json.Unmarshal", kind, shape, "type"), Msg: back.Type}
		}
		if d := sameCoordinates(g.Coordinates, back.Coordinates); d != "" {
			return vh.Verdict{OK: false, Key: gjKey(&c, "roundtrip json.Unmarshal", kind, shape, "coordinates"), Msg: d + ": " + string(text)}
		}
		stats["geometry_roundtrips"]++
		// hand-written text
		var hand geojson.Geometry
		ht := handText(kind, g.Coordinates)
		if err := json.Unmarshal([]byte(ht), &hand); err != nil {
			return vh.Verdict{OK: false, Key: gjKey(&c, "unmarshal text", kind, shape, "error"), Msg: fmt.Sprintf("%v: %s", err, ht)}
		}
		if d := sameCoordinates(g.Coordinates, hand.Coordinates); d != "" {
			return vh.Verdict{OK: false, Key: gjKey(&c, "unmarshal text", kind, shape, "coordinates"), Msg: d + ": " + ht}
		}
		// the package's own entry point for any GeoJSON object
		if parsed, err := geojson.Unmarshal(text); err != nil {
			// reported at the end: everything else is still compared
			deferred = append(deferred, vh.Verdict{OK: false, Key: fmt.Sprintf("geojson.Unmarshal rejects a %s geometry", kind), Msg: fmt.Sprintf("%v: %s", err, text)})
		} else if pg, ok := parsed.(*geojson.Geometry); !ok {
			return vh.Verdict{OK: false, Key: gjKey(&c, "roundtrip geojson.Unmarshal", kind, shape, "not-a-geometry"), Msg: fmt.Sprintf("%T", parsed)}
		} else if d := sameCoordinates(g.Coordinates, pg.Coordinates); d != "" {
			return vh.Verdict{OK: false, Key: gjKey(&c, "roundtrip geojson.Unmarshal", kind, shape, "coordinates"), Msg: d}
		}
		// the same object with its members in another order (sorted by name, so "coordinates" comes before "type")
		if st, err := sortedMembers(text); err != nil {
			return vh.Fail("harness-json", "%v", err)
		} else if parsed, err := geojson.Unmarshal(st); err != nil {
			if len(deferred) == 0 {
				return vh.Verdict{OK: false, Key: gjKey(&c, "member order geometry", kind, shape, "error"), Msg: fmt.Sprintf("%v: %s", err, st)}
			}
		} else if pg, ok := parsed.(*geojson.Geometry); !ok {
			return vh.Verdict{OK: false, Key: gjKey(&c, "member order geometry", kind, shape, "not-a-geometry"), Msg: fmt.Sprintf("%T from %s", parsed, st)}
		} else if d := sameCoordinates(g.Coordinates, pg.Coordinates); d != "" {
			return vh.Verdict{OK: false, Key: gjKey(&c, "member order geometry", kind, shape, "coordinates"), Msg: d}
		}
		// the feature
		ftext, err := json.Marshal(f)
		if err != nil {
			return vh.Verdict{OK: false, Key: gjKey(&c, "marshal feature", kind, shape, "error"), Msg: err.Error()}
		}
		pf, err := geojson.Unmarshal(ftext)
		if err != nil {
			return vh.Verdict{OK: false, Key: gjKey(&c, "roundtrip feature", kind, shape, "error"), Msg: fmt.Sprintf("%v: %s", err, ftext)}
		}
		bf, ok := pf.(*geojson.Feature)
		if !ok {
			return vh.Verdict{OK: false, Key: gjKey(&c, "roundtrip feature", kind, shape, "not-a-feature"), Msg: fmt.Sprintf("%T", pf)}
		}
		if d := sameCoordinates(g.Coordinates, bf.Geometry.Coordinates); d != "" {
			return vh.Verdict{OK: false, Key: gjKey(&c, "roundtrip feature", kind, shape, "coordinates"), Msg: d}
		}
		if !sameProps(f.Properties, bf.Properties) {
			return vh.Verdict{OK: false, Key: gjKey(&c, "roundtrip feature", kind, "props="+c.FC[fi].Props, "properties"), Msg: fmt.Sprintf("%q became %q", f.Properties, bf.Properties)}
		}
		// members sorted by name: "geometry" (with its own "type") comes before the feature's "type"
		if st, err := sortedMembers(ftext); err != nil {
			return vh.Fail("harness-json", "%v", err)
		} else if pf2, err := geojson.Unmarshal(st); err != nil {
			return vh.Verdict{OK: false, Key: gjKey(&c, "member order feature", kind, shape, "error"), Msg: fmt.Sprintf("%v: %s", err, st)}
		} else if bf2, ok := pf2.(*geojson.Feature); !ok {
			return vh.Verdict{OK: false, Key: gjKey(&c, "member order feature", kind, shape, "not-a-feature"), Msg: fmt.Sprintf("%T from %s", pf2, st)}
		} else if d := sameCoordinates(g.Coordinates, bf2.Geometry.Coordinates); d != "" {
			return vh.Verdict{OK: false, Key: gjKey(&c, "member order feature", kind, shape, "coordinates"), Msg: d}
		} else if !sameProps(f.Properties, bf2.Properties) {
			return vh.Verdict{OK: false, Key: gjKey(&c, "member order feature", kind, "props="+c.FC[fi].Props, "properties"), Msg: fmt.Sprintf("%q became %q", f.Properties, bf2.Properties)}
		}
		stats["feature_roundtrips"]++
	}
	ctext, err := json.Marshal(fc)
	if err != nil {
		return vh.Verdict{OK: false, Key: gjKey(&c, "marshal collection", "-", vh.Canon(shapes), "error"), Msg: err.Error()}
	}
	parsed, err := geojson.Unmarshal(ctext)
	if err != nil {
		return vh.Verdict{OK: false, Key: gjKey(&c, "roundtrip collection", "-", vh.Canon(shapes), "error"), Msg: fmt.Sprintf("%v: %s", err, ctext)}
	}
	back, ok := parsed.(*geojson.FeatureCollection)
	if !ok || len(back.Features) != len(fc.Features) {
		return vh.Verdict{OK: false, Key: gjKey(&c, "roundtrip collection", "-", vh.Canon(shapes), "feature-count"), Msg: fmt.Sprintf("%T", parsed)}
	}
	for fi := range fc.Features {
		if d := sameCoordinates(fc.Features[fi].Geometry.Coordinates, back.Features[fi].Geometry.Coordinates); d != "" {
			return vh.Verdict{OK: false, Key: gjKey(&c, "roundtrip collection", c.FC[fi].Kind, shapes[fi], "coordinates"), Msg: d}
		}
		if !sameProps(fc.Features[fi].Properties, back.Features[fi].Properties) {
			return vh.Verdict{OK: false, Key: gjKey(&c, "roundtrip collection", c.FC[fi].Kind, "props="+c.FC[fi].Props, "properties"), Msg: fmt.Sprintf("%q became %q", fc.Features[fi].Properties, back.Features[fi].Properties)}
		}
	}
	// members sorted by name: "features" comes before the collection's "type"
	if st, err := sortedMembers(ctext); err != nil {
		return vh.Fail("harness-json", "%v", err)
	} else if p2, err := geojson.Unmarshal(st); err != nil {
		return vh.Verdict{OK: false, Key: gjKey(&c, "member order collection", "-", vh.Canon(shapes), "error"), Msg: fmt.Sprintf("%v: %s", err, st)}
	} else if back2, ok := p2.(*geojson.FeatureCollection); !ok || len(back2.Features) != len(fc.Features) {
		return vh.Verdict{OK: false, Key: gjKey(&c, "member order collection", "-", vh.Canon(shapes), "feature-count"), Msg: fmt.Sprintf("%T from %s", p2, trim(string(st), 300))}
	} else {
		for fi := range fc.Features {
			if d := sameCoordinates(fc.Features[fi].Geometry.Coordinates, back2.Features[fi].Geometry.Coordinates); d != "" {
				return vh.Verdict{OK: false, Key: gjKey(&c, "member order collection", c.FC[fi].Kind, shapes[fi], "coordinates"), Msg: d}
			}
		}
	}
	stats["collection_roundtrips"]++
	if c.Place == "floats" {
		if len(deferred) > 0 {
			deferred[0].Stats = stats
			return deferred[0]
		}
		return vh.Verdict{OK: true, Stats: stats}
	}

	// ---------------- (b) import (from the collection as read back from its text)
	const ns = b6.Namespace("verif.test/geojson")
	var change ingest.AddFeatures
	if c.Single {
		change.FillFromGeoJSON(back.Features[0], ns)
	} else {
		change.FillFromGeoJSON(back, ns)
	}
	handled := 0
	for _, e := range c.Expect {
		if e.T != "skip" {
			handled++
		}
	}
	for fi, e := range c.Expect {
		if e.T == "skip" {
			stats["unhandled_kind_"+c.FC[fi].Kind]++ // reported, not asserted (see DESIGN C32)
		}
	}
	if len(change) != handled {
		return vh.Verdict{OK: false, Key: gjKey(&c, "import", "-", vh.Canon(shapes), "feature-count"), Msg: fmt.Sprintf("%d features in the change, %d importable GeoJSON features", len(change), handled)}
	}
	var w ingest.MutableWorld
	if c.World == "overlay" {
		w = ingest.NewMutableOverlayWorld(b6.EmptyWorld{})
	} else {
		w = ingest.NewBasicMutableWorld()
	}
	if _, err := change.Apply(w); err != nil {
		return vh.Verdict{OK: false, Key: gjKey(&c, "import", "-", vh.Canon(shapes), "apply-error"), Msg: err.Error()}
	}
	var closingDup *vh.Verdict // every other comparison is still made; this one is reported last
	for fi, e := range c.Expect {
		if e.T == "skip" {
			continue
		}
		kind, shape := c.FC[fi].Kind, shapes[fi]
		var id b6.FeatureID
		switch e.T {
		case "point":
			id = b6.FeatureID{Type: b6.FeatureTypePoint, Namespace: ns, Value: e.ID}
		case "path":
			id = b6.FeatureID{Type: b6.FeatureTypePath, Namespace: ns, Value: e.ID}
		case "area":
			id = b6.FeatureID{Type: b6.FeatureTypeArea, Namespace: ns, Value: e.ID}
		}
		f := w.FindFeatureByID(id)
		if f == nil {
			return vh.Verdict{OK: false, Key: gjKey(&c, "import", kind, shape, "feature-missing"), Msg: fmt.Sprintf("no feature %s after the import", id)}
		}
		// properties
		got := map[string]string{}
		ntags := 0
		for _, t := range f.AllTags() {
			if t.Key == b6.PointTag || t.Key == b6.PathTag {
				continue
			}
			got[t.Key] = t.Value.String()
			ntags++
		}
		want := propClasses[c.FC[fi].Props]
		if ntags != len(want) || !sameProps(want, got) {
			return vh.Verdict{OK: false, Key: gjKey(&c, "import", kind, "props="+c.FC[fi].Props, "properties"), Msg: fmt.Sprintf("%s: properties %q became tags %q", id, want, got)}
		}
		// geometry
		shift := 0.0
		if c.Corrupt {
			shift = 1e-6
		}
		switch e.T {
		case "point":
			var v int
			json.Unmarshal(e.G, &v)
			wantC := p.lineVertex(fi, 0, v)
			wantC.Lat += shift
			pf, ok := f.(b6.PhysicalFeature)
			if !ok || !llClose(pf.Point(), wantC) {
				return vh.Verdict{OK: false, Key: gjKey(&c, "import", kind, shape, "point-location"), Msg: fmt.Sprintf("%s: want %v,%v got %v", id, wantC.Lat, wantC.Lng, fmtLoop([]s2.Point{pf.Point()}))}
			}
		case "path":
			var vs []int
			json.Unmarshal(e.G, &vs)
			wantL := p.line(fi, 0, vs)
			if len(wantL) > 0 {
				wantL[0].Lat += shift
			}
			pf, ok := f.(b6.PhysicalFeature)
			if !ok {
				return vh.Verdict{OK: false, Key: gjKey(&c, "import", kind, shape, "not-physical"), Msg: fmt.Sprintf("%T", f)}
			}
			if pf.GeometryLen() != len(wantL) {
				return vh.Verdict{OK: false, Key: gjKey(&c, "import", kind, shape, "path-length"), Msg: fmt.Sprintf("%s: %d points, line string has %d", id, pf.GeometryLen(), len(wantL))}
			}
			for i := range wantL {
				if !llClose(pf.PointAt(i), wantL[i]) {
					return vh.Verdict{OK: false, Key: gjKey(&c, "import", kind, shape, "path-vertex"), Msg: fmt.Sprintf("%s: vertex %d want %v,%v got %s", id, i, wantL[i].Lat, wantL[i].Lng, fmtLoop([]s2.Point{pf.PointAt(i)}))}
				}
			}
		case "area":
			var vsss [][][]int
			json.Unmarshal(e.G, &vsss)
			af, ok := f.(b6.AreaFeature)
			if !ok {
				return vh.Verdict{OK: false, Key: gjKey(&c, "import", kind, shape, "not-an-area"), Msg: fmt.Sprintf("%T", f)}
			}
			if af.Len() != len(vsss) {
				return vh.Verdict{OK: false, Key: gjKey(&c, "import", kind, shape, "polygon-count"), Msg: fmt.Sprintf("%s: %d polygons, want %d", id, af.Len(), len(vsss))}
			}
			for pi, vss := range vsss {
				poly := af.Polygon(pi)
				if poly == nil {
					return vh.Verdict{OK: false, Key: gjKey(&c, "import", kind, shape, "polygon-nil"), Msg: fmt.Sprintf("%s polygon %d is nil", id, pi)}
				}
				if poly.NumLoops() != len(vss) {
					return vh.Verdict{OK: false, Key: gjKey(&c, "import", kind, shape, "loop-count"), Msg: fmt.Sprintf("%s polygon %d: %d loops, want %d", id, pi, poly.NumLoops(), len(vss))}
				}
				used := make([]bool, poly.NumLoops())
				for ri, vs := range vss {
					wantR := p.ring(fi, pi, ri, vs)
					if len(wantR) > 0 {
						wantR[0].Lat += shift
					}
					found := false
					for li := 0; li < poly.NumLoops() && !found; li++ {
						if !used[li] && cycleMatch(poly.Loop(li).Vertices(), wantR) {
							used[li] = true
							found = true
						}
					}
					if found {
						continue
					}
					// the one signature already confirmed in the unchanged tree: the loop is the GeoJSON ring
					// *including* its closing duplicate (n+1 vertices, a zero-length edge)
					for li := 0; li < poly.NumLoops(); li++ {
						vsx := poly.Loop(li).Vertices()
						if used[li] || len(vsx) != len(wantR)+1 {
							continue
						}
						for k := range vsx {
							if vsx[k] == vsx[(k+1)%len(vsx)] {
								without := append(append([]s2.Point{}, vsx[:k]...), vsx[k+1:]...)
								if !found && cycleMatch(without, wantR) {
									used[li] = true
									found = true
									if closingDup == nil {
										closingDup = &vh.Verdict{OK: false, Key: "import-" + kind + "-ring-keeps-closing-vertex",
											Msg: fmt.Sprintf("%s polygon %d ring %d: the S2 loop has %d vertices %s: the ring's %d distinct vertices plus the GeoJSON closing duplicate (Validate: %v)", id, pi, ri, len(vsx), fmtLoop(vsx), len(wantR), poly.Loop(li).Validate())}
									}
								}
							}
						}
					}
					if found {
						continue
					}
					var all []string
					for li := 0; li < poly.NumLoops(); li++ {
						all = append(all, fmtLoop(poly.Loop(li).Vertices()))
					}
					return vh.Verdict{OK: false, Key: gjKey(&c, "import", kind, shape, "ring-vertices"), Msg: fmt.Sprintf("%s polygon %d ring %d: no loop with these %d vertices; loops: %s", id, pi, ri, len(wantR), strings.Join(all, " "))}
				}
				// which side of the rings is inside: the polygon's area is the outer ring's minus the holes'
				// (computed from the expected vertices with s2, independently of the importer)
				if len(vss) > 0 && !c.Corrupt {
					wantArea := 0.0
					for ri, vs := range vss {
						ring := p.ring(fi, pi, ri, vs)
						pts := make([]s2.Point, len(ring))
						for k := range ring {
							pts[k] = ring[k].ToS2Point()
						}
						l := s2.LoopFromPoints(pts)
						a := l.Area()
						if a > 2*math.Pi {
							a = 4*math.Pi - a
						}
						if ri == 0 {
							wantArea += a
						} else {
							wantArea -= a
						}
					}
					if got := poly.Area(); math.Abs(got-wantArea) > 1e-3*wantArea {
						return vh.Verdict{OK: false, Key: gjKey(&c, "import", kind, shape, "polygon-area"), Msg: fmt.Sprintf("%s polygon %d covers %.6g steradians, the rings enclose %.6g (inside and outside confused?)", id, pi, got, wantArea)}
					}
				}
			}
		}
		stats["features_imported_and_compared"]++
	}
	if closingDup != nil {
		deferred = append(deferred, *closingDup)
	}
	if len(deferred) > 0 {
		deferred[0].Stats = stats
		return deferred[0]
	}
	return vh.Verdict{OK: true, Stats: stats}
}

// sortedMembers re-writes a JSON text with the members of every object sorted by name (numbers keep their text).
func sortedMembers(text []byte) ([]byte, error) {
	d := json.NewDecoder(strings.NewReader(string(text)))
	d.UseNumber()
	var v interface{}
	if err := d.Decode(&v); err != nil {
		return nil, err
	}
	return json.Marshal(v)
}

func trim(s string, n int) string {
	if len(s) > n {
		return s[:n] + "..."
	}
	return s
}
