// vh-store: executes the behaviours enumerated by spec/Store.tla on the real containers of package
// encoding and compares what is read with the abstract store (property C09).
//
//	adapters: ints (delta / zigzag / fixed-width integer sequences), strings (StringTableBuilder),
//	          bytes (ByteArraysBuilder), map (Uint64MapBuilder / Uint64Map)
package main

import (
	"bytes"
	"encoding/json"
	"fmt"
	"math/rand"
	"sort"
	"strings"
	"sync"

	"diagonal.works/b6/encoding"
	"verif/harness/vh"
)

type entry struct {
	K int             `json:"k"`
	G json.RawMessage `json:"g"` // tag (int) for kv, class (string) for seq
}

func (e entry) tag() int {
	var n int
	json.Unmarshal(e.G, &n)
	return n
}
func (e entry) class() string {
	var s string
	json.Unmarshal(e.G, &s)
	return s
}

type storeCase struct {
	ID      int     `json:"id"`
	Entries []entry `json:"entries"`
	Res     []int   `json:"res"`
	Fin     string  `json:"fin"`
	Wr      []int   `json:"wr"`
	Store   [][]int `json:"store"` // key-1 -> entry indices (1-based) in write order
	// concretisation chosen by the check (tools/props/C09.py)
	Variant   int      `json:"variant"`
	Sizes     []string `json:"sizes"`     // per entry: size class of its data
	Items     int      `json:"items"`     // bytes: number of items of the builder (>= number of keys)
	Offset    int      `json:"offset"`    // where the container starts in the output
	Merge     bool     `json:"merge"`     // bytes: reserve the total of a key with one call
	Split     int      `json:"split"`     // bytes: number of buffers handed to one WriteItem
	B         int      `json:"b"`         // map: bucket bits
	T         int      `json:"t"`         // map: tag bits
	KeyClass  []string `json:"keyclass"`  // map: per key, the class of its uint64 ID
	SameLow   bool     `json:"samelow"`   // map: all IDs share their low bits (=> share a bucket)
}

type fail struct {
	Key  string `json:"key"`
	What string `json:"what"`
}

type failures struct {
	list []fail
	seen map[string]bool
}

func (f *failures) add(key, format string, args ...interface{}) {
	if f.seen == nil {
		f.seen = map[string]bool{}
	}
	if f.seen[key] || len(f.list) >= 6 {
		return
	}
	f.seen[key] = true
	f.list = append(f.list, fail{Key: key, What: fmt.Sprintf(format, args...)})
}

func (f *failures) verdict(stats map[string]int) vh.Verdict {
	if len(f.list) == 0 {
		return vh.Verdict{OK: true, Stats: stats}
	}
	return vh.Verdict{OK: false, Key: f.list[0].Key, Msg: f.list[0].What, Obs: map[string]interface{}{"failures": f.list}, Stats: stats}
}

// ---------------------------------------------------------------------------------- value classes

var classRange = map[string][2]uint64{
	"zero":  {0, 0},
	"one":   {1, 1},
	"small": {2, 1<<31 - 1},
	"bit31": {1 << 31, 1<<32 - 1},
	"bit32": {1 << 32, 1<<62 - 1},
	"bit62": {1 << 62, 1<<63 - 1},
	"bit63": {1 << 63, 1<<64 - 2},
	"max":   {1<<64 - 1, 1<<64 - 1},
}

// classValue: variant 0 = smallest value of the class, 1 = largest, 2 = seeded random value in it
func classValue(class string, variant int, rng *rand.Rand) (uint64, bool) {
	r, ok := classRange[class]
	if !ok {
		return 0, false
	}
	switch variant % 3 {
	case 0:
		return r[0], true
	case 1:
		return r[1], true
	}
	span := r[1] - r[0]
	if span == 0 {
		return r[0], true
	}
	return r[0] + rng.Uint64()%(span+1), true
}

func classesOf(es []entry) []string {
	var out []string
	for _, e := range es {
		out = append(out, e.class())
	}
	return out
}

// ---------------------------------------------------------------------------------- ints

// bigDelta: the delta coder computes int64(v) - int64(last) (wrapping) and zigzag-codes it
func bigDelta(prev, v uint64) bool {
	d := int64(v) - int64(prev)
	return d >= 1<<62 || d < -(1<<62)
}

func runInts(data json.RawMessage) vh.Verdict {
	var c storeCase
	if err := json.Unmarshal(data, &c); err != nil {
		return vh.Fail("harness-json", "bad case: %v", err)
	}
	rng := rand.New(rand.NewSource(vh.Seed*7919 + int64(c.ID)))
	classes := classesOf(c.Entries)
	vs := make([]uint64, len(classes))
	for i, cl := range classes {
		v, ok := classValue(cl, c.Variant+i, rng)
		if !ok {
			return vh.Fail("harness-class", "unknown class %q", cl)
		}
		vs[i] = v
	}
	// the spec's store: the items of the single key in write order = the sequence itself
	if len(c.Store) > 1 || (len(c.Store) == 1 && len(c.Store[0]) != len(vs)) {
		return vh.Fail("harness-store", "unexpected abstract store %v", c.Store)
	}
	var fs failures
	label := "[" + strings.Join(classes, ",") + "]"
	buf := make([]byte, 10*len(vs)+16)

	// 1. delta coded uint64s
	if p := vh.Catch(func() {
		n := encoding.MarshalDeltaCodedUint64s(vs, buf)
		got, m := encoding.UnmarshalDeltaCodedUint64(make([]uint64, 0, len(vs)), len(vs), buf[:n])
		if m != n {
			fs.add("ints/deltau64 "+label+" consumed", "delta coded uint64s %v: wrote %d bytes, reader consumed %d", vs, n, m)
		}
		for i := range vs {
			if i >= len(got) || got[i] != vs[i] {
				prev := uint64(0)
				if i > 0 {
					prev = vs[i-1]
				}
				if bigDelta(prev, vs[i]) {
					fs.add("ints/deltau64: a delta of magnitude >= 2^62 is decoded wrongly", "delta coded uint64s %v read back as %v (first wrong element %d follows a delta of magnitude >= 2^62)", vs, got, i)
				} else {
					fs.add(fmt.Sprintf("ints/deltau64 %s first-wrong=%d", label, i), "delta coded uint64s %v read back as %v", vs, got)
				}
				break
			}
		}
		if len(got) != len(vs) {
			fs.add("ints/deltau64 "+label+" length", "delta coded uint64s %v read back with %d elements", vs, len(got))
		}
	}); p != "" {
		fs.add("ints/deltau64 "+label+" panic", "delta coded uint64s %v: %s", vs, p)
	}

	// 2. delta coded ints (the same bit patterns as signed values)
	is := make([]int, len(vs))
	for i, v := range vs {
		is[i] = int(int64(v))
	}
	if p := vh.Catch(func() {
		n := encoding.MarshalDeltaCodedInts(is, buf)
		got, m := encoding.UnmarshalDeltaCodedInts(make([]int, 0, len(is)), len(is), buf[:n])
		if m != n {
			fs.add("ints/deltaint "+label+" consumed", "delta coded ints %v: wrote %d bytes, reader consumed %d", is, n, m)
		}
		for i := range is {
			if i >= len(got) || got[i] != is[i] {
				prev := uint64(0)
				if i > 0 {
					prev = vs[i-1]
				}
				if bigDelta(prev, vs[i]) {
					fs.add("ints/deltaint: a delta of magnitude >= 2^62 is decoded wrongly", "delta coded ints %v read back as %v (first wrong element %d follows a delta of magnitude >= 2^62)", is, got, i)
				} else {
					fs.add(fmt.Sprintf("ints/deltaint %s first-wrong=%d", label, i), "delta coded ints %v read back as %v", is, got)
				}
				break
			}
		}
	}); p != "" {
		fs.add("ints/deltaint "+label+" panic", "delta coded ints %v: %s", is, p)
	}

	// 3. zigzag and fixed width, value by value
	for i, v := range vs {
		sv := int64(v)
		if got := encoding.ZigzagDecode(encoding.ZigzagEncode(sv)); got != sv {
			if sv >= 1<<62 || sv < -(1<<62) {
				fs.add("ints/zigzag: a value of magnitude >= 2^62 is decoded wrongly", "ZigzagDecode(ZigzagEncode(%d)) = %d", sv, got)
			} else {
				fs.add("ints/zigzag class="+classes[i], "ZigzagDecode(ZigzagEncode(%d)) = %d", sv, got)
			}
		}
		l := encoding.Uint64Length(v)
		if l < 1 || l > 8 {
			fs.add("ints/fixed length class="+classes[i], "Uint64Length(%d) = %d", v, l)
			continue
		}
		for w := l; w <= 8; w++ {
			var b [9]byte
			b[w] = 0xa5
			encoding.MarshalUint64(v, w, b[:])
			if got := encoding.UnmarshalUint64(w, b[:]); got != v || b[w] != 0xa5 {
				fs.add(fmt.Sprintf("ints/fixed class=%s width=%d(min %d)", classes[i], w, l), "fixed width: %d written with %d bytes (Uint64Length = %d) read back as %d", v, w, l, got)
			}
		}
	}
	return fs.verdict(map[string]int{"values": len(vs)})
}

// ---------------------------------------------------------------------------------- strings

var stringClass = map[string]string{
	"empty": "",
	"a":     "a",
	"ab":    "ab",
	"long":  strings.Repeat("0123456789abcdef", 19), // 304 bytes: needs a 2-byte offset
	"utf8":  "héllo → 世界",
	"nul":   "a\x00b",
}

func runStrings(data json.RawMessage) vh.Verdict {
	var c storeCase
	if err := json.Unmarshal(data, &c); err != nil {
		return vh.Fail("harness-json", "bad case: %v", err)
	}
	classes := classesOf(c.Entries)
	label := "[" + strings.Join(classes, ",") + "]"
	var fs failures
	p := vh.Catch(func() {
		b := encoding.NewStringTableBuilder()
		count := map[string]int{}
		for _, cl := range classes {
			s, ok := stringClass[cl]
			if !ok {
				fs.add("harness-class", "unknown string class %q", cl)
				return
			}
			b.Add(s)
			count[cl]++
		}
		var out encoding.Buffer
		start := encoding.Offset(c.Offset)
		end, err := b.Write(&out, start)
		if err != nil {
			fs.add("strings "+label+" write", "Write: %v", err)
			return
		}
		if int(end-start) != b.Length() {
			fs.add("strings "+label+" length", "Write returned offset %d from %d but Length() = %d", end, start, b.Length())
		}
		if b.NumStrings() != len(count) {
			fs.add("strings "+label+" numstrings", "NumStrings() = %d for %d distinct strings", b.NumStrings(), len(count))
		}
		var zeros [64]byte
		out.WriteAt(zeros[:], int64(end))
		tbl := encoding.NewStringTable(out.Bytes()[start:])
		ids := map[int]string{}
		for cl := range count {
			s := stringClass[cl]
			id := b.Lookup(s)
			if id < 0 || id >= len(count) {
				fs.add("strings "+label+" id-range", "Lookup(%q) = %d with %d strings", s, id, len(count))
				continue
			}
			if other, dup := ids[id]; dup {
				fs.add("strings "+label+" id-dup", "strings %q and %q share id %d", other, s, id)
			}
			ids[id] = cl
			if got := tbl.Lookup(id); got != s {
				fs.add("strings "+label+" lookup class="+cl, "table.Lookup(builder.Lookup(%q)) = %q", s, got)
			}
			if !tbl.Equal(id, s) {
				fs.add("strings "+label+" equal class="+cl, "table.Equal(%d, %q) = false", id, s)
			}
			for o := range count {
				if o != cl && tbl.Equal(id, stringClass[o]) {
					fs.add("strings "+label+" equal-other class="+cl, "table.Equal(%d, %q) = true but the string is %q", id, stringClass[o], s)
				}
			}
		}
	})
	if p != "" {
		fs.add("strings "+label+" panic", "%s", p)
	}
	return fs.verdict(map[string]int{"strings_added": len(classes)})
}

// ---------------------------------------------------------------------------------- chunks of data

var sizeClass = map[string]int{"z": 0, "a": 1, "b": 3, "f": 4, "c": 251, "e": 252, "d": 65280}

// chunk i of a case: recognisable bytes, so that a misplaced or truncated chunk is seen
func chunk(i int, size int) []byte {
	b := make([]byte, size)
	for j := range b {
		b[j] = byte((i*61 + j*7 + 1) % 251)
	}
	return b
}

func (c *storeCase) chunks() ([][]byte, error) {
	if len(c.Sizes) != len(c.Entries) {
		return nil, fmt.Errorf("sizes for %d of %d entries", len(c.Sizes), len(c.Entries))
	}
	out := make([][]byte, len(c.Entries))
	for i, s := range c.Sizes {
		n, ok := sizeClass[s]
		if !ok {
			return nil, fmt.Errorf("unknown size class %q", s)
		}
		out[i] = chunk(i+1, n)
	}
	return out, nil
}

func (c *storeCase) label() string {
	var es []string
	for i, e := range c.Entries {
		es = append(es, fmt.Sprintf("%d:%s%s", e.K, string(e.G), c.Sizes[i]))
	}
	return fmt.Sprintf("entries=[%s] res=%v fin=%s wr=%v", strings.Join(es, " "), c.Res, c.Fin, c.Wr)
}

// ---------------------------------------------------------------------------------- byte arrays

func runBytes(data json.RawMessage) vh.Verdict {
	var c storeCase
	if err := json.Unmarshal(data, &c); err != nil {
		return vh.Fail("harness-json", "bad case: %v", err)
	}
	chunks, err := c.chunks()
	if err != nil {
		return vh.Fail("harness-sizes", "%v", err)
	}
	if c.Items < len(c.Store) {
		c.Items = len(c.Store)
	}
	label := fmt.Sprintf("bytes items=%d offset=%d merge=%v split=%d %s", c.Items, c.Offset, c.Merge, c.Split, c.label())
	var fs failures
	p := vh.Catch(func() {
		b := encoding.NewByteArraysBuilder(c.Items)
		if c.Merge {
			total := map[int]int{}
			for i, e := range c.Entries {
				total[e.K] += len(chunks[i])
			}
			done := map[int]bool{}
			for _, i := range c.Res {
				k := c.Entries[i-1].K
				if !done[k] {
					done[k] = true
					b.Reserve(k-1, total[k])
				}
			}
		} else {
			for _, i := range c.Res {
				b.Reserve(c.Entries[i-1].K-1, len(chunks[i-1]))
			}
		}
		if c.Fin == "explicit" {
			b.FinishReservation()
		}
		var out encoding.Buffer
		start := encoding.Offset(c.Offset)
		end, err := b.WriteHeader(&out, start)
		if err != nil {
			fs.add(label+" header", "WriteHeader: %v", err)
			return
		}
		for _, i := range c.Wr {
			d := chunks[i-1]
			var parts [][]byte
			n := c.Split
			if n < 1 {
				n = 1
			}
			for s := 0; s < n; s++ {
				lo, hi := len(d)*s/n, len(d)*(s+1)/n
				parts = append(parts, d[lo:hi])
			}
			if err := b.WriteItem(&out, c.Entries[i-1].K-1, parts...); err != nil {
				fs.add(label+" write", "WriteItem: %v", err)
				return
			}
		}
		if int(end-start) != b.Length() {
			fs.add(label+" length", "WriteHeader returned end offset %d from %d but Length() = %d", end, start, b.Length())
		}
		// make sure the reader does not depend on what follows the container
		pad := bytes.Repeat([]byte{0xee}, 32)
		out.WriteAt(pad, int64(end))
		ba := encoding.NewByteArrays(out.Bytes()[start:])
		if ba.NumItems() != c.Items {
			fs.add(label+" numitems", "NumItems() = %d, builder had %d", ba.NumItems(), c.Items)
			return
		}
		if ba.Length() != b.Length() {
			fs.add(label+" reader-length", "reader Length() = %d, builder Length() = %d", ba.Length(), b.Length())
		}
		for k := 1; k <= c.Items; k++ {
			var want []byte
			if k <= len(c.Store) {
				for _, i := range c.Store[k-1] { // the abstract store: chunks of key k in write order
					want = append(want, chunks[i-1]...)
				}
			}
			got := ba.Item(k - 1)
			if !bytes.Equal(got, want) {
				fs.add(fmt.Sprintf("%s item=%d", label, k), "Item(%d) has %d bytes, the store has %d bytes%s", k-1, len(got), len(want), firstDiff(got, want))
			}
		}
	})
	if p != "" {
		fs.add(label+" panic", "%s", p)
	}
	return fs.verdict(map[string]int{"chunks": len(c.Entries)})
}

func firstDiff(a, b []byte) string {
	for i := 0; i < len(a) && i < len(b); i++ {
		if a[i] != b[i] {
			return fmt.Sprintf(" (first difference at byte %d: %d vs %d)", i, a[i], b[i])
		}
	}
	return ""
}

// ---------------------------------------------------------------------------------- uint64 map

type item struct {
	Tag  int
	Data string
}

func multiset(items []item) string {
	s := make([]string, len(items))
	for i, it := range items {
		s[i] = fmt.Sprintf("%d:%x", it.Tag, shortData(it.Data))
	}
	sort.Strings(s)
	return strings.Join(s, ",")
}

func shortData(d string) string {
	if len(d) > 12 {
		return fmt.Sprintf("%s..%d", d[:12], len(d))
	}
	return d
}

func runMap(data json.RawMessage) vh.Verdict {
	var c storeCase
	if err := json.Unmarshal(data, &c); err != nil {
		return vh.Fail("harness-json", "bad case: %v", err)
	}
	chunks, err := c.chunks()
	if err != nil {
		return vh.Fail("harness-sizes", "%v", err)
	}
	rng := rand.New(rand.NewSource(vh.Seed*104729 + int64(c.ID)))
	nkeys := len(c.Store)
	if len(c.KeyClass) != nkeys {
		return vh.Fail("harness-keyclass", "%d key classes for %d keys", len(c.KeyClass), nkeys)
	}
	// concrete IDs: the class fixes the magnitude; low bits decide the bucket; bits 8.. tell keys of one class apart
	ids := make([]uint64, nkeys)
	used := map[uint64]bool{}
	high := false
	for k := 0; k < nkeys; k++ {
		r, ok := classRange[c.KeyClass[k]]
		if !ok {
			return vh.Fail("harness-class", "unknown class %q", c.KeyClass[k])
		}
		id := r[0]
		if r[0] != r[1] {
			low := uint64(k + 1)
			if c.SameLow {
				low = 5
			}
			id = r[0] | uint64(k+1)<<8 | low
			if c.Variant%2 == 1 { // fill the middle bits
				id |= (rng.Uint64() << 12) & (r[1] - r[0])
			}
			if id > r[1] {
				id = r[1]
			}
		}
		if used[id] {
			return vh.Fail("harness-ids", "key classes %v give equal IDs", c.KeyClass)
		}
		used[id] = true
		ids[k] = id
		if id >= 1<<63 {
			high = true
		}
	}
	tagOf := func(e entry) encoding.Tag {
		if c.T == 0 {
			return 0
		}
		g := e.tag()
		if g == 0 {
			return 0
		}
		return encoding.Tag(1 + (c.Variant+g)%((1<<c.T)-1))
	}
	label := fmt.Sprintf("map b=%d t=%d keys=%v samelow=%v offset=%d %s", c.B, c.T, c.KeyClass, c.SameLow, c.Offset, c.label())
	var fs failures
	add := func(what string, format string, args ...interface{}) {
		if c.B < c.T && high {
			// DESIGN section 10: the bucket header drops the top ID bit when bucketBits < tagBits
			fs.add(fmt.Sprintf("map layout bucketBits=%d < tagBits=%d with an ID >= 2^63: the ID's top bit is lost", c.B, c.T),
				"%s: "+format, append([]interface{}{label + " " + what}, args...)...)
			return
		}
		fs.add(label+" "+what, format, args...)
	}
	// the abstract store, per key: the entries written under it
	want := make([][]item, nkeys)
	for k := 0; k < nkeys; k++ {
		for _, i := range c.Store[k] {
			want[k] = append(want[k], item{Tag: int(tagOf(c.Entries[i-1])), Data: string(chunks[i-1])})
		}
	}
	p := vh.Catch(func() {
		mb := encoding.NewUint64MapBuilder(c.B, c.T)
		for _, i := range c.Res {
			e := c.Entries[i-1]
			mb.Reserve(ids[e.K-1], tagOf(e), len(chunks[i-1]))
		}
		if c.Fin == "explicit" {
			mb.FinishReservation()
		}
		var out encoding.Buffer
		start := encoding.Offset(c.Offset)
		end, err := mb.WriteHeader(&out, start)
		if err != nil {
			add("header", "WriteHeader: %v", err)
			return
		}
		for _, i := range c.Wr {
			e := c.Entries[i-1]
			if err := mb.WriteItem(ids[e.K-1], tagOf(e), chunks[i-1], &out); err != nil {
				add("write", "WriteItem: %v", err)
				return
			}
		}
		if int(end-start) != mb.Length() {
			add("length", "WriteHeader returned end offset %d from %d but Length() = %d", end, start, mb.Length())
		}
		pad := bytes.Repeat([]byte{0xee}, 32)
		out.WriteAt(pad, int64(end))
		m := encoding.NewUint64Map(out.Bytes()[start:])
		if m.Length() != mb.Length() {
			add("reader-length", "reader Length() = %d, builder Length() = %d", m.Length(), mb.Length())
		}
		// point lookups
		for k := 0; k < nkeys; k++ {
			id := ids[k]
			got := m.FillTagged(id, nil)
			var gi []item
			for _, t := range got {
				gi = append(gi, item{Tag: int(t.Tag), Data: string(t.Data)})
			}
			if multiset(gi) != multiset(want[k]) {
				add(fmt.Sprintf("FillTagged key=%d", k+1), "FillTagged(%d) = {%s}, store has {%s}", id, multiset(gi), multiset(want[k]))
			}
			first, ok := m.FindFirst(id)
			if !ok {
				add(fmt.Sprintf("FindFirst key=%d", k+1), "FindFirst(%d) finds nothing, store has {%s}", id, multiset(want[k]))
			} else if !contains(want[k], item{Tag: int(first.Tag), Data: string(first.Data)}) {
				add(fmt.Sprintf("FindFirst key=%d", k+1), "FindFirst(%d) = %d:%x which was not written under it", id, first.Tag, shortData(string(first.Data)))
			}
			for tag := 0; tag < 1<<c.T; tag++ {
				d := m.FindFirstWithTag(id, encoding.Tag(tag))
				var cands []item
				for _, it := range want[k] {
					if it.Tag == tag {
						cands = append(cands, it)
					}
				}
				switch {
				case len(cands) == 0 && d != nil:
					add(fmt.Sprintf("FindFirstWithTag key=%d", k+1), "FindFirstWithTag(%d, %d) = %x but nothing was written with that tag", id, tag, shortData(string(d)))
				case len(cands) > 0 && (d == nil || !contains(cands, item{Tag: tag, Data: string(d)})):
					add(fmt.Sprintf("FindFirstWithTag key=%d", k+1), "FindFirstWithTag(%d, %d) = %x, store has {%s}", id, tag, shortData(string(d)), multiset(cands))
				}
			}
		}
		// IDs that were never written: same bucket as a written one, other high bits / the neighbour
		for k := 0; k < nkeys; k++ {
			for _, absent := range []uint64{ids[k] ^ 1<<40, ids[k] ^ 1<<uint(c.B), ids[k] ^ 1<<62} {
				if used[absent] {
					continue
				}
				if c.B < c.T && (absent >= 1<<63 || high) {
					continue // would only re-discover the known top-bit defect
				}
				if got := m.FillTagged(absent, nil); len(got) != 0 {
					add("absent FillTagged", "FillTagged(%d) returns %d entries but the ID was never written", absent, len(got))
				}
				if _, ok := m.FindFirst(absent); ok {
					add("absent FindFirst", "FindFirst(%d) finds an entry but the ID was never written", absent)
				}
			}
		}
		// iteration: every ID once, with all its entries
		check := func(name string, seen map[uint64][][]item) {
			for k := 0; k < nkeys; k++ {
				groups := seen[ids[k]]
				if len(groups) != 1 {
					add(fmt.Sprintf("%s key=%d visits", name, k+1), "%s visits ID %d %d times", name, ids[k], len(groups))
					continue
				}
				if multiset(groups[0]) != multiset(want[k]) {
					add(fmt.Sprintf("%s key=%d entries", name, k+1), "%s gives ID %d the entries {%s}, store has {%s}", name, ids[k], multiset(groups[0]), multiset(want[k]))
				}
			}
			for id := range seen {
				if !used[id] {
					add(name+" invented", "%s visits ID %d which was never written", name, id)
				}
			}
		}
		seen := map[uint64][][]item{}
		it := m.Begin()
		for it.Next() {
			var g []item
			for i := 0; i < it.Len(); i++ {
				g = append(g, item{Tag: int(it.Tag(i)), Data: string(it.Data(i))})
			}
			seen[it.ID()] = append(seen[it.ID()], g)
		}
		check("Begin/Next", seen)
		for g := 1; g <= 4; g++ {
			seen := map[uint64][][]item{}
			var mu sync.Mutex
			badG := false
			err := m.EachItem(func(id uint64, tagged []encoding.Tagged, goroutine int) error {
				var gi []item
				for _, t := range tagged {
					gi = append(gi, item{Tag: int(t.Tag), Data: string(t.Data)})
				}
				mu.Lock()
				seen[id] = append(seen[id], gi)
				if goroutine < 0 || goroutine >= g {
					badG = true
				}
				mu.Unlock()
				return nil // never fail here: the behaviour on a failing callback is property C28
			}, g)
			if err != nil {
				add(fmt.Sprintf("EachItem g=%d error", g), "EachItem returned %v although the callback never failed", err)
			}
			if badG {
				add(fmt.Sprintf("EachItem g=%d goroutine", g), "EachItem passed a goroutine index outside 0..%d", g-1)
			}
			check(fmt.Sprintf("EachItem g=%d", g), seen)
		}
	})
	if p != "" {
		add("panic", "%s", firstLine(p))
	}
	return fs.verdict(map[string]int{"map_entries": len(c.Entries)})
}

// runMapConc (C09): the builder is written by several goroutines at once (Reserve is atomic, the bucket cursor is
// guarded; ingest/compact writes entries from all its goroutines). N entries over few buckets are reserved, then
// written by G goroutines concurrently in a seeded order; whatever the interleaving, the finished map must hold
// exactly the abstract store (per ID: the multiset of its (tag, data) items).
type mapConcCase struct {
	ID int `json:"id"`
	B  int `json:"b"`
	T  int `json:"t"`
	N  int `json:"n"`
	G  int `json:"g"`
}

func runMapConc(data json.RawMessage) vh.Verdict {
	var c mapConcCase
	if err := json.Unmarshal(data, &c); err != nil {
		return vh.Fail("harness-json", "bad case: %v", err)
	}
	rng := rand.New(rand.NewSource(vh.Seed*7919 + int64(c.ID)))
	type ent struct {
		id   uint64
		tag  encoding.Tag
		data []byte
	}
	es := make([]ent, c.N)
	want := map[uint64][]item{}
	for i := range es {
		id := uint64(i/2 + 1) // two entries per ID
		tag := encoding.Tag(0)
		if c.T > 0 {
			tag = encoding.Tag(i % (1 << c.T))
		}
		d := []byte(fmt.Sprintf("e%05d-%s", i, strings.Repeat("x", rng.Intn(6))))
		es[i] = ent{id, tag, d}
		want[id] = append(want[id], item{Tag: int(tag), Data: string(d)})
	}
	label := fmt.Sprintf("mapconc b=%d t=%d n=%d g=%d", c.B, c.T, c.N, c.G)
	var fs failures
	p := vh.Catch(func() {
		mb := encoding.NewUint64MapBuilder(c.B, c.T)
		for _, e := range es {
			mb.Reserve(e.id, e.tag, len(e.data))
		}
		mb.FinishReservation()
		var out encoding.Buffer
		end, err := mb.WriteHeader(&out, 0)
		if err != nil {
			fs.add(label+" header", "WriteHeader: %v", err)
			return
		}
		order := rng.Perm(len(es))
		var wg sync.WaitGroup
		var emu sync.Mutex
		var werr error
		start := make(chan struct{})
		for g := 0; g < c.G; g++ {
			wg.Add(1)
			go func(g int) {
				defer wg.Done()
				<-start
				for j := g; j < len(order); j += c.G {
					e := es[order[j]]
					if err := mb.WriteItem(e.id, e.tag, e.data, &out); err != nil {
						emu.Lock()
						werr = err
						emu.Unlock()
						return
					}
				}
			}(g)
		}
		close(start)
		wg.Wait()
		if werr != nil {
			fs.add(label+" write", "WriteItem: %v", werr)
			return
		}
		out.WriteAt(bytes.Repeat([]byte{0xee}, 32), int64(end))
		m := encoding.NewUint64Map(out.Bytes())
		bad := 0
		for id, w := range want {
			var gi []item
			for _, t := range m.FillTagged(id, nil) {
				gi = append(gi, item{Tag: int(t.Tag), Data: string(t.Data)})
			}
			if multiset(gi) != multiset(w) {
				bad++
				if bad == 1 {
					fs.add(label+" concurrent writers", "after %d goroutines wrote %d entries concurrently FillTagged(%d) = {%s}, written {%s}", c.G, c.N, id, shortData(multiset(gi)), shortData(multiset(w)))
				}
			}
		}
	})
	if p != "" {
		fs.add(label+" panic", "panic: %s", firstLine(p))
	}
	return fs.verdict(map[string]int{"concurrent_map_builds": 1, "concurrent_entries": c.N})
}

// runBytesBig (C09): tables with MANY items, so that the pointer table itself is long (hundreds of pointers of every
// width 1..4 bytes) - the small behaviours TLC enumerates have at most five items.
type bytesBigCase struct {
	ID     int `json:"id"`
	N      int `json:"n"`      // items
	Size   int `json:"size"`   // bytes per item (items i%7==0 are empty, i%11==0 twice as long)
	Offset int `json:"offset"` // the container starts at this offset of the output
}

func runBytesBig(data json.RawMessage) vh.Verdict {
	var c bytesBigCase
	if err := json.Unmarshal(data, &c); err != nil {
		return vh.Fail("harness-json", "bad case: %v", err)
	}
	label := fmt.Sprintf("bytesbig n=%d size=%d offset=%d", c.N, c.Size, c.Offset)
	item := func(i int) []byte {
		n := c.Size
		if i%7 == 0 {
			n = 0
		} else if i%11 == 0 {
			n = 2 * c.Size
		}
		d := make([]byte, n)
		for j := range d {
			d[j] = byte(i*31 + j*7 + 1)
		}
		return d
	}
	var fs failures
	p := vh.Catch(func() {
		b := encoding.NewByteArraysBuilder(c.N)
		for i := 0; i < c.N; i++ {
			b.Reserve(i, len(item(i)))
		}
		b.FinishReservation()
		var out encoding.Buffer
		start := encoding.Offset(c.Offset)
		end, err := b.WriteHeader(&out, start)
		if err != nil {
			fs.add(label+" header", "WriteHeader: %v", err)
			return
		}
		for i := c.N - 1; i >= 0; i-- { // written in reverse order
			if err := b.WriteItem(&out, i, item(i)); err != nil {
				fs.add(label+" write", "WriteItem: %v", err)
				return
			}
		}
		if int(end-start) != b.Length() {
			fs.add(label+" length", "WriteHeader returned end offset %d from %d but Length() = %d", end, start, b.Length())
		}
		out.WriteAt(bytes.Repeat([]byte{0xee}, 32), int64(end))
		ba := encoding.NewByteArrays(out.Bytes()[start:])
		if ba.NumItems() != c.N {
			fs.add(label+" numitems", "NumItems() = %d, builder had %d", ba.NumItems(), c.N)
			return
		}
		bad := 0
		for i := 0; i < c.N; i++ {
			if got, want := ba.Item(i), item(i); !bytes.Equal(got, want) {
				bad++
				if bad == 1 {
					fs.add(label+" item", "Item(%d) has %d bytes, written %d bytes%s", i, len(got), len(want), firstDiff(got, want))
				}
			}
		}
	})
	if p != "" {
		fs.add(label+" panic", "%s", firstLine(p))
	}
	return fs.verdict(map[string]int{"big_tables": 1, "big_table_items": c.N})
}

func firstLine(s string) string {
	if i := strings.IndexByte(s, '\n'); i >= 0 {
		return s[:i]
	}
	return s
}

func contains(items []item, x item) bool {
	for _, it := range items {
		if it == x {
			return true
		}
	}
	return false
}

func main() {
	vh.RegisterFunc("ints", runInts)
	vh.RegisterFunc("strings", runStrings)
	vh.RegisterFunc("bytes", runBytes)
	vh.RegisterFunc("map", runMap)
	vh.RegisterFunc("mapconc", runMapConc)
	vh.RegisterFunc("bytesbig", runBytesBig)
	vh.Main()
}
