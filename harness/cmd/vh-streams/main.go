// vh-streams: protocol bindings for C28 (streaming reads stop on a callback error) and C25 (map-parallel).
//
// Adapter "stream": one case = (instance, goroutines, unit sizes, failing items, callback mode, perturbation
// seed) + the outcome sets TLC computed for that configuration from spec/Streams*.tla.  The case is executed
// on the real API with a watchdog; the observation is (ret = nil | err | hang, items delivered, items delivered
// twice) and is judged here.
//
// Adapter "mappar": one case = (cores, items, failing items, function kind, seed) + the outcome set TLC computed
// from spec/MapParallel.tla; map-parallel is evaluated through api.EvaluateString and iterated to its end.
package main

import (
	"bytes"
	"context"
	"encoding/json"
	"errors"
	"flag"
	"fmt"
	"io"
	"log"
	"math/rand"
	"os"
	"regexp"
	"runtime"
	"sort"
	"strconv"
	"strings"
	"sync"
	"sync/atomic"
	"time"

	"diagonal.works/b6"
	"diagonal.works/b6/api"
	"diagonal.works/b6/api/functions"
	"diagonal.works/b6/encoding"
	"diagonal.works/b6/ingest"
	"diagonal.works/b6/ingest/compact"
	"diagonal.works/b6/osm"
	"github.com/golang/geo/s2"
	"verif/harness/vh"
)

// ---------------------------------------------------------------------------------------------------------
// perturbation: all randomness derives from the case seed; decisions are drawn under the tracker lock so that
// they depend on the invocation ordinal, not on which goroutine runs.

type perturber struct {
	mu    sync.Mutex
	rng   *rand.Rand
	level int
}

func newPerturber(seed int64, level int) *perturber {
	return &perturber{rng: rand.New(rand.NewSource(seed)), level: level}
}

// draw returns what to do at a yield point: 0 nothing, 1..3 Gosched n times, >=10 sleep that many microseconds.
func (p *perturber) draw() int {
	if p == nil || p.level == 0 {
		return 0
	}
	p.mu.Lock()
	defer p.mu.Unlock()
	x := p.rng.Intn(100)
	switch p.level {
	case 1: // yields only
		if x < 50 {
			return 1 + p.rng.Intn(3)
		}
		return 0
	case 2: // yields and short sleeps
		if x < 30 {
			return 1 + p.rng.Intn(3)
		} else if x < 60 {
			return 10 + p.rng.Intn(150)
		}
		return 0
	default: // occasional long sleeps: lets every other goroutine run until it blocks
		if x < 25 {
			return 1 + p.rng.Intn(3)
		} else if x < 50 {
			return 10 + p.rng.Intn(150)
		} else if x < 65 {
			return 600 + p.rng.Intn(900)
		}
		return 0
	}
}

func apply(d int) {
	switch {
	case d == 0:
	case d < 10:
		for i := 0; i < d; i++ {
			runtime.Gosched()
		}
	default:
		time.Sleep(time.Duration(d) * time.Microsecond)
	}
}

// ---------------------------------------------------------------------------------------------------------
// the instrumented callback

var errCallback = errors.New("verif: callback failed")

type tracker struct {
	mu         sync.Mutex
	fail       map[int]bool
	mode       string
	ordinal    bool // items are identified by invocation ordinal, not by id
	calls      map[int]int
	ord        int
	decided    bool // the callback has decided to fail at least once (sticky)
	failRet    bool // a failing invocation has returned
	post       int  // invocations started after a failing invocation returned
	slowPost   time.Duration
	inflight   int32
	last       int64 // unix nanos of the last activity
	p          *perturber
	unexpected []string
}

func (t *tracker) touch() { atomic.StoreInt64(&t.last, time.Now().UnixNano()) }

func (t *tracker) cb(item int) error {
	atomic.AddInt32(&t.inflight, 1)
	t.touch()
	t.mu.Lock()
	t.ord++
	k := item
	if t.ordinal {
		k = t.ord
	}
	prior := t.calls[k]
	t.calls[k]++
	fails := false
	switch t.mode {
	case "item":
		fails = t.fail[k]
	case "once":
		fails = t.fail[k] && prior == 0
	case "sticky":
		fails = t.fail[k] || t.decided
	}
	if fails {
		t.decided = true
	}
	late := t.failRet
	if late {
		t.post++
	}
	t.mu.Unlock()
	apply(t.p.draw())
	if late && t.slowPost > 0 {
		time.Sleep(t.slowPost)
	}
	var err error
	if fails {
		t.mu.Lock()
		t.failRet = true
		t.mu.Unlock()
		err = fmt.Errorf("item %d: %w", k, errCallback)
	}
	t.touch()
	atomic.AddInt32(&t.inflight, -1)
	return err
}

func (t *tracker) note(s string) {
	t.mu.Lock()
	t.unexpected = append(t.unexpected, s)
	t.mu.Unlock()
}

// ---------------------------------------------------------------------------------------------------------
// watchdog: run f; if it has not returned, no callback is running, nothing has happened for `quiet` and two
// goroutine dumps taken 40 ms apart show every goroutine below the entry point parked on the same channel /
// WaitGroup operation, the call is hung.  (The vh runtime's per-case timeout remains as the backstop.)

var goroutineHeader = regexp.MustCompile(`^goroutine (\d+) \[([^\]]+)\]:$`)

type parked struct {
	State string `json:"state"`
	Where string `json:"where"`
}

// blockedBelow lists the goroutines that run b6 code (the call under test, the goroutines it started, and
// goroutines leaked by earlier hung cases of this worker process, which stay parked for ever) with their
// scheduler state and innermost b6 frame.  marker is only used to tell whether the call under test is among them.
func blockedBelow(marker string, stale map[string]bool) (list []parked, anyRunnable bool) {
	buf := make([]byte, 4<<20)
	n := runtime.Stack(buf, true)
	seen := false
	defer func() {
		if !seen {
			list = nil
		}
	}()
	for _, g := range strings.Split(string(buf[:n]), "\n\n") {
		if !strings.Contains(g, "diagonal.works/b6/") {
			continue
		}
		if strings.Contains(g, marker) {
			seen = true
		}
		lines := strings.Split(g, "\n")
		m := goroutineHeader.FindStringSubmatch(lines[0])
		if m == nil {
			continue
		}
		if stale != nil && stale[m[1]] {
			continue
		}
		state := m[2]
		if i := strings.Index(state, ","); i >= 0 {
			state = state[:i]
		}
		where := ""
		for i := 1; i+1 < len(lines); i += 2 {
			fn := strings.TrimSpace(lines[i])
			if strings.HasPrefix(fn, "diagonal.works/b6") && !strings.Contains(fn, "verif") {
				if j := strings.LastIndex(fn, "("); j > 0 {
					fn = fn[:j]
				}
				loc := strings.TrimSpace(lines[i+1])
				if j := strings.LastIndex(loc, "/"); j >= 0 {
					loc = loc[j+1:]
				}
				if j := strings.Index(loc, " "); j >= 0 {
					loc = loc[:j]
				}
				where = strings.TrimPrefix(fn, "diagonal.works/b6/") + "@" + loc
				break
			}
		}
		if where == "" {
			continue
		}
		if state == "running" || state == "runnable" || state == "syscall" || state == "sleep" {
			anyRunnable = true
		}
		list = append(list, parked{State: state, Where: where})
	}
	sort.Slice(list, func(i, j int) bool {
		if list[i].Where != list[j].Where {
			return list[i].Where < list[j].Where
		}
		return list[i].State < list[j].State
	})
	return list, anyRunnable
}

type watched struct {
	hung    bool
	err     error
	parked  []parked
	panicv  string
	elapsed time.Duration
}

// b6Goroutines returns the ids of the goroutines that currently run b6 code (leaked by earlier hung cases).
func b6Goroutines() map[string]bool {
	buf := make([]byte, 4<<20)
	n := runtime.Stack(buf, true)
	ids := map[string]bool{}
	for _, g := range strings.Split(string(buf[:n]), "\n\n") {
		if !strings.Contains(g, "diagonal.works/b6/") {
			continue
		}
		if m := goroutineHeader.FindStringSubmatch(strings.SplitN(g, "\n", 2)[0]); m != nil {
			ids[m[1]] = true
		}
	}
	return ids
}

func watch(f func() error, marker string, quiet time.Duration, idle func() (inflight int32, last int64)) watched {
	stale := b6Goroutines()
	done := make(chan watched, 1)
	t0 := time.Now()
	go func() {
		var w watched
		defer func() {
			if r := recover(); r != nil {
				w.panicv = fmt.Sprint(r)
			}
			w.elapsed = time.Since(t0)
			done <- w
		}()
		w.err = f()
	}()
	tick := time.NewTicker(15 * time.Millisecond)
	defer tick.Stop()
	for {
		select {
		case w := <-done:
			return w
		case <-tick.C:
			inflight, last := idle()
			if inflight != 0 || time.Since(time.Unix(0, last)) < quiet {
				continue
			}
			a, run1 := blockedBelow(marker, stale)
			if run1 || len(a) == 0 {
				continue
			}
			time.Sleep(40 * time.Millisecond)
			select {
			case w := <-done:
				return w
			default:
			}
			inflight2, last2 := idle()
			b, run2 := blockedBelow(marker, stale)
			if run2 || inflight2 != 0 || last2 != last || vh.Canon(a) != vh.Canon(b) {
				continue
			}
			return watched{hung: true, parked: b, elapsed: time.Since(t0)}
		}
	}
}

// ---------------------------------------------------------------------------------------------------------
// C28: stream instances

type streamCase struct {
	ID      int      `json:"id"`
	Inst    string   `json:"inst"`
	G       int      `json:"g"`
	Sizes   []int    `json:"sizes"`
	Fail    []int    `json:"fail"`
	Mode    string   `json:"mode"`
	Ordinal bool     `json:"ordinal"`
	Seed    int64    `json:"seed"`
	Perturb int      `json:"perturb"`
	After   []string `json:"after"`  // outcomes of the protocol model (cfg.fixed = TRUE: the code with the repairs)
	Before  []string `json:"before"` // outcomes of the model of the protocol before the repairs (diagnosis only)
	Model   bool     `json:"model"`  // After/Before are present
	QuietMs int      `json:"quiet_ms"`
	Prompt  int      `json:"prompt"` // > 0: at most this many callbacks may start after a failing one returned
	SlowUs  int      `json:"slow_us"`
	File    string   `json:"file"` // world-compact: index built once per item count by the build-compact tool
}

// compact indices are expensive to build (the builder allocates its maximum feature buffers per goroutine):
// the check builds one per item count with `vh-streams build-compact`, workers load and keep them.
var compactWorlds = map[string]*compact.World{}

func compactWorld(path string) (*compact.World, error) {
	if w, ok := compactWorlds[path]; ok {
		return w, nil
	}
	data, err := os.ReadFile(path)
	if err != nil {
		return nil, err
	}
	w, err := compact.NewWorldFromData(data)
	if err != nil {
		return nil, err
	}
	compactWorlds[path] = w
	return w, nil
}

func buildCompact(args []string) int {
	fs := flag.NewFlagSet("build-compact", flag.ExitOnError)
	n := fs.Int("n", 8, "number of point features 1..n")
	out := fs.String("out", "", "output file")
	fs.Parse(args)
	src := ingest.MemoryFeatureSource{}
	for k := 1; k <= *n; k++ {
		src = append(src, pointFeature(k))
	}
	src = append(src, extras(seq(1, *n))...)
	data, err := compact.BuildInMemory(src, &compact.Options{Goroutines: 1, PointsScratchOutputType: compact.OutputTypeMemory})
	if err != nil {
		fmt.Fprintln(os.Stderr, err)
		return 1
	}
	if err := os.WriteFile(*out, data, 0o644); err != nil {
		fmt.Fprintln(os.Stderr, err)
		return 1
	}
	fmt.Printf("{\"n\":%d,\"bytes\":%d}\n", *n, len(data))
	return 0
}

const ns = "verif.diagonal.works"

func pointID(k int) b6.FeatureID {
	return b6.FeatureID{Type: b6.FeatureTypePoint, Namespace: ns, Value: uint64(k)}
}

func pointFeature(k int) *ingest.GenericFeature {
	ll := s2.LatLngFromDegrees(51.53+float64(k)*0.0001, -0.12+float64(k%7)*0.0001)
	return &ingest.GenericFeature{
		ID: pointID(k),
		Tags: []b6.Tag{
			{Key: b6.PointTag, Value: b6.NewPointExpressionFromLatLng(ll)},
			{Key: "#amenity", Value: b6.NewStringExpression("bench")},
		},
	}
}

// extras are features of the types that worlds enumerate AFTER points (a path over the first two points, a relation
// of the first point): an enumeration that fails on a point must not carry on with them and forget the error.
// The callback lets them pass (they are not items of the case).
func extras(items []int) []ingest.Feature {
	var out []ingest.Feature
	if len(items) >= 2 {
		p := &ingest.GenericFeature{ID: b6.FeatureID{Type: b6.FeatureTypePath, Namespace: ns, Value: 9001}}
		p.ModifyOrAddTag(b6.Tag{Key: b6.PathTag, Value: b6.NewExpressions([]b6.AnyExpression{
			b6.FeatureIDExpression(pointID(items[0])), b6.FeatureIDExpression(pointID(items[1]))})})
		p.AddTag(b6.Tag{Key: "#highway", Value: b6.NewStringExpression("path")})
		out = append(out, p)
	}
	if len(items) >= 1 {
		r := ingest.NewRelationFeature(1)
		r.RelationID = b6.RelationID{Namespace: ns, Value: 9002}
		r.Members[0] = b6.RelationMember{ID: pointID(items[0]), Role: "m"}
		r.Tags = []b6.Tag{{Key: "#type", Value: b6.NewStringExpression("extra")}}
		out = append(out, r)
	}
	return out
}

func basicWorld(items []int, withRelations bool) (b6.World, error) {
	src := ingest.MemoryFeatureSource{}
	for _, k := range items {
		src = append(src, pointFeature(k))
	}
	if !withRelations {
		src = append(src, extras(items)...)
	}
	if withRelations {
		// relation j has members P_1..P_j: P_i is referenced by len-i+1 relations, so FeedReferencesFirst
		// feeds the points in item order
		for j := range items {
			r := ingest.NewRelationFeature(j + 1)
			r.RelationID = b6.RelationID{Namespace: ns, Value: uint64(1000 + j)}
			for i := 0; i <= j; i++ {
				r.Members[i] = b6.RelationMember{ID: pointID(items[i]), Role: "m"}
			}
			r.Tags = []b6.Tag{{Key: "#type", Value: b6.NewStringExpression("verif")}}
			src = append(src, r)
		}
	}
	return ingest.NewWorldFromSource(src, &ingest.BuildOptions{Cores: 2})
}

func seq(a, b int) []int {
	var s []int
	for i := a; i <= b; i++ {
		s = append(s, i)
	}
	return s
}

type instance struct {
	marker string // function below which goroutines are inspected when nothing moves
	run    func() error
}

type nodeReader struct {
	r *bytes.Reader
	t *tracker
}

func (n *nodeReader) Read(p []byte) (int, error) {
	n.t.touch()
	apply(n.t.p.draw())
	c, err := n.r.Read(p)
	n.t.touch()
	return c, err
}

func buildInstance(c *streamCase, t *tracker) (*instance, error) {
	n := 0
	for _, s := range c.Sizes {
		n += s
	}
	each := func(f b6.Feature, _ int) error {
		if f == nil {
			t.note("nil feature")
			return nil
		}
		id := f.FeatureID()
		if id.Namespace == ns && id.Type != b6.FeatureTypePoint && id.Value >= 9000 {
			return nil // one of the extras
		}
		if id.Namespace != ns || id.Type != b6.FeatureTypePoint {
			t.note("unexpected feature " + id.String())
			return nil
		}
		return t.cb(int(id.Value))
	}
	opts := &b6.EachFeatureOptions{Goroutines: c.G}
	switch c.Inst {
	case "eachitem":
		bits := 0
		for (1 << bits) < len(c.Sizes) {
			bits++
		}
		if 1<<bits != len(c.Sizes) {
			return nil, fmt.Errorf("eachitem needs a power of two number of buckets, got %d", len(c.Sizes))
		}
		// no tag bits: the builder raises bucketBits to tagBits, and the bucket of an id must be the one the case names
		b := encoding.NewUint64MapBuilder(bits, 0)
		if b.Layout.BucketBits != bits {
			return nil, fmt.Errorf("eachitem: builder chose %d bucket bits, the case needs %d", b.Layout.BucketBits, bits)
		}
		type it struct {
			id   uint64
			data []byte
		}
		var items []it
		k := 0
		for u, s := range c.Sizes {
			for p := 0; p < s; p++ {
				k++
				items = append(items, it{uint64(k)<<bits | uint64(u), []byte(fmt.Sprintf("item-%d", k))})
			}
		}
		for _, i := range items {
			b.Reserve(i.id, 0, len(i.data))
		}
		var out encoding.Buffer
		if _, err := b.WriteHeader(&out, 0); err != nil {
			return nil, err
		}
		for _, i := range items {
			if err := b.WriteItem(i.id, 0, i.data, &out); err != nil {
				return nil, err
			}
		}
		m := encoding.NewUint64Map(out.Bytes())
		return &instance{marker: "encoding.(*Uint64Map).EachItem", run: func() error {
			return m.EachItem(func(id uint64, tagged []encoding.Tagged, _ int) error {
				k := int(id >> bits)
				if len(tagged) == 0 || string(tagged[0].Data) != fmt.Sprintf("item-%d", k) {
					t.note(fmt.Sprintf("id %d carries %v", id, tagged))
				}
				return t.cb(k)
			}, c.G)
		}}, nil
	case "memsource":
		src := ingest.MemoryFeatureSource{}
		for k := 1; k <= n; k++ {
			src = append(src, pointFeature(k))
		}
		return &instance{marker: "ingest.MemoryFeatureSource.Read", run: func() error {
			return src.Read(ingest.ReadOptions{Goroutines: c.G}, func(f ingest.Feature, _ int) error {
				return t.cb(int(f.FeatureID().Value))
			}, context.Background())
		}}, nil
	case "pbf":
		if len(c.Sizes) == 0 || c.Sizes[0] != 0 {
			return nil, fmt.Errorf("pbf: unit 1 is the header blob and must have size 0")
		}
		var buf bytes.Buffer
		w, err := osm.NewWriter(&buf)
		if err != nil {
			return nil, err
		}
		k := 0
		for _, s := range c.Sizes[1:] {
			if s == 0 {
				return nil, fmt.Errorf("pbf: empty data blobs cannot be written")
			}
			for p := 0; p < s; p++ {
				k++
				node := osm.Node{ID: osm.NodeID(k), Location: osm.LatLng{Lat: 51.5 + float64(k)*0.001, Lng: -0.1}}
				if err := w.WriteNode(&node); err != nil {
					return nil, err
				}
			}
			if err := w.Flush(); err != nil {
				return nil, err
			}
		}
		data := buf.Bytes()
		return &instance{marker: "osm.ReadPBFWithOptions", run: func() error {
			r := &nodeReader{r: bytes.NewReader(data), t: t}
			return osm.ReadPBFWithOptions(r, func(e osm.Element, _ int) error {
				if node, ok := e.(*osm.Node); ok {
					return t.cb(int(node.ID))
				}
				t.note(fmt.Sprintf("unexpected element %T", e))
				return nil
			}, osm.ReadOptions{Cores: c.G})
		}}, nil
	case "ingest": // eachIngestFeature + feedFeatures through the basic world, fed in item order
		w, err := basicWorld(seq(1, n), true)
		if err != nil {
			return nil, err
		}
		o := &b6.EachFeatureOptions{Goroutines: c.G, FeedReferencesFirst: true, SkipRelations: true}
		return &instance{marker: "ingest.eachIngestFeature", run: func() error { return w.EachFeature(each, o) }}, nil
	case "modtags":
		m := ingest.NewModifiedTags()
		for k := 1; k <= n; k++ {
			m.ModifyOrAddTag(pointID(k), b6.Tag{Key: "verif", Value: b6.NewStringExpression(strconv.Itoa(k))})
		}
		return &instance{marker: "ingest.ModifiedTags.EachModifiedTag", run: func() error {
			return m.EachModifiedTag(func(mt ingest.ModifiedTag, _ int) error {
				if mt.Tag.Key != "verif" || mt.Tag.Value.String() != strconv.Itoa(int(mt.ID.Value)) {
					t.note("unexpected modified tag " + mt.ID.String() + " " + mt.Tag.String())
				}
				return t.cb(int(mt.ID.Value))
			}, opts)
		}}, nil
	case "world-basic":
		w, err := basicWorld(seq(1, n), false)
		if err != nil {
			return nil, err
		}
		return &instance{marker: "ingest.(*basicWorld).EachFeature", run: func() error { return w.EachFeature(each, opts) }}, nil
	case "world-mutable":
		w := ingest.NewBasicMutableWorld()
		for k := 1; k <= n; k++ {
			if err := w.AddFeature(pointFeature(k)); err != nil {
				return nil, err
			}
		}
		for _, x := range extras(seq(1, n)) {
			if err := w.AddFeature(x); err != nil {
				return nil, err
			}
		}
		return &instance{marker: "ingest.(*BasicMutableWorld).EachFeature", run: func() error { return w.EachFeature(each, opts) }}, nil
	case "world-mutoverlay": // first half in the base, second half added on top, one base feature retagged
		h := n / 2
		base, err := basicWorld(seq(1, h), false)
		if err != nil {
			return nil, err
		}
		w := ingest.NewMutableOverlayWorld(base)
		for k := h + 1; k <= n; k++ {
			if err := w.AddFeature(pointFeature(k)); err != nil {
				return nil, err
			}
		}
		if h > 0 {
			if err := w.AddTag(pointID(1), b6.Tag{Key: "verif", Value: b6.NewStringExpression("x")}); err != nil {
				return nil, err
			}
		}
		return &instance{marker: "ingest.(*MutableOverlayWorld).EachFeature", run: func() error { return w.EachFeature(each, opts) }}, nil
	case "world-overlay": // overlay holds the second half and shadows the last base feature
		h := n / 2
		base, err := basicWorld(seq(1, h), false)
		if err != nil {
			return nil, err
		}
		lo := h + 1
		if h > 0 {
			lo = h
		}
		over, err := basicWorld(seq(lo, n), false)
		if err != nil {
			return nil, err
		}
		w := ingest.NewOverlayWorld(over, base)
		return &instance{marker: "ingest.(*OverlayWorld).EachFeature", run: func() error { return w.EachFeature(each, opts) }}, nil
	case "world-tagsoverlay":
		base, err := basicWorld(seq(1, n), false)
		if err != nil {
			return nil, err
		}
		w := ingest.NewMutableTagsOverlayWorld(base)
		if n > 0 {
			w.AddTag(pointID(1), b6.Tag{Key: "verif", Value: b6.NewStringExpression("x")})
		}
		return &instance{marker: "ingest.(*MutableTagsOverlayWorld).EachFeature", run: func() error { return w.EachFeature(each, opts) }}, nil
	case "world-compact":
		if c.File == "" {
			return nil, fmt.Errorf("world-compact needs the index file written by `build-compact`")
		}
		w, err := compactWorld(c.File)
		if err != nil {
			return nil, err
		}
		return &instance{marker: "compact.(*World).EachFeature", run: func() error { return w.EachFeature(each, opts) }}, nil
	}
	return nil, fmt.Errorf("unknown instance %q", c.Inst)
}

func sortedKeys(m map[int]int, min int) []int {
	var ks []int
	for k, v := range m {
		if v >= min {
			ks = append(ks, k)
		}
	}
	sort.Ints(ks)
	return ks
}

func joinInts(a []int) string {
	s := make([]string, len(a))
	for i, x := range a {
		s[i] = strconv.Itoa(x)
	}
	return strings.Join(s, ",")
}

// runs renders [1 1 1 2 2] as "3x1 2x2" when it is long
func runs(a []int) string {
	if len(a) <= 8 {
		return fmt.Sprint(a)
	}
	var parts []string
	for i := 0; i < len(a); {
		j := i
		for j < len(a) && a[j] == a[i] {
			j++
		}
		parts = append(parts, fmt.Sprintf("%dx%d", j-i, a[i]))
		i = j
	}
	return "[" + strings.Join(parts, " ") + "]"
}

func shortInts(a []int) string {
	if len(a) <= 8 {
		return fmt.Sprint(a)
	}
	return fmt.Sprintf("[%d %d %d ... %d] (%d items)", a[0], a[1], a[2], a[len(a)-1], len(a))
}

func contains(l []string, s string) bool {
	for _, x := range l {
		if x == s {
			return true
		}
	}
	return false
}

type streamObs struct {
	Ret       string   `json:"ret"`
	Delivered []int    `json:"delivered"`
	Twice     []int    `json:"twice,omitempty"`
	Post      int      `json:"post,omitempty"`
	Err       string   `json:"err,omitempty"`
	Parked    []parked `json:"parked,omitempty"`
	Ms        int64    `json:"ms"`
}

func runStream(data json.RawMessage) vh.Verdict {
	var c streamCase
	if err := json.Unmarshal(data, &c); err != nil {
		return vh.Fail("harness-json", "bad case: %v", err)
	}
	if c.G < 1 {
		c.G = 1
	}
	t := &tracker{fail: map[int]bool{}, mode: c.Mode, ordinal: c.Ordinal, calls: map[int]int{},
		p: newPerturber(c.Seed, c.Perturb), slowPost: time.Duration(c.SlowUs) * time.Microsecond}
	for _, k := range c.Fail {
		t.fail[k] = true
	}
	t.touch()
	inst, err := buildInstance(&c, t)
	if err != nil {
		return vh.Fail("harness-build:"+c.Inst, "cannot build %s %v: %v", c.Inst, c.Sizes, err)
	}
	quiet := time.Duration(c.QuietMs) * time.Millisecond
	if quiet == 0 {
		quiet = 300 * time.Millisecond
	}
	t.touch()
	w := watch(inst.run, inst.marker, quiet, func() (int32, int64) {
		return atomic.LoadInt32(&t.inflight), atomic.LoadInt64(&t.last)
	})
	t.mu.Lock()
	obs := streamObs{Delivered: sortedKeys(t.calls, 1), Twice: sortedKeys(t.calls, 2), Post: t.post, Ms: w.elapsed.Milliseconds()}
	failed := t.decided
	unexpected := append([]string{}, t.unexpected...)
	t.mu.Unlock()
	n := 0
	for _, s := range c.Sizes {
		n += s
	}
	// failure keys name the function, the symptom and the callback behaviour ("nofail": nothing fails)
	shape := c.Mode
	if len(c.Fail) == 0 {
		shape = "nofail"
	}
	stats := map[string]int{"stream_runs": 1}
	switch {
	case w.panicv != "":
		obs.Ret = "panic"
		return vh.Verdict{OK: false, Key: c.Inst + ":panic:" + shape, Msg: "panicked: " + w.panicv, Obs: obs}
	case w.hung:
		obs.Ret = "hang"
		obs.Parked = w.parked
	case w.err != nil:
		obs.Ret = "err"
		obs.Err = w.err.Error()
	default:
		obs.Ret = "nil"
	}
	desc := fmt.Sprintf("%s g=%d sizes=%s fail=%s mode=%s ordinal=%v seed=%d", c.Inst, c.G, runs(c.Sizes), shortInts(c.Fail), c.Mode, c.Ordinal, c.Seed)
	// ---- the property itself (DESIGN A.6) ----
	if obs.Ret == "hang" {
		where := []string{}
		for _, p := range obs.Parked {
			where = append(where, p.State+" "+p.Where)
		}
		return vh.Verdict{OK: false, Key: c.Inst + ":hang:" + shape, Obs: obs, Stats: stats,
			Msg: fmt.Sprintf("%s: does not return; delivered %s, then every goroutine is parked: %s", desc, shortInts(obs.Delivered), strings.Join(where, "; "))}
	}
	if failed && obs.Ret == "nil" {
		return vh.Verdict{OK: false, Key: c.Inst + ":nil-on-failure:" + shape, Obs: obs, Stats: stats,
			Msg: fmt.Sprintf("%s: the callback returned an error but the call returned nil; delivered %s (twice: %s)", desc, shortInts(obs.Delivered), shortInts(obs.Twice))}
	}
	if len(unexpected) > 0 {
		return vh.Verdict{OK: false, Key: c.Inst + ":unexpected-item", Obs: obs, Stats: stats, Msg: desc + ": " + strings.Join(unexpected, "; ")}
	}
	if !failed && obs.Ret == "err" {
		return vh.Verdict{OK: false, Key: c.Inst + ":error-without-failure", Obs: obs, Stats: stats,
			Msg: fmt.Sprintf("%s: no callback failed but the call returned %q", desc, obs.Err)}
	}
	if !failed && (len(obs.Delivered) != n || len(obs.Twice) != 0) {
		return vh.Verdict{OK: false, Key: c.Inst + ":incomplete-without-failure", Obs: obs, Stats: stats,
			Msg: fmt.Sprintf("%s: no callback failed; %d items, delivered %v, twice %v", desc, n, obs.Delivered, obs.Twice)}
	}
	if failed && c.Prompt > 0 && obs.Post > c.Prompt {
		return vh.Verdict{OK: false, Key: c.Inst + ":not-prompt:" + shape, Obs: obs, Stats: stats,
			Msg: fmt.Sprintf("%s: %d callbacks were started after a failing callback had returned (bound %d); %d of %d items delivered",
				desc, obs.Post, c.Prompt, len(obs.Delivered), n)}
	}
	// ---- conformance with the protocol model ----
	if c.Model {
		o := obs.Ret + "|" + joinInts(obs.Delivered) + "|" + joinInts(obs.Twice)
		if contains(c.After, o) {
			stats["outcome_in_model"] = 1
		} else if contains(c.Before, o) {
			// an outcome only the model of the protocol BEFORE the repairs (cfg.fixed = FALSE) can produce
			return vh.Verdict{OK: false, Key: c.Inst + ":pre-repair-outcome:" + shape, Obs: obs, Stats: stats,
				Msg: fmt.Sprintf("%s: outcome %s is not an outcome of the repaired protocol model, but one of the protocol before the repair (allowed: %v)", desc, o, c.After)}
		} else {
			return vh.Verdict{OK: false, Key: fmt.Sprintf("%s:outcome-not-in-model:g=%d:sizes=%v:fail=%v:%s:%s", c.Inst, c.G, c.Sizes, c.Fail, c.Mode, o),
				Obs: obs, Stats: stats, Msg: fmt.Sprintf("%s: outcome %s is not an outcome of the protocol model (allowed: %v)", desc, o, c.After)}
		}
	}
	return vh.Verdict{OK: true, Obs: obs, Stats: stats}
}

// ---------------------------------------------------------------------------------------------------------
// C25: map-parallel

type mapCase struct {
	ID      int      `json:"id"`
	Cores   int      `json:"cores"`
	NI      int      `json:"ni"`
	Fail    []int    `json:"fail"`
	Fn      string   `json:"fn"` // native | lambda | lambda-pure
	Seed    int64    `json:"seed"`
	Perturb int      `json:"perturb"`
	Allowed []string `json:"allowed"` // "1,2|err:3", "1,2,3|nil"
	Model   bool     `json:"model"`
	QuietMs int      `json:"quiet_ms"`
}

type mapObs struct {
	Yielded []int    `json:"yielded"`
	Res     string   `json:"res"`
	Err     string   `json:"err,omitempty"`
	Parked  []parked `json:"parked,omitempty"`
	Ms      int64    `json:"ms"`
}

// input collection: key 100+k, value k; Next is a yield point of the dispatcher goroutine
type inputCollection struct {
	n     int
	i     int
	p     *perturber
	touch func()
}

func (c *inputCollection) Begin() b6.Iterator[any, any] {
	return &inputCollection{n: c.n, p: c.p, touch: c.touch}
}
func (c *inputCollection) Count() (int, bool) { return c.n, true }
func (c *inputCollection) Next() (bool, error) {
	c.touch()
	apply(c.p.draw())
	c.i++
	c.touch()
	return c.i <= c.n, nil
}
func (c *inputCollection) Key() interface{}   { return 100 + c.i }
func (c *inputCollection) Value() interface{} { return c.i }
func (c *inputCollection) KeyExpression() b6.Expression {
	return b6.NewIntExpression(100 + c.i)
}
func (c *inputCollection) ValueExpression() b6.Expression {
	return b6.NewIntExpression(c.i)
}

var failItem = regexp.MustCompile(`verif-fail-(\d+)`)

func mapResult(k int, fn string) int {
	if fn == "lambda-pure" {
		return k + 7
	}
	return k*10 + 1
}

func runMap(data json.RawMessage) vh.Verdict {
	var c mapCase
	if err := json.Unmarshal(data, &c); err != nil {
		return vh.Fail("harness-json", "bad case: %v", err)
	}
	p := newPerturber(c.Seed, c.Perturb)
	var inflight int32
	var last int64
	touch := func() { atomic.StoreInt64(&last, time.Now().UnixNano()) }
	touch()
	fail := map[int]bool{}
	for _, k := range c.Fail {
		fail[k] = true
	}
	ctx := functions.NewContext(b6.EmptyWorld{})
	ctx.Cores = c.Cores
	fs := api.FunctionSymbols{}
	for k, v := range functions.Functions() {
		fs[k] = v
	}
	fs["verif-f"] = func(_ *api.Context, v interface{}) (interface{}, error) {
		atomic.AddInt32(&inflight, 1)
		defer atomic.AddInt32(&inflight, -1)
		touch()
		apply(p.draw())
		defer touch()
		k, ok := v.(int)
		if !ok {
			return nil, fmt.Errorf("verif-f: expected int, found %T", v)
		}
		if fail[k] {
			if c.Seed%3 == 0 {
				// an error that wraps context.Canceled although nothing is being cancelled (a function that gave up on
				// something of its own): it is the item's error like any other
				return nil, fmt.Errorf("verif-fail-%d: %w", k, context.Canceled)
			}
			return nil, fmt.Errorf("verif-fail-%d", k)
		}
		return k*10 + 1, nil
	}
	fs["verif-warm"] = func(_ *api.Context, v interface{}) (interface{}, error) { return v, nil }
	fs["verif-input"] = func(_ *api.Context) (b6.Collection[any, any], error) {
		return b6.Collection[any, any]{AnyCollection: &inputCollection{n: c.NI, p: p, touch: touch}}, nil
	}
	ctx.FunctionSymbols = fs
	var f string
	switch c.Fn {
	case "native":
		f = "verif-f"
	case "lambda":
		f = "{x -> verif-f x}"
	case "lambda-pure": // no native call in the body: only the forked VMs run
		f = "{x -> add x 7}"
		if len(c.Fail) > 0 {
			return vh.Fail("harness-case", "lambda-pure cannot fail")
		}
	case "lambda-outer":
		// the function refers to a variable of an ENCLOSING lambda (and cannot be eta-reduced into a partial call):
		// the forked VMs need the argument slots that were in scope when map-parallel was called
		f = "{x -> verif-f (add-ints k x)}"
	case "lambda-lazy":
		// the function returns a LAZY collection, read by the caller after the parallel run has ended
		f = "{x -> map (collection (pair 1 x)) {y -> verif-f y}}"
		if len(c.Fail) > 0 {
			return vh.Fail("harness-case", "lambda-lazy: the failure would only show when the inner collection is read")
		}
	default:
		return vh.Fail("harness-case", "unknown fn %q", c.Fn)
	}
	if c.Seed%2 == 0 {
		// the context is not fresh: a server's context has evaluated other calls before this one
		// (a map over a native function, iterated: the function is applied through the context's VM)
		r, err := api.EvaluateString("map (collection (pair 1 2) (pair 2 3)) verif-warm", ctx)
		if err != nil {
			return vh.Fail("harness-warm", "warming up the context: %v", err)
		}
		if col, ok := r.(b6.UntypedCollection); ok {
			it := col.BeginUntyped()
			for {
				ok, err := it.Next()
				if err != nil || !ok {
					break
				}
			}
		}
	}
	obs := mapObs{Yielded: []int{}}
	var wrong string
	type lazyValue struct {
		k     int
		inner b6.UntypedCollection
	}
	var lazy []lazyValue
	run := func(op string) func() error {
		return func() error {
			text := op + " (verif-input) " + f
			if c.Fn == "lambda-outer" {
				text = "call {k -> " + text + "} 0"
			}
			r, err := api.EvaluateString(text, ctx)
			if err != nil {
				return fmt.Errorf("evaluate: %w", err)
			}
			col, ok := r.(b6.UntypedCollection)
			if !ok {
				return fmt.Errorf("evaluate: expected a collection, found %T", r)
			}
			i := col.BeginUntyped()
			for {
				touch()
				ok, err := i.Next()
				touch()
				if err != nil {
					return err
				}
				if !ok {
					return nil
				}
				key, kok := i.Key().(int)
				k := key - 100
				if c.Fn == "lambda-lazy" {
					if inner, ok := i.Value().(b6.UntypedCollection); ok && kok {
						lazy = append(lazy, lazyValue{k, inner})
					} else if wrong == "" {
						wrong = fmt.Sprintf("position %d: key %v value %T is not a collection", len(obs.Yielded)+1, i.Key(), i.Value())
					}
					obs.Yielded = append(obs.Yielded, k)
					apply(p.draw())
					continue
				}
				// `add` yields the language's number type: compare the printed value
				if !kok || fmt.Sprint(i.Value()) != strconv.Itoa(mapResult(k, c.Fn)) {
					if wrong == "" {
						wrong = fmt.Sprintf("position %d: key %v value %v", len(obs.Yielded)+1, i.Key(), i.Value())
					}
				}
				obs.Yielded = append(obs.Yielded, k)
				apply(p.draw()) // the consumer is a yield point too
			}
		}
	}
	quiet := time.Duration(c.QuietMs) * time.Millisecond
	if quiet == 0 {
		quiet = 300 * time.Millisecond
	}
	w := watch(run("map-parallel"), "functions.(*mapParallelCollection)", quiet, func() (int32, int64) {
		return atomic.LoadInt32(&inflight), atomic.LoadInt64(&last)
	})
	obs.Ms = w.elapsed.Milliseconds()
	desc := fmt.Sprintf("map-parallel cores=%d items=%d fail=%v fn=%s seed=%d", c.Cores, c.NI, c.Fail, c.Fn, c.Seed)
	shape := fmt.Sprintf("fn=%s:%s", c.Fn, map[bool]string{true: "failing", false: "nofail"}[len(c.Fail) > 0])
	stats := map[string]int{"map_runs": 1}
	erritem := 0
	switch {
	case w.panicv != "":
		return vh.Verdict{OK: false, Key: "map-parallel:panic:" + shape, Msg: desc + ": panicked: " + w.panicv, Obs: obs}
	case w.hung:
		obs.Res = "hang"
		obs.Parked = w.parked
		where := []string{}
		for _, p := range obs.Parked {
			where = append(where, p.State+" "+p.Where)
		}
		return vh.Verdict{OK: false, Key: "map-parallel:hang:" + shape, Obs: obs, Stats: stats,
			Msg: fmt.Sprintf("%s: the iteration does not end; yielded %v, then every goroutine is parked: %s", desc, obs.Yielded, strings.Join(where, "; "))}
	case w.err != nil:
		obs.Err = w.err.Error()
		if m := failItem.FindStringSubmatch(obs.Err); m != nil {
			erritem, _ = strconv.Atoi(m[1])
			obs.Res = "err:" + m[1]
		} else {
			obs.Res = "err:other"
		}
	default:
		obs.Res = "nil"
	}
	// lazy values are read now, after the parallel run has ended, as a caller that collects the results first does
	if c.Fn == "lambda-lazy" && wrong == "" {
		for _, lv := range lazy {
			it := lv.inner.BeginUntyped()
			ok, err := it.Next()
			if err != nil || !ok {
				wrong = fmt.Sprintf("the lazy value yielded for item %d cannot be read after the run: ok=%v err=%v (map's value reads as %d)", lv.k, ok, err, mapResult(lv.k, "lambda"))
				break
			}
			if fmt.Sprint(it.Value()) != strconv.Itoa(mapResult(lv.k, "lambda")) {
				wrong = fmt.Sprintf("the lazy value yielded for item %d reads as %v, map's as %d", lv.k, it.Value(), mapResult(lv.k, "lambda"))
				break
			}
		}
	}
	// ---- the property itself ----
	if wrong != "" {
		return vh.Verdict{OK: false, Key: "map-parallel:wrong-item:" + shape, Obs: obs, Stats: stats,
			Msg: fmt.Sprintf("%s: %s is not what map yields there; yielded %v", desc, wrong, obs.Yielded)}
	}
	minFail := c.NI + 1
	for _, k := range c.Fail {
		if k < minFail {
			minFail = k
		}
	}
	for i, k := range obs.Yielded {
		if k != i+1 || k >= minFail {
			return vh.Verdict{OK: false, Key: "map-parallel:not-a-prefix:" + shape, Obs: obs, Stats: stats,
				Msg: fmt.Sprintf("%s: yielded %v is not a prefix of map's results (map fails at item %d)", desc, obs.Yielded, minFail)}
		}
	}
	if len(c.Fail) == 0 {
		if obs.Res != "nil" || len(obs.Yielded) != c.NI {
			return vh.Verdict{OK: false, Key: "map-parallel:incomplete-without-failure:" + shape, Obs: obs, Stats: stats,
				Msg: fmt.Sprintf("%s: nothing fails; yielded %v, ended with %s %s", desc, obs.Yielded, obs.Res, obs.Err)}
		}
	} else {
		if obs.Res == "nil" {
			return vh.Verdict{OK: false, Key: "map-parallel:nil-on-failure:" + shape, Obs: obs, Stats: stats,
				Msg: fmt.Sprintf("%s: ended without an error after yielding %v", desc, obs.Yielded)}
		}
		if !fail[erritem] {
			return vh.Verdict{OK: false, Key: "map-parallel:wrong-error:" + shape, Obs: obs, Stats: stats,
				Msg: fmt.Sprintf("%s: ended with %q, which is not the error of a failing item", desc, obs.Err)}
		}
	}
	// ---- conformance with the protocol model ----
	if c.Model {
		o := joinInts(obs.Yielded) + "|" + obs.Res
		if !contains(c.Allowed, o) {
			return vh.Verdict{OK: false, Key: fmt.Sprintf("map-parallel:outcome-not-in-model:cores=%d:items=%d:fail=%v:%s", c.Cores, c.NI, c.Fail, o),
				Obs: obs, Stats: stats, Msg: fmt.Sprintf("%s: outcome %s is not an outcome of MapParallel.tla (allowed: %v)", desc, o, c.Allowed)}
		}
		stats["outcome_in_model"] = 1
	}
	// differential: map itself on the same input (sequential; gives the reference the statement names)
	if c.Seed%16 == 0 {
		var ref []int
		saved := obs.Yielded
		obs.Yielded = []int{}
		err := run("map")()
		ref, obs.Yielded = obs.Yielded, saved
		if len(c.Fail) == 0 {
			if err != nil || vh.Canon(ref) != vh.Canon(obs.Yielded) {
				return vh.Verdict{OK: false, Key: "map-parallel:differs-from-map:" + shape, Obs: obs,
					Msg: fmt.Sprintf("%s: map yields %v (err %v), map-parallel %v", desc, ref, err, obs.Yielded)}
			}
		} else if len(obs.Yielded) > len(ref) {
			return vh.Verdict{OK: false, Key: "map-parallel:differs-from-map:" + shape, Obs: obs,
				Msg: fmt.Sprintf("%s: map yields %v before failing, map-parallel %v", desc, ref, obs.Yielded)}
		}
		stats["compared_with_map"] = 1
	}
	return vh.Verdict{OK: true, Obs: obs, Stats: stats}
}

func main() {
	log.SetOutput(io.Discard) // the compact builder logs its stages
	vh.Tool("build-compact", buildCompact)
	vh.RegisterFunc("stream", runStream)
	vh.RegisterFunc("mappar", runMap)
	vh.Main()
}
