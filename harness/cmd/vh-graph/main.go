// vh-graph: executes ShortestPath.tla cases on the real graph.ShortestPathSearch (C30).
//
// A case is a small street network over the model points 0..n-1 (vertices of a regular polygon, see
// DESIGN.md 4.3): ways = point sequences with an integer weight per hop and a kind that fixes the
// way's tags (#highway / oneway / ...).  The adapter builds the network as a real world (basic,
// basic-mutable or compact), runs the real search with a Weights implementation that takes usability
// from the shipped graph.*Weights and the weight from the integer tag, and judges distances, the
// reachable set and the routes against the true distances carried by the case (computed by TLC from
// ShortestPath.tla) or, for large random networks, against an independent Bellman-Ford over the
// case's hops (the same definition, cross-validated by TLC on a sample).
package main

import (
	"crypto/sha1"
	"encoding/json"
	"fmt"
	"io"
	"log"
	"math"
	"sort"
	"strconv"
	"strings"

	"diagonal.works/b6"
	"diagonal.works/b6/graph"
	"diagonal.works/b6/ingest"
	"diagonal.works/b6/ingest/compact"
	"diagonal.works/b6/osm"
	"github.com/golang/geo/s2"

	"verif/harness/vh"
)

// ---------------------------------------------------------------- case format

type wayJ struct {
	Pts  []int  `json:"pts"`
	W    int    `json:"w"`
	Kind string `json:"kind"`
}

// A harness case is a BATCH: one world (building a compact world costs seconds whatever its size) that
// holds the networks of all its sub-cases side by side (disjoint ids), each searched on its own.
type batchJ struct {
	ID    int     `json:"id"`
	World string  `json:"world"`
	Subs  []caseJ `json:"subs"`
}

type caseJ struct {
	ID      int    `json:"id"` // index of the sub-case within the batch
	N       int    `json:"n"`
	Ways    []wayJ `json:"ways"`
	Origin  int    `json:"origin"`
	Limit   int    `json:"limit"`
	To      int    `json:"to"` // -1: ExpandSearch (all points); otherwise ExpandSearchTo(to)
	Profile string `json:"profile"`
	World   string `json:"-"` // basic | mutable | compact (of the batch)
	// expectation computed by TLC (absent for the large random networks: then the adapter's own
	// Bellman-Ford over the hops is the oracle, and "obs" is returned for validation by TLC)
	Truth []int `json:"truth,omitempty"` // per point: true distance ignoring the limit, -1 = unreachable
	Nodes []int `json:"nodes,omitempty"` // the spec's graph nodes (way ends and shared points)
	// concrete naming (seeded by the orchestrator): model point i is OSM node 1000+Perm[i], way k is OSM way 5000+WayPerm[k]
	Perm    []int `json:"perm,omitempty"`
	WayPerm []int `json:"wayperm,omitempty"`
	Report  bool  `json:"report,omitempty"` // return the observation also when the case passes
	// binding self-test only: take Truth as given even where the adapter's Bellman-Ford disagrees
	TrustTruth bool `json:"trust_truth,omitempty"`
}

const weightTag = "verif:w"

// tags of a way kind; the meaning of a kind under a profile is Usable/OneWay in ShortestPath.tla,
// transcribed below in kindUsable/kindOneWay (only used for the oracle and for judging routes).
func kindTags(kind string) [][2]string {
	switch kind {
	case "res":
		return [][2]string{{"#highway", "residential"}}
	case "one":
		return [][2]string{{"#highway", "residential"}, {"oneway", "yes"}}
	case "foot":
		return [][2]string{{"#highway", "footway"}}
	case "busone":
		return [][2]string{{"#highway", "residential"}, {"oneway", "yes"}, {"oneway:bus", "no"}}
	case "conn":
		return [][2]string{{"diagonal", "connection"}}
	case "none":
		return [][2]string{{"railway", "rail"}}
	}
	panic("unknown kind " + kind)
}

func kindUsable(profile, kind string) bool {
	switch profile {
	case "car", "bus":
		return kind == "res" || kind == "one" || kind == "busone" || kind == "conn"
	case "walk":
		return kind != "none"
	}
	panic("unknown profile " + profile)
}

func kindOneWay(profile, kind string) bool {
	switch profile {
	case "car":
		return kind == "one" || kind == "busone"
	case "bus":
		return kind == "one"
	case "walk":
		return false
	}
	panic("unknown profile " + profile)
}

// intWeights: usability from the shipped weights of the profile, weight = integer tag per hop.
type intWeights struct{ inner graph.Weights }

func (w intWeights) IsUseable(s b6.Segment) bool { return w.inner.IsUseable(s) }
func (w intWeights) Weight(s b6.Segment) float64 {
	v, err := strconv.Atoi(s.Feature.Get(weightTag).Value.String())
	if err != nil {
		panic("way without integer weight tag: " + s.Feature.FeatureID().String())
	}
	d := s.Last - s.First
	if d < 0 {
		d = -d
	}
	return float64(v * d)
}

func profileWeights(profile string) graph.Weights {
	switch profile {
	case "car":
		return intWeights{graph.CarWeights{}}
	case "bus":
		return intWeights{graph.BusWeights{}}
	case "walk":
		return intWeights{graph.SimpleHighwayWeights{}}
	}
	panic("unknown profile " + profile)
}

// ---------------------------------------------------------------- world construction

type net struct {
	c       *caseJ
	slot    int // position in the batch: ids and polygon centre are offset by it
	pointID []b6.FeatureID
	wayID   []b6.FeatureID
	idx     map[b6.FeatureID]int // point id -> model index
	widx    map[b6.FeatureID]int // way id -> model index
}

func newNet(c *caseJ, slot int) *net {
	n := &net{c: c, slot: slot, idx: map[b6.FeatureID]int{}, widx: map[b6.FeatureID]int{}}
	for i := 0; i < c.N; i++ {
		v := i
		if len(c.Perm) == c.N {
			v = c.Perm[i]
		}
		id := ingest.FromOSMNodeID(osm.NodeID(1000*(n.slot+1) + v))
		n.pointID = append(n.pointID, id)
		n.idx[id] = i
	}
	for k := range c.Ways {
		v := k
		if len(c.WayPerm) == len(c.Ways) {
			v = c.WayPerm[k]
		}
		id := ingest.FromOSMWayID(osm.WayID(1000*(n.slot+1) + v))
		n.wayID = append(n.wayID, id)
		n.widx[id] = k
	}
	return n
}

// model point i sits on vertex i of a regular n-gon (counter-clockwise), E7-exact coordinates
func vertex(i, n, slot int) s2.LatLng {
	if n < 3 {
		n = 3
	}
	a := 2 * math.Pi * float64(i) / float64(n)
	r := 0.0030
	lat := 51.53 + 0.01*float64(slot/25) + r*math.Sin(a)*0.62
	lng := -0.12 + 0.01*float64(slot%25) + r*math.Cos(a)
	return s2.LatLngFromDegrees(math.Round(lat*1e7)/1e7, math.Round(lng*1e7)/1e7)
}

func (n *net) features() []ingest.Feature {
	fs := make([]ingest.Feature, 0, n.c.N+len(n.c.Ways))
	for i := 0; i < n.c.N; i++ {
		p := &ingest.GenericFeature{}
		p.SetFeatureID(n.pointID[i])
		p.ModifyOrAddTag(b6.Tag{Key: b6.PointTag, Value: b6.NewPointExpressionFromLatLng(vertex(i, n.c.N, n.slot))})
		fs = append(fs, p)
	}
	for k, w := range n.c.Ways {
		p := &ingest.GenericFeature{}
		p.SetFeatureID(n.wayID[k])
		for _, kv := range kindTags(w.Kind) {
			p.AddTag(b6.Tag{Key: kv[0], Value: b6.NewStringExpression(kv[1])})
		}
		p.AddTag(b6.Tag{Key: weightTag, Value: b6.NewStringExpression(strconv.Itoa(w.W))})
		refs := make([]b6.AnyExpression, 0, len(w.Pts))
		for _, pt := range w.Pts {
			refs = append(refs, b6.FeatureIDExpression(n.pointID[pt]))
		}
		p.ModifyOrAddTag(b6.Tag{Key: b6.PathTag, Value: b6.NewExpressions(refs)})
		fs = append(fs, p)
	}
	return fs
}

func buildWorld(kind string, fs []ingest.Feature) (b6.World, error) {
	switch kind {
	case "basic":
		b := ingest.NewBasicWorldBuilder(&ingest.BuildOptions{Cores: 1})
		for _, f := range fs {
			b.AddFeature(f)
		}
		return b.Finish(&ingest.BuildOptions{Cores: 1, FailInvalidFeatures: true, FailClockwisePaths: true})
	case "mutable":
		w := ingest.NewBasicMutableWorld()
		for _, f := range fs {
			if err := w.AddFeature(f); err != nil {
				return nil, err
			}
		}
		return w, nil
	case "compact":
		index, err := compact.BuildInMemory(ingest.MemoryFeatureSource(fs), &compact.Options{Goroutines: 1, PointsScratchOutputType: compact.OutputTypeMemory})
		if err != nil {
			return nil, err
		}
		w := compact.NewWorld()
		if err := w.Merge(index); err != nil {
			return nil, err
		}
		return w, nil
	}
	return nil, fmt.Errorf("unknown world kind %q", kind)
}

// ---------------------------------------------------------------- the definition (oracle) in Go

type seg struct{ Way, First, Last int }

func (n *net) segUsable(s seg) bool {
	w := n.c.Ways[s.Way]
	if !kindUsable(n.c.Profile, w.Kind) {
		return false
	}
	return !kindOneWay(n.c.Profile, w.Kind) || s.Last > s.First
}

func (n *net) segWeight(s seg) int {
	d := s.Last - s.First
	if d < 0 {
		d = -d
	}
	return n.c.Ways[s.Way].W * d
}

// true distances over the hops (consecutive way vertices), ignoring the limit; -1 = unreachable
func (n *net) bellmanFord() []int {
	const inf = math.MaxInt32
	d := make([]int, n.c.N)
	for i := range d {
		d[i] = inf
	}
	d[n.c.Origin] = 0
	for changed := true; changed; {
		changed = false
		for k, w := range n.c.Ways {
			for i := 0; i+1 < len(w.Pts); i++ {
				for _, s := range []seg{{k, i, i + 1}, {k, i + 1, i}} {
					a, b := w.Pts[s.First], w.Pts[s.Last]
					if n.segUsable(s) && d[a] != inf && d[a]+w.W < d[b] {
						d[b] = d[a] + w.W
						changed = true
					}
				}
			}
		}
	}
	for i := range d {
		if d[i] == inf {
			d[i] = -1
		}
	}
	return d
}

// graph nodes as every world defines them: way end points and points on more than one way
func (n *net) nodes() []bool {
	cnt := make([]int, n.c.N)
	is := make([]bool, n.c.N)
	for _, w := range n.c.Ways {
		seen := map[int]bool{}
		for _, p := range w.Pts {
			if !seen[p] {
				seen[p] = true
				cnt[p]++
			}
		}
		is[w.Pts[0]] = true
		is[w.Pts[len(w.Pts)-1]] = true
	}
	for p := range cnt {
		if cnt[p] > 1 {
			is[p] = true
		}
	}
	return is
}

// ---------------------------------------------------------------- observation

type stepO struct {
	Dest int     `json:"dest"`
	Via  int     `json:"via"`
	Cost float64 `json:"cost"`
}

type obsT struct {
	Dist   map[string]float64 `json:"dist"`             // reported (finite) distances by model point
	Paths  map[string][]seg   `json:"paths,omitempty"`  // BuildPath per reported point
	Routes map[string][]stepO `json:"routes,omitempty"` // AllRoutes / BuildRoute per reported point
	Origin map[string]int     `json:"route_origin,omitempty"`
	ToDist *float64           `json:"to_dist,omitempty"`
	Other  []string           `json:"other,omitempty"`
}

func (n *net) segOf(s b6.Segment) (seg, error) {
	if s.Feature == nil {
		return seg{}, fmt.Errorf("segment without feature")
	}
	k, ok := n.widx[s.Feature.FeatureID()]
	if !ok {
		return seg{}, fmt.Errorf("segment on unknown feature %s", s.Feature.FeatureID())
	}
	return seg{k, s.First, s.Last}, nil
}

type problem struct {
	kind string // short class, part of the key
	msg  string
}

func (n *net) key(kind string) string {
	c := n.c
	ways := vh.Canon(c.Ways)
	if len(c.Ways) > 6 {
		// large random network: name it by a digest (the replay file has the network)
		ways = fmt.Sprintf("%d-ways-sha1:%x", len(c.Ways), sha1.Sum([]byte(ways)))[:32]
	}
	return fmt.Sprintf("%s|%s|%s|to=%d|origin=%d|limit=%d|ways=%s", kind, c.World, c.Profile, c.To, c.Origin, c.Limit, ways)
}

// checkChain: segs is a chain of usable segments from the origin to dest; returns its cost
func (n *net) checkChain(segs []seg, dest int) (int, string) {
	at := n.c.Origin
	cost := 0
	for i, s := range segs {
		if s.Way < 0 || s.Way >= len(n.c.Ways) {
			return 0, fmt.Sprintf("segment %d on unknown way", i)
		}
		w := n.c.Ways[s.Way]
		if s.First < 0 || s.Last < 0 || s.First >= len(w.Pts) || s.Last >= len(w.Pts) || s.First == s.Last {
			return 0, fmt.Sprintf("segment %d has indices %d..%d outside way %d", i, s.First, s.Last, s.Way)
		}
		if w.Pts[s.First] != at {
			return 0, fmt.Sprintf("segment %d (way %d %d..%d) starts at point %d, the chain is at point %d", i, s.Way, s.First, s.Last, w.Pts[s.First], at)
		}
		if !n.segUsable(s) {
			return 0, fmt.Sprintf("segment %d (way %d %d..%d, kind %s) is not traversable in this direction for %s", i, s.Way, s.First, s.Last, w.Kind, n.c.Profile)
		}
		cost += n.segWeight(s)
		at = w.Pts[s.Last]
	}
	if at != dest {
		return 0, fmt.Sprintf("chain ends at point %d, not at %d", at, dest)
	}
	return cost, ""
}

func isInt(f float64) bool { return f == math.Trunc(f) && !math.IsInf(f, 0) }

// ---------------------------------------------------------------- the adapter

type subFail struct {
	Sub int         `json:"sub"`
	Key string      `json:"key"`
	Msg string      `json:"msg"`
	Obs interface{} `json:"obs,omitempty"`
}

type batchObs struct {
	Fails   []subFail        `json:"fails,omitempty"`
	Reports map[string]obsT  `json:"reports,omitempty"` // sub index -> observation (when asked for)
	Truths  map[string][]int `json:"truths,omitempty"`  // sub index -> the adapter's Bellman-Ford (when asked for)
}

func runBatch(data json.RawMessage) vh.Verdict {
	var b batchJ
	if err := json.Unmarshal(data, &b); err != nil {
		return vh.Fail("harness-json", "bad case: %v", err)
	}
	if b.World == "" {
		b.World = "basic"
	}
	nets := make([]*net, len(b.Subs))
	var fs []ingest.Feature
	for j := range b.Subs {
		c := &b.Subs[j]
		c.ID = j
		c.World = b.World
		if c.Profile == "" {
			c.Profile = "car"
		}
		nets[j] = newNet(c, j)
		fs = append(fs, nets[j].features()...)
	}
	out := batchObs{Reports: map[string]obsT{}, Truths: map[string][]int{}}
	stats := map[string]int{"worlds_built": 1, "searches": 0}
	w, err := buildWorld(b.World, fs)
	if err != nil {
		// find the sub-case(s) the builder rejects
		for j, n := range nets {
			if _, err1 := buildWorld(worldFamily(b.World), n.features()); err1 != nil {
				out.Fails = append(out.Fails, subFail{Sub: j, Key: n.key("build-error"), Msg: "world construction failed: " + err1.Error()})
			}
		}
		if len(out.Fails) == 0 {
			out.Fails = append(out.Fails, subFail{Sub: -1, Key: "build-error|" + b.World, Msg: "world construction failed: " + err.Error()})
		}
		return vh.Verdict{OK: false, Key: out.Fails[0].Key, Msg: out.Fails[0].Msg, Obs: out, Stats: stats}
	}
	for j, n := range nets {
		var f *subFail
		var o obsT
		var truth []int
		if p := vh.Catch(func() { f, o, truth = n.judge(w, stats) }); p != "" {
			f = &subFail{Key: n.key(p), Msg: fmt.Sprintf("%s on %s", p, vh.Canon(n.c))}
		}
		stats["searches"]++
		if f != nil {
			f.Sub = j
			out.Fails = append(out.Fails, *f)
		}
		if n.c.Report {
			out.Reports[strconv.Itoa(j)] = o
			out.Truths[strconv.Itoa(j)] = truth
		}
	}
	if len(out.Fails) > 0 {
		return vh.Verdict{OK: false, Key: out.Fails[0].Key, Msg: out.Fails[0].Msg, Obs: out, Stats: stats}
	}
	return vh.Verdict{OK: true, Obs: out, Stats: stats}
}

func harnessFail(key, format string, args ...interface{}) *subFail {
	return &subFail{Key: key, Msg: fmt.Sprintf(format, args...)}
}

// judge runs the real search for one network of the world and compares with the definition
func (n *net) judge(w b6.World, stats map[string]int) (*subFail, obsT, []int) {
	c := n.c
	truth := n.bellmanFord()
	if c.Truth != nil {
		// the spec's definition and the adapter's transcription of it must agree (harness self-check)
		if len(c.Truth) != c.N {
			return harnessFail("harness-truth-len", "truth has %d entries, n=%d", len(c.Truth), c.N), obsT{}, truth
		}
		for i := range truth {
			if truth[i] != c.Truth[i] && !c.TrustTruth {
				return harnessFail("harness-oracle-disagrees", "TLC says the true distance of point %d is %d, the adapter's Bellman-Ford %d (case %s)", i, c.Truth[i], truth[i], vh.Canon(c)), obsT{}, truth
			}
		}
		truth = c.Truth
	}
	isNode := n.nodes()
	if c.Nodes != nil {
		m := map[int]bool{}
		for _, p := range c.Nodes {
			m[p] = true
		}
		for p := range isNode {
			if isNode[p] != m[p] {
				return harnessFail("harness-nodes-disagree", "spec and adapter disagree on whether point %d is a graph node (case %s)", p, vh.Canon(c)), obsT{}, truth
			}
		}
	}
	weights := profileWeights(c.Profile)
	origin := n.pointID[c.Origin]
	limit := float64(c.Limit)

	obs := obsT{Dist: map[string]float64{}, Paths: map[string][]seg{}, Routes: map[string][]stepO{}, Origin: map[string]int{}}
	var problems []problem
	add := func(kind, format string, args ...interface{}) {
		problems = append(problems, problem{kind, fmt.Sprintf(format, args...)})
	}

	s := graph.NewShortestPathSearchFromPoint(origin, weights, w)
	if c.To < 0 {
		s.ExpandSearch(limit, weights, graph.Points, w)
	} else {
		s.ExpandSearchTo(n.pointID[c.To], limit, weights, w)
	}
	dist := s.PointDistances()
	reported := map[int]float64{}
	for id, d := range dist {
		p, ok := n.idx[id]
		if !ok {
			add("unknown-point", "search reports %s which is not a point of the network", id)
			continue
		}
		if math.IsInf(d, 1) {
			continue
		}
		reported[p] = d
		obs.Dist[strconv.Itoa(p)] = d
	}
	routes := s.AllRoutes()

	judgePoint := func(p int, d float64) {
		// (1) distance = true distance, under the limit
		if truth[p] < 0 {
			add("dist", "point %d reported at distance %v but it is not reachable from the origin", p, d)
		} else if !isInt(d) || int(d) != truth[p] {
			add("dist", "point %d reported at distance %v, true shortest distance is %d", p, d, truth[p])
		} else if truth[p] >= c.Limit {
			add("limit", "point %d reported at distance %v which is not under the limit %d", p, d, c.Limit)
		}
		// (3) routes
		path := s.BuildPath(n.pointID[p])
		segs := make([]seg, 0, len(path))
		for _, ps := range path {
			sg, err := n.segOf(ps)
			if err != nil {
				add("route", "BuildPath(%d): %v", p, err)
				return
			}
			segs = append(segs, sg)
		}
		obs.Paths[strconv.Itoa(p)] = segs
		cost, bad := n.checkChain(segs, p)
		if bad != "" {
			add("route", "BuildPath(%d) is not a chain of traversable segments from the origin: %s (path %v)", p, bad, segs)
		} else if float64(cost) != d {
			add("route", "BuildPath(%d) costs %d, the reported distance is %v (path %v)", p, cost, d, segs)
		}
		r, ok := routes[n.pointID[p]]
		if !ok {
			add("route", "AllRoutes has no route for reported point %d", p)
			return
		}
		r2 := s.BuildRoute(n.pointID[p])
		steps := []stepO{}
		for _, st := range r.Steps {
			steps = append(steps, stepO{n.idx[st.Destination], n.widx[st.Via], st.Cost})
		}
		obs.Routes[strconv.Itoa(p)] = steps
		if o, ok := n.idx[r.Origin]; ok {
			obs.Origin[strconv.Itoa(p)] = o
		}
		if r.Origin != origin {
			add("route", "route to %d starts at %s, not at the origin", p, r.Origin)
		}
		if r2.Origin != r.Origin || len(r2.Steps) != len(r.Steps) {
			add("route", "BuildRoute(%d) and AllRoutes()[%d] differ", p, p)
		}
		if len(r.Steps) != len(segs) {
			add("route", "route to %d has %d steps, BuildPath %d segments", p, len(r.Steps), len(segs))
			return
		}
		for i, st := range r.Steps {
			wy := n.c.Ways[segs[i].Way]
			if _, ok := n.idx[st.Destination]; !ok || n.idx[st.Destination] != wy.Pts[segs[i].Last] || st.Via != n.wayID[segs[i].Way] {
				add("route", "route to %d step %d goes to %s via %s, BuildPath segment is way %d %d..%d", p, i, st.Destination, st.Via, segs[i].Way, segs[i].First, segs[i].Last)
			}
		}
		if len(r.Steps) > 0 && r.Steps[len(r.Steps)-1].Cost != d {
			add("route", "route to %d ends with cost %v, the reported distance is %v", p, r.Steps[len(r.Steps)-1].Cost, d)
		}
	}

	if c.To < 0 {
		ps := make([]int, 0, len(reported))
		for p := range reported {
			ps = append(ps, p)
		}
		sort.Ints(ps)
		for _, p := range ps {
			judgePoint(p, reported[p])
		}
		// (2) every graph node whose true distance is under the limit is reported
		for p := 0; p < c.N; p++ {
			if p != c.Origin && isNode[p] && truth[p] >= 0 && truth[p] < c.Limit {
				if _, ok := reported[p]; !ok {
					add("missing", "point %d has true distance %d < limit %d but is not reported", p, truth[p], c.Limit)
				}
			}
		}
	} else {
		d := s.CurrentDistance(n.pointID[c.To])
		if !math.IsInf(d, 1) {
			obs.ToDist = &d
		}
		if !isNode[c.To] && c.To != c.Origin {
			stats["skipped_destination_not_a_graph_node"]++
			return nil, obs, truth
		}
		within := truth[c.To] >= 0 && truth[c.To] < c.Limit
		if c.To == c.Origin {
			// destination = origin: nothing is specified beyond "no route is needed"
			if p := s.BuildPath(origin); len(p) != 0 {
				add("route", "BuildPath(origin) after ExpandSearchTo(origin) has %d segments", len(p))
			}
		} else if within {
			if math.IsInf(d, 1) {
				add("missing", "destination %d has true distance %d < limit %d but ExpandSearchTo does not reach it", c.To, truth[c.To], c.Limit)
			} else {
				judgePoint(c.To, d)
			}
			// the convenience wrapper
			cp := graph.ComputeShortestPath(origin, n.pointID[c.To], limit, weights, w)
			segs := []seg{}
			for _, ps := range cp {
				if sg, err := n.segOf(ps); err == nil {
					segs = append(segs, sg)
				}
			}
			cost, bad := n.checkChain(segs, c.To)
			if bad != "" {
				add("route", "ComputeShortestPath(%d,%d) is not a chain from the origin: %s (path %v)", c.Origin, c.To, bad, segs)
			} else if cost != truth[c.To] {
				add("route", "ComputeShortestPath(%d,%d) costs %d, true shortest distance is %d", c.Origin, c.To, cost, truth[c.To])
			}
		} else {
			if !math.IsInf(d, 1) {
				if truth[c.To] < 0 {
					add("dist", "destination %d reported at distance %v but it is not reachable", c.To, d)
				} else {
					add("limit", "destination %d reported at distance %v, its true distance %d is not under the limit %d", c.To, d, truth[c.To], c.Limit)
				}
			}
			if p := s.BuildPath(n.pointID[c.To]); len(p) != 0 {
				add("route", "BuildPath(%d) has %d segments although the destination is not within the limit", c.To, len(p))
			}
		}
	}

	stats["points_reported"] += len(reported)
	stats["routes_checked"] += len(obs.Paths)
	if len(problems) == 0 {
		return nil, obs, truth
	}
	// ---- classify: is the search wrong, or the graph the world hands to it?
	kind := problems[0].kind
	cls, detail := n.classify(w, weights, reported)
	msgs := []string{}
	for i, p := range problems {
		if i < 4 {
			msgs = append(msgs, p.msg)
		}
	}
	msg := fmt.Sprintf("%s world, %s, origin %d, limit %d, to %d, ways %s: %s", c.World, c.Profile, c.Origin, c.Limit, c.To, vh.Canon(c.Ways), strings.Join(msgs, "; "))
	if detail != "" {
		msg += " [" + detail + "]"
	}
	key := n.key(kind)
	if cls != "" {
		key = cls
	}
	return &subFail{Key: key, Msg: msg, Obs: obs}, obs, truth
}

// classify names a narrow signature when the mismatch is rooted outside the search loop:
//   - the world's Traverse does not yield the segments of the ways (the search then agrees with a
//     Bellman-Ford over what Traverse returned),
//   - the search starts empty because NewShortestPathSearchFromPoint considers the origin unconnected.
func (n *net) classify(w b6.World, weights graph.Weights, reported map[int]float64) (string, string) {
	c := n.c
	// Which (way, position, direction) does the world's Traverse leave from?  Worlds may cut a way into
	// finer segments than the model (the compact world stops at every vertex), which is harmless; what
	// matters is that from every vertex of a way a segment leaves in each direction the way continues.
	type leave struct {
		Way, First int
		Forward    bool
	}
	world := map[leave]bool{}
	var extra []seg
	for p := 0; p < c.N; p++ {
		ss := w.Traverse(n.pointID[p])
		for ss.Next() {
			sg, err := n.segOf(ss.Segment())
			if err != nil || sg.First < 0 || sg.Last < 0 || sg.First >= len(c.Ways[sg.Way].Pts) || sg.Last >= len(c.Ways[sg.Way].Pts) || c.Ways[sg.Way].Pts[sg.First] != p {
				extra = append(extra, sg)
				continue
			}
			if sg.Last != sg.First {
				world[leave{sg.Way, sg.First, sg.Last > sg.First}] = true
			}
		}
	}
	var missing []seg
	for k, wy := range c.Ways {
		for i := range wy.Pts {
			if i+1 < len(wy.Pts) && !world[leave{k, i, true}] {
				missing = append(missing, seg{k, i, i + 1})
			}
			if i > 0 && !world[leave{k, i, false}] {
				missing = append(missing, seg{k, i, i - 1})
			}
		}
	}
	if len(reported) == 0 {
		// nothing at all is reported: origin considered unconnected
		usable, oneway := 0, 0
		for _, wy := range c.Ways {
			on := false
			for _, p := range wy.Pts {
				if p == c.Origin {
					on = true
				}
			}
			if on {
				if kindUsable(c.Profile, wy.Kind) {
					usable++
					if kindOneWay(c.Profile, wy.Kind) {
						oneway++
					}
				}
			}
		}
		if usable > 0 && usable == oneway {
			return "origin-only-on-oneway-ways:search-starts-empty:" + c.Profile, "every usable way at the origin is one-way; NewShortestPathSearchFromPoint tests IsUseable on a zero-length segment"
		}
	}
	if len(missing)+len(extra) > 0 {
		// does the search agree with the graph the world gave it?
		consistent := true
		wd := n.bfOverTraverse(w, weights)
		if c.To >= 0 {
			d, ok := reported[c.To]
			exp := wd[c.To] >= 0 && wd[c.To] < c.Limit
			consistent = ok == exp && (!ok || float64(wd[c.To]) == d)
		} else {
			for p := 0; p < c.N; p++ {
				d, ok := reported[p]
				exp := wd[p] >= 0 && wd[p] < c.Limit
				if ok != exp && p != c.Origin {
					consistent = false
				}
				if ok && (wd[p] < 0 || float64(wd[p]) != d) {
					consistent = false
				}
			}
		}
		sortSegs(missing)
		sortSegs(extra)
		detail := fmt.Sprintf("Traverse of the %s world: no segment leaves towards %v, malformed segments %v (way, from position, towards position)", c.World, missing, extra)
		if consistent {
			closedOnly := true
			dirs := map[string]bool{}
			for _, sg := range missing {
				wy := c.Ways[sg.Way]
				closed := wy.Pts[0] == wy.Pts[len(wy.Pts)-1]
				if !(closed && wy.Pts[sg.First] == wy.Pts[0]) {
					closedOnly = false
				}
				if sg.Last > sg.First {
					dirs["forward"] = true
				} else {
					dirs["backward"] = true
				}
			}
			if closedOnly && len(extra) == 0 && len(dirs) == 1 {
				for d := range dirs {
					return fmt.Sprintf("traverse:%s:closed-way:no-%s-segment-from-the-closing-point", worldFamily(c.World), d), detail
				}
			}
			if closedOnly && len(extra) == 0 {
				return fmt.Sprintf("traverse:%s:closed-way:segments-missing-at-the-closing-point", worldFamily(c.World)), detail
			}
			return n.key("traverse"), detail
		}
		return "", detail
	}
	return "", ""
}

func worldFamily(w string) string {
	if w == "mutable" {
		return "basic" // same traverse() implementation
	}
	return w
}

func sortSegs(s []seg) {
	sort.Slice(s, func(i, j int) bool {
		if s[i].Way != s[j].Way {
			return s[i].Way < s[j].Way
		}
		if s[i].First != s[j].First {
			return s[i].First < s[j].First
		}
		return s[i].Last < s[j].Last
	})
}

// Bellman-Ford over the segments the world's Traverse returns (closure from the origin)
func (n *net) bfOverTraverse(w b6.World, weights graph.Weights) []int {
	const inf = math.MaxInt32
	d := make([]int, n.c.N)
	for i := range d {
		d[i] = inf
	}
	d[n.c.Origin] = 0
	for changed := true; changed; {
		changed = false
		for p := 0; p < n.c.N; p++ {
			if d[p] == inf {
				continue
			}
			ss := w.Traverse(n.pointID[p])
			for ss.Next() {
				sg := ss.Segment()
				if !weights.IsUseable(sg) {
					continue
				}
				q, ok := n.idx[sg.LastFeatureID()]
				if !ok {
					continue
				}
				if nd := d[p] + int(weights.Weight(sg)); nd < d[q] {
					d[q] = nd
					changed = true
				}
			}
		}
	}
	for i := range d {
		if d[i] == inf {
			d[i] = -1
		}
	}
	return d
}

func main() {
	log.SetOutput(io.Discard) // the compact builder logs every phase
	vh.RegisterFunc("graph", runBatch)
	vh.Main()
}
