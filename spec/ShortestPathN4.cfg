\* thorough: 4 points, up to 3 two-point ways (segments = ways), two-way and one-way
SPECIFICATION Spec
CONSTANTS
  NPoints = 4
  MaxWays = 3
  MaxLen = 2
  ClosedLens = {}
  Ws = {1, 2}
  Kinds = {"res", "one"}
  Limits = {2, 3, 4, 6}
  Profiles = {"car"}
  Origins = {0}
  Modes = {"all"}
  OriginTest = "whole-way"
  Filter = "any"
  Explore = TRUE
  CaseFile = ""
INVARIANTS Correct
CHECK_DEADLOCK TRUE
