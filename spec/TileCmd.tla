---- MODULE TileCmd ----
(* Vector tile geometry command streams (Mapbox vector tile specification 2.1, section 4.3), as produced
   by renderer/encoder.go (property C33).

   The module defines
     * Encode(kind, rings): the command stream the specification prescribes for a geometry
       (MoveTo / LineTo / ClosePath command integers (id & 7) | (count << 3), zigzag coded deltas
       against a cursor that starts at (0,0) for every feature and is not moved by ClosePath);
     * a DECODER as a state machine (one step per command integer or parameter pair) over the variables
       pos, cx, cy, cmd, cnt, out, err;
     * B6Order(rings, hole): the vertex order in which renderer.simplifyAndEncodePolygon emits a loop
       (holes: first vertex, then the others backwards).
   TileCmd.cfg lets TLC check on every small ring set that the decoder terminates without error in a
   state whose output is the encoded rings (mode "mvt"), and that polygons whose loops all have the same
   orientation (as S2 polygons do) decode, after B6Order, to the same vertex cycles with holes wound
   opposite to outer rings (mode "b6").
   TileCmdTrace.tla reuses the same decoder to validate command streams logged from the real encoder. *)
EXTENDS Integers, Sequences, FiniteSets, TLC, Json
CONSTANTS Pts,       \* points used to build small rings, e.g. {<<0,0>>, <<3,-1>>, <<-2,2>>, <<1,4>>}
          MaxRing,   \* longest ring
          MaxRings   \* most rings per feature
VARIABLES mode, kind, rings, hole,          \* the input (constant during a behaviour)
          stream, pos, cx, cy, cmd, cnt, out, err
input == <<mode, kind, rings, hole>>
dec   == <<stream, pos, cx, cy, cmd, cnt, out, err>>
vars  == <<mode, kind, rings, hole, stream, pos, cx, cy, cmd, cnt, out, err>>

DefaultPts == {<<0, 0>>, <<3, -1>>, <<-2, 2>>, <<1, 4>>}    \* cfg: Pts <- DefaultPts (negative and zero deltas occur)
SmallPts == {<<0, 0>>, <<3, -1>>, <<-2, 2>>}
MoveToId == 1
LineToId == 2
ClosePathId == 7
CmdInt(id, count) == id + 8 * count
Zig(v) == IF v >= 0 THEN 2 * v ELSE -2 * v - 1
Unzig(u) == IF u % 2 = 0 THEN u \div 2 ELSE -((u + 1) \div 2)

\* ---------------------------------------------------------------- encoding (the specification's)
RECURSIVE DeltasFrom(_, _, _)
DeltasFrom(ps, x, y) == IF ps = <<>> THEN <<>>
                        ELSE <<Zig(Head(ps)[1] - x), Zig(Head(ps)[2] - y)>> \o DeltasFrom(Tail(ps), Head(ps)[1], Head(ps)[2])
Last(s) == s[Len(s)]

EncodeRing(r, x, y, closed) ==
  <<CmdInt(MoveToId, 1)>> \o DeltasFrom(<<r[1]>>, x, y)
  \o (IF Len(r) > 1 THEN <<CmdInt(LineToId, Len(r) - 1)>> \o DeltasFrom(Tail(r), r[1][1], r[1][2]) ELSE <<>>)
  \o (IF closed THEN <<CmdInt(ClosePathId, 1)>> ELSE <<>>)

RECURSIVE EncodeRings(_, _, _, _)
EncodeRings(rs, x, y, closed) ==
  IF rs = <<>> THEN <<>>
  ELSE EncodeRing(Head(rs), x, y, closed) \o EncodeRings(Tail(rs), Last(Head(rs))[1], Last(Head(rs))[2], closed)

Encode(k, rs) ==
  IF k = "point" THEN <<CmdInt(MoveToId, Len(rs))>> \o DeltasFrom([i \in DOMAIN rs |-> rs[i][1]], 0, 0)   \* (multi)point
  ELSE EncodeRings(rs, 0, 0, k = "polygon")

Reverse(s) == [i \in DOMAIN s |-> s[Len(s) + 1 - i]]
B6Ring(r, isHole) == IF isHole THEN <<r[1]>> \o Reverse(Tail(r)) ELSE r
B6Order(rs, hs) == [i \in DOMAIN rs |-> B6Ring(rs[i], hs[i])]

\* ---------------------------------------------------------------- the decoder
Done == pos > Len(stream) /\ cnt = 0
Start(s) == /\ stream = s /\ pos = 1 /\ cx = 0 /\ cy = 0 /\ cmd = 0 /\ cnt = 0 /\ out = <<>> /\ err = ""

Fail(why) == /\ err' = why /\ UNCHANGED <<stream, pos, cx, cy, cmd, cnt, out>>

ReadCommand ==
  /\ err = "" /\ cnt = 0 /\ pos <= Len(stream)
  /\ LET id == stream[pos] % 8  count == stream[pos] \div 8 IN
     CASE id \in {MoveToId, LineToId} ->
            IF count = 0 THEN Fail("count 0")
            ELSE /\ cmd' = id /\ cnt' = count /\ pos' = pos + 1 /\ UNCHANGED <<stream, cx, cy, out, err>>
       [] id = ClosePathId ->
            IF count # 1 \/ out = <<>> \/ Last(out).closed THEN Fail("bad ClosePath")
            ELSE /\ out' = [out EXCEPT ![Len(out)].closed = TRUE] /\ pos' = pos + 1
                 /\ UNCHANGED <<stream, cx, cy, cmd, cnt, err>>
       [] OTHER -> Fail("unknown command")

Param ==
  /\ err = "" /\ cnt > 0
  /\ IF pos + 1 > Len(stream) THEN Fail("parameters missing")
     ELSE LET x == cx + Unzig(stream[pos])  y == cy + Unzig(stream[pos + 1]) IN
          IF cmd = LineToId /\ (out = <<>> \/ Last(out).closed) THEN Fail("LineTo without MoveTo")
          ELSE /\ cx' = x /\ cy' = y /\ cnt' = cnt - 1 /\ pos' = pos + 2
               /\ out' = IF cmd = MoveToId THEN Append(out, [pts |-> << <<x, y>> >>, closed |-> FALSE])
                         ELSE [out EXCEPT ![Len(out)].pts = Append(@, <<x, y>>)]
               /\ UNCHANGED <<stream, cmd, err>>

DecodeStep == (ReadCommand \/ Param) /\ UNCHANGED input
Pts2(o) == [i \in DOMAIN o |-> o[i].pts]

\* ---------------------------------------------------------------- geometry helpers
RECURSIVE Area2From(_, _)
Area2From(p, i) == IF i > Len(p) THEN 0
                   ELSE LET j == (i % Len(p)) + 1 IN p[i][1] * p[j][2] - p[j][1] * p[i][2] + Area2From(p, i + 1)
Area2(p) == Area2From(p, 1)                           \* twice the signed (shoelace) area
Sign(v) == IF v > 0 THEN 1 ELSE IF v < 0 THEN -1 ELSE 0
SameCycle(a, b) ==                                    \* same vertex cycle: any rotation, either direction
  /\ Len(a) = Len(b)
  /\ Len(a) = 0 \/ \E r \in 0..(Len(a) - 1) :
        \/ \A i \in 1..Len(a) : a[((i - 1 + r) % Len(a)) + 1] = b[i]
        \/ \A i \in 1..Len(a) : a[((r + Len(a) - (i - 1)) % Len(a)) + 1] = b[i]

\* ---------------------------------------------------------------- model checking over small ring sets
RingsOfLen(lo, hi) == UNION {[1..n -> Pts] : n \in lo..hi}
RingSets(R) == UNION {[1..n -> R] : n \in 1..MaxRings}
Triangles == {r \in RingsOfLen(3, 3) : Area2(r) # 0}

Init ==
  \/ /\ mode = "mvt"
     /\ \/ kind = "point"   /\ rings \in RingSets(RingsOfLen(1, 1))
        \/ kind = "line"    /\ rings \in RingSets(RingsOfLen(2, MaxRing))
        \/ kind = "polygon" /\ rings \in RingSets(RingsOfLen(3, MaxRing))
     /\ hole = [i \in DOMAIN rings |-> FALSE]
     /\ Start(Encode(kind, rings))
  \/ /\ mode = "b6" /\ kind = "polygon"
     /\ rings \in {rs \in [1..2 -> Triangles] : Sign(Area2(rs[1])) = Sign(Area2(rs[2]))}   \* S2: all loops one orientation
     /\ hole = <<FALSE, TRUE>>
     /\ Start(Encode("polygon", B6Order(rings, hole)))
Next == DecodeStep
Spec == Init /\ [][Next]_vars

\* decoding never fails on an encoded stream, cannot get stuck before the end ...
NoError == err = ""
Progress == (err = "" /\ ~Done) => ENABLED Next
\* ... and ends with exactly the rings that were encoded
RoundTrip == (Done /\ mode = "mvt") =>
               /\ Pts2(out) = (IF kind = "point" THEN [i \in DOMAIN rings |-> <<rings[i][1]>>] ELSE rings)
               /\ \A i \in DOMAIN out : out[i].closed = (kind = "polygon")
\* b6's emission order: same vertex cycles, holes wound opposite to outer rings
B6Winding == (Done /\ mode = "b6") =>
               /\ Len(out) = Len(rings)
               /\ \A i \in DOMAIN out : out[i].closed /\ SameCycle(out[i].pts, rings[i])
               /\ Sign(Area2(out[1].pts)) = -Sign(Area2(out[2].pts)) /\ Area2(out[1].pts) # 0
\* export of the single-geometry inputs (the real encoder takes one geometry per feature)
Export == (pos = 1 /\ mode = "mvt" /\ Len(rings) = 1 /\ (kind = "polygon" => Area2(rings[1]) # 0)) =>
            PrintT(<<"CASE", ToJson([kind |-> kind, rings |-> rings, stream |-> stream])>>)
====
