SPECIFICATION Spec
CONSTANTS
  Keys = {1, 2, 3, 4, 5, 6, 7, 8, 9, 10, 11, 12, 13, 14, 15, 16, 17, 18, 19, 20, 21, 22}
  Targets = {0, 1, 2, 3, 4, 5, 6, 7, 8, 9, 10, 11, 12, 13, 14, 15, 16, 17, 18, 19, 20, 21, 22, 23}
  Tokens = {"t"}
  RepToken = "t"
  MaxHoles = 1
  Queries <- ListQuery
  ExportQueries <- ListQuery
  Indices <- DenseIndices
INVARIANTS TypeOK DenIsDenotation ValueInDenotation
PROPERTIES Monotone NextStrict NoSkip FailsOnlyWhenExhausted Frozen
ACTION_CONSTRAINT Emit
VIEW View
CHECK_DEADLOCK FALSE
