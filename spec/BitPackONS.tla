---- MODULE BitPackONS ----
(* UK ONS boundary code <-> feature ID (ids.go: FeatureIDFromUKONSCode / UKONSCodeFromFeatureID), C10.

   HAND TRANSCRIPTION (the Go functions use strconv.Atoi and fmt.Sprintf, outside the go/ast translator).
   An ONS code is a letter followed by 8 digits; it is represented by the letter's byte value and the
   number the digits spell.  Tied to the real functions by the generated constant formula
   BitPack_ons_Vec (what the REAL functions return on concrete codes) and a source hash, see C10.py.

   Go:  codeBits := uint64(uint8(code[0])) << 40;  yearBits := uint64(uint8(year-1900)) << 32
        Value = codeBits | yearBits | uint64(n)
        year = int((Value>>32)&0xff) + 1900; letter = byte((Value>>40)&0xff); "%s%08d" of Value&0xffffffff *)
EXTENDS Integers
VARIABLES
  \* @type: Int;
  letter,
  \* @type: Int;
  number,
  \* @type: Int;
  year

\* the three fields occupy disjoint bit ranges as long as number < 2^32 (it is < 10^8): `|` is `+`
Pack(l, n, y) == ((l % 256) * 1099511627776) + (((y - 1900) % 256) * 4294967296) + n
UnpackYear(id) == ((id \div 4294967296) % 256) + 1900
UnpackLetter(id) == (id \div 1099511627776) % 256
UnpackNumber(id) == id % 4294967296

Init == /\ letter \in Int /\ letter >= 65 /\ letter <= 90          \* 'A'..'Z'
        /\ number \in Int /\ number >= 0 /\ number <= 99999999      \* 8 digits
        /\ year \in Int /\ year >= 1900 /\ year <= 2155            \* what uint8(year-1900) can hold
Next == UNCHANGED <<letter, number, year>>

RoundTrip == LET id == Pack(letter, number, year) IN
  /\ number < 4294967296                       \* side condition of `|` as `+`
  /\ UnpackLetter(id) = letter
  /\ UnpackNumber(id) = number                 \* printed with %08d: 8 digits again because number < 10^8
  /\ UnpackYear(id) = year
====
