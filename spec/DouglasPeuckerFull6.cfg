\* every oracle for lines of 2..6 points (34 560 for n = 6)
SPECIFICATION Spec
CONSTANTS
  MaxN = 6
  Mode = "full"
INVARIANT TypeOK Equal Shape StackCovers
CHECK_DEADLOCK FALSE
