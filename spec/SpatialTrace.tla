---- MODULE SpatialTrace ----
(* C04, binding B: executions of the real code judged by TLC.

   trace.ndjson is written by `vh-spatial drive` (harness/cmd/vh-spatial).  Two kinds of event:

   "tok"   one (feature, query) pair taken from a real world or from a chain of real s2.CellIDs at real
           levels (0..30): the feature's covering f and the query's covering q as model cells, and the
           token sets the REAL TokensForCovering(f) / RewriteSpatialQuery(q) produced, translated to
           model tokens.  Judged with the operators of CellTokens.tla:
             BAD   related coverings whose real token sets do not intersect (the lemma fails on the code)
             DIFF  real token set differs from the design's (reported; not a verdict on its own)
           asbuilt = TRUE says that the as-built transcription (FeatureTokensAsBuilt) predicts the real feature
           tokens exactly, i.e. the deviation is the known level-0 skip and nothing else.

   "find"  one (world, query) pair: `indexed` = the world's indexed features in ID order (ranks),
           `matches[i]` = query.Matches(indexed[i]) computed by the real query, `result` = what
           FindFeatures returned, in the order returned.  C04: result = <<id \in indexed : matches>>.
             BAD   otherwise

   Every event is consumed (one step per line) so one run reports every failing line; acceptance that the
   whole file was read is the POSTCONDITION. *)
EXTENDS CellTokens, TLC, Json

Trace == ndJsonDeserialize("trace.ndjson")

VARIABLE l
vars == <<l>>

SetOf(s) == {s[i] : i \in DOMAIN s}

\* ---- "find": the specification of FindFeatures for a spatial query
Select(indexed, matches) ==
    LET RECURSIVE Sel(_)
        Sel(i) == IF i > Len(indexed) THEN <<>>
                  ELSE IF matches[i] THEN <<indexed[i]>> \o Sel(i + 1) ELSE Sel(i + 1)
    IN Sel(1)
FindOK(e) == e.result = Select(e.indexed, e.matches)

\* ---- "tok": the lemma on the real token sets
TokSound(e) == RelatedCov(SetOf(e.f), SetOf(e.q)) => SetOf(e.ftok) \cap SetOf(e.qtok) # {}
TokConform(e) == /\ SetOf(e.ftok) = FeatureTokens(SetOf(e.f))
                 /\ SetOf(e.qtok) = QueryTokens(SetOf(e.q))
TokAsBuilt(e) == /\ SetOf(e.ftok) = FeatureTokensAsBuilt(SetOf(e.f))
                 /\ SetOf(e.qtok) = QueryTokens(SetOf(e.q))

\* (IF, not \/: TLC evaluates both sides of a disjunction inside an action)
Report(ok, tag, payload) == IF ok THEN TRUE ELSE PrintT(<<tag, ToJson(payload)>>)
Judge(i, e) ==
    IF e.ev = "find"
    THEN Report(FindOK(e), "BAD", [line |-> i, ev |-> "find", want |-> Select(e.indexed, e.matches)])
    ELSE /\ Report(TokSound(e), "BAD", [line |-> i, ev |-> "tok", asbuilt |-> TokAsBuilt(e)])
         /\ Report(TokConform(e), "DIFF", [line |-> i, asbuilt |-> TokAsBuilt(e),
                                           fmissing |-> FeatureTokens(SetOf(e.f)) \ SetOf(e.ftok),
                                           qmissing |-> QueryTokens(SetOf(e.q)) \ SetOf(e.qtok),
                                           fextra |-> SetOf(e.ftok) \ FeatureTokens(SetOf(e.f)),
                                           qextra |-> SetOf(e.qtok) \ QueryTokens(SetOf(e.q))])

Init == l = 1
Next == /\ l <= Len(Trace)
        /\ Judge(l, Trace[l])
        /\ l' = l + 1
Spec == Init /\ [][Next]_vars

AllRead == TLCGet("stats").diameter - 1 = Len(Trace)
====
