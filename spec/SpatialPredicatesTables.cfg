\* every truth table with <= 3 parts per dimension (cap-area: <= 2 polygons of <= 2 loops); ROW lines exported
INIT InitEmit
NEXT Next
CONSTANTS
  MaxParts = 3
  MaxLoops = 2
INVARIANTS TrueFactSuffices NoFactNoMatch PartOrderIrrelevant AddingPartsKeepsMatch
CHECK_DEADLOCK FALSE
