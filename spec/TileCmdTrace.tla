---- MODULE TileCmdTrace ----
(* Trace validation for C33: every line of trace.ndjson is one feature encoded by the REAL
   renderer.EncodeTile: {"k": kind, "g": [command stream], "rings": [[[x,y],..],..], "hole": [bool,..]}
   where rings are the feature's projected integer coordinates (relative to the tile origin, in the
   order of the polygon's loops) computed with the same projection the encoder uses.
   The decoder of TileCmd.tla is run over g; when it is Done the line is accepted iff
     point / line : the decoded coordinates are exactly the projected ones, nothing is closed;
     polygon      : every ring is closed and is the same vertex cycle as the projected loop, all outer
                    rings have one shoelace sign and all holes the opposite one.
   A rejected line leaves the behaviour stuck (TLC reports a deadlock at that line); after the last
   line the behaviour stutters in Finished.                                                        *)
EXTENDS TileCmd
VARIABLE l
Trace == ndJsonDeserialize("trace.ndjson")

Load(i) == /\ mode' = "trace" /\ kind' = Trace[i].k /\ rings' = Trace[i].rings /\ hole' = Trace[i].hole
           /\ stream' = Trace[i].g /\ pos' = 1 /\ cx' = 0 /\ cy' = 0 /\ cmd' = 0 /\ cnt' = 0 /\ out' = <<>> /\ err' = ""

Accept ==
  /\ Len(out) = Len(rings)
  /\ IF kind = "polygon"
     THEN /\ \A i \in DOMAIN out : out[i].closed /\ SameCycle(out[i].pts, rings[i])
          /\ \A i, j \in DOMAIN out :
                /\ Area2(out[i].pts) # 0
                /\ (hole[i] = hole[j]) => Sign(Area2(out[i].pts)) = Sign(Area2(out[j].pts))
                /\ (hole[i] # hole[j]) => Sign(Area2(out[i].pts)) = -Sign(Area2(out[j].pts))
     ELSE \A i \in DOMAIN out : ~out[i].closed /\ out[i].pts = rings[i]

TInit == /\ l = 1 /\ mode = "trace" /\ kind = Trace[1].k /\ rings = Trace[1].rings /\ hole = Trace[1].hole
         /\ Start(Trace[1].g)
Step == DecodeStep /\ UNCHANGED l
NextLine == /\ l <= Len(Trace) /\ Done /\ err = "" /\ Accept
            /\ l' = l + 1
            /\ IF l < Len(Trace) THEN Load(l + 1) ELSE UNCHANGED vars
Finished == l = Len(Trace) + 1 /\ UNCHANGED <<vars, l>>
TNext == (l <= Len(Trace) /\ Step) \/ NextLine \/ Finished
TSpec == TInit /\ [][TNext]_<<vars, l>>
====
