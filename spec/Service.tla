---- MODULE Service ----
(* The request protocol of the b6 front ends (C40, C26):
     grpc/service.go  service.Evaluate / ListWorlds / DeleteWorld
     api/evaluator.go Evaluator.EvaluateExpression (same lock sequence; its caller holds the read lock)
     ingest/worlds.go MutableWorlds (a map world-ID -> world object behind its own mutex)
     api/functions/change.go addWorldWithChange (mutates the worlds map and a world while evaluating)
   One action per lock operation / critical section, in the order the code performs them:

     Evaluate:  RLock -> FindOrCreateWorld(root) -> evaluate -> [result is a change:
                RUnlock -> Lock -> change.Apply(world found at the start) -> Unlock -> RLock] -> (deferred) RUnlock
     add-world-with-change x ch (during "evaluate", i.e. under the READ lock):
                DeleteWorld(x) -> FindOrCreateWorld(x) -> ch.Apply(that world)
     DeleteWorld / ListWorlds: one critical section of the worlds mutex, no RWMutex at all.

   The RWMutex is Go's sync.RWMutex: a writer first takes the writer mutex (wmu), then announces itself
   (pending) and waits for the readers that were active at that moment (rwait); readers arriving while a writer
   is pending or active queue up (blockedR) and ALL become active when that writer unlocks, i.e. before the next
   writer can announce.

   A world object is a map feature -> [p: present, t: set of tag keys]; a re-created world is a NEW object made
   from the base world (objs[w] is the sequence of all objects ever created for ID w, cur[w] the one in the map,
   0 = none): a client that found an object keeps applying to it after it was deleted from the map.

   Requests (records of one shape [k, w, f, g, c, t, x]; "-" = unused):
     ro     count (find [#c])                                         read-only
     add    add-tag f #t            rm     remove-tag f #t            constant change
     addif  add-tags  (map (find [#c]) {_ -> #t})                     STATE-DEPENDENT change: the list of features
     rmif   remove-tags (map (find [#c]) {_ -> "#t"})                 is computed under the read lock
     add2   add-tags {f: #t, g: #t}   (not atomic: stops at the first failure)
     merge  merge-changes {add-tag f #t, add-tag g #t}  (atomic)
     addpt  add-point f with tag #t (adds or replaces the feature)    badpt  add a feature that fails validation
     awc    add-world-with-change x (add-tag f #t)                    mutates while evaluating
     del    DeleteWorld(w)            list   ListWorlds
   Clients 1..NC run one request each; cfg[c] indexes ReqList (0 = idle client). *)
EXTENDS Integers, Sequences, FiniteSets, TLC, Json

CONSTANTS NC,          \* number of clients
          ReqList,     \* catalogue of requests
          Cfgs,        \* configurations explored: tuples 1..NC -> 0..Len(ReqList)
          Worlds,      \* world IDs
          InitWorlds,  \* world IDs present in the map at the start
          FeatOrder,   \* sequence of all feature IDs in ID order (find returns them in this order)
          Base,        \* content of the base world: [feature -> [p |-> BOOLEAN, t |-> set of tags]]
          Serial,      \* TRUE: only serial schedules (a client starts when no other is in flight)
          History      \* TRUE: record the schedule in sched (output only, hidden by VIEW)

VARIABLES cfg,                               \* the configuration (constant along a behaviour)
          wmu, pending, active, blockedR, rwait,   \* sync.RWMutex
          cur, objs,                         \* worlds map, world objects
          pc, plan, held, held2, resp,       \* per client
          fin, sched
vars == <<cfg, wmu, pending, active, blockedR, rwait, cur, objs, pc, plan, held, held2, resp, fin, sched>>
View == <<cfg, wmu, pending, active, blockedR, rwait, cur, objs, pc, plan, held, held2, resp, fin>>

Clients == 1..NC
Feats == {FeatOrder[i] : i \in DOMAIN FeatOrder}
Idle == [k |-> "idle", w |-> "-", f |-> "-", g |-> "-", c |-> "-", t |-> "-", x |-> "-"]
ReqOf(g, c) == IF g[c] = 0 THEN Idle ELSE ReqList[g[c]]
Req(c) == ReqOf(cfg, c)
ChangeKinds == {"add", "rm", "addif", "rmif", "add2", "merge", "addpt", "badpt"}
EvalKinds == ChangeKinds \cup {"ro", "awc"}

\* ---------------------------------------------------------------- changes (ingest/change.go)
NoChange == [atomic |-> FALSE, ops |-> <<>>]
Op(o, f, t) == [op |-> o, f |-> f, t |-> t]
\* features (in ID order) that are present in content and carry tag c
Found(content, c) == SelectSeq(FeatOrder, LAMBDA f : content[f].p /\ c \in content[f].t)
MapSeq(s, F(_)) == [i \in DOMAIN s |-> F(s[i])]
\* the change a request evaluates to, given the content of the world it reads
PlanOf(r, content) ==
  CASE r.k = "add"   -> [atomic |-> FALSE, ops |-> <<Op("at", r.f, r.t)>>]
    [] r.k = "rm"    -> [atomic |-> FALSE, ops |-> <<Op("rt", r.f, r.t)>>]
    [] r.k = "addif" -> [atomic |-> FALSE, ops |-> MapSeq(Found(content, r.c), LAMBDA f : Op("at", f, r.t))]
    [] r.k = "rmif"  -> [atomic |-> FALSE, ops |-> MapSeq(Found(content, r.c), LAMBDA f : Op("rt", f, r.t))]
    [] r.k = "add2"  -> [atomic |-> FALSE, ops |-> <<Op("at", r.f, r.t), Op("at", r.g, r.t)>>]
    [] r.k = "merge" -> [atomic |-> TRUE,  ops |-> <<Op("at", r.f, r.t), Op("at", r.g, r.t)>>]
    [] r.k = "addpt" -> [atomic |-> FALSE, ops |-> <<Op("af", r.f, r.t)>>]
    [] r.k = "badpt" -> [atomic |-> FALSE, ops |-> <<Op("bad", r.f, r.t)>>]
    [] r.k = "awc"   -> [atomic |-> FALSE, ops |-> <<Op("at", r.f, r.t)>>]     \* the change given to add-world-with-change
    [] OTHER         -> NoChange
OpOK(content, o) == CASE o.op \in {"at", "rt"} -> content[o.f].p
                      [] o.op = "af" -> TRUE
                      [] OTHER -> FALSE
OpDo(content, o) == CASE o.op = "at" -> [content EXCEPT ![o.f].t = @ \cup {o.t}]
                      [] o.op = "rt" -> [content EXCEPT ![o.f].t = @ \ {o.t}]
                      [] o.op = "af" -> [content EXCEPT ![o.f] = [p |-> TRUE, t |-> {o.t}]]
                      [] OTHER -> content
\* AddTags/RemoveTags/AddFeatures.Apply: in order, stop at the first failure (earlier effects stay)
RECURSIVE ApplyOps(_, _)
ApplyOps(content, ops) ==
  IF ops = <<>> THEN [ok |-> TRUE, c |-> content]
  ELSE IF ~OpOK(content, Head(ops)) THEN [ok |-> FALSE, c |-> content]
  ELSE ApplyOps(OpDo(content, Head(ops)), Tail(ops))
\* MergedChange.Apply tries the parts on a scratch overlay first: all or nothing
ApplyChange(content, ch) ==
  LET r == ApplyOps(content, ch.ops) IN IF ch.atomic /\ ~r.ok THEN [ok |-> FALSE, c |-> content] ELSE r
Targets(ch) == {ch.ops[i].f : i \in DOMAIN ch.ops}
NoResp == [err |-> FALSE, ids |-> {}, n |-> -1, ws |-> {}]
\* C26: the response reports an error iff applying failed; on success the IDs are the features the change touched
RespOf(content, ch) == LET r == ApplyChange(content, ch) IN
  IF r.ok THEN [err |-> FALSE, ids |-> Targets(ch), n |-> -1, ws |-> {}] ELSE [NoResp EXCEPT !.err = TRUE]
CountOf(content, c) == Len(Found(content, c))

\* ---------------------------------------------------------------- worlds map (ingest/worlds.go), pure forms
WS(cu, ob) == [cur |-> cu, objs |-> ob]
FindOrCreate(s, w) == IF s.cur[w] # 0 THEN s
                      ELSE [cur |-> [s.cur EXCEPT ![w] = Len(s.objs[w]) + 1], objs |-> [s.objs EXCEPT ![w] = Append(@, Base)]]
DeleteW(s, w) == [s EXCEPT !.cur[w] = 0]
Listed(s) == LET e == {w \in Worlds : s.cur[w] # 0} IN IF e = {} THEN {"default"} ELSE e
ApplyTo(s, w, i, ch) == [s EXCEPT !.objs[w][i] = ApplyChange(@, ch).c]
InitWS == WS([w \in Worlds |-> IF w \in InitWorlds THEN 1 ELSE 0],
             [w \in Worlds |-> IF w \in InitWorlds THEN <<Base>> ELSE <<>>])
\* what is compared with the real service at the end: which IDs are in the map, and the content of those worlds
FinalOf(s) == [w \in Worlds |-> IF s.cur[w] = 0 THEN [e |-> FALSE, c |-> Base] ELSE [e |-> TRUE, c |-> s.objs[w][s.cur[w]]]]

\* ---------------------------------------------------------------- serial reference: one request at a time
SerialStep(s, r) ==
  CASE r.k = "idle" -> s
    [] r.k = "del"  -> DeleteW(s, r.w)
    [] r.k = "list" -> s
    [] r.k = "ro"   -> FindOrCreate(s, r.w)
    [] r.k = "awc"  -> LET s3 == FindOrCreate(DeleteW(FindOrCreate(s, r.w), r.x), r.x) IN
                       ApplyTo(s3, r.x, s3.cur[r.x], PlanOf(r, Base))
    [] OTHER        -> LET s1 == FindOrCreate(s, r.w)  i == s1.cur[r.w] IN
                       ApplyTo(s1, r.w, i, PlanOf(r, s1.objs[r.w][i]))
SerialResp(s, r) ==
  CASE r.k \in {"idle", "del"} -> NoResp
    [] r.k = "list" -> [NoResp EXCEPT !.ws = Listed(s)]
    [] r.k = "ro"   -> LET s1 == FindOrCreate(s, r.w) IN [NoResp EXCEPT !.n = CountOf(s1.objs[r.w][s1.cur[r.w]], r.c)]
    [] r.k = "awc"  -> RespOf(Base, PlanOf(r, Base))
    [] OTHER        -> LET s1 == FindOrCreate(s, r.w)  c0 == s1.objs[r.w][s1.cur[r.w]] IN RespOf(c0, PlanOf(r, c0))
RECURSIVE RunSerial(_, _, _)
RunSerial(s, g, order) == IF order = <<>> THEN s ELSE RunSerial(SerialStep(s, ReqOf(g, Head(order))), g, Tail(order))
\* responses of the requests in execution order
RECURSIVE RunSerialResps(_, _, _)
RunSerialResps(s, g, order) == IF order = <<>> THEN <<>>
                               ELSE LET r == ReqOf(g, Head(order)) IN <<SerialResp(s, r)>> \o RunSerialResps(SerialStep(s, r), g, Tail(order))
Perms == {p \in [1..NC -> Clients] : \A i, j \in 1..NC : i # j => p[i] # p[j]}
SerialOutcomes(g) == {FinalOf(RunSerial(InitWS, g, p)) : p \in Perms}

\* ---------------------------------------------------------------- the protocol
Init == /\ cfg \in Cfgs
        /\ wmu = 0 /\ pending = FALSE /\ active = {} /\ blockedR = {} /\ rwait = {}
        /\ cur = InitWS.cur /\ objs = InitWS.objs
        /\ pc = [c \in Clients |-> IF cfg[c] = 0 THEN "done" ELSE "start"]
        /\ plan = [c \in Clients |-> NoChange]
        /\ held = [c \in Clients |-> <<"-", 0>>] /\ held2 = [c \in Clients |-> <<"-", 0>>]
        /\ resp = [c \in Clients |-> NoResp]
        /\ fin = FALSE /\ sched = <<>>

Log(c, a) == sched' = IF History THEN Append(sched, <<c, a>>) ELSE sched
Awake(c) == c \notin blockedR                       \* a reader queued behind a writer cannot move
MayRun(c) == Serial => (pc[c] # "start" \/ \A d \in Clients \ {c} : pc[d] \in {"start", "done"})
Goto(c, l) == pc' = [pc EXCEPT ![c] = l]
RW == <<wmu, pending, active, blockedR, rwait>>
Map == <<cur, objs>>
SetMap(s) == cur' = s.cur /\ objs' = s.objs
\* sync.RWMutex.RLock: active at once unless a writer is pending/active
DoRLock(c) == IF pending THEN blockedR' = blockedR \cup {c} /\ UNCHANGED <<wmu, pending, active, rwait>>
              ELSE active' = active \cup {c} /\ UNCHANGED <<wmu, pending, blockedR, rwait>>
DoRUnlock(c) == active' = active \ {c} /\ rwait' = rwait \ {c} /\ UNCHANGED <<wmu, pending, blockedR>>

Start(c) ==    /\ pc[c] = "start" /\ Req(c).k \in EvalKinds /\ MayRun(c)
               /\ DoRLock(c) /\ Goto(c, "find") /\ Log(c, "rlock")
               /\ UNCHANGED <<cfg, Map, plan, held, held2, resp, fin>>
Find(c) ==     /\ pc[c] = "find" /\ Awake(c)
               /\ LET s == FindOrCreate(WS(cur, objs), Req(c).w) IN SetMap(s) /\ held' = [held EXCEPT ![c] = <<Req(c).w, s.cur[Req(c).w]>>]
               /\ Goto(c, "eval") /\ Log(c, "find")
               /\ UNCHANGED <<cfg, RW, plan, held2, resp, fin>>
Content(h) == objs[h[1]][h[2]]
Eval(c) ==     /\ pc[c] = "eval"
               /\ LET r == Req(c) IN
                  CASE r.k = "ro"  -> /\ resp' = [resp EXCEPT ![c] = [NoResp EXCEPT !.n = CountOf(Content(held[c]), r.c)]]
                                      /\ Goto(c, "ret") /\ UNCHANGED <<Map, plan>>
                    [] r.k = "awc" -> /\ SetMap(DeleteW(WS(cur, objs), r.x))             \* c.Worlds.DeleteWorld(id)
                                      /\ plan' = [plan EXCEPT ![c] = PlanOf(r, Base)]
                                      /\ Goto(c, "awcfind") /\ UNCHANGED resp
                    [] OTHER       -> /\ plan' = [plan EXCEPT ![c] = PlanOf(r, Content(held[c]))]
                                      /\ Goto(c, "runlock1") /\ UNCHANGED <<Map, resp>>
               /\ Log(c, "eval") /\ UNCHANGED <<cfg, RW, held, held2, fin>>
AwcFind(c) ==  /\ pc[c] = "awcfind"
               /\ LET s == FindOrCreate(WS(cur, objs), Req(c).x) IN SetMap(s) /\ held2' = [held2 EXCEPT ![c] = <<Req(c).x, s.cur[Req(c).x]>>]
               /\ Goto(c, "awcapply") /\ Log(c, "awcfind")
               /\ UNCHANGED <<cfg, RW, plan, held, resp, fin>>
AwcApply(c) == /\ pc[c] = "awcapply"                                              \* change.Apply under the READ lock
               /\ resp' = [resp EXCEPT ![c] = RespOf(Content(held2[c]), plan[c])]
               /\ SetMap(ApplyTo(WS(cur, objs), held2[c][1], held2[c][2], plan[c]))
               /\ Goto(c, "ret") /\ Log(c, "awcapply")
               /\ UNCHANGED <<cfg, RW, plan, held, held2, fin>>
RUnlock1(c) == /\ pc[c] = "runlock1" /\ DoRUnlock(c) /\ Goto(c, "lock") /\ Log(c, "runlock1")
               /\ UNCHANGED <<cfg, Map, plan, held, held2, resp, fin>>
Lock(c) ==     /\ pc[c] = "lock" /\ wmu = 0                                        \* writer mutex, then announce
               /\ wmu' = c /\ pending' = TRUE /\ rwait' = active /\ UNCHANGED <<active, blockedR>>
               /\ Goto(c, "lockwait") /\ Log(c, "lock")
               /\ UNCHANGED <<cfg, Map, plan, held, held2, resp, fin>>
LockAcq(c) ==  /\ pc[c] = "lockwait" /\ rwait = {}
               /\ Goto(c, "apply") /\ Log(c, "lockacq")
               /\ UNCHANGED <<cfg, RW, Map, plan, held, held2, resp, fin>>
Apply(c) ==    /\ pc[c] = "apply"                                                  \* change.Apply(w): w is the object found at the start
               /\ resp' = [resp EXCEPT ![c] = RespOf(Content(held[c]), plan[c])]
               /\ SetMap(ApplyTo(WS(cur, objs), held[c][1], held[c][2], plan[c]))
               /\ Goto(c, "unlock") /\ Log(c, "apply")
               /\ UNCHANGED <<cfg, RW, plan, held, held2, fin>>
Unlock(c) ==   /\ pc[c] = "unlock"
               /\ wmu' = 0 /\ pending' = FALSE /\ active' = active \cup blockedR /\ blockedR' = {} /\ UNCHANGED rwait
               /\ Goto(c, "rlock2") /\ Log(c, "unlock")
               /\ UNCHANGED <<cfg, Map, plan, held, held2, resp, fin>>
RLock2(c) ==   /\ pc[c] = "rlock2" /\ DoRLock(c) /\ Goto(c, "ret") /\ Log(c, "rlock2")
               /\ UNCHANGED <<cfg, Map, plan, held, held2, resp, fin>>
Ret(c) ==      /\ pc[c] = "ret" /\ Awake(c)                                        \* deferred RUnlock, response sent
               /\ DoRUnlock(c) /\ Goto(c, "done") /\ Log(c, "ret")
               /\ UNCHANGED <<cfg, Map, plan, held, held2, resp, fin>>
Delete(c) ==   /\ pc[c] = "start" /\ Req(c).k = "del" /\ MayRun(c)
               /\ SetMap(DeleteW(WS(cur, objs), Req(c).w)) /\ Goto(c, "done") /\ Log(c, "delete")
               /\ UNCHANGED <<cfg, RW, plan, held, held2, resp, fin>>
List(c) ==     /\ pc[c] = "start" /\ Req(c).k = "list" /\ MayRun(c)
               /\ resp' = [resp EXCEPT ![c] = [NoResp EXCEPT !.ws = Listed(WS(cur, objs))]]
               /\ Goto(c, "done") /\ Log(c, "list")
               /\ UNCHANGED <<cfg, RW, Map, plan, held, held2, fin>>

AllDone == \A c \in Clients : pc[c] = "done"
Final == FinalOf(WS(cur, objs))
IsSerial == Final \in SerialOutcomes(cfg)
\* output only: one OUTCOME line per terminal state
Finish == /\ AllDone /\ ~fin /\ fin' = TRUE
          /\ (History => PrintT(<<"OUTCOME", ToJson([cfg |-> cfg, final |-> Final, serial |-> IsSerial, resp |-> resp, sched |-> sched])>>))
          /\ UNCHANGED <<cfg, RW, Map, pc, plan, held, held2, resp, sched>>
Step == \/ \E c \in Clients : \/ Start(c) \/ Find(c) \/ Eval(c) \/ AwcFind(c) \/ AwcApply(c) \/ RUnlock1(c)
                              \/ Lock(c) \/ LockAcq(c) \/ Apply(c) \/ Unlock(c) \/ RLock2(c) \/ Ret(c)
                              \/ Delete(c) \/ List(c)
        \/ Finish
Next == Step \/ (fin /\ UNCHANGED vars)             \* a finished system stutters; any other state without a step is a deadlock
Spec == Init /\ [][Next]_vars
FairSpec == Spec /\ WF_vars(Step)

\* ---------------------------------------------------------------- properties of the design
InReadSection(c) == pc[c] \in {"find", "eval", "awcfind", "awcapply", "runlock1", "ret"}
LockInv == /\ \A c \in Clients : InReadSection(c) <=> (c \in active \/ c \in blockedR)
           /\ active \cap blockedR = {} /\ rwait \subseteq active
           /\ (blockedR # {} => pending) /\ (pending <=> wmu # 0)
           /\ \A c \in Clients : pc[c] \in {"lockwait", "apply", "unlock"} <=> wmu = c
\* changes that go through the upgrade are applied with no reader active and no other writer
ApplyExclusive == \A c \in Clients : pc[c] \in {"apply", "unlock"} => (wmu = c /\ active = {})
\* with nobody deleting a world ID, every client that asked for it got the same object
Deleters(g) == {ReqOf(g, c).w : c \in {d \in Clients : ReqOf(g, d).k = "del"}} \cup
               {ReqOf(g, c).x : c \in {d \in Clients : ReqOf(g, d).k = "awc"}}
OneWorldPerID == \A w \in Worlds \ Deleters(cfg) : Len(objs[w]) <= 1
\* C26 in the protocol: right after Apply (the write lock is still held) the response says "error" exactly when
\* some part of the change could not be applied (its target is missing / the feature is invalid), and otherwise
\* names the features the change touched, all of whose edits are then visible in the world object.
Failing(content, o) == o.op = "bad" \/ (o.op \in {"at", "rt"} /\ ~content[o.f].p)
RespSound == \A c \in Clients : pc[c] = "unlock" =>
   LET ct == Content(held[c])  ops == plan[c].ops IN
   /\ resp[c].err <=> \E i \in DOMAIN ops : Failing(ct, ops[i])
   /\ ~resp[c].err => /\ resp[c].ids = Targets(plan[c])
                      /\ \A i \in DOMAIN ops : /\ ct[ops[i].f].p
                                               /\ (ops[i].op \in {"at", "af"} => ops[i].t \in ct[ops[i].f].t)
                                               /\ (ops[i].op = "rt" => ops[i].t \notin ct[ops[i].f].t)
\* serial schedules of the protocol are exactly the serial reference (cross-check of SerialStep, checked with Serial = TRUE)
SerialModeOK == Serial /\ AllDone => IsSerial
\* C40 (does NOT hold for every configuration: see MODEL outcomes with serial = false)
Serializable == AllDone => IsSerial
\* ... but it is an invariant of every configuration whose requests neither compute their change from the state
\* they read nor mutate while evaluating (whatever deletions and listings run next to them)
SafeKinds == {"idle", "ro", "add", "rm", "add2", "merge", "addpt", "badpt", "del", "list"}
SafeSerializable == (\A c \in Clients : Req(c).k \in SafeKinds) => Serializable
Termination == <>fin

\* ---------------------------------------------------------------- exports
\* serial reference per configuration and per order (executed on the real service one request at a time)
EmitSerial == \A g \in Cfgs : PrintT(<<"SERIAL", ToJson([cfg |-> g, outs |-> SerialOutcomes(g),
                  runs |-> {[order |-> p, final |-> FinalOf(RunSerial(InitWS, g, p)), resps |-> RunSerialResps(InitWS, g, p)] : p \in Perms}])>>)
\* C26: every single request on the initial state, with the response the protocol must give and the world afterwards
EmitCases == \A i \in DOMAIN ReqList : LET r == ReqList[i] IN
                PrintT(<<"CASE", ToJson([i |-> i, req |-> r, resp |-> SerialResp(InitWS, r), final |-> FinalOf(SerialStep(InitWS, r))])>>)
====
