---- MODULE StreamsErrgroup ----
(* ingest/features.go: eachIngestFeature + feedFeatures (behind EachFeature of the basic, mutable and overlay
   worlds) and ingest/mutable.go: ModifiedTags.EachModifiedTag  -- C28.  Both are the same protocol:

       c := make(chan T, goroutines)                          `q`, capacity g
       g, gc := errgroup.WithContext(Background)              `cancelled` = gc.Done() closed, `gerr` = first error
       worker:   for item := range c {                        WRecv / WRecvClosed
                     if err := each(item, i); err != nil { return err } }     Call (a non-nil return cancels gc)
                 return nil
       producer: for each item { select { case <-gc.Done(): break/return      PDone
                                          case c <- item: } }                 Send
                 close(c); return g.Wait()                                    Close, Wait

   SelectDone = TRUE is the code as it stands (the protocol is right: a worker only leaves early after
   cancelling, so a blocked producer always has the Done branch).  SelectDone = FALSE is the variant in which the
   producer sends unconditionally (mutants/C28/modtags-send-without-done.diff); TLC finds its deadlock, which is
   what the real-code runs must then observe as a hang. *)
EXTENDS Integers, Sequences, FiniteSets, TLC, Json, StreamsBase
CONSTANTS MaxG, SizeVecs, MaxFail, Modes,
          Variants,   \* which protocols: subset of {TRUE, FALSE} (cfg.fixed)
          JudgeAll    \* FALSE: the properties below speak about the repaired protocol only; TRUE: about every variant
VARIABLES cfg, pnext, ppc, closed, q, cancelled, gerr, wpc, wcur, calls, failed, ret
vars == <<cfg, pnext, ppc, closed, q, cancelled, gerr, wpc, wcur, calls, failed, ret>>

QuickSizes == {<<>>, <<1>>, <<1, 1>>, <<1, 1, 1>>}
ThoroughSizes == QuickSizes \cup {<<1, 1, 1, 1>>, <<1, 1, 1, 1, 1>>}
AllConfigs == Configs(MaxG, SizeVecs, MaxFail, Modes, Variants)
SelectDone == cfg.fixed
Judged == SelectDone \/ JudgeAll
MaxItems == MaxOf({NItems(s) : s \in SizeVecs} \cup {1})
N == Len(cfg.sizes)
W == 1..cfg.g
Fails(k) == CbFails(cfg.mode, cfg.F, k, calls, failed)

Init == /\ cfg \in AllConfigs
        /\ pnext = 1 /\ ppc = "loop" /\ closed = FALSE /\ q = <<>> /\ cancelled = FALSE /\ gerr = "nil"
        /\ wpc = [w \in 1..MaxG |-> IF w <= cfg.g THEN "recv" ELSE "none"]
        /\ wcur = [w \in 1..MaxG |-> 0]
        /\ calls = [k \in 1..MaxItems |-> 0]
        /\ failed = FALSE /\ ret = ""

\* ---- producer ----
Send == /\ ppc = "loop" /\ pnext <= N /\ Len(q) < cfg.g
        /\ q' = Append(q, pnext) /\ pnext' = pnext + 1
        /\ UNCHANGED <<cfg, ppc, closed, cancelled, gerr, wpc, wcur, calls, failed, ret>>
PDone == /\ SelectDone /\ ppc = "loop" /\ pnext <= N /\ cancelled
         /\ ppc' = "close"
         /\ UNCHANGED <<cfg, pnext, closed, q, cancelled, gerr, wpc, wcur, calls, failed, ret>>
Close == /\ \/ ppc = "loop" /\ pnext > N
            \/ ppc = "close"
         /\ closed' = TRUE /\ ppc' = "wait"
         /\ UNCHANGED <<cfg, pnext, q, cancelled, gerr, wpc, wcur, calls, failed, ret>>
Wait == /\ ppc = "wait" /\ \A w \in W : wpc[w] = "exit"
        /\ ret' = gerr /\ ppc' = "returned"
        /\ UNCHANGED <<cfg, pnext, closed, q, cancelled, gerr, wpc, wcur, calls, failed>>

\* ---- workers ----
WRecv(w) == /\ wpc[w] = "recv" /\ q # <<>>
            /\ wcur' = [wcur EXCEPT ![w] = Head(q)] /\ q' = Tail(q)
            /\ wpc' = [wpc EXCEPT ![w] = "call"]
            /\ UNCHANGED <<cfg, pnext, ppc, closed, cancelled, gerr, calls, failed, ret>>
WRecvClosed(w) == /\ wpc[w] = "recv" /\ q = <<>> /\ closed
                  /\ wpc' = [wpc EXCEPT ![w] = "exit"]
                  /\ UNCHANGED <<cfg, pnext, ppc, closed, q, cancelled, gerr, wcur, calls, failed, ret>>
Call(w) == /\ wpc[w] = "call"
           /\ LET k == wcur[w]
              IN /\ calls' = [calls EXCEPT ![k] = Bump(@)]
                 /\ failed' = (failed \/ Fails(k))
                 /\ IF Fails(k)
                    THEN /\ gerr' = "err" /\ cancelled' = TRUE          \* return err: errgroup records the first, cancels
                         /\ wpc' = [wpc EXCEPT ![w] = "exit"]
                    ELSE /\ UNCHANGED <<gerr, cancelled>>
                         /\ wpc' = [wpc EXCEPT ![w] = "recv"]
           /\ UNCHANGED <<cfg, pnext, ppc, closed, q, wcur, ret>>

Step == \/ Send \/ PDone \/ Close \/ Wait
        \/ \E w \in W : WRecv(w) \/ WRecvClosed(w) \/ Call(w)

\* ---- observation ----
Stuck == ret = "" /\ ~ENABLED Step
Outcome == [inst |-> "errgroup", fixed |-> SelectDone, g |-> cfg.g, sizes |-> cfg.sizes, fail |-> cfg.F, mode |-> cfg.mode,
            ret |-> IF ret = "" THEN "hang" ELSE ret,
            delivered |-> {k \in 1..MaxItems : calls[k] > 0}, twice |-> {k \in 1..MaxItems : calls[k] > 1}]
Halt == /\ ret # "" \/ Stuck
        /\ PrintT(<<"OUTCOME", ToJson(Outcome)>>)
        /\ UNCHANGED vars
Next == Step \/ Halt
Spec == Init /\ [][Next]_vars /\ WF_vars(Step)

\* ---- properties of the design (C28) ----
NoHang == Judged => ~Stuck
ReportsError == (Judged /\ ret # "") => (failed <=> ret = "err")
Complete == (ret # "" /\ ~failed) => \A k \in 1..N : calls[k] = 1
NoSecondCall == Judged => \A k \in 1..MaxItems : calls[k] < 2
Terminates == Judged => <>(ret # "")
====
