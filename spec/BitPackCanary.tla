---- MODULE BitPackCanary ----
(* Sanity of the checker itself, run by C10 before it trusts any "NoError":
   SymbolicFloor must be proved (Apalache's SMT encoding of \div and % on a non-constant, possibly
   negative dividend is floor division / non-negative remainder, as TLA+ defines them and as
   BitPackOps.FloorDiv/FloorMod spell out); Falsifiable must be refuted with x = 3. *)
EXTENDS Integers, BitPackOps
VARIABLE
  \* @type: Int;
  x
Init == x \in Int /\ x >= -1000 /\ x <= 1000
Next == UNCHANGED x
SymbolicFloor == /\ x \div 4 = FloorDiv(x, 4) /\ x % 4 = FloorMod(x, 4)
                 /\ FloorMod(x, 4) >= 0 /\ FloorMod(x, 4) < 4 /\ 4 * FloorDiv(x, 4) + FloorMod(x, 4) = x
Falsifiable == x * 2 /= 6
====
