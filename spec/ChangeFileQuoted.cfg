SPECIFICATION Spec
CONSTANT QuoteStrings = TRUE
INVARIANT AllSurvive
CHECK_DEADLOCK FALSE
