SPECIFICATION Spec
CONSTANTS
  Keys = {1, 2, 3, 4}
  Targets = {0, 1, 2, 3, 4, 5}
  Tokens = {"a", "ab", "b"}
  RepToken = "a"
  MaxHoles = 0
  Queries <- Depth1
  ExportQueries <- ThoroughQueries
  Indices <- AllIndices
INVARIANTS TypeOK DenIsDenotation ValueInDenotation
PROPERTIES Monotone NextStrict NoSkip FailsOnlyWhenExhausted Frozen
ACTION_CONSTRAINT Emit
VIEW View
CHECK_DEADLOCK FALSE
