\* quick exhaustive family: every network of 1..2 ways (2..3 vertices each) over 3 points
SPECIFICATION Spec
CONSTANTS
  NPoints = 3
  MaxWays = 2
  MaxLen = 3
  ClosedLens = {}
  Ws = {1, 3}
  Kinds = {"res", "one", "foot"}
  Limits = {2, 4}
  Profiles = {"car"}
  Origins = {0}
  Modes = {"all", "to"}
  OriginTest = "whole-way"
  Filter = "any"
  Explore = TRUE
  CaseFile = ""
INVARIANTS Correct
CHECK_DEADLOCK TRUE
