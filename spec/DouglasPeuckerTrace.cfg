SPECIFICATION TraceSpec
CONSTANTS
  MaxN = 40
  Mode = "given"
INVARIANT OracleOK Equal Shape StackCovers
ACTION_CONSTRAINT EmitCase
CHECK_DEADLOCK FALSE
