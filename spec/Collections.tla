---- MODULE Collections ----
(* List-based reference definitions of b6's collection functions (api/functions/collections.go, map.go;
   b6/collections.go) and of key lookup in collection features (ingest/features.go) -- property C24.

   A collection is a finite sequence of <<key, value>> pairs; its count is its length.  Keys and values
   are integers here: they are RANKS.  The harness concretises a rank as an int (identity, so sums and
   counts are exact), a float, a string or a feature ID with an order-preserving injection per kind, so
   one abstract case stands for the same case over each kind of key and value.

   The functions are presented as a state machine so that pipelines can be exported as paths: the state
   is the current collection `c` (+ `ord`: is its item order determined by the documentation?), one action
   per library function applies that function to `c`.  `ev` is output only (hidden by VIEW): the call,
   its arguments and how its result is to be compared.  Every transition TLC generates is printed
   (ACTION_CONSTRAINT Emit) and executed on the real code by harness/cmd/vh-coll.

   What is deliberately left open (never asserted):
     - the item order of sum-by-key / count-values / count-keys (Go map iteration)  -> ord' = FALSE
     - the item order of top, and which of several items tied at the cut top keeps    -> ev.amb, ord' = FALSE
     - join-missing on inputs that are not sorted by key                              -> guard Sorted
     - take of a strict prefix of an unordered collection                             -> guard *)
EXTENDS Integers, Sequences, FiniteSets, TLC, Json

CONSTANTS Keys,       \* key ranks of the generated inputs, e.g. {0, 1, 2}
          Vals,       \* value ranks of the generated inputs (negative, zero, ties), e.g. {-1, 0, 2}
          MaxLen,     \* longest generated input
          Counts,     \* count arguments of take / top, e.g. {-1, 0, 1, 2, 5}
          Thr,        \* threshold of the predicate "gt": v > Thr
          JoinVal,    \* the value carried by every item of the other operand of join-missing
          MaxOther,   \* longest other operand of join-missing
          MaxDepth,   \* pipeline depth: number of functions applied one after the other
          Probes,     \* keys looked up in collection features (present and absent ones)
          Enabled     \* names of the functions this model instance applies

VARIABLES c, ord, depth, ev
vars == <<c, ord, depth, ev>>

Min(a, b) == IF a < b THEN a ELSE b
Max(a, b) == IF a < b THEN b ELSE a
SeqsUpTo(S, n) == UNION {[1..m -> S] : m \in 0..n}
KeysOf(s) == {s[i][1] : i \in DOMAIN s}
ValsOf(s) == {s[i][2] : i \in DOMAIN s}
Sorted(s) == \A i \in 1..(Len(s) - 1) : s[i][1] <= s[i + 1][1]
RECURSIVE SumSeq(_)
SumSeq(s) == IF s = <<>> THEN 0 ELSE s[1] + SumSeq(Tail(s))
RECURSIVE Concat(_)
Concat(ss) == IF ss = <<>> THEN <<>> ELSE ss[1] \o Concat(Tail(ss))
\* the elements of a finite set of pairs with distinct first components, as a sequence sorted by them
RECURSIVE ByKey(_)
ByKey(S) == IF S = {} THEN <<>>
            ELSE LET m == CHOOSE p \in S : \A q \in S : p[1] <= q[1] IN <<m>> \o ByKey(S \ {m})
\* number of positions of s whose item satisfies P
CountIf(s, P(_)) == Cardinality({i \in DOMAIN s : P(s[i])})
ValueSeq(s) == [i \in DOMAIN s |-> s[i][2]]
ValuesOfKey(s, k) == ValueSeq(SelectSeq(s, LAMBDA it : it[1] = k))

(* ------------------------------------------------------------------ the reference definitions *)

\* collection: the given pairs, in the given order
Collection(pairs) == pairs

\* take: "the first n entries"; fewer if the collection is shorter; none for n <= 0
Take(s, n) == SubSeq(s, 1, Min(Max(n, 0), Len(s)))

\* named unary functions the harness can write as b6 lambdas / partial applications
Fns == {"id", "const", "inc", "gt"}
ApplyFn(f, v) == CASE f = "id" -> v
                   [] f = "const" -> 1
                   [] f = "inc" -> v + 1                      \* {v -> add-ints v 1}
                   [] f = "gt" -> IF v > Thr THEN 1 ELSE 0    \* gt Thr (a partial application); bool as 0/1
Preds == {"gt", "le", "all", "none"}
Holds(p, v) == CASE p = "gt" -> v > Thr
                 [] p = "le" -> ~(v > Thr)
                 [] p = "all" -> TRUE
                 [] p = "none" -> FALSE
ItemFns == {"swap", "keygt", "dup"}
ApplyItemFn(g, p) == CASE g = "swap" -> <<p[2], p[1]>>        \* {p -> pair (second p) (first p)}
                       [] g = "keygt" -> <<p[1], IF p[2] > Thr THEN 1 ELSE 0>>  \* {p -> pair (first p) (gt (second p) Thr)}
                       [] g = "dup" -> <<p[1], p[1]>>         \* {p -> pair (first p) (first p)}

\* filter: "the items for which the function applied to the value is true", order kept
Filter(s, p) == SelectSeq(s, LAMBDA it : Holds(p, it[2]))
\* map: "the result of applying the function to each value; keys are unmodified"
Map(s, f) == [i \in DOMAIN s |-> <<s[i][1], ApplyFn(f, s[i][2])>>]
\* map-items: the function is applied to pair(key, value) and returns the new item
MapItems(s, g) == [i \in DOMAIN s |-> ApplyItemFn(g, s[i])]
\* flatten: "keys and values taken from the collections that form the values of the given collection"
Flatten(cc) == Concat([i \in DOMAIN cc |-> cc[i][2]])
\* sum-by-key: one item per distinct key, carrying the sum of that key's values (order unspecified)
SumByKey(s) == ByKey({<<k, SumSeq(ValuesOfKey(s, k))>> : k \in KeysOf(s)})
\* count-values / count-keys: one item per distinct value / key with its number of occurrences
CountValues(s) == ByKey({<<v, CountIf(s, LAMBDA it : it[2] = v)>> : v \in ValsOf(s)})
CountKeys(s) == ByKey({<<k, CountIf(s, LAMBDA it : it[1] = k)>> : k \in KeysOf(s)})

\* top: "the n entries with the greatest values".  TopValues is the multiset of values every correct
\* answer has (as a descending sequence); TopAmbiguous says that items tied at the cut make the set of
\* items itself a matter of choice; TopChoice is one correct answer (ties resolved towards the front).
Cut(s, n) == Min(Max(n, 0), Len(s))
Ranked(s) == SortSeq([i \in DOMAIN s |-> <<s[i][2], i>>],
                     LAMBDA a, b : a[1] > b[1] \/ (a[1] = b[1] /\ a[2] < b[2]))
TopValues(s, n) == [j \in 1..Cut(s, n) |-> Ranked(s)[j][1]]
TopAmbiguous(s, n) == Cut(s, n) > 0 /\ Cut(s, n) < Len(s) /\ Ranked(s)[Cut(s, n)][1] = Ranked(s)[Cut(s, n) + 1][1]
TopChoice(s, n) == [j \in 1..Cut(s, n) |-> s[Ranked(s)[j][2]]]

\* join-missing (code comment + TestJoinMissing): for inputs sorted by key, every item of base, plus the
\* items of joined whose key does not occur in base, merged by key
RECURSIVE Merge(_, _)
Merge(a, b) == IF a = <<>> THEN b
               ELSE IF b = <<>> THEN a
               ELSE IF b[1][1] < a[1][1] THEN <<b[1]>> \o Merge(a, Tail(b))
               ELSE <<a[1]>> \o Merge(Tail(a), b)
JoinMissing(base, joined) == Merge(base, SelectSeq(joined, LAMBDA it : it[1] \notin KeysOf(base)))

\* collection features: FindValue = value of the first item with the key (linear scan), FindValues = all
FindValues(s, k) == ValuesOfKey(s, k)
FindValue(s, k) == IF FindValues(s, k) = <<>> THEN [found |-> FALSE, v |-> 0]
                   ELSE [found |-> TRUE, v |-> FindValues(s, k)[1]]

(* ------------------------------------------------------------------ the state machine *)

Inputs == SeqsUpTo(Keys \X Vals, MaxLen)
Others == {s \in SeqsUpTo(Keys \X {JoinVal}, MaxOther) : Sorted(s)}
\* every way of cutting s into three consecutive (possibly empty) pieces, or presenting it whole
Splits(s) == {<<s>>} \cup {<<SubSeq(s, 1, i), SubSeq(s, i + 1, j), SubSeq(s, j + 1, Len(s))>> :
                             <<i, j>> \in {x \in (0..Len(s)) \X (0..Len(s)) : x[1] <= x[2]}}
                    \cup (IF s = <<>> THEN {<<>>} ELSE {})

Init == c \in Inputs /\ ord = TRUE /\ depth = 0 /\ ev = [op |-> "init"]

Step(op, args, res, o, amb) ==
    /\ depth < MaxDepth /\ op \in Enabled
    /\ c' = res /\ ord' = o /\ depth' = depth + 1
    /\ ev' = [op |-> op, args |-> args, mode |-> IF o THEN "seq" ELSE "bag", amb |-> amb]

DoCollection == depth = 0 /\ Step("collection", [pairs |-> c], Collection(c), TRUE, FALSE)
DoTake(n) == (ord \/ n <= 0 \/ n >= Len(c)) /\ Step("take", [n |-> n], Take(c, n), ord, FALSE)
DoFilter(p) == Step("filter", [f |-> p], Filter(c, p), ord, FALSE)
DoMap(f) == Step("map", [f |-> f], Map(c, f), ord, FALSE)
DoMapItems(g) == Step("map-items", [f |-> g], MapItems(c, g), ord, FALSE)
DoFlatten == depth = 0 /\ \E parts \in Splits(c) :
                Step("flatten", [parts |-> parts],
                     Flatten([i \in DOMAIN parts |-> <<i, parts[i]>>]), TRUE, FALSE)
DoSumByKey == Step("sum-by-key", [x |-> 0], SumByKey(c), FALSE, FALSE)
DoCountValues == Step("count-values", [x |-> 0], CountValues(c), FALSE, FALSE)
DoCountKeys == Step("count-keys", [x |-> 0], CountKeys(c), FALSE, FALSE)
DoTop(n) == /\ Step("top", [n |-> n, values |-> TopValues(c, n)], TopChoice(c, n), FALSE, TopAmbiguous(c, n))
DoJoinBase(o) == ord /\ Sorted(c) /\ Step("join-missing", [role |-> "base", other |-> o], JoinMissing(c, o), TRUE, FALSE)
\* key lookup in a collection feature holding c (a query: the collection is unchanged)
DoFind(k) == depth = 0 /\ Step("find", [key |-> k, found |-> FindValue(c, k).found, first |-> FindValue(c, k).v,
                                        all |-> FindValues(c, k), sorted |-> Sorted(c)], c, TRUE, FALSE)
DoJoinJoined(o) == ord /\ Sorted(c) /\ Step("join-missing", [role |-> "joined", other |-> o], JoinMissing(o, c), TRUE, FALSE)

Next == \/ DoCollection \/ DoFlatten \/ DoSumByKey \/ DoCountValues \/ DoCountKeys
        \/ \E n \in Counts : DoTake(n) \/ DoTop(n)
        \/ \E p \in Preds : DoFilter(p)
        \/ \E f \in Fns : DoMap(f)
        \/ \E g \in ItemFns : DoMapItems(g)
        \/ \E o \in Others : DoJoinBase(o) \/ DoJoinJoined(o)
        \/ \E k \in Probes : DoFind(k)
Spec == Init /\ [][Next]_vars

(* ------------------------------------------------------------------ properties of the definitions
   (checked by TLC on every generated transition: they tie the definitions to the documentation's
   wording independently of the way each definition is written) *)
IsSubBag(a, b) == \A x \in {a[i] : i \in DOMAIN a} : CountIf(a, LAMBDA y : y = x) <= CountIf(b, LAMBDA y : y = x)

TypeOK == /\ c \in Seq(Int \X Int) /\ ord \in BOOLEAN /\ depth \in 0..MaxDepth

\* take: a prefix, of length n clamped to 0..Len
TakeIsPrefix == [][ev'.op = "take" => /\ Len(c') = Cut(c, ev'.args.n)
                                       /\ \A i \in DOMAIN c' : c'[i] = c[i]]_vars
\* filter: an order preserving selection; exactly the items whose value satisfies the predicate
FilterSelects == [][ev'.op = "filter" =>
                     /\ \A i \in DOMAIN c' : Holds(ev'.args.f, c'[i][2])
                     /\ Len(c') = CountIf(c, LAMBDA it : Holds(ev'.args.f, it[2]))
                     /\ IsSubBag(c', c)]_vars
\* map / map-items keep the number of items; map keeps every key in place
MapKeepsShape == [][ev'.op \in {"map", "map-items"} =>
                     /\ Len(c') = Len(c)
                     /\ (ev'.op = "map" => \A i \in DOMAIN c : c'[i][1] = c[i][1])]_vars
\* flatten of any presentation of c in pieces is c
FlattenIsConcat == [][ev'.op = "flatten" => c' = c]_vars
\* sum-by-key: one item per key, totals preserved; count-*: counts add up to the number of items
Aggregates == [][/\ (ev'.op = "sum-by-key" => /\ KeysOf(c') = KeysOf(c) /\ Len(c') = Cardinality(KeysOf(c))
                                              /\ SumSeq(ValueSeq(c')) = SumSeq(ValueSeq(c)))
                 /\ (ev'.op = "count-values" => /\ KeysOf(c') = ValsOf(c) /\ Len(c') = Cardinality(ValsOf(c))
                                                /\ SumSeq(ValueSeq(c')) = Len(c))
                 /\ (ev'.op = "count-keys" => /\ KeysOf(c') = KeysOf(c) /\ Len(c') = Cardinality(KeysOf(c))
                                              /\ SumSeq(ValueSeq(c')) = Len(c))]_vars
\* top: a sub-bag of the right size none of whose values is beaten by a value left out
TopIsTop == [][ev'.op = "top" =>
                /\ Len(c') = Cut(c, ev'.args.n) /\ IsSubBag(c', c)
                /\ ValueSeq(SortSeq(c', LAMBDA a, b : a[2] > b[2])) = ev'.args.values
                /\ \A i \in DOMAIN c' : CountIf(c, LAMBDA it : it[2] > c'[i][2]) < Cut(c, ev'.args.n)]_vars
\* join-missing on sorted inputs: sorted, contains base entirely, adds exactly the joined items with a new key
JoinIsMerge == [][ev'.op = "join-missing" =>
                   LET base == IF ev'.args.role = "base" THEN c ELSE ev'.args.other
                       joined == IF ev'.args.role = "base" THEN ev'.args.other ELSE c
                   IN /\ Sorted(c')
                      /\ SelectSeq(c', LAMBDA it : it[1] \in KeysOf(base)) = base
                      /\ SelectSeq(c', LAMBDA it : it[1] \notin KeysOf(base))
                           = SelectSeq(joined, LAMBDA it : it[1] \notin KeysOf(base))]_vars

\* lookups: found iff the key occurs; FindValues lists the values of exactly the items with the key, in order
FindIsScan == [][ev'.op = "find" =>
                  /\ ev'.args.found = (ev'.args.key \in KeysOf(c))
                  /\ Len(ev'.args.all) = CountIf(c, LAMBDA it : it[1] = ev'.args.key)
                  /\ (ev'.args.found => \E i \in DOMAIN c : /\ c[i] = <<ev'.args.key, ev'.args.first>>
                                                            /\ \A j \in 1..(i - 1) : c[j][1] # ev'.args.key)]_vars

(* ------------------------------------------------------------------ model values (TLC configuration
   files cannot spell negative numbers, so the sets with negative members are named here) *)
MCVals == {-1, 0, 2}
MCCounts == {-1, 0, 1, 2, 5}
MCProbes == {-1, 0, 1, 2, 3}
MCFunctions == {"collection", "take", "top", "filter", "map", "map-items", "flatten", "sum-by-key",
                "count-values", "count-keys", "join-missing"}
MCFind == {"find"}

(* ------------------------------------------------------------------ export *)
View == <<c, ord, depth>>
Emit == PrintT(<<"EDGE", ToJson([from |-> [c |-> c, ord |-> ord, d |-> depth], ev |-> ev',
                                 to |-> [c |-> c', ord |-> ord', d |-> depth']])>>)
====
