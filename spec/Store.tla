---- MODULE Store ----
(* The generic binary containers of package encoding (property C09) as one abstract store:

       key  |->  sequence of items written under that key

   Two building protocols share it (constant Kind):

   "kv"   reserve-then-write containers: encoding.ByteArraysBuilder (key = item index, an item is the
          concatenation of the chunks written to it) and encoding.Uint64MapBuilder (key = uint64 ID, items =
          tagged entries).  Every chunk/entry is first RESERVED (any order), the reservation is FINISHED
          (explicitly by FinishReservation, or implicitly by WriteHeader), then every chunk is WRITTEN
          (any order, also interleaved between keys), then the container is READ.
   "seq"  append-only containers: delta/zigzag/fixed-width integer sequences (items = value classes) and the
          string table (items = string classes): items are appended to the single key 1 and read back.

   The state IS the history (reserve order, finish mode, write order), so every distinct behaviour is a
   distinct state; TLC enumerates them all and prints one CASE line per finished behaviour with the final
   abstract store.  The Go adapter (harness/cmd/vh-store) executes the behaviour on the real builders and
   readers and compares what it reads with `store` (binding A).  What an item *is* (its bytes, the uint64
   behind a key class) is chosen by the adapter; the spec fixes who was written where and in which order.

   Read(k), FindFirst, Each are defined over the abstract store at the end; they do not change it. *)
EXTENDS Integers, Sequences, FiniteSets, TLC, Json

CONSTANTS Kind,            \* "kv" or "seq"
          MaxEntries,      \* kv: number of chunks/entries (1..MaxEntries); seq: maximal sequence length
          MaxKeys,         \* kv: number of distinct keys used (keys are 1..MaxKeys, introduced in order of first use)
          Tags,            \* kv: tags an entry may carry (abstract; {0} for byte arrays)
          Classes,         \* seq: the item classes (value classes / string classes)
          FreeReserveUpTo  \* kv: with more entries than this, reservations are made in entry order only

VARIABLES entries,   \* sequence of records [k |-> key, g |-> tag or class]; fixed by Init for "kv", grows for "seq"
          res,       \* sequence of entry indices in the order they were reserved
          fin,       \* "no" | "explicit" | "implicit": how the reservation was finished
          wr,        \* sequence of entry indices in the order they were written
          phase      \* "reserve" | "write" | "done"
vars == <<entries, res, fin, wr, phase>>

Range(s) == {s[i] : i \in DOMAIN s}
Idx == DOMAIN entries

\* keys in order of first use: k(1) = 1 and k(i) <= 1 + max of the earlier keys (no two configurations differ by renaming)
MaxOf(S) == IF S = {} THEN 0 ELSE CHOOSE m \in S : \A x \in S : x <= m
Canonical(es) == \A i \in DOMAIN es : es[i].k <= 1 + MaxOf({es[j].k : j \in 1..(i-1)})
EntryConfigs == UNION {{es \in [1..n -> [k : 1..MaxKeys, g : Tags]] : Canonical(es)} : n \in 1..MaxEntries}

\* ---- the abstract store and the answers it defines ----
\* items of key k in the order they were written
Store(k) == SelectSeq(wr, LAMBDA i : entries[i].k = k)
KeysUsed == {entries[i].k : i \in Idx}
StoreMap == [k \in KeysUsed |-> Store(k)]
\* Read(k): byte arrays return the concatenation, i.e. exactly Store(k), order included.
\* FillTagged(k): every entry of k (the map does not promise an order: compare as multisets).
\* FindFirst(k): some entry of k if there is one.  FindFirstWithTag(k, g): some entry of k with tag g.
\* Begin()/EachItem: every key of KeysUsed exactly once, each with all its entries.
ReadItem(k) == IF k \in KeysUsed THEN Store(k) ELSE <<>>
FindFirstOK(k, i) == IF k \in KeysUsed THEN i \in Range(Store(k)) ELSE i = 0
EachResult == {<<k, Range(Store(k))>> : k \in KeysUsed}

\* ---- kv protocol ----
InitKV == /\ entries \in EntryConfigs
          /\ res = <<>> /\ fin = "no" /\ wr = <<>> /\ phase = "reserve"

Reserve(i) == /\ phase = "reserve" /\ i \notin Range(res)
              /\ (Len(entries) > FreeReserveUpTo => i = Len(res) + 1)
              /\ res' = Append(res, i)
              /\ UNCHANGED <<entries, fin, wr, phase>>
\* FinishReservation() explicitly, or left to WriteHeader()
Finish(mode) == /\ phase = "reserve" /\ Range(res) = Idx
                /\ fin' = mode /\ phase' = "write"
                /\ UNCHANGED <<entries, res, wr>>
Write(i) == /\ phase = "write" /\ i \notin Range(wr)
            /\ wr' = Append(wr, i)
            /\ phase' = IF Range(wr') = Idx THEN "done" ELSE "write"
            /\ UNCHANGED <<entries, res, fin>>
NextKV == \/ \E i \in Idx : Reserve(i) \/ Write(i)
          \/ \E m \in {"explicit", "implicit"} : Finish(m)

\* ---- seq protocol ----
InitSeq == entries = <<>> /\ res = <<>> /\ fin = "no" /\ wr = <<>> /\ phase = "done"
AppendItem(c) == /\ Len(entries) < MaxEntries
                 /\ entries' = Append(entries, [k |-> 1, g |-> c])
                 /\ wr' = Append(wr, Len(entries) + 1)
                 /\ UNCHANGED <<res, fin, phase>>
NextSeq == \E c \in Classes : AppendItem(c)

Init == IF Kind = "kv" THEN InitKV ELSE InitSeq
Next == IF Kind = "kv" THEN NextKV ELSE NextSeq
Spec == Init /\ [][Next]_vars

\* ---- properties of the design (checked by TLC) ----
TypeOK == /\ phase \in {"reserve", "write", "done"} /\ fin \in {"no", "explicit", "implicit"}
          /\ Range(res) \subseteq Idx /\ Range(wr) \subseteq Idx
NoDuplicates == /\ Cardinality(Range(res)) = Len(res) /\ Cardinality(Range(wr)) = Len(wr)
\* nothing is written that was not reserved, and writing starts only when everything is reserved
ReservedBeforeWritten == Kind = "kv" => /\ Range(wr) \subseteq Range(res)
                                       /\ (wr # <<>> => Range(res) = Idx /\ fin # "no")
\* when the container is complete, every entry is in the store exactly once, under its own key, and
\* the store of a key lists its entries in the order they were written
Lossless == phase = "done" =>
              /\ \A i \in Idx : \E k \in KeysUsed : i \in Range(Store(k)) /\ entries[i].k = k
              /\ \A k \in KeysUsed : Cardinality(Range(Store(k))) = Len(Store(k))
              /\ \A k \in KeysUsed : \A a, b \in DOMAIN Store(k) : a < b =>
                     \E x, y \in DOMAIN wr : x < y /\ wr[x] = Store(k)[a] /\ wr[y] = Store(k)[b]
              /\ Cardinality(EachResult) = Cardinality(KeysUsed)
PhasesInOrder == [][(phase = "write" => phase' # "reserve") /\ (phase = "done" => phase' = "done")]_vars

\* ---- export: one CASE line per finished behaviour ----
Emit == (phase' = "done") =>
          PrintT(<<"CASE", ToJson([entries |-> entries', res |-> res', fin |-> fin', wr |-> wr',
                                   store |-> [k \in {entries'[i].k : i \in DOMAIN entries'} |->
                                                SelectSeq(wr', LAMBDA i : entries'[i].k = k)]])>>)
====
