---- MODULE SortedIter ----
(* search.Iterator (search/search.go) over a compiled search.Query: sorted-set algebra under any mix of
   Next / Advance calls (C06), and a single posting list as the one-token special case (C08).

   State: the index content `idx` (token -> set of keys), the query tree `q`, `den` = the set of keys the query
   denotes over the index (derived: fixed by Init, invariant DenIsDenotation), and the cursor `cur`:
     fresh      no call made yet (Value() is not specified),
     at(v)      the last call returned true and Value() = v,
     done       the last call returned false.  NO ACTION IS ENABLED IN done: what an iterator does after it
                returned false is not specified by the property and is neither generated nor tested.
   Keys are small integers = RANKS: the harness owns an order-preserving table rank -> real search.Value /
   b6.FeatureID (64-bit values, types, namespaces), so byte layouts are chosen by the harness, not the spec.
   `Targets` (a superset of Keys) are the arguments of Advance: they include ranks below the minimum, above the
   maximum, and ranks that are never stored (IDs between stored IDs / in namespaces absent from the list).

   One action per public call.  `ev` is output only (hidden by VIEW): the call and its specified result.
   Export (binding A), see Emit in MCSortedIter:
     QUERIES  the query trees as a sequence QSeq (once)
     DENS     one line per index content: Den(idx, QSeq[i]) for every i       -- "what each query denotes"
     EDGE     the cursor graph over d: from --call/result--> to, for every d  -- "every call sequence"
   Next/Advance depend on (idx, q) only through D = den = Den(idx, q) (see their definitions), so the behaviours of
   (idx, q) are exactly the paths of the EDGE graph of d = Den(idx, q); EDGE lines are therefore printed once per
   d (from fresh: for the representative (idx, q) chosen by IsRep; from at(v): for whichever state stands for
   its VIEW class) and the harness walks the graph of d on the iterator compiled from the real (idx, q). *)
EXTENDS Integers, Sequences, FiniteSets, TLC, Json
CONSTANTS Keys,        \* ranks that may be stored, e.g. 1..4
          Targets,     \* ranks Advance may be called with, e.g. 0..5
          Tokens,      \* e.g. {"a", "ab", "b"}
          Queries,     \* finite set of query trees (records) that are initial states, supplied by the MC module
          Indices      \* set of index contents [Tokens -> SUBSET Keys], supplied by the MC module
VARIABLES idx, q, den, cur, ev
vars == <<idx, q, den, cur, ev>>

StartsWith(t, p) == Len(p) <= Len(t) /\ SubSeq(t, 1, Len(p)) = p   \* token t starts with p (strings)

(* Denotation of a query tree over index content i.
     all t          the posting list of token t (empty if the index has no such token)
     empty          nothing
     union qs       set union (qs may be empty: nothing)
     inter qs       set intersection (qs non-empty; the code indexes iterators[0])
     range b e q    the values v of q with b <= v < e        (search.KeyRange: Begin inclusive, End exclusive)
     prefix p       union of the lists of all tokens that start with p *)
RECURSIVE Den(_, _), DenAll(_, _, _)
\* the values every one of qs[1..n] denotes (n >= 1); written as a fold so that every operand is evaluated once
DenAll(i, qs, n) == IF n = 1 THEN Den(i, qs[1]) ELSE DenAll(i, qs, n - 1) \cap Den(i, qs[n])
Den(i, e) ==
  CASE e.k = "all"    -> IF e.t \in DOMAIN i THEN i[e.t] ELSE {}
    [] e.k = "empty"  -> {}
    [] e.k = "union"  -> UNION {Den(i, e.qs[j]) : j \in DOMAIN e.qs}
    [] e.k = "inter"  -> DenAll(i, e.qs, Len(e.qs))
    [] e.k = "range"  -> {x \in Den(i, e.q) : e.b <= x /\ x < e.e}
    [] e.k = "prefix" -> UNION {i[t] : t \in {tt \in DOMAIN i : StartsWith(tt, e.p)}}

Fresh == [st |-> "fresh", v |-> 0]
Done  == [st |-> "done", v |-> 0]
At(k) == [st |-> "at", v |-> k]
Least(S) == CHOOSE x \in S : \A y \in S : x <= y
D == den               \* = Den(idx, q), see Init and DenIsDenotation

\* What remains for Next: everything if fresh, else the values above the current one.
Remaining == IF cur.st = "fresh" THEN D ELSE {x \in D : x > cur.v}
\* What Advance(k) may land on: the current value if it is already >= k (never moves backwards),
\* otherwise the remaining values >= k.
Landing(k) == IF cur.st = "at" /\ cur.v >= k THEN {cur.v} ELSE {x \in D : x >= k}

Init == /\ idx \in Indices
        /\ q \in Queries
        /\ den = Den(idx, q)
        /\ cur = Fresh
        /\ ev = [op |-> "init", k |-> 0, ok |-> TRUE, v |-> 0]

\* The specified result of a call, as the record that is also the exported event:
\* Next(): true and the least remaining value, or false.
NextResult == LET S == Remaining IN
              [op |-> "next", k |-> 0, ok |-> S # {}, v |-> IF S = {} THEN 0 ELSE Least(S)]
\* Advance(k): true and the first remaining value not less than k (the current value counts as remaining), or false.
AdvanceResult(k) == LET S == Landing(k) IN
              [op |-> "advance", k |-> k, ok |-> S # {}, v |-> IF S = {} THEN 0 ELSE Least(S)]
After(r) == IF r.ok THEN At(r.v) ELSE Done

Next == /\ cur.st # "done"
        /\ ev' = NextResult
        /\ cur' = After(ev')
        /\ UNCHANGED <<idx, q, den>>

Advance(k) ==
        /\ cur.st # "done"
        /\ ev' = AdvanceResult(k)
        /\ cur' = After(ev')
        /\ UNCHANGED <<idx, q, den>>

Step == Next \/ \E k \in Targets : Advance(k)
Spec == Init /\ [][Step]_vars

\* ---------------------------------------------------------------- properties of the design (checked by TLC)
DenIsDenotation == den = Den(idx, q)
TypeOK == /\ idx \in [Tokens -> SUBSET Keys]
          /\ cur.st \in {"fresh", "at", "done"}
          /\ cur.st = "at" => cur.v \in Keys
\* only values the query denotes are ever returned
ValueInDenotation == cur.st = "at" => cur.v \in D
\* never backwards, whatever the call
Monotone == [][(cur.st = "at" /\ cur'.st = "at") => cur'.v >= cur.v]_vars
\* Next is strictly increasing
NextStrict == [][(ev'.op = "next" /\ cur.st = "at" /\ cur'.st = "at") => cur'.v > cur.v]_vars
\* no value of the denotation is skipped: nothing the call could have stopped at lies before where it stopped
NoSkip == [][cur'.st = "at" =>
               /\ ev'.op = "next" => ~ \E x \in D : (cur.st = "at" => x > cur.v) /\ x < cur'.v
               /\ ev'.op = "advance" => /\ cur'.v >= ev'.k
                                        /\ ~ \E x \in D : (cur.st = "at" => x >= cur.v) /\ x >= ev'.k /\ x < cur'.v]_vars
\* a call fails only when nothing is left for it
FailsOnlyWhenExhausted == [][cur'.st = "done" =>
               /\ ev'.op = "next" => ~ \E x \in D : (cur.st = "at" => x > cur.v)
               /\ ev'.op = "advance" => ~ \E x \in D : (cur.st = "at" => x >= cur.v) /\ x >= ev'.k]_vars
\* the index and the query never change under iteration
Frozen == [][idx' = idx /\ q' = q /\ den' = den]_vars

\* Next-only runs enumerate the denotation completely and in order (checked as an ASSUME by the MC module for
\* every subset of Keys): Enumerate(S) is the sequence of values a Next-only run yields over denotation S.
RECURSIVE EnumFrom(_, _)
EnumFrom(S, last) == LET R == {x \in S : x > last} IN IF R = {} THEN <<>> ELSE <<Least(R)>> \o EnumFrom(S, Least(R))
Enumerate(S) == EnumFrom(S, -1)
EnumeratesExactly(S) == LET s == Enumerate(S) IN
                           /\ {s[i] : i \in DOMAIN s} = S
                           /\ Len(s) = Cardinality(S)
                           /\ \A i \in 1..(Len(s) - 1) : s[i] < s[i + 1]

====
