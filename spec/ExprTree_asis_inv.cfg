\* The code as it is, with the round-trip property as an invariant: TLC reports a counterexample (a candidate that the
\* harness replays on the real code), e.g. the pipeline x | (x | f), [#a & #b | #c], "\"", #a=7.
SPECIFICATION Spec
CONSTANTS
  MaxSize = 5
  MaxArgs = 2
  MaxQSize = 3
  MaxStr = 2
  Kinds = {"shape", "query", "string", "tagvalue", "queryvalue"}
  ExprHeads = TRUE
  GroupQueries = FALSE
  GroupPipeHead = "none"
  LexerUnescapes = FALSE
  EscapeTagValues = FALSE
INVARIANT RoundTrips
CHECK_DEADLOCK FALSE
