---- MODULE MCOSMMap ----
(* Inputs for OSMMap: a product of per-element alternatives.  Way ids and relation ids are both 1..3, so they collide
   deliberately (a closed way 1 and a relation 1), and members refer to ids that exist, do not exist, are closed or open. *)
EXTENDS OSMMap

MCNodeIDs == 1..4
MCWayIDs == 1..3
MCRelIDs == 1..2
MCKeys == {"#highway", "@wikidata", "name", "type"}
MCVals == {"x", "y"}
MCIDOrder == <<"P1", "P2", "P3", "P4", "W1", "W2", "W3", "A101", "A102", "A1", "A2", "A3", "R1", "R2">>

OT(h, w, n, t) == [k \in OSMKeys |-> CASE k = "highway" -> h [] k = "wikidata" -> w [] k = "name" -> n [] k = "type" -> t [] OTHER -> "-"]
With(t, k, v) == [t EXCEPT ![k] = v]
NoOT == OT("-", "-", "-", "-")
Node(v, t) == [v |-> v, tags |-> t]
Way(ns, t) == [nodes |-> ns, tags |-> t]
NoWay == [nodes |-> <<>>, tags |-> NoOT]
M(t, id, role) == [t |-> t, id |-> id, role |-> role]
Rel(ms, t) == [type |-> "r", members |-> ms, tags |-> t]
NoRel == [type |-> "-", members |-> <<>>, tags |-> NoOT]

NodeAlts == [n \in MCNodeIDs |->
   CASE n = 1 -> {Node(0, OT("x", "-", "-", "-"))}
     [] n = 2 -> {Node(1, NoOT), Node(1, With(OT("-", "-", "x", "-"), "point", "q"))}    \* a node tagged point=q
     [] n = 3 -> {Node(2, OT("-", "-", "y", "-")), Node(-1, NoOT)}
     [] n = 4 -> {Node(3, OT("-", "x", "-", "-"))}]
WayAlts == [w \in MCWayIDs |->
   CASE w = 1 -> {NoWay,
                  Way(<<1, 2>>, OT("x", "-", "-", "-")),
                  Way(<<1, 2, 3, 1>>, OT("y", "-", "x", "-")),
                  Way(<<1, 3, 2, 1>>, OT("-", "-", "x", "-"))}
     [] w = 2 -> {NoWay,
                  Way(<<2, 3, 4>>, OT("x", "y", "-", "-")),
                  Way(<<2, 3, 4>>, With(OT("x", "-", "-", "-"), "path", "q")),                \* an open way tagged path=q
                  Way(<<2, 3, 4, 2>>, OT("-", "-", "y", "-"))}
     [] w = 3 -> {NoWay, Way(<<1, 2, 4, 1>>, OT("-", "x", "-", "-"))}]
RelAlts == [r \in MCRelIDs |->
   CASE r = 1 -> {NoRel,
                  Rel(<<M("w", 1, "outer"), M("w", 2, "inner")>>, OT("-", "-", "x", "multipolygon")),
                  Rel(<<M("w", 1, ""), M("n", 1, "label"), M("w", 3, "outer")>>, OT("y", "-", "-", "multipolygon")),
                  Rel(<<M("n", 1, "stop"), M("w", 1, ""), M("w", 2, ""), M("w", 3, ""), M("r", 2, "")>>, OT("-", "-", "x", "route"))}
     [] r = 2 -> {NoRel,
                  Rel(<<M("w", 2, ""), M("w", 1, "via"), M("r", 1, "")>>, OT("x", "-", "-", "route")),
                  Rel(<<M("w", 2, "outer")>>, OT("-", "y", "-", "multipolygon"))}]

RECURSIVE FProd(_, _)
FProd(S, alt) == IF S = {} THEN {[x \in {} |-> 0]}
                 ELSE LET i == CHOOSE x \in S : TRUE IN
                      {[j \in DOMAIN f \cup {i} |-> IF j = i THEN a ELSE f[j]] : f \in FProd(S \ {i}, alt), a \in alt[i]}
MCInputs == {[nodes |-> ns, ways |-> ws, rels |-> rs] : ns \in FProd(MCNodeIDs, NodeAlts), ws \in FProd(MCWayIDs, WayAlts), rs \in FProd(MCRelIDs, RelAlts)}

Tg(k, v) == [k |-> "tagged", key |-> k, val |-> v]
Ky(k) == [k |-> "keyed", key |-> k]
Ty(t, q) == [k |-> "typed", t |-> t, q |-> q]
MCQueries == [ all_          |-> [k |-> "all"],
               tagged_hx     |-> Tg("#highway", "x"),
               tagged_hy     |-> Tg("#highway", "y"),
               keyed_h       |-> Ky("#highway"),
               keyed_w       |-> Ky("@wikidata"),
               typedA_keyed  |-> Ty("A", Ky("#highway")),
               allTypedW_    |-> Ty("W", [k |-> "all"]),
               allTypedA_    |-> Ty("A", [k |-> "all"]),
               allTypedR_    |-> Ty("R", [k |-> "all"]),
               or_hw         |-> [k |-> "or", qs |-> <<Ky("#highway"), Ky("@wikidata")>>] ]
MCNoAlt == [id \in {MCIDOrder[i] : i \in DOMAIN MCIDOrder} |-> {Absent}]
ASSUME PrintT(<<"QUERIES", ToJson(MCQueries)>>)
ASSUME PrintT(<<"KEYS", ToJson(MCKeys)>>)
ASSUME PrintT(<<"IDS", ToJson(MCIDOrder)>>)
====
