\* string table: sequences of Add() calls by string class (repeats = frequency), length <= 4 (quick)
SPECIFICATION Spec
CONSTANTS
  Kind = "seq"
  MaxEntries = 4
  MaxKeys = 1
  Tags = {0}
  Classes = {"empty", "a", "ab", "long", "utf8", "nul"}
  FreeReserveUpTo = 0
INVARIANTS TypeOK NoDuplicates ReservedBeforeWritten Lossless
PROPERTY PhasesInOrder
ACTION_CONSTRAINT Emit
CHECK_DEADLOCK FALSE
