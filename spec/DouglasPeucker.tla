---- MODULE DouglasPeucker ----
(* renderer/simplify.go (property C34): the explicit-stack Douglas-Peucker simplification against the recursive
   reference, over an ABSTRACT split oracle.

   Both functions look at the points only through one question per half-open interval [b, e) of point indices:
   "which point strictly inside is farthest from the chord points[b]..points[e-1], and is it farther than epsilon?"
   split[<<b, e>>] is that answer: 0 = "no point is farther than epsilon", otherwise the index m of the farthest
   point, b < m < e-1.  (Both functions split [b, e) into [b, m) and [m, e): the left part ENDS at m-1.  That is how
   the reference is written and what "same points as the reference" therefore means.)  Intervals shorter than 3
   have no interior point and are never asked about.

   Mode = "full":  the whole oracle (an answer for every interval of a line of n points) is chosen in Init, so
                   TLC checks every oracle there is: the iterative run and the recursive definition read the SAME
                   function.
   Mode = "lazy":  an answer is chosen the first time the iterative algorithm asks; LazySound shows that the
                   reference then asks exactly about intervals that were answered, so every full oracle extending
                   the answers gives the same two results.  Used for larger n and to enumerate the behaviours
                   (CASE lines: the answers read + the output) that the harness realises with concrete lines.
   Mode = "given": the oracle is supplied by DouglasPeuckerTrace (measured on real lines with the real distance).

   Checked: Equal (iterative output = Ref), Shape (first and last point kept, strictly increasing indices, ie a
   subsequence), Terminates (<>done). *)
EXTENDS Integers, Sequences, FiniteSets, TLC, Json
CONSTANTS MaxN,    \* lines have 2..MaxN points
          Mode
VARIABLES n,       \* number of points; indices 0..n-1
          split,   \* the oracle (in lazy mode: the answers given so far)
          stack,   \* explicit stack of intervals <<begin, end>>
          out,     \* indices of the points emitted so far
          done
vars == <<n, split, stack, out, done>>

IntervalsOf(m) == {<<b, e>> \in (0..m) \X (0..m) : e - b >= 3}
Choices(iv) == {0} \cup ((iv[1] + 1)..(iv[2] - 2))
Sp(sp, iv) == IF iv \in DOMAIN sp THEN sp[iv] ELSE 0

\* every oracle over a set of intervals (built interval by interval: the codomain depends on the interval)
RECURSIVE Oracles(_)
Oracles(D) == IF D = {} THEN {<<>>}
              ELSE LET iv == CHOOSE x \in D : TRUE IN
                   {(iv :> c) @@ f : c \in Choices(iv), f \in Oracles(D \ {iv})}

\* the recursive reference (referenceDouglasPeuckerSimplify): kept indices of points[b:e]
RECURSIVE Ref(_, _, _)
Ref(sp, b, e) ==
    LET m == Sp(sp, <<b, e>>) IN
    IF m # 0 THEN LET l == Ref(sp, b, m)  r == Ref(sp, m, e) IN SubSeq(l, 1, Len(l) - 1) \o r
    ELSE <<b, e - 1>>
\* the intervals the reference asks about
RECURSIVE RefReads(_, _, _)
RefReads(sp, b, e) ==
    IF e - b < 3 THEN {}
    ELSE LET m == Sp(sp, <<b, e>>) IN
         {<<b, e>>} \cup (IF m # 0 THEN RefReads(sp, b, m) \cup RefReads(sp, m, e) ELSE {})

Init == /\ n \in 2..MaxN
        /\ split \in (IF Mode = "full" THEN Oracles(IntervalsOf(n)) ELSE {<<>>})
        /\ stack = << <<0, n>> >> /\ out = <<>> /\ done = FALSE

\* one iteration of the loop in douglasPeuckerSimplify
Pop == /\ ~done /\ stack # <<>>
       /\ LET top  == stack[Len(stack)]
              rest == SubSeq(stack, 1, Len(stack) - 1)
              asks == top[2] - top[1] >= 3
              lazy == Mode = "lazy" /\ asks /\ top \notin DOMAIN split IN
          \E m \in (IF lazy THEN Choices(top) ELSE {Sp(split, top)}) :
             /\ split' = IF lazy THEN (top :> m) @@ split ELSE split
             /\ IF m # 0 THEN /\ stack' = rest \o << <<m, top[2]>>, <<top[1], m>> >>
                              /\ out' = out
                ELSE /\ stack' = rest
                     /\ out' = Append(out, top[1])
       /\ UNCHANGED <<n, done>>
\* after the loop: the last point
Finish == /\ ~done /\ stack = <<>>
          /\ out' = Append(out, n - 1) /\ done' = TRUE
          /\ UNCHANGED <<n, split, stack>>
Next == Pop \/ Finish
Spec == Init /\ [][Next]_vars
FairSpec == Spec /\ WF_vars(Next)

TypeOK == /\ n \in 2..MaxN /\ done \in BOOLEAN
          /\ \A j \in DOMAIN stack : stack[j][1] >= 0 /\ stack[j][1] < stack[j][2] /\ stack[j][2] <= n
          /\ \A iv \in DOMAIN split : split[iv] \in Choices(iv)
Equal == done => out = Ref(split, 0, n)
Shape == done => /\ out[1] = 0 /\ out[Len(out)] = n - 1
                 /\ \A j \in 1..(Len(out) - 1) : out[j] < out[j + 1]
\* the stack holds consecutive intervals that cover what is left of the line, top = leftmost
StackCovers == ~done => /\ \A j \in 1..(Len(stack) - 1) : stack[j][1] = stack[j + 1][2]
                        /\ stack # <<>> => stack[1][2] = n
LazySound == (done /\ Mode = "lazy") => RefReads(split, 0, n) = DOMAIN split
Terminates == <>done

\* ---- export of the behaviours (lazy mode): the answers read and the resulting output ----
Emit == (done' /\ ~done) =>
           PrintT(<<"CASE", ToJson([n |-> n, reads |-> {<<iv[1], iv[2], split[iv]>> : iv \in DOMAIN split}, out |-> out'])>>)
====
