---- MODULE OSMMap ----
(* How OpenStreetMap data becomes b6 features (ingest/osm.go, ingest/features.go), as a pure function
   Features(input), followed by what the world builder keeps of it (StaticWorld!ValidSubset).

     node n                      -> point  P<n>  at the node's location, with the node's tags
     way w                       -> path   W<w>  over its nodes in order, with the way's tags ...
     closed way w (first = last) -> ... except that the path keeps no tags, and additionally
                                    area   A<w>  (ID in the way namespace) over that single path, with the tags
     relation r, type=multipolygon -> area A<100+r> (ID in the relation namespace) whose polygons follow the
                                    members in order: a way with role "outer" (or no role) starts a new polygon,
                                    "inner" ways join the current one; if any member way is not a closed way
                                    that exists, no area is produced at all
     any other relation r        -> relation R<r> whose members point at what the elements became: P<n> for a
                                    node, A<w> for a closed way, W<w> for any other way, A<100+r'> for a
                                    multipolygon relation, R<r'> for any other relation
     tag keys                    -> the documented table: highway -> #highway, wikidata -> @wikidata, ... others unchanged

   IDs: the number in a name is the OSM id; A<100+r> stands for the area in the relation namespace.
   TLC enumerates inputs in which relation ids and way ids deliberately collide and deliberately differ.      *)
EXTENDS StaticWorld

CONSTANTS NodeIDs, WayIDs, RelIDs,   \* small sets of naturals
          Inputs                      \* the set of OSM inputs to enumerate (built by the MC module)

VARIABLE input
ovars == <<input, src, upper>>

Str(n) == CASE n = 0 -> "0" [] n = 1 -> "1" [] n = 2 -> "2" [] n = 3 -> "3" [] n = 4 -> "4" [] n = 5 -> "5"
            [] n = 6 -> "6" [] n = 7 -> "7" [] n = 8 -> "8" [] n = 9 -> "9"
            [] n = 101 -> "101" [] n = 102 -> "102" [] n = 103 -> "103" [] n = 104 -> "104"
PName(n) == "P" \o Str(n)
WName(w) == "W" \o Str(w)
AWName(w) == "A" \o Str(w)
ARName(r) == "A" \o Str(100 + r)
RName(r) == "R" \o Str(r)

\* ---- documented key mapping (ingest/osm.go osmTagMapping), restricted to the keys of the model
KeyTable == ("amenity" :> "#amenity") @@ ("barrier" :> "#barrier") @@ ("boundary" :> "#boundary") @@ ("bridge" :> "#bridge") @@
            ("building" :> "#building") @@ ("highway" :> "#highway") @@ ("landuse" :> "#landuse") @@ ("leisure" :> "#leisure") @@
            ("natural" :> "#natural") @@ ("network" :> "#network") @@ ("place" :> "#place") @@ ("railway" :> "#railway") @@
            ("route" :> "#route") @@ ("shop" :> "#shop") @@ ("tourism" :> "#tourism") @@ ("water" :> "#water") @@
            ("waterway" :> "#waterway") @@ ("fhrs:id" :> "@fhrs:id") @@ ("wikidata" :> "@wikidata") @@ ("wikipedia" :> "@wikipedia")
MapKey(k) == IF k \in DOMAIN KeyTable THEN KeyTable[k] ELSE k
\* OSM tags are a function from OSM keys to value or "-"; the result is a function over Keys (the mapped keys)
\* "point" and "path" are ordinary keys in OSM, but b6 keeps a feature's geometry under tags with exactly these keys:
\* the geometry wins, the OSM tag of that key never shows (they are outside Keys, so MapTags drops them)
\* the whole documented table, plus keys that are not in it (one with a colon, like the mapped "fhrs:id")
OSMKeys == DOMAIN KeyTable \cup {"name", "type", "point", "path", "addr:street", "fhrs:authority"}
MapTags(t) == [k \in Keys |-> LET from == {o \in OSMKeys : MapKey(o) = k} IN
                              IF from = {} THEN None ELSE t[CHOOSE o \in from : TRUE]]

HasNode(in, n) == n \in DOMAIN in.nodes /\ in.nodes[n].v >= 0
HasWay(in, w) == w \in DOMAIN in.ways /\ Len(in.ways[w].nodes) >= 1
HasRel(in, r) == r \in DOMAIN in.rels /\ in.rels[r].type # "-"
ClosedWay(in, w) == HasWay(in, w) /\ in.ways[w].nodes[1] = in.ways[w].nodes[Len(in.ways[w].nodes)]
IsMultipolygon(in, r) == HasRel(in, r) /\ in.rels[r].tags["type"] = "multipolygon"

\* ---- multipolygon assembly: st = [ok, polys, loops]
RECURSIVE Assemble(_, _, _)
Assemble(in, ms, st) ==
   IF ms = <<>> \/ ~st.ok THEN st
   ELSE LET m == Head(ms) IN
        IF m.t # "w" THEN Assemble(in, Tail(ms), st)
        ELSE LET st1 == IF m.role \in {"outer", ""} /\ st.loops # <<>>
                        THEN [st EXCEPT !.polys = Append(st.polys, st.loops), !.loops = <<>>] ELSE st IN
             IF ClosedWay(in, m.id)
             THEN Assemble(in, Tail(ms), [st1 EXCEPT !.loops = Append(st1.loops, WName(m.id))])
             ELSE [st1 EXCEPT !.ok = FALSE]
Polygons(in, r) == LET st == Assemble(in, in.rels[r].members, [ok |-> TRUE, polys |-> <<>>, loops |-> <<>>]) IN
                   IF ~st.ok THEN [ok |-> FALSE, polys |-> <<>>]
                   ELSE [ok |-> TRUE, polys |-> IF st.loops # <<>> THEN Append(st.polys, st.loops) ELSE st.polys]

MemberName(in, m) == CASE m.t = "n" -> PName(m.id)
                       [] m.t = "w" -> IF ClosedWay(in, m.id) THEN AWName(m.id) ELSE WName(m.id)
                       [] m.t = "r" -> IF IsMultipolygon(in, m.id) THEN ARName(m.id) ELSE RName(m.id)

\* ---- the features a source produces from an OSM input
Features(in) ==
   [id \in IDs |->
      IF \E n \in NodeIDs : id = PName(n) /\ HasNode(in, n)
      THEN LET n == CHOOSE n \in NodeIDs : id = PName(n) IN Pt(in.nodes[n].v, MapTags(in.nodes[n].tags))
      ELSE IF \E w \in WayIDs : id = WName(w) /\ HasWay(in, w)
      THEN LET w == CHOOSE w \in WayIDs : id = WName(w) IN
           Pa([i \in DOMAIN in.ways[w].nodes |-> PName(in.ways[w].nodes[i])],
              IF ClosedWay(in, w) THEN NoTags ELSE MapTags(in.ways[w].tags))
      ELSE IF \E w \in WayIDs : id = AWName(w) /\ ClosedWay(in, w)
      THEN LET w == CHOOSE w \in WayIDs : id = AWName(w) IN Ar(<< <<WName(w)>> >>, MapTags(in.ways[w].tags))
      ELSE IF \E r \in RelIDs : id = ARName(r) /\ IsMultipolygon(in, r) /\ Polygons(in, r).ok
      THEN LET r == CHOOSE r \in RelIDs : id = ARName(r) IN Ar(Polygons(in, r).polys, MapTags(in.rels[r].tags))
      ELSE IF \E r \in RelIDs : id = RName(r) /\ HasRel(in, r) /\ ~IsMultipolygon(in, r)
      THEN LET r == CHOOSE r \in RelIDs : id = RName(r) IN
           Re([i \in DOMAIN in.rels[r].members |-> MemberName(in, in.rels[r].members[i])], MapTags(in.rels[r].tags))
      ELSE Absent]

OSMCase(in) == LET s == Features(in) b == ValidSubset(s) IN
   [input |-> in, src |-> s, eff |-> b, obs |-> Obs(b),
    dropped |-> Sorted({id \in PresentIDs(s) : ~Kept(s, id)})]

OInit == /\ input \in Inputs
         /\ src = Features(input) /\ upper = [id \in IDs |-> Absent]
         /\ ~SourceUnspecified(src)
         /\ PrintT(<<"CASE", ToJson(OSMCase(input))>>)
ONext == UNCHANGED ovars
OSpec == OInit /\ [][ONext]_ovars

\* ---- design properties
\* a closed way's tags are on its area, never on its path
ClosedWayTags == \A w \in WayIDs : ClosedWay(input, w) => src[WName(w)].tags = NoTags /\ src[AWName(w)].tags = MapTags(input.ways[w].tags)
\* every member of a produced relation names the feature the element became (an area for closed ways and multipolygons)
MembersPointAtAreas == \A r \in RelIDs : (HasRel(input, r) /\ ~IsMultipolygon(input, r)) =>
   \A i \in DOMAIN input.rels[r].members :
      LET m == input.rels[r].members[i] IN
      (m.t = "w" /\ ClosedWay(input, m.id)) => src[RName(r)].members[i] = AWName(m.id)
====
