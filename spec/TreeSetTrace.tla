---- MODULE TreeSetTrace ----
(* Binding B for C07: a history recorded from the real search.TreeIndex (vh-tree drive) is accepted iff every
   logged call is a TreeSet action with exactly the logged result, every logged in-order dump equals the
   abstract set, and every logged AVL check is true.  Several runs are concatenated with "reset" events.
   Acceptance: POSTCONDITION Accepted (the single behaviour consumed the whole trace). *)
EXTENDS TreeSet
VARIABLE l
Trace == ndJsonDeserialize("trace.ndjson")
tvars == <<S, made, it, ret, thr, pure, ev, l>>

Cur == Trace[l]
IsEvent(op) == l <= Len(Trace) /\ Cur.op = op
SetOf(seq) == {seq[j] : j \in DOMAIN seq}
Sorted(seq) == \A j \in 1..(Len(seq) - 1) : seq[j] < seq[j + 1]
\* what the harness observed after an edit: AVL invariants hold, and the size of every touched list
Observed == Cur.avl = TRUE /\ \A j \in DOMAIN Cur.ts : Cardinality(S'[Cur.ts[j]]) = Cur.sizes[j]

TAdd     == IsEvent("add") /\ Add(Cur.k, Cur.ts) /\ Observed /\ l' = l + 1
TRemove  == IsEvent("remove") /\ Remove(Cur.k, Cur.ts) /\ Observed /\ l' = l + 1
TBegin   == IsEvent("begin") /\ Begin(Cur.i, Cur.t) /\ l' = l + 1
TNext    == IsEvent("next") /\ ItNext(Cur.i) /\ ev'.ok = Cur.ok /\ (Cur.ok => ev'.v = Cur.v) /\ l' = l + 1
TAdvance == IsEvent("advance") /\ ItAdvance(Cur.i, Cur.k) /\ ev'.ok = Cur.ok /\ (Cur.ok => ev'.v = Cur.v) /\ l' = l + 1
\* full dump of one list: in-order contents are the abstract set, in strictly increasing order; AVL invariants hold
TCheck   == /\ IsEvent("check") /\ Cur.avl = TRUE /\ Sorted(Cur.contents) /\ SetOf(Cur.contents) = S[Cur.t]
            /\ l' = l + 1 /\ ev' = [op |-> "check"] /\ UNCHANGED <<S, made, it, ret, thr, pure>>
TReset   == /\ IsEvent("reset") /\ l' = l + 1
            /\ S' = [t \in Toks |-> {}] /\ made' = {} /\ it' = [i \in Its |-> Closed]
            /\ ret' = [i \in Its |-> {}] /\ thr' = [i \in Its |-> {}] /\ pure' = [i \in Its |-> TRUE]
            /\ ev' = [op |-> "init"]

TraceInit == Init /\ l = 1
TraceNext == TAdd \/ TRemove \/ TBegin \/ TNext \/ TAdvance \/ TCheck \/ TReset
TraceSpec == TraceInit /\ [][TraceNext]_tvars

Accepted == TLCGet("stats").diameter - 1 = Len(Trace)
\* the clauses of the statement, over the recorded run
TInOrderNoRepeat == [][IsMove => \A r \in ret[ev'.i] : IF ev'.op = "next" THEN ev'.v > r ELSE ev'.v >= r]_tvars
TComplete == Complete
====
