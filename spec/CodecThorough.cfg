SPECIFICATION Spec
CONSTANTS
  W = 3
  MaxLen = 3
  Words3 = {0, 1, 2, 3, 4, 5, 6, 7}
  MixWords = {0, 2, 5, 6, 7}
  RecLen = 2
  GeomLen = 3
  Kinds = {"refs", "lls", "mixed", "bits", "tags", "members", "geom", "plh", "commonpoint", "fullpoint", "path", "area", "relation"}
  AreaRelEncP = 4
INVARIANTS RoundTrip Framing
ACTION_CONSTRAINT Emit
CHECK_DEADLOCK FALSE
