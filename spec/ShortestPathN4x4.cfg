\* thorough: 4 points, up to 4 two-way two-point ways, weights 1..3, limits 1..6
SPECIFICATION Spec
CONSTANTS
  NPoints = 4
  MaxWays = 4
  MaxLen = 2
  ClosedLens = {}
  Ws = {1, 2, 3}
  Kinds = {"res"}
  Limits = {1, 2, 3, 4, 5, 6}
  Profiles = {"car"}
  Origins = {0}
  Modes = {"all"}
  OriginTest = "whole-way"
  Filter = "any"
  Explore = TRUE
  CaseFile = ""
INVARIANTS Correct
CHECK_DEADLOCK TRUE
