---- MODULE MCOSMMap3 ----
(* Third input family for OSMMap: the documented key mapping table, key by key.  One node carrying one tag k=x for
   every key of the table and for keys outside it (among them keys with a colon, one mapped, two not): the feature's
   tag key must be the table's, searchable exactly when the mapped key starts with # or @. *)
EXTENDS OSMMap

MCNodeIDs == {1}
MCWayIDs == {}
MCRelIDs == {}
TableKeys == OSMKeys \ {"point", "path", "type"}
MCKeys == {MapKey(k) : k \in TableKeys}
MCVals == {"x"}
MCIDOrder == <<"P1">>
NoOT == [k \in OSMKeys |-> "-"]
MCInputs == {[nodes |-> [n \in MCNodeIDs |-> [v |-> 0, tags |-> [NoOT EXCEPT ![k] = "x"]]],
             ways |-> [w \in {} |-> 0], rels |-> [r \in {} |-> 0]] : k \in TableKeys}
MCQueries == [ all_ |-> [k |-> "all"], keyed_fhrs |-> [k |-> "keyed", key |-> "@fhrs:id"],
               keyed_amenity |-> [k |-> "keyed", key |-> "#amenity"], keyed_wikipedia |-> [k |-> "keyed", key |-> "@wikipedia"],
               tagged_water |-> [k |-> "tagged", key |-> "#water", val |-> "x"] ]
MCNoAlt == [id \in {"P1"} |-> {Absent}]
ASSUME PrintT(<<"QUERIES", ToJson(MCQueries)>>)
ASSUME PrintT(<<"KEYS", ToJson(MCKeys)>>)
ASSUME PrintT(<<"IDS", ToJson(MCIDOrder)>>)
====
