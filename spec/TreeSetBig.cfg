\* thorough: one token, 9 values, 1 iterator; graph exported
SPECIFICATION Spec
CONSTANTS
  K = 9
  T = 1
  I = 1
  MaxToks = 1
INVARIANT TypeOK
PROPERTIES NeverDeleted AdvanceBound
ACTION_CONSTRAINT Emit
VIEW View
CHECK_DEADLOCK FALSE
