\* the origin test as NewShortestPathSearchFromPoint does it (IsUseable on a zero-length segment):
\* TLC is expected to report Correct violated -- a candidate the harness confirms on the real code
SPECIFICATION Spec
CONSTANTS
  NPoints = 3
  MaxWays = 1
  MaxLen = 2
  ClosedLens = {}
  Ws = {1}
  Kinds = {"res", "one"}
  Limits = {2}
  Profiles = {"car"}
  Origins = {0}
  Modes = {"all"}
  OriginTest = "code"
  Filter = "any"
  Explore = TRUE
  CaseFile = ""
INVARIANTS Correct
CHECK_DEADLOCK TRUE
