\* one token, 5 values, 2 iterators; full transition graph exported for the product walk
SPECIFICATION Spec
CONSTANTS
  K = 5
  T = 1
  I = 2
  MaxToks = 1
INVARIANT TypeOK
PROPERTIES NeverDeleted AdvanceBound
ACTION_CONSTRAINT Emit
VIEW View
CHECK_DEADLOCK FALSE
