\* quick: one token, 4 values, 2 iterators (iterators against each other and against edits); graph exported
SPECIFICATION Spec
CONSTANTS
  K = 4
  T = 1
  I = 2
  MaxToks = 1
INVARIANT TypeOK
PROPERTIES NeverDeleted AdvanceBound
ACTION_CONSTRAINT Emit
VIEW View
CHECK_DEADLOCK FALSE
