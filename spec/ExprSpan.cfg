\* needs trace.ndjson next to the module (written by tools/props/C20.py from parse trees logged by vh-expr spans)
SPECIFICATION Spec
INVARIANT AllSpansOK
POSTCONDITION Finished
CHECK_DEADLOCK FALSE
