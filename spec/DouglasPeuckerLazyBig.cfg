\* lazily answered oracle, lines of 2..11 points (thorough); behaviours exported as CASE lines
SPECIFICATION Spec
CONSTANTS
  MaxN = 11
  Mode = "lazy"
INVARIANT TypeOK Equal Shape StackCovers LazySound
ACTION_CONSTRAINT Emit
CHECK_DEADLOCK FALSE
