---- MODULE LangGen ----
(* Enumerates every well-formed program up to a size bound (by size, bottom-up; the table of smaller
   programs is the state, so nothing is recomputed) and prints one CASE line per closed program:
   the program and what the reference interpreter (Lang) says it evaluates to.  Binding A of C21: the
   harness runs every CASE on api.Evaluate.  With Emit = "prog" only the programs are printed (C22: the
   harness feeds them to api.Simplify and LangTrace judges the logged results).

   Size: a literal, a symbol, a lambda and a call count 1 each; a library symbol in function position is
   free (it is part of the call node).  Literal leaves are numbered 1, 2, 3.. in preorder after
   enumeration, so every permutation or duplication of arguments is visible in the result.

   Profile selects the library subset and the pruning:
     untyped  - any argument anywhere (also ill-typed programs: the interpreter says "error")
     typed    - arguments whose sort is known must fit the parameter they bind (TRAILING parameters for a
                partial application) and no call has more arguments than parameters                      *)
EXTENDS Lang, Json, FiniteSetsExt
CONSTANTS Profile, MaxSize, Emit     \* Emit: "case" (program + expected observation), "prog" (program only), "count"
VARIABLES tbl, phase, todo
vars == <<tbl, phase, todo>>

Profiles ==
  \* the whole integer / pair / higher-order library, no pruning (also ill-typed programs): small sizes
  ("core" :> [callees |-> {"sub", "sub3", "pair", "first", "apply1", "call"}, values |-> {"sub", "neg"}, zero |-> {"sub"},
              plists |-> {<<>>, <<"a">>, <<"b">>, <<"a", "b">>}, leaves |-> {Lit(0)}, typed |-> FALSE,
              direct |-> TRUE, maxargs |-> 3]) @@
  \* lambdas, nesting, shadowing, partials, pipelines, calls of lambdas and of calls: larger sizes, typed
  ("lambda" :> [callees |-> {"sub", "call"}, values |-> {"sub"}, zero |-> {"sub"},
              plists |-> {<<>>, <<"a">>, <<"b">>, <<"a", "b">>}, leaves |-> {Lit(0)}, typed |-> TRUE,
              direct |-> TRUE, maxargs |-> 3]) @@
  \* function values applied with `call` only (what the shell grammar can write): reaches nesting depth 3
  ("callonly" :> [callees |-> {"sub", "call"}, values |-> {}, zero |-> {},
              plists |-> {<<"a">>, <<"b">>, <<"a", "b">>}, leaves |-> {Lit(0)}, typed |-> TRUE,
              direct |-> FALSE, maxargs |-> 3]) @@
  ("partial" :> [callees |-> {"sub3", "sub", "call", "apply1"}, values |-> {"sub3", "neg"}, zero |-> {"sub3"},
              plists |-> {<<"a">>}, leaves |-> {Lit(0)}, typed |-> TRUE,
              direct |-> TRUE, maxargs |-> 3]) @@
  ("pairs" :> [callees |-> {"pair", "first", "second", "sub", "call"}, values |-> {"first"}, zero |-> {},
              plists |-> {<<"a">>, <<"a", "b">>}, leaves |-> {Lit(0)}, typed |-> TRUE,
              direct |-> FALSE, maxargs |-> 2]) @@
  \* C22: the same generator, and the query-building calls Simplify rewrites
  ("simp" :> [callees |-> {"sub", "sub3", "call"}, values |-> {"sub", "neg"}, zero |-> {"sub"},
              plists |-> {<<>>, <<"a">>, <<"b">>, <<"a", "b">>}, leaves |-> {Lit(0)}, typed |-> FALSE,
              direct |-> TRUE, maxargs |-> 3]) @@
  ("simptyped" :> [callees |-> {"sub", "sub3", "call", "pair"}, values |-> {"sub"}, zero |-> {"sub"},
              plists |-> {<<>>, <<"a">>, <<"a", "b">>, <<"b", "a">>}, leaves |-> {Lit(0)}, typed |-> TRUE,
              direct |-> TRUE, maxargs |-> 3]) @@
  ("query" :> [callees |-> {"keyed", "tagged", "typed", "and", "or", "call"}, values |-> {"and", "keyed"}, zero |-> {"keyed"},
              plists |-> {<<>>, <<"a">>, <<"a", "b">>},
              leaves |-> {Str("k"), Str("v"), Str("point"), QLit(Keyed("j")), QLit(And(<<Tagged("k", "w"), Keyed("j")>>))},
              typed |-> TRUE, direct |-> TRUE, maxargs |-> 2])

Cfg == Profiles[Profile]
Params == UNION {RangeOf(pl) : pl \in Cfg.plists}
Scopes == SUBSET Params

\* ---------------------------------------------------------------- sorts (typed profiles only)
ParamSorts == ("add" :> <<"int", "int">>) @@ ("sub" :> <<"int", "int">>) @@ ("sub3" :> <<"int", "int", "int">>) @@
              ("neg" :> <<"int">>) @@ ("pair" :> <<"any", "any">>) @@ ("first" :> <<"pair">>) @@
              ("second" :> <<"pair">>) @@ ("apply1" :> <<"fn", "int">>) @@ ("keyed" :> <<"str">>) @@
              ("tagged" :> <<"str", "str">>) @@ ("typed" :> <<"str", "query">>) @@
              ("and" :> <<"query", "query">>) @@ ("or" :> <<"query", "query">>)
ResultSort == ("add" :> "int") @@ ("sub" :> "int") @@ ("sub3" :> "int") @@ ("neg" :> "int") @@
              ("pair" :> "pair") @@ ("first" :> "any") @@ ("second" :> "any") @@ ("apply1" :> "any") @@
              ("keyed" :> "query") @@ ("tagged" :> "query") @@ ("typed" :> "query") @@
              ("and" :> "query") @@ ("or" :> "query")
SortOf(e) == CASE e.k = "lit" -> "int" [] e.k = "str" -> "str" [] e.k = "q" -> "query"
               [] e.k = "sym" -> IF IsNative(e.n) THEN "fn" ELSE "any"
               [] e.k = "lam" -> "fn"
               [] e.k = "call" -> IF e.f.k = "sym" /\ IsNative(e.f.n)
                                  THEN (IF Len(e.a) = Arity[e.f.n] THEN ResultSort[e.f.n] ELSE "fn")
                                  ELSE "any"
Compat(s, w) == s = "any" \/ w = "any" \/ s = w
CallOK(f, as) ==
  IF ~Cfg.typed THEN TRUE
  ELSE IF f.k = "sym" /\ f.n \in Variadic THEN Compat(SortOf(as[1]), "fn")
  ELSE IF f.k = "sym" THEN /\ Len(as) <= Arity[f.n]
                           /\ \A j \in DOMAIN as : Compat(SortOf(as[j]), ParamSorts[f.n][Arity[f.n] - Len(as) + j])
  ELSE IF f.k = "lam" THEN Len(as) <= Len(f.p)
  ELSE Compat(SortOf(f), "fn")

\* ---------------------------------------------------------------- enumeration by size
RECURSIVE Splits(_, _), Prod(_, _, _)
\* sequences of k positive integers with the given sum
Splits(total, k) == IF k = 0 THEN (IF total = 0 THEN {<<>>} ELSE {})
                    ELSE IF total < k THEN {}
                    ELSE UNION {{<<h>> \o t : t \in Splits(total - h, k - 1)} : h \in 1..(total - k + 1)}
Prod(split, T, s) == IF split = <<>> THEN {<<>>}
                     ELSE {<<h>> \o t : h \in T[Head(split)][s], t \in Prod(Tail(split), T, s)}
\* (TLC's UNION de-duplicates by linear search; folding \cup keeps big unions n log n)
BigUnion(F(_), S) == FoldSet(LAMBDA x, acc : F(x) \cup acc, {}, S)
ArgSeqs(total, T, s) == BigUnion(LAMBDA k : BigUnion(LAMBDA sp : Prod(sp, T, s), Splits(total, k)), 0..Cfg.maxargs)

Level1(s) == Cfg.leaves \cup {Sym(x) : x \in s} \cup {Sym(f) : f \in Cfg.values}
             \cup {Call(Sym(f), <<>>) : f \in Cfg.zero}
CallsSym(n, T, s) == {c \in {Call(Sym(f), as) : f \in Cfg.callees, as \in ArgSeqs(n - 1, T, s)} :
                         (c.f.n \in Variadic => c.a # <<>>) /\ CallOK(c.f, c.a)}
CallsExpr(n, T, s) ==
  IF ~Cfg.direct THEN {}
  ELSE BigUnion(LAMBDA fs : {c \in {Call(f, as) : f \in {g \in T[fs][s] : g.k \in {"lam", "call"}}, as \in ArgSeqs(n - 1 - fs, T, s)} :
                                 CallOK(c.f, c.a)}, 1..(n - 1))
Lams(n, T, s) == BigUnion(LAMBDA ps : {Lam(ps, b) : b \in T[n - 1][s \cup RangeOf(ps)]}, Cfg.plists)
Build(n, T) == [s \in Scopes |-> CallsSym(n, T, s) \cup CallsExpr(n, T, s) \cup Lams(n, T, s)]

\* number the literal leaves 1, 2, 3, .. in preorder
RECURSIVE Renum(_, _), RenumSeq(_, _)
Renum(e, k) == CASE e.k = "lit"  -> [e |-> Lit(k), k |-> k + 1]
                 [] e.k = "lam"  -> LET b == Renum(e.b, k) IN [e |-> Lam(e.p, b.e), k |-> b.k]
                 [] e.k = "call" -> LET f == IF e.f.k = "sym" THEN [e |-> e.f, k |-> k] ELSE Renum(e.f, k)
                                        as == RenumSeq(e.a, f.k)
                                    IN [e |-> Call(f.e, as.e), k |-> as.k]
                 [] OTHER -> [e |-> e, k |-> k]
RenumSeq(es, k) == IF es = <<>> THEN [e |-> <<>>, k |-> k]
                   ELSE LET h == Renum(Head(es), k) t == RenumSeq(Tail(es), h.k) IN [e |-> <<h.e>> \o t.e, k |-> t.k]

\* ---------------------------------------------------------------- the state machine: build, split into jobs, emit
Closed(T) == BigUnion(LAMBDA n : T[n][{}], 1..Len(T))
JobOf(p) == CASE p.k = "call" -> <<"call", IF p.f.k = "sym" THEN p.f.n ELSE p.f.k, Len(p.a)>>
              [] p.k = "lam" -> <<"lam", p.b.k, Len(p.p)>>
              [] OTHER -> <<"leaf", "", 0>>

Init == tbl = <<[s \in Scopes |-> Level1(s)]>> /\ phase = "build" /\ todo = {}
Grow == /\ phase = "build" /\ Len(tbl) < MaxSize
        /\ tbl' = Append(tbl, Build(Len(tbl) + 1, tbl))
        /\ UNCHANGED <<phase, todo>>
Split == /\ phase = "build" /\ Len(tbl) = MaxSize
         /\ PrintT(<<"SIZES", [n \in 1..Len(tbl) |-> Cardinality(tbl[n][{}])]>>)
         /\ LET all == Closed(tbl) IN \E j \in {JobOf(p) : p \in all} : todo' = {p \in all : JobOf(p) = j}
         /\ phase' = "job" /\ tbl' = <<>>
EmitCase(p0) == LET p == Renum(p0, 1).e IN
                IF Emit = "case" THEN LET c == ObsC(p) IN PrintT(<<"CASE", ToJson([p |-> p, want |-> c.o, cls |-> c.cls])>>)
                ELSE IF Emit = "prog" THEN PrintT(<<"PROG", ToJson([p |-> p])>>)
                ELSE TRUE
Work == /\ phase = "job"
        /\ \A p \in todo : EmitCase(p)
        /\ phase' = "done" /\ todo' = {} /\ UNCHANGED tbl
Next == Grow \/ Split \/ Work
Spec == Init /\ [][Next]_vars

\* design properties of the enumeration itself
Sizes == phase = "build" =>
           \A n \in 1..Len(tbl) : \A p \in tbl[n][{}] : FreeVars(p) = {} /\ ~StaticUndef(p, {})
====
