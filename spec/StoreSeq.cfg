\* integer sequences by value class, quick: length <= 4
SPECIFICATION Spec
CONSTANTS
  Kind = "seq"
  MaxEntries = 4
  MaxKeys = 1
  Tags = {0}
  Classes = {"zero", "one", "small", "bit31", "bit32", "bit62", "bit63", "max"}
  FreeReserveUpTo = 0
INVARIANTS TypeOK NoDuplicates ReservedBeforeWritten Lossless
PROPERTY PhasesInOrder
ACTION_CONSTRAINT Emit
CHECK_DEADLOCK FALSE
