\* token level: 3 tokens, 2 values, token lists of length <= 2 (every order), 1 iterator
SPECIFICATION Spec
CONSTANTS
  K = 2
  T = 3
  I = 1
  MaxToks = 2
INVARIANT TypeOK
PROPERTIES NeverDeleted AdvanceBound
ACTION_CONSTRAINT Emit
VIEW View
CHECK_DEADLOCK FALSE
