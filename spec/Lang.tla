---- MODULE Lang ----
(* Reference interpreter of the b6 expression language (api/vm.go compiles and runs it; api/shell.go
   Simplify rewrites it).  Pure definitions, no variables: LangGen enumerates programs and prints what
   this interpreter computes for them (C21, binding A), LangTrace evaluates it on programs and on the
   ACTUAL output of api.Simplify logged by the harness (C22 / C21 thorough, binding B).

   Expressions (the JSON the harness reads and writes has exactly this shape):
     [k |-> "lit", v |-> Int]   [k |-> "str", s |-> STRING]   [k |-> "q", q |-> Query]
     [k |-> "sym", n |-> STRING]
     [k |-> "call", f |-> Expr, a |-> Seq(Expr)]      a pipeline  x | f  is  Call(f, <<x>>)
     [k |-> "lam", p |-> Seq(STRING), b |-> Expr]
   Queries: [op |-> "keyed", key], [op |-> "tagged", key, val], [op |-> "typed", ty, q],
            [op |-> "and", qs |-> Seq(Query)], [op |-> "or", qs |-> Seq(Query)]

   Semantics that the property fixes (DESIGN.md A.3):
     * lexical scoping, inner binding shadows outer;
     * applying a function to fewer arguments than it expects gives a partial application that binds the
       TRAILING parameters (the arguments given later come first); more arguments is an error;
     * a symbol in function position names a library function; function VALUES are applied with the
       library function `call f x1 .. xn` (variadic) or by a call whose function is a lambda or a call;
     * library functions have fixed arities and argument types; a type error is an error.

   Programs whose meaning depends on something the language leaves undefined evaluate to (or are flagged)
   "undef" and are never asserted:
     U1  a variable is read whose binding activation is neither the one the parameter array in force holds
         nor the most recent activation of its lambda literal (the VM keeps one slot per lambda parameter:
         closure that escaped and is called after its defining lambda literal was activated again, or
         re-entrant activation).  A read IS defined when the array in force holds the binding activation
         even though a later activation exists: that is what the snapshot a partial application takes when
         it is created (partialCall.vmArgs) and swaps in around its final call is for;
     U2  function-position symbol bound by a lambda; parameter named like a library function;
         `call` used as a value or without arguments; `call` applied to a query;
     U3  a string-typed library parameter receives an integer, or a string that came out of a library
         function with an untyped result (Go reflection conversion rules, C23's subject);
     U4  evaluation needs more than Fuel applications (divergence).

   One more class is only DIAGNOSED (flag pe; the expected result stays asserted): the VM keeps the
   parameter slots in one array that a partial application snapshots when it is created and swaps in (and
   afterwards restores) around its final call.  A read is flagged pe when its binding is the latest
   activation of its lambda literal but not the one that array would hold.  The flag is used for nothing but
   naming the failure class (known-finding key) of a mismatch. *)
EXTENDS Integers, Sequences, FiniteSets, TLC

Fuel == 400

\* ---------------------------------------------------------------- expressions
Lit(i)     == [k |-> "lit", v |-> i]
Str(s)     == [k |-> "str", s |-> s]
QLit(q)    == [k |-> "q", q |-> q]
Sym(n)     == [k |-> "sym", n |-> n]
Call(f, a) == [k |-> "call", f |-> f, a |-> a]
Lam(p, b)  == [k |-> "lam", p |-> p, b |-> b]

Keyed(k)     == [op |-> "keyed", key |-> k]
Tagged(k, v) == [op |-> "tagged", key |-> k, val |-> v]
Typed(t, q)  == [op |-> "typed", ty |-> t, q |-> q]
And(qs)      == [op |-> "and", qs |-> qs]
Or(qs)       == [op |-> "or", qs |-> qs]

\* ---------------------------------------------------------------- library
Arity == ("add" :> 2) @@ ("sub" :> 2) @@ ("sub3" :> 3) @@ ("neg" :> 1) @@
         ("pair" :> 2) @@ ("first" :> 1) @@ ("second" :> 1) @@ ("apply1" :> 2) @@ ("applyto" :> 2) @@
         ("keyed" :> 1) @@ ("tagged" :> 2) @@ ("typed" :> 2) @@ ("and" :> 2) @@ ("or" :> 2)
IsNative(n) == n \in DOMAIN Arity
Variadic == {"call"}           \* only ever in function position, with at least the function argument
Global(n) == IsNative(n) \/ n \in Variadic

\* ---------------------------------------------------------------- values
IntV(i)     == [t |-> "int", v |-> i]
StrV(s, w)  == [t |-> "str", s |-> s, w |-> w]      \* w: came out of an untyped library result (U3)
PairV(a, b) == [t |-> "pair", a |-> a, b |-> b]
QV(q)       == [t |-> "q", q |-> q]
NativeV(n)  == [t |-> "native", n |-> n]
Err         == [t |-> "err"]
Undef       == [t |-> "undef"]
IsFn(v)  == v.t \in {"native", "clo", "par"}
IsBad(v) == v.t \in {"err", "undef"}

MinOf(S) == CHOOSE x \in S : \A y \in S : x <= y
Last(s) == s[Len(s)]
RangeOf(s) == {s[i] : i \in DOMAIN s}

\* interpreter state threaded through evaluation in the VM's order (arguments left to right, then the function)
St0 == [n |-> 0, latest |-> <<>>, slots |-> <<>>, u |-> FALSE, pe |-> FALSE, fuel |-> Fuel]
R(v, st) == [v |-> v, st |-> st]
LamKey(c) == [p |-> c.p, b |-> c.b]       \* a lambda literal (structurally equal literals are identified: conservative)
LatestAct(st, key) == LET I == {i \in DOMAIN st.latest : st.latest[i][1] = key} IN
                      IF I = {} THEN 0 ELSE st.latest[MinOf(I)][2]
SlotAct(st, key) == LET I == {i \in DOMAIN st.slots : st.slots[i][1] = key} IN
                    IF I = {} THEN 0 ELSE st.slots[MinOf(I)][2]

FeatureTypes == {"point", "path", "area", "relation"}

RECURSIVE NumArgs(_)
NumArgs(c) == CASE c.t = "native" -> Arity[c.n]
                [] c.t = "clo"    -> Len(c.p)
                [] c.t = "par"    -> NumArgs(c.f) - Len(c.bound)

Wrap(v) == IF v.t = "str" THEN [v EXCEPT !.w = TRUE] ELSE v
StrArg(v) == IF v.t = "str" THEN (IF v.w THEN "undef" ELSE "ok") ELSE IF v.t = "int" THEN "undef" ELSE "err"

RECURSIVE Eval(_, _, _), EvalArgs(_, _, _), EvalCall(_, _, _), Apply(_, _, _), NativeCall(_, _, _)

\* -> [vs, ok, st]; when ~ok the last element of vs is the err/undef value that stopped evaluation
EvalArgs(as, env, st) ==
  IF as = <<>> THEN [vs |-> <<>>, ok |-> TRUE, st |-> st]
  ELSE LET h == Eval(Head(as), env, st) IN
       IF IsBad(h.v) THEN [vs |-> <<h.v>>, ok |-> FALSE, st |-> h.st]
       ELSE LET r == EvalArgs(Tail(as), env, h.st) IN
            [vs |-> <<h.v>> \o r.vs, ok |-> r.ok, st |-> r.st]

NativeCall(n, vs, st) ==
  LET ints == \A i \in DOMAIN vs : vs[i].t = "int" IN
  CASE n = "add"  -> R(IF ints THEN IntV(vs[1].v + vs[2].v) ELSE Err, st)
    [] n = "sub"  -> R(IF ints THEN IntV(vs[1].v - vs[2].v) ELSE Err, st)
    [] n = "sub3" -> R(IF ints THEN IntV(9 * vs[1].v + 3 * vs[2].v + vs[3].v) ELSE Err, st)
    [] n = "neg"  -> R(IF ints THEN IntV(0 - vs[1].v) ELSE Err, st)
    [] n = "pair" -> R(PairV(vs[1], vs[2]), st)
    [] n = "first"  -> R(IF vs[1].t = "pair" THEN Wrap(vs[1].a) ELSE Err, st)
    [] n = "second" -> R(IF vs[1].t = "pair" THEN Wrap(vs[1].b) ELSE Err, st)
    [] n = "apply1" ->      \* apply1 : (int -> x) * int -> x, through the function adaptor
         IF IsFn(vs[1]) /\ NumArgs(vs[1]) = 1 /\ vs[2].t = "int"
         THEN LET r == Apply(vs[1], <<vs[2]>>, st) IN R(Wrap(r.v), r.st)
         ELSE R(Err, st)
    [] n = "applyto" ->     \* applyto : int * (int -> x) -> x; `applyto f` is a NATIVE partial application holding a closure
         IF IsFn(vs[2]) /\ NumArgs(vs[2]) = 1 /\ vs[1].t = "int"
         THEN LET r == Apply(vs[2], <<vs[1]>>, st) IN R(Wrap(r.v), r.st)
         ELSE R(Err, st)
    [] n = "keyed" -> LET k == StrArg(vs[1]) IN
         R(IF k = "ok" THEN QV(Keyed(vs[1].s)) ELSE IF k = "undef" THEN Undef ELSE Err, st)
    [] n = "tagged" -> LET k == StrArg(vs[1]) v == StrArg(vs[2]) IN
         R(IF k = "undef" \/ v = "undef" THEN Undef
           ELSE IF k = "err" \/ v = "err" THEN Err
           ELSE QV(Tagged(vs[1].s, vs[2].s)), st)
    [] n = "typed" -> LET k == StrArg(vs[1]) IN
         R(IF k = "undef" THEN Undef
           ELSE IF k = "err" \/ vs[2].t # "q" THEN Err
           ELSE QV(Typed(vs[1].s, vs[2].q)), st)
    [] n = "and" -> R(IF vs[1].t = "q" /\ vs[2].t = "q" THEN QV(And(<<vs[1].q, vs[2].q>>)) ELSE Err, st)
    [] n = "or"  -> R(IF vs[1].t = "q" /\ vs[2].t = "q" THEN QV(Or(<<vs[1].q, vs[2].q>>)) ELSE Err, st)


Apply(c, vs, st) ==
  IF st.fuel = 0 THEN R(Undef, st)
  ELSE LET s1 == [st EXCEPT !.fuel = @ - 1]
           n  == NumArgs(c)
           m  == Len(vs)
       IN IF m > n THEN R(Err, s1)                                            \* too many arguments
          ELSE IF m < n THEN R([t |-> "par", f |-> c, bound |-> vs, snap |-> s1.slots], s1)   \* partial application
          ELSE CASE c.t = "native" -> NativeCall(c.n, vs, s1)
                 [] c.t = "clo" ->
                      LET act == s1.n + 1
                          key == LamKey(c)
                          s2  == [s1 EXCEPT !.n = act, !.latest = <<<<key, act>>>> \o @, !.slots = <<<<key, act>>>> \o @]
                          fr  == [i \in 1..m |-> [n |-> c.p[i], v |-> vs[i], l |-> key, a |-> act]]
                      IN Eval(c.b, fr \o c.env, s2)                            \* lexical scope, inner shadows outer
                 [] c.t = "par" ->                                             \* NEW arguments first, bound ones trail
                      LET r == Apply(c.f, vs \o c.bound, [s1 EXCEPT !.slots = c.snap])
                      IN R(r.v, [r.st EXCEPT !.slots = s1.slots])

Bound(env, n) == \E i \in DOMAIN env : env[i].n = n

EvalCall(e, env, st) ==
  IF e.f.k = "sym" /\ Bound(env, e.f.n) THEN R(Undef, st)                      \* U2
  ELSE IF e.f.k = "sym" /\ e.f.n \in Variadic THEN                            \* call f x1 .. xn
       IF e.a = <<>> THEN R(Undef, st)
       ELSE LET as == EvalArgs(e.a, env, st) IN
            IF ~as.ok THEN R(Last(as.vs), as.st)
            ELSE LET f == as.vs[1] IN
                 IF f.t = "q" THEN R(Undef, as.st)
                 ELSE IF ~IsFn(f) THEN R(Err, as.st)
                 ELSE LET r == Apply(f, Tail(as.vs), as.st) IN R(Wrap(r.v), r.st)
  ELSE IF e.f.k \in {"lit", "str", "q"} THEN R(Err, st)                       \* cannot call a literal
  ELSE LET as == EvalArgs(e.a, env, st) IN
       IF ~as.ok THEN R(Last(as.vs), as.st)
       ELSE LET f == Eval(e.f, env, as.st) IN
            IF IsBad(f.v) THEN f
            ELSE IF ~IsFn(f.v) THEN R(Err, f.st)
            ELSE Apply(f.v, as.vs, f.st)

Eval(e, env, st) ==
  CASE e.k = "lit" -> R(IntV(e.v), st)
    [] e.k = "str" -> R(StrV(e.s, FALSE), st)
    [] e.k = "q"   -> R(QV(e.q), st)
    [] e.k = "sym" ->
         LET I == {i \in DOMAIN env : env[i].n = e.n} IN
         IF I # {} THEN LET en == env[MinOf(I)] IN
                        R(en.v, IF SlotAct(st, en.l) = en.a THEN st                                  \* the slot holds it
                                ELSE IF LatestAct(st, en.l) # en.a THEN [st EXCEPT !.u = TRUE]       \* U1
                                ELSE [st EXCEPT !.pe = TRUE])
         ELSE IF IsNative(e.n) THEN R(NativeV(e.n), st)
         ELSE IF e.n \in Variadic THEN R(Undef, st)
         ELSE R(Err, st)                                                       \* undefined symbol
    [] e.k = "lam"  -> R([t |-> "clo", p |-> e.p, b |-> e.b, env |-> env], st)
    [] e.k = "call" -> EvalCall(e, env, st)

\* ---------------------------------------------------------------- static part (what the compiler rejects)
RECURSIVE FreeVars(_), SubExprs(_)
\* symbols not bound by an enclosing lambda and not naming a library function
FreeVars(e) ==
  CASE e.k = "sym"  -> IF Global(e.n) THEN {} ELSE {e.n}
    [] e.k = "lam"  -> FreeVars(e.b) \ RangeOf(e.p)
    [] e.k = "call" -> FreeVars(e.f) \cup UNION {FreeVars(e.a[i]) : i \in DOMAIN e.a}
    [] OTHER -> {}
\* symbols that are free occurrences INCLUDING library names (to see captured library names)
RECURSIVE FreeSyms(_)
FreeSyms(e) ==
  CASE e.k = "sym"  -> {e.n}
    [] e.k = "lam"  -> FreeSyms(e.b) \ RangeOf(e.p)
    [] e.k = "call" -> FreeSyms(e.f) \cup UNION {FreeSyms(e.a[i]) : i \in DOMAIN e.a}
    [] OTHER -> {}
SubExprs(e) ==
  {e} \cup (CASE e.k = "lam"  -> SubExprs(e.b)
              [] e.k = "call" -> SubExprs(e.f) \cup UNION {SubExprs(e.a[i]) : i \in DOMAIN e.a}
              [] OTHER -> {})

RECURSIVE StaticUndef(_, _)
\* U2, decided before evaluation (the compiler's treatment of these is not part of the language)
StaticUndef(e, bound) ==
  CASE e.k = "sym"  -> e.n \in Variadic /\ e.n \notin bound
    [] e.k = "lam"  -> (\E i \in DOMAIN e.p : Global(e.p[i])) \/ StaticUndef(e.b, bound \cup RangeOf(e.p))
    [] e.k = "call" -> \/ (e.f.k = "sym" /\ e.f.n \in bound)
                       \/ (e.f.k = "sym" /\ e.f.n \in Variadic /\ e.a = <<>>)
                       \/ (e.f.k # "sym" /\ StaticUndef(e.f, bound))
                       \/ \E i \in DOMAIN e.a : StaticUndef(e.a[i], bound)
    [] OTHER -> FALSE
\* compile errors: an undefined symbol or a literal in function position anywhere in the program
StaticErr(e) == \/ FreeVars(e) # {}
                \/ \E s \in SubExprs(e) : s.k = "call" /\ s.f.k \in {"lit", "str", "q"}

\* the meaning of a whole program: [v, u]  (u: not asserted)
Run(p) == IF StaticUndef(p, {}) THEN [v |-> Undef, u |-> TRUE, pe |-> FALSE]
          ELSE IF StaticErr(p) THEN [v |-> Err, u |-> FALSE, pe |-> FALSE]
          ELSE LET r == Eval(p, <<>>, St0) IN [v |-> r.v, u |-> r.st.u \/ r.v.t = "undef", pe |-> r.st.pe]

\* ---------------------------------------------------------------- queries: denotation over a small universe
QKeys == {"k", "j"}
QVals == {"v", "w"}
Universe == [ty : {"point", "path"}, tags : [QKeys -> QVals \cup {"-"}]]
RECURSIVE Matches(_, _)
Matches(q, f) ==
  CASE q.op = "keyed"  -> q.key \in QKeys /\ f.tags[q.key] # "-"
    [] q.op = "tagged" -> q.key \in QKeys /\ f.tags[q.key] = q.val
    [] q.op = "typed"  -> f.ty = q.ty /\ Matches(q.q, f)
    [] q.op = "and"    -> \A i \in DOMAIN q.qs : Matches(q.qs[i], f)
    [] q.op = "or"     -> \E i \in DOMAIN q.qs : Matches(q.qs[i], f)
Den(q) == {f \in Universe : Matches(q, f)}

\* ---------------------------------------------------------------- observations (what is compared with the VM)
RECURSIVE ObsV(_)
ObsV(v) == CASE v.t = "int"  -> [t |-> "int", v |-> v.v]
             [] v.t = "str"  -> [t |-> "str", s |-> v.s]
             [] v.t = "pair" -> [t |-> "pair", a |-> ObsV(v.a), b |-> ObsV(v.b)]
             [] v.t = "q"    -> [t |-> "query", den |-> Den(v.q)]
             [] IsFn(v)      -> [t |-> "fn", n |-> NumArgs(v)]
             [] OTHER        -> [t |-> v.t]
Probes == <<Lit(7), Lit(3), Lit(2)>>
ProbeOf(p, n) == Call(Sym("call"), <<p>> \o SubSeq(Probes, 1, n))
ProbeDepth == 3
RECURSIVE ObsP(_, _), Has(_, _)
\* observation of a program: [o |-> observation, pe |-> diagnosed class]; a function result is applied
\* (by a second program, `call p 7 3 ..`) to see what it does
ObsP(p, d) ==
  LET r == Run(p) IN
  IF r.u THEN [o |-> [t |-> "undef"], pe |-> FALSE]
  ELSE IF IsFn(r.v) THEN
         LET n == NumArgs(r.v) IN
         IF d = 0 \/ n > Len(Probes) THEN [o |-> [t |-> "fn", n |-> n, r |-> [t |-> "deep"]], pe |-> r.pe]
         ELSE LET sub == ObsP(ProbeOf(p, n), d - 1) IN
              [o |-> [t |-> "fn", n |-> n, r |-> sub.o], pe |-> r.pe \/ sub.pe]
  ELSE [o |-> ObsV(r.v), pe |-> r.pe]
Has(o, t) == o.t = t \/ (o.t = "fn" /\ "r" \in DOMAIN o /\ Has(o.r, t))
\* what is asserted of a program (o; "undef": nothing) and the class a mismatch on it belongs to ("pe" or "-")
ObsC(p) == LET x == ObsP(p, ProbeDepth) IN
           IF Has(x.o, "undef") THEN [o |-> [t |-> "undef"], cls |-> "-"]
           ELSE [o |-> x.o, cls |-> IF x.pe THEN "pe" ELSE "-"]
Obs(p) == ObsC(p).o

\* ---------------------------------------------------------------- self tests (values fixed in DESIGN.md A.3)
SelfT(p) == Run(p).v
ASSUME SelfT(Call(Call(Sym("sub"), <<Lit(5)>>), <<Lit(3)>>)) = IntV(-2)                                   \* (sub 5) 3
ASSUME SelfT(Call(Call(Call(Sym("sub3"), <<Lit(1)>>), <<Lit(2)>>), <<Lit(3)>>)) = IntV(9 * 3 + 3 * 2 + 1) \* sub3 3 2 1
ASSUME SelfT(Call(Lam(<<"x">>, Call(Sym("sub"), <<Sym("x"), Lit(1)>>)), <<Lit(9)>>)) = IntV(8)
ASSUME SelfT(Call(Lam(<<"x">>, Call(Lam(<<"x">>, Sym("x")), <<Lit(4)>>)), <<Lit(9)>>)) = IntV(4)          \* shadowing
ASSUME SelfT(Call(Sym("call"), <<Lam(<<"a", "b">>, Call(Sym("sub"), <<Sym("a"), Sym("b")>>)), Lit(7), Lit(3)>>)) = IntV(4)
ASSUME SelfT(Call(Call(Sym("call"), <<Lam(<<"a", "b">>, Call(Sym("sub"), <<Sym("a"), Sym("b")>>)), Lit(7)>>), <<Lit(3)>>)) = IntV(-4)
ASSUME SelfT(Call(Sym("sub"), <<Lit(1), Lit(2), Lit(3)>>)) = Err
ASSUME SelfT(Call(Sym("first"), <<Lit(1)>>)) = Err
ASSUME SelfT(Call(Call(Sym("add"), <<Lit(1), Lit(2)>>), <<Lit(3)>>)) = Err                                 \* 3 | add 1 2
ASSUME SelfT(Sym("zz")) = Err
====
