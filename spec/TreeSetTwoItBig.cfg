\* thorough: one token, 6 values, 2 iterators; graph exported
SPECIFICATION Spec
CONSTANTS
  K = 6
  T = 1
  I = 2
  MaxToks = 1
INVARIANT TypeOK
PROPERTIES NeverDeleted AdvanceBound
ACTION_CONSTRAINT Emit
VIEW View
CHECK_DEADLOCK FALSE
