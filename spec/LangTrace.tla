---- MODULE LangTrace ----
(* Binding B for C21/C22: the harness logs, one JSON line per program,
     [id, m |-> "vm",   p, vp]            p evaluated by the real VM (observation vp)
     [id, m |-> "simp", p, vp, q, vq]     q = the ACTUAL output of api.Simplify(p), vq = VM observation of q
   and this module evaluates the reference interpreter (Lang) on p and on q and prints one RES line per
   record with the verdicts:
     u     the meaning of p (or q) depends on something the language leaves undefined: nothing asserted
     vmp   VM(p) is what Lang computes for p                               (C21)
     eq    Lang(q) = Lang(p): the simplifier's output means the same       (C22)
     fv    FreeVars(q) \subseteq FreeVars(p): no parameter left unbound    (C22)
     vmeq  VM(q) = VM(p) as observations                                   (C22)
   Records are processed in NChunks independent states so that TLC's workers share the evaluation.       *)
EXTENDS Lang, Json
CONSTANT NChunks
VARIABLES chunk, done
vars == <<chunk, done>>

Trace == ndJsonDeserialize("lang_trace.ndjson")

RECURSIVE QueryOK(_), ExprOK(_), Norm(_), ObsEq(_, _), Brief(_)
QueryOK(q) == CASE q.op \in {"keyed", "tagged"} -> TRUE
                [] q.op = "typed" -> QueryOK(q.q)
                [] q.op \in {"and", "or"} -> \A i \in DOMAIN q.qs : QueryOK(q.qs[i])
                [] OTHER -> FALSE
\* an expression Lang can evaluate (Simplify could in principle emit node kinds outside the language)
ExprOK(e) == CASE e.k \in {"lit", "str", "sym"} -> TRUE
               [] e.k = "q" -> QueryOK(e.q)
               [] e.k = "lam" -> ExprOK(e.b)
               [] e.k = "call" -> ExprOK(e.f) /\ \A i \in DOMAIN e.a : ExprOK(e.a[i])
               [] OTHER -> FALSE
\* a VM observation as logged -> the form Lang!Obs produces (queries by their denotation)
Norm(o) == CASE o.t = "int"   -> [t |-> "int", v |-> o.v]
             [] o.t = "str"   -> [t |-> "str", s |-> o.s]
             [] o.t = "pair"  -> [t |-> "pair", a |-> Norm(o.a), b |-> Norm(o.b)]
             [] o.t = "query" -> IF QueryOK(o.q) THEN [t |-> "query", den |-> Den(o.q)] ELSE [t |-> "other"]
             [] o.t = "fn"    -> IF "r" \in DOMAIN o THEN [t |-> "fn", n |-> o.n, r |-> Norm(o.r)]
                                 ELSE [t |-> "fn", n |-> o.n]
             [] OTHER -> [t |-> o.t]
ObsEq(x, y) == /\ x.t = y.t
               /\ CASE x.t = "int"   -> x.v = y.v
                    [] x.t = "str"   -> x.s = y.s
                    [] x.t = "pair"  -> ObsEq(x.a, y.a) /\ ObsEq(x.b, y.b)
                    [] x.t = "query" -> x.den = y.den
                    [] x.t = "fn"    -> /\ x.n = y.n
                                        /\ ("r" \in DOMAIN x) = ("r" \in DOMAIN y)
                                        /\ ("r" \in DOMAIN x => ObsEq(x.r, y.r))
                    [] OTHER -> TRUE
Brief(o) == CASE o.t = "query" -> [t |-> "query", matches |-> Cardinality(o.den)]
              [] o.t = "pair"  -> [t |-> "pair", a |-> Brief(o.a), b |-> Brief(o.b)]
              [] o.t = "fn" /\ "r" \in DOMAIN o -> [t |-> "fn", n |-> o.n, r |-> Brief(o.r)]
              [] OTHER -> o

JudgeVM(r) ==
  LET c  == ObsC(r.p)
      lp == c.o
  IN [id |-> r.id, m |-> "vm", u |-> lp.t = "undef", cls |-> c.cls,
      vmp |-> lp.t = "undef" \/ ObsEq(Norm(r.vp), lp), lp |-> Brief(lp)]

JudgeSimp(r) ==
  IF ~ExprOK(r.q) THEN [id |-> r.id, m |-> "simp", bad |-> TRUE]
  ELSE
  LET cp == ObsC(r.p)
      cq == ObsC(r.q)
      lp == cp.o
      lq == cq.o
      u  == lp.t = "undef" \/ lq.t = "undef"
  IN [id |-> r.id, m |-> "simp", bad |-> FALSE, u |-> u, cls |-> IF cp.cls = "pe" \/ cq.cls = "pe" THEN "pe" ELSE "-",
      up |-> lp.t = "undef",
      eq |-> u \/ ObsEq(lp, lq),
      fv |-> FreeVars(r.q) \subseteq FreeVars(r.p),
      vmp |-> lp.t = "undef" \/ ObsEq(Norm(r.vp), lp),
      vmq |-> lq.t = "undef" \/ ObsEq(Norm(r.vq), lq),
      vmeq |-> ObsEq(Norm(r.vp), Norm(r.vq)),
      lp |-> Brief(lp), lq |-> Brief(lq)]

Judge(r) == IF r.m = "vm" THEN JudgeVM(r) ELSE JudgeSimp(r)

Init == chunk \in 1..NChunks /\ done = FALSE
Next == /\ ~done
        /\ \A i \in {j \in DOMAIN Trace : (j % NChunks) + 1 = chunk} : PrintT(<<"RES", ToJson(Judge(Trace[i]))>>)
        /\ done' = TRUE /\ UNCHANGED chunk
Spec == Init /\ [][Next]_vars
====
