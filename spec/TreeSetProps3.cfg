\* the clauses of the statement over the histories, two tokens (thorough)
SPECIFICATION Spec
CONSTANTS
  K = 2
  T = 2
  I = 1
  MaxToks = 2
INVARIANT TypeOK Complete
PROPERTIES InOrderNoRepeat NeverDeleted AdvanceBound FalseMeansEnd
CHECK_DEADLOCK FALSE
