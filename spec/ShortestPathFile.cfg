\* networks from cases.ndjson (seeded samples): the algorithm is explored on each
SPECIFICATION Spec
CONSTANTS
  NPoints = 1
  MaxWays = 0
  MaxLen = 2
  ClosedLens = {}
  Ws = {1}
  Kinds = {"res"}
  Limits = {1}
  Profiles = {"car"}
  Origins = {0}
  Modes = {"all"}
  OriginTest = "whole-way"
  Filter = "any"
  Explore = TRUE
  CaseFile = "cases.ndjson"
INVARIANTS Correct
CHECK_DEADLOCK TRUE
