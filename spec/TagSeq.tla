---- MODULE TagSeq ----
(* b6.Tags (world.go): a feature's tag list as an ordered map.
   State: a sequence of <<key, value>> pairs with distinct keys.
   One action per public method; `ev` is output only (hidden by VIEW) and carries the call and its result,
   so that every transition TLC generates can be executed on the real b6.Tags value (binding A). *)
EXTENDS Integers, Sequences, FiniteSets, TLC, Json
CONSTANTS Keys,      \* keys that may be stored, e.g. {"a","b","c"}
          Absent,    \* keys that are only ever asked for / removed, e.g. {"d"}
          Vals,      \* values, e.g. {"1","2"}
          MaxRemove  \* longest key list passed to RemoveTags
VARIABLES tags, ev
vars == <<tags, ev>>

AllKeys == Keys \cup Absent
KeysOf(t) == {t[i][1] : i \in DOMAIN t}
Distinct(t) == \A i, j \in DOMAIN t : i # j => t[i][1] # t[j][1]
Lookup(t, k) == IF k \in KeysOf(t) THEN t[CHOOSE i \in DOMAIN t : t[i][1] = k][2] ELSE "-"
Without(t, ks) == SelectSeq(t, LAMBDA p : p[1] \notin ks)
SetKey(t, k, v) == IF k \in KeysOf(t) THEN [i \in DOMAIN t |-> IF t[i][1] = k THEN <<k, v>> ELSE t[i]]
                   ELSE Append(t, <<k, v>>)

\* all tag lists with distinct keys (the state space, also the argument space of MergeFrom)
RECURSIVE ListsOver(_)
ListsOver(ks) == {<<>>} \cup UNION {{<<<<k, v>>>> \o r : r \in ListsOver(ks \ {k}), v \in Vals} : k \in ks}
AllLists == ListsOver(Keys)
KeyLists == UNION {[1..n -> AllKeys] : n \in 0..MaxRemove}

TypeOK == Distinct(tags) /\ KeysOf(tags) \subseteq Keys

Init == tags \in AllLists /\ ev = [op |-> "init"]

Set(k, v) == /\ tags' = SetKey(tags, k, v)
             /\ ev' = [op |-> "set", k |-> k, v |-> v, modified |-> k \in KeysOf(tags), old |-> Lookup(tags, k)]
Add(k, v) == /\ k \notin KeysOf(tags)           \* AddTag appends blindly: only specified for a new key
             /\ tags' = Append(tags, <<k, v>>)
             /\ ev' = [op |-> "add", k |-> k, v |-> v]
Remove(k) == /\ tags' = Without(tags, {k})
             /\ ev' = [op |-> "remove", k |-> k]
RemoveMany(ks) == /\ tags' = Without(tags, {ks[i] : i \in DOMAIN ks})
                  /\ ev' = [op |-> "removemany", ks |-> ks]
RemoveAll == tags' = <<>> /\ ev' = [op |-> "removeall"]
MergeFrom(o) == tags' = o /\ ev' = [op |-> "merge", other |-> o]
Get(k) == UNCHANGED tags /\ ev' = [op |-> "get", k |-> k, v |-> Lookup(tags, k)]
Clone == UNCHANGED tags /\ ev' = [op |-> "clone"]

Next == \/ \E k \in Keys, v \in Vals : Set(k, v) \/ Add(k, v)
        \/ \E k \in AllKeys : Remove(k) \/ Get(k)
        \/ \E ks \in KeyLists : RemoveMany(ks)
        \/ \E o \in AllLists : MergeFrom(o)
        \/ RemoveAll \/ Clone
Spec == Init /\ [][Next]_vars

\* ---- properties of the design ----
KeysStayDistinct == TypeOK
\* survivors keep their relative order under every removal
OrderKept == [][\A i, j \in DOMAIN tags' :
                 (ev'.op \in {"remove", "removemany"} /\ i < j) =>
                    \E a, b \in DOMAIN tags : a < b /\ tags[a] = tags'[i] /\ tags[b] = tags'[j]]_vars
RemovesExactly == [][ev'.op = "removemany" =>
                      KeysOf(tags') = KeysOf(tags) \ {ev'.ks[i] : i \in DOMAIN ev'.ks}]_vars

\* ---- export ----
View == tags
Emit == PrintT(<<"EDGE", ToJson([from |-> tags, ev |-> ev', to |-> tags'])>>)
====
