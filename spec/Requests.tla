---- MODULE Requests ----
(* Property C23: evaluating any expression a client sends returns a value or an error -- it never
   panics, never hangs.  The specification of that is one line (OutcomeOK); what this module
   contributes is the systematic ENUMERATION of request shapes that the harness (harness/cmd/vh-coll,
   adapter "req") instantiates for every symbol registered in functions.Functions().

   A shape describes one call f(a1..an) of a library function and how it departs from the plain,
   well-formed call:

     callee   how the function is reached           "symbol"    f a1 .. an
                                                    "lambda"    ({x1 .. xn -> f x1 .. xn}) a1 .. an   (lambda literal as callee)
                                                    "partial"   ((f a2 .. an) a1)                     (callee is a call: a partial application)
                                                    "partial2"  (((f a3 .. an) a2) a1)                (a partial applied twice)
                                                    "viacall"   call f a1 .. an                       (the library's own `call`)
                                                    "asvalue"   f passed as the function of map over a one-item collection
                                                    "nonfunc"   ((f a1 .. an) 1)                      (the result used as a function)
     arity    how many arguments are given          "exact" | "fewer" (one missing) | "none" | "more" (one extra)
     dev      a partial map position -> class       the class of value put in that argument slot instead of
                                                    a plain well-typed one:
                 "empty"        empty collection / "" / empty geometry where the type has one
                 "zero" "neg" "huge"   numbers
                 "missing-id"   a well-formed feature ID that is not in the world
                 "invalid-id"   the invalid feature ID / an ID of the wrong feature type
                 "wrong-kind"   a literal of another kind than the parameter's type
                 "wrong-elems"  a collection whose items are of another kind than the parameter's
                 "bad-arity"    a lambda with the wrong number of parameters
                 "nil"          the nil literal
                 "nested"       the value computed by another library call (tree depth + 1)
                 "nested-err"   a nested call that itself fails or yields the wrong kind
     wrap     what is done with the result          "plain" | "count" (count r) | "first" (take r 1) | "mapped" (map r {x -> x})

   The weight of a shape is its number of departures; TLC enumerates every shape up to a weight
   budget (depth of the call tree: 1 + nested argument + callee form + use of the result <= 4).

   The behaviour part: a request is sent, the server answers.  The only answers the property allows
   are "value" and "error"; the harness observes the real answer (value, error, panic, timeout,
   crash) and the invariant OutcomeOK is what it is judged against. *)
EXTENDS Integers, Sequences, FiniteSets, TLC, Json

CONSTANTS MaxPos,   \* argument positions that can carry a deviation (positions beyond a function's arity are ignored)
          Budget    \* maximal weight of a generated shape

Callees == {"symbol", "lambda", "partial", "partial2", "viacall", "asvalue", "nonfunc"}
Arities == {"exact", "fewer", "none", "more"}
Classes == {"empty", "zero", "neg", "huge", "missing-id", "invalid-id", "wrong-kind", "wrong-elems",
            "bad-arity", "nil", "nested", "nested-err"}
Wraps == {"plain", "count", "first", "mapped"}
Outcomes == {"value", "error"}                 \* the answers the property allows
Observable == Outcomes \cup {"panic", "timeout", "crash"}

\* deviations: partial functions from (at most Budget) positions to classes
Devs == UNION {[P -> Classes] : P \in {Q \in SUBSET (1..MaxPos) : Cardinality(Q) <= Budget}}

Weight(s) == Cardinality(DOMAIN s.dev)
             + (IF s.callee = "symbol" THEN 0 ELSE 1)
             + (IF s.arity = "exact" THEN 0 ELSE 1)
             + (IF s.wrap = "plain" THEN 0 ELSE 1)

\* depth of the call tree of a shape (the plain call has depth 1)
Depth(s) == 1 + (IF \E p \in DOMAIN s.dev : s.dev[p] \in {"nested", "nested-err"} THEN 1 ELSE 0)
              + (CASE s.callee \in {"symbol"} -> 0
                   [] s.callee \in {"lambda", "partial", "viacall", "asvalue", "nonfunc"} -> 1
                   [] s.callee = "partial2" -> 2)
              + (IF s.wrap = "plain" THEN 0 ELSE 1)

Shapes == {s \in [callee : Callees, arity : Arities, dev : Devs, wrap : Wraps] :
              /\ Weight(s) <= Budget
              /\ Depth(s) <= 4
              \* a partial application needs arguments to hold back; "none"/"fewer" would change its meaning
              /\ (s.callee \in {"partial", "partial2"} => s.arity = "exact")}

VARIABLES req, outcome
vars == <<req, outcome>>

Init == /\ req \in Shapes
        /\ outcome = "pending"
        /\ PrintT(<<"CASE", ToJson([callee |-> req.callee, arity |-> req.arity, wrap |-> req.wrap,
                                    dev |-> [p \in 1..MaxPos |-> IF p \in DOMAIN req.dev THEN req.dev[p] ELSE "ok"],
                                    weight |-> Weight(req), depth |-> Depth(req),
                                    allowed |-> Outcomes])>>)

\* the server answers; the property allows exactly these answers
Answer == /\ outcome = "pending"
          /\ outcome' \in Outcomes
          /\ UNCHANGED req

Next == Answer
Spec == Init /\ [][Next]_vars

OutcomeOK == outcome = "pending" \/ outcome \in Outcomes
\* an observation of the real server is acceptable iff it is an allowed outcome
Acceptable(obs) == obs \in Outcomes
NothingElseAcceptable == \A o \in Observable \ Outcomes : ~Acceptable(o)
====
