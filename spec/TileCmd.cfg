SPECIFICATION Spec
CONSTANTS
  Pts <- DefaultPts
  MaxRing = 3
  MaxRings = 2
INVARIANTS NoError Progress RoundTrip B6Winding Export
CHECK_DEADLOCK FALSE
