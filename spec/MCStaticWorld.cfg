SPECIFICATION Spec
CONSTANTS
  Scenario = 1
  Keys <- MCKeys
  Vals <- MCVals
  IDOrder <- MCIDOrder
  Alternatives <- MCAlternatives
  Uppers <- MCUppers
  Queries <- MCQueries
INVARIANTS BuildIsValid BuildIdempotent LayeredShadows SearchNoDuplicates
CHECK_DEADLOCK FALSE
