\* The wire codec on the property's domain with the spatial Equal methods repaired (fixes/C19-spatial-query-equal.diff):
\* WireOK holds.  With FixSpatialEqual = FALSE (the code as it is) TLC reports [k |-> "query", q |-> [k |-> "ipoint"]].
SPECIFICATION Spec
CONSTANTS
  MaxQSize = 3
  Sendable = TRUE
  FixSpatialEqual = TRUE
INVARIANT WireOK
CHECK_DEADLOCK FALSE
