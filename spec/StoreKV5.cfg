\* reserve/write containers, thorough: <= 5 entries, one tag; reservations in any order up to 3 entries, in entry order beyond
SPECIFICATION Spec
CONSTANTS
  Kind = "kv"
  MaxEntries = 5
  MaxKeys = 3
  Tags = {0}
  Classes = {"-"}
  FreeReserveUpTo = 3
INVARIANTS TypeOK NoDuplicates ReservedBeforeWritten Lossless
PROPERTY PhasesInOrder
ACTION_CONSTRAINT Emit
CHECK_DEADLOCK FALSE
