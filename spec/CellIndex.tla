---- MODULE CellIndex ----
(* C04, design lemma: the S2 cell-token index is a sound pre-filter.

   search/spatial.go indexes a feature under tokens derived from its cell covering
   (TokensForCovering + cellIDAncestorTokens) and rewrites a spatial query into a union of token
   lookups derived from the query's covering (RewriteSpatialQuery).  Two regions that intersect have
   coverings with a pair of RELATED cells (equal, ancestor or descendant in the S2 quadtree), so the
   index never hides a match iff

        related cells  =>  FeatureTokens(F) \cap QueryTokens(Q) # {}          (Sound)

   Both token functions are transcribed from the Go code in CellTokens.tla, the feature side twice: the
   design (= the code since the fix of the level-0 skip), and the code as it was found (level-0 cells get no
   s2 token).  TLC checks, for every pair of coverings: Sound and Precise for the design; SoundAboveFace for
   the as-found variant (the level-0 skip is its only gap); SoundAsBuilt is expected to be VIOLATED
   (CellIndexGap.cfg): the counterexample, a feature covering holding a face cell, is one of the coverings
   executed on the real functions.

   Binding (tools/props/C04.py, harness/cmd/vh-spatial): every covering TLC enumerates is printed as a
   CASE line with the expected token sets; the harness maps it to real s2.CellIDs, runs the real
   TokensForCovering / RewriteSpatialQuery, compares, and evaluates Sound on the REAL token sets;
   coverings and tokens logged from real worlds and real cells at levels 0..30 are checked by
   SpatialTrace.tla with the same operators. *)
EXTENDS CellTokens, TLC, Json
CONSTANTS Faces,        \* faces modelled, e.g. {0, 1}
          Depth,        \* deepest level modelled
          MaxCov        \* most cells in one covering

RECURSIVE PathsAt(_)
PathsAt(d) == IF d = 0 THEN {<<>>} ELSE {Append(p, k) : p \in PathsAt(d - 1), k \in 0..3}
Cells == {Cell(f, p) : f \in Faces, p \in UNION {PathsAt(d) : d \in 0..Depth}}

\* non-empty coverings of at most MaxCov cells
RECURSIVE UpTo(_, _)
UpTo(S0, n) == IF n = 0 THEN {{}} ELSE LET r == UpTo(S0, n - 1) IN r \cup {s \cup {x} : s \in r, x \in S0}
Coverings == UpTo(Cells, MaxCov) \ {{}}

VARIABLES f, q      \* feature covering, query covering
vars == <<f, q>>
Init == f \in Coverings /\ q \in Coverings
Next == UNCHANGED vars
Spec == Init /\ [][Next]_vars

Overlap(F, Q) == FeatureTokens(F) \cap QueryTokens(Q) # {}
OverlapAsBuilt(F, Q) == FeatureTokensAsBuilt(F) \cap QueryTokens(Q) # {}

\* the lemma
Sound == RelatedCov(f, q) => Overlap(f, q)
\* precision of the pre-filter (not required by C04; a design fact that is reported only)
Precise == Overlap(f, q) => RelatedCov(f, q)
\* as built: sound whenever the related feature cell is above level 0 ...
SoundAboveFace == (\E c \in f, d \in q : Related(c, d) /\ Level(c) > 0) => OverlapAsBuilt(f, q)
\* ... and not sound in general (expected to be violated)
SoundAsBuilt == RelatedCov(f, q) => OverlapAsBuilt(f, q)

\* ---- export: one CASE line per covering with the expected token sets
EmitCases == \A cov \in Coverings :
    PrintT(<<"CASE", ToJson([cov |-> cov, ftok |-> FeatureTokens(cov), bftok |-> FeatureTokensAsBuilt(cov),
                             qtok |-> QueryTokens(cov)])>>)
InitEmit == EmitCases /\ Init
====
