\* lazily answered oracle, lines of 2..8 points; behaviours exported as CASE lines
SPECIFICATION FairSpec
CONSTANTS
  MaxN = 8
  Mode = "lazy"
INVARIANT TypeOK Equal Shape StackCovers LazySound
PROPERTY Terminates
ACTION_CONSTRAINT Emit
CHECK_DEADLOCK FALSE
