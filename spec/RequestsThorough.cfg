SPECIFICATION Spec
CONSTANTS
  MaxPos = 4
  Budget = 3
INVARIANT OutcomeOK NothingElseAcceptable
CHECK_DEADLOCK FALSE
