\* trace validation of vh-spatial drive output (trace.ndjson is placed next to the spec by the check)
INIT Init
NEXT Next
POSTCONDITION AllRead
CHECK_DEADLOCK FALSE
