SPECIFICATION Spec
CONSTANTS
  G = 2
  MaxOps = 4
  Cores = 2
  Gran = 100
INVARIANTS ContentOK GoroutineOrder NoDuplicates Complete FileOK
CHECK_DEADLOCK FALSE
