---- MODULE ChangeFile ----
(* The YAML change file written by ingest.ExportChangesAsYAML and read by IngestChangesFromYAML (C18), at the level the
   MutableWorld specification cannot see: the *kind* of every value.  A value is [kind, shape]: kind is what the edited
   world holds (a string, an int, a float, a lat/lng, a feature ID), shape is what its text looks like.  The file holds
   text; the reader infers a kind from the text.  RoundTrip(v) = Read(Write(v)).

   The design question TLC answers: for which (kind, shape) does Read(Write(v)) = v hold when strings are written
   bare (AsIs) and when they are written so that the reader cannot mistake them (Quoted)?  The enumeration of
   (kind, shape) pairs, tag-key classes and collection key sequences is exported as CASE lines and executed on the
   real export/import by the `yamlrt` adapter, which compares the imported world with the edited one (values with
   their kinds, collection items, FindValue for every key).                                                        *)
EXTENDS Integers, Sequences, FiniteSets, TLC, Json

Kinds == {"string", "int", "float", "latlng", "id"}
\* what a string's text looks like
Shapes == {"word", "intlike", "floatlike", "leadzero", "latlnglike", "idlike", "semicolon", "spaces", "empty", "boollike", "quote"}
LooksLike(shape) == CASE shape = "intlike" -> "int" [] shape = "floatlike" -> "float" [] shape = "latlnglike" -> "latlng"
                      [] shape = "idlike" -> "id" [] OTHER -> "string"
Values == {[kind |-> "string", shape |-> s] : s \in Shapes} \cup {[kind |-> k, shape |-> "native"] : k \in Kinds \ {"string"}}

CONSTANT QuoteStrings     \* TRUE: the writer marks strings so that the reader keeps them strings
Write(v) == [text |-> v, quoted |-> (v.kind = "string" /\ QuoteStrings)]
Read(t) == IF t.text.kind # "string" \/ t.quoted THEN t.text
           ELSE [kind |-> LooksLike(t.text.shape), shape |-> t.text.shape]      \* inference from the bare text
RoundTrip(v) == Read(Write(v))

KeyClasses == {"plain", "hash", "at"}
CollKeyKinds == {"int", "bigint", "fracfloat", "wholefloat", "string", "id"}
CollSeqs == UNION {[1..n -> CollKeyKinds] : n \in 0..3}

VARIABLE done
Init == done = FALSE
ASSUME \A v \in Values : \A kc \in KeyClasses : PrintT(<<"CASE", ToJson([what |-> "tag", keyclass |-> kc, value |-> v, survives |-> (RoundTrip(v) = v)])>>)
ASSUME \A s \in CollSeqs : PrintT(<<"CASE", ToJson([what |-> "coll", keys |-> s])>>)
Next == UNCHANGED done
Spec == Init /\ [][Next]_done
\* with quoting every value survives; as found, strings that look like another kind do not
AllSurvive == \A v \in Values : RoundTrip(v) = v
OnlyLookalikesChange == \A v \in Values : RoundTrip(v) # v => (v.kind = "string" /\ LooksLike(v.shape) # "string")
====
