\* every way kind under every routing profile (car / bus / walk usability and one-way rules of graph.go)
SPECIFICATION Spec
CONSTANTS
  NPoints = 3
  MaxWays = 2
  MaxLen = 2
  ClosedLens = {}
  Ws = {1, 2}
  Kinds = {"res", "one", "foot", "busone", "conn", "none"}
  Limits = {2, 4}
  Profiles = {"car", "bus", "walk"}
  Origins = {0}
  Modes = {"all"}
  OriginTest = "whole-way"
  Filter = "any"
  Explore = TRUE
  CaseFile = ""
INVARIANTS Correct
CHECK_DEADLOCK TRUE
