---- MODULE TraceSortedIter ----
(* Binding B for C06 / C08: executions recorded from the real iterators (vh-iter drive) are judged by the
   specification.  trace.ndjson holds streams: a "reset" line (index content, the sub-query of the node that was
   observed) followed by the calls made to that node and the results it gave; a stream ends with the first
   call that returned false (the specification has no successor after that).

   Every call line must be the SortedIter action of that call with exactly the logged result.  A line that is
   not is reported (MISMATCH, with what the specification says) and the rest of its stream is skipped, so that
   one pass judges every stream.  The whole file must be consumed (ACCEPT line). *)
EXTENDS SortedIter
VARIABLE l                                  \* next line of the trace
Trace == ndJsonDeserialize("trace.ndjson")
N == Len(Trace)
SetOf(s) == {s[i] : i \in DOMAIN s}
IdxOf(j) == [t \in DOMAIN j |-> SetOf(j[t])]
Same(r, line) == r.ok = line.ok /\ (r.ok => r.v = line.v)
NextReset(from) == LET S == {j \in (from + 1)..N : Trace[j].op = "reset"} IN IF S = {} THEN N + 1 ELSE Least(S)
NoEvent == [op |-> "init", k |-> 0, ok |-> TRUE, v |-> 0]

TInit == /\ l = 1
         /\ idx = << >> /\ q = [k |-> "empty"] /\ den = {} /\ cur = Done
         /\ ev = NoEvent

TReset == /\ l <= N /\ Trace[l].op = "reset"
          /\ idx' = IdxOf(Trace[l].idx)
          /\ q' = Trace[l].q
          /\ den' = Den(idx', q')
          /\ cur' = Fresh
          /\ ev' = NoEvent
          /\ l' = l + 1

TNext == /\ l <= N /\ Trace[l].op = "next"
         /\ Next
         /\ Same(ev', Trace[l])
         /\ l' = l + 1

TAdvance == /\ l <= N /\ Trace[l].op = "advance"
            /\ Advance(Trace[l].k)
            /\ Same(ev', Trace[l])
            /\ l' = l + 1

\* the implementation's answer is not the specified one: report, give up on this stream, go on with the next
TMismatch == /\ l <= N /\ Trace[l].op \in {"next", "advance"} /\ cur.st # "done"
             /\ LET r == IF Trace[l].op = "next" THEN NextResult ELSE AdvanceResult(Trace[l].k) IN
                /\ ~ Same(r, Trace[l])
                /\ PrintT(<<"MISMATCH", ToJson([line |-> l, want |-> r, d |-> den, cur |-> cur])>>)
             /\ l' = NextReset(l)
             /\ cur' = Done
             /\ ev' = NoEvent
             /\ UNCHANGED <<idx, q, den>>

TEnd == /\ l = N + 1
        /\ PrintT(<<"ACCEPT", ToJson([lines |-> N])>>)
        /\ l' = N + 2
        /\ UNCHANGED vars

TStep == TReset \/ TNext \/ TAdvance \/ TMismatch \/ TEnd
TSpec == TInit /\ [][TStep]_<<vars, l>>
====
