SPECIFICATION OSpec
CONSTANTS
  Keys <- MCKeys
  Vals <- MCVals
  IDOrder <- MCIDOrder
  Alternatives <- MCNoAlt
  Uppers <- MCNoAlt
  Queries <- MCQueries
  NodeIDs <- MCNodeIDs
  WayIDs <- MCWayIDs
  RelIDs <- MCRelIDs
  Inputs <- MCInputs
INVARIANTS ClosedWayTags MembersPointAtAreas BuildIsValid
CHECK_DEADLOCK FALSE
