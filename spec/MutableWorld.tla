---- MODULE MutableWorld ----
(* ingest.MutableWorld (BasicMutableWorld, MutableOverlayWorld): a world under edits.
   State: `eff` the effective map ID -> feature, `snaps` the frozen copies returned by Snapshot().
   One action per public call.  `ev` (output only, hidden by VIEW) carries the call and the result the
   specification prescribes; every transition is exported and executed on the real worlds (binding A).

   Properties decided on this model and, through the binding, on the code:
     C12  reads show exactly what a per-feature map would hold          (Obs(world) = Obs(eff) after every step)
     C13  a rejected AddFeature leaves the world unchanged               (RejectedUnchanged)
     C14  snapshots never change                                         (SnapshotsFrozen)
     C15  reference queries = current transitive referrers, terminating  (Obs.refs)
     C37  every feature in the world is valid                            (InvValid)
     C38  later changes to the caller's values do not change the world   (MutateCallerCopy is a stutter on eff)
     C03  tag search = denotation over current tags, in ID order         (Obs.search)
     C18  export + import of the modifications reproduces the world      (RoundTrip is a stutter; imported = eff)  *)
EXTENDS World, Json

CONSTANTS Base,        \* the base world: [IDs -> Feature] (Absent for IDs not in the base)
          Candidates,  \* set of [id, f]: the features AddFeature may be called with
          AddTagOps,   \* set of <<id, key, value>>: the AddTag calls explored
          RmTagOps,    \* set of <<id, key>>: the RemoveTag calls explored
          MaxSnaps,    \* number of Snapshot() calls explored
          Queries,     \* search battery: [name -> query]
          WithMutate,  \* BOOLEAN: explore MutateCallerCopy
          WithRoundTrip,
          Merges       \* set of sequences of sub-changes [op, g, id, f, k, v] applied as one ingest.MergedChange (g = part number)

VARIABLES eff, snaps, ev
vars == <<eff, snaps, ev>>

\* AddFeature(f) is acceptable when f is valid in the world that would result and every feature that
\* (transitively) references f.id stays valid in that world.
Acceptable(w, id, f) ==
   LET w2 == Put(w, id, f) IN
   /\ Valid(w2, f)
   /\ \A r \in Referrers(w, id) : Valid(w2, w2[r])

Init == /\ eff = Base /\ snaps = <<>> /\ ev = [op |-> "init"]
        /\ PrintT(<<"QUERIES", ToJson(Queries)>>) /\ PrintT(<<"KEYS", ToJson(Keys)>>)

AddFeature(c) ==
   /\ ~Unspecified(Put(eff, c.id, c.f), c.f)
   /\ \A r \in Referrers(eff, c.id) : ~Unspecified(Put(eff, c.id, c.f), Put(eff, c.id, c.f)[r])
   /\ IF Acceptable(eff, c.id, c.f)
      THEN /\ eff' = Put(eff, c.id, c.f)
           /\ ev' = [op |-> "add", id |-> c.id, f |-> c.f, ok |-> TRUE]
      ELSE /\ eff' = eff
           /\ ev' = [op |-> "add", id |-> c.id, f |-> c.f, ok |-> FALSE]
   /\ UNCHANGED snaps

AddTag(id, k, v) ==
   /\ IF Present(eff, id)
      THEN eff' = [eff EXCEPT ![id].tags[k] = v] /\ ev' = [op |-> "addtag", id |-> id, k |-> k, v |-> v, ok |-> TRUE]
      ELSE eff' = eff /\ ev' = [op |-> "addtag", id |-> id, k |-> k, v |-> v, ok |-> FALSE]
   /\ UNCHANGED snaps

RemoveTag(id, k) ==
   /\ Present(eff, id)                    \* removing a tag from a missing feature: result unspecified, not generated
   /\ eff' = [eff EXCEPT ![id].tags[k] = None]
   /\ ev' = [op |-> "rmtag", id |-> id, k |-> k, ok |-> TRUE]
   /\ UNCHANGED snaps

\* ingest.MergedChange: all parts apply, or none does
ApplyOne(w, c) ==
   CASE c.op = "add"    -> IF Acceptable(w, c.id, c.f) THEN [ok |-> TRUE, w |-> Put(w, c.id, c.f)] ELSE [ok |-> FALSE, w |-> w]
     [] c.op = "addtag" -> IF Present(w, c.id) THEN [ok |-> TRUE, w |-> [w EXCEPT ![c.id].tags[c.k] = c.v]] ELSE [ok |-> FALSE, w |-> w]
     [] c.op = "rmtag"  -> IF Present(w, c.id) THEN [ok |-> TRUE, w |-> [w EXCEPT ![c.id].tags[c.k] = None]] ELSE [ok |-> FALSE, w |-> w]
RECURSIVE ApplySeq(_, _)
ApplySeq(w, cs) == IF cs = <<>> THEN [ok |-> TRUE, w |-> w]
                   ELSE LET r == ApplyOne(w, Head(cs)) IN
                        IF r.ok THEN ApplySeq(r.w, Tail(cs)) ELSE [ok |-> FALSE, w |-> w]
Merged(cs) ==
   LET r == ApplySeq(eff, cs) IN
   /\ eff' = (IF r.ok THEN r.w ELSE eff)
   /\ ev' = [op |-> "merged", id |-> "", ops |-> cs, ok |-> r.ok]
   /\ UNCHANGED snaps

Snapshot ==
   /\ Len(snaps) < MaxSnaps
   /\ snaps' = Append(snaps, eff) /\ UNCHANGED eff /\ ev' = [op |-> "snapshot"]

\* the caller changes the values it passed to AddFeature earlier (tags, path IDs of areas, members) and clones
MutateCallerCopy == WithMutate /\ UNCHANGED <<eff, snaps>> /\ ev' = [op |-> "mutate"]

\* export the modifications as YAML, import them into a fresh world over the same base, compare
RoundTrip == WithRoundTrip /\ UNCHANGED <<eff, snaps>> /\ ev' = [op |-> "roundtrip"]

Next == \/ \E c \in Candidates : AddFeature(c)
        \/ \E t \in AddTagOps : AddTag(t[1], t[2], t[3])
        \/ \E t \in RmTagOps : RemoveTag(t[1], t[2])
        \/ \E cs \in Merges : Merged(cs)
        \/ Snapshot \/ MutateCallerCopy \/ RoundTrip
Spec == Init /\ [][Next]_vars

\* ---- properties of the design (checked by TLC on the model) ----
InvValid == AllValid(Base) => AllValid(eff)
SnapshotsFrozen == [][\A i \in DOMAIN snaps : snaps'[i] = snaps[i]]_vars
RejectedUnchanged == [][(ev'.op \in {"add", "merged"} /\ ~ev'.ok) => eff' = eff]_vars
OnlyTargetChanges == [][\A id \in IDs : (ev'.op \in {"add", "addtag", "rmtag"} /\ id # ev'.id) => Get(eff', id) = Get(eff, id)]_vars
SearchSorted == \A n \in DOMAIN Queries : LET r == Search(eff, Queries[n]) IN
                   \A i, j \in DOMAIN r : i < j => r[i] # r[j]

\* ---- observation and export ----
OfType(S, t) == {r \in S : TypeOf(r) = t}
Obs(w) == LET refs == [id \in IDs |-> Referrers(w, id)] IN
          [search |-> [n \in DOMAIN Queries |-> Search(w, Queries[n])],
           each   |-> Sorted(PresentIDs(w)),
           allun  |-> Sorted(AllUnspecified(w)),
           refs   |-> [id \in IDs |-> Sorted(refs[id])],
           areas  |-> [id \in IDs |-> Sorted(OfType(refs[id], "A"))],
           rels   |-> [id \in IDs |-> Sorted(OfType(refs[id], "R"))],
           colls  |-> [id \in IDs |-> Sorted(OfType(refs[id], "C"))]]
Changed(w) == {id \in IDs : Get(w, id) # Get(Base, id)}
Key(w, ss) == [eff |-> [id \in Changed(w) |-> w[id]], snaps |-> [i \in DOMAIN ss |-> [id \in Changed(ss[i]) |-> ss[i][id]]]]
View == <<eff, snaps>>
PrintState == PrintT(<<"STATE", ToJson([key |-> Key(eff, snaps), eff |-> eff, obs |-> Obs(eff),
                                        snaps |-> [i \in DOMAIN snaps |-> [eff |-> snaps[i], obs |-> Obs(snaps[i])]]])>>)
Emit == PrintT(<<"EDGE", ToJson([from |-> Key(eff, snaps), ev |-> ev', to |-> Key(eff', snaps')])>>)
====
