---- MODULE DouglasPeuckerTrace ----
(* Binding B for C34: split oracles MEASURED on real lines (vh-dp measure: the real distance function, every
   interval of every generated line) are read from dp_cases.ndjson; for each of them TLC runs the actions Pop and
   Finish of DouglasPeucker (Mode = "given") and evaluates the recursive definition Ref, checks Equal and Shape on
   them, and prints the indices the model keeps (CASE lines).  The harness then holds the real Simplify and the real
   reference implementation to those indices.
   A case is {id, n, sp}: sp[b+1][e] = the answer for the interval [b, e)  (0 = nothing farther than epsilon). *)
EXTENDS DouglasPeucker
VARIABLE c                       \* number of the case being run
Cases == ndJsonDeserialize("dp_cases.ndjson")
tvars == <<n, split, stack, out, done, c>>

OracleOf(k) == [iv \in IntervalsOf(Cases[k].n) |-> Cases[k].sp[iv[1] + 1][iv[2]]]
Load(k) == /\ n' = Cases[k].n /\ split' = OracleOf(k)
           /\ stack' = << <<0, Cases[k].n>> >> /\ out' = <<>> /\ done' = FALSE /\ c' = k

TraceInit == /\ c = 1 /\ n = Cases[1].n /\ split = OracleOf(1)
             /\ stack = << <<0, Cases[1].n>> >> /\ out = <<>> /\ done = FALSE
TraceNext == \/ Pop /\ UNCHANGED c
             \/ Finish /\ UNCHANGED c
             \/ done /\ c < Len(Cases) /\ Load(c + 1)
TraceSpec == TraceInit /\ [][TraceNext]_tvars

\* the measured oracle is an oracle: answers lie strictly inside their interval
OracleOK == \A iv \in DOMAIN split : split[iv] \in Choices(iv)
EmitCase == (done' /\ ~done) =>
               PrintT(<<"CASE", ToJson([id |-> Cases[c].id, n |-> n, out |-> out', ref |-> Ref(split, 0, n),
                                        reads |-> {<<iv[1], iv[2], split[iv]>> : iv \in RefReads(split, 0, n)}])>>)
====
