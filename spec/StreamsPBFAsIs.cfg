SPECIFICATION Spec
CONSTANTS
  MaxG = 2
  SizeVecs <- QuickSizes
  MaxFail = 2
  Modes = {"item", "once", "sticky"}
  Variants = {FALSE}
  JudgeAll = TRUE
INVARIANT NoHang ReportsError Complete NoSecondCall
PROPERTY Terminates
CHECK_DEADLOCK FALSE
