\* The printer/lexer with the repairs of /verif/fixes/C20-*.diff switched on: the round trip holds for everything the
\* grammar can express (HeadOK) in the bounded domain.
SPECIFICATION Spec
CONSTANTS
  MaxSize = 5
  MaxArgs = 2
  MaxQSize = 4
  MaxStr = 2
  Kinds = {"shape", "query", "string", "tagvalue", "queryvalue"}
  ExprHeads = TRUE
  GroupQueries = TRUE
  GroupPipeHead = "any"
  LexerUnescapes = TRUE
  EscapeTagValues = TRUE
INVARIANT RoundTrips
CHECK_DEADLOCK FALSE
