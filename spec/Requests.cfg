SPECIFICATION Spec
CONSTANTS
  MaxPos = 4
  Budget = 2
INVARIANT OutcomeOK NothingElseAcceptable
CHECK_DEADLOCK FALSE
