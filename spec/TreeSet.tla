---- MODULE TreeSet ----
(* search.TreeIndex (search/tree.go) as used by ingest/mutable.go: for every token a mutable SORTED SET of
   values, with iterators that stay usable while the set is edited  (property C07).

   Abstract state: S[t] = the set of values under token t; made = tokens that have a list (created by the
   first Add, never removed); it[i] = position of iterator i: closed / fresh / at(v) = "the last value it
   returned was v" / done.  One action per public call: TreeIndex.Add(v, tokens), Remove(v, tokens),
   Begin(token), Iterator.Next(), Iterator.Advance(key).

   The iterator rule (DESIGN.md A.2): Next returns the least element of the CURRENT set that is greater than
   the last value returned; Advance(k) the least element >= max(k, last).  From that single rule follow the
   clauses of the statement, which are ALSO written down independently over history variables (ret, thr,
   pure) and checked by TLC (TreeSetProps.cfg): results strictly increase, nothing is repeated, nothing is
   returned after its deletion, everything present throughout is returned.

   Unspecified, hence no transition: using an iterator after it returned false; Begin on a token that never
   had a value (the code hands out a detached empty iterator).  Len/EstimateLength are not modelled.

   `ev` is output only (last call + expected result).  VIEW View hides ev and the history variables, and
   ACTION_CONSTRAINT Emit prints every transition, so the walker (harness/cmd/vh-tree) can execute the whole
   transition graph on the real TreeIndex (binding A); TreeSetTrace.tla validates recorded runs (binding B). *)
EXTENDS Integers, Sequences, FiniteSets, TLC, Json
CONSTANTS K,        \* values 1..K
          T,        \* tokens 1..T
          I,        \* iterators 1..I
          MaxToks   \* longest token list passed to Add/Remove
VARIABLES S, made, it,
          ret,      \* history: ret[i] = values iterator i returned since it was begun
          thr,      \* history: thr[i] = values present in its set ever since iterator i was begun
          pure,     \* history: iterator i was only moved with Next since it was begun
          ev
vars == <<S, made, it, ret, thr, pure, ev>>

Keys == 1..K
Toks == 1..T
Its  == 1..I
Closed   == [st |-> "closed", v |-> 0, tok |-> 0]
Fresh(t) == [st |-> "fresh", v |-> 0, tok |-> t]
At(t, k) == [st |-> "at", v |-> k, tok |-> t]
Done(t)  == [st |-> "done", v |-> 0, tok |-> t]
Min(X) == CHOOSE x \in X : \A y \in X : x <= y
Range(s) == {s[j] : j \in DOMAIN s}
\* token lists as the code receives them: sequences of distinct tokens
TokLists == UNION {{s \in [1..m -> Toks] : \A a, b \in 1..m : a # b => s[a] # s[b]} : m \in 1..MaxToks}

TypeOK == /\ S \in [Toks -> SUBSET Keys]
          /\ made \subseteq Toks
          /\ \A t \in Toks : S[t] # {} => t \in made
          /\ \A i \in Its : /\ it[i].st \in {"closed", "fresh", "at", "done"}
                            /\ it[i].st # "closed" => it[i].tok \in made
                            /\ it[i].st = "at" => it[i].v \in Keys

Init == /\ S = [t \in Toks |-> {}] /\ made = {} /\ it = [i \in Its |-> Closed]
        /\ ret = [i \in Its |-> {}] /\ thr = [i \in Its |-> {}] /\ pure = [i \in Its |-> TRUE]
        /\ ev = [op |-> "init"]

Add(k, ts) ==
    /\ S' = [t \in Toks |-> IF t \in Range(ts) THEN S[t] \cup {k} ELSE S[t]]
    /\ made' = made \cup Range(ts)
    /\ UNCHANGED <<it, ret, thr, pure>>
    /\ ev' = [op |-> "add", k |-> k, ts |-> ts]

Remove(k, ts) ==                     \* removing an absent value, or from a token without a list, changes nothing
    /\ S' = [t \in Toks |-> IF t \in Range(ts) THEN S[t] \ {k} ELSE S[t]]
    /\ thr' = [i \in Its |-> IF it[i].tok \in Range(ts) THEN thr[i] \ {k} ELSE thr[i]]
    /\ UNCHANGED <<made, it, ret, pure>>
    /\ ev' = [op |-> "remove", k |-> k, ts |-> ts]

Begin(i, t) ==
    /\ t \in made
    /\ it' = [it EXCEPT ![i] = Fresh(t)]
    /\ ret' = [ret EXCEPT ![i] = {}] /\ thr' = [thr EXCEPT ![i] = S[t]] /\ pure' = [pure EXCEPT ![i] = TRUE]
    /\ UNCHANGED <<S, made>>
    /\ ev' = [op |-> "begin", i |-> i, t |-> t]

\* Next on an open iterator: least element of the CURRENT set greater than the last value returned.
ItNext(i) ==
    /\ it[i].st \in {"fresh", "at"}
    /\ LET t == it[i].tok
           X == IF it[i].st = "fresh" THEN S[t] ELSE {x \in S[t] : x > it[i].v} IN
       /\ it' = [it EXCEPT ![i] = IF X = {} THEN Done(t) ELSE At(t, Min(X))]
       /\ ret' = [ret EXCEPT ![i] = IF X = {} THEN @ ELSE @ \cup {Min(X)}]
       /\ ev' = [op |-> "next", i |-> i, ok |-> X # {}, v |-> IF X = {} THEN 0 ELSE Min(X)]
    /\ UNCHANGED <<S, made, thr, pure>>

\* Advance(k): least element >= max(k, last) of the current set; stays where it is if that value is still there.
ItAdvance(i, k) ==
    /\ it[i].st \in {"fresh", "at"}
    /\ LET t == it[i].tok
           lo == IF it[i].st = "fresh" THEN k ELSE IF it[i].v >= k THEN it[i].v ELSE k
           X == {x \in S[t] : x >= lo} IN
       /\ it' = [it EXCEPT ![i] = IF X = {} THEN Done(t) ELSE At(t, Min(X))]
       /\ ret' = [ret EXCEPT ![i] = IF X = {} THEN @ ELSE @ \cup {Min(X)}]
       /\ ev' = [op |-> "advance", i |-> i, k |-> k, ok |-> X # {}, v |-> IF X = {} THEN 0 ELSE Min(X)]
    /\ pure' = [pure EXCEPT ![i] = FALSE]
    /\ UNCHANGED <<S, made, thr>>

Next == \/ \E k \in Keys, ts \in TokLists : Add(k, ts) \/ Remove(k, ts)
        \/ \E i \in Its : \/ \E t \in Toks : Begin(i, t)
                          \/ ItNext(i)
                          \/ \E k \in Keys : ItAdvance(i, k)
Spec == Init /\ [][Next]_vars

\* ---- the clauses of the statement, written over the histories (checked by TLC; TreeSetProps.cfg) ----
IsMove == ev'.op \in {"next", "advance"} /\ ev'.ok
\* continues in order, never repeats: Next returns something greater than everything returned before;
\* Advance may stay on the value it rests on but never goes back
InOrderNoRepeat == [][IsMove => \A r \in ret[ev'.i] : IF ev'.op = "next" THEN ev'.v > r ELSE ev'.v >= r]_vars
\* never returns a value after it was deleted: what is returned is in the set at that moment
NeverDeleted == [][IsMove => ev'.v \in S[it[ev'.i].tok]]_vars
\* an Advance(k) result is >= k, and Advance only skips values below k
AdvanceBound == [][(IsMove /\ ev'.op = "advance") =>
                     /\ ev'.v >= ev'.k
                     /\ \A x \in S[it[ev'.i].tok] : (x < ev'.v /\ x >= ev'.k) => (it[ev'.i].st = "at" /\ x < it[ev'.i].v)]_vars
\* returns every value that was present throughout: for an iterator moved by Next only, every value that has been
\* in the set ever since Begin and is not beyond the current position has been returned; at the end, all of them
Complete == \A i \in Its : pure[i] =>
               /\ it[i].st = "at" => {x \in thr[i] : x <= it[i].v} \subseteq ret[i]
               /\ it[i].st = "done" => thr[i] \subseteq ret[i]
\* false is only returned when nothing is left: no value of the current set lies beyond the last one returned
FalseMeansEnd == [][(ev'.op = "next" /\ ~ev'.ok) =>
                      IF ret[ev'.i] = {} THEN S[it[ev'.i].tok] = {}
                      ELSE \A x \in S[it[ev'.i].tok] : \E r \in ret[ev'.i] : x <= r]_vars

\* ---- export ----
View == <<S, made, it>>
Proj(s, m, x) == [S |-> s, made |-> m, it |-> x]
Emit == PrintT(<<"EDGE", ToJson([from |-> Proj(S, made, it), ev |-> ev', to |-> Proj(S', made', it')])>>)
====
