\* thorough: 3 points, weights 1..3, limits 1..6
SPECIFICATION Spec
CONSTANTS
  NPoints = 3
  MaxWays = 2
  MaxLen = 3
  ClosedLens = {}
  Ws = {1, 2, 3}
  Kinds = {"res", "one", "foot"}
  Limits = {1, 2, 3, 4, 5, 6}
  Profiles = {"car"}
  Origins = {0}
  Modes = {"all", "to"}
  OriginTest = "whole-way"
  Filter = "any"
  Explore = TRUE
  CaseFile = ""
INVARIANTS Correct TypeOK
PROPERTY Settled
CHECK_DEADLOCK TRUE
