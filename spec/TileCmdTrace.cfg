SPECIFICATION TSpec
CONSTANTS
  Pts <- DefaultPts
  MaxRing = 0
  MaxRings = 0
CHECK_DEADLOCK TRUE
