SPECIFICATION Spec
CONSTANTS
  W = 3
  MaxLen = 3
  Words3 = {2, 6}
  MixWords = {2, 6}
  RecLen = 1
  GeomLen = 2
  Kinds = {"refs", "lls", "mixed", "bits", "tags", "members", "geom", "plh", "commonpoint", "fullpoint", "path", "area", "relation"}
  AreaRelEncP = 4
INVARIANTS RoundTrip Framing
ACTION_CONSTRAINT Emit
CHECK_DEADLOCK FALSE
