\* ExprTree as the code is (printer/lexer variants off): enumerates shapes, query trees, strings and prints CASE lines
\* with the model's prediction.  INVARIANT RoundTrips is deliberately NOT listed here: it is violated (that is the
\* finding; see ExprTree_asis_inv.cfg).  tools/props/C20.py and C19.py generate the same config with tier bounds.
SPECIFICATION Spec
CONSTANTS
  MaxSize = 5
  MaxArgs = 2
  MaxQSize = 3
  MaxStr = 2
  Kinds = {"shape", "query", "string", "tagvalue", "queryvalue"}
  ExprHeads = TRUE
  GroupQueries = FALSE
  GroupPipeHead = "none"
  LexerUnescapes = FALSE
  EscapeTagValues = FALSE
CONSTRAINT Emit
CHECK_DEADLOCK FALSE
