\* the clauses of the statement over the histories (no VIEW: history variables are part of the state)
SPECIFICATION Spec
CONSTANTS
  K = 4
  T = 1
  I = 1
  MaxToks = 1
INVARIANT TypeOK Complete
PROPERTIES InOrderNoRepeat NeverDeleted AdvanceBound FalseMeansEnd
CHECK_DEADLOCK FALSE
