SPECIFICATION Spec
CONSTANT QuoteStrings = FALSE
INVARIANT OnlyLookalikesChange
CHECK_DEADLOCK FALSE
