\* all pairs of coverings of <= 2 cells, one face, levels 0..2 (the check generates larger domains per tier)
INIT InitEmit
NEXT Next
CONSTANTS
  Faces = {0}
  Depth = 2
  MaxCov = 2
INVARIANTS Sound Precise SoundAboveFace
CHECK_DEADLOCK FALSE
