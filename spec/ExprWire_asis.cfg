SPECIFICATION Spec
CONSTANTS
  MaxQSize = 3
  Sendable = TRUE
  FixSpatialEqual = FALSE
CONSTRAINT Emit
CHECK_DEADLOCK FALSE
