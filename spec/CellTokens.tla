---- MODULE CellTokens ----
(* C04: the two token functions of search/spatial.go, transcribed.  Pure operators; used by CellIndex.tla
   (the lemma, model-checked) and SpatialTrace.tla (the same operators evaluated by TLC on coverings and
   token sets logged from the real code at real cell levels).

   A cell is a face plus a path of child positions: [f |-> face, p |-> <<d1, .., dn>>]; level = Len(p);
   the level-0 cell is the face cell.  A token is [k |-> "s2" | "a2", c |-> cell].

   Two variants of the feature side:
     FeatureTokens         the design: every covering cell gets its s2 token (the lemma holds for it); this is
                           the code since /repo commit 057c2cd ("index features whose covering contains a face cell")
     FeatureTokensAsBuilt  the code as it was found: `if cell.Level() == 0 { continue }` in TokensForCovering.
                           Kept so that the gap stays documented by a TLC counterexample and a re-introduction of
                           the skip is recognised and named (failure key face-cell-covering-gets-no-token). *)
EXTENDS Integers, Sequences, FiniteSets

Cell(f, p) == [f |-> f, p |-> p]
Level(c) == Len(c.p)

\* strict ancestors: id.Parent(l) for l = Level-1 .. 0
Anc(c) == {Cell(c.f, SubSeq(c.p, 1, n)) : n \in 0..(Len(c.p) - 1)}
Related(c, d) == c = d \/ c \in Anc(d) \/ d \in Anc(c)

S(c) == [k |-> "s2", c |-> c]      \* cellIDToToken
A(c) == [k |-> "a2", c |-> c]      \* ancestorCellIDToToken

\* cellIDAncestorTokens: one a2 token per strict ancestor of any covering cell
AncestorTokens(cov) == UNION {{A(a) : a \in Anc(c)} : c \in cov}

\* TokensForCovering: one s2 token per covering cell, then the ancestor tokens
FeatureTokens(cov) == {S(c) : c \in cov} \cup AncestorTokens(cov)
FeatureTokensAsBuilt(cov) == {S(c) : c \in {x \in cov : Level(x) > 0}} \cup AncestorTokens(cov)

\* RewriteSpatialQuery: a2 token of every covering cell, s2 token of the cell and of all its ancestors
QueryTokens(cov) == {A(c) : c \in cov} \cup UNION {{S(d) : d \in Anc(c) \cup {c}} : c \in cov}

RelatedCov(F, Q) == \E c \in F, d \in Q : Related(c, d)
====
