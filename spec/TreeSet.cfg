\* quick: one token, 8 values, 1 iterator (every AVL shape up to 8 nodes: all rotation cases, rotation below an ancestor); graph exported
SPECIFICATION Spec
CONSTANTS
  K = 8
  T = 1
  I = 1
  MaxToks = 1
INVARIANT TypeOK
PROPERTIES NeverDeleted AdvanceBound
ACTION_CONSTRAINT Emit
VIEW View
CHECK_DEADLOCK FALSE
