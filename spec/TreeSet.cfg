\* quick: one token, 5 values, 1 iterator; full transition graph exported for the product walk
SPECIFICATION Spec
CONSTANTS
  K = 5
  T = 1
  I = 1
  MaxToks = 1
INVARIANT TypeOK
PROPERTIES NeverDeleted AdvanceBound
ACTION_CONSTRAINT Emit
VIEW View
CHECK_DEADLOCK FALSE
