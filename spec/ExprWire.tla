---- MODULE ExprWire ----
(* C19: the protobuf form of b6 expressions (expression.go: ToProto / ExpressionFromProto, spatial.go:
   NewQueryFromProto) as an ABSTRACT CODEC, written the way the code does it:

     * every Expression node carries name/begin/end next to its oneof payload; the wire fields are 32 bit;
     * a tag's value goes over the wire as its string form and comes back as a string expression;
     * a path gains a derived length on the wire, which decoding ignores;
     * the nil literal decodes to the invalid (empty) expression;
     * NewQueryFromProto has no case for empty / is-valid / intersects-cells / might-intersect queries;
     * ImplEqual is b6's own Equal: it ignores positions and the Pipelined flag, and the Equal methods of the
       intersects-point / -polyline / -multipolygon queries only accept POINTER operands while decoding yields
       VALUES (FixSpatialEqual = FALSE is the code as it is).

   Property (WireOK): Dec(Enc(t)) is t, ImplEqual holds both ways, positions survive, and Enc(Dec(Enc(t))) = Enc(t).
   Sendable = TRUE restricts the enumeration to what a client can send and the server decodes (the property's
   domain); Sendable = FALSE adds the kinds outside it, which TLC reports as design-level observations.
   Literal values are classes; the harness concretises them (numeric extremes, strings, IDs, geometry on the E7 grid). *)
EXTENDS Integers, Sequences, FiniteSets, TLC, Json

CONSTANTS MaxQSize,         \* largest number of nodes of an enumerated query tree
          Sendable,         \* only kinds inside the property's domain
          FixSpatialEqual   \* the Equal methods of spatial queries accept values (FALSE = as is)

PosClasses  == {"zero", "small", "max31"} \cup (IF Sendable THEN {} ELSE {"over31"})
Trunc32(p)  == IF p = "over31" THEN "negative" ELSE p
LitKinds    == {"sym", "int", "float", "bool", "str", "id", "tag", "point", "path", "area", "route", "coll"}
               \cup (IF Sendable THEN {} ELSE {"nil", "tagint"})
QLeafKinds  == {"all", "keyed", "tagged", "ifeature", "ipoint", "ipolyline", "impoly", "icap"}
               \cup (IF Sendable THEN {} ELSE {"empty", "isvalid", "icells", "might"})
Undecodable == {"empty", "isvalid", "icells", "might"}
ValueOnlyEq == {"ipoint", "ipolyline", "impoly"}
FTypes      == {"point", "area"}

\* ---------------------------------------------------------------- query trees by number of nodes
QLeaf(k)     == [k |-> k]
Typed(t, q)  == [k |-> "typed", t |-> t, q |-> q]
Bin(op, a, b) == [k |-> op, qs |-> <<a, b>>]
RECURSIVE QN(_)
QN(n) == IF n = 1 THEN {QLeaf(k) : k \in QLeafKinds}
         ELSE {Typed(t, q) : t \in FTypes, q \in QN(n - 1)}
              \cup UNION {{Bin(op, a, b) : op \in {"and", "or"}, a \in QN(m), b \in QN(n - 1 - m)} : m \in 1..(n - 2)}
\* whatever MaxQSize is: every five-node tree of two binary operators over the plain leaves, i.e. an and/or directly
\* inside an and/or of the same and of the other kind, left- and right-nested (a.or_(b).or_(c) is the left-nested one)
NestLeaves == {QLeaf("all"), QLeaf("keyed"), QLeaf("tagged")}
Nested == {Bin(o1, Bin(o2, a, b), c) : o1 \in {"and", "or"}, o2 \in {"and", "or"}, a \in NestLeaves, b \in NestLeaves, c \in NestLeaves}
          \cup {Bin(o1, a, Bin(o2, b, c)) : o1 \in {"and", "or"}, o2 \in {"and", "or"}, a \in NestLeaves, b \in NestLeaves, c \in NestLeaves}
Queries == UNION {QN(n) : n \in 1..MaxQSize} \cup Nested

\* ---------------------------------------------------------------- expressions (one level of structure; the shapes
\* of calls/lambdas come from ExprTree.tla)
Lit(k, p)       == [k |-> k, pos |-> p]
QueryLit(q, p)  == [k |-> "query", q |-> q, pos |-> p]
CallOf(a, pipe, p) == [k |-> "call", f |-> Lit("sym", "small"), args |-> <<a>>, pipe |-> pipe, pos |-> p]
LamOf(b, p)     == [k |-> "lambda", params |-> <<"x">>, body |-> b, pos |-> p]
Leaves == {Lit(k, p) : k \in LitKinds, p \in PosClasses} \cup {QueryLit(q, "small") : q \in Queries}
Exprs  == Leaves
          \cup {CallOf(a, pipe, p) : a \in {Lit(k, "small") : k \in LitKinds}, pipe \in BOOLEAN, p \in PosClasses}
          \cup {LamOf(b, p) : b \in {Lit(k, "max31") : k \in LitKinds}, p \in PosClasses}

\* ---------------------------------------------------------------- the codec
Invalid == [k |-> "invalid"]
RECURSIVE EncQ(_), DecQ(_), Enc(_), Dec(_), ImplEqQ(_, _), ImplEqual(_, _)
EncQ(q) == CASE q.k = "typed" -> [k |-> "typed", t |-> q.t, q |-> EncQ(q.q)]
             [] q.k \in {"and", "or"} -> [k |-> q.k, qs |-> <<EncQ(q.qs[1]), EncQ(q.qs[2])>>]
             [] q.k = "ipolyline" -> [k |-> q.k, derived |-> "length"]
             [] OTHER -> q
DecQ(w) == CASE w.k \in Undecodable -> [ok |-> FALSE, q |-> w]
             [] w.k = "typed" -> LET c == DecQ(w.q) IN [ok |-> c.ok, q |-> Typed(w.t, c.q)]
             [] w.k \in {"and", "or"} -> LET a == DecQ(w.qs[1]) b == DecQ(w.qs[2]) IN [ok |-> a.ok /\ b.ok, q |-> Bin(w.k, a.q, b.q)]
             [] w.k = "ipolyline" -> [ok |-> TRUE, q |-> QLeaf("ipolyline")]
             [] OTHER -> [ok |-> TRUE, q |-> w]
\* wire node: payload + name/begin/end squeezed into 32 bits
Enc(e) ==
  LET hdr == Trunc32(e.pos) IN
  CASE e.k = "call"   -> [k |-> "call", f |-> Enc(e.f), args |-> <<Enc(e.args[1])>>, pipe |-> e.pipe, hdr |-> hdr]
    [] e.k = "lambda" -> [k |-> "lambda", params |-> e.params, body |-> Enc(e.body), hdr |-> hdr]
    [] e.k = "query"  -> [k |-> "query", q |-> EncQ(e.q), hdr |-> hdr]
    [] e.k = "tagint" -> [k |-> "tag", hdr |-> hdr]                          \* value.String()
    [] e.k = "path"   -> [k |-> "path", derived |-> "length", hdr |-> hdr]
    [] OTHER          -> [k |-> e.k, hdr |-> hdr]
Dec(w) ==
  CASE w.k = "call"   -> LET f == Dec(w.f) a == Dec(w.args[1]) IN
                         [ok |-> f.ok /\ a.ok, e |-> [k |-> "call", f |-> f.e, args |-> <<a.e>>, pipe |-> w.pipe, pos |-> w.hdr]]
    [] w.k = "lambda" -> LET b == Dec(w.body) IN [ok |-> b.ok, e |-> [k |-> "lambda", params |-> w.params, body |-> b.e, pos |-> w.hdr]]
    [] w.k = "query"  -> LET q == DecQ(w.q) IN [ok |-> q.ok, e |-> QueryLit(q.q, w.hdr)]
    [] w.k = "nil"    -> [ok |-> TRUE, e |-> Invalid]
    [] w.k = "path"   -> [ok |-> TRUE, e |-> Lit("path", w.hdr)]
    [] OTHER          -> [ok |-> TRUE, e |-> Lit(w.k, w.hdr)]
ImplEqQ(a, b) ==
  /\ a.k = b.k
  /\ CASE a.k \in ValueOnlyEq -> FixSpatialEqual
       [] a.k = "typed" -> a.t = b.t /\ ImplEqQ(a.q, b.q)
       [] a.k \in {"and", "or"} -> ImplEqQ(a.qs[1], b.qs[1]) /\ ImplEqQ(a.qs[2], b.qs[2])
       [] OTHER -> TRUE
ImplEqual(a, b) ==
  /\ a.k = b.k
  /\ CASE a.k = "call"   -> ImplEqual(a.f, b.f) /\ ImplEqual(a.args[1], b.args[1])     \* Pipelined is not compared
       [] a.k = "lambda" -> a.params = b.params /\ ImplEqual(a.body, b.body)
       [] a.k = "query"  -> ImplEqQ(a.q, b.q)
       [] OTHER -> TRUE

WireOKOf(t) == LET w == Enc(t)
                   d == Dec(w)
               IN /\ d.ok
                  /\ d.e = t                                    \* same tree, same positions
                  /\ ImplEqual(t, d.e) /\ ImplEqual(d.e, t)     \* and b6's Equal says so
                  /\ Enc(d.e) = w                               \* a second conversion changes nothing

VARIABLE obj
Init == \E t \in Exprs : obj = t
Next == FALSE /\ UNCHANGED obj
Spec == Init /\ [][Next]_obj
WireOK == WireOKOf(obj)
Emit == PrintT(<<"CASE", ToJson([t |-> obj, pred |-> WireOKOf(obj)])>>)
====
