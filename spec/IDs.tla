---- MODULE IDs ----
(* C31 -- feature IDs (b6/world.go FeatureID, ids.go, protos.go, api/shell.go aliases).

   An abstract ID is [t |-> type number, ns |-> index into NsList, v |-> value class 0..7].
   NsList is sorted (byte order of the names); value classes are ordered
   (0 zero < 1 one < 2 small < 3 bit31 < 4 bit32 < 5 bit62 < 6 bit63 < 7 max), so the harness'
   concretisation of an abstract ID is order preserving and b6.FeatureID.Less on concrete IDs can be
   compared with Less below.

   TLC checks
     * Less is a strict total order (all triples of OrderIDs) and agrees with the order of the compact
       index's sort key (type * 2^13 + namespace code, value) when namespace codes are assigned in
       sorted order (what NamespaceTable.FillFromNamespaces does; checked on the code by C11),
     * the token-level design of the textual forms: Parse(Text(id, abbreviate)) = id for every ID class,
       i.e. the alias table is unambiguous (no two aliases for one (type, namespace), no alias prefix
       that collides with a type name, the namespace is recoverable between the first and last token).
   It exports
     * one CASE line per ID class (type x namespace x value class) with the encodings in its domain,
     * POSTCODE / ONS lines (IDs valid only by structure),
     * one ORDER line: the sample of abstract IDs and the matrix of Less over all ordered pairs.       *)
EXTENDS Integers, Sequences, FiniteSets, TLC, Json

CONSTANTS OrderTypes,     \* type numbers used for the order axioms
          OrderNs,        \* namespace indexes used for the order axioms
          OrderVals       \* value classes used for the order axioms
VARIABLES a, b, c

\* ---- types -------------------------------------------------------------------------------------
Types == {0, 1, 2, 3, 5, 6}          \* point path area relation (4 = invalid) collection expression
TypeName(t) == CASE t = 0 -> "point" [] t = 1 -> "path" [] t = 2 -> "area" [] t = 3 -> "relation"
                 [] t = 5 -> "collection" [] t = 6 -> "expression"
TypeNames == {TypeName(t) : t \in Types}
TypeOfName(s) == CHOOSE t \in Types : TypeName(t) = s

\* ---- namespaces (sorted by name; shell = every character is accepted by the shell lexer;
\*      "z" in a name of class "unicode" stands for a non-ASCII letter, substituted by the harness) ------
N(name, segs, class, shell) == [name |-> name, segs |-> segs, class |-> class, shell |-> shell]
NsList == <<
  N("9gag.example/1/2", <<"9gag.example", "1", "2">>, "digits", TRUE),
  N("Example.org/Upper", <<"Example.org", "Upper">>, "custom", TRUE),
  N("diagonal.works/ns/private", <<"diagonal.works", "ns", "private">>, "standard", TRUE),
  \* a component that is a proper prefix of another namespace's component, followed by a character that sorts before '/':
  \* byte-wise order (FeatureID.Less) and component-wise order disagree on these and "example.org/a/b/c/d"
  N("example.org/a-2023", <<"example.org", "a-2023">>, "prefix-dash", TRUE),
  N("example.org/a.v2/x", <<"example.org", "a.v2", "x">>, "prefix-dot", TRUE),
  N("example.org/a/b/c/d", <<"example.org", "a", "b", "c", "d">>, "slashes", TRUE),
  N("example.org/with space:colon+plus", <<"example.org", "with space:colon+plus">>, "exotic", FALSE),
  N("exzmple.org/znz", <<"exzmple.org", "znz">>, "unicode", TRUE),
  N("localns", <<"localns">>, "noslash", TRUE),
  N("openstreetmap.org/node", <<"openstreetmap.org", "node">>, "osm", TRUE),
  N("openstreetmap.org/node/extra", <<"openstreetmap.org", "node", "extra">>, "extends-another", TRUE),
  N("openstreetmap.org/relation", <<"openstreetmap.org", "relation">>, "osm", TRUE),
  N("openstreetmap.org/way", <<"openstreetmap.org", "way">>, "osm", TRUE),
  N("ordnancesurvey.co.uk/code-point", <<"ordnancesurvey.co.uk", "code-point">>, "postcode", TRUE),
  N("ordnancesurvey.co.uk/uprn", <<"ordnancesurvey.co.uk", "uprn">>, "uprn", TRUE),
  N("statistics.gov.uk/datasets/regions", <<"statistics.gov.uk", "datasets", "regions">>, "ons", TRUE) >>
NsIdx == DOMAIN NsList
NsOf(name) == CHOOSE i \in NsIdx : NsList[i].name = name

ValClasses == 0..7
AllIDs == [t : Types, ns : NsIdx, v : ValClasses]

\* ---- order ---------------------------------------------------------------------------------------
Less(x, y) == \/ x.t < y.t
              \/ x.t = y.t /\ x.ns < y.ns
              \/ x.t = y.t /\ x.ns = y.ns /\ x.v < y.v

\* the compact index sorts by (CombineTypeAndNamespace(type, code), value); codes are assigned to the
\* sorted namespaces starting at 1 (0 is the invalid namespace)
NsCode(i) == i
CompactKey(x) == <<x.t * 8192 + NsCode(x.ns), x.v>>
KeyLess(k, l) == k[1] < l[1] \/ (k[1] = l[1] /\ k[2] < l[2])

OrderIDs == [t : OrderTypes, ns : OrderNs, v : OrderVals]
Init == a \in OrderIDs /\ b \in OrderIDs /\ c \in OrderIDs
Next == UNCHANGED <<a, b, c>>
Spec == Init /\ [][Next]_<<a, b, c>>

Irreflexive == ~Less(a, a)
Asymmetric == Less(a, b) => ~Less(b, a)
Transitive == (Less(a, b) /\ Less(b, c)) => Less(a, c)
Total == a # b => (Less(a, b) \/ Less(b, a))
CompactConsistent == (a.t \in 0..3 /\ b.t \in 0..3) => (Less(a, b) <=> KeyLess(CompactKey(a), CompactKey(b)))

\* ---- textual forms, at token level ------------------------------------------------------------------
Tok(s) == [s |-> s, v |-> -1]
ValTok(v) == [s |-> "#", v |-> v]
Toks(strs) == [i \in DOMAIN strs |-> Tok(strs[i])]
A(prefix, t, name) == [prefix |-> prefix, t |-> t, ns |-> NsOf(name)]
Aliases == <<
  A(<<"n">>, 0, "openstreetmap.org/node"),
  A(<<"w">>, 1, "openstreetmap.org/way"),
  A(<<"a">>, 2, "openstreetmap.org/way"),
  A(<<"r">>, 3, "openstreetmap.org/relation"),
  A(<<"uk", "ons">>, 2, "statistics.gov.uk/datasets/regions"),
  A(<<"gb", "codepoint">>, 0, "ordnancesurvey.co.uk/code-point"),
  A(<<"gb", "uprn">>, 0, "ordnancesurvey.co.uk/uprn") >>
AliasesFor(id) == {i \in DOMAIN Aliases : Aliases[i].t = id.t /\ Aliases[i].ns = id.ns}
FirstAlias(id) == CHOOSE i \in AliasesFor(id) : \A j \in AliasesFor(id) : i <= j
AliasPrefix(id) == IF AliasesFor(id) = {} THEN <<>> ELSE Aliases[FirstAlias(id)].prefix

Text(id, abbreviate) ==
  IF abbreviate /\ AliasesFor(id) # {}
  THEN Toks(Aliases[FirstAlias(id)].prefix) \o <<ValTok(id.v)>>
  ELSE <<Tok(TypeName(id.t))>> \o Toks(NsList[id.ns].segs) \o <<ValTok(id.v)>>

HasPrefix(toks, p) == Len(toks) >= Len(p) /\ \A i \in DOMAIN p : toks[i] = Tok(p[i])
MatchingAliases(toks) == {i \in DOMAIN Aliases : HasPrefix(toks, Aliases[i].prefix)}
Invalid == [t |-> 4, ns |-> 0, v |-> 0]
Parse(toks) ==
  IF MatchingAliases(toks) # {}
  THEN LET i == CHOOSE i \in MatchingAliases(toks) : \A j \in MatchingAliases(toks) : i <= j
           rest == SubSeq(toks, Len(Aliases[i].prefix) + 1, Len(toks))
       IN IF Len(rest) = 1 /\ rest[1].s = "#" THEN [t |-> Aliases[i].t, ns |-> Aliases[i].ns, v |-> rest[1].v] ELSE Invalid
  ELSE IF Len(toks) < 3 \/ toks[1].s \notin TypeNames \/ toks[Len(toks)].s # "#" THEN Invalid
  ELSE LET mid == SubSeq(toks, 2, Len(toks) - 1)
           cands == {i \in NsIdx : Toks(NsList[i].segs) = mid}
       IN IF cands = {} THEN Invalid ELSE [t |-> TypeOfName(toks[1].s), ns |-> CHOOSE i \in cands : TRUE, v |-> toks[Len(toks)].v]

TextRoundTrip == \A id \in AllIDs : \A ab \in BOOLEAN : Parse(Text(id, ab)) = id
NamespacesDistinct == \A i, j \in NsIdx : i # j => NsList[i].name # NsList[j].name /\ NsList[i].segs # NsList[j].segs
ASSUME TextRoundTrip
ASSUME NamespacesDistinct

\* ---- export --------------------------------------------------------------------------------------------
\* IDs in the postcode and ONS namespaces are only valid by structure when printed with their alias:
\* for an arbitrary value class the abbreviated form is outside the domain (abbr = FALSE).
Structured(id) == NsList[id.ns].class \in {"postcode", "ons"} /\ AliasesFor(id) # {}
IDCase(id) == [t |-> id.t, type |-> TypeName(id.t), ns |-> NsList[id.ns].name, nsidx |-> id.ns,
               class |-> NsList[id.ns].class, v |-> id.v,
               shell |-> NsList[id.ns].shell, abbr |-> ~Structured(id), alias |-> AliasPrefix(id)]
ASSUME \A id \in AllIDs : PrintT(<<"CASE", ToJson(IDCase(id))>>)

\* structured IDs: postcodes of 5-7 alphanumerics; ONS codes = letter + 8 digits, year 1900..2155
PostcodeShapes == [len : 5..7, chars : {"digits-low", "digits-high", "letters-low", "letters-high", "mixed"}]
ONSShapes == [letter : {"A", "E", "Z"}, number : {"zero", "one", "mid", "max"}, year : {1900, 2011, 2155}]
ASSUME \A s \in PostcodeShapes : PrintT(<<"POSTCODE", ToJson(s)>>)
ASSUME \A s \in ONSShapes : PrintT(<<"ONS", ToJson(s)>>)
\* alias tokens that must parse and print back (text -> ID -> text)
ASSUME \A i \in DOMAIN Aliases : PrintT(<<"ALIAS", ToJson([prefix |-> Aliases[i].prefix, type |-> TypeName(Aliases[i].t),
                                                         ns |-> NsList[Aliases[i].ns].name, class |-> NsList[Aliases[i].ns].class])>>)

\* the order sample and the expected Less matrix
RECURSIVE SetToSeq(_)
SetToSeq(S) == IF S = {} THEN <<>> ELSE LET x == CHOOSE x \in S : TRUE IN <<x>> \o SetToSeq(S \ {x})
SampleTypes == {0, 1, 2, 3, 5}
SampleNs == {NsOf("example.org/a-2023"), NsOf("example.org/a.v2/x"), NsOf("example.org/a/b/c/d"),
             NsOf("diagonal.works/ns/private"), NsOf("openstreetmap.org/node"), NsOf("openstreetmap.org/node/extra"),
             NsOf("openstreetmap.org/way"), NsOf("Example.org/Upper")}
SampleVals == {0, 2, 6, 7}
Sample == SetToSeq([t : SampleTypes, ns : SampleNs, v : SampleVals])
ASSUME PrintT(<<"ORDER", ToJson([ids |-> [i \in DOMAIN Sample |-> [t |-> Sample[i].t, ns |-> NsList[Sample[i].ns].name,
                                                                   nsidx |-> Sample[i].ns, v |-> Sample[i].v]],
                                 less |-> [i \in DOMAIN Sample |-> [j \in DOMAIN Sample |-> Less(Sample[i], Sample[j])]],
                                 nslist |-> [i \in NsIdx |-> [name |-> NsList[i].name, class |-> NsList[i].class]]])>>)
====
