SPECIFICATION Spec
CONSTANTS
  G = 2
  MaxOps = 5
  Cores = 1
  Gran = 100
INVARIANTS ContentOK GoroutineOrder NoDuplicates Complete SequentialOrder FileOK
CHECK_DEADLOCK FALSE
