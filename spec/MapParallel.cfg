SPECIFICATION Spec
CONSTANTS
  MinN = 2
  MaxN = 3
  MaxNI = 4
  MaxFail = 4
INVARIANT PrefixInv DoneInv GerrIsItem NoHang
PROPERTY Terminates
CHECK_DEADLOCK FALSE
