SPECIFICATION TraceSpec
CONSTANTS
  K = 64
  T = 2
  I = 4
  MaxToks = 2
INVARIANT TComplete
PROPERTIES TInOrderNoRepeat
POSTCONDITION Accepted
CHECK_DEADLOCK FALSE
