SPECIFICATION Spec
CONSTANTS
  Keys = {0, 1, 2}
  Vals = {0, 1}
  MaxLen = 4
  Counts <- MCCounts
  Thr = 0
  JoinVal = 9
  MaxOther = 0
  MaxDepth = 1
  Probes <- MCProbes
  Enabled <- MCFind
INVARIANT TypeOK
PROPERTIES FindIsScan
ACTION_CONSTRAINT Emit
VIEW View
CHECK_DEADLOCK FALSE
