\* reserve/write containers, quick: <= 3 entries over <= 3 keys, 2 abstract tags, every reserve and write order
SPECIFICATION Spec
CONSTANTS
  Kind = "kv"
  MaxEntries = 3
  MaxKeys = 3
  Tags = {0, 1}
  Classes = {"-"}
  FreeReserveUpTo = 3
INVARIANTS TypeOK NoDuplicates ReservedBeforeWritten Lossless
PROPERTY PhasesInOrder
ACTION_CONSTRAINT Emit
CHECK_DEADLOCK FALSE
