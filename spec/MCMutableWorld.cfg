SPECIFICATION Spec
CONSTANTS
  Scenario = 1
  Keys <- MCKeys
  Vals <- MCVals
  IDOrder <- MCIDOrder
  Base <- MCBase
  Candidates <- MCCandidates
  AddTagOps <- MCAddTagOps
  RmTagOps <- MCRmTagOps
  MaxSnaps <- MCMaxSnaps
  Queries <- MCQueries
  WithMutate <- MCWithMutate
  WithRoundTrip <- MCWithRoundTrip
  Merges <- MCMerges
INVARIANTS InvValid SearchSorted PrintState
PROPERTIES SnapshotsFrozen RejectedUnchanged OnlyTargetChanges
ACTION_CONSTRAINT Emit
VIEW View
CHECK_DEADLOCK FALSE
