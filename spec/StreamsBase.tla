---- MODULE StreamsBase ----
(* Vocabulary shared by the Streams* protocol models (C28).

   A streaming read delivers ITEMS to a user callback from G worker goroutines.  Items arrive in UNITS
   (hash buckets, PBF blobs; for feature sources every unit holds exactly one item); `sizes` is the
   sequence of unit sizes, items are numbered 1..NItems(sizes) in unit order.

   A configuration is what the harness can choose at the API boundary
       [g |-> goroutines, sizes |-> unit sizes, F |-> failing items, mode |-> callback behaviour]
   plus `fixed`: which protocol is modelled (TRUE: the code as it stands, i.e. with the repair
   fixes/C28-*.diff applied; FALSE: the protocol before that repair, kept as the documented "Before" variant).
   mode "item":   the callback fails whenever it is invoked on an item of F
        "once":   it fails the first time it is invoked on an item of F, and succeeds if invoked again
        "sticky": it fails on an item of F and on every invocation after its first failure
   The observable outcome is [ret |-> "nil" | "err" | "hang", delivered |-> items the callback was invoked on]. *)
EXTENDS Integers, Sequences, FiniteSets

RECURSIVE SumTo(_, _)
SumTo(s, n) == IF n = 0 THEN 0 ELSE s[n] + SumTo(s, n - 1)
Offset(s, u) == SumTo(s, u - 1)
NItems(s) == SumTo(s, Len(s))
Item(s, u, p) == Offset(s, u) + p

FailSets(n, maxFail) == {F \in SUBSET (1..n) : Cardinality(F) <= maxFail}

\* does the callback return an error when invoked on item k (calls = invocations so far per item,
\* failed = it has already returned an error once)
CbFails(mode, F, k, calls, failed) ==
    CASE mode = "item"   -> k \in F
      [] mode = "once"   -> k \in F /\ calls[k] = 0
      [] mode = "sticky" -> k \in F \/ failed

\* every configuration over the given bounds; without failing items the mode is irrelevant
Configs(maxG, sizeVecs, maxFail, modes, variants) ==
    UNION {UNION {{[g |-> g, sizes |-> s, F |-> F, mode |-> m, fixed |-> v] :
                      m \in IF F = {} THEN {"item"} ELSE modes, g \in 1..maxG, v \in variants} :
                  F \in FailSets(NItems(s), maxFail)} : s \in sizeVecs}

MaxOf(S) == CHOOSE x \in S : \A y \in S : y <= x
Bump(n) == IF n < 2 THEN n + 1 ELSE 2
====
