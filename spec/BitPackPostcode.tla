---- MODULE BitPackPostcode ----
(* GB postcode <-> point ID (ids.go: PointIDFromGBPostcode / PostcodeFromPointID), property C10.

   HAND TRANSCRIPTION: the two Go functions contain a rune loop and string building, which the go/ast
   translator (vh-bitpack) does not handle.  The loop is unrolled for the three legal lengths 5..7.
   A character is its value 0..35 ('0'..'9' = 0..9, 'A'..'Z' = 10..35); the functions normalise to
   upper case without spaces first, so this is the whole domain.  The transcription is tied to the real
   functions by (a) the generated module BitPack_postcode_n<k>_Vec, a constant formula listing what the
   REAL functions return on concrete postcodes, which Apalache evaluates against these operators, and
   (b) a hash of the Go source of both functions checked by tools/props/C10.py.

   Go:   id := 0; for i, r := range postcode { if i > 0 { id <<= 6 }; id |= v(r) }; id <<= 2; id |= len - 5
         n := 5 + id&3; id >>= 2; n times { v := id & 63; prepend char(v) or fail if v >= 36; id >>= 6 }   *)
EXTENDS Integers
VARIABLES
  \* @type: Int;
  c1,
  \* @type: Int;
  c2,
  \* @type: Int;
  c3,
  \* @type: Int;
  c4,
  \* @type: Int;
  c5,
  \* @type: Int;
  c6,
  \* @type: Int;
  c7

T64 == 18446744073709551616
Shl6(x) == (x * 64) % T64          \* id <<= gbPostcodeElementBits   (uint64)
Shl2(x) == (x * 4) % T64           \* id <<= gbPostcodeLengthBits
\* `id |= v` after `id <<= 6` with v < 64 sets only zero bits: it is an addition
Push(id, v) == Shl6(id) + v

Body5(a1, a2, a3, a4, a5) == Push(Push(Push(Push(a1, a2), a3), a4), a5)
Body6(a1, a2, a3, a4, a5, a6) == Push(Body5(a1, a2, a3, a4, a5), a6)
Body7(a1, a2, a3, a4, a5, a6, a7) == Push(Body6(a1, a2, a3, a4, a5, a6), a7)

\* PointIDFromGBPostcode for an n-character postcode (characters beyond n are ignored)
Pack(n, a1, a2, a3, a4, a5, a6, a7) ==
  LET body == IF n = 5 THEN Body5(a1, a2, a3, a4, a5)
              ELSE IF n = 6 THEN Body6(a1, a2, a3, a4, a5, a6)
              ELSE Body7(a1, a2, a3, a4, a5, a6, a7)
  IN Shl2(body) + (n - 5)

\* PostcodeFromPointID
UnpackLen(id) == 5 + (id % 4)
\* the value popped in loop iteration k (0 = last character)
Popped(id, k) ==
  LET b == id \div 4 IN
  IF k = 0 THEN b % 64
  ELSE IF k = 1 THEN (b \div 64) % 64
  ELSE IF k = 2 THEN (b \div 4096) % 64
  ELSE IF k = 3 THEN (b \div 262144) % 64
  ELSE IF k = 4 THEN (b \div 16777216) % 64
  ELSE IF k = 5 THEN (b \div 1073741824) % 64
  ELSE (b \div 68719476736) % 64
\* i-th character (1 = leftmost) of the decoded postcode
UnpackChar(id, i) == Popped(id, UnpackLen(id) - i)
UnpackOK(id) == \A k \in 0..6 : k < UnpackLen(id) => Popped(id, k) < 36

Char(c) == c \in Int /\ c >= 0 /\ c <= 35
Init == Char(c1) /\ Char(c2) /\ Char(c3) /\ Char(c4) /\ Char(c5) /\ Char(c6) /\ Char(c7)
Next == UNCHANGED <<c1, c2, c3, c4, c5, c6, c7>>

\* Unpack(Pack(c)) = c for n characters.  PostcodeFromPointID first decodes the length and then pops that many
\* characters: the first conjunct proves the decoded length is n, and with it UnpackChar(id, i) is
\* Popped(id, n - i), which is what the remaining conjuncts use (constant shift amounts for the solver).
RoundTrip5 == LET id == Pack(5, c1, c2, c3, c4, c5, c6, c7) IN
  /\ UnpackLen(id) = 5
  /\ Popped(id, 4) = c1 /\ Popped(id, 3) = c2 /\ Popped(id, 2) = c3 /\ Popped(id, 1) = c4 /\ Popped(id, 0) = c5
RoundTrip6 == LET id == Pack(6, c1, c2, c3, c4, c5, c6, c7) IN
  /\ UnpackLen(id) = 6
  /\ Popped(id, 5) = c1 /\ Popped(id, 4) = c2 /\ Popped(id, 3) = c3 /\ Popped(id, 2) = c4 /\ Popped(id, 1) = c5
  /\ Popped(id, 0) = c6
RoundTrip7 == LET id == Pack(7, c1, c2, c3, c4, c5, c6, c7) IN
  /\ UnpackLen(id) = 7
  /\ Popped(id, 6) = c1 /\ Popped(id, 5) = c2 /\ Popped(id, 4) = c3 /\ Popped(id, 3) = c4 /\ Popped(id, 2) = c5
  /\ Popped(id, 1) = c6 /\ Popped(id, 0) = c7
\* (every popped value equals a character < 36, so the decoder's "v >= 36 => fail" branch is not taken: UnpackOK)
====
